(* C48: proofs about coq/model/RBAC.v *)
From Coq Require Import List ZArith Bool Lia Permutation.
From VLib Require Import Codec Machine.
From VModel Require Import RBAC.
Import ListNotations.
Open Scope Z_scope.

(* ---------- strings ---------- *)
Lemma word_eqb_refl : forall a, word_eqb a a = true.
Proof. induction a as [|x a IH]; cbn; [reflexivity|]. rewrite Z.eqb_refl. exact IH. Qed.

Lemma word_eqb_eq : forall a b, word_eqb a b = true <-> a = b.
Proof.
  induction a as [|x a IH]; destruct b as [|y b]; cbn; split; intro H; try reflexivity; try discriminate.
  - apply andb_true_iff in H. destruct H as [H1 H2]. apply Z.eqb_eq in H1. apply IH in H2. congruence.
  - inversion H; subst. rewrite Z.eqb_refl. apply word_eqb_refl.
Qed.

Lemma str_eqb_eq : forall a b, str_eqb a b = true <-> a = b.
Proof. exact word_eqb_eq. Qed.

Lemma str_eqb_sym : forall a b, str_eqb a b = str_eqb b a.
Proof.
  intros a b. destruct (str_eqb a b) eqn:E1, (str_eqb b a) eqn:E2; try reflexivity.
  - apply str_eqb_eq in E1. subst. unfold str_eqb in E2. rewrite word_eqb_refl in E2. discriminate.
  - apply str_eqb_eq in E2. subst. unfold str_eqb in E1. rewrite word_eqb_refl in E1. discriminate.
Qed.

(* ---------- loops ---------- *)
Lemma or_loop_existsb : forall A (f : A -> bool) l, or_loop f l = existsb f l.
Proof. induction l as [|x l IH]; cbn; [reflexivity|]. destruct (f x); cbn; [reflexivity|exact IH]. Qed.

Lemma and_loop_forallb : forall A (f : A -> bool) l, and_loop f l = forallb f l.
Proof. induction l as [|x l IH]; cbn; [reflexivity|]. destruct (f x); cbn; [exact IH|reflexivity]. Qed.

Lemma existsb_Exists : forall A (f : A -> bool) l, existsb f l = true <-> Exists (fun x => f x = true) l.
Proof.
  intros. rewrite existsb_exists, Exists_exists. reflexivity.
Qed.

Lemma forallb_Forall' : forall A (f : A -> bool) l, forallb f l = true <-> Forall (fun x => f x = true) l.
Proof. intros. rewrite forallb_forall, Forall_forall. reflexivity. Qed.

Lemma existsb_ext_Forall : forall A (f g : A -> bool) l,
  Forall (fun x => f x = g x) l -> existsb f l = existsb g l.
Proof. induction 1 as [|x l H _ IH]; cbn; [reflexivity|]. rewrite H, IH. reflexivity. Qed.

Lemma forallb_ext_Forall : forall A (f g : A -> bool) l,
  Forall (fun x => f x = g x) l -> forallb f l = forallb g l.
Proof. induction 1 as [|x l H _ IH]; cbn; [reflexivity|]. rewrite H, IH. reflexivity. Qed.

Lemma existsb_map : forall A B (g : A -> B) (f : B -> bool) l,
  existsb f (map g l) = existsb (fun x => f (g x)) l.
Proof. induction l as [|x l IH]; cbn; [reflexivity|]. rewrite IH. reflexivity. Qed.

Lemma existsb_andb_const : forall A (b : bool) (f : A -> bool) l,
  l <> [] -> existsb (fun x => b && f x) l = b && existsb f l.
Proof.
  intros A b f l Hl. destruct b; cbn.
  - apply existsb_ext_Forall. apply Forall_forall. reflexivity.
  - induction l as [|x l IH]; [congruence|]. cbn. destruct l; [reflexivity|]. apply IH. discriminate.
Qed.

(* ---------- induction principle for the nested type ---------- *)
Section RuleInd.
  Variable P : rule -> Prop.
  Hypothesis HAnd : forall l, Forall P l -> P (RAnd l).
  Hypothesis HOr : forall l, Forall P l -> P (ROr l).
  Hypothesis HNot : forall r, P r -> P (RNot r).
  Hypothesis HLeaf : forall r, match r with RAnd _ | ROr _ | RNot _ => False | _ => True end -> P r.

  Fixpoint rule_ind2 (r : rule) : P r :=
    match r with
    | RAnd l => HAnd l ((fix go (l : list rule) : Forall P l :=
                           match l with
                           | [] => Forall_nil P
                           | x :: t => Forall_cons x (rule_ind2 x) (go t)
                           end) l)
    | ROr l => HOr l ((fix go (l : list rule) : Forall P l :=
                         match l with
                         | [] => Forall_nil P
                         | x :: t => Forall_cons x (rule_ind2 x) (go t)
                         end) l)
    | RNot r' => HNot r' (rule_ind2 r')
    | RAny => HLeaf RAny I
    | RHeader n h i => HLeaf (RHeader n h i) I
    | RPath m => HLeaf (RPath m) I
    | RDestIp c => HLeaf (RDestIp c) I
    | RDestPort p => HLeaf (RDestPort p) I
    | RMeta i => HLeaf (RMeta i) I
    | RSni m => HLeaf (RSni m) I
    | RAuth m => HLeaf (RAuth m) I
    | RRemoteIp c => HLeaf (RRemoteIp c) I
    end.
End RuleInd.

(* ---------- and / or / not / any ---------- *)
Definition matches (d : rpc) (r : rule) : Prop := mmatch d r = true.

Lemma match_and : forall d l, matches d (RAnd l) <-> Forall (matches d) l.
Proof. intros. unfold matches. cbn [mmatch]. rewrite and_loop_forallb. apply forallb_Forall'. Qed.

Lemma match_or : forall d l, matches d (ROr l) <-> Exists (matches d) l.
Proof. intros. unfold matches. cbn [mmatch]. rewrite or_loop_existsb. apply existsb_Exists. Qed.

Lemma match_not : forall d r, matches d (RNot r) <-> ~ matches d r.
Proof.
  intros. unfold matches. cbn [mmatch]. destruct (mmatch d r); cbn; split; intro H; try discriminate; try reflexivity.
  exfalso. apply H. reflexivity.
Qed.

Lemma match_any : forall d, matches d RAny.
Proof. reflexivity. Qed.

Lemma mmatch_sem_b : forall d r, mmatch d r = sem_b d r.
Proof.
  intros d. apply rule_ind2.
  - intros l H. cbn [mmatch sem_b]. rewrite and_loop_forallb. apply forallb_ext_Forall. exact H.
  - intros l H. cbn [mmatch sem_b]. rewrite or_loop_existsb. apply existsb_ext_Forall. exact H.
  - intros r H. cbn [mmatch sem_b]. rewrite H. reflexivity.
  - intros r H. destruct r; try contradiction; reflexivity.
Qed.

(* ---------- leaves ---------- *)
Lemma match_port : forall d p, matches d (RDestPort p) <-> r_dport d = p.
Proof. intros. unfold matches. cbn. apply Z.eqb_eq. Qed.

Lemma match_path : forall d m, matches d (RPath m) <-> sm_match m (r_path d) = true.
Proof. intros. reflexivity. Qed.

Lemma match_metadata : forall d inv, matches d (RMeta inv) <-> inv = true.
Proof. intros. reflexivity. Qed.

Lemma header_absent : forall md n h inv, value_from_md md n = None ->
  header_match md n h inv = match h with HPresent b => negb (xorb b inv) | _ => false end.
Proof.
  intros md n h inv H. unfold header_match. rewrite H.
  destruct h; reflexivity.
Qed.

Lemma header_present : forall md n h inv v, value_from_md md n = Some v ->
  header_match md n h inv =
  match h with
  | HPresent b => Bool.eqb (nonempty v) (xorb b inv)
  | _ => xorb (hs_value h v) inv
  end.
Proof. intros md n h inv v H. unfold header_match. rewrite H. destruct h; reflexivity. Qed.

Lemma header_value_joined : forall md n vs, md_get n md = Some vs -> value_from_md md n = Some (join vs).
Proof. intros md n vs H. unfold value_from_md. rewrite H. reflexivity. Qed.

(* authenticated principal: URI SANs, then DNS SANs, then subject *)
Lemma identities_uri : forall d c, r_cert d = Some c -> ct_uris c <> [] -> identities d = ct_uris c.
Proof. intros d c H Hu. unfold identities. rewrite H. destruct (ct_uris c); [congruence|reflexivity]. Qed.

Lemma identities_dns : forall d c, r_cert d = Some c -> ct_uris c = [] -> ct_dns c <> [] ->
  identities d = ct_dns c.
Proof. intros d c H Hu Hd. unfold identities. rewrite H, Hu. destruct (ct_dns c); [congruence|reflexivity]. Qed.

Lemma identities_subject : forall d c, r_cert d = Some c -> ct_uris c = [] -> ct_dns c = [] ->
  identities d = [ct_subject c].
Proof. intros d c H Hu Hd. unfold identities. rewrite H, Hu, Hd. reflexivity. Qed.

Lemma identities_nocert : forall d, r_cert d = None -> identities d = [[]].
Proof. intros d H. unfold identities. rewrite H. reflexivity. Qed.

Lemma auth_match_b : forall d sm,
  auth_match d (Some sm) = r_tls d && existsb (sm_match sm) (identities d).
Proof.
  intros d sm. unfold auth_match, identities. destruct (r_tls d); cbn; [|reflexivity].
  destruct (r_cert d) as [c|]; cbn.
  - destruct (ct_uris c) as [|u us] eqn:Eu; cbn [nonempty].
    + destruct (ct_dns c) as [|n ns] eqn:En; cbn [nonempty].
      * cbn. rewrite orb_false_r. reflexivity.
      * rewrite or_loop_existsb. reflexivity.
    + rewrite or_loop_existsb. reflexivity.
  - rewrite orb_false_r. reflexivity.
Qed.

Lemma match_authenticated : forall d sm,
  matches d (RAuth (Some sm)) <->
  r_tls d = true /\ Exists (fun id => sm_match sm id = true) (identities d).
Proof.
  intros. unfold matches. cbn [mmatch]. rewrite auth_match_b, andb_true_iff, existsb_Exists. reflexivity.
Qed.

Lemma match_authenticated_any : forall d, matches d (RAuth None) <-> r_tls d = true.
Proof. intros. unfold matches. cbn. unfold auth_match. destruct (r_tls d); cbn; reflexivity. Qed.

(* CIDR: membership = same family and inside the aligned block of 2^(bits-len) addresses *)
Lemma cidr_range : forall c a,
  cidr_valid c = true ->
  let size := 2 ^ (bits_of (c_fam c) - c_len c) in
  let base := c_val c - c_val c mod size in
  cidr_contains c a = true <-> (fst a = c_fam c /\ base <= snd a < base + size).
Proof.
  intros c a Hv size base.
  unfold cidr_valid in Hv. repeat rewrite andb_true_iff in Hv. destruct Hv as [[_ Hl0] Hl1].
  apply Z.leb_le in Hl0. apply Z.leb_le in Hl1.
  assert (Hs : 0 < size) by (apply Z.pow_pos_nonneg; lia).
  unfold cidr_contains. fold size. rewrite andb_true_iff, !Z.eqb_eq.
  pose proof (Z.div_mod (c_val c) size ltac:(lia)) as Hc.
  pose proof (Z.div_mod (snd a) size ltac:(lia)) as Ha.
  pose proof (Z.mod_pos_bound (c_val c) size Hs) as Hcm.
  pose proof (Z.mod_pos_bound (snd a) size Hs) as Ham.
  split.
  - intros [Hf Hq]. split; [congruence|]. subst base. rewrite Hq in Hc. lia.
  - intros [Hf [Hlo Hhi]]. split; [congruence|]. subst base.
    assert (Hb : c_val c - c_val c mod size = size * (c_val c / size)) by lia.
    rewrite Hb in Hlo, Hhi.
    apply (Z.div_unique_pos (snd a) size (c_val c / size) (snd a - size * (c_val c / size))); lia.
Qed.

(* ---------- policies and engines ---------- *)
Definition policy_matches (d : rpc) (p : policy) : Prop :=
  Exists (matches d) (p_perms p) /\ Exists (matches d) (p_princs p).

Lemma policy_match_spec : forall d p, policy_match d p = true <-> policy_matches d p.
Proof.
  intros. unfold policy_match, policy_matches. rewrite andb_true_iff, !or_loop_existsb, !existsb_Exists.
  reflexivity.
Qed.

Lemma policy_match_sem_b : forall d p, policy_match d p = policy_sem_b d p.
Proof.
  intros. unfold policy_match, policy_sem_b. rewrite !or_loop_existsb.
  f_equal; apply existsb_ext_Forall; apply Forall_forall; intros; apply mmatch_sem_b.
Qed.

Lemma find_ok : forall d ps i, snd (find_matching d i ps) = existsb (policy_match d) ps.
Proof.
  intros d ps. induction ps as [|p ps IH]; intro i; cbn; [reflexivity|].
  destruct (policy_match d p); cbn; [reflexivity|apply IH].
Qed.

Lemma find_ok_spec : forall d ps i,
  snd (find_matching d i ps) = true <-> Exists (policy_matches d) ps.
Proof.
  intros. rewrite find_ok, existsb_Exists. split; intro H; eapply Exists_impl; try exact H;
  intros p Hp; apply policy_match_spec; exact Hp.
Qed.

(* Go ranges over the policies map in random order: the found flag does not depend on it *)
Lemma existsb_perm : forall A (f : A -> bool) l l', Permutation l l' -> existsb f l = existsb f l'.
Proof.
  induction 1; cbn; try congruence.
  - destruct (f y), (f x); reflexivity.
Qed.

Lemma find_ok_perm : forall d ps ps' i j, Permutation ps ps' ->
  snd (find_matching d i ps) = snd (find_matching d j ps').
Proof. intros. rewrite !find_ok. apply existsb_perm. assumption. Qed.

Definition engine_passes (d : rpc) (e : engine) : Prop :=
  (e_action e = 1 -> ~ Exists (policy_matches d) (e_policies e)) /\
  (e_action e = 0 -> Exists (policy_matches d) (e_policies e)).

Lemma is_authorized_spec : forall d es,
  is_authorized d es = true <-> Forall (engine_passes d) es.
Proof.
  intros d es. induction es as [|e es IH]; cbn [is_authorized].
  - split; [constructor|reflexivity].
  - pose proof (find_ok_spec d (e_policies e) 0) as Hf.
    destruct (snd (find_matching d 0 (e_policies e))) eqn:Eok.
    + assert (Hex : Exists (policy_matches d) (e_policies e)) by (apply Hf; reflexivity).
      rewrite andb_false_r. cbn [negb]. rewrite andb_true_r.
      destruct (e_action e =? 1) eqn:Ea.
      * apply Z.eqb_eq in Ea. split; [discriminate|]. intro H. inversion H as [|? ? [H1 _] _]; subst.
        exfalso. exact (H1 Ea Hex).
      * apply Z.eqb_neq in Ea. rewrite IH. split.
        -- intro H. constructor; [|exact H]. split; [intro; contradiction|intro; exact Hex].
        -- intro H. inversion H; assumption.
    + assert (Hnex : ~ Exists (policy_matches d) (e_policies e)).
      { intro H. apply Hf in H. discriminate. }
      cbn [negb]. rewrite andb_true_r, andb_false_r.
      destruct (e_action e =? 0) eqn:Ea.
      * apply Z.eqb_eq in Ea. split; [discriminate|]. intro H. inversion H as [|? ? [_ H2] _]; subst.
        exfalso. exact (Hnex (H2 Ea)).
      * apply Z.eqb_neq in Ea. rewrite IH. split.
        -- intro H. constructor; [|exact H]. split; [intros _; exact Hnex|intro; contradiction].
        -- intro H. inversion H; assumption.
Qed.

Lemma is_authorized_perm : forall d e e' es,
  e_action e = e_action e' -> Permutation (e_policies e) (e_policies e') ->
  is_authorized d (e :: es) = is_authorized d (e' :: es).
Proof.
  intros d e e' es Ha Hp. cbn [is_authorized].
  rewrite (find_ok_perm d _ _ 0 0 Hp), Ha. reflexivity.
Qed.

Definition actions_ok (es : list engine) : bool :=
  forallb (fun e => (e_action e =? 0) || (e_action e =? 1)) es.

Lemma is_authorized_sem_b : forall d es, actions_ok es = true ->
  is_authorized d es = chain_sem_b d es.
Proof.
  intros d es. induction es as [|e es IH]; intro H; [reflexivity|].
  cbn in H. apply andb_true_iff in H. destruct H as [Ha Hr].
  cbn [is_authorized chain_sem_b forallb]. rewrite find_ok, (IH Hr).
  unfold engine_sem_b.
  assert (Hex : existsb (policy_match d) (e_policies e) = existsb (policy_sem_b d) (e_policies e)).
  { apply existsb_ext_Forall. apply Forall_forall. intros. apply policy_match_sem_b. }
  rewrite <- Hex.
  apply orb_true_iff in Ha. destruct Ha as [Ha|Ha]; apply Z.eqb_eq in Ha; rewrite Ha; cbn;
    destruct (existsb (policy_match d) (e_policies e)); reflexivity.
Qed.

Lemma valid_actions_ok : forall es, forallb engine_valid es = true -> actions_ok es = true.
Proof.
  intros es H. unfold actions_ok. rewrite forallb_forall in *. intros e He.
  specialize (H e He). unfold engine_valid in H. apply andb_true_iff in H. tauto.
Qed.

(* ---------- the SDK translator ---------- *)
Lemma fold_case_false : forall s, fold_case false s = s.
Proof. reflexivity. Qed.

Lemma sm_wild : forall v s, sm_match (get_string_matcher v) s = wild_match v s.
Proof.
  intros v s. unfold get_string_matcher, wild_match.
  destruct (is_star v); [reflexivity|].
  destruct (ends_star v); [reflexivity|].
  destruct (starts_star v); reflexivity.
Qed.

Lemma hs_wild : forall md k v,
  header_match md k (get_header_matcher v) false =
  match value_from_md md k with Some hv => wild_match v hv | None => false end.
Proof.
  intros md k v. unfold get_header_matcher, wild_match, header_match.
  destruct (is_star v); [destruct (value_from_md md k); [apply xorb_false_r|reflexivity]|].
  destruct (ends_star v); [destruct (value_from_md md k); [apply xorb_false_r|reflexivity]|].
  destruct (starts_star v); (destruct (value_from_md md k); [apply xorb_false_r|reflexivity]).
Qed.

Lemma peer_sem : forall d ps,
  mmatch d (parse_peer ps) =
  match ps with
  | [] => true
  | _ => r_tls d && existsb (fun p => existsb (wild_match p) (identities d)) ps
  end.
Proof.
  intros d ps. destruct ps as [|p ps]; [reflexivity|].
  unfold parse_peer. cbn [mmatch]. rewrite or_loop_existsb, existsb_map.
  rewrite <- existsb_andb_const by discriminate.
  apply existsb_ext_Forall. apply Forall_forall. intros x _. cbn [mmatch]. rewrite auth_match_b.
  f_equal. apply existsb_ext_Forall. apply Forall_forall. intros y _. apply sm_wild.
Qed.

Definition header_clause (d : rpc) (h : str * list str) : bool :=
  existsb (fun v => match value_from_md (r_md d) (lower (fst h)) with
                    | Some hv => wild_match v hv
                    | None => false
                    end) (snd h).

Lemma header_or_sem : forall d k vs,
  mmatch d (ROr (map (fun v => RHeader k (get_header_matcher v) false) vs)) =
  existsb (fun v => match value_from_md (r_md d) k with
                    | Some hv => wild_match v hv
                    | None => false
                    end) vs.
Proof.
  intros. cbn [mmatch]. rewrite or_loop_existsb, existsb_map.
  apply existsb_ext_Forall. apply Forall_forall. intros x _. cbn [mmatch]. apply hs_wild.
Qed.

Lemma headers_sem : forall d hs rs, parse_headers hs = Some rs ->
  forallb (mmatch d) rs = forallb (header_clause d) hs.
Proof.
  intros d hs. induction hs as [|[k vs] hs IH]; intros rs H; cbn [parse_headers] in H.
  - inversion H. reflexivity.
  - destruct (negb (nonempty k)); [discriminate|].
    destruct (unsupported_header (lower k)); [discriminate|].
    destruct vs as [|v vs]; [discriminate|].
    destruct (parse_headers hs) as [rs'|]; [|discriminate].
    inversion H; subst. cbn [forallb]. rewrite (IH rs' eq_refl). f_equal.
    exact (header_or_sem d (lower k) (v :: vs)).
Qed.

Definition paths_clause (d : rpc) (paths : list str) : bool :=
  match paths with
  | [] => true
  | ps => existsb (fun p => wild_match p (r_path d)) ps
  end.

Lemma paths_or_sem : forall d ps,
  mmatch d (ROr (map (fun p => RPath (get_string_matcher p)) ps)) =
  existsb (fun p => wild_match p (r_path d)) ps.
Proof.
  intros. cbn [mmatch]. rewrite or_loop_existsb, existsb_map.
  apply existsb_ext_Forall. apply Forall_forall. intros x _. cbn [mmatch]. apply sm_wild.
Qed.

Lemma request_sem : forall d paths hs perm, parse_request paths hs = Some perm ->
  mmatch d perm = paths_clause d paths && forallb (header_clause d) hs.
Proof.
  intros d paths hs perm H. unfold parse_request in H.
  set (pr := ROr (map (fun p => RPath (get_string_matcher p)) paths)) in H.
  assert (Hpr : paths <> [] -> mmatch d pr = paths_clause d paths).
  { intro Hne. subst pr. rewrite paths_or_sem. destruct paths; [congruence|reflexivity]. }
  clearbody pr.
  destruct hs as [|h hs].
  - inversion H; subst. cbn [forallb]. rewrite andb_true_r.
    destruct paths as [|p ps]; [reflexivity|].
    cbn [mmatch and_loop]. rewrite Hpr by discriminate.
    destruct (paths_clause d (p :: ps)); reflexivity.
  - destruct (parse_headers (h :: hs)) as [rs|] eqn:Eh; [|discriminate].
    inversion H; subst. rewrite <- (headers_sem d _ _ Eh).
    destruct paths as [|p ps].
    + cbn [app mmatch and_loop paths_clause]. rewrite and_loop_forallb.
      destruct (forallb (mmatch d) rs); reflexivity.
    + cbn [app]. cbn [mmatch and_loop]. rewrite Hpr by discriminate. rewrite and_loop_forallb.
      destruct (paths_clause d (p :: ps)); cbn; [|reflexivity].
      destruct (forallb (mmatch d) rs); reflexivity.
Qed.

Lemma srule_b_unfold : forall d r,
  srule_b d r =
  (match sr_principals r with
   | [] => true
   | ps => r_tls d && existsb (fun p => existsb (wild_match p) (identities d)) ps
   end) && paths_clause d (sr_paths r) && forallb (header_clause d) (sr_headers r).
Proof.
  intros. unfold srule_b, paths_clause, header_clause.
  destruct (sr_principals r), (sr_paths r); reflexivity.
Qed.

Lemma rule_policy_sem : forall d r perm, parse_request (sr_paths r) (sr_headers r) = Some perm ->
  policy_match d (mkpolicy [perm] [parse_peer (sr_principals r)]) = srule_b d r.
Proof.
  intros d r perm H. unfold policy_match. cbn [p_perms p_princs or_loop].
  rewrite (request_sem d _ _ _ H), peer_sem, srule_b_unfold.
  destruct (sr_principals r);
  destruct (paths_clause d (sr_paths r)), (forallb (header_clause d) (sr_headers r)); cbn;
  try reflexivity;
  match goal with |- context [r_tls ?d && ?x] => destruct (r_tls d && x) end; reflexivity.
Qed.

Lemma existsb_app' : forall A (f : A -> bool) l1 l2, existsb f (l1 ++ l2) = existsb f l1 || existsb f l2.
Proof. intros. apply existsb_app. Qed.

Lemma parse_rules_sem : forall d rules acc ps, parse_rules acc rules = Some ps ->
  existsb (policy_match d) (map snd ps) =
  existsb (policy_match d) (map snd acc) || existsb (srule_b d) rules.
Proof.
  intros d rules. induction rules as [|r rules IH]; intros acc ps H; cbn [parse_rules] in H.
  - inversion H; subst. cbn. rewrite orb_false_r. reflexivity.
  - destruct (negb (nonempty (sr_name r))); [discriminate|].
    destruct (parse_request (sr_paths r) (sr_headers r)) as [perm|] eqn:Er; [|discriminate].
    destruct (existsb _ acc); [discriminate|].
    rewrite (IH _ _ H). rewrite map_app, existsb_app'. cbn [map snd existsb].
    rewrite (rule_policy_sem d r perm Er). rewrite orb_false_r, orb_assoc. reflexivity.
Qed.

Lemma NoDup_app_snoc : forall A (l : list A) x, NoDup l -> ~ In x l -> NoDup (l ++ [x]).
Proof.
  induction l as [|y l IH]; intros x Hn Hx; cbn.
  - constructor; [intros []|constructor].
  - inversion Hn; subst. constructor.
    + rewrite in_app_iff. cbn. intros [H|[H|[]]]; [contradiction|]. subst. apply Hx. left. reflexivity.
    + apply IH; [assumption|]. intro. apply Hx. right. assumption.
Qed.

Lemma parse_rules_names : forall rules acc ps, parse_rules acc rules = Some ps ->
  map fst ps = map fst acc ++ map sr_name rules /\
  (NoDup (map fst acc) -> NoDup (map fst ps)).
Proof.
  induction rules as [|r rules IH]; intros acc ps H; cbn [parse_rules] in H.
  - inversion H; subst. cbn. rewrite app_nil_r. auto.
  - destruct (negb (nonempty (sr_name r))); [discriminate|].
    destruct (parse_request (sr_paths r) (sr_headers r)) as [perm|]; [|discriminate].
    destruct (existsb (fun e => str_eqb (fst e) (sr_name r)) acc) eqn:Ex; [discriminate|].
    destruct (IH _ _ H) as [Hn Hd]. split.
    + rewrite Hn, map_app. cbn. rewrite <- app_assoc. reflexivity.
    + intro Hacc. apply Hd. rewrite map_app. cbn.
      apply NoDup_app_snoc; [exact Hacc|].
      intro Hin. apply in_map_iff in Hin. destruct Hin as [e [He Hin]].
      assert (Ht : existsb (fun e => str_eqb (fst e) (sr_name r)) acc = true).
      { apply existsb_exists. exists e. split; [exact Hin|]. apply str_eqb_eq. exact He. }
      congruence.
Qed.

Lemma single_allow : forall d ps, is_authorized d [mkengine 0 ps] = existsb (policy_match d) ps.
Proof.
  intros. cbn [is_authorized e_action e_policies]. rewrite find_ok.
  destruct (existsb (policy_match d) ps); reflexivity.
Qed.

Lemma deny_then : forall d ps es,
  is_authorized d (mkengine 1 ps :: es) = negb (existsb (policy_match d) ps) && is_authorized d es.
Proof.
  intros. cbn [is_authorized e_action e_policies]. rewrite find_ok.
  destruct (existsb (policy_match d) ps); reflexivity.
Qed.

Lemma translate_sem : forall p es d, translate p = Some es ->
  is_authorized d es = sdk_sem_b d p.
Proof.
  intros p es d H. unfold translate in H.
  destruct (negb (nonempty (s_name p))); [discriminate|].
  destruct (s_allow p) as [|a al] eqn:Ea; [discriminate|].
  unfold sdk_sem_b. rewrite Ea.
  destruct (s_deny p) as [|dr dl] eqn:Ed.
  - destruct (parse_rules [] (a :: al)) as [ps|] eqn:Ep; [|discriminate].
    inversion H; subst. cbn [app]. rewrite single_allow, (parse_rules_sem d _ _ _ Ep). reflexivity.
  - destruct (parse_rules [] (dr :: dl)) as [pd|] eqn:Epd; [|discriminate].
    destruct (parse_rules [] (a :: al)) as [ps|] eqn:Ep; [|discriminate].
    inversion H; subst. cbn [app]. rewrite deny_then, single_allow.
    rewrite (parse_rules_sem d _ _ _ Ep), (parse_rules_sem d _ _ _ Epd). reflexivity.
Qed.

Lemma new_static_sem : forall p es d, new_static p = Some es ->
  is_authorized d es = sdk_sem_b d p.
Proof.
  intros p es d H. unfold new_static in H.
  destruct (translate p) as [es'|] eqn:Et; [|discriminate].
  unfold load_chain in H. destruct (forallb engine_valid es'); [|discriminate].
  inversion H; subst. exact (translate_sem p es d Et).
Qed.

(* the decision in the words of the property *)
Definition srule_matches (d : rpc) (r : srule) : Prop := srule_b d r = true.

Lemma sdk_decision : forall p es d, new_static p = Some es ->
  (is_authorized d es = false <->
   Exists (srule_matches d) (s_deny p) \/ ~ Exists (srule_matches d) (s_allow p)).
Proof.
  intros p es d H. rewrite (new_static_sem p es d H). unfold sdk_sem_b.
  rewrite andb_false_iff, negb_false_iff, existsb_Exists.
  split; (intros [H1|H1]; [left; exact H1|right]).
  - intro H2. apply existsb_Exists in H2. congruence.
  - destruct (existsb (srule_b d) (s_allow p)) eqn:E; [|reflexivity].
    exfalso. apply H1. apply existsb_Exists. exact E.
Qed.

Lemma translate_nodup : forall p es, translate p = Some es ->
  NoDup (map sr_name (s_deny p)) /\ NoDup (map sr_name (s_allow p)).
Proof.
  intros p es H. unfold translate in H.
  destruct (negb (nonempty (s_name p))); [discriminate|].
  destruct (s_allow p) as [|a al] eqn:Ea; [discriminate|].
  assert (Hallow : forall ps, parse_rules [] (a :: al) = Some ps -> NoDup (map sr_name (a :: al))).
  { intros ps Hp. destruct (parse_rules_names _ _ _ Hp) as [Hn Hd]. cbn [map app fst] in Hn.
    change (sr_name a :: map sr_name al) with (map sr_name (a :: al)) in Hn.
    rewrite <- Hn. apply Hd. constructor. }
  destruct (s_deny p) as [|dr dl] eqn:Ed.
  - destruct (parse_rules [] (a :: al)) as [ps|] eqn:Ep; [|discriminate].
    split; [constructor|]. exact (Hallow ps eq_refl).
  - destruct (parse_rules [] (dr :: dl)) as [pd|] eqn:Epd; [|discriminate].
    destruct (parse_rules [] (a :: al)) as [ps|] eqn:Ep; [|discriminate].
    split; [|exact (Hallow ps eq_refl)].
    destruct (parse_rules_names _ _ _ Epd) as [Hn Hd]. cbn [map app fst] in Hn.
    change (sr_name dr :: map sr_name dl) with (map sr_name (dr :: dl)) in Hn.
    rewrite <- Hn. apply Hd. constructor.
Qed.

(* duplicate names are rejected (fix: commit d7c477f): a witness *)
Lemma sdk_duplicate_rejected :
  let r1 := mksrule [114] [] [[47;97]] [] in
  let r2 := mksrule [114] [] [[47;98]] [] in
  translate (mksdk [112] [r1; r2] [mksrule [97] [] [] []]) = None.
Proof. vm_compute. reflexivity. Qed.

(* ---------- bridge ---------- *)
Definition rel (st : option (list engine)) (ls : loaded) : Prop :=
  match ls with
  | LNone => st = None
  | LChain es => st = Some es /\ forallb engine_valid es = true
  | LSdk p => exists es, new_static p = Some es /\ st = Some es
  end.

Lemma sel_refl : forall b : bool, ((if b then 0 else 1) =? (if b then 0 else 1)) = true.
Proof. intros. apply Z.eqb_refl. Qed.

Lemma bridge_d : forall ops st ls, rel st ls ->
  forallb (fun c => snd c) (clauses_d ls ops (run_d st ops)) = true.
Proof.
  induction ops as [|op ops IH]; intros st ls Hr; [reflexivity|].
  destruct op as [es|p|d|defect via d]; cbn [run_d clauses_d].
  - unfold load_chain. destruct (forallb engine_valid es) eqn:Ev; cbn [b2z Z.eqb forallb snd orb];
      cbn; apply IH; cbn; auto.
  - destruct (new_static p) as [es|] eqn:En; cbn [b2z]; cbn; apply IH; cbn; eauto.
  - cbn [forallb]. rewrite (IH st ls Hr), andb_true_r.
    unfold req_clause, req_code. destruct ls as [|es|p]; cbn in Hr.
    + subst. reflexivity.
    + destruct Hr as [Hs Hv]. subst. cbn [snd].
      rewrite (is_authorized_sem_b d es (valid_actions_ok es Hv)). apply sel_refl.
    + destruct Hr as [es [Hn Hs]]. subst. cbn [snd].
      rewrite (new_static_sem p es d Hn). apply sel_refl.
  - assert (Hal : forall es, st = Some es -> ls <> LNone /\ is_authorized d es = allowed_b ls d).
    { intros es Hs. destruct ls as [|es'|p]; cbn in Hr.
      - congruence.
      - destruct Hr as [Hs' Hv]. split; [discriminate|]. assert (es' = es) by congruence. subst es'.
        exact (is_authorized_sem_b d es (valid_actions_ok es Hv)).
      - destruct Hr as [es' [Hn Hs']]. split; [discriminate|]. assert (es' = es) by congruence. subst es'.
        exact (new_static_sem p es d Hn). }
    unfold call_word. destruct st as [es|].
    + destruct (Hal es eq_refl) as [Hne Ha]. unfold intercept. rewrite Ha.
      rewrite forallb_app, (IH (Some es) ls Hr), andb_true_r.
      unfold call_clauses.
      destruct (defect =? 0) eqn:Ed; cbn [negb fst snd b2z];
        destruct ls as [|es'|p]; try congruence;
        destruct (allowed_b _ d); reflexivity.
    + assert (ls = LNone) by (destruct ls as [|es'|p]; cbn in Hr; [reflexivity|destruct Hr; congruence|destruct Hr as [? [? ?]]; congruence]).
      subst ls. rewrite forallb_app, (IH None LNone Hr), andb_true_r. reflexivity.
Qed.

(* the interceptor, in the words of the property: an RPC reaches the service handler only
   if its context was complete (so that the policy was evaluated) and the policy allows it *)
Lemma handler_only_if_allowed : forall p es defect d, new_static p = Some es ->
  snd (intercept es defect d) = true ->
  defect = 0 /\ ~ Exists (srule_matches d) (s_deny p) /\ Exists (srule_matches d) (s_allow p).
Proof.
  intros p es defect d Hn H. unfold intercept in H.
  destruct (defect =? 0) eqn:Ed; cbn [negb] in H; [|discriminate].
  apply Z.eqb_eq in Ed. split; [exact Ed|].
  destruct (is_authorized d es) eqn:Ea; [|discriminate].
  rewrite (new_static_sem p es d Hn) in Ea. unfold sdk_sem_b in Ea.
  apply andb_true_iff in Ea. destruct Ea as [E1 E2]. split.
  - intro Hex. apply existsb_Exists in Hex. unfold srule_matches in *. rewrite Hex in E1. discriminate.
  - apply existsb_Exists. exact E2.
Qed.

Lemma handler_iff : forall es defect d,
  snd (intercept es defect d) = true <-> defect = 0 /\ is_authorized d es = true.
Proof.
  intros. unfold intercept. destruct (defect =? 0) eqn:Ed; cbn [negb].
  - apply Z.eqb_eq in Ed. destruct (is_authorized d es); cbn; split; intro H; try tauto; try discriminate.
  - apply Z.eqb_neq in Ed. cbn. split; [discriminate|]. intros [H _]. contradiction.
Qed.

Lemma model_trace_holds : forall ops, ops_wf ops = true ->
  exists obs, run ops = Some obs /\ holds_b ops obs = true.
Proof.
  intros ops H. unfold ops_wf in H. unfold run, holds_b, clauses.
  destruct (decode_ops ops) as [ds|]; [|discriminate].
  eexists. split; [reflexivity|]. apply bridge_d. reflexivity.
Qed.

(* ---------- the SDK rule language in words ---------- *)
Lemma has_prefix_spec : forall p s, has_prefix s p = true <-> exists t, s = p ++ t.
Proof.
  induction p as [|x p IH]; intros s.
  - destruct s; cbn; (split; [intros _; eexists; reflexivity|reflexivity]).
  - destruct s as [|y s]; cbn.
    + split; [discriminate|]. intros [t Ht]. discriminate.
    + rewrite andb_true_iff, Z.eqb_eq, IH. split.
      * intros [Hx [t Ht]]. subst. exists t. reflexivity.
      * intros [t Ht]. inversion Ht; subst. split; [reflexivity|]. exists t. reflexivity.
Qed.

Lemma has_suffix_spec : forall p s, has_suffix s p = true <-> exists t, s = t ++ p.
Proof.
  intros p s. unfold has_suffix. rewrite has_prefix_spec. split; intros [t Ht].
  - exists (rev t). rewrite <- (rev_involutive s), Ht, rev_app_distr, rev_involutive. reflexivity.
  - exists (rev t). rewrite Ht, rev_app_distr. reflexivity.
Qed.

Lemma regex_nonempty_spec : forall s, regex_match 0 s = true <-> s <> [] /\ ~ In 10 s.
Proof.
  intros s. unfold regex_match. rewrite andb_true_iff, forallb_forall. cbn. split.
  - intros [H1 H2]. split.
    + destruct s; [discriminate|discriminate].
    + intro Hin. specialize (H1 10 Hin). discriminate.
  - intros [H1 H2]. split.
    + intros c Hc. destruct (c =? 10) eqn:E; [|reflexivity]. apply Z.eqb_eq in E. subst. contradiction.
    + destruct s; [congruence|reflexivity].
Qed.

Lemma wild_match_spec : forall pat s,
  wild_match pat s = true <->
  if is_star pat then s <> [] /\ ~ In 10 s
  else if ends_star pat then exists t, s = removelast pat ++ t
  else if starts_star pat then exists t, s = t ++ tl pat
  else s = pat.
Proof.
  intros pat s. unfold wild_match.
  destruct (is_star pat); [apply regex_nonempty_spec|].
  destruct (ends_star pat); [apply has_prefix_spec|].
  destruct (starts_star pat); [apply has_suffix_spec|].
  apply str_eqb_eq.
Qed.

Lemma srule_matches_spec : forall d r,
  srule_matches d r <->
  (sr_principals r = [] \/
   (r_tls d = true /\ exists p, In p (sr_principals r) /\
                      exists id, In id (identities d) /\ wild_match p id = true)) /\
  (sr_paths r = [] \/ exists p, In p (sr_paths r) /\ wild_match p (r_path d) = true) /\
  (forall k vs, In (k, vs) (sr_headers r) ->
     exists v, In v vs /\ exists hv, value_from_md (r_md d) (lower k) = Some hv /\ wild_match v hv = true).
Proof.
  intros d r. unfold srule_matches. rewrite srule_b_unfold, !andb_true_iff.
  assert (H1 : (match sr_principals r with
                | [] => true
                | _ :: _ => r_tls d && existsb (fun p => existsb (wild_match p) (identities d)) (sr_principals r)
                end = true) <->
               (sr_principals r = [] \/
                (r_tls d = true /\ exists p, In p (sr_principals r) /\
                      exists id, In id (identities d) /\ wild_match p id = true))).
  { destruct (sr_principals r) as [|p0 ps] eqn:E.
    - split; [left; reflexivity|reflexivity].
    - rewrite andb_true_iff, existsb_exists. split.
      + intros [Ht [p [Hp Hx]]]. right. split; [exact Ht|]. exists p. split; [exact Hp|].
        apply existsb_exists in Hx. exact Hx.
      + intros [Hc|[Ht [p [Hp Hx]]]]; [discriminate|]. split; [exact Ht|]. exists p. split; [exact Hp|].
        apply existsb_exists. exact Hx. }
  assert (H2 : paths_clause d (sr_paths r) = true <->
               (sr_paths r = [] \/ exists p, In p (sr_paths r) /\ wild_match p (r_path d) = true)).
  { unfold paths_clause. destruct (sr_paths r) as [|p0 ps] eqn:E.
    - split; [left; reflexivity|reflexivity].
    - rewrite existsb_exists. split; [intro H; right; exact H|intros [Hc|H]; [discriminate|exact H]]. }
  assert (H3 : forallb (header_clause d) (sr_headers r) = true <->
               (forall k vs, In (k, vs) (sr_headers r) ->
                exists v, In v vs /\ exists hv, value_from_md (r_md d) (lower k) = Some hv /\ wild_match v hv = true)).
  { rewrite forallb_forall. split.
    - intros H k vs Hin. specialize (H (k, vs) Hin). unfold header_clause in H. cbn [fst snd] in H.
      apply existsb_exists in H. destruct H as [v [Hv Hm]]. exists v. split; [exact Hv|].
      destruct (value_from_md (r_md d) (lower k)) as [hv|]; [|discriminate]. exists hv. auto.
    - intros H [k vs] Hin. destruct (H k vs Hin) as [v [Hv [hv [Hg Hm]]]].
      unfold header_clause. cbn [fst snd]. apply existsb_exists. exists v. split; [exact Hv|].
      rewrite Hg. exact Hm. }
  destruct (sr_principals r) eqn:Ep; rewrite <- ?Ep in *; tauto.
Qed.
