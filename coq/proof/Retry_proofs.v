(* Proofs for model/Retry.v (C18). *)
From Coq Require Import List ZArith Bool Lia.
From VLib Require Import Codec.
From VModel Require Import Retry.
Import ListNotations.
Open Scope Z_scope.

Lemma word_eqb_refl : forall w, word_eqb w w = true.
Proof. induction w as [|x w IH]; cbn; [reflexivity|]. rewrite Z.eqb_refl, IH. reflexivity. Qed.

(* ---------- the decision function ---------- *)
Theorem retry_only_uncommitted : forall f, should_retry f <> NoRetry ->
  f_finished f = false /\ f_committed f = false /\ f_drop f = false.
Proof.
  intros f H. unfold should_retry in H.
  destruct (f_finished f), (f_committed f), (f_drop f); cbn in H; try congruence. auto.
Qed.

Theorem retry_requirements : forall f, should_retry f = Retry ->
  f_disable_retry f = false /\
  (f_has_stream f = true -> f_trailers_only f = true /\ f_pushback f <> 2 /\ f_pushback f <> 3) /\
  f_has_policy f = true /\ f_code_in_policy f = true /\ f_throttled f = false /\
  f_num_retries f + 1 < f_max_attempts f.
Proof.
  intros f H. unfold should_retry in H.
  destruct (f_finished f || f_committed f || f_drop f); [discriminate|].
  destruct (negb (f_has_stream f) && f_allow_transparent f); [discriminate|].
  destruct (f_first_attempt f && (f_has_stream f && f_unprocessed f)); [discriminate|].
  destruct (f_disable_retry f); [discriminate|].
  destruct (f_has_stream f) eqn:Hs; cbn [andb] in H.
  - destruct (f_trailers_only f); cbn in H; [|discriminate].
    destruct (Z.eqb_spec (f_pushback f) 2); cbn in H; [discriminate|].
    destruct (Z.eqb_spec (f_pushback f) 3); cbn in H; [discriminate|].
    destruct (f_has_policy f); cbn in H; [|discriminate]. destruct (f_code_in_policy f); cbn in H; [|discriminate].
    destruct (f_throttled f); [discriminate|]. destruct (Z.geb_spec (f_num_retries f + 1) (f_max_attempts f)); [discriminate|].
    repeat split; auto; lia.
  - destruct (f_has_policy f); cbn in H; [|discriminate]. destruct (f_code_in_policy f); cbn in H; [|discriminate].
    destruct (f_throttled f); [discriminate|]. destruct (Z.geb_spec (f_num_retries f + 1) (f_max_attempts f)); [discriminate|].
    repeat split; auto; try lia; intros; discriminate.
Qed.

Theorem transparent_only_unprocessed : forall f, should_retry f = Transparent ->
  (f_has_stream f = false /\ f_allow_transparent f = true) \/
  (f_first_attempt f = true /\ f_has_stream f = true /\ f_unprocessed f = true).
Proof.
  intros f H. unfold should_retry in H.
  destruct (f_finished f || f_committed f || f_drop f); [discriminate|].
  destruct (f_has_stream f), (f_allow_transparent f); cbn [negb andb] in H; auto.
  - destruct (f_first_attempt f), (f_unprocessed f); cbn [andb] in H; auto.
    all: destruct (f_disable_retry f); try discriminate; destruct (negb (f_trailers_only f)); try discriminate;
      destruct ((f_pushback f =? 2) || (f_pushback f =? 3)); try discriminate;
      destruct (negb (f_has_policy f) || negb (f_code_in_policy f)); try discriminate;
      destruct (f_throttled f); try discriminate; destruct (f_num_retries f + 1 >=? f_max_attempts f); discriminate.
  - destruct (f_first_attempt f), (f_unprocessed f); cbn [andb] in H; auto.
    all: destruct (f_disable_retry f); try discriminate; destruct (negb (f_trailers_only f)); try discriminate;
      destruct ((f_pushback f =? 2) || (f_pushback f =? 3)); try discriminate;
      destruct (negb (f_has_policy f) || negb (f_code_in_policy f)); try discriminate;
      destruct (f_throttled f); try discriminate; destruct (f_num_retries f + 1 >=? f_max_attempts f); discriminate.
  - rewrite andb_false_r in H. destruct (f_disable_retry f); try discriminate.
    cbn in H. destruct (negb (f_has_policy f) || negb (f_code_in_policy f)); try discriminate;
      destruct (f_throttled f); try discriminate; destruct (f_num_retries f + 1 >=? f_max_attempts f); discriminate.
Qed.

(* ---------- one RPC ---------- *)
Lemma retry_iff_retryable : forall p ovf k sc, script_ok sc = true ->
  (should_retry (attempt_facts p ovf k sc) = Retry <-> retryable p ovf k sc = true).
Proof.
  intros p ovf k sc Hok. unfold script_ok in Hok.
  repeat (apply andb_prop in Hok; destruct Hok as [Hok ?]).
  unfold should_retry, attempt_facts, retryable; cbn.
  destruct ovf; cbn; [split; discriminate|].
  rewrite andb_false_r. cbn.
  destruct (Z.eqb_spec (s_act sc) 0); cbn; [|split; discriminate].
  destruct (Z.eqb_spec (s_pb sc) 2), (Z.eqb_spec (s_pb sc) 3), (Z.eqb_spec (s_pb sc) 0), (Z.eqb_spec (s_pb sc) 1);
    cbn; try lia; try (rewrite andb_false_r; split; discriminate);
    destruct (in_codes p (s_code sc)); cbn; try (split; discriminate);
    destruct (Z.geb_spec (k + 1) (eff_max p)), (Z.ltb_spec (k + 1) (eff_max p)); try lia; split; auto; discriminate.
Qed.

(* "the number of non-transparent attempts never exceeds the effective maximum" *)
Lemma attempts_bound : forall fuel p m c k scs, 0 <= k ->
  Z.of_nat (length (attempts fuel p m c k scs)) <= Z.max 1 (eff_max p - k).
Proof.
  induction fuel as [|f IH]; intros p m c k scs Hk; cbn [attempts]; [cbn; lia|].
  destruct (s_act (hd_script scs) =? 2) eqn:E2.
  { unfold hd_script in E2. rewrite E2. cbn. lia. }
  unfold hd_script in E2. rewrite E2.
  destruct (should_retry _) eqn:Hd; try (cbn; lia).
  apply retry_requirements in Hd. destruct Hd as (_&_&_&_&_&Hlt). cbn in Hlt.
  cbn [length]. specialize (IH p m c (k + 1) (tl scs) ltac:(lia)). lia.
Qed.

Theorem attempt_bound : forall p sizes scs, 2 <= eff_max p ->
  Z.of_nat (length (rpc_attempts p sizes scs)) <= eff_max p.
Proof. intros p sizes scs H. unfold rpc_attempts. pose proof (attempts_bound (Z.to_nat (eff_max p) + 1) p (Z.of_nat (length sizes)) (first_overflows p sizes) 0 scs). lia. Qed.

(* attempts are numbered consecutively from 0 (grpc-previous-rpc-attempts) and each receives the
   first min(r, m) messages of the application, in order, plus the half-close iff r > m *)
Lemma attempts_numbered : forall fuel p m c k scs i a, nth_error (attempts fuel p m c k scs) i = Some a ->
  a_prev a = k + Z.of_nat i /\ a_recv a = Z.min (s_r (a_sc a)) m /\ a_eof a = (m <? s_r (a_sc a)) /\
  a_sc a = hd_script (skipn i scs).
Proof.
  induction fuel as [|f IH]; intros p m c k scs i a H; cbn [attempts] in H; [destruct i; discriminate|].
  fold (hd_script scs) in H.
  assert (Hhd : forall x, nth_error [mkatt k (Z.min (s_r (hd_script scs)) m) (m <? s_r (hd_script scs)) (hd_script scs)] i = Some x ->
          a_prev x = k + Z.of_nat i /\ a_recv x = Z.min (s_r (a_sc x)) m /\ a_eof x = (m <? s_r (a_sc x)) /\ a_sc x = hd_script (skipn i scs)).
  { intros x Hx. destruct i as [|i]; [|destruct i; discriminate]. inversion Hx; subst; cbn. repeat split; auto; lia. }
  destruct (s_act (hd_script scs) =? 2); [apply Hhd; exact H|].
  destruct (should_retry _); try (apply Hhd; exact H).
  destruct i as [|i]; [inversion H; subst; cbn; repeat split; auto; lia|].
  cbn in H. destruct (IH _ _ _ _ _ _ _ H) as (A&B&C&D). repeat split; auto; try lia.
  rewrite D. destruct scs; [destruct i; reflexivity|reflexivity].
Qed.

Theorem replay_exact : forall p sizes scs i a, nth_error (rpc_attempts p sizes scs) i = Some a ->
  a_prev a = Z.of_nat i /\
  (exists rest, sizes = firstn (Z.to_nat (a_recv a)) sizes ++ rest) /\
  a_recv a = Z.min (s_r (a_sc a)) (Z.of_nat (length sizes)) /\
  (a_eof a = true <-> Z.of_nat (length sizes) < s_r (a_sc a)).
Proof.
  intros p sizes scs i a H. unfold rpc_attempts in H. destruct (attempts_numbered _ _ _ _ _ _ _ _ H) as (A&B&C&D).
  split; [lia|]. split; [exists (skipn (Z.to_nat (a_recv a)) sizes); symmetry; apply firstn_skipn|].
  split; [exact B|]. rewrite C. apply Z.ltb_lt.
Qed.

(* "no retry happens once ... the replay buffer limit was exceeded" (first message) and
   "only if the failed attempt received no response headers and ended with a code in the
   retry policy": every attempt that is followed by another one was retryable *)
Lemma attempts_retried : forall fuel p m c k scs i a, Forall (fun s => script_ok s = true) scs ->
  nth_error (attempts fuel p m c k scs) i = Some a -> (S i < length (attempts fuel p m c k scs))%nat ->
  retryable p c (k + Z.of_nat i) (a_sc a) = true.
Proof.
  induction fuel as [|f IH]; intros p m c k scs i a Hok H Hl; cbn [attempts] in *; [destruct i; discriminate|].
  fold (hd_script scs) in *.
  destruct (s_act (hd_script scs) =? 2) eqn:E2; [cbn in Hl; lia|].
  destruct (should_retry _) eqn:Hd; try (cbn in Hl; lia).
  destruct i as [|i].
  - inversion H; subst; cbn. replace (k + 0) with k by lia. apply retry_iff_retryable; [|exact Hd].
    destruct scs as [|s scs]; [cbn in E2; discriminate|]. inversion Hok; assumption.
  - cbn in H, Hl. replace (k + Z.of_nat (S i)) with (k + 1 + Z.of_nat i) by lia.
    apply (IH p m c (k + 1) (tl scs) i a); [destruct scs; [constructor|inversion Hok; assumption]|exact H|lia].
Qed.

Theorem retried_attempts_were_retryable : forall p sizes scs i a, Forall (fun s => script_ok s = true) scs ->
  nth_error (rpc_attempts p sizes scs) i = Some a -> (S i < length (rpc_attempts p sizes scs))%nat ->
  first_overflows p sizes = false /\ s_act (a_sc a) = 0 /\ in_codes p (s_code (a_sc a)) = true /\
  (s_pb (a_sc a) = 0 \/ s_pb (a_sc a) = 1) /\ Z.of_nat i + 1 < eff_max p.
Proof.
  intros p sizes scs i a Hok H Hl. pose proof (attempts_retried _ _ _ _ _ _ _ _ Hok H Hl) as R.
  unfold retryable in R. repeat (apply andb_prop in R; destruct R as [R ?]).
  apply negb_true_iff in R. apply Z.eqb_eq in H3. apply Z.ltb_lt in H0.
  apply orb_prop in H1. split; [exact R|]. split; [exact H3|]. split; [exact H2|]. split; [|lia].
  destruct H1 as [E|E]; apply Z.eqb_eq in E; auto.
Qed.

Theorem committed_rpc_not_retried : forall p sizes scs, first_overflows p sizes = true ->
  length (rpc_attempts p sizes scs) = 1%nat.
Proof.
  intros p sizes scs H. unfold rpc_attempts. rewrite H.
  replace (Z.to_nat (eff_max p) + 1)%nat with (S (Z.to_nat (eff_max p))) by lia. cbn [attempts].
  destruct (s_act _ =? 2); [reflexivity|]. unfold should_retry, attempt_facts; cbn. reflexivity.
Qed.

(* ---------- bridge ---------- *)
Lemma chunk4_enc : forall l rest, chunk4 (length l) (concat (map enc_attempt l) ++ rest) = Some (map enc_attempt l, rest).
Proof. induction l as [|a l IH]; intro rest; cbn; [reflexivity|]. rewrite IH. reflexivity. Qed.

Lemma final_code_cons : forall a b l, final_code (a :: b :: l) = final_code (b :: l).
Proof.
  intros a b l. unfold final_code. cbn [rev]. 
  destruct (rev l ++ [b]) as [|x r] eqn:E; [destruct (rev l); discriminate|]. cbn. reflexivity.
Qed.

Lemma attempts_nonempty : forall f p m c k scs, attempts (S f) p m c k scs <> [].
Proof.
  intros. cbn [attempts]. destruct (s_act _ =? 2); [discriminate|]. destruct (should_retry _); discriminate.
Qed.

Lemma att_clauses_model : forall fuel p m c k scs, Forall (fun s => script_ok s = true) scs -> 0 <= k ->
  eff_max p - k <= Z.of_nat fuel -> (1 <= fuel)%nat ->
  let l := attempts fuel p m c k scs in
  forallb (fun x => snd x) (att_clauses p m c scs k (map enc_attempt l) (final_code l) (if final_code l =? 0 then 1 else 0)) = true.
Proof.
  induction fuel as [|f IH]; intros p m c k scs Hok Hk Hf H1; [lia|].
  cbn zeta. cbn [attempts]. fold (hd_script scs).
  set (sc := hd_script scs).
  assert (Hsc : script_ok sc = true \/ sc = default_script).
  { unfold sc, hd_script. destruct scs as [|s r]; [right; reflexivity|left; inversion Hok; assumption]. }
  assert (Hlast : forall a, a = mkatt k (Z.min (s_r sc) m) (m <? s_r sc) sc -> retryable p c k sc = false ->
            forallb (fun x => snd x) (att_clauses p m c scs k (map enc_attempt [a]) (final_code [a]) (if final_code [a] =? 0 then 1 else 0)) = true).
  { intros a -> Hr. cbn [map att_clauses enc_attempt a_prev a_recv a_eof forallb snd]. fold sc.
    rewrite word_eqb_refl, Hr. cbn [negb andb]. unfold final_code; cbn [rev app a_sc].
    destruct (Z.eqb_spec (s_act sc) 2) as [E|E].
    - rewrite !Z.eqb_refl. reflexivity.
    - rewrite Z.eqb_refl. cbn [andb]. destruct Hsc as [Hs|Hs]; [|rewrite Hs in E; cbn in E; lia].
      unfold script_ok in Hs. repeat (apply andb_prop in Hs; destruct Hs as [Hs ?]).
      destruct (Z.eqb_spec (s_code sc) 0); [lia|reflexivity]. }
  destruct (Z.eqb_spec (s_act sc) 2) as [E2|E2].
  { apply Hlast; [reflexivity|]. unfold retryable. rewrite E2. cbn. rewrite andb_false_r. reflexivity. }
  destruct (should_retry (attempt_facts p c k sc)) eqn:Hd.
  - apply Hlast; [reflexivity|]. destruct Hsc as [Hs|Hs]; [|rewrite Hs in E2; cbn in E2; lia].
    destruct (retryable p c k sc) eqn:R; [|reflexivity]. apply (retry_iff_retryable p c k sc Hs) in R. congruence.
  - apply Hlast; [reflexivity|]. destruct Hsc as [Hs|Hs]; [|rewrite Hs in E2; cbn in E2; lia].
    destruct (retryable p c k sc) eqn:R; [|reflexivity]. apply (retry_iff_retryable p c k sc Hs) in R. congruence.
  - destruct Hsc as [Hs|Hs]; [|rewrite Hs in E2; cbn in E2; lia].
    pose proof (proj1 (retry_iff_retryable p c k sc Hs) Hd) as R.
    pose proof (retry_requirements _ Hd) as (_&_&_&_&_&Hlt). cbn in Hlt.
    destruct f as [|f']; [lia|].
    pose proof (attempts_nonempty f' p m c (k + 1) (tl scs)) as Hne.
    specialize (IH p m c (k + 1) (tl scs)).
    destruct (attempts (S f') p m c (k + 1) (tl scs)) as [|b r] eqn:Ea; [contradiction|].
    rewrite final_code_cons. cbn [map att_clauses enc_attempt a_prev a_recv a_eof forallb snd]. fold sc.
    rewrite word_eqb_refl, R. cbn [andb].
    apply IH; [destruct scs; [constructor|inversion Hok; assumption]|lia|lia|lia].
Qed.

Definition op_wf (p : policy) (op : word) : bool :=
  match dec_op op with Some (sizes, scs) => rpc_wf p sizes && stall_wf p op sizes scs | None => false end.

Lemma dec_op_ok : forall op sizes scs, dec_op op = Some (sizes, scs) -> Forall (fun s => script_ok s = true) scs /\ sizes <> [].
Proof.
  intros op sizes scs H. unfold dec_op, dec_plain in H. destruct (get_bytes (strip op)) as [[sz [|k rest]]|]; try discriminate.
  destruct (dec_scripts (length rest) rest) as [l|]; [|discriminate].
  destruct (_ && _) eqn:E; [|discriminate]. inversion H; subst.
  apply andb_prop in E. destruct E as [E Hn]. apply andb_prop in E. destruct E as [E Hs]. apply andb_prop in E. destruct E as [E Hk].
  split; [apply Forall_forall; apply forallb_forall; exact Hk|]. destruct sizes; [discriminate|discriminate].
Qed.

Lemma clause_op_model : forall p op o, 2 <= eff_max p -> run_op p op = Some o ->
  forallb (fun c => snd c) (clause_op p op o) = true.
Proof.
  intros p op o Hp H. unfold run_op in H. unfold clause_op.
  destruct (dec_op op) as [[sizes scs]|] eqn:Hd; [|discriminate].
  destruct (rpc_wf p sizes && stall_wf p op sizes scs); [|discriminate]. inversion H; subst; clear H.
  destruct (dec_op_ok _ _ _ Hd) as [Hok _].
  set (l := rpc_attempts p sizes scs).
  assert (Hne : l <> []).
  { unfold l, rpc_attempts. replace (Z.to_nat (eff_max p) + 1)%nat with (S (Z.to_nat (eff_max p))) by lia. apply attempts_nonempty. }
  replace (Z.of_nat (length l) <? 1) with false by (symmetry; apply Z.ltb_ge; destruct l; [contradiction|cbn; lia]).
  rewrite Nat2Z.id, chunk4_enc. cbn [forallb snd].
  pose proof (attempt_bound p sizes scs Hp) as Hb. fold l in Hb.
  replace (Z.of_nat (length l) <=? eff_max p) with true by (symmetry; apply Z.leb_le; exact Hb). cbn [andb].
  unfold l, rpc_attempts. apply att_clauses_model; auto; lia.
Qed.

Theorem model_trace_holds : forall cfg ops p, dec_cfg cfg = Some p -> forallb (op_wf p) ops = true ->
  exists obs, run cfg ops = Some obs /\ holds_b cfg ops obs = true.
Proof.
  intros cfg ops p Hc Hw. unfold run, holds_b, clauses. rewrite Hc.
  assert (Hp : 2 <= eff_max p).
  { unfold dec_cfg in Hc. destruct cfg as [|mx [|cm [|bl r]]]; try discriminate.
    destruct (get_bytes r) as [[cs [|]]|]; try discriminate. destruct (_ && _) eqn:E; [|discriminate].
    inversion Hc; subst. repeat (apply andb_prop in E; destruct E as [E ?]). unfold eff_max; cbn. lia. }
  induction ops as [|op ops IH]; [exists []; split; reflexivity|].
  cbn [forallb] in Hw. apply andb_prop in Hw. destruct Hw as [Hop Hw]. destruct (IH Hw) as (obs & Hr & Hh).
  unfold op_wf in Hop. destruct (dec_op op) as [[sizes scs]|] eqn:Hd; [|discriminate].
  assert (Hro : exists o, run_op p op = Some o) by (unfold run_op; rewrite Hd, Hop; eauto).
  destruct Hro as [o Ho]. exists (o :: obs). cbn [run_ops clauses_ops]. rewrite Ho, Hr. split; [reflexivity|].
  rewrite forallb_app, (clause_op_model p op o Hp Ho). exact Hh.
Qed.

(* the held-send schedule (SendMsg of message j overtaken by a concurrent RecvMsg that retries)
   must give every attempt exactly what the sequential schedule gives it *)
Theorem held_send_same : forall p j op o, run_op p (0 :: j :: op) = Some o -> run_op p op = Some o.
Proof.
  intros p j op o H. unfold run_op in *. unfold dec_op in *. cbn [strip] in H.
  destruct (dec_plain op) as [[sizes scs]|] eqn:Hd; [|discriminate].
  assert (Hs : strip op = op /\ stall_wf p op sizes scs = true).
  { destruct op as [|h t]; [split; reflexivity|]. destruct h as [|h|h]; try (split; reflexivity).
    exfalso. unfold dec_plain in Hd. cbn in Hd. destruct t as [|k rest]; [discriminate|].
    destruct (dec_scripts (length rest) rest); [|discriminate].
    rewrite andb_false_r in Hd. discriminate. }
  destruct Hs as [Hs Hw]. rewrite Hs, Hd, Hw, andb_true_r.
  destruct (rpc_wf p sizes); [|discriminate]. cbn [andb] in H.
  destruct (stall_wf p (0 :: j :: op) sizes scs); [exact H|discriminate].
Qed.
