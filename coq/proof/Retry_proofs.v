(* Proofs for model/Retry.v (C18). *)
From Coq Require Import List ZArith Bool Lia.
From VLib Require Import Codec.
From VModel Require Import Retry.
Import ListNotations.
Open Scope Z_scope.

Lemma word_eqb_refl : forall w, word_eqb w w = true.
Proof. induction w as [|x w IH]; cbn; [reflexivity|]. rewrite Z.eqb_refl, IH. reflexivity. Qed.

(* ---------- the decision function ---------- *)
Theorem retry_only_uncommitted : forall f, should_retry f <> NoRetry ->
  f_finished f = false /\ f_committed f = false /\ f_drop f = false.
Proof.
  intros f H. unfold should_retry in H.
  destruct (f_finished f), (f_committed f), (f_drop f); cbn in H; try congruence. auto.
Qed.

Theorem retry_requirements : forall f, should_retry f = Retry ->
  f_disable_retry f = false /\
  (f_has_stream f = true -> f_trailers_only f = true /\ f_pushback f <> 2 /\ f_pushback f <> 3) /\
  f_has_policy f = true /\ f_code_in_policy f = true /\ f_throttled f = false /\
  f_num_retries f + 1 < f_max_attempts f.
Proof.
  intros f H. unfold should_retry in H.
  destruct (f_finished f || f_committed f || f_drop f); [discriminate|].
  destruct (negb (f_has_stream f) && f_allow_transparent f); [discriminate|].
  destruct (f_first_attempt f && (f_has_stream f && f_unprocessed f)); [discriminate|].
  destruct (f_disable_retry f); [discriminate|].
  destruct (f_has_stream f) eqn:Hs; cbn [andb] in H.
  - destruct (f_trailers_only f); cbn in H; [|discriminate].
    destruct (Z.eqb_spec (f_pushback f) 2); cbn in H; [discriminate|].
    destruct (Z.eqb_spec (f_pushback f) 3); cbn in H; [discriminate|].
    destruct (f_has_policy f); cbn in H; [|discriminate]. destruct (f_code_in_policy f); cbn in H; [|discriminate].
    destruct (f_throttled f); [discriminate|]. destruct (Z.geb_spec (f_num_retries f + 1) (f_max_attempts f)); [discriminate|].
    repeat split; auto; lia.
  - destruct (f_has_policy f); cbn in H; [|discriminate]. destruct (f_code_in_policy f); cbn in H; [|discriminate].
    destruct (f_throttled f); [discriminate|]. destruct (Z.geb_spec (f_num_retries f + 1) (f_max_attempts f)); [discriminate|].
    repeat split; auto; try lia; intros; discriminate.
Qed.

Theorem transparent_only_unprocessed : forall f, should_retry f = Transparent ->
  (f_has_stream f = false /\ f_allow_transparent f = true) \/
  (f_first_attempt f = true /\ f_has_stream f = true /\ f_unprocessed f = true).
Proof.
  intros f H. unfold should_retry in H.
  destruct (f_finished f || f_committed f || f_drop f); [discriminate|].
  destruct (f_has_stream f), (f_allow_transparent f); cbn [negb andb] in H; auto.
  - destruct (f_first_attempt f), (f_unprocessed f); cbn [andb] in H; auto.
    all: destruct (f_disable_retry f); try discriminate; destruct (negb (f_trailers_only f)); try discriminate;
      destruct ((f_pushback f =? 2) || (f_pushback f =? 3)); try discriminate;
      destruct (negb (f_has_policy f) || negb (f_code_in_policy f)); try discriminate;
      destruct (f_throttled f); try discriminate; destruct (f_num_retries f + 1 >=? f_max_attempts f); discriminate.
  - destruct (f_first_attempt f), (f_unprocessed f); cbn [andb] in H; auto.
    all: destruct (f_disable_retry f); try discriminate; destruct (negb (f_trailers_only f)); try discriminate;
      destruct ((f_pushback f =? 2) || (f_pushback f =? 3)); try discriminate;
      destruct (negb (f_has_policy f) || negb (f_code_in_policy f)); try discriminate;
      destruct (f_throttled f); try discriminate; destruct (f_num_retries f + 1 >=? f_max_attempts f); discriminate.
  - rewrite andb_false_r in H. destruct (f_disable_retry f); try discriminate.
    cbn in H. destruct (negb (f_has_policy f) || negb (f_code_in_policy f)); try discriminate;
      destruct (f_throttled f); try discriminate; destruct (f_num_retries f + 1 >=? f_max_attempts f); discriminate.
Qed.

(* ---------- one RPC ---------- *)
Definition scs_ok (scs : list script) : Prop := Forall (fun s => script_ok s = true) scs.

Lemma scs_ok_tl : forall scs, scs_ok scs -> scs_ok (tl scs).
Proof. intros [|s r] H; [constructor|inversion H; assumption]. Qed.

Lemma act_cases : forall sc, script_ok sc = true ->
  s_act sc = 0 \/ s_act sc = 1 \/ s_act sc = 2 \/ s_act sc = 3 \/ s_act sc = 4.
Proof.
  intros sc H. unfold script_ok in H. repeat (apply andb_prop in H; destruct H as [H ?]).
  apply Z.leb_le in H3, H4. lia.
Qed.

Lemma pb_cases : forall sc, script_ok sc = true ->
  s_pb sc = 0 \/ s_pb sc = 1 \/ s_pb sc = 2 \/ s_pb sc = 3.
Proof.
  intros sc H. unfold script_ok in H. repeat (apply andb_prop in H; destruct H as [H ?]).
  apply Z.leb_le in H0, H1. lia.
Qed.

(* the decision for a scripted attempt, in closed form *)
Lemma decision_eq : forall p c first k sc, script_ok sc = true ->
  should_retry (attempt_facts p c first k sc) =
    if transp c first sc then Transparent else if retryable p c first k sc then Retry else NoRetry.
Proof.
  intros p c first k sc Hok.
  pose proof (act_cases sc Hok) as Ha. pose proof (pb_cases sc Hok) as Hp.
  unfold should_retry, attempt_facts, transp, retryable, unproc; cbn [f_finished f_committed f_drop f_has_stream
    f_allow_transparent f_first_attempt f_unprocessed f_disable_retry f_trailers_only f_pushback f_has_policy
    f_code_in_policy f_throttled f_num_retries f_max_attempts].
  rewrite Z.geb_leb, Z.leb_antisym.
  destruct Ha as [Ha|[Ha|[Ha|[Ha|Ha]]]]; rewrite Ha; cbn;
    destruct c, first; cbn; try reflexivity;
    try (destruct (in_codes p 14); cbn; try reflexivity; destruct (k + 1 <? eff_max p); reflexivity);
    destruct Hp as [Hp|[Hp|[Hp|Hp]]]; rewrite Hp; cbn;
    destruct (in_codes p (s_code sc)); cbn; try reflexivity; destruct (k + 1 <? eff_max p); reflexivity.
Qed.

Lemma attempts_S : forall f p sizes first k sent scs, scs_ok scs ->
  attempts (S f) p sizes first k sent scs =
    let sc := hd_script scs in
    let m := Z.of_nat (length sizes) in
    let a := mkatt k (recv_of m sc) (eof_of m sc) sc sent first in
    let sent' := sent_after m sent sc in
    let ovf := over p sizes sent' in
    if s_act sc =? 2 then [a]
    else if transp ovf first sc then a :: attempts f p sizes false k sent' (tl scs)
    else if retryable p ovf first k sc then a :: attempts f p sizes false (k + 1) sent' (tl scs)
    else [a].
Proof.
  intros f p sizes first k sent scs Hok. cbn [attempts]. cbv zeta.
  destruct (s_act (hd_script scs) =? 2) eqn:E2; [reflexivity|].
  rewrite decision_eq.
  - destruct (transp _ first _); [reflexivity|]. destruct (retryable _ _ first k _); reflexivity.
  - destruct scs as [|s r]; [cbn in E2; discriminate|]. inversion Hok; assumption.
Qed.

Lemma attempts_nonempty : forall f p sizes first k sent scs, attempts (S f) p sizes first k sent scs <> [].
Proof.
  intros. cbn [attempts]. cbv zeta. destruct (s_act _ =? 2); [discriminate|]. destruct (should_retry _); discriminate.
Qed.

(* the first attempt of a (sub)run *)
Lemma attempts_head : forall fuel p sizes first k sent scs b,
  nth_error (attempts fuel p sizes first k sent scs) 0 = Some b ->
  a_prev b = k /\ a_sent b = sent /\ a_first b = first /\ a_sc b = hd_script scs.
Proof.
  intros [|f] p sizes first k sent scs b H; [discriminate|]. cbn [attempts] in H. cbv zeta in H.
  destruct (s_act _ =? 2); [|destruct (should_retry _)]; inversion H; subst; cbn; auto.
Qed.

Lemma retryable_lt : forall p c first k sc, retryable p c first k sc = true -> k + 1 < eff_max p.
Proof. intros p c first k sc H. unfold retryable in H. apply andb_prop in H. destruct H as [_ H]. apply Z.ltb_lt. exact H. Qed.

Lemma transp_first : forall c first sc, transp c first sc = true -> c = false /\ first = true /\ unproc sc = true.
Proof. intros c first sc H. unfold transp in H. destruct c, first, (unproc sc); try discriminate; auto. Qed.

Lemma retryable_uncommitted : forall p c first k sc, retryable p c first k sc = true -> c = false.
Proof. intros p c first k sc H. unfold retryable in H. destruct c; [discriminate|reflexivity]. Qed.

(* "the number of non-transparent attempts never exceeds the effective maximum" *)
Lemma attempts_bound : forall fuel p sizes first k sent scs, scs_ok scs -> 0 <= k ->
  Z.of_nat (length (attempts fuel p sizes first k sent scs)) <= Z.max 1 (eff_max p - k) + (if first then 1 else 0).
Proof.
  induction fuel as [|f IH]; intros p sizes first k sent scs Hok Hk; [cbn; destruct first; lia|].
  rewrite attempts_S by exact Hok. cbv zeta.
  destruct (s_act _ =? 2); [cbn; destruct first; lia|].
  destruct (transp _ first _) eqn:Ht.
  - apply transp_first in Ht. destruct Ht as (_ & -> & _). cbn [length].
    specialize (IH p sizes false k (sent_after (Z.of_nat (length sizes)) sent (hd_script scs)) (tl scs) (scs_ok_tl _ Hok) Hk). lia.
  - destruct (retryable _ _ first k _) eqn:Hr; [|cbn; destruct first; lia].
    apply retryable_lt in Hr. cbn [length].
    specialize (IH p sizes false (k + 1) (sent_after (Z.of_nat (length sizes)) sent (hd_script scs)) (tl scs) (scs_ok_tl _ Hok) ltac:(lia)).
    destruct first; lia.
Qed.

(* grpc-previous-rpc-attempts (= number of counted retries so far) stays below the maximum *)
Lemma attempts_prev_bound : forall fuel p sizes first k sent scs a, scs_ok scs ->
  In a (attempts fuel p sizes first k sent scs) -> k <= a_prev a /\ a_prev a + 1 <= Z.max (eff_max p) (k + 1).
Proof.
  induction fuel as [|f IH]; intros p sizes first k sent scs a Hok Hin; [destruct Hin|].
  rewrite attempts_S in Hin by exact Hok. cbv zeta in Hin.
  assert (Hhd : forall x, In a [x] -> a_prev x = k -> k <= a_prev a /\ a_prev a + 1 <= Z.max (eff_max p) (k + 1)).
  { intros x [->|[]] Hx. lia. }
  destruct (s_act _ =? 2); [eapply Hhd; [exact Hin|reflexivity]|].
  destruct (transp _ first _).
  - destruct Hin as [<-|Hin]; [cbn; lia|]. apply IH in Hin; [lia|apply scs_ok_tl; exact Hok].
  - destruct (retryable _ _ first k _) eqn:Hr; [|eapply Hhd; [exact Hin|reflexivity]].
    apply retryable_lt in Hr. destruct Hin as [<-|Hin]; [cbn; lia|].
    apply IH in Hin; [lia|apply scs_ok_tl; exact Hok].
Qed.

Lemma hd_skipn_tl : forall i (scs : list script), hd_script (skipn i (tl scs)) = hd_script (skipn (S i) scs).
Proof. intros i [|s r]; [destruct i; reflexivity|reflexivity]. Qed.

(* attempt number i: its script, what its handler receives, what had been produced when it
   started, and whether it is the RPC's first attempt *)
Lemma attempts_nth : forall fuel p sizes first k sent scs i a, scs_ok scs ->
  nth_error (attempts fuel p sizes first k sent scs) i = Some a ->
  a_sc a = hd_script (skipn i scs) /\
  a_recv a = recv_of (Z.of_nat (length sizes)) (a_sc a) /\ a_eof a = eof_of (Z.of_nat (length sizes)) (a_sc a) /\
  a_sent a = sent_upto (Z.of_nat (length sizes)) scs i sent /\
  a_first a = (first && Nat.eqb i 0).
Proof.
  induction fuel as [|f IH]; intros p sizes first k sent scs i a Hok H; [destruct i; discriminate|].
  rewrite attempts_S in H by exact Hok. cbv zeta in H.
  assert (Hhd : forall x, x = mkatt k (recv_of (Z.of_nat (length sizes)) (hd_script scs)) (eof_of (Z.of_nat (length sizes)) (hd_script scs))
                     (hd_script scs) sent first -> nth_error [x] i = Some a ->
     a_sc a = hd_script (skipn i scs) /\
     a_recv a = recv_of (Z.of_nat (length sizes)) (a_sc a) /\ a_eof a = eof_of (Z.of_nat (length sizes)) (a_sc a) /\
     a_sent a = sent_upto (Z.of_nat (length sizes)) scs i sent /\ a_first a = (first && Nat.eqb i 0)).
  { intros x -> Hx. destruct i as [|i]; [|destruct i; discriminate]. inversion Hx; subst; cbn.
    rewrite andb_true_r. auto. }
  assert (Hrec : forall k', nth_error (mkatt k (recv_of (Z.of_nat (length sizes)) (hd_script scs)) (eof_of (Z.of_nat (length sizes)) (hd_script scs))
                     (hd_script scs) sent first ::
                   attempts f p sizes false k' (sent_after (Z.of_nat (length sizes)) sent (hd_script scs)) (tl scs)) i = Some a ->
     a_sc a = hd_script (skipn i scs) /\
     a_recv a = recv_of (Z.of_nat (length sizes)) (a_sc a) /\ a_eof a = eof_of (Z.of_nat (length sizes)) (a_sc a) /\
     a_sent a = sent_upto (Z.of_nat (length sizes)) scs i sent /\ a_first a = (first && Nat.eqb i 0)).
  { intros k' Hx. destruct i as [|i]; [eapply Hhd; [reflexivity|exact Hx]|].
    cbn [nth_error] in Hx. apply IH in Hx; [|apply scs_ok_tl; exact Hok].
    destruct Hx as (A & B & C & D & E). rewrite hd_skipn_tl in A. cbn [sent_upto].
    rewrite andb_false_r. cbn in E. auto. }
  destruct (s_act _ =? 2); [eapply Hhd; [reflexivity|exact H]|].
  destruct (transp _ first _); [eapply Hrec; exact H|].
  destruct (retryable _ _ first k _); [eapply Hrec; exact H|eapply Hhd; [reflexivity|exact H]].
Qed.

(* two consecutive attempts: the earlier one was due a retry - transparent (not counted) or
   by policy (counted) - decided with cs.committed = "the buffer limit was exceeded by a message
   produced before its failure was noticed" *)
Lemma attempts_step : forall fuel p sizes first k sent scs i a b, scs_ok scs ->
  nth_error (attempts fuel p sizes first k sent scs) i = Some a ->
  nth_error (attempts fuel p sizes first k sent scs) (S i) = Some b ->
  let ovf := over p sizes (sent_after (Z.of_nat (length sizes)) (a_sent a) (a_sc a)) in
  (transp ovf (a_first a) (a_sc a) = true /\ a_prev b = a_prev a) \/
  (transp ovf (a_first a) (a_sc a) = false /\ retryable p ovf (a_first a) (a_prev a) (a_sc a) = true /\
   a_prev b = a_prev a + 1).
Proof.
  induction fuel as [|f IH]; intros p sizes first k sent scs i a b Hok Ha Hb; [destruct i; discriminate|].
  rewrite attempts_S in Ha, Hb by exact Hok. cbv zeta in Ha, Hb.
  destruct (s_act _ =? 2); [destruct i; discriminate|].
  destruct (transp _ first _) eqn:Ht.
  - destruct i as [|i].
    + inversion Ha; subst a; clear Ha. cbn [nth_error] in Hb. apply attempts_head in Hb.
      destruct Hb as (Hb & _). cbn. left. split; [exact Ht|exact Hb].
    + cbn [nth_error] in Ha, Hb. exact (IH _ _ _ _ _ _ _ _ _ (scs_ok_tl _ Hok) Ha Hb).
  - destruct (retryable _ _ first k _) eqn:Hr; [|destruct i; discriminate].
    destruct i as [|i].
    + inversion Ha; subst a; clear Ha. cbn [nth_error] in Hb. apply attempts_head in Hb.
      destruct Hb as (Hb & _). cbn. right. split; [exact Ht|split; [exact Hr|exact Hb]].
    + cbn [nth_error] in Ha, Hb. exact (IH _ _ _ _ _ _ _ _ _ (scs_ok_tl _ Hok) Ha Hb).
Qed.

(* ---------- the statements about one RPC ---------- *)
Lemma over_0 : forall p sizes, 0 <= p_buf_limit p -> over p sizes 0 = false.
Proof. intros p sizes H. unfold over, cum. cbn. apply Z.ltb_ge. exact H. Qed.

(* at most eff_max attempts, plus the uncounted transparent retry of an unprocessed first attempt *)
Theorem attempt_bound : forall p sizes scs, scs_ok scs -> 2 <= eff_max p ->
  Z.of_nat (length (rpc_attempts p sizes scs)) <= eff_max p + (if unproc (hd_script scs) then 1 else 0).
Proof.
  intros p sizes scs Hok H. unfold rpc_attempts.
  replace (Z.to_nat (eff_max p) + 2)%nat with (S (Z.to_nat (eff_max p) + 1)) by lia.
  rewrite attempts_S by exact Hok. cbv zeta.
  destruct (s_act _ =? 2); [cbn; destruct (unproc _); lia|].
  destruct (transp _ true _) eqn:Ht.
  - apply transp_first in Ht. destruct Ht as (_ & _ & ->). cbn [length].
    pose proof (attempts_bound (Z.to_nat (eff_max p) + 1) p sizes false 0
      (sent_after (Z.of_nat (length sizes)) 0 (hd_script scs)) (tl scs) (scs_ok_tl _ Hok) ltac:(lia)). lia.
  - destruct (retryable _ _ true 0 _) eqn:Hr; [|cbn; destruct (unproc _); lia].
    cbn [length].
    pose proof (attempts_bound (Z.to_nat (eff_max p) + 1) p sizes false (0 + 1)
      (sent_after (Z.of_nat (length sizes)) 0 (hd_script scs)) (tl scs) (scs_ok_tl _ Hok) ltac:(lia)).
    destruct (unproc _); lia.
Qed.

(* the counted attempts: every attempt's grpc-previous-rpc-attempts is below the maximum, the
   first one has 0, and from one attempt to the next it grows by one unless the retry was
   transparent, which happens only after attempt number 0 *)
Theorem counted_attempts_bound : forall p sizes scs a, scs_ok scs -> 2 <= eff_max p ->
  In a (rpc_attempts p sizes scs) -> 0 <= a_prev a /\ a_prev a + 1 <= eff_max p.
Proof.
  intros p sizes scs a Hok H Hin. unfold rpc_attempts in Hin. apply attempts_prev_bound in Hin; [lia|exact Hok].
Qed.

Theorem first_attempt_number : forall p sizes scs a, nth_error (rpc_attempts p sizes scs) 0 = Some a -> a_prev a = 0.
Proof. intros p sizes scs a H. unfold rpc_attempts in H. apply attempts_head in H. tauto. Qed.

Theorem attempt_numbering : forall p sizes scs i a b, scs_ok scs ->
  nth_error (rpc_attempts p sizes scs) i = Some a -> nth_error (rpc_attempts p sizes scs) (S i) = Some b ->
  a_prev b = a_prev a + 1 \/
  (a_prev b = a_prev a /\ i = 0%nat /\ unproc (a_sc a) = true /\
   over p sizes (a_sent a) = false).
Proof.
  intros p sizes scs i a b Hok Ha Hb. unfold rpc_attempts in *.
  pose proof (attempts_step _ _ _ _ _ _ _ _ _ _ Hok Ha Hb) as Hs. cbv zeta in Hs.
  destruct Hs as [[Ht Hp]|(_ & _ & Hp)]; [right|left; exact Hp].
  apply transp_first in Ht. destruct Ht as (Hc & Hf & Hu).
  destruct (attempts_nth _ _ _ _ _ _ _ _ _ Hok Ha) as (_ & _ & _ & _ & E).
  rewrite Hf in E. cbn in E. split; [exact Hp|]. split; [destruct i; [reflexivity|discriminate]|].
  split; [exact Hu|]. unfold sent_after in Hc. rewrite Hu in Hc. exact Hc.
Qed.

(* "Transparent retries happen only for attempts the server never processed": a retry that is
   not counted follows only the RPC's first attempt, whose stream was refused / above the
   GOAWAY id, with nothing committed *)
Theorem transparent_retry_only_unprocessed : forall p sizes scs i a b, scs_ok scs ->
  nth_error (rpc_attempts p sizes scs) i = Some a -> nth_error (rpc_attempts p sizes scs) (S i) = Some b ->
  a_prev b = a_prev a ->
  i = 0%nat /\ (s_act (a_sc a) = 3 \/ s_act (a_sc a) = 4) /\ a_recv a = 0 /\ a_eof a = false /\
  over p sizes (a_sent a) = false.
Proof.
  intros p sizes scs i a b Hok Ha Hb He.
  destruct (attempt_numbering _ _ _ _ _ _ Hok Ha Hb) as [H|(_ & Hi & Hu & Hc)]; [lia|].
  unfold rpc_attempts in Ha. destruct (attempts_nth _ _ _ _ _ _ _ _ _ Hok Ha) as (_ & R & E & _ & _).
  unfold recv_of in R. unfold eof_of in E. rewrite Hu in R, E.
  split; [exact Hi|]. split; [|auto]. unfold unproc in Hu. apply orb_prop in Hu.
  destruct Hu as [Hu|Hu]; apply Z.eqb_eq in Hu; auto.
Qed.

(* the retry of an unprocessed first attempt always happens and is not counted *)
Theorem unprocessed_first_attempt_retried_uncounted : forall p sizes scs, scs_ok scs -> 0 <= p_buf_limit p ->
  unproc (hd_script scs) = true ->
  exists a b, nth_error (rpc_attempts p sizes scs) 0 = Some a /\ nth_error (rpc_attempts p sizes scs) 1 = Some b /\
              a_prev a = 0 /\ a_prev b = 0 /\ a_first b = false.
Proof.
  intros p sizes scs Hok Hl Hu. unfold rpc_attempts.
  replace (Z.to_nat (eff_max p) + 2)%nat with (S (S (Z.to_nat (eff_max p)))) by lia.
  rewrite attempts_S by exact Hok. cbv zeta.
  assert (E2 : s_act (hd_script scs) =? 2 = false).
  { unfold unproc in Hu. apply orb_prop in Hu. destruct Hu as [Hu|Hu]; apply Z.eqb_eq in Hu; rewrite Hu; reflexivity. }
  rewrite E2. unfold sent_after, transp. rewrite Hu, over_0 by exact Hl. cbn [negb andb].
  pose proof (attempts_nonempty (Z.to_nat (eff_max p)) p sizes false 0 0 (tl scs)) as Hne.
  destruct (attempts (S (Z.to_nat (eff_max p))) p sizes false 0 0 (tl scs)) as [|b r] eqn:Eb; [contradiction|].
  assert (Hb : nth_error (attempts (S (Z.to_nat (eff_max p))) p sizes false 0 0 (tl scs)) 0 = Some b) by (rewrite Eb; reflexivity).
  apply attempts_head in Hb. destruct Hb as (B1 & _ & B3 & _).
  eexists; exists b. cbn. auto.
Qed.

(* "Every retry attempt sends the server exactly the same sequence of messages and
   half-close as the application produced so far" *)
Theorem replay_exact : forall p sizes scs i a, scs_ok scs -> nth_error (rpc_attempts p sizes scs) i = Some a ->
  a_sc a = hd_script (skipn i scs) /\
  (exists rest, sizes = firstn (Z.to_nat (a_recv a)) sizes ++ rest) /\
  (unproc (a_sc a) = false ->
     a_recv a = Z.min (s_r (a_sc a)) (Z.of_nat (length sizes)) /\
     (a_eof a = true <-> Z.of_nat (length sizes) < s_r (a_sc a))) /\
  (unproc (a_sc a) = true -> a_recv a = 0 /\ a_eof a = false) /\
  a_sent a = sent_upto (Z.of_nat (length sizes)) scs i 0.
Proof.
  intros p sizes scs i a Hok H. unfold rpc_attempts in H.
  destruct (attempts_nth _ _ _ _ _ _ _ _ _ Hok H) as (A & B & C & D & _).
  split; [exact A|]. split; [exists (skipn (Z.to_nat (a_recv a)) sizes); symmetry; apply firstn_skipn|].
  unfold recv_of in B. unfold eof_of in C.
  split; [intro Hu; rewrite Hu in B, C; split; [exact B|rewrite C; apply Z.ltb_lt]|].
  split; [intro Hu; rewrite Hu in B, C; auto|exact D].
Qed.

(* every attempt that is followed by another one: nothing was committed when its failure was
   noticed (the buffer limit not exceeded by the messages produced until then), and either it was
   the first attempt and unprocessed, or: no response headers (trailers-only, or unprocessed =
   UNAVAILABLE without headers), code in the policy, no aborting pushback, below the limit *)
Theorem retried_attempts_were_retryable : forall p sizes scs i a, scs_ok scs ->
  nth_error (rpc_attempts p sizes scs) i = Some a -> (S i < length (rpc_attempts p sizes scs))%nat ->
  over p sizes (sent_after (Z.of_nat (length sizes)) (a_sent a) (a_sc a)) = false /\
  ((i = 0%nat /\ unproc (a_sc a) = true) \/
   (unproc (a_sc a) = true /\ in_codes p 14 = true /\ a_prev a + 1 < eff_max p) \/
   (s_act (a_sc a) = 0 /\ in_codes p (s_code (a_sc a)) = true /\
    (s_pb (a_sc a) = 0 \/ s_pb (a_sc a) = 1) /\ a_prev a + 1 < eff_max p)).
Proof.
  intros p sizes scs i a Hok Ha Hl.
  destruct (nth_error (rpc_attempts p sizes scs) (S i)) as [b|] eqn:Hb; [|apply nth_error_None in Hb; lia].
  unfold rpc_attempts in Ha, Hb.
  pose proof (attempts_step _ _ _ _ _ _ _ _ _ _ Hok Ha Hb) as Hs. cbv zeta in Hs.
  destruct Hs as [[Ht _]|(_ & Hr & _)].
  - apply transp_first in Ht. destruct Ht as (Hc & Hf & Hu). split; [exact Hc|left].
    destruct (attempts_nth _ _ _ _ _ _ _ _ _ Hok Ha) as (_ & _ & _ & _ & E). rewrite Hf in E. cbn in E.
    split; [destruct i; [reflexivity|discriminate]|exact Hu].
  - pose proof (retryable_uncommitted _ _ _ _ _ Hr) as Hc. split; [exact Hc|right].
    pose proof (retryable_lt _ _ _ _ _ Hr) as Hlt.
    unfold retryable in Hr. rewrite Hc in Hr. cbn [negb andb] in Hr.
    apply andb_prop in Hr. destruct Hr as [Hr _]. apply andb_prop in Hr. destruct Hr as [_ Hr].
    destruct (unproc (a_sc a)); [left; auto|right].
    apply andb_prop in Hr. destruct Hr as [Hr Hpb]. apply andb_prop in Hr. destruct Hr as [Hact Hcode].
    apply Z.eqb_eq in Hact. split; [exact Hact|]. split; [exact Hcode|]. split; [|exact Hlt].
    apply orb_prop in Hpb. destruct Hpb as [E|E]; apply Z.eqb_eq in E; auto.
Qed.

(* "no retry happens once ... the replay buffer limit was exceeded" - by any message the
   application produced before the attempt's failure was noticed *)
Theorem committed_rpc_not_retried : forall p sizes scs i a, scs_ok scs ->
  nth_error (rpc_attempts p sizes scs) i = Some a ->
  over p sizes (sent_after (Z.of_nat (length sizes)) (a_sent a) (a_sc a)) = true ->
  length (rpc_attempts p sizes scs) = S i.
Proof.
  intros p sizes scs i a Hok Ha Hc.
  destruct (Nat.lt_ge_cases (S i) (length (rpc_attempts p sizes scs))) as [Hl|Hl].
  - destruct (retried_attempts_were_retryable _ _ _ _ _ Hok Ha Hl) as [E _]. congruence.
  - assert (i < length (rpc_attempts p sizes scs))%nat by (apply nth_error_Some; congruence). lia.
Qed.

(* an RPC the application committed before sending (limit -1 = exceeded from the start) is
   never retried, not even transparently *)
Lemma cum_nonneg : forall n l, Forall (fun s => 0 <= s) l -> 0 <= fold_right (fun s acc => 5 + s + acc) 0 (firstn n l).
Proof.
  induction n as [|n IH]; intros l Hl; [cbn; lia|]. destruct l as [|x l]; [cbn; lia|].
  inversion Hl; subst. cbn [firstn fold_right]. specialize (IH l H2). lia.
Qed.

Theorem precommitted_never_retried : forall p sizes scs, scs_ok scs -> Forall (fun s => 0 <= s) sizes ->
  p_buf_limit p < 0 -> length (rpc_attempts p sizes scs) = 1%nat.
Proof.
  intros p sizes scs Hok Hs Hl.
  destruct (nth_error (rpc_attempts p sizes scs) 0) as [a|] eqn:Ha.
  - apply (committed_rpc_not_retried p sizes scs 0 a Hok Ha).
    unfold over, cum. apply Z.ltb_lt. pose proof (cum_nonneg (Z.to_nat (sent_after (Z.of_nat (length sizes)) (a_sent a) (a_sc a))) sizes Hs). lia.
  - exfalso. apply nth_error_None in Ha. unfold rpc_attempts in Ha.
    replace (Z.to_nat (eff_max p) + 2)%nat with (S (Z.to_nat (eff_max p) + 1)) in Ha by lia.
    pose proof (attempts_nonempty (Z.to_nat (eff_max p) + 1) p sizes true 0 0 scs) as Hne.
    destruct (attempts _ p sizes true 0 0 scs); [contradiction|cbn in Ha; lia].
Qed.

(* "no retry happens once a response header or message was delivered" *)
Theorem response_commits : forall p sizes scs i a, scs_ok scs ->
  nth_error (rpc_attempts p sizes scs) i = Some a -> s_act (a_sc a) = 1 \/ s_act (a_sc a) = 2 ->
  length (rpc_attempts p sizes scs) = S i.
Proof.
  intros p sizes scs i a Hok Ha Hact.
  destruct (Nat.lt_ge_cases (S i) (length (rpc_attempts p sizes scs))) as [Hl|Hl].
  - destruct (retried_attempts_were_retryable _ _ _ _ _ Hok Ha Hl) as [_ [[_ Hu]|[[Hu _]|[E _]]]]; try lia;
      unfold unproc in Hu; apply orb_prop in Hu; destruct Hu as [Hu|Hu]; apply Z.eqb_eq in Hu; lia.
  - assert (i < length (rpc_attempts p sizes scs))%nat by (apply nth_error_Some; congruence). lia.
Qed.

(* ---------- bridge ---------- *)
Lemma chunk4_enc : forall l rest, chunk4 (length l) (concat (map enc_attempt l) ++ rest) = Some (map enc_attempt l, rest).
Proof. induction l as [|a l IH]; intro rest; cbn; [reflexivity|]. rewrite IH. reflexivity. Qed.

Lemma final_res_cons : forall p q m a b l, final_res p q m (a :: b :: l) = final_res p q m (b :: l).
Proof.
  intros p q m a b l. unfold final_res. cbn [rev].
  destruct (rev l ++ [b]) as [|x r] eqn:E; [destruct (rev l); discriminate|]. cbn. reflexivity.
Qed.

Lemma att_clauses_cons2 : forall p q sizes scs first k sent w w2 r fc nrep,
  att_clauses p q sizes scs first k sent (w :: w2 :: r) fc nrep =
    let sc := hd_script scs in
    let m := Z.of_nat (length sizes) in
    let sent' := sent_after m sent sc in
    let ovf := over p sizes sent' in
    (2, k, word_eqb w [k; recv_of m sc; 1; b2z (eof_of m sc)]) ::
    (3, k, retryable p ovf first k sc || transp ovf first sc) ::
    (5, k, implb (prev_of w2 =? prev_of w) (transp ovf first sc)) ::
    (6, k, implb (transp ovf first sc) (prev_of w2 =? prev_of w)) ::
    att_clauses p q sizes (tl scs) false (if transp ovf first sc then k else k + 1) sent' (w2 :: r) fc nrep.
Proof. reflexivity. Qed.

Definition mu (p : policy) (first : bool) (k : Z) : Z := Z.max 0 (eff_max p - k) + (if first then 1 else 0).

Lemma att_clauses_model : forall fuel p q sizes first k sent scs, scs_ok scs -> 0 <= k ->
  mu p first k + 1 <= Z.of_nat fuel ->
  let l := attempts fuel p sizes first k sent scs in
  let fr := final_res p q (Z.of_nat (length sizes)) l in
  forallb (fun x => snd x) (att_clauses p q sizes scs first k sent (map enc_attempt l) (fst fr) (snd fr)) = true.
Proof.
  induction fuel as [|f IH]; intros p q sizes first k sent scs Hok Hk Hf; [unfold mu in Hf; destruct first; lia|].
  cbv zeta. rewrite attempts_S by exact Hok. cbv zeta.
  set (m := Z.of_nat (length sizes)). set (sc := hd_script scs).
  set (sent' := sent_after m sent sc). set (ovf := over p sizes sent').
  set (a := mkatt k (recv_of m sc) (eof_of m sc) sc sent first).
  assert (Hlast : retryable p ovf first k sc = false -> transp ovf first sc = false ->
            forallb (fun x => snd x) (att_clauses p q sizes scs first k sent (map enc_attempt [a])
               (fst (final_res p q m [a])) (snd (final_res p q m [a]))) = true).
  { intros Hr Ht. cbn [map att_clauses enc_attempt a a_prev a_recv a_eof forallb snd]. fold m sc sent' ovf.
    rewrite word_eqb_refl, Hr, Ht. unfold final_res. cbn [rev app a a_first a_prev a_sent a_sc].
    rewrite !Z.eqb_refl. reflexivity. }
  destruct (Z.eqb_spec (s_act sc) 2) as [E2|E2].
  { apply Hlast.
    - unfold retryable, unproc. rewrite E2. cbn. rewrite !andb_false_r. reflexivity.
    - unfold transp, unproc. rewrite E2. cbn. rewrite !andb_false_r. reflexivity. }
  assert (Hrec : forall k', (k' = k /\ transp ovf first sc = true) \/ (k' = k + 1 /\ transp ovf first sc = false /\ retryable p ovf first k sc = true) ->
            forallb (fun x => snd x) (att_clauses p q sizes scs first k sent
               (map enc_attempt (a :: attempts f p sizes false k' sent' (tl scs)))
               (fst (final_res p q m (a :: attempts f p sizes false k' sent' (tl scs))))
               (snd (final_res p q m (a :: attempts f p sizes false k' sent' (tl scs))))) = true).
  { intros k' Hk'.
    assert (Hf' : mu p false k' + 1 <= Z.of_nat f /\ 0 <= k').
    { destruct Hk' as [[-> Ht]|(-> & _ & Hr)].
      - apply transp_first in Ht. destruct Ht as (_ & Hfi & _). rewrite Hfi in Hf. unfold mu in *. lia.
      - apply retryable_lt in Hr. unfold mu in *. destruct first; lia. }
    destruct Hf' as [Hf' Hk0].
    destruct f as [|f']; [unfold mu in Hf'; lia|].
    pose proof (attempts_nonempty f' p sizes false k' sent' (tl scs)) as Hne.
    specialize (IH p q sizes false k' sent' (tl scs) (scs_ok_tl _ Hok) Hk0 Hf'). cbv zeta in IH. fold m in IH.
    destruct (attempts (S f') p sizes false k' sent' (tl scs)) as [|b r] eqn:Eb; [contradiction|].
    assert (Hb : nth_error (attempts (S f') p sizes false k' sent' (tl scs)) 0 = Some b) by (rewrite Eb; reflexivity).
    apply attempts_head in Hb. destruct Hb as (B1 & _).
    rewrite final_res_cons. cbn [map] in IH |- *.
    rewrite att_clauses_cons2. cbv zeta. fold m sc sent' ovf.
    cbn [forallb snd]. unfold enc_attempt at 1 2 3 4 5. cbn [prev_of a a_prev a_recv a_eof]. rewrite B1.
    rewrite word_eqb_refl. cbn [andb].
    destruct Hk' as [[-> Ht]|(-> & Ht & Hr)]; rewrite Ht.
    - rewrite orb_true_r, Z.eqb_refl. cbn [implb andb]. exact IH.
    - rewrite Hr. replace (k + 1 =? k) with false by (symmetry; apply Z.eqb_neq; lia). cbn [orb implb andb]. exact IH. }
  destruct (s_act sc =? 2) eqn:E2'; [apply Z.eqb_eq in E2'; contradiction|].
  destruct (transp ovf first sc) eqn:Ht; [apply Hrec; left; auto|].
  destruct (retryable p ovf first k sc) eqn:Hr; [apply Hrec; right; auto|].
  apply Hlast; reflexivity.
Qed.

Definition op_wf (p : policy) (op : word) : bool :=
  match dec_op op with Some (sizes, scs) => stall_wf (pol_of p op) op sizes scs | None => false end.

Lemma eff_max_pol_of : forall p op, eff_max (pol_of p op) = eff_max p.
Proof. intros p op. unfold pol_of. destruct (precommitted op); reflexivity. Qed.

Lemma dec_op_ok : forall op sizes scs, dec_op op = Some (sizes, scs) -> scs_ok scs /\ sizes <> [].
Proof.
  intros op sizes scs H. unfold dec_op, dec_plain in H. destruct (get_bytes (strip op)) as [[sz [|k rest]]|]; try discriminate.
  destruct (dec_scripts (length rest) rest) as [l|]; [|discriminate].
  destruct (_ && _) eqn:E; [|discriminate]. inversion H; subst.
  apply andb_prop in E. destruct E as [E Hn]. apply andb_prop in E. destruct E as [E Hs]. apply andb_prop in E. destruct E as [E Hk].
  split; [apply Forall_forall; apply forallb_forall; exact Hk|]. destruct sizes; [discriminate|discriminate].
Qed.

Lemma clause_op_model : forall p op o, 2 <= eff_max p -> run_op p op = Some o ->
  forallb (fun c => snd c) (clause_op p op o) = true.
Proof.
  intros p0 op o Hp H. unfold run_op in H. unfold clause_op. cbv zeta in *.
  rewrite <- (eff_max_pol_of p0 op) in Hp. set (p := pol_of p0 op) in *.
  destruct (dec_op op) as [[sizes scs]|] eqn:Hd; [|discriminate].
  destruct (stall_wf p op sizes scs); [|discriminate]. inversion H; subst; clear H.
  destruct (dec_op_ok _ _ _ Hd) as [Hok _].
  set (l := rpc_attempts p sizes scs).
  assert (Hne : l <> []).
  { unfold l, rpc_attempts. replace (Z.to_nat (eff_max p) + 2)%nat with (S (Z.to_nat (eff_max p) + 1)) by lia. apply attempts_nonempty. }
  replace (Z.of_nat (length l) <? 1) with false by (symmetry; apply Z.ltb_ge; destruct l; [contradiction|cbn; lia]).
  rewrite Nat2Z.id, chunk4_enc. cbn [forallb snd].
  pose proof (attempt_bound p sizes scs Hok Hp) as Hb. fold l in Hb.
  replace (Z.of_nat (length l) <=? eff_max p + (if unproc (hd_script scs) then 1 else 0)) with true by (symmetry; apply Z.leb_le; exact Hb).
  cbn [andb]. unfold l, rpc_attempts. apply att_clauses_model; [exact Hok|lia|unfold mu; lia].
Qed.

Theorem model_trace_holds : forall cfg ops p, dec_cfg cfg = Some p -> forallb (op_wf p) ops = true ->
  exists obs, run cfg ops = Some obs /\ holds_b cfg ops obs = true.
Proof.
  intros cfg ops p Hc Hw. unfold run, holds_b, clauses. rewrite Hc.
  assert (Hp : 2 <= eff_max p).
  { unfold dec_cfg in Hc. destruct cfg as [|mx [|cm [|bl r]]]; try discriminate.
    destruct (get_bytes r) as [[cs [|]]|]; try discriminate. destruct (_ && _) eqn:E; [|discriminate].
    inversion Hc; subst. repeat (apply andb_prop in E; destruct E as [E ?]). unfold eff_max; cbn. lia. }
  induction ops as [|op ops IH]; [exists []; split; reflexivity|].
  cbn [forallb] in Hw. apply andb_prop in Hw. destruct Hw as [Hop Hw]. destruct (IH Hw) as (obs & Hr & Hh).
  unfold op_wf in Hop. destruct (dec_op op) as [[sizes scs]|] eqn:Hd; [|discriminate].
  assert (Hro : exists o, run_op p op = Some o) by (unfold run_op; cbv zeta; rewrite Hd, Hop; eauto).
  destruct Hro as [o Ho]. exists (o :: obs). cbn [run_ops clauses_ops]. rewrite Ho, Hr. split; [reflexivity|].
  rewrite forallb_app, (clause_op_model p op o Hp Ho). exact Hh.
Qed.

Lemma dec_cfg_limit : forall cfg p, dec_cfg cfg = Some p -> 0 <= p_buf_limit p /\ 2 <= eff_max p.
Proof.
  intros cfg p Hc. unfold dec_cfg in Hc. destruct cfg as [|mx [|cm [|bl r]]]; try discriminate.
  destruct (get_bytes r) as [[cs [|]]|]; try discriminate. destruct (_ && _) eqn:E; [|discriminate].
  inversion Hc; subst. repeat (apply andb_prop in E; destruct E as [E ?]). unfold eff_max; cbn. lia.
Qed.

(* the held-send schedule (SendMsg of message j overtaken by a concurrent RecvMsg that retries)
   must give every attempt exactly what the sequential schedule gives it: the same attempts *)
Theorem held_send_same : forall p j op sizes scs, dec_op (0 :: j :: op) = Some (sizes, scs) ->
  dec_op op = Some (sizes, scs) /\
  forall o, run_op p (0 :: j :: op) = Some o ->
    exists o', run_op p op = Some o' /\
      firstn (S (4 * length (rpc_attempts p sizes scs))) o = firstn (S (4 * length (rpc_attempts p sizes scs))) o'.
Proof.
  intros p j op sizes scs Hd.
  assert (Hs : dec_op op = Some (sizes, scs) /\ stall_wf p op sizes scs = true /\ pol_of p op = p).
  { unfold dec_op in *. cbn [strip] in Hd.
    destruct op as [|h t]; [split; [exact Hd|split; reflexivity]|].
    destruct h as [|h|h].
    - exfalso. unfold dec_plain in Hd. cbn in Hd. destruct t as [|k rest]; [discriminate|].
      destruct (dec_scripts (length rest) rest); [|discriminate].
      rewrite andb_false_r in Hd. discriminate.
    - split; [exact Hd|split; reflexivity].
    - exfalso. unfold dec_plain in Hd. cbn in Hd. discriminate. }
  destruct Hs as (Hs & Hw & Hpo). split; [exact Hs|]. intros o H. unfold run_op in *. cbv zeta in *.
  rewrite Hpo. change (pol_of p (0 :: j :: op)) with p in H. rewrite Hd in H. rewrite Hs, Hw.
  destruct (stall_wf p (0 :: j :: op) sizes scs); [|discriminate]. inversion H; subst; clear H.
  eexists. split; [reflexivity|].
  set (l := rpc_attempts p sizes scs).
  assert (Hlen : length (concat (map enc_attempt l)) = (4 * length l)%nat).
  { induction l as [|a l IHl]; [reflexivity|]. cbn [map concat enc_attempt]. rewrite app_length, IHl. cbn. lia. }
  cbn [firstn]. f_equal. rewrite <- Hlen. rewrite !firstn_app, !Nat.sub_diag, !firstn_all. cbn. reflexivity.
Qed.

(* NOTE (outside the text of C18, which does not speak about the status the application sees):
   on the real code, when a retry attempt created by RecvMsg fails - or completes - while its
   replay is still writing, the replayed SendMsg's io.EOF becomes RecvMsg's result: clean end of
   stream, no reply, although the last attempt ended with UNAVAILABLE after response headers.
   The driver reproduces it deterministically (case 0, fifth RPC); the model follows the code. *)
Lemma note_replay_eof_masks_status :
  exists p, dec_cfg [4; 5; 64; 2; 14; 8] = Some p /\
    run_op p [2; 3; 4; 2; 3;0;14;0; 1;1;14;0] = Some [2; 0;2;1;1; 1;1;1;0; 0; 0] /\
    final_of p true 2 false 1 2 (mksc 1 1 14 0) = (0, 0) /\ std_code (mksc 1 1 14 0) = 14.
Proof. eexists. split; [reflexivity|]. vm_compute. auto. Qed.
