(* C13 / C17(b) proofs: invariants of the stream-admission protocol over all
   interleavings of its atomic steps (any number of NewStream calls, any length). *)
From Coq Require Import List ZArith Bool Lia Sorted.
From VLib Require Import Codec Machine.
From VModel Require Import StreamQuota.
Import ListNotations.
Open Scope Z_scope.

(* ---------- lists ---------- *)

Lemma mem_in x l : mem x l = true <-> In x l.
Proof.
  unfold mem. rewrite existsb_exists. split.
  - intros (y & I & E). apply Z.eqb_eq in E. now subst.
  - intros I. exists x. split; [assumption|apply Z.eqb_refl].
Qed.

Lemma remove_z_len x : forall l, In x l -> Z.of_nat (length (remove_z x l)) = Z.of_nat (length l) - 1.
Proof.
  induction l as [|y l IH]; cbn [remove_z length In]; intros H; [tauto|].
  destruct (Z.eqb_spec x y) as [->|N]; [lia|].
  destruct H as [E|I]; [congruence|]. cbn [length]. rewrite Nat2Z.inj_succ, IH by assumption. lia.
Qed.

Lemma remove_z_incl x : forall l y, In y (remove_z x l) -> In y l.
Proof.
  induction l as [|z l IH]; cbn; intros y H; [tauto|].
  destruct (x =? z); [now right|]. destruct H as [E|I]; [now left|right; now apply IH].
Qed.

Lemma lookup_in t : forall l p, lookup t l = Some p -> In (t, p) l.
Proof.
  induction l as [|[t' p'] l IH]; cbn; intros p H; [discriminate|].
  destruct (Z.eqb_spec t t') as [->|N]; [inversion H; now left|right; now apply IH].
Qed.

Lemma in_lookup t p : forall l, In (t, p) l -> exists p', lookup t l = Some p'.
Proof.
  induction l as [|[t' p'] l IH]; cbn; intros H; [tauto|].
  destruct (Z.eqb_spec t t') as [->|N]; [eauto|].
  destruct H as [E|I]; [inversion E; congruence|now apply IH].
Qed.

Lemma remove_t_len t : forall l p, lookup t l = Some p ->
  Z.of_nat (length (remove_t t l)) = Z.of_nat (length l) - 1.
Proof.
  induction l as [|[t' p'] l IH]; cbn [lookup remove_t length]; intros p H; [discriminate|].
  destruct (t =? t'); [lia|]. cbn [length]. rewrite Nat2Z.inj_succ, (IH p H). lia.
Qed.

Lemma remove_t_incl t : forall l e, In e (remove_t t l) -> In e l.
Proof.
  induction l as [|[t' p'] l IH]; cbn; intros e H; [tauto|].
  destruct (t =? t'); [now right|]. destruct H as [E|I]; [now left|right; now apply IH].
Qed.

Lemma remove_t_keep t : forall l p e, lookup t l = Some p -> In e l -> e <> (t, p) -> In e (remove_t t l).
Proof.
  induction l as [|[t' p'] l IH]; cbn [lookup remove_t In]; intros p e Hl Hi Hn; [tauto|].
  destruct (Z.eqb_spec t t') as [->|N].
  - inversion Hl; subst. destruct Hi as [E|I]; [congruence|assumption].
  - destruct Hi as [E|I]; [now left|right; eapply IH; eassumption].
Qed.

Lemma set_t_len t p : forall l, length (set_t t p l) = length l.
Proof.
  induction l as [|[t' p'] l IH]; cbn; [reflexivity|]. destruct (t =? t'); cbn; congruence.
Qed.

Lemma set_t_in t p : forall l e, In e (set_t t p l) -> e = (t, p) \/ In e l.
Proof.
  induction l as [|[t' p'] l IH]; cbn; intros e H; [tauto|].
  destruct (Z.eqb_spec t t') as [->|N]; cbn in H.
  - destruct H as [E|I]; [now left|right; now right].
  - destruct H as [E|I]; [right; now left|]. destruct (IH e I); [now left|right; now right].
Qed.

Lemma set_t_has t p : forall l p0, lookup t l = Some p0 -> In (t, p) (set_t t p l).
Proof.
  induction l as [|[t' p'] l IH]; cbn; intros p0 H; [discriminate|].
  destruct (Z.eqb_spec t t') as [->|N]; cbn; [now left|right; eapply IH; eassumption].
Qed.

Lemma set_t_keep t p : forall l p0 e, lookup t l = Some p0 -> In e l -> e <> (t, p0) -> In e (set_t t p l).
Proof.
  induction l as [|[t' p'] l IH]; cbn [lookup set_t In]; intros p0 e Hl Hi Hn; [tauto|].
  destruct (Z.eqb_spec t t') as [->|N].
  - inversion Hl; subst. destruct Hi as [E|I]; [congruence|now right].
  - destruct Hi as [E|I]; [now left|right; eapply IH; eassumption].
Qed.

Lemma keys_set_t t p : forall l, map fst (set_t t p l) = map fst l.
Proof.
  induction l as [|[t' p'] l IH]; cbn; [reflexivity|]. destruct (t =? t'); cbn; congruence.
Qed.

Lemma remove_t_keys_incl t : forall l k, In k (map fst (remove_t t l)) -> In k (map fst l).
Proof.
  induction l as [|[t' p'] l IH]; cbn; intros k H; [tauto|].
  destruct (t =? t'); [now right|]. cbn in H. destruct H as [E|I]; [now left|right; now apply IH].
Qed.

Lemma remove_t_nodup t : forall l, NoDup (map fst l) -> NoDup (map fst (remove_t t l)).
Proof.
  induction l as [|[t' p'] l IH]; cbn; intros ND; [constructor|].
  inversion ND as [|? ? Hn ND']; subst. destruct (t =? t'); [assumption|]. cbn.
  constructor; [|now apply IH]. intros I. apply Hn. eapply remove_t_keys_incl; eassumption.
Qed.

Lemma remove_t_gone t : forall l, NoDup (map fst l) -> ~ In t (map fst (remove_t t l)).
Proof.
  induction l as [|[t' p'] l IH]; cbn; intros ND; [tauto|].
  inversion ND as [|? ? Hn ND']; subst.
  destruct (Z.eqb_spec t t') as [->|N]; [assumption|]. cbn. intros [E|I]; [congruence|now apply (IH ND')].
Qed.

Lemma lookup_none_notin t : forall l, lookup t l = None -> ~ In t (map fst l).
Proof.
  induction l as [|[t' p'] l IH]; cbn; intros H; [tauto|].
  destruct (Z.eqb_spec t t') as [->|N]; [discriminate|]. intros [E|I]; [congruence|now apply IH].
Qed.

Lemma notin_lookup_none t : forall l, ~ In t (map fst l) -> lookup t l = None.
Proof.
  induction l as [|[t' p'] l IH]; cbn; intros H; [reflexivity|].
  destruct (Z.eqb_spec t t') as [->|N]; [tauto|]. apply IH. tauto.
Qed.

Lemma in_lookup_nodup t p : forall l, NoDup (map fst l) -> In (t, p) l -> lookup t l = Some p.
Proof.
  induction l as [|[t' p'] l IH]; cbn; intros ND H; [tauto|].
  inversion ND as [|? ? Hn ND']; subst. destruct H as [E|I].
  - inversion E; subst. now rewrite Z.eqb_refl.
  - destruct (Z.eqb_spec t t') as [->|N]; [|now apply IH].
    exfalso. apply Hn. change t' with (fst (t', p)). now apply in_map.
Qed.

Lemma lookup_set_t t p : forall l p0, lookup t l = Some p0 -> lookup t (set_t t p l) = Some p.
Proof.
  induction l as [|[t' p'] l IH]; cbn; intros p0 H; [discriminate|].
  destruct (Z.eqb_spec t t') as [->|N]; cbn; [now rewrite Z.eqb_refl|].
  destruct (Z.eqb_spec t t'); [congruence|]. eapply IH; eassumption.
Qed.

Lemma nodup_snoc (x : Z) : forall l, ~ In x l -> NoDup l -> NoDup (l ++ [x]).
Proof.
  induction l as [|y l IH]; cbn; intros Hn ND.
  - constructor; [tauto|constructor].
  - inversion ND as [|? ? Hy ND']; subst. constructor.
    + rewrite in_app_iff. cbn. intros [I|[E|[]]]; [tauto|]. subst. tauto.
    + apply IH; tauto.
Qed.

Lemma last_irrel (x : Z) l a b : last (x :: l) a = last (x :: l) b.
Proof.
  revert x. induction l as [|y l IH]; intros x; [reflexivity|].
  change (last (x :: y :: l) a) with (last (y :: l) a).
  change (last (x :: y :: l) b) with (last (y :: l) b). apply IH.
Qed.

Lemma last_cons_default (x : Z) l a : last (x :: l) a = last l x.
Proof.
  destruct l as [|y l]; [reflexivity|].
  change (last (x :: y :: l) a) with (last (y :: l) a). apply last_irrel.
Qed.

Lemma incr_odd_app a : forall l1 l2, incr_odd a (l1 ++ l2) = incr_odd a l1 && incr_odd (last l1 a) l2.
Proof.
  intros l1. revert a. induction l1 as [|x l1 IH]; intros a l2; [reflexivity|].
  rewrite last_cons_default. cbn [app incr_odd]. rewrite IH. now rewrite !andb_assoc.
Qed.

Lemma last_app_z (l1 l2 : list Z) a : last (l1 ++ l2) a = last l2 (last l1 a).
Proof.
  revert a. induction l1 as [|x l1 IH]; intros a; [reflexivity|].
  rewrite <- app_comm_cons, !last_cons_default. apply IH.
Qed.

Lemma last_lt (l : list Z) a b : a < b -> (forall x, In x l -> x < b) -> last l a < b.
Proof.
  revert a. induction l as [|x l IH]; intros a Ha H; [assumption|].
  destruct l as [|y l]; [apply H; now left|].
  change (last (x :: y :: l) a) with (last (y :: l) a). apply IH; [assumption|].
  intros z Hz. apply H. now right.
Qed.

(* ---------- the invariant ---------- *)

Record Inv (s : st) : Prop := {
  j_ledger : dead s = false -> quota s + Z.of_nat (length (open s)) = maxc s;
  j_wait : Z.of_nat (length (thr s)) <= waiting s;
  j_gen : 0 <= cur s < ngen s /\ ~ In (cur s) (cg s) /\
          (forall g, 0 <= g < ngen s -> g = cur s \/ In g (cg s)) /\
          (forall g, In g (cg s) -> 0 <= g < ngen s);
  j_thr : forall t g, In (t, Blocked g) (thr s) -> 0 <= g < ngen s;
  j_wake : dead s = false -> 0 < quota s -> (exists t, In (t, Blocked (cur s)) (thr s)) ->
           token s = true \/ exists t, In (t, Retry) (thr s);
  j_ids : Z.odd (nextid s) = true /\ 0 < nextid s /\ incr_odd 0 (adm s) = true /\
          forall x, In x (adm s) -> x < nextid s;
  j_open : forall x, In x (open s) -> In x (adm s);
  j_keys : NoDup (map fst (thr s))
}.

Lemma init_inv m : Inv (init m).
Proof.
  constructor; cbn; intros; try lia; try tauto; try apply NoDup_nil.
  all: try (destruct H1 as [t []]).
  all: repeat split; try lia; try tauto.
  all: intros g Hg; left; lia.
Qed.

(* try_admit, success case *)
Lemma try_admit_some s first s1 id : try_admit s first = (s1, Some id) ->
  0 < quota s /\ id = nextid s /\ quota s1 = quota s - 1 /\ maxc s1 = maxc s /\
  waiting s1 = (if first then waiting s else waiting s - 1) /\ nextid s1 = id + 2 /\
  cur s1 = cur s /\ ngen s1 = ngen s /\ cg s1 = cg s /\
  token s1 = (if (quota s1 >? 0) && (waiting s1 >? 0) then true else token s) /\
  open s1 = open s ++ [id] /\ thr s1 = thr s /\ dead s1 = dead s /\ adm s1 = adm s ++ [id].
Proof.
  unfold try_admit. destruct (Z.leb_spec (quota s) 0); intros E; inversion E; subst; cbn.
  repeat split; try reflexivity; try lia.
Qed.

Lemma try_admit_none s first s1 : try_admit s first = (s1, None) ->
  quota s <= 0 /\ quota s1 = quota s /\ maxc s1 = maxc s /\
  waiting s1 = (if first then waiting s + 1 else waiting s) /\ nextid s1 = nextid s /\
  cur s1 = cur s /\ ngen s1 = ngen s /\ cg s1 = cg s /\ token s1 = token s /\
  open s1 = open s /\ thr s1 = thr s /\ dead s1 = dead s /\ adm s1 = adm s.
Proof.
  unfold try_admit. destruct (Z.leb_spec (quota s) 0); intros E; inversion E; subst; cbn.
  repeat split; try reflexivity; try lia.
Qed.

(* Inv is a statement about the fields; rebuild it from field equations *)
Lemma inv_admit s s1 id first l :
  Inv s -> dead s = false -> try_admit s first = (s1, Some id) ->
  (if first then l = thr s
   else exists t, lookup t (thr s) = Some Retry /\ l = remove_t t (thr s)) ->
  Inv (set_thr s1 l).
Proof.
  intros H Hd E Hl. apply try_admit_some in E.
  destruct E as (Hq & Hid & E1 & E2 & E3 & E4 & E5 & E6 & E7 & E8 & E9 & E10 & E11 & E12).
  assert (Hlen : Z.of_nat (length l) <= waiting s1).
  { pose proof (j_wait s H). rewrite E3. destruct first; [subst l; lia|].
    destruct Hl as (t & Lt & ->). rewrite (remove_t_len t _ _ Lt). lia. }
  assert (Hincl : forall e, In e l -> In e (thr s)).
  { destruct first; [subst l; tauto|]. destruct Hl as (t & Lt & ->). apply remove_t_incl. }
  destruct (j_ids s H) as (I1 & I2 & I3 & I4).
  constructor; cbn.
  - intros _. rewrite E1, E9, E2, app_length, Nat2Z.inj_add. cbn. pose proof (j_ledger s H Hd). lia.
  - assumption.
  - rewrite E5, E6, E7. apply H.
  - intros t g Hi. rewrite E6. eapply (j_thr s H). apply Hincl. eassumption.
  - intros _ Hq1 (t & Hi). left. rewrite E8.
    assert (0 < waiting s1).
    { destruct l as [|e l']; [destruct Hi|]. cbn [length] in Hlen. lia. }
    destruct (Z.gtb_spec (quota s1) 0); [|lia]. destruct (Z.gtb_spec (waiting s1) 0); [reflexivity|lia].
  - rewrite E4, E12, Hid. repeat split.
    + rewrite Z.odd_add. rewrite I1. reflexivity.
    + lia.
    + rewrite incr_odd_app, I3. cbn [incr_odd andb]. rewrite I1, andb_true_r, andb_true_r.
      apply Z.ltb_lt. apply last_lt; [lia|assumption].
    + intros x Hx. apply in_app_or in Hx as [Hx|[<-|[]]]; [specialize (I4 x Hx)|]; lia.
  - intros x Hx. rewrite E9 in Hx. rewrite E12. apply in_or_app.
    apply in_app_or in Hx as [Hx|Hx]; [left; now apply (j_open s H)|now right].
  - destruct first; [subst l; apply H|]. destruct Hl as (t & _ & ->). apply remove_t_nodup, H.
Qed.

Lemma inv_fail s s1 first l :
  Inv s -> dead s = false -> try_admit s first = (s1, None) ->
  (if first then exists t, lookup t (thr s) = None /\ l = thr s ++ [(t, Blocked (cur s))]
   else exists t, lookup t (thr s) = Some Retry /\ l = set_t t (Blocked (cur s)) (thr s)) ->
  Inv (set_thr s1 l).
Proof.
  intros H Hd E Hl. apply try_admit_none in E.
  destruct E as (Hq & E1 & E2 & E3 & E4 & E5 & E6 & E7 & E8 & E9 & E10 & E11 & E12).
  destruct (j_gen s H) as (G1 & G2 & G3 & G4).
  constructor; cbn.
  - intros _. rewrite E1, E9, E2. apply (j_ledger s H Hd).
  - pose proof (j_wait s H). rewrite E3. destruct first.
    + destruct Hl as (t & _ & ->). rewrite app_length, Nat2Z.inj_add. cbn. lia.
    + destruct Hl as (t & _ & ->). rewrite set_t_len. lia.
  - rewrite E5, E6, E7. apply H.
  - intros t g Hi. rewrite E6. destruct first.
    + destruct Hl as (t0 & _ & ->). apply in_app_or in Hi as [Hi|[Hi|[]]]; [now apply (j_thr s H t g)|].
      inversion Hi; subst. lia.
    + destruct Hl as (t0 & _ & ->). apply set_t_in in Hi as [Hi|Hi]; [|now apply (j_thr s H t g)].
      inversion Hi; subst. lia.
  - intros _ Hq1. lia.
  - rewrite E4, E12. apply H.
  - rewrite E9, E12. apply H.
  - destruct first.
    + destruct Hl as (t & Ln & ->). rewrite map_app. cbn.
      apply nodup_snoc; [now apply lookup_none_notin|apply H].
    + destruct Hl as (t & _ & ->). rewrite keys_set_t. apply H.
Qed.

Lemma set_thr_inv_dead s l : Inv s -> dead s = true -> (forall e, In e l -> In e (thr s)) ->
  (length l <= length (thr s))%nat -> NoDup (map fst l) -> Inv (set_thr s l).
Proof.
  intros H Hd Hi Hl Hk. constructor; cbn; try apply H; try congruence.
  - pose proof (j_wait s H). lia.
  - intros t g Hin. eapply (j_thr s H). apply Hi. eassumption.
Qed.

Lemma astep_inv s a : Inv s -> Inv (fst (astep s a)).
Proof.
  intros H. unfold astep. destruct (dead s) eqn:Hd.
  { assert (R : forall t, Inv (fst (match lookup t (thr s) with
                                      | Some _ => (set_thr s (remove_t t (thr s)), [2])
                                      | None => (s, []) end))).
    { intros t. destruct (lookup t (thr s)) eqn:El; cbn [fst]; [|assumption].
      apply set_thr_inv_dead; [assumption|assumption|apply remove_t_incl| |apply remove_t_nodup, H].
      pose proof (remove_t_len t _ _ El). lia. }
    destruct a; cbn [fst]; try assumption; apply R. }
  destruct (j_gen s H) as (G1 & G2 & G3 & G4).
  destruct a as [t|t|t|t|id|v|k].
  - (* AFirst *)
    destruct (lookup t (thr s)) eqn:El; cbn [fst]; [assumption|].
    destruct (try_admit s true) as [s1 [id|]] eqn:Ea; cbn [fst].
    + pose proof (inv_admit s s1 id true (thr s) H Hd Ea eq_refl) as X.
      apply try_admit_some in Ea. destruct Ea as (_ & _ & _ & _ & _ & _ & _ & _ & _ & _ & _ & Et & _).
      rewrite <- Et in X. destruct s1; exact X.
    + pose proof (try_admit_none _ _ _ Ea) as (_ & _ & _ & _ & _ & Ec & _ & _ & _ & _ & Et & _).
      rewrite Et, Ec. apply (inv_fail s s1 true); try assumption. eauto.
  - (* ARecv *)
    destruct (lookup t (thr s)) as [[g|]|] eqn:El; cbn [fst]; try assumption.
    assert (Hset : forall e, In e (set_t t Retry (thr s)) -> e = (t, Retry) \/ In e (thr s)) by apply set_t_in.
    destruct (mem g (cg s)) eqn:Em; cbn [fst].
    + constructor; cbn; try apply H; try (intros _; apply (j_ledger s H Hd)); try (intros _; apply (j_wake s H Hd)); try (rewrite keys_set_t; apply H); try (apply remove_t_nodup; apply H).
      * rewrite set_t_len. apply H.
      * intros t0 g0 Hi. apply Hset in Hi as [Hi|Hi]; [discriminate|now apply (j_thr s H t0 g0)].
      * intros _ _ _. right. exists t. eapply set_t_has; eassumption.
    + destruct ((g =? cur s) && token s) eqn:Eb; cbn [fst]; [|assumption].
      constructor; cbn; try apply H; try (intros _; apply (j_ledger s H Hd)); try (intros _; apply (j_wake s H Hd)); try (rewrite keys_set_t; apply H); try (apply remove_t_nodup; apply H).
      * rewrite set_t_len. apply H.
      * intros t0 g0 Hi. apply Hset in Hi as [Hi|Hi]; [discriminate|now apply (j_thr s H t0 g0)].
      * intros _ _ _. right. exists t. eapply set_t_has; eassumption.
  - (* ARetry *)
    destruct (lookup t (thr s)) as [[g|]|] eqn:El; cbn [fst]; try assumption.
    destruct (try_admit s false) as [s1 [id|]] eqn:Ea; cbn [fst].
    + pose proof (try_admit_some _ _ _ _ Ea) as (_ & _ & _ & _ & _ & _ & _ & _ & _ & _ & _ & Et & _).
      rewrite Et. apply (inv_admit s s1 id false); try assumption. eauto.
    + pose proof (try_admit_none _ _ _ Ea) as (_ & _ & _ & _ & _ & Ec & _ & _ & _ & _ & Et & _).
      rewrite Et, Ec. apply (inv_fail s s1 false); try assumption. eauto.
  - (* ALeave *)
    destruct (lookup t (thr s)) as [[g|]|] eqn:El; cbn [fst]; try assumption.
    constructor; cbn; try apply H; try (intros _; apply (j_ledger s H Hd)); try (intros _; apply (j_wake s H Hd)); try (rewrite keys_set_t; apply H); try (apply remove_t_nodup; apply H).
    + pose proof (remove_t_len t _ _ El). pose proof (j_wait s H). lia.
    + intros t0 g0 Hi. eapply (j_thr s H). eapply remove_t_incl. eassumption.
    + intros _ Hq (t0 & Hi). destruct (j_wake s H Hd Hq) as [T|(t1 & R)].
      * exists t0. eapply remove_t_incl. eassumption.
      * now left.
      * right. exists t1. eapply remove_t_keep; try eassumption. congruence.
  - (* AClose *)
    destruct (mem id (open s)) eqn:Em; cbn [fst]; [|assumption].
    apply mem_in in Em.
    constructor; cbn; try apply H; try (intros _; apply (j_ledger s H Hd)); try (intros _; apply (j_wake s H Hd)); try (rewrite keys_set_t; apply H); try (apply remove_t_nodup; apply H).
    + intros _. rewrite (remove_z_len id _ Em). pose proof (j_ledger s H Hd). lia.
    + intros _ Hq (t0 & Hi). left.
      assert (0 < waiting s).
      { pose proof (j_wait s H). destruct (thr s); [destruct Hi|]. cbn [length] in *. lia. }
      destruct (Z.gtb_spec (quota s + 1) 0); [|lia]. destruct (Z.gtb_spec (waiting s) 0); [reflexivity|lia].
    + intros x Hx. apply (j_open s H). eapply remove_z_incl. eassumption.
  - (* ASettings *)
    destruct ((v - maxc s >? 0) && (waiting s >? 0)) eqn:Eb; cbn [fst].
    + constructor; cbn; try apply H; try (intros _; apply (j_ledger s H Hd)); try (intros _; apply (j_wake s H Hd)); try (rewrite keys_set_t; apply H); try (apply remove_t_nodup; apply H).
      * intros _. pose proof (j_ledger s H Hd). lia.
      * split; [lia|]. split; [|split].
        -- intros [E|I]; [lia|]. specialize (G4 _ I). lia.
        -- intros g Hg. destruct (Z.eq_dec g (ngen s)) as [->|N]; [now left|].
           right. destruct (G3 g ltac:(lia)) as [->|I]; [now left|now right].
        -- intros g [<-|I]; [lia|]. specialize (G4 _ I). lia.
      * intros t g Hi. pose proof (j_thr s H t g Hi). lia.
      * intros _ _ (t & Hi). pose proof (j_thr s H t _ Hi). lia.
    + constructor; cbn; try apply H; try (intros _; apply (j_ledger s H Hd)); try (intros _; apply (j_wake s H Hd)); try (rewrite keys_set_t; apply H); try (apply remove_t_nodup; apply H).
      * intros _. pose proof (j_ledger s H Hd). lia.
      * intros _ Hq Hb.
        assert (Hw : 0 < waiting s).
        { destruct Hb as (t & Hi). pose proof (j_wait s H). destruct (thr s); [destruct Hi|]. cbn [length] in *. lia. }
        apply andb_false_iff in Eb as [Eb|Eb].
        -- apply (j_wake s H Hd); [|assumption]. destruct (Z.gtb_spec (v - maxc s) 0); [discriminate|lia].
        -- destruct (Z.gtb_spec (waiting s) 0); [discriminate|lia].
  - (* ADead *)
    cbn [fst]. constructor; cbn; try apply H; try discriminate.
    intros x Hx. destruct (k =? 1); [destruct Hx|now apply (j_open s H)].
Qed.

Lemma exec_cons s a l : exec s (a :: l) = exec (fst (astep s a)) l.
Proof. reflexivity. Qed.

Lemma exec_inv l : forall s, Inv s -> Inv (exec s l).
Proof.
  induction l as [|a l IH]; intros s H; [assumption|]. rewrite exec_cons. apply IH, astep_inv, H.
Qed.

Theorem reach_inv m acts : Inv (exec (init m) acts).
Proof. apply exec_inv, init_inv. Qed.

(* ---------- C13 sentence 1/3: the ledger and the admission bound ---------- *)

Theorem ledger m acts : let s := exec (init m) acts in
  dead s = false -> quota s + Z.of_nat (length (open s)) = maxc s.
Proof. intros s. apply (j_ledger s (reach_inv m acts)). Qed.

(* what a single step can do to the admission log *)
Lemma step_adm s a : let s' := fst (astep s a) in
  (adm s' = adm s /\ (length (open s') <= length (open s))%nat /\
   (quota s' = quota s \/ (forall t, a <> AFirst t /\ a <> ARetry t /\ a <> ARecv t))) \/
  (dead s = false /\ 0 < quota s /\ adm s' = adm s ++ [nextid s] /\ open s' = open s ++ [nextid s] /\
   quota s' = quota s - 1 /\ maxc s' = maxc s /\ ((exists t, a = AFirst t) \/ exists t, a = ARetry t)).
Proof.
  unfold astep. destruct (dead s) eqn:Hd.
  { left. destruct a as [t|t|t|t|id|v|k]; cbn; try (split; [reflexivity|split; [lia|now left]]);
      destruct (lookup t (thr s)); cbn; (split; [reflexivity|split; [lia|now left]]). }
  destruct a as [t|t|t|t|id|v|k].
  - destruct (lookup t (thr s)); cbn [fst]; [left; split; [reflexivity|split; [lia|now left]]|].
    destruct (try_admit s true) as [s1 [id|]] eqn:Ea; cbn [fst].
    + right. apply try_admit_some in Ea.
      destruct Ea as (Hq & Hid & E1 & E2 & E3 & E4 & E5 & E6 & E7 & E8 & E9 & E10 & E11 & E12). subst id.
      repeat split; try assumption. left. eauto.
    + left. apply try_admit_none in Ea.
      destruct Ea as (Hq & E1 & E2 & E3 & E4 & E5 & E6 & E7 & E8 & E9 & E10 & E11 & E12).
      cbn. rewrite E12, E9, E1. split; [reflexivity|split; [lia|now left]].
  - left. destruct (lookup t (thr s)) as [[g|]|]; cbn [fst]; try (split; [reflexivity|split; [lia|now left]]).
    destruct (mem g (cg s)); cbn; [split; [reflexivity|split; [lia|now left]]|].
    destruct ((g =? cur s) && token s); cbn; (split; [reflexivity|split; [lia|now left]]).
  - destruct (lookup t (thr s)) as [[g|]|]; cbn [fst]; try (left; split; [reflexivity|split; [lia|now left]]).
    destruct (try_admit s false) as [s1 [id|]] eqn:Ea; cbn [fst].
    + right. apply try_admit_some in Ea.
      destruct Ea as (Hq & Hid & E1 & E2 & E3 & E4 & E5 & E6 & E7 & E8 & E9 & E10 & E11 & E12). subst id.
      cbn. repeat split; try assumption. right. eauto.
    + left. apply try_admit_none in Ea.
      destruct Ea as (Hq & E1 & E2 & E3 & E4 & E5 & E6 & E7 & E8 & E9 & E10 & E11 & E12).
      cbn. rewrite E12, E9, E1. split; [reflexivity|split; [lia|now left]].
  - left. destruct (lookup t (thr s)) as [[g|]|]; cbn; (split; [reflexivity|split; [lia|now left]]).
  - left. destruct (mem id (open s)) eqn:Em; cbn; [|split; [reflexivity|split; [lia|now left]]].
    split; [reflexivity|]. split.
    + apply mem_in in Em. pose proof (remove_z_len id _ Em). lia.
    + right. intros t0. repeat split; discriminate.
  - left. destruct ((v - maxc s >? 0) && (waiting s >? 0)); cbn;
      (split; [reflexivity|split; [lia|right; intros t0; repeat split; discriminate]]).
  - left. cbn. split; [reflexivity|]. split; [destruct (k =? 1); cbn; lia|now left].
Qed.

Theorem admit_bound m acts a : let s := exec (init m) acts in let s' := fst (astep s a) in
  adm s' <> adm s ->
  dead s = false /\ Z.of_nat (length (open s)) < maxc s /\
  Z.of_nat (length (open s')) <= maxc s' /\ adm s' = adm s ++ [nextid s] /\
  open s' = open s ++ [nextid s].
Proof.
  intros s s' Hn. destruct (step_adm s a) as [(E & _)|(Hd & Hq & Ea & Eo & Eq & Em & _)]; [fold s' in E; congruence|].
  fold s' in Ea, Eo, Eq, Em. pose proof (ledger m acts Hd) as L. fold s in L.
  repeat split; try assumption; try lia.
  rewrite Eo, app_length, Nat2Z.inj_add, Em. cbn. lia.
Qed.

(* the number of open streams grows only by an admission *)
Theorem open_grows_only_by_admission s a :
  (length (open s) < length (open (fst (astep s a))))%nat -> adm (fst (astep s a)) <> adm s.
Proof.
  intros Hl. destruct (step_adm s a) as [(E & Hle & _)|(_ & _ & Ea & _)]; [lia|].
  rewrite Ea. intros E. apply (f_equal (@length Z)) in E. rewrite app_length in E. cbn in E. lia.
Qed.

(* "when the limit is lowered below the open count no new stream opens until enough close" *)
Theorem no_admission_at_or_over_limit m acts a : let s := exec (init m) acts in
  maxc s <= Z.of_nat (length (open s)) -> adm (fst (astep s a)) = adm s.
Proof.
  intros s Hle. destruct (list_eq_dec Z.eq_dec (adm (fst (astep s a))) (adm s)) as [E|N]; [assumption|].
  destruct (admit_bound m acts a N) as (_ & L & _). fold s in L. lia.
Qed.

(* ---------- stream ids ---------- *)

Lemma incr_odd_sound : forall l a, incr_odd a l = true ->
  Forall (fun x => Z.odd x = true) l /\ Sorted Z.lt l /\ Forall (fun x => a < x) l.
Proof.
  induction l as [|x l IH]; cbn [incr_odd]; intros a H.
  - repeat split; constructor.
  - apply andb_true_iff in H as [H H3]. apply andb_true_iff in H as [H1 H2]. apply Z.ltb_lt in H1.
    destruct (IH x H3) as (A & B & C). split; [constructor; assumption|]. split.
    + constructor; [assumption|]. destruct l; constructor. inversion C; assumption.
    + constructor; [assumption|]. eapply Forall_impl; [|exact C]. cbn. intros; lia.
Qed.

Theorem ids_odd_increasing m acts : let s := exec (init m) acts in
  Forall (fun x => Z.odd x = true) (adm s) /\ Sorted Z.lt (adm s) /\
  (forall x, In x (open s) -> In x (adm s)).
Proof.
  intros s. pose proof (reach_inv m acts) as H. fold s in H.
  destruct (j_ids s H) as (_ & _ & I & _). destruct (incr_odd_sound _ _ I) as (A & B & _).
  repeat split; try assumption. apply (j_open s H).
Qed.

(* ---------- waiters (C13 sentence 4, C17 part b) ---------- *)

Theorem waiter_enabled m acts : let s := exec (init m) acts in
  dead s = false -> 0 < quota s -> forall t g, In (t, Blocked g) (thr s) ->
  can_recv s g = true \/ (g = cur s /\ exists t', In (t', Retry) (thr s)).
Proof.
  intros s Hd Hq t g Hi. pose proof (reach_inv m acts) as H. fold s in H.
  destruct (j_gen s H) as (G1 & G2 & G3 & G4). pose proof (j_thr s H t g Hi) as Hg.
  unfold can_recv. destruct (G3 g Hg) as [->|I].
  - destruct (j_wake s H Hd Hq) as [T|R]; [eauto| |right; tauto].
    left. rewrite T, Z.eqb_refl. apply orb_true_r.
  - left. apply mem_in in I. now rewrite I.
Qed.

Theorem blocked_le_waiting m acts : let s := exec (init m) acts in
  Z.of_nat (length (thr s)) <= waiting s.
Proof. intros s. apply (j_wait s (reach_inv m acts)). Qed.

Theorem dead_releases s t p : dead s = true -> lookup t (thr s) = Some p ->
  snd (astep s (ARecv t)) = [2] /\ snd (astep s (ALeave t)) = [2] /\ snd (astep s (ARetry t)) = [2].
Proof. intros Hd El. unfold astep. rewrite Hd, El. cbn. tauto. Qed.

Theorem leaves_only_by s a : (length (thr (fst (astep s a))) < length (thr s))%nat ->
  dead s = true \/ (exists t, a = ALeave t) \/ (exists t, a = ARetry t /\ adm (fst (astep s a)) <> adm s).
Proof.
  intros Hl. unfold astep in *. destruct (dead s) eqn:Hd; [now left|]. right. revert Hl.
  destruct a as [t|t|t|t|id|v|k]; cbn [fst].
  - destruct (lookup t (thr s)); cbn [fst]; [lia|].
    destruct (try_admit s true) as [s1 [id|]] eqn:Ea; cbn [fst].
    + apply try_admit_some in Ea. destruct Ea as (_ & _ & _ & _ & _ & _ & _ & _ & _ & _ & _ & Et & _).
      rewrite Et. lia.
    + apply try_admit_none in Ea. destruct Ea as (_ & _ & _ & _ & _ & _ & _ & _ & _ & _ & Et & _).
      cbn. rewrite Et, app_length. lia.
  - destruct (lookup t (thr s)) as [[g|]|]; cbn [fst]; try lia.
    destruct (mem g (cg s)); cbn; [rewrite set_t_len; lia|].
    destruct ((g =? cur s) && token s); cbn; [rewrite set_t_len; lia|lia].
  - destruct (lookup t (thr s)) as [[g|]|]; cbn [fst]; try lia.
    destruct (try_admit s false) as [s1 [id|]] eqn:Ea; cbn [fst].
    + intros _. right. exists t. split; [reflexivity|].
      apply try_admit_some in Ea. destruct Ea as (_ & _ & _ & _ & _ & _ & _ & _ & _ & _ & _ & _ & _ & Ea).
      cbn. rewrite Ea. intros E. apply (f_equal (@length Z)) in E. rewrite app_length in E. cbn in E. lia.
    + apply try_admit_none in Ea. destruct Ea as (_ & _ & _ & _ & _ & _ & _ & _ & _ & _ & Et & _).
      cbn. rewrite Et, set_t_len. lia.
  - intros _. left. eauto.
  - destruct (mem id (open s)); cbn; lia.
  - destruct ((v - maxc s >? 0) && (waiting s >? 0)); cbn; lia.
  - cbn. lia.
Qed.

(* ---------- quiescence ---------- *)

Definition quiescent (s : st) (held : list Z) : Prop := first_runnable s held = None.

(* calls that are held back by the scheduler have not run since they registered *)
Definition held_blocked (s : st) (held : list Z) : Prop :=
  forall t p, In (t, p) (thr s) -> mem t held = true -> exists g, p = Blocked g.

Lemma quiescent_none s held : quiescent s held -> forall e, In e (thr s) -> runnable s held e = false.
Proof.
  unfold quiescent, first_runnable. intros Hq e Hi.
  destruct (filter (runnable s held) (thr s)) as [|e0 l] eqn:Ef; [|discriminate].
  destruct (runnable s held e) eqn:Er; [|reflexivity].
  assert (In e (filter (runnable s held) (thr s))) by (apply filter_In; tauto). rewrite Ef in H. destruct H.
Qed.

Lemma parked_in s held t : In t (parked s held) <-> (exists p, In (t, p) (thr s)) /\ mem t held = false.
Proof.
  unfold parked. rewrite filter_In, in_map_iff. split.
  - intros [([t0 p] & E & I) Hm]. cbn in E. subst t0. split; [eauto|]. now apply negb_true_iff.
  - intros [(p & I) Hm]. split; [exists (t, p); tauto|]. now apply negb_true_iff.
Qed.

(* at a quiescent point no call is parked in its select while quota is free, and after
   GOAWAY/Close none is parked at all *)
Theorem quiescent_blocked_only_without_quota s held : Inv s -> quiescent s held -> held_blocked s held ->
  (dead s = true -> parked s held = []) /\
  (dead s = false -> parked s held <> [] -> quota s <= 0).
Proof.
  intros H Hq Hb. pose proof (quiescent_none s held Hq) as Hn. split.
  - intros Hd. destruct (parked s held) as [|t l] eqn:Ep; [reflexivity|]. exfalso.
    assert (Hi : In t (parked s held)) by (rewrite Ep; now left).
    apply parked_in in Hi as [(p & Hi) Hm]. specialize (Hn _ Hi).
    unfold runnable in Hn. cbn [fst] in Hn. rewrite Hm, Hd in Hn. discriminate.
  - intros Hd Hne. destruct (Z_lt_le_dec 0 (quota s)) as [Hpos|]; [|assumption]. exfalso.
    destruct (parked s held) as [|t l] eqn:Ep; [congruence|].
    assert (Hi : In t (parked s held)) by (rewrite Ep; now left).
    apply parked_in in Hi as [(p & Hi) Hm].
    assert (Hall : forall t p, In (t, p) (thr s) -> mem t held = false -> exists g, p = Blocked g /\ can_recv s g = false).
    { intros t0 p0 Hi0 Hm0. specialize (Hn _ Hi0). unfold runnable in Hn. cbn [fst snd] in Hn.
      rewrite Hm0, Hd in Hn. cbn in Hn. destruct p0 as [g|]; [eauto|discriminate]. }
    destruct (Hall t p Hi Hm) as (g & -> & Hc).
    destruct (j_gen s H) as (G1 & G2 & G3 & G4).
    unfold can_recv in Hc. apply orb_false_iff in Hc as [Hc1 Hc2].
    destruct (G3 g (j_thr s H t g Hi)) as [->|I]; [|apply mem_in in I; congruence].
    rewrite Z.eqb_refl in Hc2. cbn in Hc2.
    destruct (j_wake s H Hd Hpos) as [T|(t' & R)]; [eauto|congruence|].
    destruct (mem t' held) eqn:Hm'.
    + destruct (Hb t' Retry R Hm') as (? & E). discriminate.
    + destruct (Hall t' Retry R Hm') as (? & E & _). discriminate.
Qed.

(* ---------- running to quiescence terminates within the fuel ---------- *)

Definition wgt (c : list Z) (e : Z * pc) : nat :=
  match snd e with Retry => 4 | Blocked g => if mem g c then 3 else 2 end.
Definition sumw (c : list Z) (l : list (Z * pc)) : nat := fold_right (fun e n => wgt c e + n)%nat 0%nat l.
Definition mu (s : st) : nat :=
  if dead s then length (thr s) else (sumw (cg s) (thr s) + (if token s then 1 else 0))%nat.

Arguments sumw : simpl never.

Lemma sumw_cons c e l : sumw c (e :: l) = (wgt c e + sumw c l)%nat.
Proof. reflexivity. Qed.

Lemma sumw_set_t c t p : forall l p0, lookup t l = Some p0 ->
  (sumw c (set_t t p l) + wgt c (t, p0) = sumw c l + wgt c (t, p))%nat.
Proof.
  induction l as [|[t' p'] l IH]; cbn [lookup set_t]; intros p0 H; [discriminate|].
  destruct (Z.eqb_spec t t') as [->|N].
  - inversion H; subst. rewrite !sumw_cons. lia.
  - rewrite !sumw_cons. specialize (IH p0 H). lia.
Qed.

Lemma sumw_remove_t c t : forall l p0, lookup t l = Some p0 ->
  (sumw c (remove_t t l) + wgt c (t, p0) = sumw c l)%nat.
Proof.
  induction l as [|[t' p'] l IH]; cbn [lookup remove_t]; intros p0 H; [discriminate|].
  destruct (Z.eqb_spec t t') as [->|N].
  - inversion H; subst. rewrite !sumw_cons. lia.
  - rewrite !sumw_cons. specialize (IH p0 H). lia.
Qed.

Lemma sumw_le c : forall l, (sumw c l <= 4 * length l)%nat.
Proof.
  induction l as [|[t p] l IH]; [unfold sumw; cbn; lia|]. rewrite sumw_cons. cbn [length].
  unfold wgt. cbn [snd]. destruct p as [g|]; [destruct (mem g c)|]; lia.
Qed.

Lemma mu_lt_fuel s : (mu s < fuel_of s)%nat.
Proof.
  unfold mu, fuel_of. destruct (dead s); [lia|]. pose proof (sumw_le (cg s) (thr s)).
  destruct (token s); lia.
Qed.

Lemma first_runnable_some s held t : Inv s -> first_runnable s held = Some t ->
  exists p, lookup t (thr s) = Some p /\ runnable s held (t, p) = true.
Proof.
  intros H. unfold first_runnable. destruct (filter (runnable s held) (thr s)) as [|[t0 p0] l] eqn:Ef; [discriminate|].
  intros E. inversion E; subst. cbn [fst] in *.
  assert (Hi : In (t, p0) (filter (runnable s held) (thr s))) by (rewrite Ef; now left).
  apply filter_In in Hi as [Hi Hr]. exists p0. split; [|assumption].
  apply in_lookup_nodup; [apply H|assumption].
Qed.

Lemma retry_mu s t : Inv s -> dead s = false -> lookup t (thr s) = Some Retry ->
  (mu (fst (astep s (ARetry t))) + 2 <= mu s)%nat.
Proof.
  intros H Hd El. unfold astep. rewrite Hd, El.
  destruct (j_gen s H) as (_ & G2 & _).
  assert (Hc : mem (cur s) (cg s) = false).
  { destruct (mem (cur s) (cg s)) eqn:E; [|reflexivity]. apply mem_in in E. tauto. }
  destruct (try_admit s false) as [s1 [id|]] eqn:Ea; cbn [fst].
  - apply try_admit_some in Ea.
    destruct Ea as (_ & _ & _ & _ & _ & _ & _ & _ & E7 & _ & _ & E10 & E11 & _).
    unfold mu. cbn. rewrite E11, Hd, E7, E10.
    pose proof (sumw_remove_t (cg s) t _ _ El). unfold wgt in H0 at 1. cbn [snd] in H0.
    destruct (token s1); destruct (token s); lia.
  - apply try_admit_none in Ea.
    destruct Ea as (_ & _ & _ & _ & _ & E5 & _ & E7 & E8 & _ & E10 & E11 & _).
    unfold mu. cbn. rewrite E11, Hd, E7, E10, E8, E5.
    pose proof (sumw_set_t (cg s) t (Blocked (cur s)) _ _ El). unfold wgt in H0 at 1 2. cbn [snd] in H0.
    rewrite Hc in H0. destruct (token s); lia.
Qed.

Lemma iter_decr s held t : Inv s -> first_runnable s held = Some t ->
  mem t held = false /\
  (mu (exec s [ARecv t; ARetry t]) < mu s)%nat.
Proof.
  intros H Hf. destruct (first_runnable_some s held t H Hf) as (p & El & Hr).
  unfold runnable in Hr. cbn [fst snd] in Hr. apply andb_true_iff in Hr as [Hh Hr].
  apply negb_true_iff in Hh. split; [exact Hh|].
  change (exec s [ARecv t; ARetry t]) with (fst (astep (fst (astep s (ARecv t))) (ARetry t))).
  destruct (dead s) eqn:Hd.
  - (* everyone leaves *)
    assert (E1 : fst (astep s (ARecv t)) = set_thr s (remove_t t (thr s))).
    { unfold astep. rewrite Hd, El. reflexivity. }
    rewrite E1. unfold astep. cbn [dead set_thr thr]. rewrite Hd.
    rewrite (notin_lookup_none t _ (remove_t_gone t _ (j_keys s H))). cbn [fst].
    unfold mu. cbn. rewrite Hd. pose proof (remove_t_len t _ _ El). lia.
  - cbn in Hr. destruct p as [g|].
    + (* blocked and able to receive *)
      pose proof (astep_inv s (ARecv t) H) as H1.
      assert (E1 : lookup t (thr (fst (astep s (ARecv t)))) = Some Retry /\
                   dead (fst (astep s (ARecv t))) = false /\
                   (mu (fst (astep s (ARecv t))) <= mu s + 1)%nat).
      { unfold astep. rewrite Hd, El. unfold can_recv in Hr.
        destruct (mem g (cg s)) eqn:Em; cbn [fst].
        - cbn. split; [eapply lookup_set_t; eassumption|]. split; [assumption|].
          unfold mu. cbn. rewrite Hd.
          pose proof (sumw_set_t (cg s) t Retry _ _ El). unfold wgt in H0 at 1 2. cbn [snd] in H0.
          rewrite Em in H0. lia.
        - cbn in Hr. rewrite Hr. cbn. split; [eapply lookup_set_t; eassumption|]. split; [first [assumption|reflexivity]|].
          unfold mu. cbn. rewrite Hd. apply andb_true_iff in Hr as [_ Ht]. rewrite Ht.
          pose proof (sumw_set_t (cg s) t Retry _ _ El). unfold wgt in H0 at 1 2. cbn [snd] in H0.
          rewrite Em in H0. lia. }
      destruct E1 as (L1 & D1 & M1). pose proof (retry_mu _ t H1 D1 L1). lia.
    + assert (E1 : fst (astep s (ARecv t)) = s) by (unfold astep; rewrite Hd, El; reflexivity).
      rewrite E1. pose proof (retry_mu s t H Hd El). lia.
Qed.

Lemma exec_app s l1 l2 : exec s (l1 ++ l2) = exec (exec s l1) l2.
Proof. unfold exec. apply fold_left_app. Qed.

Definition wact (a : act) : Prop := match a with ARecv _ | ARetry _ => True | _ => False end.
Definition wact_on (held : list Z) (a : act) : Prop :=
  match a with ARecv t | ARetry t => mem t held = false | _ => False end.

Lemma wact_on_wact held : forall l, Forall (wact_on held) l -> Forall wact l.
Proof.
  intros l H. eapply Forall_impl; [|exact H]. intros a Ha. destruct a; cbn in *; tauto.
Qed.

Lemma settle_spec : forall f held s, Inv s ->
  exists l, Forall (wact_on held) l /\ settle f held s = exec s l /\
            ((mu s < f)%nat -> quiescent (settle f held s) held).
Proof.
  induction f as [|f IH]; intros held s H; cbn [settle].
  - exists []. split; [constructor|]. split; [reflexivity|lia].
  - destruct (first_runnable s held) as [t|] eqn:Ef.
    + pose proof (exec_inv [ARecv t; ARetry t] s H) as H1.
      destruct (iter_decr s held t H Ef) as [Hh Hdec].
      destruct (IH held _ H1) as (l & Fl & El & Ql).
      exists ([ARecv t; ARetry t] ++ l). split; [repeat constructor; assumption|].
      split; [rewrite exec_app; assumption|]. intros Hm. apply Ql. lia.
    + exists []. split; [constructor|]. split; [reflexivity|]. intros _. exact Ef.
Qed.

(* ---------- what waiter steps and single operations preserve ---------- *)

Lemma astep_fields s a : dead s = false ->
  maxc (fst (astep s a)) = match a with ASettings v => v | _ => maxc s end /\
  dead (fst (astep s a)) = match a with ADead _ => true | _ => false end.
Proof.
  intros Hd. unfold astep. rewrite Hd. destruct a as [t|t|t|t|id|v|k].
  - destruct (lookup t (thr s)); cbn [fst]; [tauto|].
    destruct (try_admit s true) as [s1 [id|]] eqn:Ea; cbn [fst].
    + apply try_admit_some in Ea. destruct Ea as (_ & _ & _ & E2 & _ & _ & _ & _ & _ & _ & _ & _ & E11 & _). split; congruence.
    + apply try_admit_none in Ea. destruct Ea as (_ & _ & E2 & _ & _ & _ & _ & _ & _ & _ & _ & E11 & _). cbn. split; congruence.
  - destruct (lookup t (thr s)) as [[g|]|]; cbn [fst]; try tauto.
    destruct (mem g (cg s)); cbn; [tauto|]. destruct ((g =? cur s) && token s); cbn; tauto.
  - destruct (lookup t (thr s)) as [[g|]|]; cbn [fst]; try tauto.
    destruct (try_admit s false) as [s1 [id|]] eqn:Ea; cbn [fst].
    + apply try_admit_some in Ea. destruct Ea as (_ & _ & _ & E2 & _ & _ & _ & _ & _ & _ & _ & _ & E11 & _). cbn. split; congruence.
    + apply try_admit_none in Ea. destruct Ea as (_ & _ & E2 & _ & _ & _ & _ & _ & _ & _ & _ & E11 & _). cbn. split; congruence.
  - destruct (lookup t (thr s)) as [[g|]|]; cbn; tauto.
  - destruct (mem id (open s)); cbn; tauto.
  - destruct ((v - maxc s >? 0) && (waiting s >? 0)); cbn; tauto.
  - cbn. tauto.
Qed.

Lemma wstep_props s a : wact a -> let s' := fst (astep s a) in
  maxc s' = maxc s /\ dead s' = dead s /\ (exists l, adm s' = adm s ++ l) /\
  ((adm s' = adm s /\ quota s' = quota s) \/ (0 <= quota s' /\ dead s = false)).
Proof.
  intros Hw. cbn zeta. destruct (dead s) eqn:Hd.
  - assert (E : maxc (fst (astep s a)) = maxc s /\ dead (fst (astep s a)) = true /\
                adm (fst (astep s a)) = adm s /\ quota (fst (astep s a)) = quota s).
    { unfold astep. rewrite Hd. destruct a; try destruct Hw; destruct (lookup tid (thr s)); cbn; tauto. }
    destruct E as (E1 & E2 & E3 & E4). repeat split; try assumption.
    + exists []. now rewrite app_nil_r.
    + now left.
  - destruct (astep_fields s a Hd) as [F1 F2].
    split; [destruct a; try destruct Hw; assumption|]. split; [destruct a; try destruct Hw; assumption|].
    destruct (step_adm s a) as [(E & _ & [Q|N])|(_ & Hq & Ea & _ & Eq & _)]; cbn zeta in *.
    + split; [exists []; now rewrite app_nil_r|now left].
    + destruct a; try destruct Hw; exfalso; destruct (N tid) as (N1 & N2 & N3); congruence.
    + split; [eauto|]. right. split; [lia|reflexivity].
Qed.

Lemma wexec_props : forall l s, Forall wact l -> let s' := exec s l in
  maxc s' = maxc s /\ dead s' = dead s /\ (exists l', adm s' = adm s ++ l') /\
  ((adm s' = adm s /\ quota s' = quota s) \/ (0 <= quota s' /\ dead s = false)).
Proof.
  induction l as [|a l IH]; intros s Hf.
  - cbn. repeat split; try reflexivity. exists []. now rewrite app_nil_r. now left.
  - inversion Hf as [|? ? Ha Hl]; subst. rewrite exec_cons. cbn zeta.
    destruct (wstep_props s a Ha) as (A1 & A2 & (l1 & A3) & A4). cbn zeta in *.
    destruct (IH (fst (astep s a)) Hl) as (B1 & B2 & (l2 & B3) & B4). cbn zeta in *.
    split; [congruence|]. split; [congruence|].
    split; [exists (l1 ++ l2); rewrite B3, A3, app_assoc; reflexivity|].
    destruct B4 as [[B4 B5]|[B4 B5]].
    + destruct A4 as [[A4 A5]|[A4 A5]]; [left; split; congruence|right; split; [lia|assumption]].
    + right. split; [assumption|congruence].
Qed.

Lemma one_act s a : Inv s -> dead s = false -> let s1 := fst (astep s a) in
  Inv s1 /\ (exists l, adm s1 = adm s ++ l) /\ (adm s1 = adm s \/ 0 <= quota s1) /\
  maxc s1 = match a with ASettings v => v | _ => maxc s end /\
  dead s1 = match a with ADead _ => true | _ => false end /\
  (dead s1 = true -> adm s1 = adm s).
Proof.
  intros H Hd. cbn zeta. destruct (astep_fields s a Hd) as [F1 F2].
  split; [apply astep_inv, H|].
  destruct (step_adm s a) as [(E & _)|(_ & Hq & Ea & _ & Eq & _ & Hk)]; cbn zeta in *.
  - split; [exists []; now rewrite app_nil_r|]. tauto.
  - split; [eauto|]. split; [right; lia|]. split; [assumption|]. split; [assumption|].
    rewrite F2. destruct Hk as [(t & ->)|(t & ->)]; discriminate.
Qed.

(* ---------- the executable predicate holds on every model trace ---------- *)

Definition hl_wf (v : Z) : bool :=
  (0 <=? v) && ((v <=? 100) || ((1000 <=? v) && (v <=? 3000)) || (4000 <=? v)).

Definition op_wf (op : word) : bool :=
  match op with
  | [1] | [2; _] | [2; _; _] | [3; _; _] | [4; _] | [5; _] | [7] | [8; _] | [10] | [11; _] | [12; _] => true
  | [6; w] => 0 <=? w
  | [9; v] => hl_wf v
  | _ => false
  end.

Inductive shape : word -> Prop :=
| sh1 : shape [1] | sh2 v : shape [2; v] | sh2' u v : shape [2; u; v] | sh3 k h : shape [3; k; h]
| sh4 k : shape [4; k] | sh5 k : shape [5; k] | sh6 w : shape [6; w]
| sh7 : shape [7] | sh8 k : shape [8; k] | sh9 v : shape [9; v] | sh10 : shape [10]
| sh11 k : shape [11; k] | sh12 k : shape [12; k].

Lemma op_wf_shape op : op_wf op = true -> shape op.
Proof.
  intros H. destruct op as [|a l]; [discriminate|].
  destruct a as [|p|p]; try discriminate H.
  destruct p as [[[[p|p|]|[p|p|]|]|[[p|p|]|[p|p|]|]|]|[[[p|p|]|[p|p|]|]|[[p|p|]|[p|p|]|]|]|]; try discriminate H;
    destruct l as [|x1 [|x2 [|x3 l]]]; try discriminate H; constructor.
Qed.

Definition mx_of (op : word) (d : Z) : Z := match op with [2; v] => v | [2; _; v] => v | _ => d end.
Definition dd_of (t : trk) (op : word) : bool := match op with [5; _] => t_nh t =? 0 | _ => false end.

Lemma take_n_app n : forall (l r : list Z), length l = n -> take_n n (l ++ r) = Some (l, r).
Proof.
  induction n as [|n IH]; intros [|x l] r H; cbn in *; try discriminate; [reflexivity|].
  rewrite IH by lia. reflexivity.
Qed.

Lemma word_eqb_refl w : word_eqb w w = true.
Proof. induction w as [|x w IH]; cbn; [reflexivity|]. now rewrite Z.eqb_refl. Qed.

Lemma skipn_app_exact (l l' : list Z) : skipn (length l) (l ++ l') = l'.
Proof. induction l as [|x l IH]; cbn; [reflexivity|assumption]. Qed.

Definition the_clauses (t : trk) (mx' : Z) (dd : bool) (q no nb nh : Z) (new : list Z) : list (Z * Z * bool) :=
  let n := Z.of_nat (length new) in
  [(3, n, (0 <=? n) && incr_odd (t_last t) new && word_eqb new new);
   (1, q, dd || (q + no =? mx'));
   (2, no, dd || (n <=? 0) || (no <=? mx'));
   (4, nb - nh, dd || (nb - nh <=? 0) || (q <=? 0));
   (5, nb, negb dd || ((nb =? 0) && (n =? 0)));
   (6, no, no =? no);
   (7, 0, 0 =? 0)].

Lemma cl_op_eq t op q w no nb nh c tm hd nw new :
  cl_op t op ([q; w; no; nb; nh; c; tm; hd; no; nw; 0; Z.of_nat (length new)] ++ new ++ new) =
  (mkt (mx_of op (t_max t)) (last new (t_last t)) nh (dd_of t op),
   the_clauses t (mx_of op (t_max t)) (dd_of t op) q no nb nh new).
Proof.
  unfold cl_op. cbn [app]. rewrite Nat2Z.id, take_n_app by reflexivity. reflexivity.
Qed.

(* thread-table bookkeeping of waiter steps *)
Lemma wstep_thr s a t : a = ARecv t \/ a = ARetry t ->
  (forall e, In e (thr (fst (astep s a))) -> fst e = t \/ In e (thr s)) /\
  (forall k, In k (map fst (thr (fst (astep s a)))) -> In k (map fst (thr s))).
Proof.
  intros Ha.
  assert (Hset : forall p l, lookup t l <> None -> (forall e, In e (set_t t p l) -> fst e = t \/ In e l) /\
                        (forall k, In k (map fst (set_t t p l)) -> In k (map fst l))).
  { intros p l _. split; [intros e He; apply set_t_in in He as [->|He]; [now left|now right]|].
    now rewrite keys_set_t. }
  assert (Hrem : forall l, (forall e, In e (remove_t t l) -> fst e = t \/ In e l) /\
                      (forall k, In k (map fst (remove_t t l)) -> In k (map fst l))).
  { intros l. split; [intros e He; right; eapply remove_t_incl; eassumption|apply remove_t_keys_incl]. }
  assert (Hid : (forall e, In e (thr s) -> fst e = t \/ In e (thr s)) /\
                (forall k, In k (map fst (thr s)) -> In k (map fst (thr s)))) by tauto.
  unfold astep. destruct (dead s) eqn:Hd.
  - destruct Ha as [-> | ->]; destruct (lookup t (thr s)); cbn [fst]; try exact Hid; cbn; apply Hrem.
  - destruct Ha as [-> | ->].
    + destruct (lookup t (thr s)) as [[g|]|] eqn:El; cbn [fst]; try exact Hid.
      destruct (mem g (cg s)); cbn [fst]; [cbn; apply Hset; congruence|].
      destruct ((g =? cur s) && token s); cbn [fst]; [cbn; apply Hset; congruence|exact Hid].
    + destruct (lookup t (thr s)) as [[g|]|] eqn:El; cbn [fst]; try exact Hid.
      destruct (try_admit s false) as [s1 [id|]] eqn:Ea; cbn [fst].
      * apply try_admit_some in Ea. destruct Ea as (_ & _ & _ & _ & _ & _ & _ & _ & _ & _ & _ & Et & _).
        cbn. rewrite Et. apply Hrem.
      * apply try_admit_none in Ea. destruct Ea as (_ & _ & _ & _ & _ & _ & _ & _ & _ & _ & Et & _).
        cbn. rewrite Et. apply Hset. congruence.
Qed.

Lemma held_exec held : forall l s, Forall (wact_on held) l -> held_blocked s held ->
  held_blocked (exec s l) held /\
  (forall k, In k (map fst (thr (exec s l))) -> In k (map fst (thr s))).
Proof.
  induction l as [|a l IH]; intros s Hf Hb; [cbn; tauto|].
  inversion Hf as [|? ? Ha Hl]; subst. rewrite exec_cons.
  assert (Ht : exists t, (a = ARecv t \/ a = ARetry t) /\ mem t held = false).
  { destruct a; cbn in Ha; try tauto; eauto. }
  destruct Ht as (t & Hat & Hm). destruct (wstep_thr s a t Hat) as [W1 W2].
  assert (Hb1 : held_blocked (fst (astep s a)) held).
  { intros t0 p Hi Hm0. destruct (W1 _ Hi) as [E|I]; [cbn in E; congruence|now apply (Hb t0 p)]. }
  destruct (IH _ Hl Hb1) as [A B]. split; [assumption|]. intros k Hk. apply W2, B, Hk.
Qed.

(* operations other than waiter steps create only blocked entries *)
Lemma opact_thr s a : (forall t, a <> ARecv t) -> (forall t, a <> ARetry t) ->
  forall e, In e (thr (fst (astep s a))) -> (exists g, snd e = Blocked g) \/ In e (thr s).
Proof.
  intros N1 N2. unfold astep. destruct (dead s) eqn:Hd.
  - destruct a as [t|t|t|t|id|v|k]; cbn [fst]; try tauto; try (exfalso; eapply N1; reflexivity);
      try (exfalso; eapply N2; reflexivity).
    destruct (lookup t (thr s)); cbn; [|tauto]. intros e He. right. eapply remove_t_incl; eassumption.
  - destruct a as [t|t|t|t|id|v|k]; try (exfalso; eapply N1; reflexivity); try (exfalso; eapply N2; reflexivity).
    + destruct (lookup t (thr s)); cbn [fst]; [tauto|].
      destruct (try_admit s true) as [s1 [id|]] eqn:Ea; cbn [fst].
      * apply try_admit_some in Ea. destruct Ea as (_ & _ & _ & _ & _ & _ & _ & _ & _ & _ & _ & Et & _).
        rewrite Et. tauto.
      * apply try_admit_none in Ea. destruct Ea as (_ & _ & _ & _ & _ & _ & _ & _ & _ & _ & Et & _).
        cbn. rewrite Et. intros e He. apply in_app_or in He as [He|[<-|[]]]; [now right|left; cbn; eauto].
    + destruct (lookup t (thr s)) as [[g|]|]; cbn; try tauto. intros e He. right. eapply remove_t_incl; eassumption.
    + destruct (mem id (open s)); cbn; tauto.
    + destruct ((v - maxc s >? 0) && (waiting s >? 0)); cbn; tauto.
    + cbn. tauto.
Qed.

Lemma filter_split {A} (f : A -> bool) : forall l,
  (length (filter f l) + length (filter (fun x => negb (f x)) l) = length l)%nat.
Proof.
  induction l as [|x l IH]; [reflexivity|]. cbn. destruct (f x); cbn; lia.
Qed.

Lemma thr_split s held :
  Z.of_nat (length (thr s)) - Z.of_nat (length (held_in s held)) = Z.of_nat (length (parked s held)).
Proof.
  unfold held_in, parked. pose proof (filter_split (fun t => mem t held) (map fst (thr s))) as F.
  rewrite map_length in F. lia.
Qed.

Definition all_blocked (s : st) : Prop := forall t p, In (t, p) (thr s) -> exists g, p = Blocked g.

Definition Sim (s : st) (held : list Z) (t : trk) : Prop :=
  Inv s /\ quiescent s held /\ held_blocked s held /\ t_max t = maxc s /\ t_last t = last (adm s) 0 /\
  t_nh t = Z.of_nat (length (held_in s held)) /\ t_dead t = dead s.

Lemma sim_all_blocked s held t : Sim s held t -> dead s = false -> all_blocked s.
Proof.
  intros (H & Hq & Hb & _) Hd t0 p Hi. destruct (mem t0 held) eqn:Hm; [now apply (Hb t0 p)|].
  pose proof (quiescent_none s held Hq _ Hi) as Hn. unfold runnable in Hn. cbn [fst snd] in Hn.
  rewrite Hm, Hd in Hn. cbn in Hn. destruct p as [g|]; [eauto|discriminate].
Qed.

Lemma finish_step s held t s1 held' mx' dd : Sim s held t -> Inv s1 -> all_blocked s1 ->
  (exists l, adm s1 = adm s ++ l) ->
  (adm s1 = adm s \/ 0 <= quota s1) -> maxc s1 = mx' -> dead s1 = dd ->
  (dd = true -> adm s1 = adm s /\ held_in s1 held' = []) ->
  let s2 := settle (fuel_of s1) held' s1 in
  let new := skipn (length (adm s)) (adm s2) in
  Sim s2 held' (mkt mx' (last new (t_last t)) (Z.of_nat (length (held_in s2 held'))) dd) /\
  forallb (fun c : Z * Z * bool => snd c)
    (the_clauses t mx' dd (quota s2) (Z.of_nat (length (open s2))) (Z.of_nat (length (thr s2)))
                 (Z.of_nat (length (held_in s2 held'))) new) = true.
Proof.
  intros (H & Hq & Hb & Tm & Tl & Tn & Td) H1 AB1 (l1 & A1) Q1 M1 D1 DA. cbn zeta.
  destruct (settle_spec (fuel_of s1) held' s1 H1) as (l & Fl & El & Ql).
  specialize (Ql (mu_lt_fuel s1)).
  set (s2 := settle (fuel_of s1) held' s1) in *.
  assert (H2 : Inv s2) by (rewrite El; now apply exec_inv).
  destruct (wexec_props l s1 (wact_on_wact held' l Fl)) as (B1 & B2 & (l2 & B3) & B4). cbn zeta in *.
  assert (Hb1 : held_blocked s1 held') by (intros t0 p Hi _; now apply (AB1 t0 p)).
  destruct (held_exec held' l s1 Fl Hb1) as [Hb2 Hk2]. rewrite <- El in *.
  assert (Enew : skipn (length (adm s)) (adm s2) = l1 ++ l2).
  { rewrite B3, A1, <- app_assoc. apply skipn_app_exact. }
  rewrite Enew. set (new := l1 ++ l2) in *.
  assert (Eadm : adm s2 = adm s ++ new) by (unfold new; rewrite B3, A1, app_assoc; reflexivity).
  destruct (quiescent_blocked_only_without_quota s2 held' H2 Ql Hb2) as [QD QB].
  pose proof (thr_split s2 held') as Hsplit.
  split.
  - unfold Sim. split; [exact H2|]. split; [exact Ql|]. split; [exact Hb2|]. cbn [t_max t_last t_nh t_dead].
    split; [congruence|]. split; [|split; [reflexivity|congruence]].
    rewrite Eadm, last_app_z, Tl. reflexivity.
  - unfold the_clauses. cbn [forallb snd]. rewrite !andb_true_iff. repeat split.
    + apply Z.leb_le. lia.
    + destruct (j_ids s2 H2) as (_ & _ & I & _). rewrite Eadm, incr_odd_app in I.
      apply andb_true_iff in I as [_ I]. now rewrite Tl.
    + apply word_eqb_refl.
    + destruct dd; [reflexivity|]. cbn [orb]. apply Z.eqb_eq.
      pose proof (j_ledger s2 H2 ltac:(congruence)). lia.
    + destruct dd; [reflexivity|]. cbn [orb].
      destruct (Z.leb_spec (Z.of_nat (length new)) 0) as [L|G]; [reflexivity|]. cbn [orb].
      apply Z.leb_le. pose proof (j_ledger s2 H2 ltac:(congruence)) as Lg.
      assert (0 <= quota s2).
      { destruct B4 as [[B4 B5]|[B4 _]]; [|assumption]. rewrite B5.
        destruct Q1 as [Q1|Q1]; [|assumption]. exfalso.
        assert (new = []).
        { rewrite B4, Q1 in Eadm. rewrite <- (app_nil_r (adm s)) in Eadm at 1.
          apply app_inv_head in Eadm. congruence. }
        rewrite H0 in G. cbn in G. lia. }
      lia.
    + destruct dd; [reflexivity|]. cbn [orb]. rewrite Hsplit.
      destruct (Z.leb_spec (Z.of_nat (length (parked s2 held'))) 0) as [L|G]; [reflexivity|]. cbn [orb].
      apply Z.leb_le. apply QB; [congruence|]. intros E. rewrite E in G. cbn in G. lia.
    + destruct dd; [|reflexivity]. cbn [negb orb]. destruct (DA eq_refl) as [DA1 DA2].
      assert (Hh : held_in s2 held' = []).
      { destruct (held_in s2 held') as [|k r] eqn:Eh; [reflexivity|]. exfalso.
        assert (Hi : In k (held_in s2 held')) by (rewrite Eh; now left).
        unfold held_in in Hi. apply filter_In in Hi as [Hi Hm].
        assert (In k (held_in s1 held')) by (unfold held_in; apply filter_In; split; [now apply Hk2|assumption]).
        rewrite DA2 in H0. destruct H0. }
      rewrite (QD ltac:(congruence)), Hh in Hsplit. cbn [length] in Hsplit.
      assert (Z.of_nat (length (thr s2)) = 0) by lia. rewrite H0. cbn.
      assert (new = []).
      { destruct B4 as [[B4 _]|[_ B4]]; [|congruence].
        rewrite B4, DA1 in Eadm. rewrite <- (app_nil_r (adm s)) in Eadm at 1.
        apply app_inv_head in Eadm. congruence. }
      rewrite H3. reflexivity.
    + apply Z.eqb_refl.
Qed.

(* operations made of stream closes and context leaves only *)
Definition quiet (a : act) : Prop := match a with AClose _ | ALeave _ => True | _ => False end.

Lemma quiet_exec : forall l s, Forall quiet l -> Inv s -> dead s = false -> all_blocked s ->
  let s1 := exec s l in
  Inv s1 /\ adm s1 = adm s /\ maxc s1 = maxc s /\ dead s1 = false /\ all_blocked s1.
Proof.
  induction l as [|a l IH]; intros s Hf H Hd AB; [cbn; tauto|].
  inversion Hf as [|? ? Ha Hl]; subst. rewrite exec_cons.
  destruct (one_act s a H Hd) as (I1 & _ & _ & M1 & D1 & _). cbn zeta in *.
  assert (A1 : adm (fst (astep s a)) = adm s).
  { destruct (step_adm s a) as [(E & _)|(_ & _ & _ & _ & _ & _ & [(t & ->)|(t & ->)])];
      [exact E|destruct Ha|destruct Ha]. }
  assert (AB1 : all_blocked (fst (astep s a))).
  { intros t0 p Hi.
    assert (N1 : forall t1, a <> ARecv t1) by (intros t1 ->; destruct Ha).
    assert (N2 : forall t1, a <> ARetry t1) by (intros t1 ->; destruct Ha).
    destruct (opact_thr s a N1 N2 _ Hi) as [(g & E)|I]; [cbn in E; eauto|now apply (AB t0 p)]. }
  assert (M1' : maxc (fst (astep s a)) = maxc s) by (destruct a; try destruct Ha; exact M1).
  assert (D1' : dead (fst (astep s a)) = false) by (destruct a; try destruct Ha; exact D1).
  destruct (IH _ Hl I1 D1' AB1) as (I2 & A2 & M2 & D2 & AB2). cbn zeta in *.
  split; [exact I2|]. split; [congruence|]. split; [congruence|]. split; [exact D2|exact AB2].
Qed.

Lemma op_step_ok s held e t tid op : Sim s held t -> dead s = false -> op_wf op = true ->
  exists s' held' e' o, op_step s held e tid op = Some (s', held', e', o) /\ Sim s' held' (fst (cl_op t op o)) /\
               forallb (fun c : Z * Z * bool => snd c) (snd (cl_op t op o)) = true.
Proof.
  intros S Hd Hw. pose proof S as (H & Hq & Hb & Tm & Tl & Tn & Td).
  pose proof (sim_all_blocked s held t S Hd) as AB.
  assert (Hmany : forall acts held' e1 hd, op_act s held e tid op = Some (acts, held', e1, hd) ->
            Forall quiet acts -> mx_of op (t_max t) = maxc s -> dd_of t op = false ->
            exists s' held'' e' o, op_step s held e tid op = Some (s', held'', e', o) /\ Sim s' held'' (fst (cl_op t op o)) /\
               forallb (fun c : Z * Z * bool => snd c) (snd (cl_op t op o)) = true).
  { intros acts held' e1 hd Ea Hf Em Ed. unfold op_step. rewrite Ea. eexists _, _, _, _. split; [reflexivity|].
    rewrite cl_op_eq. cbn [fst snd].
    destruct (quiet_exec acts s Hf H Hd AB) as (I1 & A1 & M1 & D1 & AB1). cbn zeta in *.
    apply (finish_step s held t (exec s acts) held' (mx_of op (t_max t)) (dd_of t op) S I1 AB1); try congruence.
    - exists []. rewrite app_nil_r. exact A1.
    - left. exact A1. }
  assert (Hone : forall a held' e1 hd, op_act s held e tid op = Some ([a], held', e1, hd) ->
            (forall t0, a <> ARecv t0) -> (forall t0, a <> ARetry t0) ->
            mx_of op (t_max t) = match a with ASettings v => v | _ => maxc s end ->
            dd_of t op = match a with ADead _ => true | _ => false end ->
            (dd_of t op = true -> held_in s held' = []) ->
            exists s' held'' e' o, op_step s held e tid op = Some (s', held'', e', o) /\ Sim s' held'' (fst (cl_op t op o)) /\
               forallb (fun c : Z * Z * bool => snd c) (snd (cl_op t op o)) = true).
  { intros a held' e1 hd Ea N1 N2 Em Ed Eh. unfold op_step. rewrite Ea. eexists _, _, _, _. split; [reflexivity|].
    rewrite cl_op_eq. cbn [fst snd]. change (exec s [a]) with (fst (astep s a)).
    destruct (one_act s a H Hd) as (I1 & A1 & Q1 & M1 & D1 & DA). cbn zeta in *.
    assert (AB1 : all_blocked (fst (astep s a))).
    { intros t0 p Hi. destruct (opact_thr s a N1 N2 _ Hi) as [(g & E)|I]; [cbn in E; eauto|now apply (AB t0 p)]. }
    apply (finish_step s held t (fst (astep s a)) held' (mx_of op (t_max t)) (dd_of t op) S I1 AB1 A1 Q1); try congruence.
    intros E. split; [apply DA; congruence|].
    (* ADead does not touch the thread table *)
    rewrite Ed in E. destruct a; try discriminate E. specialize (Eh ltac:(congruence)).
    unfold held_in in *. unfold astep. rewrite Hd. cbn. exact Eh. }
  assert (Hcall : forall big hold, op_act s held e tid op = new_call held e tid big hold ->
            mx_of op (t_max t) = t_max t -> dd_of t op = false ->
            exists s' held'' e' o, op_step s held e tid op = Some (s', held'', e', o) /\ Sim s' held'' (fst (cl_op t op o)) /\
               forallb (fun c : Z * Z * bool => snd c) (snd (cl_op t op o)) = true).
  { intros big hold Ea Em Ed. unfold new_call in Ea. destruct (rej (hl e) big).
    - apply (Hmany _ _ _ _ Ea); [constructor|congruence|assumption].
    - apply (Hone _ _ _ _ Ea); try discriminate; try congruence. }
  apply op_wf_shape in Hw. destruct Hw as [|v|u v|k h|k|k|w| |k|v| |k|k].
  - apply (Hcall false false); reflexivity.
  - apply (Hone (ASettings v) held e 0); try reflexivity; try discriminate.
  - apply (Hone (ASettings v) held e 0); try reflexivity; try discriminate.
  - assert (Ea : op_act s held e tid [3; k; h] =
                  match nth_mod k (open s) with Some id => Some ([AClose id], held, e, 0) | None => Some ([], held, e, 0) end) by reflexivity.
    destruct (nth_mod k (open s)) as [id|].
    + apply (Hone (AClose id) held e 0); try exact Ea; try discriminate; try reflexivity. cbn; congruence.
    + apply (Hmany [] held e 0); [exact Ea|constructor|cbn; congruence|reflexivity].
  - assert (Ea : op_act s held e tid [4; k] =
                  match nth_mod k (parked s held) with Some t0 => Some ([ALeave t0], held, e, 0) | None => Some ([], held, e, 0) end) by reflexivity.
    destruct (nth_mod k (parked s held)) as [t0|].
    + apply (Hone (ALeave t0) held e 0); try exact Ea; try discriminate; try reflexivity. cbn; congruence.
    + apply (Hmany [] held e 0); [exact Ea|constructor|cbn; congruence|reflexivity].
  - assert (Ea : op_act s held e tid [5; k] =
                  match held_in s held with [] => Some ([ADead k], held, e, 0) | _ => Some ([], [], e, 0) end) by reflexivity.
    assert (Edd : dd_of t [5; k] = match held_in s held with [] => true | _ => false end).
    { cbn. rewrite Tn. destruct (held_in s held); reflexivity. }
    destruct (held_in s held) as [|h0 hr] eqn:Eh.
    + apply (Hone (ADead k) held e 0); try exact Ea; try discriminate; try exact Edd. cbn; congruence. intros _. exact Eh.
    + apply (Hmany [] [] e 0); [exact Ea|constructor|cbn; congruence|exact Edd].
  - eapply Hmany; [reflexivity|constructor|cbn; congruence|reflexivity].
  - apply (Hcall false true); reflexivity.
  - assert (Ea : op_act s held e tid [8; k] =
                  match nth_mod k (held_in s held) with Some t0 => Some ([], remove_z t0 held, e, 0) | None => Some ([], held, e, 0) end) by reflexivity.
    destruct (nth_mod k (held_in s held)) as [t0|].
    + apply (Hmany [] (remove_z t0 held) e 0); [exact Ea|constructor|cbn; congruence|reflexivity].
    + apply (Hmany [] held e 0); [exact Ea|constructor|cbn; congruence|reflexivity].
  - eapply Hmany; [reflexivity|constructor|cbn; congruence|reflexivity].
  - apply (Hcall true false); reflexivity.
  - assert (Ea : op_act s held e tid [11; k] =
                  match nth_mod k (open s) with
                  | Some id => Some (AClose id :: map ALeave (if (quota s + 1 >? 0) && (waiting s >? 0)
                                                             then tl (parked s held) else parked s held), held, e, 0)
                  | None => Some ([], held, e, 0) end) by reflexivity.
    destruct (nth_mod k (open s)) as [id|].
    + eapply Hmany; [exact Ea| |cbn; congruence|reflexivity].
      constructor; [exact I|]. apply Forall_forall. intros a Ha. apply in_map_iff in Ha as (t0 & <- & _). exact I.
    + apply (Hmany [] held e 0); [exact Ea|constructor|cbn; congruence|reflexivity].
  - assert (Ea : op_act s held e tid [12; k] =
                  match nth_mod k (open s) with
                  | Some id => Some ([], held, (if mem id (wr e) then e else mke (hl e) (wr e ++ [id])), 0)
                  | None => Some ([], held, e, 0) end) by reflexivity.
    destruct (nth_mod k (open s)) as [id|].
    + eapply Hmany; [exact Ea|constructor|cbn; congruence|reflexivity].
    + apply (Hmany [] held e 0); [exact Ea|constructor|cbn; congruence|reflexivity].
Qed.

Lemma go_holds : forall ops s held e t tid, Sim s held t -> forallb op_wf ops = true ->
  exists obs, go s held e tid ops = Some obs /\
              forallb (fun c : Z * Z * bool => snd c) (cl_go t ops obs) = true.
Proof.
  induction ops as [|op ops IH]; cbn [go cl_go forallb]; intros s held e t tid S Hw.
  - exists []. split; reflexivity.
  - pose proof S as (_ & _ & _ & _ & _ & _ & Td). rewrite Td.
    destruct (dead s) eqn:Hd; [exists []; split; reflexivity|].
    apply andb_true_iff in Hw as [Hop Hr].
    destruct (op_step_ok s held e t tid op S Hd Hop) as (s' & held' & e' & o & E & S' & F). rewrite E.
    destruct (IH s' held' e' _ (tid + 1) S' Hr) as (obs & G & C). rewrite G.
    exists (o :: obs). split; [reflexivity|].
    destruct (cl_op t op o) as [t' cs]. cbn [fst snd] in *. now rewrite forallb_app, F, C.
Qed.

Theorem model_trace_holds m0 ops : forallb op_wf ops = true ->
  exists obs, run [m0] ops = Some obs /\ holds_b [m0] ops obs = true.
Proof.
  intros Hw. unfold run, holds_b, clauses. apply go_holds; [|assumption].
  unfold Sim. cbn. split; [apply init_inv|]. repeat split; try reflexivity. intros t p [].
Qed.

(* every state the case runner passes through is reached by atomic steps only *)
Lemma op_step_reach s held e tid op s' held' e' o : Inv s ->
  op_step s held e tid op = Some (s', held', e', o) -> exists acts, s' = exec s acts.
Proof.
  intros H. unfold op_step. destruct (op_act s held e tid op) as [[[[acts h'] e1] hd]|]; [|discriminate].
  intros E. inversion E; subst.
  destruct (settle_spec (fuel_of (exec s acts)) held' (exec s acts) (exec_inv acts s H)) as (l & _ & El & _).
  exists (acts ++ l). rewrite exec_app. exact El.
Qed.

(* ---------- the operations added for header-list-size, duplicate settings, simultaneous
   close/cancel and blocked senders ---------- *)

(* a call rejected by checkForHeaderListSize performs no step of the admission protocol *)
Lemma rejected_call_no_step held e tid big hold : rej (hl e) big = true ->
  new_call held e tid big hold = Some ([], held, e, 1).
Proof. intros E. unfold new_call. now rewrite E. Qed.

(* a SETTINGS frame that carries MAX_CONCURRENT_STREAMS twice acts as one that carries the last value *)
Lemma duplicate_setting_last_wins s held e tid u v :
  op_step s held e tid [2; u; v] = op_step s held e tid [2; v].
Proof. reflexivity. Qed.

(* after every operation a sender is blocked on write quota only on a stream that is still open *)
Lemma senders_only_on_open_streams s held e tid op s' held' e' o :
  op_step s held e tid op = Some (s', held', e', o) -> forall id, In id (wr e') -> In id (open s').
Proof.
  unfold op_step. destruct (op_act s held e tid op) as [[[[acts h'] e1] hd]|]; [|discriminate].
  intros E. inversion E; subst. cbn [wr]. intros id Hi. apply filter_In in Hi as [_ Hm]. now apply mem_in.
Qed.
