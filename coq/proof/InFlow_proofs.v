(* Proofs for C04 (model/InFlow.v). *)
From Coq Require Import List ZArith Bool Lia ZifyBool.
From VLib Require Import Codec Machine.
From VModel Require Import InFlow.
Import ListNotations.
Open Scope Z_scope.

Ltac consts :=
  unfold maxWindowSize, bdpLimit, maxFrame in *;
  change max_i32 with 2147483647 in *;
  change (2 ^ 32) with 4294967296 in *.

Ltac dlia := Z.div_mod_to_equations; lia.

Lemma u32_small x : 0 <= x < 4294967296 -> u32 x = x.
Proof. intros H. unfold u32. change (2 ^ 32) with 4294967296. apply Z.mod_small. lia. Qed.

Lemma i32_small x : -2147483648 <= x < 2147483648 -> i32 x = x.
Proof.
  intros H. unfold i32. change (2 ^ 31) with 2147483648. change (2 ^ 32) with 4294967296.
  rewrite Z.mod_small by lia. lia.
Qed.

(* ---------- the primitives without machine arithmetic, under range hypotheses ---------- *)

Lemma tr_onData_eq s n :
  0 <= n -> 0 <= unacked s -> unacked s + n < 4294967296 ->
  tr_onData n s =
  if unacked s + n <? climit s / 4
  then (0, mkst (limit s) (pd s) (pu s) (delta s) (climit s) (unacked s + n) (dead s) (iws s))
  else (unacked s + n, mkst (limit s) (pd s) (pu s) (delta s) (climit s) 0 (dead s) (iws s)).
Proof. intros. unfold tr_onData. rewrite u32_small by lia. reflexivity. Qed.

Lemma in_onData_eq s n :
  0 <= n -> 0 <= pd s -> 0 <= pu s -> pd s + n + pu s < 4294967296 ->
  0 <= limit s + delta s < 4294967296 ->
  in_onData n s =
  (pd s + n + pu s >? limit s + delta s,
   mkst (limit s) (pd s + n) (pu s) (delta s) (climit s) (unacked s) (dead s) (iws s)).
Proof.
  intros. unfold in_onData. rewrite (u32_small (pd s + n)) by lia.
  rewrite (u32_small (pd s + n + pu s)) by lia. rewrite (u32_small (limit s + delta s)) by lia.
  reflexivity.
Qed.

Lemma in_onRead_eq s n :
  0 <= n <= pd s -> pd s < 4294967296 -> 0 <= pu s -> 0 <= delta s < 4294967296 ->
  pu s + n < 4294967296 ->
  in_onRead n s =
  if pd s =? 0 then (0, s) else
  let m := Z.min n (delta s) in
  if pu s + (n - m) >=? limit s / 4
  then (pu s + (n - m), mkst (limit s) (pd s - n) 0 (delta s - m) (climit s) (unacked s) (dead s) (iws s))
  else (0, mkst (limit s) (pd s - n) (pu s + (n - m)) (delta s - m) (climit s) (unacked s) (dead s) (iws s)).
Proof.
  intros. unfold in_onRead. destruct (pd s =? 0) eqn:E0; [reflexivity|].
  rewrite (u32_small (pd s - n)) by lia. cbv zeta.
  destruct (n >? delta s) eqn:E1.
  - rewrite (u32_small (n - delta s)) by lia. rewrite (u32_small (pu s + (n - delta s))) by lia.
    replace (Z.min n (delta s)) with (delta s) by lia.
    replace (delta s - delta s) with 0 by lia. reflexivity.
  - rewrite (u32_small (delta s - n)) by lia. rewrite Z.add_0_r. rewrite (u32_small (pu s)) by lia.
    replace (Z.min n (delta s)) with n by lia.
    replace (pu s + (n - n)) with (pu s) by lia. reflexivity.
Qed.

Lemma in_maybeAdjust_eq s n0 :
  0 <= n0 < 4294967296 -> 1 <= limit s <= 2147483647 -> 0 <= pd s -> 0 <= pu s ->
  pd s + pu s <= limit s ->
  in_maybeAdjust n0 s =
  let n := Z.min n0 2147483647 in
  if n - pd s >? limit s - (pd s + pu s) then
    let d := if limit s + n >? 2147483647 then 2147483647 - limit s else n in
    (d, mkst (limit s) (pd s) (pu s) d (climit s) (unacked s) (dead s) (iws s))
  else (0, s).
Proof.
  intros. unfold in_maybeAdjust. consts.
  replace (if n0 >? 2147483647 then 2147483647 else n0) with (Z.min n0 2147483647)
    by (destruct (n0 >? 2147483647) eqn:E; lia).
  cbv zeta. set (n := Z.min n0 2147483647). assert (0 <= n <= 2147483647) by lia.
  rewrite (u32_small (pd s + pu s)) by lia.
  rewrite (u32_small (limit s - (pd s + pu s))) by lia.
  rewrite (i32_small (limit s - (pd s + pu s))) by lia.
  assert (Hu : i32 (u32 (n - pd s)) = n - pd s).
  { unfold i32, u32. change (2 ^ 31) with 2147483648. change (2 ^ 32) with 4294967296.
    rewrite Zplus_mod_idemp_l. rewrite Z.mod_small by lia. lia. }
  rewrite Hu. rewrite (u32_small (limit s + n)) by lia.
  rewrite (u32_small (2147483647 - limit s)) by lia. reflexivity.
Qed.

(* ---------- invariant tying the model state to the ledger ---------- *)

Definition SInv (s : st) (L : led) : Prop :=
  limit s = lim L /\ 1 <= lim L <= 2147483647 /\
  0 <= pd s /\ 0 <= pu s /\ 0 <= delta s <= 2147483647 /\
  limit s + delta s <= 2147483647 + 16777216 /\
  pd s = deliv L - readb L /\
  pd s + pu s <= limit s + delta s /\
  win L = limit s + delta s - pd s - pu s /\
  (pu s < limit s / 4 \/ pu s = 0) /\
  delta s <= want L /\
  (adjusted L = false -> delta s = 0) /\
  (bumped L = false -> limit s + delta s <= 2147483647) /\
  iws s = limit s.

Definition Inv (s : st) (L : led) : Prop :=
  dead s = ldead L /\
  climit s = clim L /\ 1 <= clim L <= 2147483647 /\
  cwin L = climit s - unacked s /\
  0 <= unacked s /\ (unacked s < climit s / 4 \/ unacked s = 0) /\
  0 <= want L /\ 0 <= deliv L - readb L /\
  sshrunk L = false /\ cdead L = false /\
  siw L = iws s /\ 1 <= siw L <= 2147483647 /\
  (ldead L = false -> SInv s L).

Lemma inv_init cfg s : cfg_ok cfg = true -> init cfg = Some s -> Inv s (linit cfg).
Proof.
  unfold cfg_ok, init, linit. destruct (cfg2 cfg) as [|l [|cl [|x r]]]; try discriminate.
  intros Hc Hi. consts. inversion Hi; subst s; clear Hi.
  rewrite !u32_small by lia.
  unfold Inv, SInv, win, cwin; cbn. repeat split; lia.
Qed.

Definition okc (cs : list (Z * Z * bool)) : Prop := forallb proved_clause cs = true.

Lemma okc_app a b : okc a -> okc b -> okc (a ++ b).
Proof. unfold okc. intros. rewrite forallb_app. rewrite H, H0. reflexivity. Qed.

Local Arguments in_onData : simpl never.
Local Arguments in_onRead : simpl never.
Local Arguments in_maybeAdjust : simpl never.
Local Arguments tr_onData : simpl never.
Local Arguments u32 : simpl never.
Local Arguments i32 : simpl never.
Local Arguments Z.mul : simpl never.
Local Arguments Z.add : simpl never.
Local Arguments Z.sub : simpl never.
Local Arguments Z.div : simpl never.
Local Arguments Z.min : simpl never.
Local Arguments Z.ltb : simpl never.
Local Arguments Z.leb : simpl never.
Local Arguments Z.gtb : simpl never.
Local Arguments Z.geb : simpl never.
Local Arguments Z.eqb : simpl never.

Ltac ceqb :=
  change (0 =? 0) with true in *; change (1 =? 0) with false in *.

Ltac brk :=
  repeat match goal with
  | |- context [if ?b then _ else _] => destruct b eqn:?
  end.

Ltac brkH H :=
  repeat match type of H with
  | context [if ?b then _ else _] => destruct b eqn:?
  end.

Ltac inv_goal :=
  unfold Inv, SInv, win, cwin in *; cbn in *; consts; repeat split; intros; try discriminate; try dlia.

Ltac okc_goal :=
  unfold okc, clauses_k, proved_clause, win, cwin in *; cbn in *; ceqb; cbn in *; consts; brk; cbn; try dlia.

Ltac rwb :=
  repeat match goal with
  | E : ?b = true |- context [?b] => rewrite E
  | E : ?b = false |- context [?b] => rewrite E
  end.

Ltac finish :=
  eexists; split; [cbn; ceqb; rwb; cbn; reflexivity|]; split; [inv_goal | okc_goal].

Lemma step_ping i s L o s' :
  Inv s L -> stepk s OPing = (o, s') ->
  exists L', lstepk L OPing o = Some L' /\ Inv s' L' /\ okc (clauses_k i L OPing o L').
Proof.
  intros HI H. destruct s as [l p u d cl un dd iw]. destruct L as [a r ca cr lm clm dv rb w ld aj bm sk cd si].
  cbn in H. inversion H; subst; clear H.
  unfold Inv in HI; cbn in HI. destruct HI as (Hd & Hcl & Hclr & Hcw & Hun & Hun2 & Hw & Hur & Hsk & Hcd & Hsi & Hsir & HS).
  subst dd cl sk cd si. destruct ld.
  - finish.
  - specialize (HS eq_refl). unfold SInv in HS; cbn in HS. finish.
Qed.

Lemma step_new i s L n o s' :
  Inv s L -> opk_ok L (ONew n) = true -> stepk s (ONew n) = (o, s') ->
  exists L', lstepk L (ONew n) o = Some L' /\ Inv s' L' /\ okc (clauses_k i L (ONew n) o L').
Proof.
  intros HI Hok H. destruct s as [l p u d cl un dd iw]. destruct L as [a r ca cr lm clm dv rb w ld aj bm sk cd si].
  unfold Inv in HI; cbn in HI. destruct HI as (Hd & Hcl & Hclr & Hcw & Hun & Hun2 & Hw & Hur & Hsk & Hcd & Hsi & Hsir & HS).
  subst dd cl sk cd si. cbn in Hok. consts.
  assert (E0 : (n =? 0) = false) by lia.
  unfold stepk, tr_newLimit, in_newLimit, set_iws in H. rewrite (u32_small n) in H by lia. cbn in H.
  destruct ld; cbn in H.
  - destruct (n >? iw) eqn:Eg; cbn in H; destruct (n <=? clm) eqn:Ec; cbn in H;
      try rewrite (u32_small (n - clm)) in H by lia;
      try replace (n - clm >? 0) with true in H by lia;
      change (0 >? 0) with false in H; cbn in H; inversion H; subst; clear H;
      (eexists; split; [cbn; ceqb; rewrite ?E0; cbn; reflexivity|]; split; [inv_goal | okc_goal]).
  - specialize (HS eq_refl). unfold SInv in HS; cbn in HS.
    destruct HS as (H1 & H2 & H3 & H4 & H5 & H6 & H7 & H8 & H9 & H10 & H11 & H12 & H13 & H14). subst l iw.
    destruct (n >? lm) eqn:Eg; cbn in H; destruct (n <=? clm) eqn:Ec; cbn in H;
      try rewrite (u32_small (n - clm)) in H by lia;
      try replace (n - clm >? 0) with true in H by lia;
      change (0 >? 0) with false in H; cbn in H; inversion H; subst; clear H;
      destruct aj, bm;
      (eexists; split; [cbn; ceqb; rewrite ?E0; cbn; reflexivity|]; split; [inv_goal | okc_goal]).
Qed.

Lemma step_req i s L n o s' :
  Inv s L -> opk_ok L (OReq n) = true -> stepk s (OReq n) = (o, s') ->
  exists L', lstepk L (OReq n) o = Some L' /\ Inv s' L' /\ okc (clauses_k i L (OReq n) o L').
Proof.
  intros HI Hok H. destruct s as [l p u d cl un dd iw]. destruct L as [a r ca cr lm clm dv rb w ld aj bm sk cd si].
  unfold Inv in HI; cbn in HI. destruct HI as (Hd & Hcl & Hclr & Hcw & Hun & Hun2 & Hw & Hur & Hsk & Hcd & Hsi & Hsir & HS).
  subst dd cl sk cd si. cbn in Hok. consts.
  unfold stepk in H. rewrite (u32_small n) in H by lia. cbn [dead] in H.
  destruct ld.
  - cbn in H. inversion H; subst; clear H. finish.
  - specialize (HS eq_refl). unfold SInv in HS; cbn in HS.
    destruct HS as (H1 & H2 & H3 & H4 & H5 & H6 & H7 & H8 & H9 & H10 & H11 & H12 & H13 & H14). subst l.
    assert (d = 0) by lia. subst d.
    rewrite in_maybeAdjust_eq in H by (cbn; lia). cbn in H.
    brkH H; inversion H; subst; clear H; finish.
Qed.

Lemma step_read i s L k o s' :
  Inv s L -> opk_ok L (ORead k) = true -> stepk s (ORead k) = (o, s') ->
  exists L', lstepk L (ORead k) o = Some L' /\ Inv s' L' /\ okc (clauses_k i L (ORead k) o L').
Proof.
  intros HI Hok H. destruct s as [l p u d cl un dd iw]. destruct L as [a r ca cr lm clm dv rb w ld aj bm sk cd si].
  unfold Inv in HI; cbn in HI. destruct HI as (Hd & Hcl & Hclr & Hcw & Hun & Hun2 & Hw & Hur & Hsk & Hcd & Hsi & Hsir & HS).
  subst dd cl sk cd si. cbn in Hok. consts.
  unfold stepk in H. cbn [dead] in H.
  destruct ld.
  - cbn in H. inversion H; subst; clear H. finish.
  - specialize (HS eq_refl). unfold SInv in HS; cbn in HS.
    destruct HS as (H1 & H2 & H3 & H4 & H5 & H6 & H7 & H8 & H9 & H10 & H11 & H12 & H13 & H14). subst l.
    rewrite (u32_small k) in H by lia.
    rewrite in_onRead_eq in H by (cbn; lia). cbn in H.
    brkH H; inversion H; subst; clear H; destruct aj, bm; finish.
Qed.

Lemma step_data i s L size pad o s' :
  Inv s L -> opk_ok L (OData size pad) = true -> stepk s (OData size pad) = (o, s') ->
  exists L', lstepk L (OData size pad) o = Some L' /\ Inv s' L' /\
             okc (clauses_k i L (OData size pad) o L').
Proof.
  intros HI Hok H. destruct s as [l p u d cl un dd iw]. destruct L as [a r ca cr lm clm dv rb w ld aj bm sk cd si].
  unfold Inv in HI; cbn in HI. destruct HI as (Hd & Hcl & Hclr & Hcw & Hun & Hun2 & Hw & Hur & Hsk & Hcd & Hsi & Hsir & HS).
  subst dd cl sk cd si. cbn in Hok. consts.
  unfold stepk in H. consts. rewrite (u32_small size) in H by lia. rewrite (u32_small pad) in H by lia.
  replace ((pad >? size) || (size >=? 16777216)) with false in H by lia.
  rewrite tr_onData_eq in H by (cbn; dlia). cbn [unacked climit limit pd pu delta dead] in H.
  destruct ld.
  - destruct (un + size <? clm / 4) eqn:E; cbn in H; inversion H; subst; clear H; finish.
  - specialize (HS eq_refl). unfold SInv in HS; cbn in HS.
    destruct HS as (H1 & H2 & H3 & H4 & H5 & H6 & H7 & H8 & H9 & H10 & H11 & H12 & H13 & H14). subst l.
    destruct (size =? 0) eqn:Es.
    + destruct (un + size <? clm / 4) eqn:E; cbn in H;
        inversion H; subst; clear H; finish.
    + destruct (un + size <? clm / 4) eqn:E; cbn in H;
        rewrite in_onData_eq in H by (cbn; lia); cbn in H;
        (destruct (p + size + u >? lm + d) eqn:Ee;
         [ cbn in H; inversion H; subst; clear H; finish
         | destruct (pad >? 0) eqn:Ep;
           [ rewrite in_onRead_eq in H by (cbn; lia); cbn in H;
             brkH H; inversion H; subst; clear H; finish
           | inversion H; subst; clear H; finish ] ]).
Qed.

Lemma step_begin i s L o s' :
  Inv s L -> stepk s OBegin = (o, s') ->
  exists L', lstepk L OBegin o = Some L' /\ Inv s' L' /\ okc (clauses_k i L OBegin o L').
Proof.
  intros HI H. destruct s as [l p u d cl un dd iw]. destruct L as [a r ca cr lm clm dv rb w ld aj bm sk cd si].
  cbn in H. inversion H; subst; clear H.
  unfold Inv in HI; cbn in HI. destruct HI as (Hd & Hcl & Hclr & Hcw & Hun & Hun2 & Hw & Hur & Hsk & Hcd & Hsi & Hsir & HS).
  subst dd cl sk cd si. destruct ld.
  - finish.
  - specialize (HS eq_refl). unfold SInv in HS; cbn in HS.
    destruct HS as (H1 & H2 & H3 & H4 & H5 & H6 & H7 & H8 & H9 & H10 & H11 & H12 & H13 & H14). subst l.
    destruct bm; finish.
Qed.

Lemma step_release i s L o s' :
  Inv s L -> stepk s ORelease = (o, s') ->
  exists L', lstepk L ORelease o = Some L' /\ Inv s' L' /\ okc (clauses_k i L ORelease o L').
Proof.
  intros HI H. destruct s as [l p u d cl un dd iw]. destruct L as [a r ca cr lm clm dv rb w ld aj bm sk cd si].
  cbn in H. inversion H; subst; clear H.
  unfold Inv in HI; cbn in HI. destruct HI as (Hd & Hcl & Hclr & Hcw & Hun & Hun2 & Hw & Hur & Hsk & Hcd & Hsi & Hsir & HS).
  subst dd cl sk cd si. clear HS. destruct ld; finish.
Qed.

Lemma stepk_inv i s L k o s' :
  Inv s L -> opk_ok L k = true -> stepk s k = (o, s') ->
  exists L', lstepk L k o = Some L' /\ Inv s' L' /\ okc (clauses_k i L k o L').
Proof.
  destruct k; intros.
  - eapply step_data; eauto.
  - eapply step_req; eauto.
  - eapply step_read; eauto.
  - eapply step_new; eauto.
  - eapply step_ping; eauto.
  - eapply step_begin; eauto.
  - eapply step_release; eauto.
Qed.

(* one well-formed step at the word level *)
Lemma step_inv i s L op o s' :
  Inv s L -> op_ok L op = true -> step s op = Some (o, s') ->
  exists L', lstep L op o = Some L' /\ Inv s' L' /\ okc (clauses_at i L op o L').
Proof.
  unfold op_ok, step, lstep, clauses_at. destruct (decode_op op) as [k|]; [|discriminate].
  intros HI Hok H. inversion H as [H1]. eapply stepk_inv; eauto.
Qed.

Lemma step_total s L op : op_ok L op = true -> exists o s', step s op = Some (o, s').
Proof.
  unfold op_ok, step. destruct (decode_op op) as [k|]; [|discriminate].
  intros _. destruct (stepk s k) as [o s'] eqn:E. eauto.
Qed.

(* ---------- bridge: the predicate evaluated on implementation traces holds on model traces ---------- *)

Lemma op_ok_pre s L op : Inv s L -> op_ok L op = true -> op_ok L op && negb (cdead L) = true.
Proof.
  intros HI H. unfold Inv in HI.
  destruct HI as (Hd & Hcl & Hclr & Hcw & Hun & Hun2 & Hw & Hur & Hsk & Hcd & Hsi & Hsir & HS).
  rewrite Hcd, H. reflexivity.
Qed.

Lemma trace_ok : forall ops s L i obs,
  Inv s L -> run_from s ops = Some obs -> gate_from L ops obs = true ->
  okc (clauses_from i L ops obs).
Proof.
  induction ops as [|op r IH]; intros s L i obs HI Hr Hg.
  - cbn in Hr. inversion Hr; subst. reflexivity.
  - cbn in Hr. destruct (step s op) as [[o s']|] eqn:Es; [|discriminate].
    destruct (run_from s' r) as [os|] eqn:Er; [|discriminate]. inversion Hr; subst obs; clear Hr.
    cbn in Hg. apply andb_prop in Hg. destruct Hg as [Hok Hg].
    destruct (step_inv i s L op o s' HI Hok Es) as (L' & HL & HI' & Hc).
    rewrite HL in Hg. cbn [clauses_from]. rewrite (op_ok_pre s L op HI Hok), HL.
    apply okc_app; [exact Hc|]. eapply IH; eauto.
Qed.

Lemma model_trace_holds : forall cfg ops, wf cfg ops = true ->
  exists obs, run cfg ops = Some obs /\ holds_b cfg ops obs = true.
Proof.
  intros cfg ops H. unfold wf in H. apply andb_prop in H. destruct H as [Hc H].
  destruct (run cfg ops) as [obs|] eqn:Er; [|discriminate].
  exists obs. split; [reflexivity|]. unfold holds_b, clauses. rewrite Hc.
  unfold run in Er. destruct (init cfg) as [s|] eqn:Ei; [|discriminate].
  eapply trace_ok; eauto. eapply inv_init; eauto.
Qed.

(* ---------- reachable states ---------- *)

Lemma fin_from_inv : forall ops s L s' L',
  Inv s L -> fin_from s L ops = Some (s', L') -> Inv s' L'.
Proof.
  induction ops as [|op r IH]; intros s L s' L' HI H.
  - cbn in H. inversion H; subst; exact HI.
  - cbn in H. destruct (op_ok L op) eqn:Hok; [|discriminate].
    destruct (step s op) as [[o s1]|] eqn:Es; [|discriminate].
    destruct (step_inv 0 s L op o s1 HI Hok Es) as (L1 & HL & HI1 & _).
    rewrite HL in H. eapply IH; eauto.
Qed.

Lemma fin_inv cfg ops s L : fin cfg ops = Some (s, L) -> Inv s L.
Proof.
  unfold fin. destruct (cfg_ok cfg) eqn:Hc; [|discriminate].
  destruct (init cfg) as [s0|] eqn:Ei; [|discriminate].
  intros H. eapply fin_from_inv; [|exact H]. eapply inv_init; eauto.
Qed.

(* fin and wf describe the same runs *)
Lemma fin_from_total : forall ops s L obs,
  run_from s ops = Some obs -> gate_from L ops obs = true -> exists sl, fin_from s L ops = Some sl.
Proof.
  induction ops as [|op r IH]; intros s L obs Hr Hg.
  - cbn. eauto.
  - cbn in Hr. destruct (step s op) as [[o s']|] eqn:Es; [|discriminate].
    destruct (run_from s' r) as [os|] eqn:Er; [|discriminate]. inversion Hr; subst obs; clear Hr.
    cbn in Hg. apply andb_prop in Hg. destruct Hg as [Hok Hg].
    destruct (lstep L op o) as [L'|] eqn:HL; [|discriminate].
    cbn. rewrite Hok, Es, HL. eapply IH; eauto.
Qed.

Lemma wf_fin cfg ops : wf cfg ops = true -> exists s L, fin cfg ops = Some (s, L).
Proof.
  intros H. unfold wf in H. apply andb_prop in H. destruct H as [Hc H].
  destruct (run cfg ops) as [obs|] eqn:Er; [|discriminate].
  unfold run in Er. unfold fin. rewrite Hc. destruct (init cfg) as [s|]; [|discriminate].
  destruct (fin_from_total _ _ _ _ Er H) as [[s' L'] E]. eauto.
Qed.

(* ---------- the sentences of the property ---------- *)

(* the ledger (what the peer may still send) equals the receiver's own bookkeeping *)
Lemma ledger_exact cfg ops s L : fin cfg ops = Some (s, L) ->
  cwin L = climit s - unacked s /\
  (ldead L = false -> win L = limit s + delta s - (pd s + pu s) /\ pd s = deliv L - readb L /\ limit s = lim L).
Proof.
  intros H. apply fin_inv in H. unfold Inv in H.
  destruct H as (Hd & Hcl & Hclr & Hcw & Hun & Hun2 & Hw & Hur & Hsk & Hcd & Hsi & Hsir & HS). split; [exact Hcw|].
  intros Hl. specialize (HS Hl). unfold SInv in HS.
  destruct HS as (H1 & H2 & H3 & H4 & H5 & H6 & H7 & H8 & H9 & H10 & H11 & H12 & H13 & H14). repeat split; lia.
Qed.

(* A DATA frame is accepted iff it fits in the window the peer was given. *)
Lemma data_verdict cfg ops s L size pad o s' :
  fin cfg ops = Some (s, L) -> ldead L = false ->
  opk_ok L (OData size pad) = true -> 0 < size ->
  stepk s (OData size pad) = (o, s') ->
  exists cwu err swu rest, o = cwu :: err :: swu :: rest /\
    ((err = 0 /\ dead s' = false /\ size <= win L) \/
     (err = 1 /\ dead s' = true /\ win L < size /\ swu = 0)).
Proof.
  intros Hf Hld Hok Hsz H. apply fin_inv in Hf. rename Hf into HI.
  destruct s as [l p u d cl un dd iw]. destruct L as [a r ca cr lm clm dv rb w ld aj bm sk cd si].
  unfold Inv in HI; cbn in HI. destruct HI as (Hd & Hcl & Hclr & Hcw & Hun & Hun2 & Hw & Hur & Hsk & Hcd & Hsi & Hsir & HS).
  cbn in Hld. subst ld dd cl sk cd si. cbn in Hok.
  unfold stepk in H. consts. rewrite (u32_small size) in H by lia. rewrite (u32_small pad) in H by lia.
  replace ((pad >? size) || (size >=? 16777216)) with false in H by lia.
  rewrite tr_onData_eq in H by (cbn; dlia). cbn [unacked climit limit pd pu delta dead] in H.
  specialize (HS eq_refl). unfold SInv in HS; cbn in HS.
  destruct HS as (H1 & H2 & H3 & H4 & H5 & H6 & H7 & H8 & H9 & H10 & H11 & H12 & H13 & H14). subst l.
  replace (size =? 0) with false in H by lia.
  unfold win in *; cbn in *.
  destruct (un + size <? clm / 4) eqn:E; cbn in H;
    rewrite in_onData_eq in H by (cbn; lia); cbn in H;
    (destruct (p + size + u >? lm + d) eqn:Ee;
     [ cbn in H; inversion H; subst; clear H; do 4 eexists; split; [reflexivity|]; right; cbn; lia
     | destruct (pad >? 0) eqn:Ep;
       [ rewrite in_onRead_eq in H by (cbn; lia); cbn in H;
         brkH H; inversion H; subst; clear H; do 4 eexists; (split; [reflexivity|]); left; cbn; lia
       | inversion H; subst; clear H; do 4 eexists; (split; [reflexivity|]); left; cbn; lia ] ]).
Qed.

Lemma adv_bound cfg ops s L : fin cfg ops = Some (s, L) -> ldead L = false ->
  win L <= 2147483647 + 16777216 /\ (bumped L = false -> win L <= 2147483647).
Proof.
  intros H Hl. apply fin_inv in H. unfold Inv in H.
  destruct H as (Hd & Hcl & Hclr & Hcw & Hun & Hun2 & Hw & Hur & Hsk & Hcd & Hsi & Hsir & HS).
  specialize (HS Hl). unfold SInv in HS.
  destruct HS as (H1 & H2 & H3 & H4 & H5 & H6 & H7 & H8 & H9 & H10 & H11 & H12 & H13 & H14).
  split; [lia|]. intros Hb. specialize (H13 Hb). lia.
Qed.

Lemma restored cfg ops s L : fin cfg ops = Some (s, L) -> ldead L = false ->
  deliv L = readb L ->
  0 < win L /\ 3 * lim L < 4 * win L /\ win L = lim L + delta s - pu s /\
  (pu s = 0 \/ pu s < lim L / 4).
Proof.
  intros H Hl He. apply fin_inv in H. unfold Inv in H.
  destruct H as (Hd & Hcl & Hclr & Hcw & Hun & Hun2 & Hw & Hur & Hsk & Hcd & Hsi & Hsir & HS).
  specialize (HS Hl). unfold SInv in HS.
  destruct HS as (H1 & H2 & H3 & H4 & H5 & H6 & H7 & H8 & H9 & H10 & H11 & H12 & H13 & H14).
  clear Hun2 Hcw Hclr. rewrite H1 in H10, H9, H8, H13, H6.
  assert (Hpd : pd s = 0) by lia. rewrite Hpd in *.
  split; [dlia|]. split; [dlia|]. split; [lia|]. lia.
Qed.

Lemma large_read_granted cfg ops s L n o s' L' :
  fin cfg ops = Some (s, L) -> ldead L = false -> opk_ok L (OReq n) = true ->
  stepk s (OReq n) = (o, s') -> lstepk L (OReq n) o = Some L' ->
  Z.min (Z.min n 2147483647) (2147483647 - lim L' / 4) - (deliv L' - readb L') <= win L'.
Proof.
  intros Hf Hld Hok H HL. apply fin_inv in Hf. rename Hf into HI.
  destruct s as [l p u d cl un dd iw]. destruct L as [a r ca cr lm clm dv rb w ld aj bm sk cd si].
  unfold Inv in HI; cbn in HI. destruct HI as (Hd & Hcl & Hclr & Hcw & Hun & Hun2 & Hw & Hur & Hsk & Hcd & Hsi & Hsir & HS).
  cbn in Hld. subst ld dd cl sk cd si. cbn in Hok. consts.
  unfold stepk in H. rewrite (u32_small n) in H by lia. cbn [dead] in H.
  specialize (HS eq_refl). unfold SInv in HS; cbn in HS.
  destruct HS as (H1 & H2 & H3 & H4 & H5 & H6 & H7 & H8 & H9 & H10 & H11 & H12 & H13 & H14). subst l.
  assert (d = 0) by lia. subst d. clear Hun2 Hcw H12 H13.
  rewrite in_maybeAdjust_eq in H by (cbn; lia). cbn in H. unfold win in *. cbn in H9.
  brkH H; inversion H; subst; clear H; cbn in HL; inversion HL; subst; clear HL; cbn; dlia.
Qed.

Lemma conn_window cfg ops s L : fin cfg ops = Some (s, L) ->
  cwin L <= clim L /\ clim L <= 2147483647 /\ 3 * clim L < 4 * cwin L.
Proof.
  intros H. apply fin_inv in H. unfold Inv in H.
  destruct H as (Hd & Hcl & Hclr & Hcw & Hun & Hun2 & Hw & Hur & Hsk & Hcd & Hsi & Hsir & HS).
  clear HS. rewrite Hcl in Hcw, Hun2. split; [lia|]. split; [lia|]. dlia.
Qed.

(* ---------- sentences that are false of the faithful model ---------- *)

(* limit 65535; read request of 2^31-1-65535 bytes is granted in full (window = 2^31-1);
   then the BDP estimator doubles the window through SETTINGS: 2^31-1+65535 *)
Lemma adv_bound_refuted :
  exists cfg ops s L, fin cfg ops = Some (s, L) /\ ldead L = false /\ win L = 2147483647 + 65535.
Proof.
  exists [65535; 65535], [[2; 2147418112]; [4; 131070]].
  eexists. eexists. split; [vm_compute; reflexivity|]. vm_compute. split; reflexivity.
Qed.

(* limit 65535; 100 bytes arrive and are read: no window update is sent (100 < 65535/4) *)
Lemma restored_literal_refuted :
  exists cfg ops s L, fin cfg ops = Some (s, L) /\ ldead L = false /\ deliv L = readb L /\
                      win L = lim L - 100.
Proof.
  exists [65535; 65535], [[1; 100; 0]; [2; 100]; [3; 100]].
  eexists. eexists. split; [vm_compute; reflexivity|]. vm_compute. repeat split; reflexivity.
Qed.

(* updateFlowControl never emits an illegal connection WINDOW_UPDATE and never lowers a window *)
Lemma new_limit_legal cfg ops s L n o s' :
  fin cfg ops = Some (s, L) -> opk_ok L (ONew n) = true -> stepk s (ONew n) = (o, s') ->
  exists cwu items sv rest, o = cwu :: items :: sv :: rest /\
    ((items = 0 /\ cwu = 0 /\ climit s' = climit s) \/
     (items = 1 /\ 1 <= cwu <= 2147483647 /\ climit s' = climit s + cwu)) /\
    ((sv = 0 /\ limit s' = limit s /\ iws s' = iws s) \/
     (sv = n /\ iws s < n /\ iws s' = n /\ limit s <= limit s')).
Proof.
  intros Hf Hok H. apply fin_inv in Hf. rename Hf into HI.
  destruct s as [l p u d cl un dd iw]. destruct L as [a r ca cr lm clm dv rb w ld aj bm sk cd si].
  unfold Inv in HI; cbn in HI. destruct HI as (Hd & Hcl & Hclr & Hcw & Hun & Hun2 & Hw & Hur & Hsk & Hcd & Hsi & Hsir & HS).
  subst dd cl sk cd si. cbn in Hok. consts.
  unfold stepk, tr_newLimit, in_newLimit, set_iws in H. rewrite (u32_small n) in H by lia. cbn in H.
  assert (Hlim : ld = false -> iw = l /\ 1 <= l).
  { intros E. specialize (HS E). unfold SInv in HS; cbn in HS. lia. }
  destruct ld; cbn in H;
    (destruct (n >? iw) eqn:Eg; cbn in H; destruct (n <=? clm) eqn:Ec; cbn in H;
     try rewrite (u32_small (n - clm)) in H by lia;
     try replace (n - clm >? 0) with true in H by lia;
     change (0 >? 0) with false in H; cbn in H; inversion H; subst; clear H;
     do 4 eexists; (split; [reflexivity|]); cbn;
     try (specialize (Hlim eq_refl)); (split; [first [left; lia | right; lia] | first [left; lia | right; lia]])).
Qed.

(* a stream whose HEADERS are queued now enforces exactly the initial window the peer was told *)
Lemma new_stream_window cfg ops s L o s' :
  fin cfg ops = Some (s, L) -> stepk s ORelease = (o, s') ->
  siw L = iws s /\ limit s' = siw L /\ pd s' = 0 /\ pu s' = 0 /\ delta s' = 0 /\ dead s' = false.
Proof.
  intros Hf H. apply fin_inv in Hf. unfold Inv in Hf.
  destruct Hf as (Hd & Hcl & Hclr & Hcw & Hun & Hun2 & Hw & Hur & Hsk & Hcd & Hsi & Hsir & HS).
  cbn in H. inversion H; subst; cbn. rewrite Hsi. repeat split; reflexivity.
Qed.
