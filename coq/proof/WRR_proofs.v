From Coq Require Import List ZArith Bool Lia Floats.
From VLib Require Import Codec Machine.
From VModel Require Import WRR.
Import ListNotations.
Open Scope Z_scope.

Lemma word_eqb_refl w : word_eqb w w = true.
Proof. induction w as [|x r IH]; cbn [word_eqb]; [reflexivity|]. rewrite Z.eqb_refl, IH. reflexivity. Qed.

(* ---------- the stride rule ---------- *)

(* the pick test without the uint64 wrap (which cannot happen, see [picked_nowrap]) *)
Definition pickedZ (w x : Z) : bool := negb (x mod maxWeight <? maxWeight - w).

Lemma picked_nowrap w g bi : 0 <= w * g + bi * offset < 2 ^ 64 ->
  picked w g bi = pickedZ w (w * g + bi * offset).
Proof. intros H. unfold picked, pickedZ, u64. rewrite (Z.mod_small _ (2 ^ 64)) by exact H. reflexivity. Qed.

(* weight*generation + backendIndex*offset stays far below 2^64 *)
Lemma stride_range w g bi : 0 <= w <= maxWeight -> 0 <= g < 2 ^ 32 -> 0 <= bi < 2 ^ 32 ->
  0 <= w * g + bi * offset < 2 ^ 64.
Proof.
  unfold maxWeight, offset. change (2 ^ 32) with 4294967296. change (2 ^ 64) with 18446744073709551616.
  intros. nia.
Qed.

(* picked  <->  floor((x+w)/M) = floor(x/M) + 1 *)
Lemma pick_telescoping w x : 0 <= w <= maxWeight ->
  (x + w) / maxWeight - x / maxWeight = if pickedZ w x then 1 else 0.
Proof.
  unfold pickedZ, maxWeight. intros Hw.
  pose proof (Z.div_mod x 65535 ltac:(lia)) as E. pose proof (Z.mod_pos_bound x 65535 ltac:(lia)) as B.
  set (q := x / 65535) in *. set (r := x mod 65535) in *.
  destruct (Z.ltb_spec r (65535 - w)); cbn [negb].
  - assert ((x + w) / 65535 = q) by (symmetry; apply (Zdiv_unique _ _ _ (r + w)); lia). lia.
  - assert ((x + w) / 65535 = q + 1) by (symmetry; apply (Zdiv_unique _ _ _ (r + w - 65535)); lia). lia.
Qed.

(* number of generations g0 <= g < g0+k on which a backend with weight w and constant c is picked *)
Fixpoint gen_count (w c g0 : Z) (k : nat) : Z :=
  match k with
  | O => 0
  | S k' => (if pickedZ w (w * g0 + c) then 1 else 0) + gen_count w c (g0 + 1) k'
  end.

Lemma gen_count_closed w c : 0 <= w <= maxWeight -> forall k g0,
  gen_count w c g0 k = (w * (g0 + Z.of_nat k) + c) / maxWeight - (w * g0 + c) / maxWeight.
Proof.
  intros Hw. induction k as [|k IH]; intro g0; cbn [gen_count].
  - replace (g0 + Z.of_nat 0) with g0 by lia. lia.
  - rewrite IH. pose proof (pick_telescoping w (w * g0 + c) Hw) as T.
    replace (w * (g0 + 1) + c) with (w * g0 + c + w) by lia.
    replace (w * (g0 + 1 + Z.of_nat k) + c) with (w * (g0 + Z.of_nat (S k)) + c) by lia. lia.
Qed.

(* in any 65535 consecutive generations a backend of weight w is picked exactly w times *)
Theorem gen_count_exact w c g0 : 0 <= w <= maxWeight ->
  gen_count w c g0 (Z.to_nat maxWeight) = w.
Proof.
  intros Hw. rewrite gen_count_closed by exact Hw. rewrite Z2Nat.id by (unfold maxWeight; lia).
  replace (w * (g0 + maxWeight) + c) with (w * g0 + c + w * maxWeight) by lia.
  rewrite Z.div_add by (unfold maxWeight; lia). lia.
Qed.

(* the sequence numbers of a window of 65535*n addressing backend i are exactly those of
   65535 consecutive generations of backend i *)
Theorem window_generations n s i : 0 < n -> 0 <= i < n ->
  let g0 := (s - i + n - 1) / n in
  forall idx, (s <= idx < s + maxWeight * n /\ backend n idx = i) <->
              (exists g, g0 <= g < g0 + maxWeight /\ idx = n * g + i).
Proof.
  intros Hn Hi g0 idx. unfold backend.
  pose proof (Z.div_mod (s - i + n - 1) n ltac:(lia)) as E.
  pose proof (Z.mod_pos_bound (s - i + n - 1) n Hn) as B. fold g0 in E.
  set (r := (s - i + n - 1) mod n) in *. unfold maxWeight. split.
  - intros [[H1 H2] H3]. exists (idx / n).
    pose proof (Z.div_mod idx n ltac:(lia)) as E2. rewrite H3 in E2.
    split; [|exact E2]. set (g := idx / n) in *. split; nia.
  - intros (g & [H1 H2] & ->). split.
    + split; nia.
    + rewrite Z.mul_comm, Z.add_comm, Z.mod_add by lia. apply Z.mod_small. exact Hi.
Qed.

Lemma picks_at_spec ws idx : let n := zlen ws in
  picks_at ws idx = picked (nthz ws (backend n idx)) (generation n idx) (backend n idx).
Proof. reflexivity. Qed.

(* ---------- termination within n sequence numbers ---------- *)

Lemma nthz_cons' x l i : 0 < i -> nthz (x :: l) i = nthz l (i - 1).
Proof. intros H. unfold nthz. replace (Z.to_nat i) with (S (Z.to_nat (i - 1))) by lia. reflexivity. Qed.

Lemma u32_id x : 0 <= x < 2 ^ 32 -> u32 x = x.
Proof. intros H. unfold u32. apply Z.mod_small. exact H. Qed.

Lemma edf_next_first ws : forall d fuel ctr, (d <= fuel)%nat -> (1 <= d)%nat -> 0 <= ctr ->
  ctr + Z.of_nat d < 2 ^ 32 -> picks_at ws (ctr + Z.of_nat d) = true ->
  exists t, 1 <= t <= Z.of_nat d /\ edf_next fuel ws ctr = (backend (zlen ws) (ctr + t), ctr + t).
Proof.
  induction d as [|d IH]; intros fuel ctr Hf Hd Hc Hw Hp; [lia|].
  destruct fuel as [|f]; [lia|]. cbn [edf_next]. rewrite u32_id by lia.
  destruct (picks_at ws (ctr + 1)) eqn:E.
  - exists 1. split; [lia|reflexivity].
  - destruct d as [|d'].
    + change (Z.of_nat 1) with 1 in Hp. congruence.
    + destruct (IH f (ctr + 1) ltac:(lia) ltac:(lia) ltac:(lia) ltac:(lia)) as (t & Ht & Et).
      { replace (ctr + 1 + Z.of_nat (S d')) with (ctr + Z.of_nat (S (S d'))) by lia. exact Hp. }
      exists (t + 1). split; [lia|]. rewrite Et. replace (ctr + (t + 1)) with (ctr + 1 + t) by lia. reflexivity.
Qed.

Theorem edf_next_within_n ws j fuel ctr : let n := zlen ws in
  0 <= j < n -> nthz ws j = maxWeight -> n < 2 ^ 32 ->
  0 <= ctr -> ctr + n < 2 ^ 32 -> (Z.to_nat n <= fuel)%nat ->
  exists t, 1 <= t <= n /\ edf_next fuel ws ctr = (backend n (ctr + t), ctr + t).
Proof.
  intros n Hj Hw Hn Hc Hcn Hf.
  set (d := (j - (ctr + 1)) mod n + 1).
  pose proof (Z.mod_pos_bound (j - (ctr + 1)) n ltac:(lia)) as Hd.
  assert (Hb: backend n (ctr + d) = j).
  { unfold backend, d. replace (ctr + ((j - (ctr + 1)) mod n + 1)) with ((ctr + 1) + (j - (ctr + 1)) mod n) by lia.
    rewrite Zplus_mod_idemp_r. replace (ctr + 1 + (j - (ctr + 1))) with j by lia. apply Z.mod_small. lia. }
  assert (Hp: picks_at ws (ctr + d) = true).
  { unfold picks_at. fold n. rewrite Hb, Hw.
    assert (Hg: 0 <= generation n (ctr + d) < 2 ^ 32).
    { unfold generation. split; [apply Z.div_pos; lia|]. apply Z.div_lt_upper_bound; [lia|]. nia. }
    rewrite picked_nowrap by (apply stride_range; unfold maxWeight; lia).
    unfold pickedZ. rewrite Z.sub_diag.
    pose proof (Z.mod_pos_bound (maxWeight * generation n (ctr + d) + j * offset) maxWeight ltac:(unfold maxWeight; lia)).
    destruct (Z.ltb_spec ((maxWeight * generation n (ctr + d) + j * offset) mod maxWeight) 0); [lia|reflexivity]. }
  destruct (edf_next_first ws (Z.to_nat d) fuel ctr) as (t & Ht & Et); try lia.
  - rewrite Z2Nat.id by lia. exact Hp.
  - exists t. split; [lia|exact Et].
Qed.

(* ---------- the picks of a window of sequence numbers ---------- *)

Lemma cnt_app s a b : cnt s (a ++ b) = cnt s a + cnt s b.
Proof. induction a as [|x r IH]; cbn [cnt app]; [lia|]. rewrite IH. lia. Qed.

Lemma wpicks_snoc ws : forall L ctr,
  wpicks ws ctr (S L) = wpicks ws ctr L ++
    (if picks_at ws (ctr + Z.of_nat L + 1) then [backend (zlen ws) (ctr + Z.of_nat L + 1)] else []).
Proof.
  induction L as [|L IH]; intro ctr.
  - cbn [wpicks Z.of_nat]. rewrite Z.add_0_r, app_nil_r. reflexivity.
  - change (wpicks ws ctr (S (S L))) with
      ((if picks_at ws (ctr + 1) then [backend (zlen ws) (ctr + 1)] else []) ++ wpicks ws (ctr + 1) (S L)).
    rewrite IH. change (wpicks ws ctr (S L)) with
      ((if picks_at ws (ctr + 1) then [backend (zlen ws) (ctr + 1)] else []) ++ wpicks ws (ctr + 1) L).
    rewrite <- app_assoc. replace (ctr + 1 + Z.of_nat L + 1) with (ctr + Z.of_nat (S L) + 1) by lia. reflexivity.
Qed.

Lemma wpicks_app ws : forall a b ctr,
  wpicks ws ctr (a + b) = wpicks ws ctr a ++ wpicks ws (ctr + Z.of_nat a) b.
Proof.
  induction a as [|a IH]; intros b ctr.
  - cbn [wpicks plus Z.of_nat app]. rewrite Z.add_0_r. reflexivity.
  - cbn [plus wpicks]. rewrite IH, <- app_assoc. replace (ctr + 1 + Z.of_nat a) with (ctr + Z.of_nat (S a)) by lia.
    reflexivity.
Qed.

(* closed form for the number of picks of backend i (weight w, constant c) among the sequence
   numbers 0 .. x-1 *)
Definition Fcnt (w c n i x : Z) : Z :=
  (w * (x / n) + c) / maxWeight - c / maxWeight +
  (if (i <? x mod n) && pickedZ w (w * (x / n) + c) then 1 else 0).

Lemma Fcnt_step w c n i x : 0 < n -> 0 <= i < n -> 0 <= w <= maxWeight ->
  Fcnt w c n i (x + 1) - Fcnt w c n i x =
  if (x mod n =? i) && pickedZ w (w * (x / n) + c) then 1 else 0.
Proof.
  intros Hn Hi Hw. unfold Fcnt.
  pose proof (Z.div_mod x n ltac:(lia)) as E. pose proof (Z.mod_pos_bound x n Hn) as B.
  set (q := x / n) in *. set (r := x mod n) in *.
  destruct (Z.eq_dec r (n - 1)) as [R|R].
  - assert (Eq: (x + 1) / n = q + 1) by (symmetry; apply (Zdiv_unique _ _ _ 0); lia).
    assert (Er: (x + 1) mod n = 0) by (symmetry; apply (Zmod_unique _ _ (q + 1)); lia).
    rewrite Eq, Er. pose proof (pick_telescoping w (w * q + c) Hw) as T.
    replace (w * (q + 1) + c) with (w * q + c + w) by lia.
    destruct (Z.ltb_spec i 0); [lia|]. cbn [andb].
    destruct (pickedZ w (w * q + c)); destruct (Z.ltb_spec i r); destruct (Z.eqb_spec r i); cbn [andb]; lia.
  - assert (Eq: (x + 1) / n = q) by (symmetry; apply (Zdiv_unique _ _ _ (r + 1)); lia).
    assert (Er: (x + 1) mod n = r + 1) by (symmetry; apply (Zmod_unique _ _ q); lia).
    rewrite Eq, Er.
    destruct (pickedZ w (w * q + c)); destruct (Z.ltb_spec i r); destruct (Z.ltb_spec i (r + 1));
      destruct (Z.eqb_spec r i); cbn [andb]; lia.
Qed.

Lemma Fcnt_window w c n i x : 0 < n -> 0 <= w <= maxWeight ->
  Fcnt w c n i (x + maxWeight * n) - Fcnt w c n i x = w.
Proof.
  intros Hn Hw. unfold Fcnt.
  rewrite Z.div_add, Z.mod_add by lia.
  replace (w * (x / n + maxWeight) + c) with (w * (x / n) + c + w * maxWeight) by lia.
  rewrite Z.div_add by (unfold maxWeight; lia).
  assert (Ep: pickedZ w (w * (x / n) + c + w * maxWeight) = pickedZ w (w * (x / n) + c)).
  { unfold pickedZ. rewrite Z.mod_add by (unfold maxWeight; lia). reflexivity. }
  rewrite Ep. lia.
Qed.

Definition weights_ok (ws : list Z) : Prop :=
  0 < zlen ws < 2 ^ 32 /\ forall i, 0 <= i < zlen ws -> 0 <= nthz ws i <= maxWeight.

Lemma picks_at_backend ws x i : weights_ok ws -> 0 <= x < 2 ^ 32 -> backend (zlen ws) x = i ->
  picks_at ws x = pickedZ (nthz ws i) (nthz ws i * (x / zlen ws) + i * offset).
Proof.
  intros [Hn Hw] Hx Hb. unfold picks_at. rewrite Hb. unfold generation.
  assert (Hi: 0 <= i < zlen ws) by (subst i; unfold backend; apply Z.mod_pos_bound; lia).
  apply picked_nowrap, stride_range; [apply Hw, Hi| |lia].
  split; [apply Z.div_pos; lia|]. apply Z.div_lt_upper_bound; [lia|]. nia.
Qed.

Lemma cnt_wpicks ws i : weights_ok ws -> 0 <= i < zlen ws -> forall L ctr,
  0 <= ctr -> ctr + Z.of_nat L < 2 ^ 32 ->
  cnt i (wpicks ws ctr L) =
  Fcnt (nthz ws i) (i * offset) (zlen ws) i (ctr + 1 + Z.of_nat L) -
  Fcnt (nthz ws i) (i * offset) (zlen ws) i (ctr + 1).
Proof.
  intros Hok Hi. pose proof Hok as [Hn Hw].
  induction L as [|L IH]; intros ctr Hc Hl.
  - cbn [wpicks cnt Z.of_nat]. rewrite Z.add_0_r. lia.
  - rewrite wpicks_snoc, cnt_app, IH by lia.
    pose proof (Fcnt_step (nthz ws i) (i * offset) (zlen ws) i (ctr + 1 + Z.of_nat L) ltac:(lia) Hi (Hw i Hi)) as St.
    replace (ctr + 1 + Z.of_nat (S L)) with (ctr + 1 + Z.of_nat L + 1) by lia.
    replace (ctr + Z.of_nat L + 1) with (ctr + 1 + Z.of_nat L) by lia.
    set (x := ctr + 1 + Z.of_nat L) in *.
    destruct (Z.eqb_spec (x mod zlen ws) i) as [E|E].
    + rewrite (picks_at_backend ws x i Hok ltac:(lia) E). cbn [andb] in St.
      unfold backend. rewrite E.
      destruct (pickedZ (nthz ws i) (nthz ws i * (x / zlen ws) + i * offset)); cbn [cnt]; [rewrite Z.eqb_refl|]; lia.
    + cbn [andb] in St. destruct (picks_at ws x); cbn [cnt]; [|lia].
      unfold backend. destruct (Z.eqb_spec (x mod zlen ws) i); [contradiction|lia].
Qed.

(* in any window of 65535*n consecutive sequence numbers below 2^32, the picked sequence
   numbers address backend i exactly w_i times *)
Theorem window_count ws i ctr : weights_ok ws -> 0 <= i < zlen ws ->
  0 <= ctr -> ctr + maxWeight * zlen ws < 2 ^ 32 ->
  cnt i (wpicks ws ctr (Z.to_nat (maxWeight * zlen ws))) = nthz ws i.
Proof.
  intros Hok Hi Hc Hl. pose proof Hok as [Hn Hw].
  rewrite cnt_wpicks by (try assumption; rewrite Z2Nat.id by (unfold maxWeight; lia); lia).
  rewrite Z2Nat.id by (unfold maxWeight; lia). apply Fcnt_window; [lia|apply Hw, Hi].
Qed.

(* ---------- nextIndex calls consume the window pick by pick ---------- *)

Lemma wpicks_range ws : 0 < zlen ws -> forall L ctr,
  Forall (fun x => 0 <= x < zlen ws) (wpicks ws ctr L).
Proof.
  intros Hn. induction L as [|L IH]; intro ctr; cbn [wpicks]; [constructor|].
  apply Forall_app. split; [|apply IH].
  destruct (picks_at ws (ctr + 1)); constructor; [|constructor].
  unfold backend. apply Z.mod_pos_bound. exact Hn.
Qed.

(* one call: it returns the first pick of the window and leaves the rest of the window *)
Lemma call_step ws : forall L fuel ctr, 0 <= ctr -> ctr + Z.of_nat L < 2 ^ 32 -> (L <= fuel)%nat ->
  match wpicks ws ctr L with
  | [] => True
  | p :: rest => exists t, (1 <= t <= L)%nat /\ edf_next fuel ws ctr = (p, ctr + Z.of_nat t) /\
                           wpicks ws (ctr + Z.of_nat t) (L - t) = rest
  end.
Proof.
  induction L as [|L IH]; intros fuel ctr Hc Hl Hf; [exact I|].
  destruct fuel as [|f]; [lia|]. cbn [wpicks edf_next]. rewrite u32_id by lia.
  destruct (picks_at ws (ctr + 1)) eqn:E.
  - cbn [app]. exists 1%nat. split; [lia|]. split; [reflexivity|].
    replace (S L - 1)%nat with L by lia. reflexivity.
  - cbn [app]. specialize (IH f (ctr + 1) ltac:(lia) ltac:(lia) ltac:(lia)).
    destruct (wpicks ws (ctr + 1) L) as [|p rest]; [exact I|].
    destruct IH as (t & Ht & Et & Er). exists (S t). split; [lia|]. split.
    + rewrite Et. f_equal. lia.
    + replace (ctr + Z.of_nat (S t)) with (ctr + 1 + Z.of_nat t) by lia.
      replace (S L - S t)%nat with (L - t)%nat by lia. exact Er.
Qed.

(* a backend of weight 65535 is picked on every generation: a pick within any n sequence numbers *)
Lemma max_pick ws j ctr : weights_ok ws -> 0 <= j < zlen ws -> nthz ws j = maxWeight ->
  0 <= ctr -> ctr + zlen ws < 2 ^ 32 ->
  exists d, 1 <= d <= zlen ws /\ picks_at ws (ctr + d) = true.
Proof.
  intros [Hn Hw] Hj Hm Hc Hcn. set (n := zlen ws) in *.
  set (d := (j - (ctr + 1)) mod n + 1).
  pose proof (Z.mod_pos_bound (j - (ctr + 1)) n ltac:(lia)) as Hd.
  exists d. split; [lia|].
  assert (Hb: backend n (ctr + d) = j).
  { unfold backend, d. replace (ctr + ((j - (ctr + 1)) mod n + 1)) with ((ctr + 1) + (j - (ctr + 1)) mod n) by lia.
    rewrite Zplus_mod_idemp_r. replace (ctr + 1 + (j - (ctr + 1))) with j by lia. apply Z.mod_small. lia. }
  rewrite (picks_at_backend ws (ctr + d) j (conj Hn Hw) ltac:(lia) Hb), Hm.
  unfold pickedZ. rewrite Z.sub_diag.
  match goal with |- negb (?a mod _ <? 0) = true =>
    pose proof (Z.mod_pos_bound a maxWeight ltac:(unfold maxWeight; lia)) as Hmm;
    destruct (Z.ltb_spec (a mod maxWeight) 0); [lia|reflexivity] end.
Qed.

Lemma wpicks_nonempty ws ctr d L : (1 <= d <= L)%nat -> picks_at ws (ctr + Z.of_nat d) = true ->
  wpicks ws ctr L <> [].
Proof.
  intros Hd Hp. replace L with ((d - 1) + S (L - d))%nat by lia. rewrite wpicks_app.
  cbn [wpicks]. replace (ctr + Z.of_nat (d - 1) + 1) with (ctr + Z.of_nat d) by lia. rewrite Hp.
  intro H. apply app_eq_nil in H as [_ H]. discriminate.
Qed.

Lemma call_in_window ws j fuel : weights_ok ws -> 0 <= j < zlen ws -> nthz ws j = maxWeight ->
  (Z.to_nat (zlen ws) <= fuel)%nat ->
  forall L ctr p rest, 0 <= ctr -> ctr + Z.of_nat L < 2 ^ 32 -> wpicks ws ctr L = p :: rest ->
  exists t, (1 <= t <= L)%nat /\ Z.of_nat t <= zlen ws /\
            edf_next fuel ws ctr = (p, ctr + Z.of_nat t) /\
            wpicks ws (ctr + Z.of_nat t) (L - t) = rest.
Proof.
  intros Hok Hj Hm Hf L ctr p rest Hc Hl Hp. pose proof Hok as [Hn _].
  set (N := Z.to_nat (zlen ws)) in *.
  destruct (Nat.le_gt_cases L N) as [Le|Gt].
  - pose proof (call_step ws L fuel ctr Hc Hl ltac:(lia)) as St. rewrite Hp in St.
    destruct St as (t & Ht & Et & Er). exists t. repeat split; try lia; assumption.
  - destruct (max_pick ws j ctr Hok Hj Hm Hc ltac:(lia)) as (d & Hd & Hpd).
    assert (Hne: wpicks ws ctr N <> []).
    { apply (wpicks_nonempty ws ctr (Z.to_nat d) N); [lia|]. rewrite Z2Nat.id by lia. exact Hpd. }
    replace L with (N + (L - N))%nat in Hp by lia. rewrite wpicks_app in Hp.
    pose proof (call_step ws N fuel ctr Hc ltac:(lia) Hf) as St.
    destruct (wpicks ws ctr N) as [|p' rest'] eqn:EN; [congruence|].
    cbn [app] in Hp. inversion Hp; subst p' rest. clear Hp.
    destruct St as (t & Ht & Et & Er). exists t. repeat split; try lia; [exact Et|].
    replace (L - t)%nat with ((N - t) + (L - N))%nat by lia. rewrite wpicks_app, Er.
    replace (ctr + Z.of_nat t + Z.of_nat (N - t)) with (ctr + Z.of_nat N) by lia. reflexivity.
Qed.

Definition has_max_at (ws : list Z) (j : Z) : Prop := 0 <= j < zlen ws /\ nthz ws j = maxWeight.

Lemma u32_nonneg x : 0 <= u32 x.
Proof. unfold u32. apply Z.mod_pos_bound. reflexivity. Qed.

(* k successive calls return the first k picks of the window, each within n sequence numbers *)
Lemma calls_window ws j fuel : weights_ok ws -> has_max_at ws j -> (Z.to_nat (zlen ws) <= fuel)%nat ->
  forall k L ctr, (k <= length (wpicks ws ctr L))%nat -> 0 <= ctr -> ctr + Z.of_nat L < 2 ^ 32 ->
  evens (edf_calls fuel k ws ctr) = firstn k (wpicks ws ctr L) /\
  Forall (fun u => 1 <= u <= zlen ws) (odds (edf_calls fuel k ws ctr)) /\
  sumz (odds (edf_calls fuel k ws ctr)) <= Z.of_nat L.
Proof.
  intros Hok [Hj Hm] Hf. pose proof Hok as [Hn _].
  induction k as [|k IH]; intros L ctr Hk Hc Hl.
  - cbn. repeat split; [constructor|lia].
  - destruct (wpicks ws ctr L) as [|p rest] eqn:Ep; [cbn in Hk; lia|].
    destruct (call_in_window ws j fuel Hok Hj Hm Hf L ctr p rest Hc Hl Ep) as (t & Ht & Htn & Et & Er).
    assert (Hp: 0 <= p).
    { pose proof (wpicks_range ws ltac:(lia) L ctr) as F. rewrite Ep in F. inversion F; subst. lia. }
    cbn [edf_calls]. rewrite Et. destruct (Z.ltb_spec p 0); [lia|].
    replace (ctr + Z.of_nat t - ctr) with (Z.of_nat t) by lia. rewrite u32_id by lia.
    cbn [length] in Hk.
    destruct (IH (L - t)%nat (ctr + Z.of_nat t)) as (I1 & I2 & I3); [rewrite Er; lia|lia|lia|].
    cbn [evens odds firstn sumz]. rewrite I1, Er. split; [reflexivity|]. split; [constructor; [lia|exact I2]|lia].
Qed.

Fixpoint sum_upto (f : Z -> Z) (n : nat) : Z :=
  match n with O => 0 | S k => sum_upto f k + f (Z.of_nat k) end.

Lemma sum_upto_ext f g n : (forall i, 0 <= i < Z.of_nat n -> f i = g i) -> sum_upto f n = sum_upto g n.
Proof.
  induction n as [|n IH]; intros H; cbn [sum_upto]; [reflexivity|].
  rewrite IH, (H (Z.of_nat n)) by (try lia; intros; apply H; lia). reflexivity.
Qed.

Lemma sum_upto_add f g n : sum_upto (fun i => f i + g i) n = sum_upto f n + sum_upto g n.
Proof. induction n as [|n IH]; cbn [sum_upto]; [lia|]. rewrite IH. lia. Qed.

Lemma sum_upto_shift f n : sum_upto f (S n) = f 0 + sum_upto (fun i => f (i + 1)) n.
Proof.
  induction n as [|n IH]; [cbn; lia|].
  change (sum_upto f (S (S n))) with (sum_upto f (S n) + f (Z.of_nat (S n))). rewrite IH.
  cbn [sum_upto]. replace (Z.of_nat n + 1) with (Z.of_nat (S n)) by lia. lia.
Qed.

Lemma sum_upto_indicator x n : 0 <= x < Z.of_nat n ->
  sum_upto (fun i => if x =? i then 1 else 0) n = 1.
Proof.
  induction n as [|n IH]; intros H; [lia|]. cbn [sum_upto].
  destruct (Z.eqb_spec x (Z.of_nat n)) as [E|E].
  - rewrite (sum_upto_ext _ (fun _ => 0)).
    + assert (Hz: forall m, sum_upto (fun _ => 0) m = 0) by (induction m; cbn [sum_upto]; lia). rewrite Hz. lia.
    + intros i Hi. destruct (Z.eqb_spec x i); [lia|reflexivity].
  - rewrite IH by lia. lia.
Qed.

Lemma length_sum_cnt n l : Forall (fun x => 0 <= x < Z.of_nat n) l ->
  Z.of_nat (length l) = sum_upto (fun i => cnt i l) n.
Proof.
  induction 1 as [|x r Hx Hr IH]; cbn [length cnt].
  - assert (Hz: forall m, sum_upto (fun _ => 0) m = 0) by (induction m; cbn [sum_upto]; lia). rewrite Hz. reflexivity.
  - rewrite Nat2Z.inj_succ, IH, sum_upto_add, sum_upto_indicator by exact Hx. lia.
Qed.

Lemma sumz_sum_nth ws : sumz ws = sum_upto (nthz ws) (length ws).
Proof.
  induction ws as [|w r IH]; [reflexivity|]. cbn [sumz length]. rewrite sum_upto_shift.
  unfold nthz at 1. cbn [Z.to_nat nth]. rewrite IH. f_equal. apply sum_upto_ext.
  intros i Hi. rewrite nthz_cons' by lia. f_equal. lia.
Qed.

(* the window of 65535*n sequence numbers contains exactly sum(ws) picks *)
Lemma window_length ws ctr : weights_ok ws -> 0 <= ctr -> ctr + maxWeight * zlen ws < 2 ^ 32 ->
  Z.of_nat (length (wpicks ws ctr (Z.to_nat (maxWeight * zlen ws)))) = sumz ws.
Proof.
  intros Hok Hc Hl. pose proof Hok as [Hn _].
  rewrite (length_sum_cnt (length ws)).
  - rewrite sumz_sum_nth. apply sum_upto_ext. intros i Hi. apply window_count; assumption.
  - apply wpicks_range. lia.
Qed.

(* THE LIST-LEVEL STATEMENT: with some weight 65535 and a window of 65535*n sequence numbers
   after ctr that stays below 2^32, the sum(ws) successive nextIndex calls consume only
   sequence numbers of that window, each call at most n of them, and return backend i
   exactly w_i times *)
Theorem calls_consume_window ws j fuel ctr : weights_ok ws -> has_max_at ws j ->
  (Z.to_nat (zlen ws) <= fuel)%nat -> 0 <= ctr -> ctr + maxWeight * zlen ws < 2 ^ 32 ->
  let out := edf_calls fuel (Z.to_nat (sumz ws)) ws ctr in
  (forall i, 0 <= i < zlen ws -> cnt i (evens out) = nthz ws i) /\
  Forall (fun u => 1 <= u <= zlen ws) (odds out) /\
  sumz (odds out) <= maxWeight * zlen ws.
Proof.
  intros Hok Hj Hf Hc Hl out. pose proof Hok as [Hn _].
  set (L := Z.to_nat (maxWeight * zlen ws)).
  assert (HL: Z.of_nat L = maxWeight * zlen ws) by (unfold L; rewrite Z2Nat.id; unfold maxWeight; lia).
  pose proof (window_length ws ctr Hok Hc Hl) as Hlen. fold L in Hlen.
  destruct (calls_window ws j fuel Hok Hj Hf (Z.to_nat (sumz ws)) L ctr) as (E1 & E2 & E3); try lia.
  fold out in E1, E2, E3. split; [|split; [exact E2|lia]].
  intros i Hi. rewrite E1, firstn_all2 by lia. apply window_count; assumption.
Qed.

(* ---------- the summarised window (edf_window) ---------- *)

Definition bumps (l cs : list Z) : list Z := fold_left (fun cs i => bump i cs) l cs.

Lemma bump_len cs : forall i, length (bump i cs) = length cs.
Proof. induction cs as [|c r IH]; intro i; cbn [bump length]; [reflexivity|]. destruct (i =? 0); cbn [length]; [reflexivity|]. rewrite IH. reflexivity. Qed.

Lemma bump_nth cs : forall i j, 0 <= i -> 0 <= j ->
  nthz (bump i cs) j = nthz cs j + (if (i =? j) && (j <? zlen cs) then 1 else 0).
Proof.
  unfold zlen. induction cs as [|c r IH]; intros i j Hi Hj; cbn [bump length].
  - destruct (Z.ltb_spec j (Z.of_nat 0)); [lia|]. rewrite andb_false_r. lia.
  - rewrite Nat2Z.inj_succ. destruct (Z.eqb_spec i 0) as [->|Ni].
    + destruct (Z.eq_dec j 0) as [->|Nj].
      * unfold nthz. cbn [Z.to_nat nth]. destruct (Z.ltb_spec 0 (Z.succ (Z.of_nat (length r)))); [cbn; lia|lia].
      * rewrite !nthz_cons' by lia. destruct (Z.eqb_spec 0 j); [lia|]. cbn [andb]. lia.
    + destruct (Z.eq_dec j 0) as [->|Nj].
      * unfold nthz. cbn [Z.to_nat nth]. destruct (Z.eqb_spec i 0); [lia|]. cbn [andb]. lia.
      * rewrite !nthz_cons' by lia. rewrite IH by lia.
        destruct (Z.eqb_spec (i - 1) (j - 1)); destruct (Z.eqb_spec i j); try lia;
          destruct (Z.ltb_spec (j - 1) (Z.of_nat (length r))); destruct (Z.ltb_spec j (Z.succ (Z.of_nat (length r)))); cbn [andb]; lia.
Qed.

Lemma bumps_len l : forall cs, length (bumps l cs) = length cs.
Proof. induction l as [|x r IH]; intro cs; cbn [bumps fold_left]; [reflexivity|]. fold (bumps r (bump x cs)). rewrite IH. apply bump_len. Qed.

Lemma bumps_nth l : forall cs j, Forall (fun x => 0 <= x) l -> 0 <= j < zlen cs ->
  nthz (bumps l cs) j = nthz cs j + cnt j l.
Proof.
  induction l as [|x r IH]; intros cs j Hl Hj; cbn [bumps fold_left cnt]; [lia|].
  fold (bumps r (bump x cs)). inversion Hl as [|? ? Hx Hr]; subst.
  rewrite IH; [|exact Hr|unfold zlen in *; rewrite bump_len; exact Hj].
  rewrite bump_nth by lia. destruct (Z.ltb_spec j (zlen cs)); [|lia]. rewrite andb_true_r. lia.
Qed.

Lemma edf_window_len B ws : forall k ctr tot mx cs,
  exists t m cs', edf_window B k ws ctr tot mx cs = t :: m :: cs' /\ length cs' = length cs.
Proof.
  induction k as [|k IH]; intros ctr tot mx cs; cbn [edf_window]; [eauto|].
  destruct (edf_next B ws ctr) as [i c']. destruct (i <? 0); [eauto|].
  destruct (IH c' (tot + u32 (c' - ctr)) (Z.max mx (u32 (c' - ctr))) (bump i cs)) as (t & m & cs' & E & El).
  rewrite E. exists t, m, cs'. split; [reflexivity|]. rewrite El. apply bump_len.
Qed.

Lemma window_calls ws j fuel : weights_ok ws -> has_max_at ws j -> (Z.to_nat (zlen ws) <= fuel)%nat ->
  forall k L ctr tot mx cs, (k <= length (wpicks ws ctr L))%nat -> 0 <= ctr -> ctr + Z.of_nat L < 2 ^ 32 ->
  exists T mx', edf_window fuel k ws ctr tot mx cs =
                (tot + T) :: mx' :: bumps (firstn k (wpicks ws ctr L)) cs /\
                0 <= T <= Z.of_nat L /\ mx <= mx' <= Z.max mx (zlen ws).
Proof.
  intros Hok [Hj Hm] Hf. pose proof Hok as [Hn _].
  induction k as [|k IH]; intros L ctr tot mx cs Hk Hc Hl.
  - exists 0, mx. cbn [edf_window firstn bumps fold_left]. split; [f_equal; lia|lia].
  - destruct (wpicks ws ctr L) as [|p rest] eqn:Ep; [cbn in Hk; lia|].
    destruct (call_in_window ws j fuel Hok Hj Hm Hf L ctr p rest Hc Hl Ep) as (t & Ht & Htn & Et & Er).
    assert (Hp: 0 <= p).
    { pose proof (wpicks_range ws ltac:(lia) L ctr) as F. rewrite Ep in F. inversion F; subst. lia. }
    cbn [edf_window]. rewrite Et. destruct (Z.ltb_spec p 0); [lia|].
    replace (ctr + Z.of_nat t - ctr) with (Z.of_nat t) by lia. rewrite u32_id by lia.
    cbn [length] in Hk.
    destruct (IH (L - t)%nat (ctr + Z.of_nat t) (tot + Z.of_nat t) (Z.max mx (Z.of_nat t)) (bump p cs))
      as (T & mx' & E & HT & Hmx); [rewrite Er; lia|lia|lia|].
    exists (Z.of_nat t + T), mx'. rewrite E, Er. cbn [firstn bumps fold_left]. split; [f_equal; lia|lia].
Qed.

Lemma zeros_nth (ws : list Z) j : nthz (map (fun _ => 0) ws) j = 0.
Proof. unfold nthz. generalize (Z.to_nat j). induction ws as [|w r IH]; intros [|k]; cbn [map nth]; auto. Qed.

Lemma nthz_ext (a b : list Z) : length a = length b ->
  (forall j, 0 <= j < zlen a -> nthz a j = nthz b j) -> a = b.
Proof.
  intros Hl H. apply (nth_ext a b 0 0 Hl). intros k Hk.
  specialize (H (Z.of_nat k) ltac:(unfold zlen; lia)). unfold nthz in H. rewrite Nat2Z.id in H. exact H.
Qed.

(* the summary of the sum(ws) calls after ctr: they stay in the window, each call uses at
   most n sequence numbers, and the per-backend counts are the weights *)
Theorem window_summary ws j fuel ctr : weights_ok ws -> has_max_at ws j ->
  (Z.to_nat (zlen ws) <= fuel)%nat -> 0 <= ctr -> ctr + maxWeight * zlen ws < 2 ^ 32 ->
  exists tot mx, edf_window fuel (Z.to_nat (sumz ws)) ws ctr 0 0 (map (fun _ => 0) ws) = tot :: mx :: ws /\
                 0 <= tot <= maxWeight * zlen ws /\ 0 <= mx <= zlen ws.
Proof.
  intros Hok Hj Hf Hc Hl. pose proof Hok as [Hn _].
  set (L := Z.to_nat (maxWeight * zlen ws)).
  assert (HL: Z.of_nat L = maxWeight * zlen ws) by (unfold L; rewrite Z2Nat.id; unfold maxWeight; lia).
  pose proof (window_length ws ctr Hok Hc Hl) as Hlen. fold L in Hlen.
  destruct (window_calls ws j fuel Hok Hj Hf (Z.to_nat (sumz ws)) L ctr 0 0 (map (fun _ => 0) ws))
    as (T & mx & E & HT & Hmx); try lia.
  exists T, mx. rewrite E, firstn_all2 by lia. split; [|lia]. cbn [Z.add]. f_equal. f_equal.
  apply nthz_ext.
  - rewrite bumps_len, map_length. reflexivity.
  - intros i Hi. unfold zlen in Hi. rewrite bumps_len, map_length in Hi.
    rewrite bumps_nth, zeros_nth.
    + rewrite window_count by (try assumption; unfold zlen; lia). lia.
    + eapply Forall_impl; [|apply (wpicks_range ws ltac:(lia))]. cbn beta. intros; lia.
    + unfold zlen. rewrite map_length. lia.
Qed.

(* without the window: every call that starts at least n below the wrap returns a backend
   within n sequence numbers *)
Lemma odds_calls_nonneg B ws : forall k ctr, 0 <= sumz (odds (edf_calls B k ws ctr)).
Proof.
  induction k as [|k IH]; intro ctr; cbn [edf_calls]; [cbn; lia|].
  destruct (edf_next B ws ctr) as [i c']. cbn [odds sumz].
  pose proof (u32_nonneg (c' - ctr)). destruct (i <? 0); [cbn; lia|]. specialize (IH c'). lia.
Qed.

Lemma calls_bound ws j fuel : weights_ok ws -> has_max_at ws j -> (Z.to_nat (zlen ws) <= fuel)%nat ->
  forall k ctr, 0 <= ctr -> ctr + sumz (odds (edf_calls fuel k ws ctr)) + zlen ws < 2 ^ 32 ->
  forallb (fun x => 0 <=? x) (evens (edf_calls fuel k ws ctr)) &&
  forallb (fun u => u <=? zlen ws) (odds (edf_calls fuel k ws ctr)) = true.
Proof.
  intros Hok [Hj Hm] Hf. pose proof Hok as [Hn _].
  induction k as [|k IH]; intros ctr Hc Hs; [reflexivity|].
  cbn [edf_calls] in *.
  pose proof (odds_calls_nonneg fuel ws k) as Hnn.
  destruct (edf_next fuel ws ctr) as [i c'] eqn:En. cbn [odds sumz] in Hs.
  assert (Hcn: ctr + zlen ws < 2 ^ 32).
  { pose proof (u32_nonneg (c' - ctr)). destruct (i <? 0); [cbn in Hs; lia|]. specialize (Hnn c'). lia. }
  destruct (edf_next_within_n ws j fuel ctr Hj Hm ltac:(lia) Hc Hcn Hf) as (t & Ht & Et).
  rewrite En in Et. inversion Et; subst i c'. clear Et.
  assert (Hb: 0 <= backend (zlen ws) (ctr + t)) by (unfold backend; apply Z.mod_pos_bound; lia).
  destruct (Z.ltb_spec (backend (zlen ws) (ctr + t)) 0); [lia|].
  replace (ctr + t - ctr) with t in * by lia. rewrite u32_id in * by lia.
  cbn [evens odds forallb].
  specialize (IH (ctr + t) ltac:(lia) ltac:(lia)). apply andb_true_iff in IH as [I1 I2].
  rewrite I1, I2. destruct (Z.leb_spec 0 (backend (zlen ws) (ctr + t))); [|lia].
  destruct (Z.leb_spec t (zlen ws)); [reflexivity|lia].
Qed.

(* ---------- round robin fallback ---------- *)

Lemma rr_calls_len k n ctr : length (rr_calls k n ctr) = k.
Proof. revert ctr. induction k as [|k IH]; intro ctr; cbn [rr_calls length]; [reflexivity|]. rewrite IH. reflexivity. Qed.

Lemma rr_calls_range k n : 0 < n -> forall ctr, forallb (fun x => (0 <=? x) && (x <? n)) (rr_calls k n ctr) = true.
Proof.
  intros Hn. induction k as [|k IH]; intro ctr; cbn [rr_calls forallb]; [reflexivity|].
  pose proof (Z.mod_pos_bound (u32 (ctr + 1)) n Hn). rewrite IH.
  destruct (Z.leb_spec 0 (u32 (ctr + 1) mod n)); [|lia]. destruct (Z.ltb_spec (u32 (ctr + 1) mod n) n); [reflexivity|lia].
Qed.

(* below the uint32 wrap the j-th call returns (ctr + j) mod n: plain round robin *)
Theorem rr_calls_closed n : forall k ctr, 0 <= ctr -> ctr + Z.of_nat k < 2 ^ 32 ->
  rr_calls k n ctr = map (fun j => (ctr + Z.of_nat j) mod n) (seq 1 k).
Proof.
  induction k as [|k IH]; intros ctr Hc Hk; cbn [rr_calls seq map]; [reflexivity|].
  rewrite u32_id by lia. change (Z.of_nat 1) with 1. f_equal.
  rewrite IH by lia. rewrite <- (seq_shift k 1), map_map. apply map_ext. intro j. f_equal. lia.
Qed.

Lemma rr_consecutive_ok n : 0 < n -> forall k ctr, 0 <= ctr -> ctr + Z.of_nat k < 2 ^ 32 ->
  rr_consecutive n (rr_calls k n ctr) = true.
Proof.
  intros Hn. induction k as [|k IH]; intros ctr Hc Hk; [reflexivity|].
  cbn [rr_calls]. rewrite u32_id by lia. destruct k as [|k']; [reflexivity|].
  specialize (IH (ctr + 1) ltac:(lia) ltac:(lia)).
  cbn [rr_calls] in *. rewrite u32_id in * by lia. cbn [rr_consecutive] in *.
  rewrite IH. replace (ctr + 1 + 1) with ((ctr + 1) + 1) by lia.
  rewrite Zplus_mod_idemp_l, Z.eqb_refl. reflexivity.
Qed.

(* ---------- the bridge ---------- *)

Definition okc (c : Z * Z * bool) : bool := (fst (fst c) =? 6) || (fst (fst c) =? 7) || snd c.

Lemma edf_next_idx ws : 0 < zlen ws -> forall fuel ctr,
  -1 <= fst (edf_next fuel ws ctr) < zlen ws.
Proof.
  intros Hn. induction fuel as [|f IH]; intro ctr; cbn [edf_next]; [cbn; lia|].
  destruct (picks_at ws (u32 (ctr + 1))); [|apply IH].
  cbn [fst]. unfold backend. pose proof (Z.mod_pos_bound (u32 (ctr + 1)) (zlen ws) Hn). lia.
Qed.

Lemma edf_calls_idx B ws : 0 < zlen ws -> forall k ctr,
  forallb (fun x => (-1 <=? x) && (x <? zlen ws)) (evens (edf_calls B k ws ctr)) = true.
Proof.
  intros Hn. induction k as [|k IH]; intro ctr; cbn [edf_calls]; [reflexivity|].
  pose proof (edf_next_idx ws Hn B ctr) as Hi.
  destruct (edf_next B ws ctr) as [i c']. cbn [fst] in Hi. cbn [evens forallb].
  destruct (Z.leb_spec (-1) i); [|lia]. destruct (Z.ltb_spec i (zlen ws)); [|lia]. cbn [andb].
  destruct (i <? 0); [reflexivity|apply IH].
Qed.

Lemma ws_ok_pos ws : ws_ok ws = true -> 0 < zlen ws.
Proof.
  unfold ws_ok. rewrite andb_true_iff, negb_true_iff. intros [H _].
  apply Z.eqb_neq in H. unfold zlen in *. lia.
Qed.

Lemma u16_round_range x : 0 <= u16_round x <= maxWeight.
Proof. unfold u16_round, maxWeight. pose proof (Z.mod_pos_bound (round_nonneg x) 65536 ltac:(lia)). lia. Qed.

Lemma clause_new_ok i ps : forallb okc (clause_new i ps (new_scheduler (map fr ps))) = true.
Proof.
  unfold clause_new. destruct (forallb _ ps); [|reflexivity]. cbn [negb forallb okc fst snd].
  unfold new_scheduler. assert (El: zlen (map fr ps) = zlen ps) by (unfold zlen; rewrite map_length; reflexivity).
  rewrite El. set (n := zlen ps). set (nz := nzero (map fr ps)).
  assert (Hn0: 0 <= n) by (unfold n, zlen; lia).
  destruct (Z.eqb_spec n 0) as [E0|E0].
  { rewrite E0. reflexivity. }
  destruct (Z.eqb_spec n 1) as [E1|E1].
  { rewrite E1. reflexivity. }
  destruct (Z.geb_spec nz (n - 1)) as [G|G].
  { cbn [andb orb]. rewrite Z.eqb_refl. destruct (Z.leb_spec 1 n); [|lia]. cbn [andb].
    rewrite word_eqb_refl. destruct (n - nz <? 2); reflexivity. }
  set (sf := PrimFloat.div (fz maxWeight) (fmax (map fr ps))).
  set (mean := u16_round (PrimFloat.mul sf (PrimFloat.div (fsum (map fr ps)) (fz (n - nz))))).
  destruct (forallb _ (map fr ps)).
  - cbn [andb orb]. rewrite Z.eqb_refl. destruct (Z.leb_spec 1 n); [|lia]. cbn [andb].
    rewrite word_eqb_refl. destruct (n - nz <? 2); reflexivity.
  - assert (Hlen: zlen (map (fun w => if is0 w then mean else u16_round (PrimFloat.mul sf w)) (map fr ps)) = n).
    { unfold zlen. rewrite !map_length. reflexivity. }
    rewrite Hlen, Z.eqb_refl.
    assert (Hr: forallb (fun w => (0 <=? w) && (w <=? maxWeight))
                  (map (fun w => if is0 w then mean else u16_round (PrimFloat.mul sf w)) (map fr ps)) = true).
    { apply forallb_forall. intros w Hw. apply in_map_iff in Hw as (x & <- & _).
      assert (0 <= (if is0 x then mean else u16_round (PrimFloat.mul sf x)) <= maxWeight)
        by (destruct (is0 x); apply u16_round_range).
      apply andb_true_iff. split; apply Z.leb_le; lia. }
    rewrite Hr. destruct (Z.leb_spec 2 (n - nz)); [|lia]. cbn [andb].
    destruct (Z.ltb_spec (n - nz) 2); [lia|]. rewrite andb_false_r. cbn [orb]. reflexivity.
Qed.

Lemma is0_zero : is0 PrimFloat.zero = true.
Proof. reflexivity. Qed.

Lemma fdec_zero : fdec PrimFloat.zero = [0; 0].
Proof. reflexivity. Qed.

(* weight is 0 before the first report, after the expiration period, and (with a blackout
   period configured) until reports have been arriving for the blackout period *)
Theorem weight_zero_cases e now expir blackout :
  e_last e = 0 \/ now - e_last e >= expir \/
  (blackout <> 0 /\ (e_since e = 0 \/ now - e_since e < blackout)) ->
  fst (weight_at e now expir blackout) = PrimFloat.zero.
Proof.
  unfold weight_at. intros H.
  destruct (Z.eqb_spec (e_last e) 0); [reflexivity|].
  destruct (Z.geb_spec (now - e_last e) expir); [reflexivity|].
  destruct H as [H|[H|[Hb Hs]]]; [contradiction|lia|].
  destruct (Z.eqb_spec blackout 0); [contradiction|]. cbn [negb andb].
  destruct (Z.eqb_spec (e_since e) 0); [reflexivity|]. cbn [orb].
  destruct (Z.ltb_spec (now - e_since e) blackout); [reflexivity|]. destruct Hs; [contradiction|lia].
Qed.

(* otherwise it is the value computed from the latest load report *)
Theorem weight_usable e now expir blackout :
  e_last e <> 0 -> now - e_last e < expir ->
  (blackout = 0 \/ (e_since e <> 0 /\ blackout <= now - e_since e)) ->
  fst (weight_at e now expir blackout) = e_val e.
Proof.
  unfold weight_at. intros H1 H2 H3.
  destruct (Z.eqb_spec (e_last e) 0); [contradiction|].
  destruct (Z.geb_spec (now - e_last e) expir); [lia|].
  destruct (Z.eqb_spec blackout 0); [reflexivity|]. cbn [negb andb].
  destruct H3 as [H3|[H3 H4]]; [contradiction|].
  destruct (Z.eqb_spec (e_since e) 0); [contradiction|]. cbn [orb].
  destruct (Z.ltb_spec (now - e_since e) blackout); [lia|reflexivity].
Qed.

(* weight from a load report: qps / (utilization + eps/qps * penalty), application
   utilization preferred over cpu utilization; empty reports are ignored *)
Theorem report_formula e now qps app cpu eps pen :
  let util := if is0 app then cpu else app in
  (is0 util || is0 qps = true -> on_report e now qps app cpu eps pen = e) /\
  (is0 util || is0 qps = false ->
   e_val (on_report e now qps app cpu eps pen) =
     PrimFloat.div qps (PrimFloat.add util (PrimFloat.mul (PrimFloat.div eps qps) pen)) /\
   e_last (on_report e now qps app cpu eps pen) = now).
Proof.
  cbn zeta. unfold on_report. destruct (is0 (if is0 app then cpu else app) || is0 qps).
  - split; [reflexivity|discriminate].
  - split; [discriminate|]. intros _. split; reflexivity.
Qed.

Lemma clause_wt_ok i e now expir blackout :
  forallb okc (clause_wt i e now expir blackout (snd (step e (OWt now expir blackout)))) = true.
Proof.
  unfold clause_wt. cbn [step forallb okc fst snd]. unfold weight_at.
  destruct (e_last e =? 0); [reflexivity|]. cbn [orb].
  destruct (now - e_last e >=? expir); [reflexivity|]. cbn [orb].
  destruct (negb (blackout =? 0) && ((e_since e =? 0) || (now - e_since e <? blackout))); cbn [snd];
    [reflexivity|]. rewrite word_eqb_refl. reflexivity.
Qed.

Lemma edf_window_shape B ws : forall k ctr tot mx cs,
  exists t m cs', edf_window B k ws ctr tot mx cs = t :: m :: cs'.
Proof.
  induction k as [|k IH]; intros ctr tot mx cs; cbn [edf_window]; [eauto|].
  destruct (edf_next B ws ctr) as [i c']. destruct (i <? 0); [eauto|apply IH].
Qed.

Lemma ws_ok_range ws : ws_ok ws = true -> forall i, 0 <= i < zlen ws -> 0 <= nthz ws i <= maxWeight.
Proof.
  unfold ws_ok. rewrite andb_true_iff. intros [_ H] i Hi. rewrite forallb_forall in H.
  assert (Hin: In (nthz ws i) ws) by (unfold nthz; apply nth_In; unfold zlen in Hi; lia).
  apply H, andb_true_iff in Hin as [H1 H2]. apply Z.leb_le in H1, H2. lia.
Qed.

Lemma sumz_nonneg_ok ws : ws_ok ws = true -> 0 <= sumz ws.
Proof.
  unfold ws_ok. rewrite andb_true_iff. intros [_ H]. rewrite forallb_forall in H.
  induction ws as [|w r IH]; cbn [sumz]; [lia|].
  assert (0 <= w) by (specialize (H w (or_introl eq_refl)); apply andb_true_iff in H as [H1 _]; apply Z.leb_le in H1; lia).
  assert (0 <= sumz r) by (apply IH; intros x Hx; apply H; right; exact Hx). lia.
Qed.

Lemma has_max_spec ws : ws_ok ws = true -> has_max ws = true ->
  weights_ok ws /\ (exists j, has_max_at ws j) /\ (Z.to_nat (zlen ws) <= Z.to_nat budget)%nat.
Proof.
  intros Hok Hm. unfold has_max in Hm. apply andb_true_iff in Hm as [He Hb]. apply Z.leb_le in Hb.
  pose proof (ws_ok_pos ws Hok) as Hn. split; [|split].
  - split; [unfold budget in Hb; change (2 ^ 32) with 4294967296; lia|apply ws_ok_range, Hok].
  - apply existsb_exists in He as (w & Hin & Hw). apply Z.eqb_eq in Hw. subst w.
    destruct (In_nth ws maxWeight 0 Hin) as (k & Hk & Ek). exists (Z.of_nat k). split; [unfold zlen; lia|].
    unfold nthz. rewrite Nat2Z.id. exact Ek.
  - lia.
Qed.

Lemma step_ok i e oc : forallb okc (clause_op i e oc (snd (step e oc))) = true.
Proof.
  destruct oc as [s k ws|s k n|ps|now q a c ee p|now expir blackout|s ws|ps]; cbn [clause_op].
  - unfold clause_edf. destruct (ws_ok ws) eqn:Hok; [|reflexivity]. cbn [negb step snd forallb okc fst snd].
    rewrite (edf_calls_idx _ ws (ws_ok_pos ws Hok)). cbn [orb andb].
    set (o := edf_calls (Z.to_nat budget) (clipk k) ws (u32 s)).
    destruct (has_max ws) eqn:Hm; [|reflexivity]. cbn [andb].
    destruct (Z.ltb_spec (u32 s + sumz (odds o) + zlen ws) (2 ^ 32)) as [L|L]; [|reflexivity].
    destruct (has_max_spec ws Hok Hm) as (Hwo & (j & Hj) & Hf).
    unfold o in *. rewrite (calls_bound ws j _ Hwo Hj Hf (clipk k) (u32 s) (u32_nonneg s) L). reflexivity.
  - unfold clause_rr. destruct (Z.leb_spec n 0) as [L|L]; [reflexivity|]. cbn [step snd].
    destruct (Z.leb_spec n 0); [lia|]. cbn [forallb okc fst snd].
    assert (El: zlen (rr_calls (clipk k) n (u32 s)) = Z.of_nat (clipk k)) by (unfold zlen; rewrite rr_calls_len; reflexivity).
    rewrite El, Z.eqb_refl, (rr_calls_range _ n L). cbn [andb].
    destruct (Z.ltb_spec (u32 s + Z.of_nat (clipk k)) (2 ^ 32)); [|reflexivity].
    rewrite rr_consecutive_ok; [reflexivity|lia| |lia].
    unfold u32. apply Z.mod_pos_bound. reflexivity.
  - cbn [step snd]. rewrite forallb_app, clause_new_ok. unfold clause_maxw.
    destruct (new_scheduler (map fr ps)) as [|h wts]; [reflexivity|]. destruct (h =? 2); reflexivity.
  - reflexivity.
  - apply clause_wt_ok.
  - unfold clause_win. destruct (ws_ok ws) eqn:Hok; [|reflexivity]. cbn [negb orb].
    destruct (Z.ltb_spec maxWindow (sumz ws)) as [G|G]; [reflexivity|].
    cbn [step snd]. pose proof (sumz_nonneg_ok ws Hok) as Hs.
    rewrite Z.max_l, Z.min_l by lia.
    destruct (edf_window_len (Z.to_nat budget) ws (Z.to_nat (sumz ws)) (u32 s) 0 0 (map (fun _ => 0) ws))
      as (t & m & cs' & E & El). rewrite E. cbn [forallb okc fst snd orb].
    assert (Ez: zlen cs' = zlen ws) by (unfold zlen; rewrite El, map_length; reflexivity).
    rewrite Ez, Z.eqb_refl. cbn [andb].
    destruct (has_max ws) eqn:Hm; [|reflexivity]. cbn [andb].
    destruct (Z.ltb_spec (u32 s + maxWeight * zlen ws) (2 ^ 32)) as [L|L]; [|reflexivity].
    destruct (has_max_spec ws Hok Hm) as (Hwo & (j & Hj) & Hf).
    destruct (window_summary ws j _ (u32 s) Hwo Hj Hf (u32_nonneg s) L) as (tot & mx & E2 & Ht & Hmx).
    rewrite E in E2. inversion E2; subst t m cs'.
    rewrite word_eqb_refl.
    destruct (Z.leb_spec 0 tot); [|lia]. destruct (Z.leb_spec tot (maxWeight * zlen ws)); [|lia].
    destruct (Z.leb_spec mx (zlen ws)); [reflexivity|lia].
  - unfold clause_maxw. destruct (snd (step e (ONewX ps))) as [|h wts]; [reflexivity|]. destruct (h =? 2); reflexivity.
Qed.

Lemma run_from_ok ops : forall i e, forallb op_wf ops = true ->
  exists obs, run_from e ops = Some obs /\ forallb okc (clauses_from i e ops obs) = true.
Proof.
  induction ops as [|op r IH]; intros i e Hwf.
  - exists []. split; reflexivity.
  - cbn [forallb] in Hwf. apply andb_true_iff in Hwf as [Hop Hr]. unfold op_wf in Hop.
    cbn [run_from clauses_from]. destruct (decode op) as [oc|]; [|discriminate].
    pose proof (step_ok i e oc) as Hcl.
    destruct (step e oc) as [e' o] eqn:Es. cbn [fst snd] in *.
    destruct (IH (i + 1) e' Hr) as (obs & Hrun & Hcs).
    exists (o :: obs). rewrite Hrun. split; [reflexivity|].
    rewrite forallb_app, Hcl, Hcs. reflexivity.
Qed.

Theorem model_trace_holds ops : forallb op_wf ops = true ->
  exists obs, run ops = Some obs /\ holds_b ops obs = true.
Proof. intros H. exact (run_from_ok ops 0 epw0 H). Qed.

(* newScheduler falls back to round robin for one endpoint and when fewer than two
   endpoints have a non-zero weight; otherwise the scaled weights are uint16 values *)
Theorem new_scheduler_fallback ws : let n := zlen ws in
  (n = 0 -> new_scheduler ws = [0]) /\
  (n = 1 -> new_scheduler ws = [1; 1]) /\
  (2 <= n -> n - nzero ws < 2 -> new_scheduler ws = [1; n]) /\
  (forall wts, new_scheduler ws = 2 :: wts ->
     2 <= n - nzero ws /\ zlen wts = n /\ Forall (fun w => 0 <= w <= maxWeight) wts).
Proof.
  cbn zeta. unfold new_scheduler. set (n := zlen ws). set (nz := nzero ws).
  destruct (Z.eqb_spec n 0) as [E0|E0].
  { repeat split; try lia; try discriminate. }
  destruct (Z.eqb_spec n 1) as [E1|E1].
  { repeat split; try lia; try discriminate. }
  destruct (Z.geb_spec nz (n - 1)) as [G|G].
  { repeat split; try lia; try discriminate. }
  set (sf := PrimFloat.div (fz maxWeight) (fmax ws)).
  set (mean := u16_round (PrimFloat.mul sf (PrimFloat.div (fsum ws) (fz (n - nz))))).
  destruct (forallb _ ws).
  { repeat split; try lia; try discriminate. }
  split; [lia|]. split; [lia|]. split; [lia|].
  intros wts H. inversion H; subst wts. split; [lia|]. split.
  - unfold zlen. rewrite map_length. reflexivity.
  - apply Forall_forall. intros w Hw. apply in_map_iff in Hw as (x & <- & _).
    destruct (is0 x); apply u16_round_range.
Qed.

(* Across the uint32 wrap of picker.idx the generations seen by a backend are not consecutive
   (2^32/n - 1 is followed by 0), and the exact count fails: 2 backends, the second with weight
   3 (c = 1*offset); the window of 65535*2 sequence numbers starting 999 before the wrap gives
   it the generations 2^31-500 .. 2^31-1 and 0 .. 65034 -- 65535 generations -- and 4 picks. *)
Lemma window_wrap_refuted :
  exists w c a k1 k2, 0 <= w <= maxWeight /\ 0 <= k1 /\ 0 <= k2 /\ k1 + k2 = maxWeight /\
    a + k1 = 2 ^ 32 / 2 /\
    gen_count w c a (Z.to_nat k1) + gen_count w c 0 (Z.to_nat k2) <> w.
Proof.
  exists 3, offset, (2 ^ 31 - 500), 500, 65035.
  rewrite !gen_count_closed by (unfold maxWeight; lia). rewrite !Z2Nat.id by lia.
  vm_compute. repeat split; discriminate.
Qed.
