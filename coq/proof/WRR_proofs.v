From Coq Require Import List ZArith Bool Lia Floats.
From VLib Require Import Codec Machine.
From VModel Require Import WRR.
Import ListNotations.
Open Scope Z_scope.

(* ---------- the stride rule ---------- *)

(* the pick test without the uint64 wrap (which cannot happen, see [picked_nowrap]) *)
Definition pickedZ (w x : Z) : bool := negb (x mod maxWeight <? maxWeight - w).

Lemma picked_nowrap w g bi : 0 <= w * g + bi * offset < 2 ^ 64 ->
  picked w g bi = pickedZ w (w * g + bi * offset).
Proof. intros H. unfold picked, pickedZ, u64. rewrite (Z.mod_small _ (2 ^ 64)) by exact H. reflexivity. Qed.

(* weight*generation + backendIndex*offset stays far below 2^64 *)
Lemma stride_range w g bi : 0 <= w <= maxWeight -> 0 <= g < 2 ^ 32 -> 0 <= bi < 2 ^ 32 ->
  0 <= w * g + bi * offset < 2 ^ 64.
Proof.
  unfold maxWeight, offset. change (2 ^ 32) with 4294967296. change (2 ^ 64) with 18446744073709551616.
  intros. nia.
Qed.

(* picked  <->  floor((x+w)/M) = floor(x/M) + 1 *)
Lemma pick_telescoping w x : 0 <= w <= maxWeight ->
  (x + w) / maxWeight - x / maxWeight = if pickedZ w x then 1 else 0.
Proof.
  unfold pickedZ, maxWeight. intros Hw.
  pose proof (Z.div_mod x 65535 ltac:(lia)) as E. pose proof (Z.mod_pos_bound x 65535 ltac:(lia)) as B.
  set (q := x / 65535) in *. set (r := x mod 65535) in *.
  destruct (Z.ltb_spec r (65535 - w)); cbn [negb].
  - assert ((x + w) / 65535 = q) by (symmetry; apply (Zdiv_unique _ _ _ (r + w)); lia). lia.
  - assert ((x + w) / 65535 = q + 1) by (symmetry; apply (Zdiv_unique _ _ _ (r + w - 65535)); lia). lia.
Qed.

(* number of generations g0 <= g < g0+k on which a backend with weight w and constant c is picked *)
Fixpoint gen_count (w c g0 : Z) (k : nat) : Z :=
  match k with
  | O => 0
  | S k' => (if pickedZ w (w * g0 + c) then 1 else 0) + gen_count w c (g0 + 1) k'
  end.

Lemma gen_count_closed w c : 0 <= w <= maxWeight -> forall k g0,
  gen_count w c g0 k = (w * (g0 + Z.of_nat k) + c) / maxWeight - (w * g0 + c) / maxWeight.
Proof.
  intros Hw. induction k as [|k IH]; intro g0; cbn [gen_count].
  - replace (g0 + Z.of_nat 0) with g0 by lia. lia.
  - rewrite IH. pose proof (pick_telescoping w (w * g0 + c) Hw) as T.
    replace (w * (g0 + 1) + c) with (w * g0 + c + w) by lia.
    replace (w * (g0 + 1 + Z.of_nat k) + c) with (w * (g0 + Z.of_nat (S k)) + c) by lia. lia.
Qed.

(* in any 65535 consecutive generations a backend of weight w is picked exactly w times *)
Theorem gen_count_exact w c g0 : 0 <= w <= maxWeight ->
  gen_count w c g0 (Z.to_nat maxWeight) = w.
Proof.
  intros Hw. rewrite gen_count_closed by exact Hw. rewrite Z2Nat.id by (unfold maxWeight; lia).
  replace (w * (g0 + maxWeight) + c) with (w * g0 + c + w * maxWeight) by lia.
  rewrite Z.div_add by (unfold maxWeight; lia). lia.
Qed.

(* the sequence numbers of a window of 65535*n addressing backend i are exactly those of
   65535 consecutive generations of backend i *)
Theorem window_generations n s i : 0 < n -> 0 <= i < n ->
  let g0 := (s - i + n - 1) / n in
  forall idx, (s <= idx < s + maxWeight * n /\ backend n idx = i) <->
              (exists g, g0 <= g < g0 + maxWeight /\ idx = n * g + i).
Proof.
  intros Hn Hi g0 idx. unfold backend.
  pose proof (Z.div_mod (s - i + n - 1) n ltac:(lia)) as E.
  pose proof (Z.mod_pos_bound (s - i + n - 1) n Hn) as B. fold g0 in E.
  set (r := (s - i + n - 1) mod n) in *. unfold maxWeight. split.
  - intros [[H1 H2] H3]. exists (idx / n).
    pose proof (Z.div_mod idx n ltac:(lia)) as E2. rewrite H3 in E2.
    split; [|exact E2]. set (g := idx / n) in *. split; nia.
  - intros (g & [H1 H2] & ->). split.
    + split; nia.
    + rewrite Z.mul_comm, Z.add_comm, Z.mod_add by lia. apply Z.mod_small. exact Hi.
Qed.

Lemma picks_at_spec ws idx : let n := zlen ws in
  picks_at ws idx = picked (nthz ws (backend n idx)) (generation n idx) (backend n idx).
Proof. reflexivity. Qed.

(* ---------- termination within n sequence numbers ---------- *)

Lemma u32_id x : 0 <= x < 2 ^ 32 -> u32 x = x.
Proof. intros H. unfold u32. apply Z.mod_small. exact H. Qed.

Lemma edf_next_first ws : forall d fuel ctr, (d <= fuel)%nat -> (1 <= d)%nat -> 0 <= ctr ->
  ctr + Z.of_nat d < 2 ^ 32 -> picks_at ws (ctr + Z.of_nat d) = true ->
  exists t, 1 <= t <= Z.of_nat d /\ edf_next fuel ws ctr = (backend (zlen ws) (ctr + t), ctr + t).
Proof.
  induction d as [|d IH]; intros fuel ctr Hf Hd Hc Hw Hp; [lia|].
  destruct fuel as [|f]; [lia|]. cbn [edf_next]. rewrite u32_id by lia.
  destruct (picks_at ws (ctr + 1)) eqn:E.
  - exists 1. split; [lia|reflexivity].
  - destruct d as [|d'].
    + change (Z.of_nat 1) with 1 in Hp. congruence.
    + destruct (IH f (ctr + 1) ltac:(lia) ltac:(lia) ltac:(lia) ltac:(lia)) as (t & Ht & Et).
      { replace (ctr + 1 + Z.of_nat (S d')) with (ctr + Z.of_nat (S (S d'))) by lia. exact Hp. }
      exists (t + 1). split; [lia|]. rewrite Et. replace (ctr + (t + 1)) with (ctr + 1 + t) by lia. reflexivity.
Qed.

Theorem edf_next_within_n ws j fuel ctr : let n := zlen ws in
  0 <= j < n -> nthz ws j = maxWeight -> n < 2 ^ 32 ->
  0 <= ctr -> ctr + n < 2 ^ 32 -> (Z.to_nat n <= fuel)%nat ->
  exists t, 1 <= t <= n /\ edf_next fuel ws ctr = (backend n (ctr + t), ctr + t).
Proof.
  intros n Hj Hw Hn Hc Hcn Hf.
  set (d := (j - (ctr + 1)) mod n + 1).
  pose proof (Z.mod_pos_bound (j - (ctr + 1)) n ltac:(lia)) as Hd.
  assert (Hb: backend n (ctr + d) = j).
  { unfold backend, d. replace (ctr + ((j - (ctr + 1)) mod n + 1)) with ((ctr + 1) + (j - (ctr + 1)) mod n) by lia.
    rewrite Zplus_mod_idemp_r. replace (ctr + 1 + (j - (ctr + 1))) with j by lia. apply Z.mod_small. lia. }
  assert (Hp: picks_at ws (ctr + d) = true).
  { unfold picks_at. fold n. rewrite Hb, Hw.
    assert (Hg: 0 <= generation n (ctr + d) < 2 ^ 32).
    { unfold generation. split; [apply Z.div_pos; lia|]. apply Z.div_lt_upper_bound; [lia|]. nia. }
    rewrite picked_nowrap by (apply stride_range; unfold maxWeight; lia).
    unfold pickedZ. rewrite Z.sub_diag.
    pose proof (Z.mod_pos_bound (maxWeight * generation n (ctr + d) + j * offset) maxWeight ltac:(unfold maxWeight; lia)).
    destruct (Z.ltb_spec ((maxWeight * generation n (ctr + d) + j * offset) mod maxWeight) 0); [lia|reflexivity]. }
  destruct (edf_next_first ws (Z.to_nat d) fuel ctr) as (t & Ht & Et); try lia.
  - rewrite Z2Nat.id by lia. exact Hp.
  - exists t. split; [lia|exact Et].
Qed.

(* ---------- round robin fallback ---------- *)

Lemma rr_calls_len k n ctr : length (rr_calls k n ctr) = k.
Proof. revert ctr. induction k as [|k IH]; intro ctr; cbn [rr_calls length]; [reflexivity|]. rewrite IH. reflexivity. Qed.

Lemma rr_calls_range k n : 0 < n -> forall ctr, forallb (fun x => (0 <=? x) && (x <? n)) (rr_calls k n ctr) = true.
Proof.
  intros Hn. induction k as [|k IH]; intro ctr; cbn [rr_calls forallb]; [reflexivity|].
  pose proof (Z.mod_pos_bound (u32 (ctr + 1)) n Hn). rewrite IH.
  destruct (Z.leb_spec 0 (u32 (ctr + 1) mod n)); [|lia]. destruct (Z.ltb_spec (u32 (ctr + 1) mod n) n); [reflexivity|lia].
Qed.

(* below the uint32 wrap the j-th call returns (ctr + j) mod n: plain round robin *)
Theorem rr_calls_closed n : forall k ctr, 0 <= ctr -> ctr + Z.of_nat k < 2 ^ 32 ->
  rr_calls k n ctr = map (fun j => (ctr + Z.of_nat j) mod n) (seq 1 k).
Proof.
  induction k as [|k IH]; intros ctr Hc Hk; cbn [rr_calls seq map]; [reflexivity|].
  rewrite u32_id by lia. change (Z.of_nat 1) with 1. f_equal.
  rewrite IH by lia. rewrite <- (seq_shift k 1), map_map. apply map_ext. intro j. f_equal. lia.
Qed.

Lemma rr_consecutive_ok n : 0 < n -> forall k ctr, 0 <= ctr -> ctr + Z.of_nat k < 2 ^ 32 ->
  rr_consecutive n (rr_calls k n ctr) = true.
Proof.
  intros Hn. induction k as [|k IH]; intros ctr Hc Hk; [reflexivity|].
  cbn [rr_calls]. rewrite u32_id by lia. destruct k as [|k']; [reflexivity|].
  specialize (IH (ctr + 1) ltac:(lia) ltac:(lia)).
  cbn [rr_calls] in *. rewrite u32_id in * by lia. cbn [rr_consecutive] in *.
  rewrite IH. replace (ctr + 1 + 1) with ((ctr + 1) + 1) by lia.
  rewrite Zplus_mod_idemp_l, Z.eqb_refl. reflexivity.
Qed.

(* ---------- the bridge ---------- *)

Definition okc (c : Z * Z * bool) : bool := (fst (fst c) =? 5) || (fst (fst c) =? 6) || snd c.

Lemma edf_next_idx ws : 0 < zlen ws -> forall fuel ctr,
  -1 <= fst (edf_next fuel ws ctr) < zlen ws.
Proof.
  intros Hn. induction fuel as [|f IH]; intro ctr; cbn [edf_next]; [cbn; lia|].
  destruct (picks_at ws (u32 (ctr + 1))); [|apply IH].
  cbn [fst]. unfold backend. pose proof (Z.mod_pos_bound (u32 (ctr + 1)) (zlen ws) Hn). lia.
Qed.

Lemma edf_calls_idx B ws : 0 < zlen ws -> forall k ctr,
  forallb (fun x => (-1 <=? x) && (x <? zlen ws)) (evens (edf_calls B k ws ctr)) = true.
Proof.
  intros Hn. induction k as [|k IH]; intro ctr; cbn [edf_calls]; [reflexivity|].
  pose proof (edf_next_idx ws Hn B ctr) as Hi.
  destruct (edf_next B ws ctr) as [i c']. cbn [fst] in Hi. cbn [evens forallb].
  destruct (Z.leb_spec (-1) i); [|lia]. destruct (Z.ltb_spec i (zlen ws)); [|lia]. cbn [andb].
  destruct (i <? 0); [reflexivity|apply IH].
Qed.

Lemma ws_ok_pos ws : ws_ok ws = true -> 0 < zlen ws.
Proof.
  unfold ws_ok. rewrite andb_true_iff, negb_true_iff. intros [H _].
  apply Z.eqb_neq in H. unfold zlen in *. lia.
Qed.

Lemma u16_round_range x : 0 <= u16_round x <= maxWeight.
Proof. unfold u16_round, maxWeight. pose proof (Z.mod_pos_bound (round_nonneg x) 65536 ltac:(lia)). lia. Qed.

Lemma word_eqb_refl w : word_eqb w w = true.
Proof. induction w as [|x r IH]; cbn [word_eqb]; [reflexivity|]. rewrite Z.eqb_refl, IH. reflexivity. Qed.

Lemma clause_new_ok i ps : forallb okc (clause_new i ps (new_scheduler (map fr ps))) = true.
Proof.
  unfold clause_new. destruct (forallb _ ps); [|reflexivity]. cbn [negb forallb okc fst snd].
  unfold new_scheduler. assert (El: zlen (map fr ps) = zlen ps) by (unfold zlen; rewrite map_length; reflexivity).
  rewrite El. set (n := zlen ps). set (nz := nzero (map fr ps)).
  assert (Hn0: 0 <= n) by (unfold n, zlen; lia).
  destruct (Z.eqb_spec n 0) as [E0|E0].
  { rewrite E0. reflexivity. }
  destruct (Z.eqb_spec n 1) as [E1|E1].
  { rewrite E1. reflexivity. }
  destruct (Z.geb_spec nz (n - 1)) as [G|G].
  { cbn [andb orb]. rewrite Z.eqb_refl. destruct (Z.leb_spec 1 n); [|lia]. cbn [andb].
    rewrite word_eqb_refl. destruct (n - nz <? 2); reflexivity. }
  set (sf := PrimFloat.div (fz maxWeight) (fmax (map fr ps))).
  set (mean := u16_round (PrimFloat.mul sf (PrimFloat.div (fsum (map fr ps)) (fz (n - nz))))).
  destruct (forallb _ (map fr ps)).
  - cbn [andb orb]. rewrite Z.eqb_refl. destruct (Z.leb_spec 1 n); [|lia]. cbn [andb].
    rewrite word_eqb_refl. destruct (n - nz <? 2); reflexivity.
  - assert (Hlen: zlen (map (fun w => if is0 w then mean else u16_round (PrimFloat.mul sf w)) (map fr ps)) = n).
    { unfold zlen. rewrite !map_length. reflexivity. }
    rewrite Hlen, Z.eqb_refl.
    assert (Hr: forallb (fun w => (0 <=? w) && (w <=? maxWeight))
                  (map (fun w => if is0 w then mean else u16_round (PrimFloat.mul sf w)) (map fr ps)) = true).
    { apply forallb_forall. intros w Hw. apply in_map_iff in Hw as (x & <- & _).
      assert (0 <= (if is0 x then mean else u16_round (PrimFloat.mul sf x)) <= maxWeight)
        by (destruct (is0 x); apply u16_round_range).
      apply andb_true_iff. split; apply Z.leb_le; lia. }
    rewrite Hr. destruct (Z.leb_spec 2 (n - nz)); [|lia]. cbn [andb].
    destruct (Z.ltb_spec (n - nz) 2); [lia|]. rewrite andb_false_r. cbn [orb]. reflexivity.
Qed.

Lemma is0_zero : is0 PrimFloat.zero = true.
Proof. reflexivity. Qed.

Lemma fdec_zero : fdec PrimFloat.zero = [0; 0].
Proof. reflexivity. Qed.

(* weight is 0 before the first report, after the expiration period, and (with a blackout
   period configured) until reports have been arriving for the blackout period *)
Theorem weight_zero_cases e now expir blackout :
  e_last e = 0 \/ now - e_last e >= expir \/
  (blackout <> 0 /\ (e_since e = 0 \/ now - e_since e < blackout)) ->
  fst (weight_at e now expir blackout) = PrimFloat.zero.
Proof.
  unfold weight_at. intros H.
  destruct (Z.eqb_spec (e_last e) 0); [reflexivity|].
  destruct (Z.geb_spec (now - e_last e) expir); [reflexivity|].
  destruct H as [H|[H|[Hb Hs]]]; [contradiction|lia|].
  destruct (Z.eqb_spec blackout 0); [contradiction|]. cbn [negb andb].
  destruct (Z.eqb_spec (e_since e) 0); [reflexivity|]. cbn [orb].
  destruct (Z.ltb_spec (now - e_since e) blackout); [reflexivity|]. destruct Hs; [contradiction|lia].
Qed.

(* otherwise it is the value computed from the latest load report *)
Theorem weight_usable e now expir blackout :
  e_last e <> 0 -> now - e_last e < expir ->
  (blackout = 0 \/ (e_since e <> 0 /\ blackout <= now - e_since e)) ->
  fst (weight_at e now expir blackout) = e_val e.
Proof.
  unfold weight_at. intros H1 H2 H3.
  destruct (Z.eqb_spec (e_last e) 0); [contradiction|].
  destruct (Z.geb_spec (now - e_last e) expir); [lia|].
  destruct (Z.eqb_spec blackout 0); [reflexivity|]. cbn [negb andb].
  destruct H3 as [H3|[H3 H4]]; [contradiction|].
  destruct (Z.eqb_spec (e_since e) 0); [contradiction|]. cbn [orb].
  destruct (Z.ltb_spec (now - e_since e) blackout); [lia|reflexivity].
Qed.

(* weight from a load report: qps / (utilization + eps/qps * penalty), application
   utilization preferred over cpu utilization; empty reports are ignored *)
Theorem report_formula e now qps app cpu eps pen :
  let util := if is0 app then cpu else app in
  (is0 util || is0 qps = true -> on_report e now qps app cpu eps pen = e) /\
  (is0 util || is0 qps = false ->
   e_val (on_report e now qps app cpu eps pen) =
     PrimFloat.div qps (PrimFloat.add util (PrimFloat.mul (PrimFloat.div eps qps) pen)) /\
   e_last (on_report e now qps app cpu eps pen) = now).
Proof.
  cbn zeta. unfold on_report. destruct (is0 (if is0 app then cpu else app) || is0 qps).
  - split; [reflexivity|discriminate].
  - split; [discriminate|]. intros _. split; reflexivity.
Qed.

Lemma clause_wt_ok i e now expir blackout :
  forallb okc (clause_wt i e now expir blackout (snd (step e (OWt now expir blackout)))) = true.
Proof.
  unfold clause_wt. cbn [step forallb okc fst snd]. unfold weight_at.
  destruct (e_last e =? 0); [reflexivity|]. cbn [orb].
  destruct (now - e_last e >=? expir); [reflexivity|]. cbn [orb].
  destruct (negb (blackout =? 0) && ((e_since e =? 0) || (now - e_since e <? blackout))); reflexivity.
Qed.

Lemma edf_window_shape B ws : forall k ctr tot mx cs,
  exists t m cs', edf_window B k ws ctr tot mx cs = t :: m :: cs'.
Proof.
  induction k as [|k IH]; intros ctr tot mx cs; cbn [edf_window]; [eauto|].
  destruct (edf_next B ws ctr) as [i c']. destruct (i <? 0); [eauto|apply IH].
Qed.

Lemma step_ok i e oc : forallb okc (clause_op i e oc (snd (step e oc))) = true.
Proof.
  destruct oc as [s k ws|s k n|ps|now q a c ee p|now expir blackout|s ws]; cbn [clause_op].
  - unfold clause_edf. destruct (ws_ok ws) eqn:Hok; [|reflexivity]. cbn [negb step snd forallb okc fst snd].
    rewrite (edf_calls_idx _ ws (ws_ok_pos ws Hok)). reflexivity.
  - unfold clause_rr. destruct (Z.leb_spec n 0) as [L|L]; [reflexivity|]. cbn [step snd].
    destruct (Z.leb_spec n 0); [lia|]. cbn [forallb okc fst snd].
    assert (El: zlen (rr_calls (clipk k) n (u32 s)) = Z.of_nat (clipk k)) by (unfold zlen; rewrite rr_calls_len; reflexivity).
    rewrite El, Z.eqb_refl, (rr_calls_range _ n L). cbn [andb].
    destruct (Z.ltb_spec (u32 s + Z.of_nat (clipk k)) (2 ^ 32)); [|reflexivity].
    rewrite rr_consecutive_ok; [reflexivity|lia| |lia].
    unfold u32. apply Z.mod_pos_bound. reflexivity.
  - cbn [step snd]. apply clause_new_ok.
  - reflexivity.
  - apply clause_wt_ok.
  - unfold clause_win. destruct (negb (ws_ok ws) || (maxWindow <? sumz ws)); [reflexivity|].
    cbn [step snd]. destruct (edf_window_shape (Z.to_nat budget) ws (Z.to_nat (Z.min (Z.max (sumz ws) 0) maxWindow)) (u32 s) 0 0 (map (fun _ => 0) ws)) as (t & m & cs' & ->).
    reflexivity.
Qed.

Lemma run_from_ok ops : forall i e, forallb op_wf ops = true ->
  exists obs, run_from e ops = Some obs /\ forallb okc (clauses_from i e ops obs) = true.
Proof.
  induction ops as [|op r IH]; intros i e Hwf.
  - exists []. split; reflexivity.
  - cbn [forallb] in Hwf. apply andb_true_iff in Hwf as [Hop Hr]. unfold op_wf in Hop.
    cbn [run_from clauses_from]. destruct (decode op) as [oc|]; [|discriminate].
    pose proof (step_ok i e oc) as Hcl.
    destruct (step e oc) as [e' o] eqn:Es. cbn [fst snd] in *.
    destruct (IH (i + 1) e' Hr) as (obs & Hrun & Hcs).
    exists (o :: obs). rewrite Hrun. split; [reflexivity|].
    rewrite forallb_app, Hcl, Hcs. reflexivity.
Qed.

Theorem model_trace_holds ops : forallb op_wf ops = true ->
  exists obs, run ops = Some obs /\ holds_b ops obs = true.
Proof. intros H. exact (run_from_ok ops 0 epw0 H). Qed.

(* newScheduler falls back to round robin for one endpoint and when fewer than two
   endpoints have a non-zero weight; otherwise the scaled weights are uint16 values *)
Theorem new_scheduler_fallback ws : let n := zlen ws in
  (n = 0 -> new_scheduler ws = [0]) /\
  (n = 1 -> new_scheduler ws = [1; 1]) /\
  (2 <= n -> n - nzero ws < 2 -> new_scheduler ws = [1; n]) /\
  (forall wts, new_scheduler ws = 2 :: wts ->
     2 <= n - nzero ws /\ zlen wts = n /\ Forall (fun w => 0 <= w <= maxWeight) wts).
Proof.
  cbn zeta. unfold new_scheduler. set (n := zlen ws). set (nz := nzero ws).
  destruct (Z.eqb_spec n 0) as [E0|E0].
  { repeat split; try lia; try discriminate. }
  destruct (Z.eqb_spec n 1) as [E1|E1].
  { repeat split; try lia; try discriminate. }
  destruct (Z.geb_spec nz (n - 1)) as [G|G].
  { repeat split; try lia; try discriminate. }
  set (sf := PrimFloat.div (fz maxWeight) (fmax ws)).
  set (mean := u16_round (PrimFloat.mul sf (PrimFloat.div (fsum ws) (fz (n - nz))))).
  destruct (forallb _ ws).
  { repeat split; try lia; try discriminate. }
  split; [lia|]. split; [lia|]. split; [lia|].
  intros wts H. inversion H; subst wts. split; [lia|]. split.
  - unfold zlen. rewrite map_length. reflexivity.
  - apply Forall_forall. intros w Hw. apply in_map_iff in Hw as (x & <- & _).
    destruct (is0 x); apply u16_round_range.
Qed.

(* Across the uint32 wrap of picker.idx the generations seen by a backend are not consecutive
   (2^32/n - 1 is followed by 0), and the exact count fails: 2 backends, the second with weight
   3 (c = 1*offset); the window of 65535*2 sequence numbers starting 999 before the wrap gives
   it the generations 2^31-500 .. 2^31-1 and 0 .. 65034 -- 65535 generations -- and 4 picks. *)
Lemma window_wrap_refuted :
  exists w c a k1 k2, 0 <= w <= maxWeight /\ 0 <= k1 /\ 0 <= k2 /\ k1 + k2 = maxWeight /\
    a + k1 = 2 ^ 32 / 2 /\
    gen_count w c a (Z.to_nat k1) + gen_count w c 0 (Z.to_nat k2) <> w.
Proof.
  exists 3, offset, (2 ^ 31 - 500), 500, 65035.
  rewrite !gen_count_closed by (unfold maxWeight; lia). rewrite !Z2Nat.id by lia.
  vm_compute. repeat split; discriminate.
Qed.
