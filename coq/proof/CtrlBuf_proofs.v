(* C16 proofs: invariants of the controlBuffer model over all interleavings of its
   atomic steps (any number of producers, consumers and readers, any length). *)
From Coq Require Import List ZArith Bool Lia.
From VLib Require Import Codec Machine.
From VModel Require Import CtrlBuf.
Import ListNotations.
Open Scope Z_scope.

(* ---------- reader table ---------- *)

Definition keys (l : list reader) : list Z := map fst l.

Lemma lookup_in r : forall l v, lookup r l = Some v -> In (r, v) l.
Proof.
  induction l as [|[r' v'] l IH]; cbn; intros v H; [discriminate|].
  destruct (Z.eqb_spec r r') as [->|N].
  - inversion H; subst. now left.
  - right. now apply IH.
Qed.

Lemma lookup_none_notin r : forall l, lookup r l = None -> ~ In r (keys l).
Proof.
  induction l as [|[r' v'] l IH]; cbn; intros H; [tauto|].
  destruct (Z.eqb_spec r r') as [->|N]; [discriminate|].
  intros [E|I]; [congruence|]. now apply IH.
Qed.

Lemma in_lookup r v : forall l, NoDup (keys l) -> In (r, v) l -> lookup r l = Some v.
Proof.
  induction l as [|[r' v'] l IH]; cbn; intros ND H; [tauto|].
  inversion ND as [|? ? Hn ND']; subst.
  destruct H as [E|I].
  - inversion E; subst. now rewrite Z.eqb_refl.
  - destruct (Z.eqb_spec r r') as [->|N]; [|now apply IH].
    exfalso. apply Hn. change r' with (fst (r', v)). now apply in_map.
Qed.

Lemma remove_rd_incl r : forall l e, In e (remove_rd r l) -> In e l.
Proof.
  induction l as [|[r' v'] l IH]; cbn; intros e H; [tauto|].
  destruct (r =? r'); [now right|]. destruct H as [E|I]; [now left|right; now apply IH].
Qed.

Lemma remove_rd_keys_incl r l k : In k (keys (remove_rd r l)) -> In k (keys l).
Proof.
  unfold keys. rewrite !in_map_iff. intros (e & E & I). exists e. split; [assumption|].
  eapply remove_rd_incl; eassumption.
Qed.

Lemma remove_rd_nodup r : forall l, NoDup (keys l) -> NoDup (keys (remove_rd r l)).
Proof.
  induction l as [|[r' v'] l IH]; cbn; intros ND; [constructor|].
  inversion ND as [|? ? Hn ND']; subst.
  destruct (r =? r'); [assumption|]. cbn. constructor; [|now apply IH].
  intros I. apply Hn. eapply remove_rd_keys_incl; eassumption.
Qed.

Lemma remove_rd_gone r : forall l, NoDup (keys l) -> ~ In r (keys (remove_rd r l)).
Proof.
  induction l as [|[r' v'] l IH]; cbn; intros ND; [tauto|].
  inversion ND as [|? ? Hn ND']; subst.
  destruct (Z.eqb_spec r r') as [->|N]; [assumption|].
  cbn. intros [E|I]; [congruence|]. now apply (IH ND').
Qed.

Lemma lookup_remove_other r r' : r <> r' -> forall l, lookup r (remove_rd r' l) = lookup r l.
Proof.
  intros N. induction l as [|[r0 v0] l IH]; cbn; [reflexivity|].
  destruct (Z.eqb_spec r' r0) as [->|N'].
  - destruct (Z.eqb_spec r r0); [congruence|reflexivity].
  - cbn. destruct (r =? r0); [reflexivity|assumption].
Qed.

Lemma lookup_app_some r v : forall l l', lookup r l = Some v -> lookup r (l ++ l') = Some v.
Proof.
  induction l as [|[r0 v0] l IH]; cbn; intros l' H; [discriminate|].
  destruct (r =? r0); [assumption|now apply IH].
Qed.

Lemma nodup_snoc (x : Z) : forall l, ~ In x l -> NoDup l -> NoDup (l ++ [x]).
Proof.
  induction l as [|y l IH]; cbn; intros Hn ND.
  - constructor; [tauto|constructor].
  - inversion ND as [|? ? Hy ND']; subst. constructor.
    + rewrite in_app_iff. cbn. intros [I|[E|[]]]; [tauto|]. subst. tauto.
    + apply IH; tauto.
Qed.

(* ---------- small facts about the queue ---------- *)

Lemma cnt_thr_cons h l :
  cnt_thr (h :: l) = if is_thr (fst h) then cnt_thr l + 1 else cnt_thr l.
Proof. reflexivity. Qed.

Lemma cnt_thr_app l i : cnt_thr (l ++ [i]) = cnt_thr l + (if is_thr (fst i) then 1 else 0).
Proof.
  induction l as [|h l IH].
  - cbn. destruct (is_thr (fst i)); lia.
  - rewrite <- app_comm_cons, !cnt_thr_cons, IH. destruct (is_thr (fst h)), (is_thr (fst i)); lia.
Qed.

Lemma hdr_ids_app a b : hdr_ids (a ++ b) = hdr_ids a ++ hdr_ids b.
Proof. unfold hdr_ids. now rewrite filter_app, map_app. Qed.

Arguments cnt_thr : simpl never.
Arguments hdr_ids : simpl never.

(* ---------- the invariant ---------- *)

Record Inv (s : st) : Prop := {
  i_pan : pan s = false;
  i_trf : closed s = false -> trf s = cnt_thr (q s);
  i_chan : closed s = false -> (cur s = None <-> trf s < mx s);
  i_cl : closed s = true -> cur s = None /\ q s = [];
  i_gen : forall g, 0 <= g < ngen s -> cur s = Some g \/ In g (cg s);
  i_cur : forall g, cur s = Some g -> 0 <= g < ngen s;
  i_rd : forall r au g, In (r, (au, Some g)) (rds s) -> 0 <= g < ngen s;
  i_ngen : 0 <= ngen s;
  i_keys : NoDup (keys (rds s));
  i_acc : acc s = got s ++ q s ++ dropped s;
  i_drop : closed s = false -> dropped s = [];
  i_orph : orph s = hdr_ids (dropped s)
}.

Lemma init_inv m : 1 <= m -> Inv (init m).
Proof.
  intros Hm. constructor; cbn; intros; try reflexivity; try tauto; try lia; try discriminate.
  - split; intros; [lia|reflexivity].
  - constructor.
Qed.

Ltac inv_fields H :=
  destruct H as [Hpan Htrf Hchan Hcl Hgen Hcur Hrd Hng Hkeys Hacc Hdrop Horph]; cbn in *.

Ltac fin :=
  intros; subst;
  try assumption; try discriminate; try lia; try tauto; try reflexivity; try solve [eauto];
  try (split; intros; (discriminate || lia || reflexivity || tauto));
  try (rewrite ?app_nil_r, <- ?app_assoc; cbn [app]; rewrite ?app_nil_r; reflexivity).

Lemma put_inv s hf fo it : Inv s -> Inv (fst (put s hf fo it)).
Proof.
  intros H. unfold put.
  destruct (closed s) eqn:Ec; [exact H|].
  destruct (hf && negb fo); [exact H|].
  destruct it as [i|]; [|exact H].
  destruct s as [m c d qq t cu ng cgs rd pn ac gt dr orp]. cbn in Ec. subst c.
  inv_fields H. specialize (Htrf eq_refl). specialize (Hchan eq_refl). specialize (Hdrop eq_refl).
  pose proof (cnt_thr_app qq i) as Happ.
  destruct (is_thr (fst i)) eqn:Et; cbn [fst].
  - destruct (Z.eqb_spec (t + 1) m) as [E|N]; cbn [fst].
    + assert (Hc : cu = None) by (apply Hchan; lia). subst cu.
      constructor; cbn; fin.
      * destruct (Z.eq_dec g ng) as [->|Ng]; [now left|].
        destruct (Hgen g ltac:(lia)) as [?|?]; [discriminate|now right].
      * inversion H; subst. lia.
      * specialize (Hrd r au g H). lia.
    + constructor; cbn; fin.
      rewrite Hchan. lia.
  - constructor; cbn; fin.
Qed.

Lemma get_inv s : Inv s -> Inv (fst (get s)).
Proof.
  intros H. unfold get.
  destruct (closed s) eqn:Ec; [exact H|].
  destruct (q s) as [|h q'] eqn:Eq; [exact H|].
  destruct s as [m c d qq t cu ng cgs rd pn ac gt dr orp]. cbn in Ec, Eq. subst c qq.
  inv_fields H. specialize (Htrf eq_refl). specialize (Hchan eq_refl). specialize (Hdrop eq_refl).
  rewrite cnt_thr_cons in Htrf.
  destruct (is_thr (fst h)) eqn:Et; cbn [fst].
  - destruct (Z.eqb_spec t m) as [E|N]; cbn [fst].
    + destruct cu as [g|]; [|exfalso; assert (t < m) by (now apply Hchan); lia].
      cbn [fst].
      constructor; cbn; fin.
      destruct (Hgen g0 H) as [E0|I]; [inversion E0; subst; right; now left|right; now right].
    + constructor; cbn; fin.
      rewrite Hchan. lia.
  - constructor; cbn; fin.
Qed.

Lemma finish_inv s : Inv s -> Inv (fst (finish s)).
Proof.
  intros H. unfold finish.
  destruct (closed s) eqn:Ec; [exact H|].
  destruct s as [m c d qq t cu ng cgs rd pn ac gt dr orp]. cbn in Ec. subst c.
  inv_fields H. specialize (Hdrop eq_refl).
  constructor; cbn; try assumption; try discriminate; try lia; try reflexivity.
  - intros _. split; reflexivity.
  - intros g Hg. right. destruct (Hgen g Hg) as [E|I]; [subst cu; now left|].
    destruct cu; [now right|assumption].
  - rewrite Hacc, Hdrop, !app_nil_r. reflexivity.
Qed.

Lemma set_rds_inv s l :
  Inv s -> NoDup (keys l) -> (forall r au g, In (r, (au, Some g)) l -> 0 <= g < ngen s) ->
  Inv (set_rds s l).
Proof.
  intros H ND HR. destruct s as [m c d qq t cu ng cgs rd pn ac gt dr orp].
  inv_fields H. constructor; cbn; assumption.
Qed.

Lemma wait_inv s r : Inv s -> Inv (fst (wait s r)).
Proof.
  intros H. unfold wait.
  assert (Hrm : Inv (set_rds s (remove_rd r (rds s)))).
  { apply set_rds_inv; [assumption|apply remove_rd_nodup, H|].
    intros r0 au g Hi. eapply (i_rd s H). eapply remove_rd_incl; eassumption. }
  destruct (lookup r (rds s)) as [[au [g|]]|]; cbn [fst]; try assumption.
  destruct (dn s || chan_closed s g); cbn [fst]; assumption.
Qed.

Lemma astep_inv s a : Inv s -> Inv (fst (astep s a)).
Proof.
  intros H. unfold astep. rewrite (i_pan s H).
  destruct a as [hf fo it| | | |r au|r].
  - now apply put_inv.
  - now apply get_inv.
  - now apply finish_inv.
  - destruct s as [m c d qq t cu ng cgs rd pn ac gt dr orp]. inv_fields H.
    constructor; cbn; fin.
  - destruct (lookup r (rds s)) eqn:El; cbn [fst]; [assumption|].
    apply set_rds_inv; [assumption| |].
    + unfold keys. rewrite map_app. cbn. apply nodup_snoc; [now apply lookup_none_notin|apply H].
    + intros r0 au0 g Hi. apply in_app_or in Hi as [Hi|[E|[]]].
      * eapply (i_rd s H); eassumption.
      * inversion E; subst. now apply (i_cur s H).
  - now apply wait_inv.
Qed.

Lemma exec_inv l : forall s, Inv s -> Inv (exec s l).
Proof.
  induction l as [|a l IH]; cbn; intros s H; [assumption|]. apply IH, astep_inv, H.
Qed.

Theorem reach_inv m acts : 1 <= m -> Inv (exec (init m) acts).
Proof. intros Hm. apply exec_inv, init_inv, Hm. Qed.

Ltac crush_step :=
  unfold astep, put, get, finish, wait, set_rds;
  repeat match goal with
         | |- context [if ?b then _ else _] => destruct b
         | |- context [match ?x with _ => _ end] => destruct x
         end; cbn; try reflexivity; try tauto.

Lemma astep_mx s a : mx (fst (astep s a)) = mx s.
Proof. destruct a; crush_step. Qed.

Lemma exec_mx l : forall s, mx (exec s l) = mx s.
Proof.
  induction l as [|a l IH]; intros s; [reflexivity|].
  change (exec s (a :: l)) with (exec (fst (astep s a)) l). rewrite IH. apply astep_mx.
Qed.

(* ---------- C16, sentence 1: the throttling channel exists iff the count is at the limit ---------- *)

Lemma inv_chan_iff s : Inv s ->
  pan s = false /\
  (closed s = false -> (cur s <> None <-> mx s <= trf s)) /\
  (closed s = true -> cur s = None).
Proof.
  intros H. split; [apply H|]. split.
  - intros Hc. pose proof (i_chan s H Hc) as [A B]. split.
    + intros Hn. destruct (Z_lt_le_dec (trf s) (mx s)) as [L|G]; [|assumption]. tauto.
    + intros G E. apply A in E. lia.
  - intros Hc. apply (i_cl s H Hc).
Qed.

Theorem chan_iff m acts : 1 <= m -> let s := exec (init m) acts in
  pan s = false /\
  (closed s = false -> (cur s <> None <-> m <= trf s)) /\
  (closed s = true -> cur s = None) /\
  (closed s = false -> trf s = cnt_thr (q s)).
Proof.
  intros Hm s. pose proof (reach_inv m acts Hm) as H. fold s in H.
  destruct (inv_chan_iff s H) as (A & B & C).
  assert (Em : mx s = m) by (unfold s; now rewrite exec_mx).
  rewrite Em in B. repeat split; try assumption; try apply B; try assumption. apply H.
Qed.

(* a reader is blocked when the receive of throttle() cannot complete *)
Definition blocked (s : st) (r : Z) : Prop :=
  exists au g, lookup r (rds s) = Some (au, Some g) /\ chan_closed s g = false /\ dn s = false.

Lemma wait_blocked_iff s r : snd (wait s r) = [0] <-> blocked s r.
Proof.
  unfold wait, blocked. destruct (lookup r (rds s)) as [[au [g|]]|]; cbn.
  - destruct (dn s) eqn:Ed; cbn.
    + split; [discriminate|]. intros (? & ? & _ & _ & ?). discriminate.
    + destruct (chan_closed s g) eqn:Eg; cbn.
      * split; [discriminate|]. intros (? & ? & E & ? & _). inversion E; subst. congruence.
      * split; [|reflexivity]. intros _. exists au, g. tauto.
  - split; [discriminate|]. intros (? & ? & E & _). discriminate.
  - split; [discriminate|]. intros (? & ? & E & _). discriminate.
Qed.

Lemma blocked_full s r : Inv s -> blocked s r ->
  mx s <= trf s /\ closed s = false /\ dn s = false.
Proof.
  intros H (au & g & El & Eg & Ed).
  apply lookup_in in El. pose proof (i_rd s H _ _ _ El) as Hg.
  destruct (i_gen s H g Hg) as [Ec|I].
  - assert (Hcl : closed s = false).
    { destruct (closed s) eqn:E; [|reflexivity]. destruct (i_cl s H E) as [C _]. congruence. }
    repeat split; try assumption.
    destruct (Z_lt_le_dec (trf s) (mx s)) as [L|G]; [|assumption].
    apply (i_chan s H Hcl) in L. congruence.
  - exfalso. unfold chan_closed in Eg.
    assert (existsb (Z.eqb g) (cg s) = true) by (apply existsb_exists; exists g; split; [assumption|apply Z.eqb_refl]).
    congruence.
Qed.

Theorem blocked_only_when_full m acts r : 1 <= m -> let s := exec (init m) acts in
  blocked s r -> m <= trf s /\ closed s = false /\ dn s = false.
Proof.
  intros Hm s Hb. pose proof (reach_inv m acts Hm) as H. fold s in H.
  assert (Em : mx s = m) by (unfold s; now rewrite exec_mx).
  rewrite <- Em. now apply (blocked_full s r).
Qed.

Lemma wait_out s r : snd (wait s r) = [0] \/ snd (wait s r) = [1] \/
                     (snd (wait s r) = [2] /\ lookup r (rds s) = None).
Proof.
  unfold wait. destruct (lookup r (rds s)) as [[au [g|]]|]; cbn; try tauto.
  destruct (dn s || chan_closed s g); cbn; tauto.
Qed.

Theorem released m acts r v : 1 <= m -> let s := exec (init m) acts in
  lookup r (rds s) = Some v ->
  trf s < m \/ closed s = true \/ dn s = true ->
  snd (astep s (AWait r)) = [1].
Proof.
  intros Hm s El Hc. pose proof (reach_inv m acts Hm) as H. fold s in H.
  assert (Em : mx s = m) by (unfold s; now rewrite exec_mx).
  unfold astep. rewrite (i_pan s H).
  destruct (wait_out s r) as [B|[R|[_ N]]]; [|assumption|congruence].
  apply wait_blocked_iff in B. apply (blocked_full s r H) in B. destruct B as (A & B & C).
  rewrite Em in A. destruct Hc as [L|[E|E]]; [lia|congruence|congruence].
Qed.

(* no lost wake-up: once the receive of reader r can complete, no step of any other
   thread can disable it again (closed channels stay closed; a new channel is a new
   generation), so under weak fairness r returns *)
Definition enabled (s : st) (r : Z) : Prop :=
  exists au og, lookup r (rds s) = Some (au, og) /\
    match og with None => True | Some g => dn s = true \/ chan_closed s g = true end.

Lemma enabled_wait s r : enabled s r <-> (lookup r (rds s) <> None /\ snd (wait s r) = [1]).
Proof.
  unfold enabled, wait. destruct (lookup r (rds s)) as [[au [g|]]|]; cbn.
  - destruct (dn s) eqn:Ed; cbn.
    + split; [intros _; split; [discriminate|reflexivity]|]. intros _. exists au, (Some g). split; [reflexivity|auto].
    + destruct (chan_closed s g) eqn:Eg; cbn.
      * split; [intros _; split; [discriminate|reflexivity]|]. intros _. exists au, (Some g). split; [reflexivity|auto].
      * split; [|intros [_ E]; discriminate]. intros (? & ? & E & D). inversion E; subst.
        destruct D; congruence.
  - split; [intros _; split; [discriminate|reflexivity]|]. intros _. exists au, None. split; [reflexivity|exact I].
  - split; [intros (? & ? & E & _); discriminate|tauto].
Qed.

Lemma step_mono s a r : a <> AWait r ->
  let s' := fst (astep s a) in
  (forall v, lookup r (rds s) = Some v -> lookup r (rds s') = Some v) /\
  (dn s = true -> dn s' = true) /\
  (forall g, chan_closed s g = true -> chan_closed s' g = true).
Proof.
  intros Na. unfold astep. destruct (pan s); [cbn; tauto|].
  destruct a as [hf fo it| | | |r' au|r'].
  - unfold put. repeat match goal with |- context [if ?b then _ else _] => destruct b
                                | |- context [match ?x with _ => _ end] => destruct x end; cbn; tauto.
  - unfold get, chan_closed.
    repeat match goal with |- context [if ?b then _ else _] => destruct b
                      | |- context [match ?x with _ => _ end] => destruct x end; cbn; try tauto.
    repeat split; try tauto. intros g H. rewrite H. apply orb_true_r.
  - unfold finish, chan_closed.
    repeat match goal with |- context [if ?b then _ else _] => destruct b
                      | |- context [match ?x with _ => _ end] => destruct x end; cbn; try tauto.
    repeat split; try tauto. intros g H. rewrite H. apply orb_true_r.
  - cbn. tauto.
  - destruct (lookup r' (rds s)) eqn:El; cbn; [tauto|].
    repeat split; try tauto. intros v Hv. destruct s; cbn in *. now apply lookup_app_some.
  - assert (Nr : r <> r') by congruence.
    unfold wait. destruct (lookup r' (rds s)) as [[au [g|]]|]; cbn; try tauto.
    + destruct (dn s || chan_closed s g); cbn; [|tauto].
      destruct s; cbn in *. repeat split; try tauto. intros v Hv. now rewrite lookup_remove_other.
    + destruct s; cbn in *. repeat split; try tauto. intros v Hv. now rewrite lookup_remove_other.
Qed.

Theorem enabled_stable s a r : a <> AWait r -> enabled s r -> enabled (fst (astep s a)) r.
Proof.
  intros Na (au & og & El & Ho). destruct (step_mono s a r Na) as (A & B & C).
  exists au, og. split; [now apply A|]. destruct og as [g|]; [|exact I].
  destruct Ho as [D|D]; [left; now apply B|right; now apply C].
Qed.

(* ---------- C16, sentence 2: after close nothing is accepted ---------- *)

Theorem closed_rejects s hf fo it : pan s = false -> closed s = true ->
  astep s (APut hf fo it) = (s, [0; 1; 0]) /\ astep s AGet = (s, [2; 0; 0]) /\
  astep s AFinish = (s, []).
Proof.
  intros Hp Hc. unfold astep, put, get, finish. rewrite Hp, Hc. tauto.
Qed.

Lemma closed_stable s a : closed s = true -> closed (fst (astep s a)) = true.
Proof.
  intros Hc. unfold astep. destruct (pan s); [assumption|].
  destruct a as [hf fo it| | | |r' au|r']; unfold put, get, finish, wait, set_rds; rewrite ?Hc; cbn;
    try assumption.
  all: repeat match goal with
              | |- context [match ?x with _ => _ end] => destruct x
              | |- context [if ?b then _ else _] => destruct b
              end; cbn; try assumption; try reflexivity.
Qed.

Lemma exec_closed l : forall s, closed s = true -> closed (exec s l) = true.
Proof.
  induction l as [|a l IH]; cbn; intros s H; [assumption|]. apply IH, closed_stable, H.
Qed.

Theorem finish_closes s : pan s = false -> closed (fst (astep s AFinish)) = true.
Proof.
  intros Hp. unfold astep, finish. rewrite Hp. destruct (closed s) eqn:E; cbn; [assumption|reflexivity].
Qed.

Theorem finish_orphans s : pan s = false -> closed s = false ->
  snd (astep s AFinish) = hdr_ids (q s) /\ q (fst (astep s AFinish)) = [] /\
  cur (fst (astep s AFinish)) = None /\
  (forall g, cur s = Some g -> chan_closed (fst (astep s AFinish)) g = true).
Proof.
  intros Hp Hc. unfold astep, finish, chan_closed. rewrite Hp, Hc. cbn. repeat split.
  intros g E. rewrite E. cbn. now rewrite Z.eqb_refl.
Qed.

(* ---------- exactly-once accounting of queued stream-creation requests ---------- *)

Theorem history m acts : 1 <= m -> let s := exec (init m) acts in
  acc s = got s ++ q s ++ dropped s /\
  orph s = hdr_ids (dropped s) /\
  (closed s = false -> dropped s = []) /\
  (closed s = true -> q s = []).
Proof.
  intros Hm s. pose proof (reach_inv m acts Hm) as H. fold s in H.
  split; [apply H|]. split; [apply H|]. split; [apply H|]. intros Hc. apply (i_cl s H Hc).
Qed.

Lemma nodup_app_disj (a b : list Z) : NoDup (a ++ b) ->
  NoDup a /\ NoDup b /\ forall x, In x a -> ~ In x b.
Proof.
  induction a as [|h a IH]; cbn; intros ND.
  - split; [constructor|]. split; [assumption|tauto].
  - inversion ND as [|? ? Hn ND']; subst. destruct (IH ND') as (A & B & C).
    split; [constructor; [rewrite in_app_iff in Hn; tauto|assumption]|].
    split; [assumption|]. intros x [E|I]; [subst; rewrite in_app_iff in Hn; tauto|now apply C].
Qed.

Theorem orphaned_exactly_once m acts : 1 <= m -> let s := exec (init m) acts in
  closed s = true -> NoDup (hdr_ids (acc s)) ->
  NoDup (orph s) /\
  forall id, In id (hdr_ids (acc s)) ->
    (In id (hdr_ids (got s)) /\ ~ In id (orph s)) \/ (~ In id (hdr_ids (got s)) /\ In id (orph s)).
Proof.
  intros Hm s Hc ND. destruct (history m acts Hm) as (A & B & _ & D). fold s in A, B, D.
  rewrite A, (D Hc) in ND |- *. cbn [app] in *. rewrite hdr_ids_app in *. rewrite <- B in *.
  destruct (nodup_app_disj _ _ ND) as (N1 & N2 & N3). split; [assumption|].
  intros id Hi. apply in_app_or in Hi as [I|I].
  - left. split; [assumption|now apply N3].
  - right. split; [|assumption]. intros I'. now apply (N3 id).
Qed.

(* the ghost history fields record exactly what the outputs of the steps say *)
Lemma ghost_put s hf fo it : pan s = false ->
  let r := astep s (APut hf fo it) in
  acc (fst r) = acc s ++ (match it, snd r with Some i, 1 :: _ => [i] | _, _ => [] end) /\
  got (fst r) = got s /\ orph (fst r) = orph s.
Proof.
  intros Hp. unfold astep, put. rewrite Hp.
  destruct (closed s); [destruct it; cbn; rewrite app_nil_r; tauto|].
  destruct (hf && negb fo); [destruct it; cbn; rewrite app_nil_r; tauto|].
  destruct it as [i|]; [|cbn; rewrite app_nil_r; tauto].
  destruct (is_thr (fst i)); [destruct (trf s + 1 =? mx s)|]; cbn; tauto.
Qed.

Lemma ghost_get s : Inv s ->
  let r := astep s AGet in
  got (fst r) = got s ++ (match snd r with [1; k; id] => [(k, id)] | _ => [] end) /\
  acc (fst r) = acc s /\ orph (fst r) = orph s /\
  (snd r = [0; 0; 0] \/ snd r = [2; 0; 0] \/ exists k id, snd r = [1; k; id]).
Proof.
  intros H. pose proof (get_inv s H) as H'. unfold astep. rewrite (i_pan s H).
  unfold get in *. destruct (closed s) eqn:Ec; [cbn; rewrite app_nil_r; tauto|].
  destruct (q s) as [|[k id] q'] eqn:Eq; [cbn; rewrite app_nil_r; tauto|].
  cbn [fst snd] in *.
  destruct (is_thr k); [|cbn; repeat split; eauto].
  destruct (trf s =? mx s); [|cbn; repeat split; eauto].
  destruct (cur s); [cbn; repeat split; eauto|].
  exfalso. pose proof (i_pan _ H'). cbn in *. discriminate.
Qed.

Lemma ghost_finish s : Inv s ->
  let r := astep s AFinish in
  orph (fst r) = orph s ++ snd r /\ acc (fst r) = acc s /\ got (fst r) = got s.
Proof.
  intros H. unfold astep, finish. rewrite (i_pan s H).
  destruct (closed s) eqn:Ec; cbn; [rewrite app_nil_r; tauto|].
  rewrite (i_orph s H), (i_drop s H Ec). cbn. tauto.
Qed.

Lemma ghost_other s a : (forall hf fo it, a <> APut hf fo it) -> a <> AGet -> a <> AFinish ->
  let r := astep s a in acc (fst r) = acc s /\ got (fst r) = got s /\ orph (fst r) = orph s.
Proof.
  intros N1 N2 N3. destruct a as [hf fo it| | | |r' au|r']; try congruence.
  - crush_step.
  - crush_step.
  - crush_step.
Qed.

(* ---------- the executable predicate holds on every model trace ---------- *)

Definition op_wf (op : word) : bool :=
  match op with
  | [1; _; _; _; _] | [2] | [3] | [4] | [5; _] | [6; _] | [7; _] => true
  | _ => false
  end.

Inductive shape : word -> Prop :=
| sh1 hf fo k id : shape [1; hf; fo; k; id]
| sh2 : shape [2] | sh3 : shape [3] | sh4 : shape [4]
| sh5 r : shape [5; r] | sh6 r : shape [6; r] | sh7 r : shape [7; r].

Lemma op_wf_shape op : op_wf op = true -> shape op.
Proof.
  intros H. destruct op as [|a l]; [discriminate|].
  destruct a as [|p|p]; try discriminate H.
  destruct p as [[[p|p|]|[p|p|]|]|[[p|p|]|[p|p|]|]|]; try discriminate H;
    destruct l as [|x1 [|x2 [|x3 [|x4 [|x5 l]]]]]; try discriminate H; constructor.
Qed.

Lemma set_rds_self s : set_rds s (rds s) = s.
Proof. destruct s; reflexivity. Qed.
Lemma set_rds_twice s a b : set_rds (set_rds s a) b = set_rds s b.
Proof. reflexivity. Qed.

Lemma wait_core s r : fst (wait s r) = set_rds s (rds (fst (wait s r))).
Proof.
  unfold wait. destruct (lookup r (rds s)) as [[au [g|]]|]; cbn [fst]; try (symmetry; apply set_rds_self);
    try reflexivity.
  destruct (dn s || chan_closed s g); cbn [fst]; [reflexivity|symmetry; apply set_rds_self].
Qed.

Lemma wait_rds_incl s r e : In e (rds (fst (wait s r))) -> In e (rds s).
Proof.
  unfold wait. destruct (lookup r (rds s)) as [[au [g|]]|]; cbn [fst]; try tauto.
  - destruct (dn s || chan_closed s g); cbn [fst]; [|tauto]. cbn. apply remove_rd_incl.
  - cbn. apply remove_rd_incl.
Qed.

Lemma exec_cons s a l : exec s (a :: l) = exec (fst (astep s a)) l.
Proof. reflexivity. Qed.

Lemma sweep_aux ids : forall s, Inv s ->
  let s' := exec s (map AWait ids) in
  Inv s' /\ s' = set_rds s (rds s') /\ (forall e, In e (rds s') -> In e (rds s)) /\
  (forall r au og, In r ids -> In (r, (au, og)) (rds s') -> blocked s' r).
Proof.
  induction ids as [|r ids IH]; intros s H.
  - cbn. split; [assumption|]. split; [symmetry; apply set_rds_self|]. split; [tauto|]. intros ? ? ? [].
  - cbn [map]. rewrite exec_cons.
    assert (E1 : fst (astep s (AWait r)) = fst (wait s r)) by (unfold astep; now rewrite (i_pan s H)).
    rewrite E1. set (s1 := fst (wait s r)).
    assert (H1 : Inv s1) by (apply wait_inv, H).
    destruct (IH s1 H1) as (A & B & C & D). cbn zeta in *.
    set (s' := exec s1 (map AWait ids)) in *.
    pose proof (wait_core s r) as Hc. fold s1 in Hc.
    split; [assumption|]. split; [rewrite B at 1; rewrite Hc; reflexivity|].
    split; [intros e He; apply (wait_rds_incl s r), C, He|].
    intros r0 au og Hin He. destruct (in_dec Z.eq_dec r0 ids) as [I|NI]; [now apply (D r0 au og)|].
    destruct Hin as [<-|I]; [|tauto].
    pose proof (C _ He) as He1. unfold s1 in He1.
    assert (Ecg : cg s' = cg s /\ dn s' = dn s).
    { rewrite B, Hc. cbn. tauto. }
    destruct Ecg as [Ecg Edn].
    unfold wait in He1. destruct (lookup r (rds s)) as [[au' [g|]]|] eqn:El; cbn [fst] in He1.
    + destruct (dn s || chan_closed s g) eqn:Eb; cbn [fst] in He1.
      * exfalso. cbn in He1. apply (remove_rd_gone r (rds s) (i_keys s H)).
        change r with (fst (r, (au, og))). apply in_map, He1.
      * apply (in_lookup r (au, og) _ (i_keys s H)) in He1. rewrite El in He1. inversion He1; subst.
        apply orb_false_iff in Eb as [Eb1 Eb2].
        exists au, g. split; [apply in_lookup; [apply A|assumption]|].
        unfold chan_closed in *. rewrite Ecg, Edn. tauto.
    + exfalso. cbn in He1. apply (remove_rd_gone r (rds s) (i_keys s H)).
      change r with (fst (r, (au, og))). apply in_map, He1.
    + apply (in_lookup r (au, og) _ (i_keys s H)) in He1. congruence.
Qed.

Lemma auto_ids_in r l : In r (auto_ids l) <-> exists og, In (r, (true, og)) l.
Proof.
  unfold auto_ids. rewrite in_map_iff. split.
  - intros ([r' [au og]] & E & I). apply filter_In in I as [I F]. cbn in *. subst. exists og. assumption.
  - intros (og & I). exists (r, (true, og)). split; [reflexivity|]. apply filter_In. split; [assumption|reflexivity].
Qed.

Definition swept (s : st) : Prop :=
  0 < Z.of_nat (length (auto_ids (rds s))) -> mx s <= trf s /\ closed s = false /\ dn s = false.

Lemma sweep_ok s : Inv s -> let s' := sweep s in
  Inv s' /\ s' = set_rds s (rds s') /\ swept s'.
Proof.
  intros H. unfold sweep. destruct (sweep_aux (auto_ids (rds s)) s H) as (A & B & C & D).
  cbn zeta in *. set (s' := exec s (map AWait (auto_ids (rds s)))) in *.
  split; [assumption|]. split; [assumption|].
  intros Hn. destruct (auto_ids (rds s')) as [|r l] eqn:E; [cbn in Hn; lia|].
  assert (Hr : In r (auto_ids (rds s'))) by (rewrite E; now left).
  apply auto_ids_in in Hr as (og & Hi).
  assert (Hb : blocked s' r).
  { apply (D r true og); [|assumption]. apply auto_ids_in. exists og. now apply C. }
  now apply (blocked_full s' r).
Qed.

Definition Sim (m : Z) (s : st) (t : trk) : Prop :=
  Inv s /\ mx s = m /\ t_pend t = q s /\ t_fin t = closed s /\ t_dn t = dn s.

Definition chz (s : st) : Z := match cur s with Some _ => 1 | None => 0 end.

Lemma common_ok m s t : Sim m s t -> swept s ->
  forallb (fun c : Z * Z * bool => snd c)
    (cl_common m t (trf s) (chz s) (Z.of_nat (length (q s))) (b2z (closed s))
               (Z.of_nat (length (auto_ids (rds s))))) = true.
Proof.
  intros (H & Hm & Hp & Hf & Hd) Hs. unfold cl_common. cbn [forallb snd]. subst m.
  rewrite !andb_true_iff. repeat split.
  - unfold chz. destruct (closed s) eqn:Ec; cbn [b2z].
    + destruct (i_cl s H Ec) as [-> _]. reflexivity.
    + pose proof (i_chan s H Ec) as [A B]. change (0 =? 0) with true. cbv iota.
      destruct (cur s) as [g|]; cbn.
      * destruct (Z.leb_spec (mx s) (trf s)) as [L|G]; [reflexivity|]. specialize (B G). discriminate.
      * destruct (Z.leb_spec (mx s) (trf s)) as [L|G]; [|reflexivity]. specialize (A eq_refl). lia.
  - destruct (Z.leb_spec (Z.of_nat (length (auto_ids (rds s)))) 0) as [L|G]; [reflexivity|].
    destruct (Hs G) as (A & B & C). rewrite Hd, B, C. cbn.
    destruct (Z.leb_spec (mx s) (trf s)); [reflexivity|lia].
  - rewrite Hf. apply Z.eqb_refl.
  - rewrite Hp. apply Z.eqb_refl.
  - rewrite Hf. destruct (closed s) eqn:Ec; [|reflexivity].
    destruct (i_cl s H Ec) as [_ ->]. reflexivity.
Qed.

Lemma finish_op m s1 t' cs : Inv s1 -> mx s1 = m -> t_pend t' = q s1 -> t_fin t' = closed s1 ->
  t_dn t' = dn s1 -> forallb (fun c : Z * Z * bool => snd c) cs = true ->
  let s2 := sweep s1 in
  Sim m s2 t' /\ trf s2 = trf s1 /\ closed s2 = closed s1 /\
  forallb (fun c : Z * Z * bool => snd c)
    (cs ++ cl_common m t' (trf s2) (chz s2) (Z.of_nat (length (q s2))) (b2z (closed s2))
                     (Z.of_nat (length (auto_ids (rds s2))))) = true.
Proof.
  intros H Hm Hp Hf Hd Hcs. destruct (sweep_ok s1 H) as (A & B & C). cbn zeta in *.
  set (s2 := sweep s1) in *.
  assert (S : Sim m s2 t').
  { unfold Sim. rewrite B. cbn. rewrite <- B. tauto. }
  split; [assumption|]. split; [rewrite B; reflexivity|]. split; [rewrite B; reflexivity|].
  rewrite forallb_app, Hcs. cbn [andb]. now apply common_ok.
Qed.

Lemma word_eqb_refl w : word_eqb w w = true.
Proof. induction w as [|x w IH]; cbn; [reflexivity|]. now rewrite Z.eqb_refl. Qed.

Lemma put_spec s hf fo it :
  (closed s = true /\ put s hf fo it = (s, [0; 1; 0])) \/
  (closed s = false /\ exists ok fc, snd (put s hf fo it) = [ok; 0; fc] /\
     closed (fst (put s hf fo it)) = false /\ dn (fst (put s hf fo it)) = dn s /\
     mx (fst (put s hf fo it)) = mx s /\
     q (fst (put s hf fo it)) =
       if ok =? 1 then match it with Some i => q s ++ [i] | None => q s end else q s).
Proof.
  unfold put. destruct (closed s) eqn:Ec; [left; tauto|right]. split; [reflexivity|].
  destruct (hf && negb fo).
  { exists 0, 1. cbn. rewrite Ec. tauto. }
  destruct it as [i|].
  2:{ exists 1, (b2z hf). cbn. rewrite Ec. tauto. }
  exists 1, (b2z hf).
  destruct (is_thr (fst i)); [destruct (trf s + 1 =? mx s)|]; cbn; tauto.
Qed.

Lemma get_spec s : Inv s ->
  (closed s = true /\ get s = (s, [2; 0; 0])) \/
  (closed s = false /\ q s = [] /\ get s = (s, [0; 0; 0])) \/
  (closed s = false /\ exists k id q', q s = (k, id) :: q' /\ snd (get s) = [1; k; id] /\
     q (fst (get s)) = q' /\ closed (fst (get s)) = false /\ dn (fst (get s)) = dn s /\
     mx (fst (get s)) = mx s).
Proof.
  intros H. pose proof (get_inv s H) as H'. unfold get in *.
  destruct (closed s) eqn:Ec; [left; tauto|right].
  destruct (q s) as [|[k id] q'] eqn:Eq; [left; tauto|right]. split; [reflexivity|].
  exists k, id, q'. split; [reflexivity|]. cbn [fst snd] in *.
  destruct (is_thr k); [|cbn; tauto].
  destruct (trf s =? mx s); [|cbn; tauto].
  destruct (cur s); [cbn; tauto|].
  exfalso. pose proof (i_pan _ H'). cbn in *. discriminate.
Qed.

Lemma op_step_ok m s t op : Sim m s t -> op_wf op = true ->
  exists s' o, op_step s op = Some (s', o) /\ Sim m s' (fst (cl_op m t op o)) /\
               forallb (fun c : Z * Z * bool => snd c) (snd (cl_op m t op o)) = true.
Proof.
  intros (H & Hm & Hp & Hf & Hd) Hw. apply op_wf_shape in Hw.
  pose proof (i_pan s H) as Hpan.
  destruct Hw as [hf fo k id| | | |r|r|r]; unfold op_step; cbn [op_acts].
  - (* put *)
    unfold astep. rewrite Hpan.
    match goal with |- context [put s ?a ?b ?c] => set (it := c) end.
    pose proof (put_inv s (z2b hf) (z2b fo) it H) as H1.
    destruct (put s (z2b hf) (z2b fo) it) as [s1 o] eqn:Ep. cbn [fst] in H1.
    eexists _, _. split; [reflexivity|].
    destruct (put_spec s (z2b hf) (z2b fo) it) as [[Ec E]|[Ec (ok & fc & Eo & Ec1 & Ed1 & Em1 & Eq1)]];
      rewrite Ep in *; cbn [fst snd] in *.
    + inversion E; subst s1 o. cbn [common app cl_op].
      set (t' := if (0 =? 1) && negb (k =? 3) then _ else t).
      assert (Et : t' = t) by reflexivity. rewrite Et. clear t' Et.
      destruct (finish_op m s t [(3, 1, if t_fin t then (0 =? 0) && (1 =? 1) && (0 =? 0) else 1 =? 0)] H Hm Hp Hf Hd)
        as (S & _ & _ & F).
      { cbn. rewrite Hf, Ec. reflexivity. }
      cbn [fst snd]. split; [exact S|exact F].
    + subst o. cbn [common app cl_op].
      set (t' := if (ok =? 1) && negb (k =? 3) then mkt (t_pend t ++ [(k, id)]) (t_fin t) (t_dn t) else t).
      assert (St : t_pend t' = q s1 /\ t_fin t' = closed s1 /\ t_dn t' = dn s1).
      { unfold t', it in *. rewrite Eq1, Ec1, Ed1.
        destruct (ok =? 1), (k =? 3); cbn; rewrite ?Hp, ?Hf, ?Hd, ?Ec; tauto. }
      destruct St as (S1 & S2 & S3).
      destruct (finish_op m s1 t' [(3, 1, if t_fin t then (ok =? 0) && (0 =? 1) && (fc =? 0) else 0 =? 0)]
                          H1 ltac:(congruence) S1 S2 S3) as (S & _ & _ & F).
      { cbn. rewrite Hf, Ec. reflexivity. }
      cbn [fst snd]. split; [exact S|exact F].
  - (* get *)
    unfold astep. rewrite Hpan.
    pose proof (get_inv s H) as H1.
    destruct (get s) as [s1 o] eqn:Eg. cbn [fst] in H1.
    eexists _, _. split; [reflexivity|].
    destruct (get_spec s H) as [[Ec E]|[(Ec & Eq & E)|(Ec & k & id & q' & Eq & Eo & Eq1 & Ec1 & Ed1 & Em1)]];
      rewrite Eg in *; cbn [fst snd] in *.
    + inversion E; subst s1 o. cbn [common app cl_op]. change (2 =? 1) with false. cbv iota.
      destruct (finish_op m s t [(3, 2, if t_fin t then 2 =? 2 else (2 =? 0) || (2 =? 1));
                                 (5, 0, if t_fin t then true else match t_pend t with [] => true | _ => false end)]
                          H Hm Hp Hf Hd) as (S & _ & _ & F).
      { cbn. rewrite Hf, Ec. reflexivity. }
      cbn [fst snd]. split; [exact S|exact F].
    + inversion E; subst s1 o. cbn [common app cl_op]. change (0 =? 1) with false. cbv iota.
      destruct (finish_op m s t [(3, 2, if t_fin t then 0 =? 2 else (0 =? 0) || (0 =? 1));
                                 (5, 0, if t_fin t then true else match t_pend t with [] => true | _ => false end)]
                          H Hm Hp Hf Hd) as (S & _ & _ & F).
      { cbn. rewrite Hf, Ec, Hp, Eq. reflexivity. }
      cbn [fst snd]. split; [exact S|exact F].
    + subst o. cbn [common app cl_op]. change (1 =? 1) with true. cbv iota.
      set (t' := mkt (tl (t_pend t)) (t_fin t) (t_dn t)).
      destruct (finish_op m s1 t'
                  [(3, 2, if t_fin t then 1 =? 2 else (1 =? 0) || (1 =? 1));
                   (5, id, if t_fin t then true else
                           match t_pend t with h :: _ => item_eqb h (k, id) | [] => false end)]
                  H1 ltac:(congruence)) as (S & _ & _ & F).
      { cbn. rewrite Hp, Eq. cbn. congruence. }
      { cbn. congruence. }
      { cbn. congruence. }
      { cbn. rewrite Hf, Ec, Hp, Eq. unfold item_eqb. cbn. now rewrite !Z.eqb_refl. }
      cbn [fst snd]. split; [exact S|exact F].
  - (* finish *)
    unfold astep. rewrite Hpan.
    pose proof (finish_inv s H) as H1. unfold finish in *.
    destruct (closed s) eqn:Ec; cbn [fst] in H1.
    + eexists _, _. split; [reflexivity|]. cbn [common app cl_op].
      destruct (i_cl s H Ec) as [_ Eq].
      destruct (finish_op m s (mkt [] true (t_dn t)) [(4, Z.of_nat (length (@nil Z)), if t_fin t then true else word_eqb [] (hdr_ids (t_pend t)))]
                          H Hm) as (S & _ & _ & F); cbn; try congruence.
      { rewrite Hf. reflexivity. }
      split; [exact S|exact F].
    + eexists _, _. split; [reflexivity|]. cbn [common app cl_op].
      match goal with |- context [sweep ?x] => set (s1 := x) in * end.
      destruct (finish_op m s1 (mkt [] true (t_dn t))
                  [(4, Z.of_nat (length (hdr_ids (q s))),
                    if t_fin t then match hdr_ids (q s) with [] => true | _ => false end
                    else word_eqb (hdr_ids (q s)) (hdr_ids (t_pend t)))]
                  H1) as (S & _ & _ & F); cbn; try congruence.
      { rewrite Hf, Hp, word_eqb_refl. reflexivity. }
      split; [exact S|exact F].
  - (* done *)
    unfold astep. rewrite Hpan.
    eexists _, _. split; [reflexivity|]. cbn [common app cl_op].
    match goal with |- context [sweep ?x] => set (s1 := x) in * end.
    assert (H1 : Inv s1) by (pose proof (astep_inv s ADone H) as X; unfold astep in X; rewrite Hpan in X; exact X).
    destruct (finish_op m s1 (mkt (t_pend t) (t_fin t) true) [] H1) as (S & _ & _ & F); cbn; try congruence.
    split; [exact S|exact F].
  - (* real throttle() goroutine *)
    pose proof (astep_inv s (ALoad r true) H) as H1.
    destruct (astep s (ALoad r true)) as [s1 o] eqn:Ea. cbn [fst] in H1.
    assert (Es : (o = [0] \/ o = [1]) /\ mx s1 = mx s /\ q s1 = q s /\ closed s1 = closed s /\ dn s1 = dn s).
    { unfold astep in Ea. rewrite Hpan in Ea. destruct (lookup r (rds s)); inversion Ea; subst; cbn; tauto. }
    destruct Es as (Eo & E1 & E2 & E3 & E4).
    eexists _, _. split; [reflexivity|].
    destruct (finish_op m s1 t [] H1) as (S & _ & _ & F); try congruence; try reflexivity.
    destruct Eo as [-> | ->]; cbn [common app cl_op fst snd]; (split; [exact S|exact F]).
  - (* load only *)
    pose proof (astep_inv s (ALoad r false) H) as H1.
    destruct (astep s (ALoad r false)) as [s1 o] eqn:Ea. cbn [fst] in H1.
    assert (Es : (o = [0] \/ o = [1]) /\ mx s1 = mx s /\ q s1 = q s /\ closed s1 = closed s /\ dn s1 = dn s).
    { unfold astep in Ea. rewrite Hpan in Ea. destruct (lookup r (rds s)); inversion Ea; subst; cbn; tauto. }
    destruct Es as (Eo & E1 & E2 & E3 & E4).
    eexists _, _. split; [reflexivity|].
    destruct (finish_op m s1 t [] H1) as (S & _ & _ & F); try congruence; try reflexivity.
    destruct Eo as [-> | ->]; cbn [common app cl_op fst snd]; (split; [exact S|exact F]).
  - (* receive attempt of a split reader *)
    assert (Hdef : forall s2 : st, s2 = sweep s ->
              exists (s' : st) (o : word), Some (s2, common s2 ++ [2]) = Some (s', o) /\
                Sim m s' (fst (cl_op m t [7; r] o)) /\
                forallb (fun c : Z * Z * bool => snd c) (snd (cl_op m t [7; r] o)) = true).
    { intros s2 ->. eexists _, _. split; [reflexivity|]. cbn [common app cl_op].
      destruct (finish_op m s t [(2, r, negb (2 =? 0) || ((m <=? trf (sweep s)) && (b2z (closed (sweep s)) =? 0) && negb (t_dn t)))]
                          H Hm Hp Hf Hd) as (S & _ & _ & F); [reflexivity|].
      split; [exact S|exact F]. }
    destruct (lookup r (rds s)) as [[[|] og]|] eqn:El; try (apply Hdef; reflexivity).
    unfold astep. rewrite Hpan.
    pose proof (wait_inv s r H) as H1.
    pose proof (wait_core s r) as Hc.
    pose proof (wait_out s r) as Hwo. pose proof (wait_blocked_iff s r) as Hwb.
    destruct (wait s r) as [s1 o] eqn:Ew. cbn [fst snd] in *.
    eexists _, _. split; [reflexivity|].
    assert (Eo : o = [0] /\ blocked s r \/ o = [1]).
    { destruct Hwo as [B|[R|[_ N]]].
      - left. split; [assumption|]. now apply Hwb.
      - right. assumption.
      - congruence. }
    assert (Ef : mx s1 = mx s /\ q s1 = q s /\ closed s1 = closed s /\ dn s1 = dn s /\ trf s1 = trf s).
    { rewrite Hc. cbn. tauto. }
    destruct Ef as (E1 & E2 & E3 & E4 & E5).
    destruct Eo as [[-> Hb]| ->]; cbn [common app cl_op].
    + destruct (blocked_full s r H Hb) as (B1 & B2 & B3).
      destruct (finish_op m s1 t [(2, r, negb (0 =? 0) || ((m <=? trf (sweep s1)) && (b2z (closed (sweep s1)) =? 0) && negb (t_dn t)))]
                          H1) as (S & _ & _ & F); try congruence.
      { destruct (sweep_ok s1 H1) as (_ & B & _). cbn zeta in B. rewrite B. cbn.
        rewrite E5, E3, B2, Hd, B3. cbn. destruct (Z.leb_spec m (trf s)); [reflexivity|lia]. }
      split; [exact S|exact F].
    + destruct (finish_op m s1 t [(2, r, negb (1 =? 0) || ((m <=? trf (sweep s1)) && (b2z (closed (sweep s1)) =? 0) && negb (t_dn t)))]
                          H1) as (S & _ & _ & F); try congruence; try reflexivity.
      split; [exact S|exact F].
Qed.

Lemma go_holds m : forall ops s t, Sim m s t -> forallb op_wf ops = true ->
  exists obs, go s ops = Some obs /\
              forallb (fun c : Z * Z * bool => snd c) (cl_go m t ops obs) = true.
Proof.
  induction ops as [|op ops IH]; cbn [go cl_go forallb]; intros s t S Hw.
  - exists []. split; reflexivity.
  - apply andb_true_iff in Hw as [Hop Hr].
    destruct (op_step_ok m s t op S Hop) as (s' & o & E & S' & F). rewrite E.
    destruct (IH s' _ S' Hr) as (obs & G & C). rewrite G.
    exists (o :: obs). split; [reflexivity|]. cbn [cl_go].
    destruct (cl_op m t op o) as [t' cs]. cbn [fst snd] in *. now rewrite forallb_app, F, C.
Qed.

Theorem model_trace_holds m ops : 1 <= m -> forallb op_wf ops = true ->
  exists obs, run [m] ops = Some obs /\ holds_b [m] ops obs = true.
Proof.
  intros Hm Hw. unfold run, holds_b, clauses.
  apply go_holds; [|assumption]. unfold Sim. cbn. split; [now apply init_inv|tauto].
Qed.

(* every state the case runner passes through is reached by atomic steps only *)
Lemma op_step_reach s op s' o : op_step s op = Some (s', o) -> exists acts, s' = exec s acts.
Proof.
  unfold op_step. destruct (op_acts s op) as [[[|a [|b l]] fl]|]; try discriminate.
  - intros E. inversion E; subst. exists (map AWait (auto_ids (rds s))). reflexivity.
  - destruct (astep s a) as [s1 o1] eqn:Ea. intros E. inversion E; subst.
    exists (a :: map AWait (auto_ids (rds s1))). rewrite exec_cons, Ea. reflexivity.
  - intros E. inversion E; subst. exists (map AWait (auto_ids (rds s))). reflexivity.
Qed.

(* race mode: the model's observation (no violation) satisfies the race clauses *)
Definition race_wf (op : word) : bool := match op with [8; _; _] => true | _ => false end.

Theorem race_trace_holds m ops : forallb race_wf ops = true ->
  exists obs, run [m; 1] ops = Some obs /\ holds_b [m; 1] ops obs = true.
Proof.
  unfold run, holds_b, clauses. induction ops as [|op ops IH]; cbn [forallb race_go race_cl_go]; intros Hw.
  - exists []. split; reflexivity.
  - apply andb_true_iff in Hw as [Hop Hr]. destruct (IH Hr) as (obs & G & C).
    assert (E : exists a b, op = [8; a; b]).
    { destruct op as [|x l]; [discriminate|]. destruct x as [|p|p]; try discriminate Hop.
      destruct p as [[[[p|p|]|[p|p|]|]|[[p|p|]|[p|p|]|]|]|[[[p|p|]|[p|p|]|]|[[p|p|]|[p|p|]|]|]|]; try discriminate Hop;
        destruct l as [|a [|b [|c l]]]; try discriminate Hop; eauto. }
    destruct E as (a & b & ->). cbn [race_obs]. rewrite G. exists ([0; 0; 0; 0] :: obs).
    split; [reflexivity|]. cbn [race_cl_go race_cl app forallb snd]. cbn. exact C.
Qed.
