From Coq Require Import List ZArith Bool Lia.
From VLib Require Import Codec Machine.
From VModel Require Import PctEnc.
Import ListNotations.
Open Scope Z_scope.

(* ---------- bytes, hex digits ---------- *)

Lemma is_byte_spec b : is_byte b = true <-> 0 <= b <= 255.
Proof. unfold is_byte. rewrite andb_true_iff, !Z.leb_le. tauto. Qed.

Lemma printable_spec b : printable b = true <-> 32 <= b <= 126.
Proof. unfold printable. rewrite andb_true_iff, !Z.leb_le. tauto. Qed.

Lemma safe_spec b : safe b = true <-> 32 <= b <= 126 /\ b <> 37.
Proof.
  unfold safe. rewrite !andb_true_iff, !Z.leb_le, negb_true_iff, Z.eqb_neq. tauto.
Qed.

Lemma hexdig_hexval d : 0 <= d < 16 -> hexval (hexdig d) = Some d /\ 48 <= hexdig d <= 70.
Proof.
  intros H. unfold hexdig, hexval.
  destruct (Z.ltb_spec d 10).
  - destruct (Z.leb_spec 48 (48 + d)); [|lia]. destruct (Z.leb_spec (48 + d) 57); [|lia].
    cbn [andb]. split; [f_equal|]; lia.
  - destruct (Z.leb_spec 48 (55 + d)); [|lia]. destruct (Z.leb_spec (55 + d) 57); [lia|].
    destruct (Z.leb_spec 65 (55 + d)); [|lia]. destruct (Z.leb_spec (55 + d) 70); [|lia].
    cbn [andb]. split; [f_equal|]; lia.
Qed.

Lemma byte_nibbles b : 0 <= b <= 255 -> 0 <= b / 16 < 16 /\ 0 <= b mod 16 < 16 /\ 16 * (b / 16) + b mod 16 = b.
Proof. intros H. Z.div_mod_to_equations. lia. Qed.

Lemma decodeU_pct b rest : 0 <= b <= 255 -> decodeU (pct b ++ rest) = b :: decodeU rest.
Proof.
  intros H. destruct (byte_nibbles b H) as (Hh & Hl & Hs).
  destruct (hexdig_hexval _ Hh) as [E1 _]. destruct (hexdig_hexval _ Hl) as [E2 _].
  unfold pct. cbn [app decodeU]. rewrite Z.eqb_refl, E1, E2. f_equal. exact Hs.
Qed.

Lemma decodeU_other b rest : b <> 37 -> decodeU (b :: rest) = b :: decodeU rest.
Proof. intros H. cbn [decodeU]. apply Z.eqb_neq in H. rewrite H. reflexivity. Qed.

Lemma decodeU_pcts bs rest : forallb is_byte bs = true ->
  decodeU (flat_map pct bs ++ rest) = bs ++ decodeU rest.
Proof.
  induction bs as [|b bs IH]; intros H; [reflexivity|].
  cbn [forallb] in H. apply andb_true_iff in H as [Hb Hbs]. apply is_byte_spec in Hb.
  cbn [flat_map]. rewrite <- app_assoc, decodeU_pct by assumption.
  rewrite IH by assumption. reflexivity.
Qed.

Lemma pct_printable b : 0 <= b <= 255 -> forallb printable (pct b) = true.
Proof.
  intros H. destruct (byte_nibbles b H) as (Hh & Hl & _).
  destruct (hexdig_hexval _ Hh) as [_ R1]. destruct (hexdig_hexval _ Hl) as [_ R2].
  unfold pct. cbn [forallb]. rewrite !andb_true_iff. repeat split; try reflexivity;
    apply printable_spec; lia.
Qed.

(* ---------- re-encoding of a decoded rune, from the bit-level definition ---------- *)

Lemma reenc2 s0 s1 : 194 <= s0 <= 223 -> 128 <= s1 <= 191 ->
  let r := 64 * (s0 mod 32) + s1 mod 64 in
  128 <= r <= 2047 /\ encode_rune r = [s0; s1].
Proof.
  intros H0 H1 r.
  assert (Hr: 128 <= r <= 2047 /\ 192 + r / 64 = s0 /\ 128 + r mod 64 = s1)
    by (subst r; Z.div_mod_to_equations; lia).
  destruct Hr as (Hr & E0 & E1). split; [exact Hr|].
  unfold encode_rune. destruct (Z.leb_spec r 127); [lia|]. destruct (Z.leb_spec r 2047); [|lia].
  rewrite E0, E1. reflexivity.
Qed.

Lemma reenc3 s0 s1 s2 : 224 <= s0 <= 239 -> acc_lo s0 <= s1 <= acc_hi s0 ->
  128 <= s2 <= 191 ->
  let r := 4096 * (s0 mod 16) + 64 * (s1 mod 64) + s2 mod 64 in
  2048 <= r <= 65535 /\ ~ (55296 <= r <= 57343) /\ encode_rune r = [s0; s1; s2].
Proof.
  intros H0 H1 H2 r.
  assert (Hr: 2048 <= r <= 65535 /\ ~ (55296 <= r <= 57343) /\
              224 + r / 4096 = s0 /\ 128 + (r / 64) mod 64 = s1 /\ 128 + r mod 64 = s2).
  { subst r. unfold acc_lo, acc_hi in H1.
    destruct (Z.eqb_spec s0 224); destruct (Z.eqb_spec s0 240); destruct (Z.eqb_spec s0 237);
      destruct (Z.eqb_spec s0 244); try lia; Z.div_mod_to_equations; lia. }
  destruct Hr as (Hr & Hs & E0 & E1 & E2). split; [exact Hr|]. split; [exact Hs|].
  unfold encode_rune. destruct (Z.leb_spec r 127); [lia|]. destruct (Z.leb_spec r 2047); [lia|].
  destruct (Z.ltb_spec 1114111 r); [lia|].
  destruct (Z.leb_spec 55296 r); destruct (Z.leb_spec r 57343); try lia; cbn [andb orb];
    (destruct (Z.leb_spec r 65535); [|lia]); unfold enc3; rewrite E0, E1, E2; reflexivity.
Qed.

Lemma reenc4 s0 s1 s2 s3 : 240 <= s0 <= 244 -> acc_lo s0 <= s1 <= acc_hi s0 ->
  128 <= s2 <= 191 -> 128 <= s3 <= 191 ->
  let r := 262144 * (s0 mod 8) + 4096 * (s1 mod 64) + 64 * (s2 mod 64) + s3 mod 64 in
  65536 <= r <= 1114111 /\ encode_rune r = [s0; s1; s2; s3].
Proof.
  intros H0 H1 H2 H3 r.
  assert (Hr: 65536 <= r <= 1114111 /\
              240 + r / 262144 = s0 /\ 128 + (r / 4096) mod 64 = s1 /\
              128 + (r / 64) mod 64 = s2 /\ 128 + r mod 64 = s3).
  { subst r. unfold acc_lo, acc_hi in H1.
    destruct (Z.eqb_spec s0 224); destruct (Z.eqb_spec s0 240); destruct (Z.eqb_spec s0 237);
      destruct (Z.eqb_spec s0 244); try lia; Z.div_mod_to_equations; lia. }
  destruct Hr as (Hr & E0 & E1 & E2 & E3). split; [exact Hr|].
  unfold encode_rune. destruct (Z.leb_spec r 127); [lia|]. destruct (Z.leb_spec r 2047); [lia|].
  destruct (Z.ltb_spec 1114111 r); [lia|].
  destruct (Z.leb_spec 55296 r); destruct (Z.leb_spec r 57343); try lia; cbn [andb orb];
    (destruct (Z.leb_spec r 65535); [lia|]); rewrite E0, E1, E2, E3; reflexivity.
Qed.

(* ---------- what DecodeRune returns on a non-empty byte string ---------- *)

Definition is_scalar (r : Z) : Prop := 0 <= r <= 1114111 /\ ~ (55296 <= r <= 57343).

Definition rune_class (s : list Z) (r size : Z) : Prop :=
  (size = 1 /\ 0 <= r < 128 /\ exists t, s = r :: t)
  \/ (size = 1 /\ r = rune_error)
  \/ (2 <= size <= 4 /\ is_scalar r /\
      (size = 2 -> 128 <= r <= 2047) /\ (size = 3 -> 2048 <= r <= 65535) /\
      (size = 4 -> 65536 <= r) /\
      encode_rune r = firstn (Z.to_nat size) s /\ (Z.to_nat size <= length s)%nat).

Lemma acc_default s0 : s0 <> 224 -> s0 <> 240 -> s0 <> 237 -> s0 <> 244 ->
  acc_lo s0 = 128 /\ acc_hi s0 = 191.
Proof.
  intros. unfold acc_lo, acc_hi.
  destruct (Z.eqb_spec s0 224); destruct (Z.eqb_spec s0 240); destruct (Z.eqb_spec s0 237);
    destruct (Z.eqb_spec s0 244); try lia; split; reflexivity.
Qed.

Lemma is_cont_spec b : is_cont b = true <-> 128 <= b <= 191.
Proof. unfold is_cont. rewrite andb_true_iff, !Z.leb_le. tauto. Qed.

Lemma decode_rune_cases s0 t r size :
  forallb is_byte (s0 :: t) = true -> decode_rune (s0 :: t) = (r, size) ->
  rune_class (s0 :: t) r size.
Proof.
  intros Hb H. cbn [forallb] in Hb. apply andb_true_iff in Hb as [Hb0 _].
  apply is_byte_spec in Hb0. unfold decode_rune in H.
  assert (Herr: forall (P : Prop), (rune_error, 1) = (r, size) -> rune_class (s0 :: t) r size).
  { intros _ E. inversion E; subst. right; left. split; reflexivity. }
  destruct (Z.ltb_spec s0 128).
  { inversion H; subst. left. split; [reflexivity|]. split; [lia|]. eexists; reflexivity. }
  destruct ((s0 <? 194) || (244 <? s0)) eqn:E1; [apply (Herr True), H|].
  apply orb_false_iff in E1 as [Ea Eb]. apply Z.ltb_ge in Ea, Eb.
  destruct (Z.ltb_spec s0 224).
  - destruct t as [|s1 t']; [apply (Herr True), H|].
    destruct ((s1 <? acc_lo s0) || (acc_hi s0 <? s1)) eqn:E2; [apply (Herr True), H|].
    apply orb_false_iff in E2 as [Ec Ed]. apply Z.ltb_ge in Ec, Ed.
    destruct (acc_default s0) as [Al Ah]; try lia. rewrite Al in Ec. rewrite Ah in Ed.
    destruct (reenc2 s0 s1 ltac:(lia) ltac:(lia)) as [Hr He].
    apply pair_equal_spec in H. destruct H as [<- <-]. right; right.
    split; [lia|]. split; [unfold is_scalar; lia|]. repeat split; try lia.
    + exact He.
    + cbn. lia.
  - destruct (Z.ltb_spec s0 240).
    + destruct t as [|s1 [|s2 t']]; try (apply (Herr True), H).
      destruct ((s1 <? acc_lo s0) || (acc_hi s0 <? s1)) eqn:E2; [apply (Herr True), H|].
      apply orb_false_iff in E2 as [Ec Ed]. apply Z.ltb_ge in Ec, Ed.
      destruct (is_cont s2) eqn:E3; cbn [negb] in H; [|apply (Herr True), H].
      apply is_cont_spec in E3.
      destruct (reenc3 s0 s1 s2 ltac:(lia) ltac:(lia) E3) as (Hr & Hs & He).
      apply pair_equal_spec in H. destruct H as [<- <-]. right; right.
      split; [lia|]. split; [unfold is_scalar; lia|]. repeat split; try lia.
      * exact He.
      * cbn. lia.
    + destruct t as [|s1 [|s2 [|s3 t']]]; try (apply (Herr True), H).
      destruct ((s1 <? acc_lo s0) || (acc_hi s0 <? s1)) eqn:E2; [apply (Herr True), H|].
      apply orb_false_iff in E2 as [Ec Ed]. apply Z.ltb_ge in Ec, Ed.
      destruct (is_cont s2) eqn:E3; cbn [negb] in H; [|apply (Herr True), H].
      destruct (is_cont s3) eqn:E4; cbn [negb] in H; [|apply (Herr True), H].
      apply is_cont_spec in E3, E4.
      destruct (reenc4 s0 s1 s2 s3 ltac:(lia) ltac:(lia) E3 E4) as (Hr & He).
      apply pair_equal_spec in H. destruct H as [<- <-]. right; right.
      split; [lia|]. split; [unfold is_scalar; lia|]. repeat split; try lia.
      * exact He.
      * cbn. lia.
Qed.

Lemma rune_class_size s r size : rune_class s r size -> 1 <= size <= 4.
Proof. intros [H|[H|H]]; lia. Qed.

Lemma rune_class_invalid s r size : rune_class s r size ->
  invalid_at r size = true <-> (size = 1 /\ r = rune_error).
Proof.
  intros H. unfold invalid_at. rewrite andb_true_iff, !Z.eqb_eq. tauto.
Qed.

Lemma skipn_length_lt {A} n (l : list A) : (1 <= n)%nat -> l <> [] ->
  (length (skipn n l) < length l)%nat.
Proof. intros Hn Hl. rewrite skipn_length. destruct l; [congruence|cbn [length]; lia]. Qed.

Lemma forallb_firstn {A} (f : A -> bool) n l : forallb f l = true -> forallb f (firstn n l) = true.
Proof.
  revert l; induction n as [|n IH]; intros [|x l] H; cbn in *; try reflexivity.
  apply andb_true_iff in H as [Hx Hl]. rewrite Hx. apply IH, Hl.
Qed.

Lemma forallb_skipn {A} (f : A -> bool) n l : forallb f l = true -> forallb f (skipn n l) = true.
Proof.
  revert l; induction n as [|n IH]; intros [|x l] H; cbn in *; try reflexivity; try assumption.
  apply andb_true_iff in H as [Hx Hl]. apply IH, Hl.
Qed.

(* ---------- one loop iteration: decode undoes it, output printable ---------- *)

Definition san_chunk (m : list Z) (r size : Z) : list Z :=
  if invalid_at r size then fffd else firstn (Z.to_nat size) m.

Lemma chunk_roundtrip m r size rest :
  forallb is_byte m = true -> rune_class m r size ->
  decodeU (enc_chunk r size ++ rest) = san_chunk m r size ++ decodeU rest.
Proof.
  intros Hb Hc. unfold enc_chunk, san_chunk.
  destruct Hc as [(Hs & Hr & t & ->)|[(Hs & Hr)|(Hs & Hsc & _ & _ & _ & He & Hl)]].
  - subst size. assert (invalid_at r 1 = false) as ->.
    { unfold invalid_at, rune_error. destruct (Z.eqb_spec r 65533); [lia|reflexivity]. }
    unfold encode_rune. destruct (Z.leb_spec r 127); [|lia].
    cbn [flat_map Z.ltb Z.compare Pos.compare Pos.compare_cont firstn Z.to_nat Pos.to_nat Pos.iter_op Nat.add app].
    destruct (safe r) eqn:Es.
    + apply safe_spec in Es. cbn [app]. apply decodeU_other. lia.
    + rewrite app_nil_r. apply decodeU_pct. lia.
  - subst size r. reflexivity.
  - assert (invalid_at r size = false) as ->.
    { unfold invalid_at. destruct (Z.eqb_spec size 1); [lia|]. apply andb_false_r. }
    rewrite He. destruct (Z.ltb_spec 1 size); [|lia].
    assert (Hf: forall l, flat_map (fun b => pct b) l = flat_map pct l) by reflexivity.
    rewrite Hf. apply decodeU_pcts. apply forallb_firstn, Hb.
Qed.

Lemma chunk_printable m r size :
  forallb is_byte m = true -> rune_class m r size ->
  forallb printable (enc_chunk r size) = true.
Proof.
  intros Hb Hc. unfold enc_chunk.
  destruct Hc as [(Hs & Hr & t & ->)|[(Hs & Hr)|(Hs & Hsc & _ & _ & _ & He & Hl)]].
  - subst size. unfold encode_rune. destruct (Z.leb_spec r 127); [|lia].
    cbn [flat_map Z.ltb Z.compare Pos.compare Pos.compare_cont app]. rewrite app_nil_r.
    destruct (safe r) eqn:Es.
    + apply safe_spec in Es. cbn [forallb]. rewrite andb_true_r. apply printable_spec. lia.
    + apply pct_printable. lia.
  - subst size r. reflexivity.
  - rewrite He. destruct (Z.ltb_spec 1 size); [|lia].
    assert (Hf: forallb is_byte (firstn (Z.to_nat size) m) = true) by (apply forallb_firstn, Hb).
    clear He.
    induction (firstn (Z.to_nat size) m) as [|b l IH]; [reflexivity|].
    cbn [forallb] in Hf. apply andb_true_iff in Hf as [Hb1 Hl1]. apply is_byte_spec in Hb1.
    cbn [flat_map]. rewrite forallb_app, pct_printable by assumption. apply IH, Hl1.
Qed.

(* ---------- the loops ---------- *)

Lemma encodeU_roundtrip fuel : forall m, forallb is_byte m = true -> (length m <= fuel)%nat ->
  decodeU (encodeU fuel m) = sanitize_f fuel m.
Proof.
  induction fuel as [|f IH]; intros m Hb Hl.
  - destruct m; [reflexivity|cbn in Hl; lia].
  - destruct m as [|s0 t]; [reflexivity|].
    cbn [encodeU sanitize_f]. destruct (decode_rune (s0 :: t)) as [r size] eqn:Ed.
    pose proof (decode_rune_cases s0 t r size Hb Ed) as Hc.
    pose proof (rune_class_size _ _ _ Hc) as Hsz.
    rewrite (chunk_roundtrip (s0 :: t) r size _ Hb Hc). unfold san_chunk. f_equal.
    apply IH; [apply forallb_skipn, Hb|].
    assert ((length (skipn (Z.to_nat size) (s0 :: t)) < length (s0 :: t))%nat)
      by (apply skipn_length_lt; [lia|discriminate]).
    lia.
Qed.

Lemma encodeU_printable fuel : forall m, forallb is_byte m = true ->
  forallb printable (encodeU fuel m) = true.
Proof.
  induction fuel as [|f IH]; intros m Hb; [reflexivity|].
  destruct m as [|s0 t]; [reflexivity|].
  cbn [encodeU]. destruct (decode_rune (s0 :: t)) as [r size] eqn:Ed.
  pose proof (decode_rune_cases s0 t r size Hb Ed) as Hc.
  rewrite forallb_app, (chunk_printable (s0 :: t) r size Hb Hc). cbn [andb].
  apply IH, forallb_skipn, Hb.
Qed.

Lemma sanitize_valid fuel : forall m, forallb is_byte m = true -> (length m <= fuel)%nat ->
  valid_f fuel m = true -> sanitize_f fuel m = m.
Proof.
  induction fuel as [|f IH]; intros m Hb Hl Hv.
  - destruct m; [reflexivity|cbn in Hl; lia].
  - destruct m as [|s0 t]; [reflexivity|].
    cbn [valid_f sanitize_f] in *. destruct (decode_rune (s0 :: t)) as [r size] eqn:Ed.
    pose proof (decode_rune_cases s0 t r size Hb Ed) as Hc.
    pose proof (rune_class_size _ _ _ Hc) as Hsz.
    apply andb_true_iff in Hv as [Hi Hv]. apply negb_true_iff in Hi. rewrite Hi.
    rewrite IH; [apply firstn_skipn|apply forallb_skipn, Hb| |exact Hv].
    assert ((length (skipn (Z.to_nat size) (s0 :: t)) < length (s0 :: t))%nat)
      by (apply skipn_length_lt; [lia|discriminate]).
    lia.
Qed.

(* ---------- wrappers ---------- *)

Lemma has_pct_false s : has_pct s = false -> decodeU s = s.
Proof.
  induction s as [|c r IH]; intros H; [reflexivity|].
  cbn [has_pct] in H. apply orb_false_iff in H as [H1 H2]. specialize (IH H2).
  cbn [decodeU]. destruct (Z.eqb_spec c 37) as [->|N]; [|rewrite IH; reflexivity].
  cbn [andb] in H1. apply Z.leb_gt in H1.
  destruct r as [|x [|y r']]; [reflexivity|rewrite IH; reflexivity|cbn [length] in H1; lia].
Qed.

Lemma decode_eq s : decode s = decodeU s.
Proof.
  unfold decode. destruct (has_pct s) eqn:E; [reflexivity|]. symmetry. apply has_pct_false, E.
Qed.

Lemma safe_all_valid fuel : forall m, forallb safe m = true -> sanitize_f fuel m = firstn fuel m.
Proof.
  induction fuel as [|f IH]; intros m H; [reflexivity|].
  destruct m as [|s0 t]; [reflexivity|].
  cbn [forallb] in H. apply andb_true_iff in H as [H0 Ht]. apply safe_spec in H0.
  cbn [sanitize_f]. unfold decode_rune. destruct (Z.ltb_spec s0 128); [|lia].
  unfold invalid_at, rune_error. destruct (Z.eqb_spec s0 65533); [lia|]. cbn [andb].
  cbn [Z.to_nat Pos.to_nat Pos.iter_op Nat.add firstn skipn app]. rewrite IH by assumption.
  reflexivity.
Qed.

Lemma safe_no_pct m : forallb safe m = true -> has_pct m = false.
Proof.
  induction m as [|c r IH]; intros H; [reflexivity|].
  cbn [forallb] in H. apply andb_true_iff in H as [H0 Ht]. apply safe_spec in H0.
  cbn [has_pct]. rewrite IH by assumption. destruct (Z.eqb_spec c 37); [lia|reflexivity].
Qed.

Lemma safe_printable m : forallb safe m = true -> forallb printable m = true.
Proof.
  induction m as [|c r IH]; intros H; [reflexivity|].
  cbn [forallb] in *. apply andb_true_iff in H as [H0 Ht]. apply safe_spec in H0.
  rewrite IH by assumption. rewrite andb_true_r. apply printable_spec. lia.
Qed.

Theorem encode_printable m : forallb is_byte m = true -> forallb printable (encode m) = true.
Proof.
  intros Hb. unfold encode. destruct (forallb safe m) eqn:E.
  - apply safe_printable, E.
  - apply encodeU_printable, Hb.
Qed.

Theorem roundtrip_any m : forallb is_byte m = true -> decode (encode m) = sanitize m.
Proof.
  intros Hb. rewrite decode_eq. unfold encode, sanitize. destruct (forallb safe m) eqn:E.
  - rewrite safe_all_valid, firstn_all by assumption. apply has_pct_false, safe_no_pct, E.
  - apply encodeU_roundtrip; [exact Hb|lia].
Qed.

Theorem sanitize_valid_id m : forallb is_byte m = true -> valid_utf8 m = true -> sanitize m = m.
Proof. intros Hb Hv. apply sanitize_valid; [exact Hb|lia|exact Hv]. Qed.

Theorem roundtrip_valid m : forallb is_byte m = true -> valid_utf8 m = true ->
  decode (encode m) = m.
Proof. intros Hb Hv. rewrite roundtrip_any by assumption. apply sanitize_valid_id; assumption. Qed.

(* ---------- decoding arbitrary values ---------- *)

Lemma hexval_range c a : hexval c = Some a -> 0 <= a < 16.
Proof.
  unfold hexval.
  destruct ((48 <=? c) && (c <=? 57)) eqn:E1.
  { apply andb_true_iff in E1 as [A B]. apply Z.leb_le in A, B. intros H; inversion H; lia. }
  destruct ((65 <=? c) && (c <=? 70)) eqn:E2.
  { apply andb_true_iff in E2 as [A B]. apply Z.leb_le in A, B. intros H; inversion H; lia. }
  destruct ((97 <=? c) && (c <=? 102)) eqn:E3; [|discriminate].
  apply andb_true_iff in E3 as [A B]. apply Z.leb_le in A, B. intros H; inversion H; lia.
Qed.

Lemma count_pct_nonneg s : 0 <= count_pct s.
Proof. induction s as [|c r IH]; cbn [count_pct]; [lia|]. destruct (c =? 37); lia. Qed.

(* decodeU either copies a byte or replaces "%XY" (X, Y hex digits) by one byte *)
Definition dec_facts (s : list Z) : Prop :=
  exists k, 0 <= k <= count_pct s /\
    Z.of_nat (length s) = Z.of_nat (length (decodeU s)) + 2 * k /\
    forallb is_byte (decodeU s) = true /\ (count_pct s = 0 -> decodeU s = s).

Lemma decodeU_facts n : forall s, (length s <= n)%nat -> forallb is_byte s = true -> dec_facts s.
Proof.
  induction n as [|n IH]; intros s Hl Hb.
  - destruct s; [|cbn in Hl; lia]. exists 0. cbn. repeat split; try lia; reflexivity.
  - destruct s as [|c r].
    { exists 0. cbn. repeat split; try lia; reflexivity. }
    cbn [length] in Hl. cbn [forallb] in Hb. apply andb_true_iff in Hb as [Hc Hr].
    assert (Hcopy: dec_facts r -> decodeU (c :: r) = c :: decodeU r -> dec_facts (c :: r)).
    { intros (k & Hk & Hlen & Hby & Hid) E. exists k. rewrite E. cbn [count_pct length forallb].
      rewrite Hc, Hby. pose proof (count_pct_nonneg r).
      repeat split; try (destruct (c =? 37); lia); try lia.
      intros H0. destruct (Z.eqb_spec c 37); [lia|]. rewrite Hid by lia. reflexivity. }
    pose proof (IH r ltac:(lia) Hr) as Fr.
    destruct (Z.eqb_spec c 37) as [->|N]; [|apply Hcopy; [exact Fr|apply decodeU_other, N]].
    destruct r as [|x [|y r']]; try (apply Hcopy; [exact Fr|reflexivity]).
    destruct (hexval x) as [a|] eqn:Ex; [|apply Hcopy; [exact Fr|cbn [decodeU]; rewrite Z.eqb_refl, Ex; reflexivity]].
    destruct (hexval y) as [b|] eqn:Ey; [|apply Hcopy; [exact Fr|cbn [decodeU]; rewrite Z.eqb_refl, Ex, Ey; reflexivity]].
    cbn [forallb] in Hr. apply andb_true_iff in Hr as [_ Hr]. apply andb_true_iff in Hr as [_ Hr'].
    cbn [length] in Hl.
    destruct (IH r' ltac:(lia) Hr') as (k & Hk & Hlen & Hby & _).
    pose proof (hexval_range _ _ Ex) as Ra. pose proof (hexval_range _ _ Ey) as Rb.
    exists (k + 1). cbn [decodeU]. rewrite Z.eqb_refl, Ex, Ey.
    cbn [count_pct length forallb]. rewrite Z.eqb_refl, Hby.
    pose proof (count_pct_nonneg r').
    assert (is_byte (16 * a + b) = true) as -> by (apply is_byte_spec; lia).
    repeat split; try (destruct (x =? 37); destruct (y =? 37); lia); try lia.
Qed.

(* readable step equations of the decoder *)
Lemma decodeU_escape x y a b r : hexval x = Some a -> hexval y = Some b ->
  decodeU (37 :: x :: y :: r) = (16 * a + b) :: decodeU r.
Proof. intros Ex Ey. cbn [decodeU]. rewrite Z.eqb_refl, Ex, Ey. reflexivity. Qed.

Lemma decodeU_literal_pct r :
  (length r < 2)%nat \/ (exists x y r', r = x :: y :: r' /\ (hexval x = None \/ hexval y = None)) ->
  decodeU (37 :: r) = 37 :: decodeU r.
Proof.
  intros [H|(x & y & r' & -> & H)].
  - destruct r as [|x [|y r']]; try reflexivity. cbn in H. lia.
  - cbn [decodeU]. rewrite Z.eqb_refl. destruct H as [-> | ->]; [reflexivity|].
    destruct (hexval x); reflexivity.
Qed.

(* ---------- the decoder accepts exactly the encodings of scalar values ---------- *)

Ltac b2z := repeat match goal with
  | H : (_ <? _) = true |- _ => apply Z.ltb_lt in H
  | H : (_ <? _) = false |- _ => apply Z.ltb_ge in H
  | H : (_ <=? _) = true |- _ => apply Z.leb_le in H
  | H : (_ <=? _) = false |- _ => apply Z.leb_gt in H
  | H : (_ =? _) = true |- _ => apply Z.eqb_eq in H
  | H : (_ =? _) = false |- _ => apply Z.eqb_neq in H
  | H : (_ || _) = true |- _ => apply orb_true_iff in H; destruct H
  | H : (_ || _) = false |- _ => apply orb_false_iff in H; destruct H
  | H : (_ && _) = true |- _ => apply andb_true_iff in H; destruct H
  | H : (_ && _) = false |- _ => apply andb_false_iff in H; destruct H
  | H : negb _ = true |- _ => apply negb_true_iff in H
  | H : negb _ = false |- _ => apply negb_false_iff in H
  end.

Ltac split_ifs := repeat match goal with
  | |- context [if ?c then _ else _] => destruct c eqn:?
  | H : context [if ?c then _ else _] |- _ => destruct c eqn:?
  end.

Ltac finish_dec := first [ exfalso; lia | apply pair_equal_spec; split; [|reflexivity]; Z.div_mod_to_equations; lia ].

Lemma dec2 q m rest : 2 <= q <= 31 -> 0 <= m < 64 ->
  decode_rune (192 + q :: 128 + m :: rest) = (64 * q + m, 2).
Proof.
  intros Hq Hm. unfold decode_rune, acc_lo, acc_hi. split_ifs; b2z; finish_dec.
Qed.

Lemma dec3 q m1 m2 rest : 0 <= q <= 15 -> 0 <= m1 < 64 -> 0 <= m2 < 64 ->
  (q = 0 -> 32 <= m1) -> (q = 13 -> m1 < 32) ->
  decode_rune (224 + q :: 128 + m1 :: 128 + m2 :: rest) = (4096 * q + 64 * m1 + m2, 3).
Proof.
  intros Hq Hm1 Hm2 Hlo Hsur. unfold decode_rune, acc_lo, acc_hi, is_cont.
  split_ifs; b2z; finish_dec.
Qed.

Lemma dec4 q m1 m2 m3 rest : 0 <= q <= 4 -> 0 <= m1 < 64 -> 0 <= m2 < 64 -> 0 <= m3 < 64 ->
  (q = 0 -> 16 <= m1) -> (q = 4 -> m1 < 16) ->
  decode_rune (240 + q :: 128 + m1 :: 128 + m2 :: 128 + m3 :: rest) =
  (262144 * q + 4096 * m1 + 64 * m2 + m3, 4).
Proof.
  intros Hq Hm1 Hm2 Hm3 Hlo Hhi. unfold decode_rune, acc_lo, acc_hi, is_cont.
  split_ifs; b2z; finish_dec.
Qed.

Lemma decode_encode_rune r rest : is_scalar r ->
  decode_rune (encode_rune r ++ rest) = (r, Z.of_nat (length (encode_rune r))) /\
  forallb is_byte (encode_rune r) = true /\ (1 <= length (encode_rune r) <= 4)%nat.
Proof.
  intros [Hr Hs]. unfold encode_rune.
  destruct (Z.leb_spec r 127).
  { cbn [app length]. unfold decode_rune. destruct (Z.ltb_spec r 128); [|lia].
    cbn [forallb]. rewrite andb_true_r. repeat split; try lia. apply is_byte_spec; lia. }
  destruct (Z.leb_spec r 2047).
  { cbn [app length].
    rewrite (dec2 (r / 64) (r mod 64)) by (Z.div_mod_to_equations; lia).
    cbn [forallb]. rewrite andb_true_r, andb_true_iff, !is_byte_spec.
    repeat split; try lia; try (Z.div_mod_to_equations; lia).
    f_equal. Z.div_mod_to_equations; lia. }
  destruct (Z.ltb_spec 1114111 r); [lia|].
  destruct (Z.leb_spec 55296 r); destruct (Z.leb_spec r 57343); try lia; cbn [andb orb].
  1,2: destruct (Z.leb_spec r 65535).
  1,3: unfold enc3; cbn [app length];
    rewrite (dec3 (r / 4096) ((r / 64) mod 64) (r mod 64)) by (Z.div_mod_to_equations; lia);
    cbn [forallb]; rewrite andb_true_r, !andb_true_iff, !is_byte_spec;
    repeat split; try lia; try (Z.div_mod_to_equations; lia);
    f_equal; Z.div_mod_to_equations; lia.
  all: cbn [app length];
    rewrite (dec4 (r / 262144) ((r / 4096) mod 64) ((r / 64) mod 64) (r mod 64))
      by (Z.div_mod_to_equations; lia);
    cbn [forallb]; rewrite andb_true_r, !andb_true_iff, !is_byte_spec;
    repeat split; try lia; try (Z.div_mod_to_equations; lia);
    f_equal; Z.div_mod_to_equations; lia.
Qed.

(* ---------- valid_utf8 = concatenation of encodings of Unicode scalar values ---------- *)

Lemma valid_f_runes fuel : forall m, forallb is_byte m = true -> (length m <= fuel)%nat ->
  valid_f fuel m = true -> exists rs, Forall is_scalar rs /\ m = flat_map encode_rune rs.
Proof.
  induction fuel as [|f IH]; intros m Hb Hl Hv.
  - destruct m; [|cbn in Hl; lia]. exists []. split; [constructor|reflexivity].
  - destruct m as [|s0 t]; [exists []; split; [constructor|reflexivity]|].
    cbn [valid_f] in Hv. destruct (decode_rune (s0 :: t)) as [r size] eqn:Ed.
    pose proof (decode_rune_cases s0 t r size Hb Ed) as Hc.
    pose proof (rune_class_size _ _ _ Hc) as Hsz.
    apply andb_true_iff in Hv as [Hi Hv]. apply negb_true_iff in Hi.
    assert (Hlt: (length (skipn (Z.to_nat size) (s0 :: t)) < length (s0 :: t))%nat)
      by (apply skipn_length_lt; [lia|discriminate]).
    assert (Hle: (length (skipn (Z.to_nat size) (s0 :: t)) <= f)%nat) by lia.
    destruct (IH _ (forallb_skipn _ _ _ Hb) Hle Hv) as (rs & Hrs & Erest).
    assert (Hfs: s0 :: t = firstn (Z.to_nat size) (s0 :: t) ++ skipn (Z.to_nat size) (s0 :: t))
      by (symmetry; apply firstn_skipn).
    destruct Hc as [(Hs & Hr & t' & Et)|[(Hs & Hr)|(Hs & Hsc & _ & _ & _ & He & _)]].
    + exists (r :: rs). split.
      * constructor; [unfold is_scalar; lia|exact Hrs].
      * cbn [flat_map]. rewrite <- Erest, Hfs at 1. f_equal. subst size.
        rewrite Et. unfold encode_rune. destruct (Z.leb_spec r 127); [reflexivity|lia].
    + subst. unfold invalid_at in Hi. rewrite !Z.eqb_refl in Hi. discriminate.
    + exists (r :: rs). split; [constructor; assumption|].
      cbn [flat_map]. rewrite <- Erest, He. exact Hfs.
Qed.

Lemma skipn_app_exact {A} (l r : list A) : skipn (length l) (l ++ r) = r.
Proof. induction l; [reflexivity|assumption]. Qed.

Lemma scalar_not_invalid r : is_scalar r ->
  invalid_at r (Z.of_nat (length (encode_rune r))) = false.
Proof.
  intros _. unfold invalid_at. destruct (Z.eqb_spec r rune_error) as [->|N]; reflexivity.
Qed.

Lemma runes_valid rs : Forall is_scalar rs -> forall fuel,
  (length (flat_map encode_rune rs) <= fuel)%nat ->
  valid_f fuel (flat_map encode_rune rs) = true /\
  forallb is_byte (flat_map encode_rune rs) = true.
Proof.
  induction 1 as [|r rs Hr Hrs IH]; intros fuel Hl.
  - split; [destruct fuel; reflexivity|reflexivity].
  - cbn [flat_map] in *. rewrite app_length in Hl.
    destruct (decode_encode_rune r (flat_map encode_rune rs) Hr) as (Hd & Hby & Hlen).
    destruct fuel as [|f]; [lia|].
    destruct (IH f ltac:(lia)) as [Hv Hb]. split; [|rewrite forallb_app, Hby, Hb; reflexivity].
    cbn [valid_f]. destruct (encode_rune r ++ flat_map encode_rune rs) eqn:E.
    { apply (f_equal (@length Z)) in E. rewrite app_length in E. cbn in E. lia. }
    rewrite Hd, scalar_not_invalid by assumption. cbn [negb andb].
    rewrite <- E, Nat2Z.id, skipn_app_exact. exact Hv.
Qed.

Theorem valid_utf8_iff m : forallb is_byte m = true ->
  (valid_utf8 m = true <-> exists rs, Forall is_scalar rs /\ m = flat_map encode_rune rs).
Proof.
  intros Hb. split.
  - intros Hv. apply (valid_f_runes (length m)); [exact Hb|lia|exact Hv].
  - intros (rs & Hrs & ->). apply runes_valid; [exact Hrs|lia].
Qed.

(* ---------- bridge: the executable predicate holds on every model trace ---------- *)

Definition op_wf (op : word) : bool :=
  match op with
  | 1 :: r | 2 :: r => match get_bytes r with Some (m, []) => forallb is_byte m | _ => false end
  | _ => false
  end.

Lemma take_n_put n : forall l r, length l = n -> take_n n (l ++ r) = Some (l, r).
Proof.
  induction n as [|n IH]; intros [|x l] r H; cbn in *; try discriminate; [reflexivity|].
  rewrite IH by lia. reflexivity.
Qed.

Lemma get_put_bytes s r : get_bytes (put_bytes s ++ r) = Some (s, r).
Proof.
  unfold get_bytes, put_bytes. cbn [app].
  destruct (Z.ltb_spec (Z.of_nat (length s)) 0); [lia|].
  rewrite Nat2Z.id. apply take_n_put. reflexivity.
Qed.

Lemma list_eqb_refl l : list_eqb l l = true.
Proof. induction l as [|x l IH]; [reflexivity|]. cbn. rewrite Z.eqb_refl. exact IH. Qed.

Lemma clause_op_model op : op_wf op = true ->
  exists o, run_op op = Some o /\ forallb (fun c => snd c) (clause_op op o) = true.
Proof.
  destruct op as [|k r]; [discriminate|].
  destruct (Z.eq_dec k 1) as [->|N1]; [|destruct (Z.eq_dec k 2) as [->|N2]].
  - cbn [op_wf run_op clause_op].
    destruct (get_bytes r) as [[m [|? ?]]|] eqn:Eg; try discriminate. intros Hb. rewrite Hb.
    eexists; split; [reflexivity|]. rewrite get_put_bytes.
    rewrite <- (app_nil_r (put_bytes (decode (encode m)))), get_put_bytes.
    cbn [forallb snd]. rewrite encode_printable, roundtrip_any, list_eqb_refl by assumption.
    cbn [andb]. rewrite andb_true_r. destruct (valid_utf8 m) eqn:Ev; [|reflexivity].
    rewrite sanitize_valid_id by assumption. apply list_eqb_refl.
  - cbn [op_wf run_op clause_op].
    destruct (get_bytes r) as [[s [|? ?]]|] eqn:Eg; try discriminate. intros Hb. rewrite Hb.
    eexists; split; [reflexivity|].
    rewrite <- (app_nil_r (put_bytes (decode s))), get_put_bytes.
    cbn [forallb snd]. rewrite andb_true_r, decode_eq.
    destruct (decodeU_facts (length s) s (le_n _) Hb) as (k & Hk & Hlen & Hby & Hid).
    rewrite Hby. cbn [andb].
    replace (Z.of_nat (length s) - Z.of_nat (length (decodeU s))) with (2 * k) by lia.
    rewrite Z.even_mul. cbn [Z.even orb].
    rewrite !andb_true_iff. repeat split; try (apply Z.leb_le; lia).
    destruct (Z.ltb_spec 0 (count_pct s)); [reflexivity|].
    pose proof (count_pct_nonneg s). rewrite Hid by lia. apply list_eqb_refl.
  - intros H. exfalso. cbn [op_wf] in H. destruct k as [|p|p]; try discriminate H.
    destruct p as [[p|p|]|[p|p|]|]; try discriminate H; congruence.
Qed.

Theorem model_trace_holds ops : forallb op_wf ops = true ->
  exists obs, run ops = Some obs /\ holds_b ops obs = true.
Proof.
  induction ops as [|op ops IH]; cbn [forallb run]; intros H.
  - exists []. split; reflexivity.
  - apply andb_true_iff in H as [Hop Hr].
    destruct (IH Hr) as (obs & Hrun & Hh).
    destruct (clause_op_model op Hop) as (o & Ho & Hc).
    rewrite Ho, Hrun. exists (o :: obs). split; [reflexivity|].
    unfold holds_b in *. cbn [clauses]. rewrite forallb_app, Hc. exact Hh.
Qed.

(* ---------- readable equations for sanitize ---------- *)

Lemma decode_rune_size_pos s0 t : 1 <= snd (decode_rune (s0 :: t)) <= 4.
Proof.
  unfold decode_rune. destruct t as [|s1 [|s2 [|s3 t']]]; split_ifs; cbn [snd]; lia.
Qed.

Lemma sanitize_f_fuel f1 : forall f2 m, (length m <= f1)%nat -> (length m <= f2)%nat ->
  sanitize_f f1 m = sanitize_f f2 m.
Proof.
  induction f1 as [|f1 IH]; intros f2 m H1 H2.
  - destruct m; [destruct f2; reflexivity|cbn in H1; lia].
  - destruct m as [|s0 t]; [destruct f2; reflexivity|].
    destruct f2 as [|f2]; [cbn in H2; lia|].
    cbn [sanitize_f]. pose proof (decode_rune_size_pos s0 t) as Hs.
    destruct (decode_rune (s0 :: t)) as [r size]. cbn [snd] in Hs. f_equal.
    assert ((length (skipn (Z.to_nat size) (s0 :: t)) < length (s0 :: t))%nat)
      by (apply skipn_length_lt; [lia|discriminate]).
    apply IH; lia.
Qed.

Lemma sanitize_cons s0 t : sanitize (s0 :: t) =
  let '(r, size) := decode_rune (s0 :: t) in
  (if invalid_at r size then fffd else firstn (Z.to_nat size) (s0 :: t))
    ++ sanitize (skipn (Z.to_nat size) (s0 :: t)).
Proof.
  unfold sanitize at 1. cbn [length sanitize_f].
  pose proof (decode_rune_size_pos s0 t) as Hs.
  destruct (decode_rune (s0 :: t)) as [r size]. cbn [snd] in Hs. f_equal.
  assert ((length (skipn (Z.to_nat size) (s0 :: t)) < length (s0 :: t))%nat)
    by (apply skipn_length_lt; [lia|discriminate]).
  apply sanitize_f_fuel; cbn [length] in *; lia.
Qed.

(* the encoding of a scalar value is copied *)
Theorem sanitize_valid_rune r rest : is_scalar r ->
  sanitize (encode_rune r ++ rest) = encode_rune r ++ sanitize rest.
Proof.
  intros Hr. destruct (decode_encode_rune r rest Hr) as (Hd & _ & Hlen).
  destruct (encode_rune r ++ rest) eqn:E.
  { apply (f_equal (@length Z)) in E. rewrite app_length in E. cbn in E. lia. }
  rewrite sanitize_cons, Hd, scalar_not_invalid by assumption.
  rewrite <- E, Nat2Z.id, skipn_app_exact, firstn_app, Nat.sub_diag, firstn_all. cbn [firstn].
  rewrite app_nil_r. reflexivity.
Qed.

(* a byte at which DecodeRune reports (RuneError, 1) becomes EF BF BD, and only it *)
Theorem sanitize_invalid_byte b rest : decode_rune (b :: rest) = (rune_error, 1) ->
  sanitize (b :: rest) = fffd ++ sanitize rest.
Proof. intros Hd. rewrite sanitize_cons, Hd. reflexivity. Qed.

Theorem sanitize_nil : sanitize [] = [].
Proof. reflexivity. Qed.

(* the result of sanitize is always valid UTF-8 is not needed for C08 and not proved *)
