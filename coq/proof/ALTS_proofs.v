From Coq Require Import List ZArith Bool Lia.
From VLib Require Import Codec Machine.
From VModel Require Import ALTS.
Import ListNotations.
Open Scope Z_scope.

(* ================= Counter.Inc ================= *)

Definition is_byte (x : Z) : Prop := 0 <= x < 256.

Lemma le_val_bound v : Forall is_byte v -> 0 <= le_val v < 256 ^ Z.of_nat (length v).
Proof.
  induction 1 as [|x r Hx Hr IH]; cbn [le_val length].
  - change (256 ^ Z.of_nat 0) with 1. lia.
  - rewrite Nat2Z.inj_succ, Z.pow_succ_r by lia. unfold is_byte in Hx. lia.
Qed.

(* one Inc over the first n bytes: the little-endian value grows by one, or all n bytes were
   0xff, they become 0 and the carry comes out; the other bytes are untouched *)
Lemma inc_bytes_spec n : forall v, Forall is_byte v -> (n <= length v)%nat ->
  let '(v', c) := inc_bytes n v in
  le_val (firstn n v') + (if c then 256 ^ Z.of_nat n else 0) = le_val (firstn n v) + 1 /\
  skipn n v' = skipn n v /\ length v' = length v /\ Forall is_byte v'.
Proof.
  induction n as [|n IH]; intros v Hv Hn.
  - cbn. repeat split; auto.
  - destruct v as [|x r]; [cbn in Hn; lia|]. cbn [inc_bytes].
    inversion Hv as [|? ? Hx Hr]; subst. cbn [length] in Hn.
    destruct (Z.eqb_spec ((x + 1) mod 256) 0) as [E|E].
    + specialize (IH r Hr ltac:(lia)). destruct (inc_bytes n r) as [r' c].
      destruct IH as (H1 & H2 & H3 & H4).
      assert (x = 255).
      { unfold is_byte in Hx. destruct (Z.eq_dec x 255); [assumption|].
        rewrite Z.mod_small in E by lia. lia. }
      subst x. cbn [firstn le_val skipn length]. rewrite E.
      rewrite Nat2Z.inj_succ, Z.pow_succ_r by lia.
      repeat split; try assumption; try lia.
      * destruct c; lia.
      * constructor; [unfold is_byte; lia | assumption].
    + cbn [firstn le_val skipn length].
      assert (Hx255: x <> 255) by (intros ->; apply E; reflexivity).
      assert (Hm: (x + 1) mod 256 = x + 1) by (unfold is_byte in Hx; apply Z.mod_small; lia).
      rewrite Hm. repeat split; try lia.
      constructor; [unfold is_byte in *; lia | assumption].
Qed.

Lemma Forall_firstn {A} (P : A -> Prop) n (l : list A) : Forall P l -> Forall P (firstn n l).
Proof.
  revert n. induction l as [|x r IH]; intros n H; destruct n; cbn [firstn]; try constructor.
  - inversion H; assumption.
  - apply IH. inversion H; assumption.
Qed.

Definition ctr_val (c : counter) : Z := le_val (firstn (Z.to_nat (ct_overflow c)) (ct_value c)).

(* the nonce sequence: every Inc of a valid counter either yields the next integer (still
   valid) or, exactly at the last value 256^overflowLen - 1, invalidates the counter; an
   invalid counter stays invalid (Value() then fails, so Encrypt fails): no nonce repeats *)
Theorem counter_inc_spec c : Forall is_byte (ct_value c) ->
  0 <= ct_overflow c <= Z.of_nat (length (ct_value c)) -> ct_invalid c = false ->
  let c' := counter_inc c in
  (ct_invalid c' = false /\ ctr_val c' = ctr_val c + 1 /\ ctr_val c' < 256 ^ ct_overflow c) \/
  (ct_invalid c' = true /\ ctr_val c = 256 ^ ct_overflow c - 1).
Proof.
  intros Hb Ho Hi. unfold counter_inc, ctr_val. rewrite Hi.
  pose proof (inc_bytes_spec (Z.to_nat (ct_overflow c)) (ct_value c) Hb ltac:(lia)) as H.
  destruct (inc_bytes (Z.to_nat (ct_overflow c)) (ct_value c)) as [v' carry].
  destruct H as (H1 & H2 & H3 & H4). cbn [ct_invalid ct_value ct_overflow].
  rewrite Z2Nat.id in H1 by lia.
  assert (Hk: length (firstn (Z.to_nat (ct_overflow c)) v') = Z.to_nat (ct_overflow c)).
  { apply firstn_length_le. lia. }
  assert (Hk0: length (firstn (Z.to_nat (ct_overflow c)) (ct_value c)) = Z.to_nat (ct_overflow c)).
  { apply firstn_length_le. lia. }
  pose proof (le_val_bound _ (Forall_firstn _ (Z.to_nat (ct_overflow c)) _ H4)) as B1. rewrite Hk, Z2Nat.id in B1 by lia.
  pose proof (le_val_bound _ (Forall_firstn _ (Z.to_nat (ct_overflow c)) _ Hb)) as B0. rewrite Hk0, Z2Nat.id in B0 by lia.
  destruct carry; [right|left]; repeat split; lia.
Qed.

Lemma counter_invalid_sticky c : ct_invalid c = true -> counter_inc c = c.
Proof. intros H. unfold counter_inc. rewrite H. reflexivity. Qed.

(* ================= frame size limit ================= *)

Lemma record_lens_bound fuel : forall L n l, 0 < L -> In l (record_lens fuel L n) -> 0 < l <= L.
Proof.
  induction fuel as [|f IH]; intros L n l HL Hin; cbn [record_lens] in Hin; [contradiction|].
  destruct (Z.leb_spec n 0); [contradiction|]. destruct Hin as [<-|Hin]; [lia|]. eapply IH; eassumption.
Qed.

Fixpoint zsum (l : list Z) : Z := match l with [] => 0 | x :: r => x + zsum r end.

(* Write loses nothing: the record payloads add up to len(b) *)
Lemma record_lens_sum fuel : forall L n, 0 < L -> 0 <= n -> n <= Z.of_nat fuel * L ->
  zsum (record_lens fuel L n) = n.
Proof.
  induction fuel as [|f IH]; intros L n HL Hn Hf.
  - cbn in Hf. cbn. lia.
  - cbn [record_lens]. destruct (Z.leb_spec n 0); [cbn; lia|]. cbn [zsum].
    rewrite Nat2Z.inj_succ in Hf.
    assert (n - Z.min L n <= Z.of_nat f * L) by nia.
    rewrite IH; lia.
Qed.

Lemma fuel_for_enough n L : 0 < L -> 0 <= n -> n <= Z.of_nat (fuel_for n L) * L.
Proof.
  intros HL Hn. unfold fuel_for. rewrite Nat2Z.inj_succ, Z2Nat.id by (apply Z.div_pos; lia).
  pose proof (Z.div_mod n L ltac:(lia)). pose proof (Z.mod_pos_bound n L HL). nia.
Qed.

Lemma payload_limit_pos fs : 0 < payload_limit fs.
Proof. unfold payload_limit, max_record, overhead, altsRecordDefaultLength, MsgLenFieldSize, msgTypeFieldSize, GcmTagSize. lia. Qed.

Lemma list_max_bound (l : list Z) b : 0 <= b -> (forall x, In x l -> x <= b) -> list_max l <= b.
Proof.
  intros Hb. induction l as [|x r IH]; intros H; cbn [list_max]; [lia|].
  apply Z.max_lub; [apply H; left; reflexivity | apply IH; intros y Hy; apply H; right; exact Hy].
Qed.

(* "every record on the wire respects the frame size limit" *)
Theorem record_size_limit fs n l :
  In l (record_lens (fuel_for n (payload_limit fs)) (payload_limit fs) n) ->
  0 < l /\ l + overhead <= max_record fs.
Proof.
  intros H. apply record_lens_bound in H; [|apply payload_limit_pos]. unfold payload_limit in H. lia.
Qed.

(* ================= byte level: round trip ================= *)

Lemma rd32_le32 x r : 0 <= x < 2 ^ 32 -> rd32 (le32 x ++ r) = Some x.
Proof.
  intros Hx. unfold le32, rd32. cbn [app]. f_equal.
  change (2 ^ 32) with 4294967296 in Hx.
  assert (E2: x / 65536 = x / 256 / 256) by (rewrite Z.div_div by lia; reflexivity).
  assert (E3: x / 16777216 = x / 256 / 256 / 256) by (rewrite !Z.div_div by lia; reflexivity).
  rewrite E2, E3. set (q1 := x / 256). set (q2 := q1 / 256). set (q3 := q2 / 256).
  pose proof (Z.div_mod x 256 ltac:(lia)) as D1. fold q1 in D1.
  pose proof (Z.div_mod q1 256 ltac:(lia)) as D2. fold q2 in D2.
  pose proof (Z.div_mod q2 256 ltac:(lia)) as D3. fold q3 in D3.
  assert (0 <= q1 < 16777216).
  { unfold q1. split; [apply Z.div_pos; lia | apply Z.div_lt_upper_bound; lia]. }
  assert (0 <= q2 < 65536).
  { unfold q2. split; [apply Z.div_pos; lia | apply Z.div_lt_upper_bound; lia]. }
  assert (0 <= q3 < 256).
  { unfold q3. split; [apply Z.div_pos; lia | apply Z.div_lt_upper_bound; lia]. }
  rewrite (Z.mod_small q3) by lia. lia.
Qed.

Lemma skipn_skipn_add {A} a b (l : list A) : skipn a (skipn b l) = skipn (b + a) l.
Proof.
  revert l. induction b as [|b IH]; intros l; [reflexivity|].
  destruct l; cbn [skipn Nat.add]; [destruct a; reflexivity | apply IH].
Qed.

Lemma le32_length x : length (le32 x) = 4%nat.
Proof. reflexivity. Qed.

Section Proofs.
  Variable seal : Z -> list Z -> list Z.
  Variable open : Z -> list Z -> option (list Z).
  Hypothesis open_seal : forall n p, open n (seal n p) = Some p.
  Hypothesis seal_len : forall n p, zlen (seal n p) = zlen p + GcmTagSize.

  Definition fits (p : list Z) : Prop := msgTypeFieldSize + zlen p + GcmTagSize <= altsRecordLengthLimit.

  Lemma frame_length n p : zlen (frame seal n p) = 8 + zlen (seal n p).
  Proof. unfold frame, zlen. rewrite !app_length, !le32_length. lia. Qed.

  Lemma parse_frame_exact n p rest : fits p ->
    parse_framed (frame seal n p ++ rest) altsRecordLengthLimit = PFrame (frame seal n p) rest.
  Proof.
    intros Hf. unfold parse_framed. unfold fits in Hf.
    assert (Hlen: 0 <= msgTypeFieldSize + zlen (seal n p) < 2 ^ 32).
    { rewrite seal_len. unfold zlen, msgTypeFieldSize, GcmTagSize, altsRecordLengthLimit in *.
      change (2 ^ 32) with 4294967296. lia. }
    unfold frame at 1. rewrite <- !app_assoc. rewrite (rd32_le32 _ _ Hlen).
    destruct (Z.gtb_spec (msgTypeFieldSize + zlen (seal n p)) altsRecordLengthLimit) as [G|G].
    { rewrite seal_len in G. lia. }
    assert (Hz: zlen (frame seal n p ++ rest) = 8 + zlen (seal n p) + zlen rest).
    { unfold zlen at 1. rewrite app_length, Nat2Z.inj_add. fold (zlen (frame seal n p)) (zlen rest).
      rewrite frame_length. reflexivity. }
    destruct (Z.ltb_spec (zlen (frame seal n p ++ rest)) (msgTypeFieldSize + zlen (seal n p) + 4)) as [G2|G2].
    { rewrite Hz in G2. unfold msgTypeFieldSize, zlen in *. lia. }
    assert (Hk: Z.to_nat (4 + (msgTypeFieldSize + zlen (seal n p))) = length (frame seal n p)).
    { pose proof (frame_length n p) as Hfl. unfold zlen, msgTypeFieldSize in *. lia. }
    rewrite Hk. rewrite firstn_app, Nat.sub_diag, firstn_all, skipn_app, Nat.sub_diag, skipn_all.
    cbn [firstn skipn app]. rewrite app_nil_r. reflexivity.
  Qed.

  (* one record written by the peer with counter n is read back exactly, whatever follows *)
  Theorem read_frame_roundtrip n p rest : fits p ->
    read_frame open n (frame seal n p ++ rest) = ROk p rest.
  Proof.
    intros Hf. unfold read_frame. rewrite (parse_frame_exact n p rest Hf).
    unfold frame. cbn [le32 app skipn].
    assert (Hl: zlen (le32 altsRecordMsgType ++ seal n p) <? msgTypeFieldSize = false).
    { apply Z.ltb_ge. unfold zlen. rewrite app_length, le32_length. unfold msgTypeFieldSize. lia. }
    change (altsRecordMsgType mod 256 :: (altsRecordMsgType / 256) mod 256 :: (altsRecordMsgType / 65536) mod 256
            :: (altsRecordMsgType / 16777216) mod 256 :: seal n p) with (le32 altsRecordMsgType ++ seal n p).
    rewrite Hl. rewrite rd32_le32 by (unfold altsRecordMsgType; change (2 ^ 32) with 4294967296; lia).
    change (altsRecordMsgType mod 256 =? altsRecordMsgType) with true. cbn [negb].
    cbn [le32 app skipn]. rewrite open_seal. reflexivity.
  Qed.

  (* a whole write sequence: the records of consecutive counters are read back in order,
     independently of what follows them in the buffer *)
  Theorem read_records_roundtrip bodies : forall n rest, Forall fits bodies ->
    read_records open (length bodies) n (frames seal n bodies ++ rest) = Some (bodies, rest).
  Proof.
    induction bodies as [|b r IH]; intros n rest Hf; [reflexivity|].
    inversion Hf; subst. cbn [length read_records frames]. rewrite <- app_assoc.
    rewrite read_frame_roundtrip by assumption. rewrite IH by assumption. reflexivity.
  Qed.

  (* segmentation: as long as the frame is not complete the reader waits for more bytes *)
  Theorem incomplete_frame_waits n p k : fits p -> (k < length (frame seal n p))%nat ->
    parse_framed (firstn k (frame seal n p)) altsRecordLengthLimit = PIncomplete.
  Proof.
    intros Hf Hk. unfold parse_framed.
    destruct (rd32 (firstn k (frame seal n p))) as [len|] eqn:Hr; [|reflexivity].
    assert (Hlen: 0 <= msgTypeFieldSize + zlen (seal n p) < 2 ^ 32).
    { rewrite seal_len. unfold fits, zlen, msgTypeFieldSize, GcmTagSize, altsRecordLengthLimit in *.
      change (2 ^ 32) with 4294967296. lia. }
    assert (len = msgTypeFieldSize + zlen (seal n p)).
    { destruct (le_lt_dec 4 k) as [H4|H4].
      - unfold frame in Hr. rewrite firstn_app, le32_length in Hr.
        rewrite firstn_all2 in Hr by (rewrite le32_length; lia).
        rewrite rd32_le32 in Hr by exact Hlen. inversion Hr. reflexivity.
      - exfalso. unfold frame in Hr. rewrite firstn_app, le32_length in Hr.
        replace (k - 4)%nat with O in Hr by lia. cbn [firstn] in Hr. rewrite app_nil_r in Hr.
        unfold le32 in Hr. destruct k as [|[|[|[|k]]]]; cbn in Hr; try discriminate. lia. }
    subst len. destruct (Z.gtb_spec (msgTypeFieldSize + zlen (seal n p)) altsRecordLengthLimit) as [G|G].
    { rewrite seal_len in G. unfold fits in Hf. lia. }
    destruct (Z.ltb_spec (zlen (firstn k (frame seal n p))) (msgTypeFieldSize + zlen (seal n p) + 4)) as [G2|G2]; [reflexivity|].
    exfalso. pose proof (frame_length n p) as Hfl.
    assert (Hfk: length (firstn k (frame seal n p)) = k) by (apply firstn_length_le; lia).
    unfold zlen, msgTypeFieldSize in *. rewrite Hfk in G2. lia.
  Qed.

  (* tampering, ideal AEAD: anything that decrypts under nonce n is the sealing of that
     plaintext under nonce n, and a sealing under another nonce does not decrypt *)
  Hypothesis ideal : forall n c p, open n c = Some p -> c = seal n p.
  Hypothesis nonce_bound : forall n m p, n <> m -> open n (seal m p) = None.

  Lemma parse_framed_split b f rest : parse_framed b altsRecordLengthLimit = PFrame f rest -> b = f ++ rest.
  Proof.
    unfold parse_framed. destruct (rd32 b); [|discriminate]. destruct (_ >? _); [discriminate|].
    destruct (_ <? _); [discriminate|]. intros H; inversion H. symmetry. apply firstn_skipn.
  Qed.

  (* whatever bytes the network supplies: if the reader (which has consumed n records)
     accepts a record and returns p, then the bytes after the 8-byte header are exactly
     seal n p - the ciphertext of p under THIS position's nonce; any other ciphertext bytes
     at this position make the read fail *)
  Theorem accepted_record_is_authentic n b p rest : read_frame open n b = ROk p rest ->
    exists hdr, b = hdr ++ seal n p ++ rest /\ length hdr = 8%nat.
  Proof.
    unfold read_frame. destruct (parse_framed b altsRecordLengthLimit) as [| |f r] eqn:Hp; try discriminate.
    apply parse_framed_split in Hp. subst b.
    destruct (zlen (skipn 4 f) <? msgTypeFieldSize) eqn:Hl; [discriminate|].
    destruct (rd32 (skipn 4 f)); [|discriminate]. destruct (negb _); [discriminate|].
    destruct (open n (skipn 4 (skipn 4 f))) as [p'|] eqn:Ho; [|discriminate].
    intros H; inversion H; subst p' r. apply ideal in Ho.
    exists (firstn 8 f). apply Z.ltb_ge in Hl. unfold zlen, msgTypeFieldSize in Hl. rewrite skipn_length in Hl.
    split.
    - rewrite <- Ho. rewrite skipn_skipn_add. cbn [Nat.add]. rewrite app_assoc, firstn_skipn. reflexivity.
    - apply firstn_length_le. lia.
  Qed.

  (* reordering, dropping or replaying whole records: the record sealed as number m does not
     read at position n <> m *)
  Theorem record_at_wrong_position_fails n m p rest : fits p -> n <> m ->
    read_frame open n (frame seal m p ++ rest) = RError.
  Proof.
    intros Hf Hnm. unfold read_frame. rewrite (parse_frame_exact m p rest Hf).
    unfold frame. cbn [le32 app skipn].
    assert (Hl: zlen (le32 altsRecordMsgType ++ seal m p) <? msgTypeFieldSize = false).
    { apply Z.ltb_ge. unfold zlen. rewrite app_length, le32_length. unfold msgTypeFieldSize. lia. }
    change (altsRecordMsgType mod 256 :: (altsRecordMsgType / 256) mod 256 :: (altsRecordMsgType / 65536) mod 256
            :: (altsRecordMsgType / 16777216) mod 256 :: seal m p) with (le32 altsRecordMsgType ++ seal m p).
    rewrite Hl. rewrite rd32_le32 by (unfold altsRecordMsgType; change (2 ^ 32) with 4294967296; lia).
    change (altsRecordMsgType mod 256 =? altsRecordMsgType) with true. cbn [negb].
    cbn [le32 app skipn]. rewrite (nonce_bound n m p Hnm). reflexivity.
  Qed.
End Proofs.

(* the Write loop cuts the payload into pieces of at most the limit, losing nothing *)
Lemma chunks_concat fuel : forall limit p, 0 < limit -> (length p < fuel)%nat ->
  concat (chunks fuel limit p) = p /\ Forall (fun c => zlen c <= limit) (chunks fuel limit p).
Proof.
  induction fuel as [|f IH]; intros limit p HL Hf; [lia|].
  cbn [chunks]. destruct p as [|x r]; [split; [reflexivity|constructor]|].
  set (k := Z.to_nat (Z.min (zlen (x :: r)) limit)).
  assert (Hk: (1 <= k <= length (x :: r))%nat).
  { unfold k, zlen. cbn [length]. lia. }
  assert (Hs: (length (skipn k (x :: r)) < f)%nat).
  { rewrite skipn_length. cbn [length] in *. lia. }
  destruct (IH limit (skipn k (x :: r)) HL Hs) as [IH1 IH2].
  cbn [concat]. rewrite IH1, firstn_skipn. split; [reflexivity|].
  constructor; [|exact IH2]. unfold zlen. rewrite firstn_length_le by lia. unfold k, zlen. lia.
Qed.

(* NOTE: bytes 5..7 of a record (upper bytes of the message type) are neither authenticated
   nor checked: a record with such a byte changed is accepted, and the plaintext returned is
   still the written one (content flag 1); every property clause holds on that trace *)
Lemma type_upper_bytes_note :
  run [4096] [[1; 100]; [4; 1; 0; 6]; [5]; [2; 4096]] =
    Some [[100; 0; 1; 124; 1; 100; 100; 1; 124]; [1]; [124]; [0; 100; 1]] /\
  holds_b [4096] [[1; 100]; [4; 1; 0; 6]; [5]; [2; 4096]]
          [[100; 0; 1; 124; 1; 100; 100; 1; 124]; [1]; [124]; [0; 100; 1]] = true.
Proof. split; vm_compute; reflexivity. Qed.

(* ================= the predicate holds on every model trace ================= *)

Definition op_wf (op : word) : bool :=
  match op with
  | 7 :: ov :: v => forallb (fun x => (0 <=? x) && (x <? 256)) v
  | _ => true
  end.

Lemma forallb_bytes v : forallb (fun x => (0 <=? x) && (x <? 256)) v = true -> Forall is_byte v.
Proof.
  induction v as [|x r IH]; cbn [forallb]; intros H; [constructor|].
  apply andb_true_iff in H as [Hx Hr]. apply andb_true_iff in Hx as [H1 H2].
  apply Z.leb_le in H1. apply Z.ltb_lt in H2. constructor; [split; assumption | apply IH, Hr].
Qed.

Lemma word_eqb_refl w : word_eqb w w = true.
Proof. induction w; cbn; [reflexivity|]. rewrite Z.eqb_refl. exact IHw. Qed.

Lemma write_obs_rev fs n : exists tl,
  rev (fst (write_obs fs n)) =
  list_max (map (fun l => l + overhead)
    (record_lens (fuel_for n (payload_limit fs)) (payload_limit fs) n)) :: tl.
Proof.
  unfold write_obs. cbn [fst]. rewrite !rev_app_distr. cbn [rev app]. eexists. reflexivity.
Qed.

Lemma counter_clause ov v : Forall is_byte v -> Z.of_nat (length v) = 12 -> 0 <= ov <= 12 ->
  let c := counter_inc (mkctr v false ov) in
  forallb core_ok (clause_op (st0 0) (7 :: ov :: v) (b2z (ct_invalid c) :: ct_value c)) = true.
Proof.
  intros Hb Hl Ho. cbn zeta. unfold counter_inc. cbn [ct_invalid ct_value ct_overflow].
  pose proof (inc_bytes_spec (Z.to_nat ov) v Hb ltac:(lia)) as H.
  destruct (inc_bytes (Z.to_nat ov) v) as [v' carry]. destruct H as (H1 & H2 & H3 & H4).
  cbn [ct_invalid ct_value clause_op forallb core_ok snd fst]. rewrite H3, Z.eqb_refl, H2, word_eqb_refl.
  cbn [andb]. rewrite Z2Nat.id in H1 by lia.
  assert (Hk: length (firstn (Z.to_nat ov) v') = Z.to_nat ov) by (apply firstn_length_le; lia).
  assert (Hk0: length (firstn (Z.to_nat ov) v) = Z.to_nat ov) by (apply firstn_length_le; lia).
  pose proof (le_val_bound _ (Forall_firstn _ (Z.to_nat ov) _ H4)) as B1. rewrite Hk, Z2Nat.id in B1 by lia.
  pose proof (le_val_bound _ (Forall_firstn _ (Z.to_nat ov) _ Hb)) as B0. rewrite Hk0, Z2Nat.id in B0 by lia.
  destruct carry; cbn [b2z].
  - destruct (Z.eqb_spec (le_val (firstn (Z.to_nat ov) v) + 1) (256 ^ ov)); [reflexivity|lia].
  - destruct (Z.eqb_spec (le_val (firstn (Z.to_nat ov) v) + 1) (256 ^ ov)); [lia|].
    assert (E: le_val (firstn (Z.to_nat ov) v') =? le_val (firstn (Z.to_nat ov) v) + 1 = true) by (apply Z.eqb_eq; lia).
    rewrite E. reflexivity.
Qed.

Lemma step_other s k r : k <> 1 -> k <> 2 -> k <> 3 -> k <> 4 -> k <> 5 -> k <> 7 -> step s (k :: r) = None.
Proof.
  intros. destruct k as [|p|p]; [reflexivity| |reflexivity].
  destruct p as [p|p|]; [| |congruence];
    (destruct p as [p|p|]; [| |congruence]);
    (destruct p as [p|p|]; try reflexivity; try congruence).
Qed.

Lemma core_ok_nil : forallb core_ok [] = true.
Proof. reflexivity. Qed.

Lemma three_core bs c2 c3 c5 : c2 = true -> c3 = true -> c5 = true ->
  forallb core_ok [(2, bs, c2); (3, bs, c3); (5, bs, c5)] = true.
Proof. intros -> -> ->. reflexivity. Qed.

Lemma step_clause s op s' o : op_wf op = true -> step s op = Some (s', o) ->
  forallb core_ok (clause_op s op o) = true.
Proof.
  intros Hwf Hs. destruct op as [|k r]; [discriminate Hs|].
  destruct (Z.eq_dec k 1) as [->|N1].
  { destruct r as [|n [|? ?]]; try discriminate Hs. cbn [step] in Hs. cbn [clause_op].
    destruct ((n <? 0) || t_eof s); [reflexivity|].
    destruct (write_obs (t_fs s) n) as [ob lens] eqn:Ew. inversion Hs; subst s' o; clear Hs.
    destruct (write_obs_rev (t_fs s) n) as [tl Hr]. rewrite Ew in Hr. cbn [fst] in Hr. rewrite Hr.
    cbn [forallb core_ok snd fst]. rewrite andb_true_r. apply orb_true_iff. left. apply Z.leb_le.
    apply list_max_bound.
    - unfold max_record, altsRecordDefaultLength. lia.
    - intros x Hx. apply in_map_iff in Hx as (l & <- & Hl). apply record_size_limit in Hl. lia. }
  destruct (Z.eq_dec k 2) as [->|N2].
  { destruct r as [|bs [|? ?]]; try discriminate Hs. cbn [step] in Hs. cbn [clause_op].
    destruct (bs <? 0) eqn:Eb; [reflexivity|]. cbn [orb]. inversion Hs as [Hr]; clear Hs.
    unfold read_step in Hr. destruct (t_dead s) eqn:Ed; [reflexivity|].
    destruct (t_buf s) eqn:Ebuf.
    - destruct (_ =? _) in Hr; inversion Hr; subst; apply three_core; try reflexivity;
        change (0 =? 0) with true; change (1 =? 1) with true; cbn iota; cbn [andb]; apply Z.leb_le; lia.
    - destruct (boundary_expect s) as [len| |] eqn:Ex.
      + destruct (_ =? _) in Hr; inversion Hr; subst; apply three_core; try reflexivity;
          change (0 =? 0) with true; change (1 =? 1) with true; cbn iota; cbn [andb]; apply Z.leb_le; lia.
      + inversion Hr; subst. apply three_core; reflexivity.
      + inversion Hr; subst. apply three_core; reflexivity. }
  destruct (Z.eq_dec k 3) as [->|N3].
  { destruct r as [|a [|? ?]]; try discriminate Hs. reflexivity. }
  destruct (Z.eq_dec k 4) as [->|N4].
  { destruct r as [|a [|b [|c [|? ?]]]]; try discriminate Hs. reflexivity. }
  destruct (Z.eq_dec k 5) as [->|N5].
  { destruct r as [|? ?]; try discriminate Hs. reflexivity. }
  destruct (Z.eq_dec k 7) as [->|N7].
  { destruct r as [|ov v]; [discriminate Hs|]. cbn [step] in Hs.
    destruct ((Z.of_nat (length v) =? 12) && (0 <=? ov) && (ov <=? 12)) eqn:Ec; [|discriminate].
    apply andb_true_iff in Ec as [Ec E3]. apply andb_true_iff in Ec as [E1 E2].
    apply Z.eqb_eq in E1. apply Z.leb_le in E2, E3. inversion Hs; subst s' o; clear Hs.
    cbn [op_wf] in Hwf. apply forallb_bytes in Hwf.
    change (clause_op s (7 :: ov :: v)) with (clause_op (st0 0) (7 :: ov :: v)).
    apply counter_clause; [assumption|assumption|lia]. }
  rewrite step_other in Hs by assumption. discriminate.
Qed.

Lemma clauses_from_holds ops : forall s obs, forallb op_wf ops = true ->
  run_from s ops = Some obs -> forallb core_ok (clauses_from s ops obs) = true.
Proof.
  induction ops as [|op ops IH]; intros s obs Hwf Hr.
  - cbn in Hr. inversion Hr. reflexivity.
  - cbn [forallb] in Hwf. apply andb_true_iff in Hwf as [Hop Hwf]. cbn [run_from] in Hr.
    destruct (step s op) as [[s' o]|] eqn:Hs; [|discriminate].
    destruct (run_from s' ops) as [os|] eqn:Hr2; [|discriminate]. inversion Hr; subst obs.
    cbn [clauses_from]. rewrite Hs, forallb_app, (step_clause s op s' o Hop Hs). cbn [andb].
    apply IH; assumption.
Qed.

Lemma forallb_filter {A} (P f : A -> bool) l : forallb P l = true -> forallb P (filter f l) = true.
Proof.
  induction l as [|x r IH]; cbn [forallb filter]; intros H; [reflexivity|].
  apply andb_true_iff in H as [Hx Hr]. destruct (f x); cbn [forallb]; rewrite ?Hx; auto.
Qed.

Lemma forallb_reorder P l : forallb P l = true -> forallb P (reorder l) = true.
Proof. intros H. unfold reorder. rewrite forallb_app, !forallb_filter by assumption. reflexivity. Qed.

Theorem model_trace_holds cfg ops obs : forallb op_wf ops = true ->
  run cfg ops = Some obs -> holds_core cfg ops obs = true.
Proof.
  unfold run, holds_core, clauses. destruct cfg as [|fs [|? ?]]; try discriminate.
  destruct (fs_ok fs); [|discriminate]. intros Hwf Hr. apply forallb_reorder, clauses_from_holds; assumption.
Qed.
