From Coq Require Import ZArith Reals Floats Lia Lra.
From Flocq Require Import Core.Core IEEE754.BinarySingleNaN.
From Flocq Require IEEE754.PrimFloat.
Module FP := Flocq.IEEE754.PrimFloat.
Open Scope R_scope.

Notation pfloat := PrimFloat.float.
Definition rnd (v : R) : R := round radix2 (SpecFloat.fexp prec emax) ZnearestE v.
Definition FR (x : pfloat) (v : R) : Prop := is_finite (FP.Prim2B x) = true /\ B2R (FP.Prim2B x) = v.

Lemma FR_mul : forall x y a b, FR x a -> FR y b -> Rabs (rnd (a * b)) < bpow radix2 1024 ->
  FR (x * y)%float (rnd (a * b)).
Proof.
  intros x y a b [Fx Hx] [Fy Hy] Hb. unfold FR. rewrite FP.mul_equiv.
  generalize (Bmult_correct prec emax FP.Hprec FP.Hmax mode_NE (FP.Prim2B x) (FP.Prim2B y)).
  rewrite Hx, Hy. change (round radix2 _ _ (a*b)) with (rnd (a*b)).
  rewrite Rlt_bool_true by exact Hb.
  intros (H1 & H2 & _). rewrite H2, Fx, Fy. split; [reflexivity | exact H1].
Qed.

Lemma FR_add : forall x y a b, FR x a -> FR y b -> Rabs (rnd (a + b)) < bpow radix2 1024 ->
  FR (x + y)%float (rnd (a + b)).
Proof.
  intros x y a b [Fx Hx] [Fy Hy] Hb. unfold FR. rewrite FP.add_equiv.
  generalize (Bplus_correct prec emax FP.Hprec FP.Hmax mode_NE (FP.Prim2B x) (FP.Prim2B y) Fx Fy).
  rewrite Hx, Hy. change (round radix2 _ _ (a+b)) with (rnd (a+b)).
  rewrite Rlt_bool_true by exact Hb.
  intros (H1 & H2 & _). split; assumption.
Qed.

Lemma FR_sub : forall x y a b, FR x a -> FR y b -> Rabs (rnd (a - b)) < bpow radix2 1024 ->
  FR (x - y)%float (rnd (a - b)).
Proof.
  intros x y a b [Fx Hx] [Fy Hy] Hb. unfold FR. rewrite FP.sub_equiv.
  generalize (Bminus_correct prec emax FP.Hprec FP.Hmax mode_NE (FP.Prim2B x) (FP.Prim2B y) Fx Fy).
  rewrite Hx, Hy. change (round radix2 _ _ (a-b)) with (rnd (a-b)).
  rewrite Rlt_bool_true by exact Hb.
  intros (H1 & H2 & _). split; assumption.
Qed.

Lemma FR_leb : forall x y a b, FR x a -> FR y b -> PrimFloat.leb x y = Rle_bool a b.
Proof.
  intros x y a b [Fx Hx] [Fy Hy]. rewrite FP.leb_equiv, Bleb_correct by assumption. now rewrite Hx, Hy.
Qed.
Lemma FR_ltb : forall x y a b, FR x a -> FR y b -> PrimFloat.ltb x y = Rlt_bool a b.
Proof.
  intros x y a b [Fx Hx] [Fy Hy]. rewrite FP.ltb_equiv, Bltb_correct by assumption. now rewrite Hx, Hy.
Qed.

Lemma rnd_le : forall a b, a <= b -> rnd a <= rnd b.
Proof. intros. apply round_le; auto with typeclass_instances. apply (fexp_correct prec emax FP.Hprec). Qed.

Lemma FR_format : forall x a, FR x a -> generic_format radix2 (SpecFloat.fexp prec emax) a.
Proof. intros x a [_ H]. rewrite <- H. apply generic_format_B2R. Qed.

Lemma rnd_id : forall x a, FR x a -> rnd a = a.
Proof. intros. apply round_generic; auto with typeclass_instances. eapply FR_format; eauto. Qed.

Lemma rnd_between : forall xl xh lo hi a, FR xl lo -> FR xh hi -> lo <= a <= hi -> lo <= rnd a <= hi.
Proof.
  intros xl xh lo hi a Hl Hh [H1 H2]. split.
  - rewrite <- (rnd_id _ _ Hl). apply rnd_le; assumption.
  - rewrite <- (rnd_id _ _ Hh). apply rnd_le; assumption.
Qed.

Lemma FR_const : forall x m e, Prim2SF x = S754_finite false m e ->
  FR x (IZR (Zpos m) * bpow radix2 e).
Proof.
  intros x m e H. unfold FR. rewrite <- (FP.B2Prim_Prim2B x) in H. rewrite FP.Prim2SF_B2Prim in H.
  destruct (FP.Prim2B x) as [s|s| |s m' e' Hb]; try discriminate H.
  cbn in H. injection H as -> -> ->. split. reflexivity. reflexivity.
Qed.
Lemma FR_zero_sf : forall x s, Prim2SF x = S754_zero s -> FR x 0.
Proof.
  intros x s H. unfold FR. rewrite <- (FP.B2Prim_Prim2B x) in H. rewrite FP.Prim2SF_B2Prim in H.
  destruct (FP.Prim2B x) as [s'|s'| |s' m' e' Hb]; try discriminate H. split; reflexivity.
Qed.

Lemma FR_zero : FR 0%float 0.
Proof. apply (FR_zero_sf _ false). reflexivity. Qed.
Lemma FR_one : FR 1%float 1.
Proof. generalize (FR_const 1%float _ _ eq_refl). cbn -[IZR bpow]. intro H.
  replace 1 with (4503599627370496 * bpow radix2 (-52)). exact H.
  change (bpow radix2 (-52)) with (/ IZR (2^52)). change (2^52)%Z with 4503599627370496%Z. field. Qed.
Lemma FR_two : FR 2%float 2.
Proof. generalize (FR_const 2%float _ _ eq_refl). cbn -[IZR bpow]. intro H.
  replace 2 with (4503599627370496 * bpow radix2 (-51)). exact H.
  change (bpow radix2 (-51)) with (/ IZR (2^51)). change (2^51)%Z with 2251799813685248%Z. field. Qed.

Lemma FR_unique : forall x a b, FR x a -> FR x b -> a = b.
Proof. intros x a b [_ H1] [_ H2]. congruence. Qed.

Lemma bpow_70 : bpow radix2 70 = 2 ^ 70.
Proof. rewrite pow_IZR. unfold bpow. f_equal. Qed.

Lemma bpow_1024_big : forall v, Rabs v <= 2 ^ 70 -> Rabs v < bpow radix2 1024.
Proof.
  intros v H. eapply Rle_lt_trans. exact H. rewrite <- bpow_70. apply bpow_lt. lia.
Qed.

Lemma small_lt : forall v, Rabs v <= IZR (2 ^ 64) -> Rabs v < bpow radix2 1024.
Proof.
  intros v H. eapply Rle_lt_trans. exact H.
  change (2 ^ 64)%Z with (Zaux.radix_val radix2 ^ 64)%Z. rewrite IZR_Zpower by lia. apply bpow_lt. lia.
Qed.

Lemma FR_opp : forall x a, FR x a -> FR (- x)%float (- a).
Proof.
  intros x a [F H]. unfold FR. rewrite FP.opp_equiv, is_finite_Bopp, B2R_Bopp, H. auto.
Qed.

Lemma rnd_0 : rnd 0 = 0.
Proof. apply round_0. auto with typeclass_instances. Qed.

Lemma rnd_nonneg : forall a, 0 <= a -> 0 <= rnd a.
Proof. intros a H. rewrite <- rnd_0. apply rnd_le. exact H. Qed.

Lemma Rle_bool_true_inv : forall a b, Rle_bool a b = true -> a <= b.
Proof. intros a b H. destruct (Rle_bool_spec a b); [assumption | discriminate H]. Qed.
Lemma Rlt_bool_true_inv : forall a b, Rlt_bool a b = true -> a < b.
Proof. intros a b H. destruct (Rlt_bool_spec a b); [assumption | discriminate H]. Qed.
Lemma Rle_bool_false_inv : forall a b, Rle_bool a b = false -> b < a.
Proof. intros a b H. destruct (Rle_bool_spec a b); [discriminate H | assumption]. Qed.
Lemma Rlt_bool_false_inv : forall a b, Rlt_bool a b = false -> b <= a.
Proof. intros a b H. destruct (Rlt_bool_spec a b); [discriminate H | assumption]. Qed.

(* a float between two finite floats is finite *)
Lemma between_FR : forall a x b va vb, FR a va -> FR b vb ->
  PrimFloat.leb a x = true -> PrimFloat.leb x b = true -> exists v, FR x v /\ va <= v <= vb.
Proof.
  intros a x b va vb [Fa Ha] [Fb Hb] H1 H2. rewrite FP.leb_equiv in H1, H2. unfold FR.
  destruct (FP.Prim2B x) as [s|s| |s m e Hbd] eqn:E.
  - exists 0. rewrite Bleb_correct in H1, H2 by (auto; rewrite ?E; auto).
    cbn in H1, H2. rewrite Ha in H1. rewrite Hb in H2.
    apply Rle_bool_true_inv in H1. apply Rle_bool_true_inv in H2. cbn. repeat split; lra.
  - exfalso. destruct s.
    + destruct (FP.Prim2B a) as [s'|s'| |s' m' e' Hbd']; try discriminate Fa; cbn in H1; try discriminate H1.
      all: try (destruct s'; discriminate H1).
    + destruct (FP.Prim2B b) as [s'|s'| |s' m' e' Hbd']; try discriminate Fb; cbn in H2; try discriminate H2.
      all: try (destruct s'; discriminate H2).
  - exfalso. destruct (FP.Prim2B a) as [s'|s'| |s' m' e' Hbd']; try discriminate Fa; cbn in H1; discriminate H1.
  - rewrite Bleb_correct in H1, H2 by auto. rewrite Ha in H1. rewrite Hb in H2.
    apply Rle_bool_true_inv in H1. apply Rle_bool_true_inv in H2.
    eexists. split. split. reflexivity. reflexivity. split; assumption.
Qed.

(* a float above a finite float and below +Inf is finite *)
Lemma above_FR : forall a x va, FR a va ->
  PrimFloat.leb a x = true -> PrimFloat.ltb x infinity = true -> exists v, FR x v /\ va <= v.
Proof.
  intros a x va [Fa Ha] H1 H2. rewrite FP.leb_equiv in H1. rewrite FP.ltb_equiv in H2.
  rewrite FP.infinity_equiv, FP.Prim2B_B2Prim in H2. unfold FR.
  destruct (FP.Prim2B x) as [s|s| |s m e Hbd] eqn:E.
  - exists 0. rewrite Bleb_correct in H1 by (auto; rewrite ?E; auto). cbn in H1. rewrite Ha in H1.
    apply Rle_bool_true_inv in H1. cbn. repeat split; lra.
  - exfalso. destruct s.
    + destruct (FP.Prim2B a) as [s'|s'| |s' m' e' Hbd']; try discriminate Fa; cbn in H1; try discriminate H1.
      all: try (destruct s'; discriminate H1).
    + discriminate H2.
  - discriminate H2.
  - rewrite Bleb_correct in H1 by auto. rewrite Ha in H1. apply Rle_bool_true_inv in H1.
    eexists. split. split. reflexivity. reflexivity. assumption.
Qed.

(* sign of a finite float with a positive value *)
Lemma FR_pos_sign : forall x v, FR x v -> 0 < v -> Bsign (FP.Prim2B x) = false.
Proof.
  intros x v [F H] Hv. destruct (FP.Prim2B x) as [s|s| |s m e Hbd]; try discriminate F.
  - cbn in H. lra.
  - cbn in *. destruct s; [|reflexivity]. exfalso.
    assert (F2R (Float radix2 (cond_Zopp true (Z.pos m)) e) < 0) by (apply F2R_lt_0; cbn; lia). lra.
Qed.

(* sign of a finite product *)
Lemma FR_mul_sign : forall x y a b, FR x a -> FR y b -> Rabs (rnd (a * b)) < bpow radix2 1024 ->
  Bsign (FP.Prim2B (x * y)%float) = xorb (Bsign (FP.Prim2B x)) (Bsign (FP.Prim2B y)).
Proof.
  intros x y a b [Fx Hx] [Fy Hy] Hb. rewrite FP.mul_equiv.
  generalize (Bmult_correct prec emax FP.Hprec FP.Hmax mode_NE (FP.Prim2B x) (FP.Prim2B y)).
  rewrite Hx, Hy. change (round radix2 _ _ (a*b)) with (rnd (a*b)).
  rewrite Rlt_bool_true by exact Hb.
  intros (_ & H2 & H3). apply H3.
  destruct (Bmult mode_NE (FP.Prim2B x) (FP.Prim2B y)); try reflexivity.
  rewrite Fx, Fy in H2. discriminate H2.
Qed.

Lemma FR_half : FR 0.5%float (/ 2).
Proof. generalize (FR_const 0.5%float _ _ eq_refl). cbn -[IZR bpow]. intro H.
  replace (/ 2) with (4503599627370496 * bpow radix2 (-53)). exact H.
  change (bpow radix2 (-53)) with (/ IZR (2^53)). change (2^53)%Z with 9007199254740992%Z. field. Qed.
Lemma FR_quarter : FR 0.25%float (/ 4).
Proof. generalize (FR_const 0.25%float _ _ eq_refl). cbn -[IZR bpow]. intro H.
  replace (/ 4) with (4503599627370496 * bpow radix2 (-54)). exact H.
  change (bpow radix2 (-54)) with (/ IZR (2^54)). change (2^54)%Z with 18014398509481984%Z. field. Qed.

(* integers below 2^53 are floats *)
Lemma rnd_int_exact : forall z, (Z.abs z < 2 ^ 53)%Z -> rnd (IZR z) = IZR z.
Proof.
  intros z Hz. apply round_generic; auto with typeclass_instances.
  apply (FLT.generic_format_FLT radix2 (3 - emax - prec) prec).
  exists (Float radix2 z 0); cbn.
  - unfold F2R; cbn. lra.
  - exact Hz.
  - unfold emax, prec. lia.
Qed.
