From Coq Require Import List ZArith Bool Arith Lia.
From VLib Require Import Codec.
From VModel Require Import GSwitch.
Import ListNotations.
Open Scope Z_scope.

(* ---------- invariant that holds in every (also intermediate) state ---------- *)

Record WInv (s : st) : Prop := mkWInv {
  w_pend : forall p, pend s = Some p ->
             k_last (getkid s p) = CONNECTING /\ exists c, cur s = Some c /\ c <> p;
  w_cur_lt : forall c, cur s = Some c -> (c < nk s)%nat;
  w_pend_lt : forall p, pend s = Some p -> (p < nk s)%nat;
  w_rep : forall id, k_rep (getkid s id) = false -> k_last (getkid s id) = CONNECTING;
  w_closed : closed s = true -> cur s = None /\ pend s = None;
  w_chan : forall c, cur s = Some c -> k_rep (getkid s c) = true ->
             chan s = Some (k_last (getkid s c), zn c);
  w_dead : forall id, k_closed (getkid s id) = true -> live s id = false;
  w_own : forall sc, (sc < nsc s)%nat ->
            (sc_owner s sc < nk s)%nat /\
            (sc_shut s sc = true \/ In sc (k_subs (getkid s (sc_owner s sc))));
  w_shut : forall id sc, k_closed (getkid s id) = true -> In sc (k_subs (getkid s id)) ->
             sc_shut s sc = true;
  w_subs_lt : forall id sc, In sc (k_subs (getkid s id)) -> (sc < nsc s)%nat;
  w_toclose : forall c, toclose s = Some c -> (c < nk s)%nat /\ live s c = false
}.

Lemma oeq_true o id : oeq o id = true <-> o = Some id.
Proof.
  unfold oeq. destruct o as [c|]; [|split; discriminate].
  rewrite Nat.eqb_eq. split; [intros ->; reflexivity | intros [= ->]; reflexivity].
Qed.
Lemma oeq_false o id : oeq o id = false <-> o <> Some id.
Proof.
  rewrite <- oeq_true. destruct (oeq o id); split; congruence.
Qed.
Lemma live_false s id : live s id = false <-> cur s <> Some id /\ pend s <> Some id.
Proof. unfold live. rewrite orb_false_iff, !oeq_false. tauto. Qed.
Lemma live_true s id : live s id = true <-> cur s = Some id \/ pend s = Some id.
Proof. unfold live. rewrite orb_true_iff, !oeq_true. tauto. Qed.

Ltac eqb_cases :=
  repeat match goal with
  | |- context [Nat.eqb ?a ?b] => destruct (Nat.eqb_spec a b); subst
  | H : context [Nat.eqb ?a ?b] |- _ => destruct (Nat.eqb_spec a b); subst
  end.

Lemma WInv_init : WInv init.
Proof.
  constructor; cbn; intros; try discriminate; try lia; try contradiction; auto.
Qed.

Ltac live_props :=
  repeat match goal with
  | H : live _ _ = false |- _ => apply live_false in H; destruct H
  | H : live _ _ = true |- _ => apply live_true in H
  | |- live _ _ = false => apply live_false
  | |- live _ _ = true => apply live_true
  end.

(* swap when a pending policy exists *)
Lemma swap_inv s : WInv s -> WInv (fst (swap s)).
Proof.
  intros W. unfold swap. destruct (pend s) as [p|] eqn:Ep; [|exact W].
  destruct (w_pend _ W _ Ep) as [Hl [c [Ec Hne]]].
  constructor; cbn [fst]; intros.
  - discriminate.
  - cbn in *. inversion H; subst. exact (w_pend_lt _ W _ Ep).
  - discriminate.
  - eapply (w_rep _ W); eauto.
  - destruct (w_closed _ W H). congruence.
  - cbn in *. inversion H; subst. unfold pick_of, getkid in *. rewrite H0. reflexivity.
  - apply (w_dead _ W) in H. live_props. cbn. split; congruence.
  - eapply (w_own _ W); eauto.
  - eapply (w_shut _ W); eauto.
  - eapply (w_subs_lt _ W); eauto.
  - cbn in H. rewrite Ec in H. inversion H; subst. split; [exact (w_cur_lt _ W _ Ec)|].
    live_props. cbn. split; congruence.
Qed.

Ltac simp_st :=
  unfold getkid, sc_owner, sc_shut, upd_kid, mark_shut, set_kids, set_scs, set_chan, set_toclose,
         set_cp, set_closed, fupd, k_set_last, k_set_subs, k_set_closed, pick_of in *;
  cbn [kids nk cur pend closed scs nsc chan toclose fst snd
       k_last k_rep k_subs k_b k_noisy k_closed] in *.

Ltac use_inv W :=
  let Hp := fresh "Wp" in let Hc := fresh "Wc" in
  pose proof (w_pend _ W) as Hp; pose proof (w_chan _ W) as Hc;
  pose proof (w_cur_lt _ W); pose proof (w_pend_lt _ W); pose proof (w_rep _ W);
  pose proof (w_closed _ W); pose proof (w_dead _ W); pose proof (w_own _ W);
  pose proof (w_shut _ W); pose proof (w_subs_lt _ W); pose proof (w_toclose _ W).

(* saturate the context with the instances of the invariant of [s] that mention known facts *)
Ltac sat W :=
  repeat match goal with
  | E : pend ?s = Some ?q |- _ =>
      lazymatch goal with
      | _ : k_last (kids s q) = CONNECTING |- _ => fail
      | _ => let A := fresh in let B := fresh in let C := fresh in let c := fresh "c" in
             destruct (w_pend _ W _ E) as [A [c [B C]]]; pose proof (w_pend_lt _ W _ E);
             unfold getkid in A
      end
  | E : cur ?s = Some ?q |- _ =>
      lazymatch goal with
      | _ : (q < nk s)%nat |- _ => fail
      | _ => pose proof (w_cur_lt _ W _ E)
      end
  | E : k_closed (kids ?s ?x) = true |- _ =>
      lazymatch goal with
      | _ : cur s <> Some x |- _ => fail
      | _ => let A := fresh in pose proof (w_dead _ W _ E) as A; apply live_false in A; destruct A
      end
  | E : closed ?s = true |- _ =>
      lazymatch goal with
      | _ : cur s = None |- _ => fail
      | _ => let A := fresh in let B := fresh in destruct (w_closed _ W E) as [A B]
      end
  | E : toclose ?s = Some ?x |- _ =>
      lazymatch goal with
      | _ : (x < nk s)%nat, _ : cur s <> Some x |- _ => fail
      | _ => let A := fresh in let B := fresh in
             destruct (w_toclose _ W _ E) as [A B]; apply live_false in B; destruct B
      end
  end.

Ltac optinv :=
  repeat match goal with
  | H : Some _ = Some _ |- _ => inversion H; clear H; subst
  | H : None = Some _ |- _ => discriminate H
  | H : Some _ = None |- _ => discriminate H
  end.

Ltac bullet W :=
  intros; live_props; simp_st; optinv; eqb_cases; simp_st; optinv; sat W;
  try match goal with H : k_rep _ = true |- _ => rewrite H end;
  try solve [ discriminate | congruence | lia | eauto | reflexivity
            | split; (congruence || lia || eauto)
            | eapply (w_rep _ W); eauto
            | eapply (w_chan _ W); eauto
            | eapply (w_closed _ W); eauto
            | eapply (w_own _ W); eauto
            | eapply (w_shut _ W); eauto
            | eapply (w_subs_lt _ W); eauto
            | repeat split; live_props; simp_st; eqb_cases; optinv;
              solve [ congruence | lia | eauto | split; congruence ] ].

Lemma upd_last_dead_inv s id v : WInv s -> live s id = false -> WInv (upd_kid s id (k_set_last v)).
Proof.
  intros W Hd. apply live_false in Hd. destruct Hd.
  constructor; bullet W.
Qed.

Lemma upd_last_cur_inv s id v : WInv s -> cur s = Some id ->
  WInv (set_chan (upd_kid s id (k_set_last v)) (Some (v, zn id))).
Proof.
  intros W Hc. constructor; bullet W.
Qed.

Lemma upd_last_pend_inv s id : WInv s -> pend s = Some id ->
  WInv (upd_kid s id (k_set_last CONNECTING)).
Proof.
  intros W Hc. constructor; bullet W.
Qed.

Lemma upd_last_swap_inv s id v p : WInv s -> pend s = Some p -> live s id = true ->
  WInv (fst (swap (upd_kid s id (k_set_last v)))).
Proof.
  intros W Hp Hl. unfold swap. replace (pend (upd_kid s id (k_set_last v))) with (Some p) by (symmetry; exact Hp).
  constructor; bullet W.
Qed.

Lemma live_upd s id f x : live (upd_kid s id f) x = live s x.
Proof. reflexivity. Qed.

Lemma child_update_dead s id v : live s id = false ->
  child_update s id v = (upd_kid s id (k_set_last v), []).
Proof. intros H. unfold child_update. rewrite live_upd, H. reflexivity. Qed.

Lemma child_newsc_dead s id : live s id = false -> child_newsc s id = (s, [], None).
Proof. intros H. unfold child_newsc. rewrite H. reflexivity. Qed.

Lemma child_update_inv s id v : WInv s -> WInv (fst (child_update s id v)).
Proof.
  intros W. destruct (live s id) eqn:Hl.
  2:{ rewrite child_update_dead by exact Hl. apply upd_last_dead_inv; assumption. }
  unfold child_update. rewrite live_upd, Hl. cbn [negb].
  change (cur (upd_kid s id (k_set_last v))) with (cur s).
  change (pend (upd_kid s id (k_set_last v))) with (pend s).
  destruct (oeq (cur s) id) eqn:Hc.
  - apply oeq_true in Hc. destruct (pend s) as [p|] eqn:Hp.
    + destruct (v =? READY); cbn [negb].
      * apply upd_last_cur_inv; assumption.
      * eapply upd_last_swap_inv; eauto.
    + apply upd_last_cur_inv; assumption.
  - assert (Hp : pend s = Some id).
    { apply live_true in Hl. apply oeq_false in Hc. tauto. }
    destruct (negb (v =? CONNECTING) || negb (last_of (upd_kid s id (k_set_last v)) (cur s) =? READY)) eqn:Hs.
    + eapply upd_last_swap_inv; eauto.
    + apply orb_false_iff in Hs. destruct Hs as [Hs _]. apply negb_false_iff, Z.eqb_eq in Hs. subst v.
      apply upd_last_pend_inv; assumption.
Qed.

Lemma child_newsc_inv s id : WInv s -> (id < nk s)%nat -> WInv (fst (fst (child_newsc s id))).
Proof.
  intros W Hlt. unfold child_newsc. destruct (live s id) eqn:Hl; cbn [negb fst]; [|exact W].
  constructor; [bullet W | bullet W | bullet W | bullet W | bullet W | bullet W | bullet W | | | | bullet W].
  - intros sc Hsc. simp_st. destruct (Nat.eqb_spec sc (nsc s)) as [->|Hne]; cbn [fst snd].
    + rewrite Nat.eqb_refl. cbn [k_subs]. split; [exact Hlt|]. right. apply in_or_app. right. left. reflexivity.
    + assert (Hlt2 : (sc < nsc s)%nat) by lia. destruct (w_own _ W _ Hlt2) as [A B].
      unfold sc_owner, sc_shut, getkid in *. split; [exact A|]. destruct B as [B|B]; [left; exact B|right].
      destruct (Nat.eqb_spec (fst (scs s sc)) id) as [E|E]; cbn [k_subs]; [apply in_or_app; left; exact B|exact B].
  - intros id0 sc Hc Hin. simp_st. destruct (Nat.eqb_spec id0 id) as [->|Hne]; cbn [k_subs k_closed] in *.
    + apply (w_dead _ W) in Hc. congruence.
    + pose proof (w_subs_lt _ W _ _ Hin). destruct (Nat.eqb_spec sc (nsc s)); [lia|]. exact (w_shut _ W _ _ Hc Hin).
  - intros id0 sc Hin. simp_st. destruct (Nat.eqb_spec id0 id) as [->|Hne]; cbn [k_subs] in *.
    + apply in_app_or in Hin. destruct Hin as [Hin|[<-|[]]]; [pose proof (w_subs_lt _ W _ _ Hin)|]; lia.
    + pose proof (w_subs_lt _ W _ _ Hin). lia.
Qed.

Lemma mem_In x l : mem x l = true <-> In x l.
Proof.
  unfold mem. rewrite existsb_exists. split.
  - intros [y [Hy E]]. apply Nat.eqb_eq in E. subst. exact Hy.
  - intros H. exists x. split; [exact H|apply Nat.eqb_refl].
Qed.

Lemma mark_shut_inv s l : WInv s -> WInv (mark_shut l s).
Proof.
  intros W.
  constructor; [bullet W | bullet W | bullet W | bullet W | bullet W | bullet W | bullet W | | | bullet W | bullet W].
  - intros sc Hsc. simp_st. destruct (w_own _ W _ Hsc) as [A B]. unfold sc_owner, sc_shut, getkid in *.
    destruct (mem sc l); cbn [fst snd]; auto.
  - intros id0 sc Hc Hin. simp_st. destruct (mem sc l); cbn [snd]; [reflexivity|].
    exact (w_shut _ W _ _ Hc Hin).
Qed.

Lemma set_closed_kid_inv s id : WInv s -> live s id = false ->
  WInv (mark_shut (k_subs (getkid s id)) (upd_kid s id k_set_closed)).
Proof.
  intros W Hd. apply live_false in Hd. destruct Hd as [Hd1 Hd2].
  constructor; [bullet W | bullet W | bullet W | bullet W | bullet W | bullet W | bullet W | | | bullet W | bullet W].
  - intros sc Hsc. simp_st. destruct (w_own _ W _ Hsc) as [A B]. unfold sc_owner, sc_shut, getkid in *.
    destruct (mem sc (k_subs (kids s id))); cbn [fst snd]; [auto|]. split; [exact A|].
    destruct B as [B|B]; [left; exact B|right]. destruct (Nat.eqb_spec (fst (scs s sc)) id); exact B.
  - intros id0 sc Hc Hin. simp_st. destruct (mem sc (k_subs (kids s id))) eqn:Hm; cbn [snd]; [reflexivity|].
    destruct (Nat.eqb_spec id0 id) as [->|Hne]; cbn [k_subs k_closed] in *.
    + apply mem_In in Hin. congruence.
    + exact (w_shut _ W _ _ Hc Hin).
Qed.

Lemma close_child_dead s id : live s id = false ->
  close_child s id =
  (mark_shut (k_subs (getkid s id))
     (upd_kid (if k_noisy (getkid s id) then upd_kid s id (k_set_last READY) else s) id k_set_closed),
   [evC id] ++ map evS (k_subs (getkid s id))).
Proof.
  intros Hd. unfold close_child. rewrite child_newsc_dead by exact Hd.
  rewrite child_update_dead by exact Hd.
  destruct (k_noisy (getkid s id)); cbn [app];
    unfold getkid, upd_kid, set_kids, fupd; cbn [kids]; rewrite ?Nat.eqb_refl; reflexivity.
Qed.

Lemma close_child_inv s id : WInv s -> live s id = false -> WInv (fst (close_child s id)).
Proof.
  intros W Hd. rewrite close_child_dead by exact Hd. cbn [fst].
  destruct (k_noisy (getkid s id)).
  - replace (k_subs (getkid s id)) with (k_subs (getkid (upd_kid s id (k_set_last READY)) id))
      by (unfold getkid, upd_kid, set_kids, fupd; cbn [kids]; rewrite Nat.eqb_refl; reflexivity).
    apply set_closed_kid_inv; [apply upd_last_dead_inv; assumption | exact Hd].
  - apply set_closed_kid_inv; assumption.
Qed.

Definition install (s : st) (k : kid) : st :=
  let id := nk s in
  let s1 := set_kids s (fupd (kids s) id (fun _ => k)) (S id) in
  match cur s1 with
  | None => set_cp s1 (Some id) (pend s1)
  | Some _ => set_cp s1 (cur s1) (Some id)
  end.

Lemma install_inv s b nz : WInv s -> closed s = false ->
  WInv (install s (mkkid CONNECTING false [] b nz false)).
Proof.
  intros W Hnc. unfold install. cbn [cur pend set_kids].
  assert (Own : forall s', nk s' = S (nk s) -> scs s' = scs s -> nsc s' = nsc s ->
           kids s' = fupd (kids s) (nk s) (fun _ => mkkid CONNECTING false [] b nz false) ->
           forall sc, (sc < nsc s')%nat -> (sc_owner s' sc < nk s')%nat /\
            (sc_shut s' sc = true \/ In sc (k_subs (getkid s' (sc_owner s' sc))))).
  { intros s' E1 E2 E3 E4 sc Hsc. unfold sc_owner, sc_shut, getkid. rewrite E1, E2, E4. rewrite E3 in Hsc.
    destruct (w_own _ W _ Hsc) as [A B]. unfold sc_owner, sc_shut, getkid in *. split; [lia|].
    unfold fupd. destruct (Nat.eqb_spec (fst (scs s sc)) (nk s)); [lia|exact B]. }
  assert (Sub : forall s', nsc s' = nsc s ->
           kids s' = fupd (kids s) (nk s) (fun _ => mkkid CONNECTING false [] b nz false) ->
           forall id sc, In sc (k_subs (getkid s' id)) -> (sc < nsc s')%nat).
  { intros s' E3 E4 id sc Hin. unfold getkid in Hin. rewrite E4 in Hin. rewrite E3. unfold fupd in Hin.
    destruct (Nat.eqb_spec id (nk s)); [destruct Hin|]. exact (w_subs_lt _ W _ _ Hin). }
  destruct (cur s) as [c|] eqn:Ec.
  - pose proof (w_cur_lt _ W _ Ec) as Hc.
    constructor; [ | bullet W | bullet W | bullet W | bullet W | bullet W | bullet W | | bullet W | | ].
    + intros p Hp. cbn in Hp. inversion Hp; subst. split.
      * unfold getkid, fupd; cbn. rewrite Nat.eqb_refl. reflexivity.
      * exists c. split; [reflexivity|lia].
    + apply Own; reflexivity.
    + apply Sub; reflexivity.
    + intros c0 Ht. cbn in Ht. destruct (w_toclose _ W _ Ht) as [A B]. split; [cbn; lia|].
      live_props. cbn. split; [congruence|]. intros E; inversion E; lia.
  - constructor; [bullet W | bullet W | bullet W | bullet W | bullet W | bullet W | bullet W | | bullet W | | ].
    + apply Own; reflexivity.
    + apply Sub; reflexivity.
    + intros c0 Ht. cbn in Ht. destruct (w_toclose _ W _ Ht) as [A B]. split; [cbn; lia|].
      live_props. cbn. split; [|congruence]. intros E; inversion E; lia.
Qed.

Lemma close_child_proj s id : live s id = false ->
  let s' := fst (close_child s id) in
  nk s' = nk s /\ cur s' = cur s /\ pend s' = pend s /\ closed s' = closed s /\
  toclose s' = toclose s /\ chan s' = chan s /\ nsc s' = nsc s.
Proof.
  intros Hd. rewrite close_child_dead by exact Hd. cbn [fst].
  destruct (k_noisy (getkid s id)); cbn; repeat split; reflexivity.
Qed.

Lemma close_opt_inv s o : WInv s -> (forall id, o = Some id -> live s id = false) ->
  WInv (fst (close_opt s o)).
Proof.
  intros W H. destruct o as [id|]; cbn [close_opt]; [|exact W].
  apply close_child_inv; [exact W|apply H; reflexivity].
Qed.

Lemma close_opt_proj s o : (forall id, o = Some id -> live s id = false) ->
  let s' := fst (close_opt s o) in
  nk s' = nk s /\ cur s' = cur s /\ pend s' = pend s /\ closed s' = closed s /\
  toclose s' = toclose s /\ chan s' = chan s /\ nsc s' = nsc s.
Proof.
  intros H. destruct o as [id|]; cbn [close_opt].
  - apply close_child_proj. apply H. reflexivity.
  - cbn. repeat split; reflexivity.
Qed.

Lemma switch_to_inv cfg s b : WInv s -> WInv (fst (fst (switch_to cfg s b))).
Proof.
  intros W. unfold switch_to. destruct (closed s) eqn:Hc; [exact W|].
  set (k := mkkid CONNECTING false [] b (cfg_noisy cfg b) false).
  change (match cur (set_kids s (fupd (kids s) (nk s) (fun _ => k)) (S (nk s))) with
          | Some _ => set_cp (set_kids s (fupd (kids s) (nk s) (fun _ => k)) (S (nk s)))
                        (cur (set_kids s (fupd (kids s) (nk s) (fun _ => k)) (S (nk s)))) (Some (nk s))
          | None => set_cp (set_kids s (fupd (kids s) (nk s) (fun _ => k)) (S (nk s))) (Some (nk s))
                        (pend (set_kids s (fupd (kids s) (nk s) (fun _ => k)) (S (nk s))))
          end) with (install s k).
  cbn [pend set_kids].
  pose proof (install_inv s b (cfg_noisy cfg b) W Hc) as W2. fold k in W2.
  assert (Hdead : forall id, pend s = Some id -> live (install s k) id = false).
  { intros p Hp. destruct (w_pend _ W _ Hp) as [_ [c [Ec Hne]]]. pose proof (w_pend_lt _ W _ Hp).
    apply live_false. unfold install. cbn [cur pend set_kids]. rewrite Ec. cbn.
    split; intros E; inversion E; subst; [congruence|lia]. }
  pose proof (close_opt_inv _ _ W2 Hdead) as W3.
  destruct (close_opt_proj _ _ Hdead) as [Hnk _].
  destruct (close_opt (install s k) (pend s)) as [s3 e1]. cbn [fst] in *.
  assert (Hlt : (nk s < nk s3)%nat).
  { rewrite Hnk. unfold install. cbn [cur set_kids]. destruct (cur s); cbn; lia. }
  assert (W4 : WInv (fst (if inl_newsc (cfg_inl cfg b)
                          then let '(sa, ea, _) := child_newsc s3 (nk s) in (sa, ea) else (s3, [])))).
  { destruct (inl_newsc (cfg_inl cfg b)); [|exact W3].
    pose proof (child_newsc_inv s3 (nk s) W3 Hlt) as X.
    destruct (child_newsc s3 (nk s)) as [[sa ea] r]. exact X. }
  destruct (if inl_newsc (cfg_inl cfg b)
            then let '(sa, ea, _) := child_newsc s3 (nk s) in (sa, ea) else (s3, [])) as [s4 e2].
  cbn [fst] in W4.
  destruct (inl_state (cfg_inl cfg b)) as [v|].
  - pose proof (child_update_inv s4 (nk s) v W4) as X.
    destruct (child_update s4 (nk s) v) as [s5 e3]. exact X.
  - exact W4.
Qed.

Lemma remove_sub_inv s id sc : WInv s -> sc_shut s sc = true ->
  WInv (upd_kid s id (fun k => k_set_subs (remove_nat sc (k_subs k)) k)).
Proof.
  intros W Hs.
  constructor; [bullet W | bullet W | bullet W | bullet W | bullet W | bullet W | bullet W | | | | bullet W].
  - intros sc0 Hlt. simp_st. destruct (w_own _ W _ Hlt) as [A B]. unfold sc_owner, sc_shut, getkid in *.
    split; [exact A|]. destruct B as [B|B]; [left; exact B|].
    destruct (Nat.eqb_spec (fst (scs s sc0)) id) as [E|E]; cbn [k_subs]; [|right; exact B].
    destruct (Nat.eqb_spec sc sc0) as [->|Hne]; [left; exact Hs|right].
    unfold remove_nat. apply filter_In. split; [exact B|]. apply negb_true_iff, Nat.eqb_neq. exact Hne.
  - intros id0 sc0 Hc Hin. simp_st. destruct (Nat.eqb_spec id0 id) as [->|Hne]; cbn [k_subs k_closed] in *.
    + unfold remove_nat in Hin. apply filter_In in Hin. destruct Hin as [Hin _]. exact (w_shut _ W _ _ Hc Hin).
    + exact (w_shut _ W _ _ Hc Hin).
  - intros id0 sc0 Hin. simp_st. destruct (Nat.eqb_spec id0 id) as [->|Hne]; cbn [k_subs] in *.
    + unfold remove_nat in Hin. apply filter_In in Hin. destruct Hin as [Hin _]. exact (w_subs_lt _ W _ _ Hin).
    + exact (w_subs_lt _ W _ _ Hin).
Qed.

Lemma close_all_inv s : WInv s -> WInv (set_cp (set_closed s) None None).
Proof. intros W. constructor; bullet W. Qed.

Lemma set_chan_nocur_inv s x : WInv s -> cur s = None -> WInv (set_chan s x).
Proof. intros W E. constructor; bullet W. Qed.

Lemma set_toclose_none_inv s : WInv s -> WInv (set_toclose s None).
Proof. intros W. constructor; bullet W. Qed.

Lemma kid_of_lt s z id : kid_of s z = Some id -> (id < nk s)%nat /\ z = zn id.
Proof.
  unfold kid_of, zn. destruct ((0 <=? z) && (z <? Z.of_nat (nk s))) eqn:E; [|discriminate].
  intros [= <-]. apply andb_true_iff in E. destruct E as [A B]. apply Z.leb_le in A. apply Z.ltb_lt in B. lia.
Qed.

Lemma finish_inv s : WInv s -> WInv (fst (finish s)) /\ toclose (fst (finish s)) = None.
Proof.
  intros W. unfold finish.
  assert (D : forall id, toclose s = Some id -> live (set_toclose s None) id = false).
  { intros id H. destruct (w_toclose _ W _ H) as [_ B]. exact B. }
  split.
  - apply close_opt_inv; [apply set_toclose_none_inv; exact W|exact D].
  - destruct (close_opt_proj _ _ D) as [_ [_ [_ [_ [T _]]]]]. rewrite T. reflexivity.
Qed.

Lemma child_update_nk s id v : nk (fst (child_update s id v)) = nk s.
Proof.
  unfold child_update, swap.
  repeat match goal with |- context [if ?c then _ else _] => destruct c
                    | |- context [match ?c with Some _ => _ | None => _ end] => destruct c end; reflexivity.
Qed.

Lemma finish_proj s : WInv s ->
  let s' := fst (finish s) in
  nk s' = nk s /\ cur s' = cur s /\ pend s' = pend s /\ closed s' = closed s /\ nsc s' = nsc s.
Proof.
  intros W. unfold finish.
  assert (D : forall id, toclose s = Some id -> live (set_toclose s None) id = false).
  { intros id H. destruct (w_toclose _ W _ H) as [_ B]. exact B. }
  destruct (close_opt_proj _ _ D) as [A [B [C [E [_ [_ F]]]]]]. cbv zeta. rewrite A, B, C, E, F. repeat split.
Qed.

Lemma create_shut_inv s id : WInv s -> (id < nk s)%nat ->
  WInv (set_scs s (fupd (scs s) (nsc s) (fun _ => (id, true))) (S (nsc s))).
Proof.
  intros W Hlt.
  constructor; [bullet W | bullet W | bullet W | bullet W | bullet W | bullet W | bullet W | | | | bullet W].
  - intros sc Hsc. simp_st. destruct (Nat.eqb_spec sc (nsc s)) as [->|Hne]; cbn [fst snd].
    + split; [exact Hlt|left; reflexivity].
    + assert (Hlt2 : (sc < nsc s)%nat) by lia. exact (w_own _ W _ Hlt2).
  - intros id0 sc Hc Hin. simp_st. destruct (Nat.eqb_spec sc (nsc s)); [reflexivity|]. exact (w_shut _ W _ _ Hc Hin).
  - intros id0 sc Hin. simp_st. pose proof (w_subs_lt _ W _ _ Hin). lia.
Qed.

Lemma newsc_during_inv s id j v : WInv s -> (id < nk s)%nat -> WInv (fst (newsc_during s id j v)).
Proof.
  intros W Hlt. unfold newsc_during. destruct (live s id); cbn [negb]; [|exact W].
  pose proof (child_update_inv s j v W) as W1. pose proof (child_update_nk s j v) as N1.
  destruct (child_update s j v) as [s1 e1]. cbn [fst] in *.
  destruct (finish_inv s1 W1) as [W2 _]. destruct (finish_proj s1 W1) as [N2 _].
  destruct (finish s1) as [s2 e2]. cbn [fst] in *.
  assert (Hlt2 : (id < nk s2)%nat) by lia.
  destruct (live s2 id).
  - pose proof (child_newsc_inv s2 id W2 Hlt2) as X. destruct (child_newsc s2 id) as [[s3 e3] r]. exact X.
  - cbn [fst]. apply create_shut_inv; assumption.
Qed.

Lemma step_main_inv cfg s op : WInv s -> WInv (fst (step_main cfg s op)).
Proof.
  intros W. unfold step_main.
  destruct (arg op 0) as [|p|p]; try exact W.
  repeat (destruct p as [p|p|]; try exact W).
  all: first
  [ solve [ (* 11 *) destruct (kid_of s (arg op 1)) as [n|]; [|exact W]; destruct (sc_of s (arg op 2)); [|exact W];
            destruct (live s n); exact W ]
  | solve [ (* 7 *) destruct (kid_of s (arg op 1)); [|exact W]; destruct (sc_of s (arg op 2)); [|exact W];
            apply mark_shut_inv; exact W ]
  | solve [ (* 9 *) destruct (latest s); exact W ]
  | solve [ (* 10 *) destruct (kid_of s (arg op 1)) as [n|]; [|exact W]; destruct (oeq (latest s) n); exact W ]
  | solve [ (* 2 *) destruct (kid_of s (arg op 1)) as [id|]; [|exact W];
            destruct ((0 <=? arg op 2) && (arg op 2 <=? 3)); [|exact W]; apply child_update_inv; exact W ]
  | solve [ (* 1 *) destruct (valid_b (arg op 1)); [|exact W];
            pose proof (switch_to_inv cfg s (arg op 1) W) as X;
            destruct (switch_to cfg s (arg op 1)) as [[s1 e] r]; exact X ]
  | solve [ (* 6 *) destruct (valid_b (arg op 1)); [|exact W];
            destruct (match latest s with Some l => k_b (getkid s l) =? arg op 1 | None => false end); [exact W|];
            pose proof (switch_to_inv cfg s (arg op 1) W) as X;
            destruct (switch_to cfg s (arg op 1)) as [[s1 e] r]; destruct r; exact X ]
  | solve [ (* 3 *) destruct (kid_of s (arg op 1)) as [id|] eqn:E; [|exact W];
            apply kid_of_lt in E; destruct E as [E _];
            pose proof (child_newsc_inv s id W E) as X; destruct (child_newsc s id) as [[s1 e] r]; exact X ]
  | solve [ (* 12 *) destruct (kid_of s (arg op 1)) as [id|] eqn:E; [|exact W];
            apply kid_of_lt in E; destruct E as [E _];
            destruct (kid_of s (arg op 2)) as [j|]; [|exact W];
            destruct ((0 <=? arg op 3) && (arg op 3 <=? 3)); [|exact W];
            apply newsc_during_inv; assumption ]
  | solve [ (* 8 *) destruct (latest s) as [l|] eqn:E; [exact W|]; cbn [fst];
            apply set_chan_nocur_inv; [exact W|]; unfold latest in E; destruct (pend s); [discriminate|exact E] ]
  | solve [ (* 4 *) destruct (sc_of s (arg op 1)) as [sc|]; [|exact W];
            destruct ((0 <=? arg op 2) && (arg op 2 <=? 4) && (negb (arg op 2 =? SHUTDOWN) || sc_shut s sc)) eqn:G; [|exact W];
            destruct (bal_to_update s sc) as [id|]; [|exact W]; cbn [fst];
            destruct (arg op 2 =? SHUTDOWN) eqn:E; [|exact W];
            apply andb_true_iff in G; destruct G as [_ G]; cbn in G;
            apply remove_sub_inv; assumption ]
  | idtac ].
  (* 5 *)
  cbn [fst].
  assert (D1 : forall id, cur s = Some id -> live (set_cp (set_closed s) None None) id = false) by (intros; reflexivity).
  pose proof (close_opt_inv _ _ (close_all_inv _ W) D1) as W2.
  destruct (close_opt_proj _ _ D1) as [_ [Hc [Hp _]]].
  destruct (close_opt (set_cp (set_closed s) None None) (cur s)) as [s2 e1]. cbn [fst] in *.
  assert (D2 : forall id, pend s = Some id -> live s2 id = false).
  { intros. apply live_false. rewrite Hc, Hp. cbn. split; discriminate. }
  pose proof (close_opt_inv _ _ W2 D2) as W3.
  destruct (close_opt s2 (pend s)) as [s3 e2]. exact W3.
Qed.

(* the invariant at operation boundaries *)
Definition Inv (s : st) : Prop := WInv s /\ toclose s = None.

Lemma step_fst cfg s op : fst (step cfg s op) = fst (finish (fst (step_main cfg s op))).
Proof.
  unfold step. destruct (step_main cfg s op) as [s1 e1]. cbn [fst].
  destruct (finish s1) as [s2 e2]. reflexivity.
Qed.

Lemma step_inv cfg s op : Inv s -> Inv (fst (step cfg s op)).
Proof.
  intros [W _]. rewrite step_fst. apply finish_inv. apply step_main_inv. exact W.
Qed.

Lemma run_from_inv cfg ops : forall s, Inv s -> Inv (fst (run_from cfg s ops)).
Proof.
  induction ops as [|op r IH]; intros s I; cbn [run_from]; [exact I|].
  pose proof (step_inv cfg s op I) as I1. destruct (step cfg s op) as [s1 e]. cbn [fst] in I1.
  specialize (IH s1 I1). destruct (run_from cfg s1 r) as [s2 e']. exact IH.
Qed.

Lemma Inv_init : Inv init.
Proof. split; [exact WInv_init|reflexivity]. Qed.

(* ---------- events ---------- *)

Lemma u_events_app a b : u_events (a ++ b) = u_events a ++ u_events b.
Proof.
  induction a as [|w a IH]; [reflexivity|]. cbn [app].
  destruct w as [|z [|v [|id [|x r]]]]; cbn [u_events]; try exact IH;
  destruct z as [|p|p]; try exact IH; destruct p as [p|p|]; try exact IH.
  cbn [app]. rewrite IH. reflexivity.
Qed.

Lemma c_events_app a b : c_events (a ++ b) = c_events a ++ c_events b.
Proof.
  induction a as [|w a IH]; [reflexivity|]. cbn [app].
  destruct w as [|z [|id [|x r]]]; cbn [c_events]; try exact IH;
  destruct z as [|p|p]; try exact IH; destruct p as [p|p|]; try exact IH;
  destruct p as [p|p|]; try exact IH.
  cbn [app]. rewrite IH. reflexivity.
Qed.

Lemma u_events_S l : u_events (map evS l) = [].
Proof. induction l; [reflexivity|exact IHl]. Qed.
Lemma c_events_S l : c_events (map evS l) = [].
Proof. induction l; [reflexivity|exact IHl]. Qed.
Lemma chan_S l : existsb chan_event (map evS l) = false.
Proof. induction l; [reflexivity|exact IHl]. Qed.

Lemma close_opt_events s o : (forall id, o = Some id -> live s id = false) ->
  snd (close_opt s o) = match o with
                        | Some id => [evC id] ++ map evS (k_subs (getkid s id))
                        | None => []
                        end.
Proof.
  intros H. destruct o as [id|]; [|reflexivity]. cbn [close_opt].
  rewrite close_child_dead by (apply H; reflexivity). reflexivity.
Qed.

Lemma close_events_u s o : (forall id, o = Some id -> live s id = false) ->
  u_events (snd (close_opt s o)) = [] /\ c_events (snd (close_opt s o)) = map zn (olist o) /\
  existsb chan_event (snd (close_opt s o)) = false.
Proof.
  intros H. rewrite close_opt_events by exact H. destruct o as [id|]; [|repeat split; reflexivity].
  cbn [app]. repeat split.
  - cbn [u_events evC]. apply u_events_S.
  - cbn [c_events evC olist map]. rewrite c_events_S. reflexivity.
  - cbn [existsb chan_event evC orb]. apply chan_S.
Qed.

Definition hold_b (s : st) (c p : nat) := hold (k_last (getkid s c)) (k_last (getkid s p)).

(* the code's two swap rules coincide with the property's symmetric condition *)
Lemma child_update_spec s id v : WInv s -> toclose s = None ->
  let r := child_update s id v in
  u_events (snd r) = fst (spec_report s id v) /\ c_events (snd r) = [] /\
  olist (toclose (fst r)) = snd (spec_report s id v) /\
  (live s id = false -> snd r = []) /\
  nk (fst r) = nk s /\ nsc (fst r) = nsc s /\ scs (fst r) = scs s /\
  (forall x, k_subs (getkid (fst r) x) = k_subs (getkid s x)).
Proof.
  intros W T. cbv zeta.
  assert (Subs : forall x, k_subs (getkid (upd_kid s id (k_set_last v)) x) = k_subs (getkid s x)).
  { intros x. simp_st. destruct (Nat.eqb_spec x id); reflexivity. }
  destruct (live s id) eqn:Hl.
  2:{ rewrite child_update_dead by exact Hl. unfold spec_report. rewrite Hl. cbn [negb fst snd].
      repeat split; try reflexivity; try exact Subs. cbn. rewrite T. reflexivity. }
  unfold child_update, spec_report. rewrite live_upd, Hl. cbn [negb].
  change (cur (upd_kid s id (k_set_last v))) with (cur s).
  change (pend (upd_kid s id (k_set_last v))) with (pend s).
  destruct (oeq (cur s) id) eqn:Hc.
  - apply oeq_true in Hc. rewrite Hc. destruct (pend s) as [p|] eqn:Hp.
    + destruct (w_pend _ W _ Hp) as [Lp [c [Ec Hne]]]. rewrite Hc in Ec. inversion Ec; subst c.
      rewrite Nat.eqb_refl. destruct (Nat.eqb_spec p id) as [E|_]; [congruence|].
      rewrite Lp. unfold hold. rewrite Z.eqb_refl, andb_true_r.
      destruct (v =? READY) eqn:Ev; cbn [negb].
      * cbn. rewrite T. repeat split; try reflexivity; try discriminate; exact Subs.
      * unfold swap. change (pend (upd_kid s id (k_set_last v))) with (pend s). rewrite Hp.
        cbn [fst snd]. simp_st. destruct (Nat.eqb_spec p id) as [E|_]; [congruence|]. cbn.
        unfold getkid in Lp. rewrite Lp, Hc.
        repeat split; try reflexivity; try discriminate.
        intros x. destruct (Nat.eqb_spec x id); reflexivity.
    + cbn. rewrite T. repeat split; try reflexivity; try discriminate; exact Subs.
  - assert (Hp : pend s = Some id).
    { apply live_true in Hl. apply oeq_false in Hc. tauto. }
    rewrite Hp. destruct (w_pend _ W _ Hp) as [Lp [c [Ec Hne]]]. rewrite Ec.
    rewrite Nat.eqb_refl. destruct (Nat.eqb_spec c id) as [E|_]; [congruence|].
    unfold last_of. replace (k_last (getkid (upd_kid s id (k_set_last v)) c)) with (k_last (getkid s c))
      by (simp_st; destruct (Nat.eqb_spec c id); [congruence|reflexivity]).
    unfold hold.
    destruct (k_last (getkid s c) =? READY) eqn:E1; destruct (v =? CONNECTING) eqn:E2; cbn [negb orb andb].
    + cbn. rewrite T. repeat split; try reflexivity; try discriminate; exact Subs.
    + unfold swap. change (pend (upd_kid s id (k_set_last v))) with (pend s). rewrite Hp.
      cbn [fst snd]. simp_st. rewrite Nat.eqb_refl. cbn. rewrite Ec.
      repeat split; try reflexivity; try discriminate.
      intros x. destruct (Nat.eqb_spec x id); reflexivity.
    + unfold swap. change (pend (upd_kid s id (k_set_last v))) with (pend s). rewrite Hp.
      cbn [fst snd]. simp_st. rewrite Nat.eqb_refl. cbn. rewrite Ec.
      repeat split; try reflexivity; try discriminate.
      intros x. destruct (Nat.eqb_spec x id); reflexivity.
    + unfold swap. change (pend (upd_kid s id (k_set_last v))) with (pend s). rewrite Hp.
      cbn [fst snd]. simp_st. rewrite Nat.eqb_refl. cbn. rewrite Ec.
      repeat split; try reflexivity; try discriminate.
      intros x. destruct (Nat.eqb_spec x id); reflexivity.
Qed.

Lemma word_eqb_refl w : word_eqb w w = true.
Proof. induction w as [|z w IH]; [reflexivity|]. cbn. rewrite Z.eqb_refl. exact IH. Qed.

Lemma has_shutdown_app a b sc : has_shutdown (a ++ b) sc = has_shutdown a sc || has_shutdown b sc.
Proof. unfold has_shutdown. apply existsb_app. Qed.

Lemma has_shutdown_map l sc : In sc l -> has_shutdown (map evS l) sc = true.
Proof.
  intros H. unfold has_shutdown. apply existsb_exists. exists (evS sc). split.
  - apply in_map. exact H.
  - apply word_eqb_refl.
Qed.

Lemma shut_ok_close s chunk c : WInv s ->
  (forall sc, In sc (k_subs (getkid s c)) -> has_shutdown chunk sc = true) ->
  shut_ok s chunk (zn c) = true.
Proof.
  intros W H. unfold shut_ok. apply forallb_forall. intros sc Hin. apply in_seq in Hin.
  unfold zn. rewrite Nat2Z.id.
  destruct (Nat.eqb_spec (sc_owner s sc) c) as [E|E]; cbn [negb orb]; [|reflexivity].
  destruct (w_own _ W sc ltac:(lia)) as [_ [B|B]].
  - rewrite B. reflexivity.
  - rewrite E in B. rewrite (H _ B). apply orb_true_r.
Qed.

Lemma close_child_subs s id x : live s id = false ->
  k_subs (getkid (fst (close_child s id)) x) = k_subs (getkid s x).
Proof.
  intros Hd. rewrite close_child_dead by exact Hd. cbn [fst].
  destruct (k_noisy (getkid s id)); simp_st; destruct (Nat.eqb_spec x id); reflexivity.
Qed.

Definition chunk (cfg : word) (s : st) (op : word) : list word :=
  snd (step_main cfg s op) ++ snd (finish (fst (step_main cfg s op))).

Lemma step_snd cfg s op : snd (step cfg s op) = chunk cfg s op ++ [[0]].
Proof.
  unfold step, chunk. destruct (step_main cfg s op) as [s1 e1]. cbn [fst snd].
  destruct (finish s1) as [s2 e2]. cbn [snd]. rewrite app_assoc. reflexivity.
Qed.

Lemma finish_events s : WInv s ->
  snd (finish s) = match toclose s with
                   | Some c => [evC c] ++ map evS (k_subs (getkid s c))
                   | None => []
                   end.
Proof.
  intros W. unfold finish. rewrite close_opt_events.
  - destruct (toclose s); reflexivity.
  - intros id H. destruct (w_toclose _ W _ H) as [_ B]. exact B.
Qed.

(* clauses 1-4 for a report of policy id *)
Lemma update_clauses s id v : Inv s ->
  let r := child_update s id v in
  let ch := snd r ++ snd (finish (fst r)) in
  u_events ch = fst (spec_report s id v) /\
  c_events ch = map zn (snd (spec_report s id v)) /\
  (live s id = false -> ch = []) /\
  forallb (shut_ok s ch) (c_events ch) = true.
Proof.
  intros [W T]. cbv zeta.
  pose proof (child_update_inv s id v W) as W1.
  destruct (child_update_spec s id v W T) as [U [C [TC [D [_ [_ [_ Subs]]]]]]].
  rewrite (finish_events _ W1).
  assert (CE : c_events (snd (child_update s id v) ++
                 match toclose (fst (child_update s id v)) with
                 | Some c => [evC c] ++ map evS (k_subs (getkid (fst (child_update s id v)) c))
                 | None => []
                 end) = map zn (snd (spec_report s id v))).
  { rewrite c_events_app, C, <- TC. destruct (toclose (fst (child_update s id v))); [|reflexivity].
    cbn [app c_events evC olist map]. rewrite c_events_S. reflexivity. }
  repeat split.
  - rewrite u_events_app, U. destruct (toclose (fst (child_update s id v))).
    + cbn [app u_events evC]. rewrite u_events_S. apply app_nil_r.
    + apply app_nil_r.
  - exact CE.
  - intros Hd. rewrite (D Hd). rewrite child_update_dead by exact Hd. cbn. rewrite T. reflexivity.
  - rewrite CE. rewrite <- TC. destruct (toclose (fst (child_update s id v))) as [c|]; [|reflexivity].
    cbn [olist map forallb]. rewrite andb_true_r. apply shut_ok_close; [exact W|].
    intros sc Hin. rewrite has_shutdown_app. apply orb_true_iff. right.
    change ([evC c] ++ map evS (k_subs (getkid (fst (child_update s id v)) c)))
      with ([evC c] ++ map evS (k_subs (getkid (fst (child_update s id v)) c))).
    rewrite has_shutdown_app. apply orb_true_iff. right. apply has_shutdown_map. rewrite Subs. exact Hin.
Qed.

Lemma child_newsc_proj s id :
  let r := child_newsc s id in
  let s' := fst (fst r) in
  cur s' = cur s /\ pend s' = pend s /\ toclose s' = toclose s /\ closed s' = closed s /\ nk s' = nk s /\
  (forall x, k_last (getkid s' x) = k_last (getkid s x)) /\
  (forall x, x <> id -> k_subs (getkid s' x) = k_subs (getkid s x)) /\
  u_events (snd (fst r)) = [] /\ c_events (snd (fst r)) = [].
Proof.
  cbv zeta. unfold child_newsc. destruct (live s id); cbn [negb fst snd].
  - repeat split; try reflexivity; intros x; simp_st; destruct (Nat.eqb_spec x id); try reflexivity; congruence.
  - repeat split; reflexivity.
Qed.

Lemma close_child_last s id x : live s id = false -> x <> id ->
  k_last (getkid (fst (close_child s id)) x) = k_last (getkid s x).
Proof.
  intros Hd Hx. rewrite close_child_dead by exact Hd. cbn [fst].
  destruct (k_noisy (getkid s id)); simp_st; destruct (Nat.eqb_spec x id); try reflexivity; congruence.
Qed.

Lemma has_shutdown_close w l r sc : In sc l -> has_shutdown (w :: map evS l ++ r) sc = true.
Proof.
  intros H. change (w :: map evS l ++ r) with ([w] ++ map evS l ++ r).
  rewrite !has_shutdown_app, (has_shutdown_map _ _ H). rewrite orb_true_r. reflexivity.
Qed.

(* switchTo up to (not including) the inline report of the new policy *)
Lemma switch_mid cfg s b : Inv s -> closed s = false ->
  exists s4 e12,
    switch_to cfg s b =
      (let '(s5, e3) := match inl_state (cfg_inl cfg b) with
                        | Some v => child_update s4 (nk s) v
                        | None => (s4, [])
                        end in (s5, e12 ++ e3, Some (nk s))) /\
    WInv s4 /\ toclose s4 = None /\
    cur s4 = match cur s with Some c => Some c | None => Some (nk s) end /\
    pend s4 = match cur s with Some _ => Some (nk s) | None => None end /\
    (forall c, cur s = Some c -> k_last (getkid s4 c) = k_last (getkid s c)) /\
    (forall x, (x < nk s)%nat -> k_subs (getkid s4 x) = k_subs (getkid s x)) /\
    u_events e12 = [] /\ c_events e12 = map zn (olist (pend s)) /\
    (forall p sc, pend s = Some p -> In sc (k_subs (getkid s p)) -> has_shutdown e12 sc = true).
Proof.
  intros [W T] Hc. unfold switch_to. rewrite Hc.
  set (k := mkkid CONNECTING false [] b (cfg_noisy cfg b) false).
  change (match cur (set_kids s (fupd (kids s) (nk s) (fun _ => k)) (S (nk s))) with
          | Some _ => set_cp (set_kids s (fupd (kids s) (nk s) (fun _ => k)) (S (nk s)))
                        (cur (set_kids s (fupd (kids s) (nk s) (fun _ => k)) (S (nk s)))) (Some (nk s))
          | None => set_cp (set_kids s (fupd (kids s) (nk s) (fun _ => k)) (S (nk s))) (Some (nk s))
                        (pend (set_kids s (fupd (kids s) (nk s) (fun _ => k)) (S (nk s))))
          end) with (install s k).
  cbn [pend set_kids].
  pose proof (install_inv s b (cfg_noisy cfg b) W Hc) as W2. fold k in W2.
  assert (Hdead : forall id, pend s = Some id -> live (install s k) id = false).
  { intros p Hp. destruct (w_pend _ W _ Hp) as [_ [c [Ec Hne]]]. pose proof (w_pend_lt _ W _ Hp).
    apply live_false. unfold install. cbn [cur pend set_kids]. rewrite Ec. cbn.
    split; intros E; inversion E; subst; [congruence|lia]. }
  assert (I2c : cur (install s k) = match cur s with Some c => Some c | None => Some (nk s) end).
  { unfold install. cbn [cur set_kids]. destruct (cur s); reflexivity. }
  assert (I2p : pend (install s k) = match cur s with Some _ => Some (nk s) | None => None end).
  { unfold install. cbn [cur pend set_kids]. destruct (cur s) eqn:Ec; cbn; [reflexivity|].
    destruct (pend s) as [p|] eqn:Ep; [|reflexivity]. destruct (w_pend _ W _ Ep) as [_ [c [Ec' _]]]. congruence. }
  assert (I2k : forall x, (x < nk s)%nat -> getkid (install s k) x = getkid s x).
  { intros x Hx. unfold install. cbn [cur set_kids]. destruct (cur s); simp_st;
      destruct (Nat.eqb_spec x (nk s)); try reflexivity; lia. }
  assert (I2t : toclose (install s k) = None).
  { unfold install. cbn [cur set_kids]. destruct (cur s); exact T. }
  pose proof (close_opt_inv _ _ W2 Hdead) as W3.
  destruct (close_opt_proj _ _ Hdead) as [Hnk [P3c [P3p [_ [P3t _]]]]].
  pose proof (close_opt_events _ _ Hdead) as E1.
  assert (K3l : forall c, cur s = Some c ->
            k_last (getkid (fst (close_opt (install s k) (pend s))) c) = k_last (getkid s c)).
  { intros c Ec. pose proof (w_cur_lt _ W _ Ec). destruct (pend s) as [p|] eqn:Ep; cbn [close_opt].
    - destruct (w_pend _ W _ Ep) as [_ [c' [Ec' Hne]]]. assert (c' = c) by congruence. subst c'.
      rewrite close_child_last; [|apply Hdead; reflexivity|exact Hne]. rewrite I2k by lia. reflexivity.
    - cbn [fst]. rewrite I2k by lia. reflexivity. }
  assert (K3s : forall x, (x < nk s)%nat ->
            k_subs (getkid (fst (close_opt (install s k) (pend s))) x) = k_subs (getkid s x)).
  { intros x Hx. destruct (pend s) as [p|] eqn:Ep; cbn [close_opt].
    - rewrite close_child_subs by (apply Hdead; reflexivity). rewrite I2k by lia. reflexivity.
    - cbn [fst]. rewrite I2k by lia. reflexivity. }
  destruct (close_opt (install s k) (pend s)) as [s3 e1]. cbn [fst snd] in *.
  assert (Hlt : (nk s < nk s3)%nat).
  { rewrite Hnk. unfold install. cbn [cur set_kids]. destruct (cur s); cbn; lia. }
  pose proof (child_newsc_inv s3 (nk s) W3 Hlt) as W4.
  destruct (child_newsc_proj s3 (nk s)) as [N1 [N2 [N3 [_ [_ [N6 [N7 [N8 N9]]]]]]]].
  destruct (inl_newsc (cfg_inl cfg b)).
  - destruct (child_newsc s3 (nk s)) as [[sa ea] r]. cbn [fst snd] in *.
    exists sa, (e1 ++ [evB (nk s) b] ++ ea). split.
    { destruct (inl_state (cfg_inl cfg b)); [destruct (child_update sa (nk s) z)|];
        rewrite <- !app_assoc; reflexivity. }
    split; [exact W4|]. split; [congruence|]. split; [congruence|]. split; [congruence|].
    split; [intros c Ec; rewrite N6; apply K3l; exact Ec|].
    split; [intros x Hx; rewrite N7 by lia; apply K3s; exact Hx|].
    rewrite !u_events_app, !c_events_app, N8, N9, E1.
    destruct (pend s) as [p|] eqn:Ep.
    + cbn [app u_events c_events evC evB olist map]. rewrite u_events_S, c_events_S. repeat split.
      intros p0 sc [= <-] Hin. apply has_shutdown_close.
      rewrite I2k by (exact (w_pend_lt _ W _ Ep)). exact Hin.
    + repeat split. intros; discriminate.
  - exists s3, (e1 ++ [evB (nk s) b]). split.
    { destruct (inl_state (cfg_inl cfg b)); [destruct (child_update s3 (nk s) z)|];
        cbn [app]; rewrite <- !app_assoc; reflexivity. }
    split; [exact W3|]. split; [congruence|]. split; [congruence|]. split; [congruence|].
    split; [exact K3l|]. split; [exact K3s|].
    rewrite !u_events_app, !c_events_app, E1.
    destruct (pend s) as [p|] eqn:Ep.
    + cbn [app u_events c_events evC evB olist map]. rewrite u_events_S, c_events_S. repeat split.
      intros p0 sc [= <-] Hin. apply has_shutdown_close.
      rewrite I2k by (exact (w_pend_lt _ W _ Ep)). exact Hin.
    + repeat split. intros; discriminate.
Qed.

Lemma update_shutdowns s id v : Inv s ->
  let r := child_update s id v in
  let ch := snd r ++ snd (finish (fst r)) in
  forall c sc, In c (snd (spec_report s id v)) -> In sc (k_subs (getkid s c)) -> has_shutdown ch sc = true.
Proof.
  intros [W T]. cbv zeta. intros c sc Hc Hin.
  pose proof (child_update_inv s id v W) as W1.
  destruct (child_update_spec s id v W T) as [_ [_ [TC [_ [_ [_ [_ Subs]]]]]]].
  rewrite (finish_events _ W1). rewrite <- TC in Hc.
  destruct (toclose (fst (child_update s id v))) as [c'|]; [|destruct Hc].
  destruct Hc as [<-|[]]. rewrite has_shutdown_app. apply orb_true_iff. right.
  rewrite has_shutdown_app. apply orb_true_iff. right. apply has_shutdown_map. rewrite Subs. exact Hin.
Qed.

Lemma forallb_shut_ok s ch (l : list nat) : WInv s ->
  (forall c sc, In c l -> In sc (k_subs (getkid s c)) -> has_shutdown ch sc = true) ->
  forallb (shut_ok s ch) (map zn l) = true.
Proof.
  intros W H. apply forallb_forall. intros z Hz. apply in_map_iff in Hz. destruct Hz as [c [<- Hc]].
  apply shut_ok_close; [exact W|]. intros sc Hin. exact (H c sc Hc Hin).
Qed.

Lemma switch_clauses cfg s b X : Inv s -> u_events X = [] -> c_events X = [] ->
  let r := switch_to cfg s b in
  let ch := snd (fst r) ++ X ++ snd (finish (fst (fst r))) in
  u_events ch = fst (spec_switch cfg s b) /\
  c_events ch = map zn (snd (spec_switch cfg s b)) /\
  forallb (shut_ok s ch) (c_events ch) = true.
Proof.
  intros I XU XC. pose proof I as [W T]. cbv zeta.
  destruct (closed s) eqn:Hc.
  { unfold switch_to, spec_switch. rewrite Hc. cbn [fst snd app].
    rewrite (finish_events _ W), T, app_nil_r, XU, XC. repeat split; reflexivity. }
  destruct (switch_mid cfg s b I Hc) as [s4 [e12 [E [W4 [T4 [C4 [P4 [L4 [S4 [U12 [C12 H12]]]]]]]]]]].
  rewrite E. unfold spec_switch. rewrite Hc.
  assert (PN : cur s = None -> pend s = None).
  { intros Ec. destruct (pend s) as [p|] eqn:Ep; [|reflexivity].
    destruct (w_pend _ W _ Ep) as [_ [c [Ec' _]]]. congruence. }
  destruct (inl_state (cfg_inl cfg b)) as [v|].
  - assert (I4 : Inv s4) by (split; assumption).
    destruct (update_clauses s4 (nk s) v I4) as [U3 [C3 [_ _]]].
    pose proof (update_shutdowns s4 (nk s) v I4) as SH. cbv zeta in SH.
    destruct (child_update s4 (nk s) v) as [s5 e3]. cbn [fst snd] in *.
    assert (ECH : (e12 ++ e3) ++ X ++ snd (finish s5) = e12 ++ (e3 ++ X ++ snd (finish s5)))
      by (rewrite <- app_assoc; reflexivity).
    assert (UU : u_events ((e12 ++ e3) ++ X ++ snd (finish s5)) = fst (spec_report s4 (nk s) v)).
    { rewrite ECH, !u_events_app, U12, XU. rewrite u_events_app in U3. cbn [app]. exact U3. }
    assert (CC : c_events ((e12 ++ e3) ++ X ++ snd (finish s5)) =
                 map zn (olist (pend s)) ++ map zn (snd (spec_report s4 (nk s) v))).
    { rewrite ECH, !c_events_app, C12, XC. rewrite c_events_app in C3. cbn [app]. rewrite C3. reflexivity. }
    assert (SH' : forall c sc, In c (snd (spec_report s4 (nk s) v)) -> In sc (k_subs (getkid s4 c)) ->
              has_shutdown ((e12 ++ e3) ++ X ++ snd (finish s5)) sc = true).
    { intros c sc Hc' Hin. specialize (SH c sc Hc' Hin). rewrite ECH.
      rewrite !has_shutdown_app in *. apply orb_true_iff in SH. destruct SH as [SH|SH]; rewrite SH;
        rewrite ?orb_true_r; reflexivity. }
    assert (SP : forall p sc, pend s = Some p -> In sc (k_subs (getkid s p)) ->
              has_shutdown ((e12 ++ e3) ++ X ++ snd (finish s5)) sc = true).
    { intros p sc Hp Hin. rewrite ECH, has_shutdown_app, (H12 p sc Hp Hin). reflexivity. }
    rewrite UU, CC. remember (spec_report s4 (nk s) v) as sr eqn:Esr. unfold spec_report in Esr.
    assert (LV : live s4 (nk s) = true).
    { apply live_true. rewrite C4, P4. destruct (cur s); auto. }
    rewrite LV in Esr. cbn [negb] in Esr. rewrite C4, P4 in Esr.
    destruct (cur s) as [c|] eqn:Ec.
    + pose proof (w_cur_lt _ W _ Ec) as Hlt.
      rewrite Nat.eqb_refl in Esr. destruct (Nat.eqb_spec c (nk s)) as [E'|_]; [lia|].
      rewrite (L4 c eq_refl) in Esr.
      destruct (hold (k_last (getkid s c)) v); subst sr.
      * cbn [fst snd map]. rewrite app_nil_r. repeat split.
        apply forallb_shut_ok; [exact W|]. intros p sc Hp Hin. destruct (pend s) as [p'|] eqn:Ep; [|destruct Hp].
        destruct Hp as [<-|[]]. exact (SP p' sc eq_refl Hin).
      * cbn [fst snd]. rewrite <- map_app. repeat split.
        apply forallb_shut_ok; [exact W|]. intros p sc Hp Hin. apply in_app_or in Hp. destruct Hp as [Hp|[<-|[]]].
        -- destruct (pend s) as [p'|] eqn:Ep; [|destruct Hp]. destruct Hp as [<-|[]]. exact (SP p' sc eq_refl Hin).
        -- apply (SH' c sc); [left; reflexivity|]. rewrite S4 by exact Hlt. exact Hin.
    + subst sr. rewrite (PN eq_refl) in *. cbn [fst snd map olist app forallb]. repeat split.
  - cbn [fst snd]. rewrite (finish_events _ W4), T4, !app_nil_r.
    rewrite !u_events_app, !c_events_app, U12, C12, XU, XC, app_nil_r.
    assert (SP : forall p sc, In p (olist (pend s)) -> In sc (k_subs (getkid s p)) ->
              has_shutdown (e12 ++ X) sc = true).
    { intros p sc Hp Hin. destruct (pend s) as [p'|] eqn:Ep; [|destruct Hp]. destruct Hp as [<-|[]].
      rewrite has_shutdown_app, (H12 p' sc eq_refl Hin). reflexivity. }
    destruct (cur s) as [c|] eqn:Ec.
    + cbn [fst snd app]. rewrite ?app_nil_r. repeat split. apply forallb_shut_ok; assumption.
    + rewrite (PN eq_refl) in *. cbn [fst snd olist map app forallb]. repeat split.
Qed.

Lemma close_clauses s : Inv s ->
  let s1 := set_cp (set_closed s) None None in
  let r1 := close_opt s1 (cur s) in
  let r2 := close_opt (fst r1) (pend s) in
  let ch := (snd r1 ++ snd r2) ++ snd (finish (fst r2)) in
  u_events ch = [] /\ c_events ch = map zn (olist (cur s) ++ olist (pend s)) /\
  forallb (shut_ok s ch) (c_events ch) = true.
Proof.
  intros [W T]. cbv zeta.
  set (s1 := set_cp (set_closed s) None None).
  assert (D1 : forall id, cur s = Some id -> live s1 id = false) by (intros; reflexivity).
  pose proof (close_opt_inv _ _ (close_all_inv _ W) D1) as W2. fold s1 in W2.
  destruct (close_opt_proj _ _ D1) as [_ [Hc [Hp [_ [Ht _]]]]].
  pose proof (close_opt_events _ _ D1) as E1.
  assert (K2 : forall x, k_subs (getkid (fst (close_opt s1 (cur s))) x) = k_subs (getkid s x)).
  { intros x. destruct (cur s) as [c|]; cbn [close_opt]; [|reflexivity].
    rewrite close_child_subs by reflexivity. reflexivity. }
  destruct (close_opt s1 (cur s)) as [s2 e1]. cbn [fst snd] in *.
  assert (D2 : forall id, pend s = Some id -> live s2 id = false).
  { intros. apply live_false. rewrite Hc, Hp. cbn. split; discriminate. }
  pose proof (close_opt_inv _ _ W2 D2) as W3.
  destruct (close_opt_proj _ _ D2) as [_ [_ [_ [_ [Ht3 _]]]]].
  pose proof (close_opt_events _ _ D2) as E2.
  destruct (close_opt s2 (pend s)) as [s3 e2]. cbn [fst snd] in *.
  rewrite (finish_events _ W3), Ht3, Ht. cbn [toclose s1 set_cp set_closed]. rewrite T, app_nil_r.
  subst e1 e2.
  assert (CE : c_events
     (match cur s with Some id => [evC id] ++ map evS (k_subs (getkid s1 id)) | None => [] end ++
      match pend s with Some id => [evC id] ++ map evS (k_subs (getkid s2 id)) | None => [] end) =
     map zn (olist (cur s) ++ olist (pend s))).
  { rewrite c_events_app. destruct (cur s), (pend s); cbn [app c_events evC olist map]; rewrite ?c_events_S; reflexivity. }
  repeat split.
  - rewrite u_events_app. destruct (cur s), (pend s); cbn [app u_events evC]; rewrite ?u_events_S; reflexivity.
  - exact CE.
  - rewrite CE. apply forallb_shut_ok; [exact W|]. intros c sc Hc' Hin. rewrite has_shutdown_app.
    apply in_app_or in Hc'. destruct Hc' as [Hc'|Hc'].
    + destruct (cur s) as [c'|]; [|destruct Hc']. destruct Hc' as [<-|[]].
      apply orb_true_iff. left. rewrite has_shutdown_app. apply orb_true_iff. right.
      apply has_shutdown_map. exact Hin.
    + destruct (pend s) as [p'|]; [|destruct Hc']. destruct Hc' as [<-|[]].
      apply orb_true_iff. right. rewrite <- K2 in Hin. rewrite has_shutdown_app. apply orb_true_iff. right.
      apply has_shutdown_map. exact Hin.
Qed.

Definition op_ok (cfg : word) (s : st) (op : word) : Prop :=
  let ch := chunk cfg s op in
  let ex := expected cfg s op in
  u_events ch = fst ex /\ c_events ch = map zn (snd ex) /\
  forallb (shut_ok s ch) (c_events ch) = true /\
  (forall id, actor s op = Some id -> live s id = false -> existsb chan_event ch = false).

Lemma finish_nil s : WInv s -> toclose s = None -> snd (finish s) = [].
Proof. intros W T. rewrite (finish_events _ W), T. reflexivity. Qed.

Lemma op_ok_silent cfg s op e : Inv s ->
  step_main cfg s op = (s, e) -> expected cfg s op = ([], []) ->
  u_events e = [] -> c_events e = [] ->
  (forall id, actor s op = Some id -> live s id = false -> existsb chan_event e = false) ->
  op_ok cfg s op.
Proof.
  intros [W T] E X U C A. unfold op_ok, chunk. rewrite E, X. cbn [fst snd].
  rewrite (finish_nil _ W T), app_nil_r, U, C. repeat split. exact A.
Qed.

Lemma op_ok_2 cfg s op : Inv s -> arg op 0 = 2 -> op_ok cfg s op.
Proof.
  intros I E. pose proof I as [W T].
  destruct (kid_of s (arg op 1)) as [id|] eqn:K.
  2:{ apply (op_ok_silent cfg s op []); auto; unfold step_main, expected, actor; rewrite E, ?K; try reflexivity;
      try (intros; discriminate). }
  destruct ((0 <=? arg op 2) && (arg op 2 <=? 3)) eqn:V.
  2:{ apply (op_ok_silent cfg s op []); auto; unfold step_main, expected, actor; rewrite E, ?K, ?V; reflexivity. }
  destruct (update_clauses s id (arg op 2) I) as [U [C [D F]]].
  unfold op_ok, chunk, step_main, expected, actor. rewrite E, K, V.
  repeat split; try assumption.
  intros id' [= <-] Hd. rewrite (D Hd). reflexivity.
Qed.

Lemma op_ok_3 cfg s op : Inv s -> arg op 0 = 3 -> op_ok cfg s op.
Proof.
  intros I E. pose proof I as [W T].
  destruct (kid_of s (arg op 1)) as [id|] eqn:K.
  2:{ apply (op_ok_silent cfg s op []); auto; unfold step_main, expected, actor; rewrite E, ?K; try reflexivity;
      try (intros; discriminate). }
  pose proof K as K'. apply kid_of_lt in K'. destruct K' as [Hlt _].
  pose proof (child_newsc_inv s id W Hlt) as W1.
  destruct (child_newsc_proj s id) as [_ [_ [T1 [_ [_ [_ [_ [U1 C1]]]]]]]].
  unfold op_ok, chunk, step_main, expected, actor. rewrite E, K.
  destruct (live s id) eqn:Hl.
  - unfold child_newsc in *. rewrite Hl in *. cbn [negb fst snd] in *.
    rewrite (finish_nil _ W1 (eq_trans T1 T)). cbn. repeat split. intros id' [= <-] Hd. congruence.
  - rewrite child_newsc_dead by exact Hl. cbn [fst snd app].
    rewrite (finish_nil _ W T). cbn. repeat split.
Qed.

Lemma op_ok_simple cfg s op : Inv s ->
  (arg op 0 = 4 \/ arg op 0 = 7 \/ arg op 0 = 9 \/ arg op 0 = 10 \/ arg op 0 = 11 \/ arg op 0 = 8) ->
  op_ok cfg s op.
Proof.
  intros I E. pose proof I as [W T]. pose proof (step_main_inv cfg s op W) as W1.
  unfold op_ok, chunk. revert W1. unfold step_main, expected, actor.
  destruct E as [E|[E|[E|[E|[E|E]]]]]; rewrite E.
  - destruct (sc_of s (arg op 1)) as [sc|]; [|intros W1; rewrite (finish_nil _ W1 T); cbn; repeat split; intros; discriminate].
    destruct ((0 <=? arg op 2) && (arg op 2 <=? 4) && (negb (arg op 2 =? SHUTDOWN) || sc_shut s sc));
      [|intros W1; rewrite (finish_nil _ W1 T); cbn; repeat split; intros; discriminate].
    destruct (bal_to_update s sc); [|intros W1; rewrite (finish_nil _ W1 T); cbn; repeat split; intros; discriminate].
    cbn [fst snd]. intros W1. rewrite (finish_nil _ W1); [cbn; repeat split; intros; discriminate|].
    destruct (arg op 2 =? SHUTDOWN); exact T.
  - destruct (kid_of s (arg op 1)), (sc_of s (arg op 2)); cbn [fst snd]; intros W1;
      rewrite (finish_nil _ W1 T); cbn; repeat split; intros; discriminate.
  - destruct (latest s); cbn [fst snd]; intros W1; rewrite (finish_nil _ W1 T); cbn; repeat split; intros; discriminate.
  - destruct (kid_of s (arg op 1)) as [id|]; [|intros W1; rewrite (finish_nil _ W1 T); cbn; repeat split; intros; discriminate].
    destruct (oeq (latest s) id) eqn:L; cbn [fst snd]; intros W1; rewrite (finish_nil _ W1 T); cbn; repeat split.
    intros id' [= <-] Hd. exfalso. apply oeq_true in L. apply live_false in Hd. unfold latest in L.
    destruct Hd as [D1 D2]. destruct (pend s); congruence.
  - destruct (kid_of s (arg op 1)) as [id|]; [|intros W1; rewrite (finish_nil _ W1 T); cbn; repeat split; intros; discriminate].
    destruct (sc_of s (arg op 2)); [|intros W1; rewrite (finish_nil _ W1 T); cbn; repeat split].
    destruct (live s id) eqn:L; cbn [fst snd]; intros W1; rewrite (finish_nil _ W1 T); cbn; repeat split.
    intros id' [= <-] Hd. congruence.
  - destruct (latest s); cbn [fst snd]; intros W1; rewrite (finish_nil _ W1 T); cbn; repeat split; intros; discriminate.
Qed.

Lemma op_ok_1 cfg s op : Inv s -> arg op 0 = 1 -> op_ok cfg s op.
Proof.
  intros I E. pose proof I as [W T].
  destruct (valid_b (arg op 1)) eqn:V.
  2:{ apply (op_ok_silent cfg s op []); auto; unfold step_main, expected, actor; rewrite E, ?V; try reflexivity;
      try (intros; discriminate). }
  unfold op_ok, chunk, step_main, expected, actor. rewrite E, V.
  pose proof (switch_clauses cfg s (arg op 1)) as SC. cbv zeta in SC.
  destruct (switch_to cfg s (arg op 1)) as [[s1 e] r]. cbn [fst snd] in *.
  specialize (SC [[12; match r with Some _ => 0 | None => 1 end]] I eq_refl eq_refl).
  rewrite <- app_assoc. destruct SC as [A [B C]]. repeat split; try assumption. intros; discriminate.
Qed.

Lemma op_ok_6 cfg s op : Inv s -> arg op 0 = 6 -> op_ok cfg s op.
Proof.
  intros I E. pose proof I as [W T].
  destruct (valid_b (arg op 1)) eqn:V.
  2:{ apply (op_ok_silent cfg s op []); auto; unfold step_main, expected, actor; rewrite E, ?V; try reflexivity;
      try (intros; discriminate). }
  destruct (latest s) as [l|] eqn:L.
  - destruct (k_b (getkid s l) =? arg op 1) eqn:B.
    + apply (op_ok_silent cfg s op [[6; zn l]; [13; 0]]); auto;
        unfold step_main, expected, actor; rewrite E, ?V, ?L, ?B; try reflexivity; try (intros; discriminate).
    + unfold op_ok, chunk, step_main, expected, actor. rewrite E, V, L, B.
      pose proof (switch_clauses cfg s (arg op 1)) as SC. cbv zeta in SC.
      destruct (switch_to cfg s (arg op 1)) as [[s1 e] r]. cbn [fst snd] in *.
      destruct r as [id|].
      * specialize (SC [[6; zn id]; [13; 0]] I eq_refl eq_refl). cbn [fst snd].
        rewrite <- app_assoc. destruct SC as [A [B' C]]. repeat split; try assumption. intros; discriminate.
      * specialize (SC [[13; 1]] I eq_refl eq_refl). cbn [fst snd].
        rewrite <- app_assoc. destruct SC as [A [B' C]]. repeat split; try assumption. intros; discriminate.
  - unfold op_ok, chunk, step_main, expected, actor. rewrite E, V, L.
    pose proof (switch_clauses cfg s (arg op 1)) as SC. cbv zeta in SC.
    destruct (switch_to cfg s (arg op 1)) as [[s1 e] r]. cbn [fst snd] in *.
    destruct r as [id|].
    * specialize (SC [[6; zn id]; [13; 0]] I eq_refl eq_refl). cbn [fst snd].
      rewrite <- app_assoc. destruct SC as [A [B' C]]. repeat split; try assumption. intros; discriminate.
    * specialize (SC [[13; 1]] I eq_refl eq_refl). cbn [fst snd].
      rewrite <- app_assoc. destruct SC as [A [B' C]]. repeat split; try assumption. intros; discriminate.
Qed.

Lemma op_ok_5 cfg s op : Inv s -> arg op 0 = 5 -> op_ok cfg s op.
Proof.
  intros I E. pose proof (close_clauses s I) as CC. cbv zeta in CC.
  unfold op_ok, chunk, step_main, expected, actor. rewrite E.
  destruct (close_opt (set_cp (set_closed s) None None) (cur s)) as [s2 e1]. cbn [fst snd] in *.
  destruct (close_opt s2 (pend s)) as [s3 e2]. cbn [fst snd] in *.
  destruct CC as [A [B C]]. repeat split; try assumption. intros; discriminate.
Qed.

(* ---------- the re-entrant NewSubConn operation and clause 4's in-flight part ---------- *)

Lemma n_events_app a b : n_events (a ++ b) = n_events a ++ n_events b.
Proof. apply flat_map_app. Qed.
Lemma n_events_S l : n_events (map evS l) = [].
Proof. induction l; [reflexivity|exact IHl]. Qed.

Lemma n_events_update s id v : n_events (snd (child_update s id v)) = [].
Proof.
  unfold child_update, swap.
  repeat match goal with |- context [if ?c then _ else _] => destruct c
                    | |- context [match ?c with Some _ => _ | None => _ end] => destruct c end; reflexivity.
Qed.

Lemma n_events_finish s : WInv s -> n_events (snd (finish s)) = [].
Proof.
  intros W. rewrite (finish_events _ W). destruct (toclose s); [|reflexivity].
  rewrite n_events_app, n_events_S. reflexivity.
Qed.

Lemma closed_in_update_dead s j v c : Inv s -> In c (snd (spec_report s j v)) ->
  live (fst (finish (fst (child_update s j v)))) c = false.
Proof.
  intros [W T] Hc. pose proof (child_update_inv s j v W) as W1.
  destruct (child_update_spec s j v W T) as [_ [_ [TC _]]].
  destruct (finish_proj _ W1) as [_ [A [B _]]].
  rewrite <- TC in Hc. destruct (toclose (fst (child_update s j v))) as [c'|] eqn:E; [|destruct Hc].
  destruct Hc as [<-|[]]. destruct (w_toclose _ W1 _ E) as [_ D].
  apply live_false in D. apply live_false. rewrite A, B. exact D.
Qed.

Lemma memz_zn id l : existsb (Z.eqb (zn id)) (map zn l) = true -> In id l.
Proof.
  intros H. apply existsb_exists in H. destruct H as [z [Hz E]]. apply Z.eqb_eq in E. subst z.
  apply in_map_iff in Hz. destruct Hz as [x [E Hx]]. unfold zn in E. apply Nat2Z.inj in E. subst x. exact Hx.
Qed.

Lemma has_shutdown_mono a ch b sc : has_shutdown ch sc = true -> has_shutdown (a ++ ch ++ b) sc = true.
Proof. intros H. rewrite !has_shutdown_app, H. rewrite orb_true_r. reflexivity. Qed.

Lemma op_ok_12 cfg s op : Inv s -> arg op 0 = 12 ->
  op_ok cfg s op /\ inflight_ok s op (chunk cfg s op) = true.
Proof.
  intros I E. pose proof I as [W T].
  assert (SIL : forall e, step_main cfg s op = (s, e) -> expected cfg s op = ([], []) ->
            u_events e = [] -> c_events e = [] -> existsb chan_event e = false ->
            op_ok cfg s op /\ inflight_ok s op (chunk cfg s op) = true).
  { intros e E1 E2 U C X. split; [apply (op_ok_silent cfg s op e); auto|].
    unfold inflight_ok, chunk. rewrite E1. cbn [fst snd]. rewrite (finish_nil _ W T), app_nil_r, C.
    destruct (actor s op); reflexivity. }
  destruct (kid_of s (arg op 1)) as [id|] eqn:K.
  2:{ apply (SIL []); try reflexivity; unfold step_main, expected; rewrite E, K; reflexivity. }
  destruct (kid_of s (arg op 2)) as [j|] eqn:KJ.
  2:{ apply (SIL []); try reflexivity; unfold step_main, expected; rewrite E, K, KJ; reflexivity. }
  destruct ((0 <=? arg op 3) && (arg op 3 <=? 3)) eqn:V.
  2:{ apply (SIL []); try reflexivity; unfold step_main, expected; rewrite E, K, KJ, V; reflexivity. }
  destruct (live s id) eqn:L.
  2:{ apply (SIL [[11; 0; -1]]); try reflexivity; unfold step_main, expected; rewrite E, K, KJ, V;
      [unfold newsc_during|]; rewrite L; reflexivity. }
  pose proof K as K'. apply kid_of_lt in K'. destruct K' as [Hlt _].
  assert (AC : actor s op = Some id) by (unfold actor; rewrite E; exact K).
  assert (EX : expected cfg s op = spec_report s j (arg op 3)).
  { unfold expected. rewrite E, K, KJ, V, L. reflexivity. }
  assert (SM : step_main cfg s op = newsc_during s id j (arg op 3)).
  { unfold step_main. rewrite E, K, KJ, V. reflexivity. }
  unfold op_ok, inflight_ok, chunk. rewrite SM, EX, AC. unfold newsc_during. rewrite L. cbn [negb].
  destruct (update_clauses s j (arg op 3) I) as [U [C [_ _]]].
  pose proof (update_shutdowns s j (arg op 3) I) as SH. cbv zeta in SH.
  pose proof (closed_in_update_dead s j (arg op 3)) as CD.
  pose proof (child_update_inv s j (arg op 3) W) as W1. pose proof (child_update_nk s j (arg op 3)) as N1.
  pose proof (n_events_update s j (arg op 3)) as NU.
  destruct (child_update s j (arg op 3)) as [s1 e1]. cbn [fst snd] in *.
  destruct (finish_inv s1 W1) as [W2 T2]. destruct (finish_proj s1 W1) as [N2 _].
  pose proof (n_events_finish s1 W1) as NF.
  destruct (finish s1) as [s2 e2]. cbn [fst snd] in *.
  destruct (live s2 id) eqn:L2.
  - unfold child_newsc. rewrite L2. cbn [negb fst snd].
    assert (W3 : WInv (upd_kid (set_scs s2 (fupd (scs s2) (nsc s2) (fun _ => (id, false))) (S (nsc s2))) id
                         (fun k => k_set_subs (k_subs k ++ [nsc s2]) k))).
    { pose proof (child_newsc_inv s2 id W2 ltac:(lia)) as X. unfold child_newsc in X. rewrite L2 in X. exact X. }
    rewrite (finish_nil _ W3 T2), app_nil_r.
    assert (UE : u_events ([evN (nsc s2)] ++ e1 ++ e2 ++ [[11; 1; zn (nsc s2)]]) = u_events (e1 ++ e2)).
    { rewrite !u_events_app. cbn [u_events evN]. rewrite app_nil_r. reflexivity. }
    assert (CE : c_events ([evN (nsc s2)] ++ e1 ++ e2 ++ [[11; 1; zn (nsc s2)]]) = c_events (e1 ++ e2)).
    { rewrite !c_events_app. cbn [c_events evN]. rewrite app_nil_r. reflexivity. }
    rewrite UE, CE, U, C. split; [repeat split|].
    + apply forallb_shut_ok; [exact W|]. intros c sc Hc Hin.
      specialize (SH c sc Hc Hin). rewrite (app_assoc e1 e2). apply has_shutdown_mono. exact SH.
    + intros id' [= <-] Hd. congruence.
    + destruct (existsb (Z.eqb (zn id)) (map zn (snd (spec_report s j (arg op 3))))) eqn:M; [|reflexivity].
      apply memz_zn in M. rewrite (CD id I M) in L2. discriminate.
  - cbn [fst snd].
    assert (W3 : WInv (set_scs s2 (fupd (scs s2) (nsc s2) (fun _ => (id, true))) (S (nsc s2))))
      by (apply create_shut_inv; [exact W2|lia]).
    rewrite (finish_nil _ W3 T2), app_nil_r.
    assert (UE : u_events ([evN (nsc s2)] ++ e1 ++ e2 ++ [evS (nsc s2); [11; 0; -1]]) = u_events (e1 ++ e2)).
    { rewrite !u_events_app. cbn [u_events evN evS]. rewrite app_nil_r. reflexivity. }
    assert (CE : c_events ([evN (nsc s2)] ++ e1 ++ e2 ++ [evS (nsc s2); [11; 0; -1]]) = c_events (e1 ++ e2)).
    { rewrite !c_events_app. cbn [c_events evN evS]. rewrite app_nil_r. reflexivity. }
    rewrite UE, CE, U, C. split; [repeat split|].
    + apply forallb_shut_ok; [exact W|]. intros c sc Hc Hin.
      specialize (SH c sc Hc Hin). rewrite (app_assoc e1 e2). apply has_shutdown_mono. exact SH.
    + intros id' [= <-] Hd. congruence.
    + apply orb_true_iff. right. rewrite !n_events_app, NU, NF. cbn [n_events flat_map evN evS app forallb].
      rewrite andb_true_r. unfold has_shutdown_z. apply existsb_exists. exists (evS (nsc s2)). split.
      * right. apply in_or_app. right. apply in_or_app. right. left. reflexivity.
      * apply word_eqb_refl.
Qed.

Lemma op_ok_all cfg s op : Inv s -> op_ok cfg s op.
Proof.
  intros I. destruct (arg op 0) as [|p|p] eqn:E.
  1,3: apply (op_ok_silent cfg s op []); auto; unfold step_main, expected, actor; rewrite E; try reflexivity;
       try (intros; discriminate).
  do 4 (try destruct p as [p|p|]);
  first [ apply op_ok_1; [exact I|exact E] | apply op_ok_2; [exact I|exact E] | apply op_ok_3; [exact I|exact E]
        | apply op_ok_5; [exact I|exact E] | apply op_ok_6; [exact I|exact E]
        | apply op_ok_12; [exact I|exact E]
        | apply op_ok_simple; [exact I|tauto]
        | apply (op_ok_silent cfg s op []); auto; unfold step_main, expected, actor; rewrite E; try reflexivity;
          try (intros; discriminate) ].
Qed.

(* ---------- the [0] marker splits the trace back into per-operation chunks ---------- *)

Definition nz (w : word) : bool := match w with z :: _ => negb (z =? 0) | [] => true end.

Lemma split_chunk_app e rest : forallb nz e = true -> split_chunk (e ++ [0] :: rest) = Some (e, rest).
Proof.
  induction e as [|w e IH]; intros H; [reflexivity|].
  cbn [forallb] in H. apply andb_true_iff in H. destruct H as [Hw He].
  cbn [app split_chunk]. rewrite (IH He).
  destruct w as [|z w']; [reflexivity|]. destruct z; try reflexivity. discriminate.
Qed.

Lemma nz_S l : forallb nz (map evS l) = true.
Proof. induction l; [reflexivity|exact IHl]. Qed.

Lemma nz_update s id v : forallb nz (snd (child_update s id v)) = true.
Proof.
  unfold child_update, swap.
  repeat match goal with |- context [if ?c then _ else _] => destruct c
                    | |- context [match ?c with Some _ => _ | None => _ end] => destruct c end; reflexivity.
Qed.

Lemma nz_newsc s id : forallb nz (snd (fst (child_newsc s id))) = true.
Proof. unfold child_newsc. destruct (negb (live s id)); reflexivity. Qed.

Lemma nz_close s id : forallb nz (snd (close_child s id)) = true.
Proof.
  unfold close_child. pose proof (nz_newsc s id) as A.
  destruct (k_noisy (getkid s id)).
  - destruct (child_newsc s id) as [[sa ea] r]. pose proof (nz_update sa id READY) as B.
    destruct (child_update sa id READY) as [sb eb]. cbn [fst snd] in *.
    rewrite !forallb_app, A, B. cbn. apply nz_S.
  - cbn [snd app forallb nz evC]. apply nz_S.
Qed.

Lemma nz_close_opt s o : forallb nz (snd (close_opt s o)) = true.
Proof. destruct o; [apply nz_close|reflexivity]. Qed.

Lemma nz_switch cfg s b : forallb nz (snd (fst (switch_to cfg s b))) = true.
Proof.
  unfold switch_to. destruct (closed s); [reflexivity|].
  match goal with |- context [close_opt ?a ?b] => pose proof (nz_close_opt a b) as A; destruct (close_opt a b) as [s3 e1] end.
  pose proof (nz_newsc s3 (nk s)) as B.
  destruct (inl_newsc (cfg_inl cfg b)).
  - destruct (child_newsc s3 (nk s)) as [[sa ea] r]. cbn [fst snd] in *.
    destruct (inl_state (cfg_inl cfg b)) as [v|].
    + pose proof (nz_update sa (nk s) v) as C. destruct (child_update sa (nk s) v) as [s5 e3]. cbn [fst snd] in *.
      rewrite !forallb_app, A, B, C. reflexivity.
    + cbn [fst snd]. rewrite !forallb_app, A, B. reflexivity.
  - destruct (inl_state (cfg_inl cfg b)) as [v|].
    + pose proof (nz_update s3 (nk s) v) as C. destruct (child_update s3 (nk s) v) as [s5 e3]. cbn [fst snd] in *.
      rewrite !forallb_app, A, C. reflexivity.
    + cbn [fst snd] in *. rewrite !forallb_app, A. reflexivity.
Qed.

Lemma nz_newsc_during s id j v : forallb nz (snd (newsc_during s id j v)) = true.
Proof.
  unfold newsc_during. destruct (negb (live s id)); [reflexivity|].
  pose proof (nz_update s j v) as A. destruct (child_update s j v) as [s1 e1].
  assert (B : forallb nz (snd (finish s1)) = true) by (unfold finish; apply nz_close_opt).
  destruct (finish s1) as [s2 e2]. cbn [fst snd] in *.
  destruct (live s2 id).
  - pose proof (nz_newsc s2 id) as C. destruct (child_newsc s2 id) as [[s3 e3] r]. cbn [fst snd] in *.
    rewrite !forallb_app, A, B, C. reflexivity.
  - cbn [snd]. rewrite !forallb_app, A, B. reflexivity.
Qed.

Lemma nz_step_main cfg s op : forallb nz (snd (step_main cfg s op)) = true.
Proof.
  unfold step_main.
  destruct (arg op 0) as [|p|p]; try reflexivity.
  do 4 (try destruct p as [p|p|]); try reflexivity.
  all: repeat match goal with
       | |- context [newsc_during ?s ?i ?j ?v] =>
           pose proof (nz_newsc_during s i j v); destruct (newsc_during s i j v) as [? ?]; cbn [fst snd] in *
       | |- context [switch_to ?c ?s ?b] =>
           pose proof (nz_switch c s b); destruct (switch_to c s b) as [[? ?] ?]; cbn [fst snd] in *
       | |- context [child_newsc ?s ?i] =>
           pose proof (nz_newsc s i); destruct (child_newsc s i) as [[? ?] ?]; cbn [fst snd] in *
       | |- context [child_update ?s ?i ?v] =>
           pose proof (nz_update s i v); destruct (child_update s i v) as [? ?]; cbn [fst snd] in *
       | |- context [close_opt ?a ?b] =>
           pose proof (nz_close_opt a b); destruct (close_opt a b) as [? ?]; cbn [fst snd] in *
       | |- context [if ?c then _ else _] => destruct c
       | |- context [match ?c with Some _ => _ | None => _ end] => destruct c
       end; cbn [fst snd]; rewrite ?forallb_app;
       repeat match goal with H : forallb nz _ = true |- _ => rewrite H; clear H end; try reflexivity.
Qed.

Lemma nz_chunk cfg s op : forallb nz (chunk cfg s op) = true.
Proof.
  unfold chunk. rewrite forallb_app, nz_step_main. unfold finish. rewrite nz_close_opt. reflexivity.
Qed.

Lemma pairs_eqb_refl l : pairs_eqb l l = true.
Proof. induction l as [|[x y] l IH]; [reflexivity|]. cbn. rewrite !Z.eqb_refl. exact IH. Qed.

Lemma inflight_all cfg s op : Inv s -> inflight_ok s op (chunk cfg s op) = true.
Proof.
  intros I. pose proof I as [W T].
  destruct (Z.eq_dec (arg op 0) 12) as [E12|N12]; [apply op_ok_12; assumption|].
  destruct (Z.eq_dec (arg op 0) 2) as [E2|N2].
  - assert (NE : n_events (chunk cfg s op) = []).
    { unfold chunk. rewrite n_events_app, (n_events_finish _ (step_main_inv cfg s op W)), app_nil_r.
      unfold step_main. rewrite E2. destruct (kid_of s (arg op 1)); [|reflexivity].
      destruct ((0 <=? arg op 2) && (arg op 2 <=? 3)); [apply n_events_update|reflexivity]. }
    unfold inflight_ok. rewrite NE. destruct (actor s op); [|reflexivity]. apply orb_true_r.
  - destruct (op_ok_all cfg s op I) as [_ [C _]].
    unfold inflight_ok. destruct (actor s op) as [id|] eqn:A; [|reflexivity].
    apply orb_true_iff. left. rewrite C. unfold actor, expected in *.
    destruct (arg op 0) as [|q|q]; try discriminate.
    do 4 (try destruct q as [q|q|]); try discriminate; try reflexivity; congruence.
Qed.

Lemma clause_op_ok cfg s op i : Inv s ->
  forallb (fun c => snd c) (clause_op cfg s op (chunk cfg s op) i) = true.
Proof.
  intros I. destruct (op_ok_all cfg s op I) as [U [C [F A]]].
  unfold clause_op. cbn [forallb snd]. rewrite (inflight_all cfg s op I), F, U, C, pairs_eqb_refl, word_eqb_refl.
  rewrite !andb_true_r.
  destruct (actor s op) as [id|]; [|reflexivity].
  destruct (live s id) eqn:L; [reflexivity|]. rewrite (A id eq_refl L). reflexivity.
Qed.

Lemma clauses_from_ok cfg ops : forall s i, Inv s ->
  forallb (fun c => snd c) (clauses_from cfg s ops (snd (run_from cfg s ops)) i) = true.
Proof.
  induction ops as [|op r IH]; intros s i I; [reflexivity|].
  cbn [run_from clauses_from].
  pose proof (step_inv cfg s op I) as I1. pose proof (step_snd cfg s op) as E.
  destruct (step cfg s op) as [s1 e]. cbn [fst snd] in *.
  specialize (IH s1 (i + 1) I1). destruct (run_from cfg s1 r) as [s2 e']. cbn [snd] in *.
  rewrite E, <- app_assoc. cbn [app]. rewrite (split_chunk_app _ _ (nz_chunk cfg s op)).
  rewrite forallb_app, (clause_op_ok cfg s op i I). exact IH.
Qed.

Theorem model_trace_holds cfg ops : exists obs, run cfg ops = Some obs /\ holds_b cfg ops obs = true.
Proof.
  exists (snd (run_from cfg init (expand ops))). split; [reflexivity|].
  unfold holds_b, clauses. apply clauses_from_ok. exact Inv_init.
Qed.

(* ---------- readable statements ---------- *)

Definition reachable (cfg : word) (s : st) : Prop := exists ops, s = fst (run_from cfg init ops).

Lemma reachable_inv cfg s : reachable cfg s -> Inv s.
Proof. intros [ops ->]. apply run_from_inv. exact Inv_init. Qed.

Lemma old_picker_kept cfg s c p : reachable cfg s ->
  cur s = Some c -> pend s = Some p -> k_last (getkid s c) = READY ->
  k_last (getkid s p) = CONNECTING /\ chan s = Some (READY, zn c).
Proof.
  intros R Ec Ep Hr. destruct (reachable_inv _ _ R) as [W _].
  destruct (w_pend _ W _ Ep) as [Lp _]. split; [exact Lp|].
  destruct (k_rep (getkid s c)) eqn:Er.
  - rewrite (w_chan _ W _ Ec Er), Hr. reflexivity.
  - pose proof (w_rep _ W _ Er) as X. rewrite Hr in X. discriminate.
Qed.

Lemma pending_is_connecting cfg s p : reachable cfg s -> pend s = Some p ->
  k_last (getkid s p) = CONNECTING /\ exists c, cur s = Some c /\ c <> p.
Proof. intros R Ep. destruct (reachable_inv _ _ R) as [W _]. exact (w_pend _ W _ Ep). Qed.

(* the report [2; id; v] of the current or the pending policy during a graceful switch *)
Lemma swap_condition cfg s c p id v : reachable cfg s ->
  cur s = Some c -> pend s = Some p -> (id = c \/ id = p) -> 0 <= v <= 3 ->
  let lc := if Nat.eqb c id then v else k_last (getkid s c) in
  let lp := if Nat.eqb p id then v else k_last (getkid s p) in
  let ch := chunk cfg s [2; zn id; v] in
  ((lc = READY /\ lp = CONNECTING) ->
     c_events ch = [] /\ u_events ch = if Nat.eqb c id then [(v, zn c)] else []) /\
  (~ (lc = READY /\ lp = CONNECTING) ->
     c_events ch = [zn c] /\
     u_events ch = [(lp, if Nat.eqb p id then zn p else pick_of p (getkid s p))] /\
     forall sc, In sc (k_subs (getkid s c)) -> has_shutdown ch sc = true).
Proof.
  intros R Ec Ep Hid Hv. cbv zeta. pose proof (reachable_inv _ _ R) as I. pose proof I as [W T].
  assert (Hlt : (id < nk s)%nat).
  { destruct Hid as [->| ->]; [exact (w_cur_lt _ W _ Ec)|exact (w_pend_lt _ W _ Ep)]. }
  assert (K : kid_of s (zn id) = Some id).
  { unfold kid_of, zn. replace ((0 <=? Z.of_nat id) && (Z.of_nat id <? Z.of_nat (nk s))) with true.
    - rewrite Nat2Z.id. reflexivity.
    - symmetry. apply andb_true_iff. split; [apply Z.leb_le|apply Z.ltb_lt]; lia. }
  assert (V : (0 <=? v) && (v <=? 3) = true).
  { apply andb_true_iff. split; apply Z.leb_le; lia. }
  assert (CH : chunk cfg s [2; zn id; v] =
               snd (child_update s id v) ++ snd (finish (fst (child_update s id v)))).
  { unfold chunk, step_main. cbn [arg nth]. rewrite K, V. reflexivity. }
  rewrite CH.
  destruct (update_clauses s id v I) as [U [C _]].
  pose proof (update_shutdowns s id v I) as SH. cbv zeta in SH.
  rewrite U, C. unfold spec_report in *.
  assert (L : live s id = true).
  { apply live_true. destruct Hid as [->| ->]; auto. }
  rewrite L in *. cbn [negb] in *. rewrite Ec, Ep in *.
  unfold hold in *.
  split.
  - intros [A B]. rewrite A, B in *. cbn [Z.eqb andb fst snd map]. rewrite !Z.eqb_refl. cbn [andb fst snd map].
    split; [reflexivity|]. destruct (Nat.eqb_spec c id) as [->|]; reflexivity.
  - intros N.
    destruct (((if Nat.eqb c id then v else k_last (getkid s c)) =? READY) &&
              ((if Nat.eqb p id then v else k_last (getkid s p)) =? CONNECTING)) eqn:H.
    + exfalso. apply N. apply andb_true_iff in H. destruct H as [A B].
      apply Z.eqb_eq in A. apply Z.eqb_eq in B. split; assumption.
    + cbn [fst snd map] in *. repeat split. intros sc Hin. apply (SH c sc); [left; reflexivity|exact Hin].
Qed.

(* a policy that has been closed is neither current nor pending *)
Lemma closed_policy_dead cfg s id : reachable cfg s -> k_closed (getkid s id) = true -> live s id = false.
Proof. intros R H. destruct (reachable_inv _ _ R) as [W _]. exact (w_dead _ W _ H). Qed.

(* nothing a closed/superseded policy does reaches the channel *)
Lemma isolation cfg s op id : reachable cfg s -> actor s op = Some id -> live s id = false ->
  existsb chan_event (chunk cfg s op) = false /\ u_events (chunk cfg s op) = [].
Proof.
  intros R A L. pose proof (reachable_inv _ _ R) as I.
  destruct (op_ok_all cfg s op I) as [U [_ [_ X]]]. split; [exact (X id A L)|].
  rewrite U. unfold expected, actor in *.
  destruct (arg op 0) as [|q|q]; try discriminate.
  do 4 (try destruct q as [q|q|]); try discriminate; try reflexivity; rewrite A.
  - rewrite L, andb_false_r. destruct (kid_of s (arg op 2)); reflexivity.
  - unfold spec_report. rewrite L. destruct ((0 <=? arg op 2) && (arg op 2 <=? 3)); reflexivity.
Qed.

Lemma dead_newsubconn_fails s id : live s id = false -> child_newsc s id = (s, [], None).
Proof. exact (child_newsc_dead s id). Qed.

(* sub-channels of a closed policy have all been shut down *)
Lemma subconns_shut cfg s id sc : reachable cfg s -> k_closed (getkid s id) = true ->
  (sc < nsc s)%nat -> sc_owner s sc = id -> sc_shut s sc = true.
Proof.
  intros R Hc Hlt Ho. destruct (reachable_inv _ _ R) as [W _].
  destruct (w_own _ W _ Hlt) as [_ [B|B]]; [exact B|]. rewrite Ho in B. exact (w_shut _ W _ _ Hc B).
Qed.

(* after Close there is no policy, and SwitchTo fails without any effect *)
Lemma after_close cfg s b : reachable cfg s -> closed s = true ->
  cur s = None /\ pend s = None /\ switch_to cfg s b = (s, [], None).
Proof.
  intros R Hc. destruct (reachable_inv _ _ R) as [W _]. destruct (w_closed _ W Hc) as [A B].
  repeat split; try assumption. unfold switch_to. rewrite Hc. reflexivity.
Qed.

Lemma close_sets_closed cfg s : closed (fst (step cfg s [5])) = true.
Proof.
  rewrite step_fst. unfold step_main. cbn [arg nth].
  set (s1 := set_cp (set_closed s) None None).
  assert (D1 : forall id, cur s = Some id -> live s1 id = false) by (intros; reflexivity).
  destruct (close_opt_proj _ _ D1) as [_ [Hc [Hp [Hcl [Ht _]]]]].
  destruct (close_opt s1 (cur s)) as [s2 e1]. cbn [fst] in *.
  assert (D2 : forall id, pend s = Some id -> live s2 id = false).
  { intros. apply live_false. rewrite Hc, Hp. cbn. split; discriminate. }
  destruct (close_opt_proj _ _ D2) as [_ [Hc3 [Hp3 [Hcl3 [Ht3 _]]]]].
  destruct (close_opt s2 (pend s)) as [s3 e2]. cbn [fst] in *.
  unfold finish.
  assert (D3 : forall id, toclose s3 = Some id -> live (set_toclose s3 None) id = false).
  { intros. apply live_false. cbn. rewrite Hc3, Hp3, Hc, Hp. cbn. split; discriminate. }
  destruct (close_opt_proj _ _ D3) as [_ [_ [_ [Hcl4 _]]]]. rewrite Hcl4. cbn. rewrite Hcl3, Hcl. reflexivity.
Qed.

(* a sub-channel created for a policy that is swapped out and closed while its NewSubConn
   is still inside the channel is shut down by NewSubConn itself, which returns an error *)
Lemma inflight_shutdown cfg s id j v : reachable cfg s -> live s id = true ->
  In id (snd (spec_report s j v)) ->
  let r := newsc_during s id j v in
  exists sc, In (evN sc) (snd r) /\ In (evS sc) (snd r) /\ In [11; 0; -1] (snd r) /\
             sc_shut (fst r) sc = true /\ sc_owner (fst r) sc = id /\ k_subs (getkid (fst r) id) = k_subs (getkid s id).
Proof.
  intros R L Hc. pose proof (reachable_inv _ _ R) as I. pose proof I as [W T]. cbv zeta.
  pose proof (closed_in_update_dead s j v id I Hc) as D.
  destruct (child_update_spec s j v W T) as [_ [_ [_ [_ [_ [_ [_ Subs]]]]]]].
  pose proof (child_update_inv s j v W) as W1.
  unfold newsc_during. rewrite L. cbn [negb].
  destruct (child_update s j v) as [s1 e1]. cbn [fst snd] in *.
  assert (S2 : k_subs (getkid (fst (finish s1)) id) = k_subs (getkid s1 id)).
  { unfold finish. destruct (toclose s1) as [c|] eqn:E; cbn [close_opt fst]; [|reflexivity].
    destruct (w_toclose _ W1 _ E) as [_ B]. rewrite close_child_subs by exact B. reflexivity. }
  destruct (finish s1) as [s2 e2]. cbn [fst snd] in *. rewrite D.
  exists (nsc s2). cbn [fst snd]. repeat split.
  - left. reflexivity.
  - apply in_or_app. right. apply in_or_app. right. apply in_or_app. right. left. reflexivity.
  - apply in_or_app. right. apply in_or_app. right. apply in_or_app. right. right. left. reflexivity.
  - unfold sc_shut. simp_st. rewrite Nat.eqb_refl. reflexivity.
  - unfold sc_owner. simp_st. rewrite Nat.eqb_refl. reflexivity.
  - change (k_subs (getkid s2 id) = k_subs (getkid s id)). rewrite S2. apply Subs.
Qed.
