(* Proofs for the XdsParse engine (C45). *)
From Coq Require Import List ZArith Bool Lia FinFun.
From VLib Require Import Codec Machine.
From VModel Require Import XdsParse.
Import ListNotations.
Open Scope Z_scope.

(* ------------------------------------------------------------------ basics *)
Lemma mem_In : forall x l, mem x l = true <-> In x l.
Proof.
  intros x l. unfold mem. rewrite existsb_exists. split.
  - intros [y [Hy He]]. apply Z.eqb_eq in He. subst. exact Hy.
  - intros H. exists x. split; [exact H | apply Z.eqb_refl].
Qed.

Lemma mem_false : forall x l, mem x l = false <-> ~ In x l.
Proof.
  intros x l. rewrite <- mem_In. destruct (mem x l); split; congruence.
Qed.

Lemma u32_range : forall x, 0 <= u32 x <= max_u32.
Proof.
  intro x. unfold u32, max_u32.
  assert (H : 0 <= x mod 2 ^ 32 < 2 ^ 32) by (apply Z.mod_pos_bound; lia). lia.
Qed.

Lemma u32_small : forall x, 0 <= x <= max_u32 -> u32 x = x.
Proof. intros x H. unfold u32. apply Z.mod_small. unfold max_u32 in H. lia. Qed.

Lemma nodupb_NoDup : forall l, nodupb l = true <-> NoDup l.
Proof.
  induction l as [|x r IH]; cbn [nodupb].
  - split; [constructor | reflexivity].
  - rewrite andb_true_iff, negb_true_iff, mem_false, IH. split.
    + intros [Ha Hb]. constructor; assumption.
    + intro H. inversion H; subst. split; assumption.
Qed.

Lemma NoDup_app_intro : forall (A : Type) (l1 l2 : list A),
  NoDup l1 -> NoDup l2 -> (forall a, In a l2 -> ~ In a l1) -> NoDup (l1 ++ l2).
Proof.
  intros A l1 l2 H1 H2 Hd. induction H1 as [|x l Hx Hl IH]; cbn.
  - exact H2.
  - constructor.
    + rewrite in_app_iff. intros [Hi | Hi]; [exact (Hx Hi) |].
      apply (Hd x Hi). left. reflexivity.
    + apply IH. intros a Ha Hin. apply (Hd a Ha). right. exact Hin.
Qed.

Lemma zsum_app : forall a b, zsum (a ++ b) = zsum a + zsum b.
Proof. induction a as [|x a IH]; intro b; cbn [zsum app]; [lia | rewrite IH; lia]. Qed.

Lemma z2b_b2z : forall b, z2b (b2z b) = b.
Proof. destruct b; reflexivity. Qed.

(* ------------------------------------------------------------------ EDS *)
Definition key (l : loc) : Z * Z := (l_id l, l_prio l).
Definition ep_ok (e : lbep) : Prop := 1 <= ep_w e <= max_u32.
Definition loc_ok (l : loc) : Prop :=
  1 <= l_w l <= max_u32 /\ Forall ep_ok (l_eps l) /\ zsum (map ep_w (l_eps l)) <= max_u32.

Lemma add_addrs_spec : forall l seen seen', add_addrs l seen = Some seen' ->
  NoDup l /\ (forall a, In a l -> ~ In a seen) /\
  (forall a, In a seen' <-> In a l \/ In a seen).
Proof.
  induction l as [|x r IH]; intros seen seen' H; cbn [add_addrs] in H.
  - inversion H; subst. split; [constructor|]. split; [intros a []|].
    intro a. cbn. tauto.
  - destruct (mem x seen) eqn:Hm; [discriminate|].
    apply mem_false in Hm. destruct (IH _ _ H) as [Hnd [Hdis Hiff]].
    split; [|split].
    + constructor; [|exact Hnd]. intro Hin. apply (Hdis x Hin). left. reflexivity.
    + intros a [Ha | Ha] Hs.
      * subst. exact (Hm Hs).
      * apply (Hdis a Ha). right. exact Hs.
    + intro a. rewrite Hiff. cbn. tauto.
Qed.

Lemma parse_eps_spec : forall dual es total seen out seen', 0 <= total <= max_u32 ->
  parse_eps dual es total seen = Some (out, seen') ->
  NoDup (flat_map ep_all out) /\
  (forall a, In a (flat_map ep_all out) -> ~ In a seen) /\
  (forall a, In a seen' <-> In a (flat_map ep_all out) \/ In a seen) /\
  Forall ep_ok out /\ total + zsum (map ep_w out) <= max_u32.
Proof.
  intros dual. induction es as [|e r IH]; intros total seen out seen' Ht H; cbn [parse_eps] in H.
  - inversion H; subst. cbn [flat_map map zsum In]. split; [constructor|]. split; [tauto|].
    split; [tauto|]. split; [constructor | lia].
  - set (w := if ep_hasw e then u32 (ep_w e) else 1) in *.
    assert (Hw : 0 <= w <= max_u32).
    { subst w. destruct (ep_hasw e); [apply u32_range | unfold max_u32; lia]. }
    destruct (w =? 0) eqn:Hw0; [discriminate|]. apply Z.eqb_neq in Hw0.
    destruct (total + w >? max_u32) eqn:Hgt; [discriminate|].
    assert (Hle : total + w <= max_u32) by (destruct (Z.gtb_spec (total + w) max_u32); [discriminate | lia]).
    destruct (add_addrs (u32 (ep_addr e) :: ep_extras dual e) seen) as [seen1|] eqn:Ha; [|discriminate].
    destruct (parse_eps dual r (total + w) seen1) as [[out1 s1]|] eqn:Hr; [|discriminate].
    inversion H; subst out seen'; clear H.
    destruct (add_addrs_spec _ _ _ Ha) as [Hnd [Hdis Hiff]].
    destruct (IH _ _ _ _ (conj (ltac:(lia) : 0 <= total + w) Hle) Hr) as [Hnd1 [Hdis1 [Hiff1 [Hok1 Hsum1]]]].
    cbn [flat_map map zsum ep_all ep_addr ep_extra ep_w].
    change (u32 (ep_addr e) :: ep_extras dual e ++ flat_map ep_all out1)
      with ((u32 (ep_addr e) :: ep_extras dual e) ++ flat_map ep_all out1).
    split; [|split; [|split; [|split]]].
    + apply NoDup_app_intro; [exact Hnd | exact Hnd1 |].
      intros a Ha1 Ha0. apply (Hdis1 a Ha1). apply Hiff. left. exact Ha0.
    + intros a Hin Hs. apply in_app_iff in Hin. destruct Hin as [Hin | Hin].
      * exact (Hdis a Hin Hs).
      * apply (Hdis1 a Hin). apply Hiff. right. exact Hs.
    + intro a. rewrite Hiff1, Hiff, in_app_iff. tauto.
    + constructor; [|exact Hok1]. unfold ep_ok. cbn [ep_w]. lia.
    + lia.
Qed.

Definition Inv (acc : list loc) (seen : list Z) : Prop :=
  NoDup (map key acc) /\ NoDup (all_addrs acc) /\
  (forall a, In a (all_addrs acc) -> In a seen) /\
  Forall loc_ok acc /\ (forall p, sum_prio p acc <= max_u32) /\
  Forall (fun l => l_hasid l = true) acc.

Lemma all_addrs_snoc : forall acc l,
  all_addrs (acc ++ [l]) = all_addrs acc ++ flat_map ep_all (l_eps l).
Proof.
  intros acc l. unfold all_addrs. rewrite flat_map_app. cbn [flat_map]. rewrite app_nil_r. reflexivity.
Qed.

Lemma sum_prio_snoc : forall q acc l,
  sum_prio q (acc ++ [l]) = sum_prio q acc + (if l_prio l =? q then l_w l else 0).
Proof.
  intros q acc l. unfold sum_prio. rewrite filter_app, map_app, zsum_app. cbn [filter].
  destruct (l_prio l =? q); cbn [map zsum]; lia.
Qed.

Lemma key_notin : forall id p acc, existsb (key_eq id p) acc = false -> ~ In (id, p) (map key acc).
Proof.
  intros id p acc H Hin. apply in_map_iff in Hin. destruct Hin as [l [Hk Hl]].
  assert (Hex : existsb (key_eq id p) acc = true).
  { apply existsb_exists. exists l. split; [exact Hl|]. unfold key in Hk. inversion Hk; subst.
    unfold key_eq. rewrite !Z.eqb_refl. reflexivity. }
  congruence.
Qed.

Lemma NoDup_snoc : forall (A : Type) (l : list A) x, NoDup l -> ~ In x l -> NoDup (l ++ [x]).
Proof.
  intros A l x Hl Hx. apply NoDup_app_intro; [exact Hl | constructor; [intros [] | constructor] |].
  intros a [Ha | []] Hin. subst. exact (Hx Hin).
Qed.

Lemma eds_locs_inv : forall dual ls acc seen out, Inv acc seen ->
  eds_locs dual ls acc seen = Some out -> exists seen', Inv out seen'.
Proof.
  intros dual. induction ls as [|l r IH]; intros acc seen out HI H; cbn [eds_locs] in H.
  - inversion H; subst. exists seen. exact HI.
  - destruct (negb (l_hasid l)); [discriminate|].
    destruct (u32 (l_w l) =? 0) eqn:Hw0; [exact (IH _ _ _ HI H)|]. apply Z.eqb_neq in Hw0.
    destruct (sum_prio (u32 (l_prio l)) acc + u32 (l_w l) >? max_u32) eqn:Hgt; [discriminate|].
    assert (Hle : sum_prio (u32 (l_prio l)) acc + u32 (l_w l) <= max_u32)
      by (destruct (Z.gtb_spec (sum_prio (u32 (l_prio l)) acc + u32 (l_w l)) max_u32); [discriminate | lia]).
    destruct (existsb (key_eq (u32 (l_id l)) (u32 (l_prio l))) acc) eqn:Hk; [discriminate|].
    destruct (parse_eps dual (l_eps l) 0 seen) as [[eps seen1]|] eqn:He; [|discriminate].
    assert (H0 : 0 <= 0 <= max_u32) by (unfold max_u32; lia).
    destruct (parse_eps_spec _ _ _ _ _ _ H0 He) as [Hnd [Hdis [Hiff [Hok Hsum]]]].
    destruct HI as [I1 [I2 [I3 [I4 [I5 I6]]]]].
    assert (Hwr := u32_range (l_w l)).
    refine (IH _ _ _ _ H).
    unfold Inv. split; [|split; [|split; [|split; [|split]]]].
    + rewrite map_app. cbn [map key l_id l_prio]. apply NoDup_snoc; [exact I1 | apply key_notin; exact Hk].
    + rewrite all_addrs_snoc. cbn [l_eps]. apply NoDup_app_intro; [exact I2 | exact Hnd |].
      intros a Ha Hacc. exact (Hdis a Ha (I3 a Hacc)).
    + intro a. rewrite all_addrs_snoc, in_app_iff. cbn [l_eps]. intros [Ha | Ha]; apply Hiff.
      * right. exact (I3 a Ha).
      * left. exact Ha.
    + apply Forall_app. split; [exact I4|]. constructor; [|constructor].
      unfold loc_ok. cbn [l_w l_eps]. split; [lia|]. split; [exact Hok | lia].
    + intro q. rewrite sum_prio_snoc. cbn [l_prio l_w].
      destruct (u32 (l_prio l) =? q) eqn:Hq.
      * apply Z.eqb_eq in Hq. subst q. exact Hle.
      * specialize (I5 q). lia.
    + apply Forall_app. split; [exact I6|]. constructor; [reflexivity | constructor].
Qed.

Lemma Inv_nil : Inv [] [].
Proof.
  unfold Inv. cbn. repeat split; try constructor; try tauto. intro p. unfold sum_prio, max_u32. cbn. lia.
Qed.

(* contiguity: all of 0..k-1 present where k = number of distinct priorities  <->
   the set of priorities is exactly {0..k-1} (pigeonhole) *)
Lemma zseq_In : forall n x, In x (zseq n) <-> 0 <= x < Z.of_nat n.
Proof.
  intros n x. unfold zseq. rewrite in_map_iff. split.
  - intros [i [Hi Hin]]. apply in_seq in Hin. lia.
  - intro H. exists (Z.to_nat x). split; [lia | apply in_seq; lia].
Qed.

Lemma zseq_NoDup : forall n, NoDup (zseq n).
Proof.
  intro n. unfold zseq. apply FinFun.Injective_map_NoDup; [|apply seq_NoDup].
  intros a b Hab. lia.
Qed.

Lemma zseq_length : forall n, length (zseq n) = n.
Proof. intro n. unfold zseq. rewrite map_length, seq_length. reflexivity. Qed.

Lemma contiguous_spec : forall ps, contiguous_b ps = true ->
  forall p, In p ps <-> 0 <= p < Z.of_nat (length (nodup Z.eq_dec ps)).
Proof.
  intros ps H p. unfold contiguous_b in H. rewrite forallb_forall in H.
  set (d := nodup Z.eq_dec ps) in *. set (k := length d) in *.
  assert (Hincl : incl (zseq k) d).
  { intros x Hx. apply nodup_In. apply mem_In. exact (H x Hx). }
  assert (Hback : incl d (zseq k)).
  { apply NoDup_length_incl; [apply zseq_NoDup | rewrite zseq_length; subst k; lia | exact Hincl]. }
  rewrite <- zseq_In. split.
  - intro Hp. apply Hback. apply nodup_In. exact Hp.
  - intro Hp. apply (nodup_In Z.eq_dec). apply Hincl. exact Hp.
Qed.

Lemma parse_drops_ok : forall ds out, parse_drops ds = Some out ->
  Forall (fun nd => snd nd = 100 \/ snd nd = 10000 \/ snd nd = 1000000) out.
Proof.
  induction ds as [|[n d] r IH]; intros out H; cbn [parse_drops] in H.
  - inversion H. constructor.
  - destruct (drop_den (u32 d)) as [v|] eqn:Hd; [|discriminate].
    destruct (parse_drops r) as [o|]; [|discriminate]. inversion H; subst.
    constructor; [|apply IH; reflexivity]. cbn [snd]. unfold drop_den in Hd.
    destruct (u32 d =? 0); [inversion Hd; tauto|].
    destruct (u32 d =? 1); [inversion Hd; tauto|].
    destruct (u32 d =? 2); [inversion Hd; tauto | discriminate].
Qed.

(* The EDS statement, Prop level *)
Lemma eds_accept_inv : forall dual c u, parse_eds dual c = Some u ->
  c_named u = true /\
  (forall p, In p (prios (c_locs u)) <-> 0 <= p < Z.of_nat (length (nodup Z.eq_dec (prios (c_locs u))))) /\
  NoDup (all_addrs (c_locs u)) /\
  NoDup (map key (c_locs u)) /\
  (forall p, sum_prio p (c_locs u) <= max_u32) /\
  Forall loc_ok (c_locs u) /\
  Forall (fun nd => snd nd = 100 \/ snd nd = 10000 \/ snd nd = 1000000) (c_drops u).
Proof.
  intros dual c u H. unfold parse_eds in H.
  destruct (negb (c_named c)); [discriminate|].
  destruct (parse_drops (c_drops c)) as [ds|] eqn:Hd; [|discriminate].
  destruct (eds_locs dual (c_locs c) [] []) as [acc|] eqn:Hl; [|discriminate].
  destruct (contiguous_b (prios acc)) eqn:Hc; [|discriminate].
  inversion H; subst u; clear H. cbn [c_named c_locs c_drops].
  destruct (eds_locs_inv _ _ _ _ _ Inv_nil Hl) as [seen' [I1 [I2 [I3 [I4 [I5 I6]]]]]].
  split; [reflexivity|]. split; [exact (contiguous_spec _ Hc)|].
  split; [exact I2|]. split; [exact I1|]. split; [exact I5|]. split; [exact I4|].
  exact (parse_drops_ok _ _ Hd).
Qed.

(* ... and the boolean form that is evaluated on implementation traces *)
Lemma keys_nodupb_of_NoDup : forall ls, NoDup (map key ls) -> keys_nodupb ls = true.
Proof.
  induction ls as [|l r IH]; intro H; cbn [keys_nodupb]; [reflexivity|].
  cbn [map] in H. inversion H as [|x xs Hx Hr]; subst.
  rewrite (IH Hr), andb_true_r. apply negb_true_iff.
  destruct (existsb (key_eq (l_id l) (l_prio l)) r) eqn:He; [|reflexivity].
  exfalso. apply Hx. apply existsb_exists in He. destruct He as [l' [Hl' Hk]].
  unfold key_eq in Hk. apply andb_true_iff in Hk. destruct Hk as [Ha Hb].
  apply Z.eqb_eq in Ha. apply Z.eqb_eq in Hb.
  apply in_map_iff. exists l'. split; [|exact Hl']. unfold key. congruence.
Qed.

Lemma weights_ok_of : forall ls, Forall loc_ok ls -> (forall p, sum_prio p ls <= max_u32) ->
  weights_ok ls = true.
Proof.
  intros ls Hf Hs. unfold weights_ok. apply forallb_forall. intros l Hl.
  rewrite Forall_forall in Hf. destruct (Hf l Hl) as [Hw [He Hsum]].
  rewrite !andb_true_iff. split; [split|].
  - apply Z.leb_le. lia.
  - unfold ep_weights_ok. rewrite andb_true_iff. split.
    + apply forallb_forall. intros e Hin. rewrite Forall_forall in He.
      apply Z.leb_le. destruct (He e Hin). lia.
    + apply Z.leb_le. exact Hsum.
  - apply Z.leb_le. apply Hs.
Qed.

Lemma drops_ok_of : forall ds,
  Forall (fun nd => snd nd = 100 \/ snd nd = 10000 \/ snd nd = 1000000) ds -> drops_ok ds = true.
Proof.
  intros ds H. unfold drops_ok. apply forallb_forall. intros nd Hin.
  rewrite Forall_forall in H. destruct (H nd Hin) as [E | [E | E]]; rewrite E; reflexivity.
Qed.

Lemma eds_accept_bool : forall dual c u, parse_eds dual c = Some u ->
  c_named u = true /\ contiguous_b (prios (c_locs u)) = true /\
  nodupb (all_addrs (c_locs u)) && keys_nodupb (c_locs u) = true /\
  weights_ok (c_locs u) = true /\ drops_ok (c_drops u) = true.
Proof.
  intros dual c u H.
  destruct (eds_accept_inv _ _ _ H) as [Hn [_ [Ha [Hk [Hs [Hl Hd]]]]]].
  split; [exact Hn|]. split.
  - unfold parse_eds in H.
    destruct (negb (c_named c)); [discriminate|].
    destruct (parse_drops (c_drops c)) as [ds|]; [|discriminate].
    destruct (eds_locs dual (c_locs c) [] []) as [acc|]; [|discriminate].
    destruct (contiguous_b (prios acc)) eqn:Hc; [|discriminate]. inversion H; subst. exact Hc.
  - split; [|split].
    + rewrite andb_true_iff. split; [apply nodupb_NoDup; exact Ha | apply keys_nodupb_of_NoDup; exact Hk].
    + apply weights_ok_of; assumption.
    + apply drops_ok_of; exact Hd.
Qed.

(* weight-0 localities are dropped, the others are kept in order *)
Lemma eds_locs_ids : forall dual ls acc seen out, eds_locs dual ls acc seen = Some out ->
  map l_id out = map l_id acc ++ map (fun l => u32 (l_id l)) (filter (fun l => negb (u32 (l_w l) =? 0)) ls).
Proof.
  intros dual. induction ls as [|l r IH]; intros acc seen out H; cbn [eds_locs] in H.
  - inversion H. cbn. rewrite app_nil_r. reflexivity.
  - destruct (negb (l_hasid l)); [discriminate|]. cbn [filter].
    destruct (u32 (l_w l) =? 0) eqn:Hw0; cbn [negb]; [exact (IH _ _ _ H)|].
    destruct (sum_prio (u32 (l_prio l)) acc + u32 (l_w l) >? max_u32); [discriminate|].
    destruct (existsb (key_eq (u32 (l_id l)) (u32 (l_prio l))) acc); [discriminate|].
    destruct (parse_eps dual (l_eps l) 0 seen) as [[eps seen1]|]; [|discriminate].
    rewrite (IH _ _ _ H), map_app. cbn [map l_id]. rewrite <- app_assoc. reflexivity.
Qed.

(* ------------------------------------------------------------------ RDS *)
Lemma wc_loop_spec : forall ws t out t', 0 <= t <= max_u32 -> wc_loop ws t = Some (out, t') ->
  Forall (fun w => 1 <= w <= max_u32) out /\ t' = t + zsum out /\ t' <= max_u32.
Proof.
  induction ws as [|w0 r IH]; intros t out t' Ht H; cbn [wc_loop] in H.
  - inversion H; subst. cbn [zsum]. split; [constructor | lia].
  - assert (Hr := u32_range w0).
    destruct (u32 w0 =? 0) eqn:H0; [exact (IH _ _ _ Ht H)|]. apply Z.eqb_neq in H0.
    destruct (t + u32 w0 >? max_u32) eqn:Hgt; [discriminate|].
    assert (Hle : t + u32 w0 <= max_u32)
      by (destruct (Z.gtb_spec (t + u32 w0) max_u32); [discriminate | lia]).
    destruct (wc_loop r (t + u32 w0)) as [[o t1]|] eqn:Hl; [|discriminate].
    inversion H; subst out t'; clear H.
    destruct (IH _ _ _ (conj (ltac:(lia) : 0 <= t + u32 w0) Hle) Hl) as [Hf [Hs Hm]].
    cbn [zsum]. split; [constructor; [lia | exact Hf] | lia].
Qed.

Definition came_from (r o : route) : Prop :=
  r_idx o = u32 (r_idx r) /\ r_hasfrac o = r_hasfrac r /\
  (r_hasfrac r = true -> r_fnum o = frac_value (r_fnum r) (r_fden r)).

Lemma parse_route_keep : forall r o, parse_route r = RKeep o ->
  path_ok o = true /\ action_enum_ok o = true /\ wc_ok o = true /\ came_from r o /\
  (action_supported o = false <-> (r_action r <> 1 /\ r_action r <> 2)).
Proof.
  intros r o H. unfold parse_route in H.
  destruct (negb (r_hasmatch r)); [discriminate|].
  destruct (negb (u32 (r_nq r) =? 0)); [discriminate|].
  destruct (negb (mem (r_path r) [1; 2; 3])) eqn:Hp; [discriminate|].
  apply negb_false_iff in Hp.
  destruct (parse_hdrs (r_hdrs r)) as [hs|]; [|discriminate].
  assert (Hcf : forall act cs wcs,
    came_from r (mk_route (u32 (r_idx r)) true 0 (r_path r) (if r_case r =? 2 then 2 else 1)
       (r_hasfrac r) (if r_hasfrac r then frac_value (r_fnum r) (r_fden r) else 0) 2 act cs hs wcs)).
  { intros. unfold came_from. cbn [r_idx r_hasfrac r_fnum]. split; [reflexivity|]. split; [reflexivity|].
    intro Hf. rewrite Hf. reflexivity. }
  destruct (r_action r =? 1) eqn:Ha1.
  - apply Z.eqb_eq in Ha1.
    destruct (r_cs r =? 1).
    { inversion H; subst o; clear H. unfold path_ok, action_enum_ok, wc_ok, action_supported.
      cbn [r_path r_action r_cs r_wcs]. split; [exact Hp|]. split; [reflexivity|].
      split; [reflexivity|]. split; [apply Hcf|]. cbn. split; [discriminate | lia]. }
    destruct (r_cs r =? 2).
    { destruct (wc_loop (r_wcs r) 0) as [[ws t]|] eqn:Hw; [|discriminate].
      destruct (t =? 0) eqn:Ht0; [discriminate|]. apply Z.eqb_neq in Ht0.
      assert (H0 : 0 <= 0 <= max_u32) by (unfold max_u32; lia).
      destruct (wc_loop_spec _ _ _ _ H0 Hw) as [Hf [Hs Hm]].
      inversion H; subst o; clear H. unfold path_ok, action_enum_ok, wc_ok, action_supported.
      cbn [r_path r_action r_cs r_wcs]. split; [exact Hp|]. split; [reflexivity|].
      split; [|split; [apply Hcf|cbn; split; [discriminate | lia]]].
      change (1 =? 1) with true. change (2 =? 2) with true. cbn iota.
      assert (Hz : 0 <= zsum ws).
      { clear -Hf. induction Hf as [|x l Hx Hl IH]; cbn [zsum]; lia. }
      rewrite !andb_true_iff. split; [split|].
      - apply forallb_forall. intros w Hin. rewrite Forall_forall in Hf.
        apply Z.leb_le. destruct (Hf w Hin). lia.
      - apply Z.leb_le. lia.
      - apply Z.leb_le. lia. }
    destruct (r_cs r =? 4); [discriminate|].
    destruct (r_cs r =? 6); [|discriminate].
    inversion H; subst o; clear H. unfold path_ok, action_enum_ok, wc_ok, action_supported.
    cbn [r_path r_action r_cs r_wcs]. split; [exact Hp|]. split; [reflexivity|].
    split; [reflexivity|]. split; [apply Hcf|]. cbn. split; [discriminate | lia].
  - apply Z.eqb_neq in Ha1. destruct (r_action r =? 2) eqn:Ha2.
    + apply Z.eqb_eq in Ha2. inversion H; subst o; clear H.
      unfold path_ok, action_enum_ok, wc_ok, action_supported.
      cbn [r_path r_action r_cs r_wcs]. split; [exact Hp|]. split; [reflexivity|].
      split; [reflexivity|]. split; [apply Hcf|]. cbn. split; [discriminate | lia].
    + apply Z.eqb_neq in Ha2. inversion H; subst o; clear H.
      unfold path_ok, action_enum_ok, wc_ok, action_supported.
      cbn [r_path r_action r_cs r_wcs]. split; [exact Hp|]. split; [reflexivity|].
      split; [reflexivity|]. split; [apply Hcf|]. cbn. split; [intros _; split; assumption | reflexivity].
Qed.

Lemma parse_routes_In : forall rs os, parse_routes rs = Some os ->
  forall o, In o os -> exists r, In r rs /\ parse_route r = RKeep o.
Proof.
  induction rs as [|r t IH]; intros os H o Hin; cbn [parse_routes] in H.
  - inversion H; subst. destruct Hin.
  - destruct (parse_route r) as [| |o1] eqn:Hr; [discriminate | |].
    + destruct (IH _ H o Hin) as [r' [Hr' Hk]]. exists r'. split; [right; exact Hr' | exact Hk].
    + destruct (parse_routes t) as [os1|] eqn:Ht; [|discriminate]. inversion H; subst os; clear H.
      destruct Hin as [He | Hin].
      * subst o1. exists r. split; [left; reflexivity | exact Hr].
      * destruct (IH _ eq_refl o Hin) as [r' [Hr' Hk]]. exists r'. split; [right; exact Hr' | exact Hk].
Qed.

Lemma rds_accept_inv : forall named rs os, parse_rds named rs = Some os ->
  named = true /\
  forall o, In o os ->
    path_ok o = true /\ action_enum_ok o = true /\ wc_ok o = true /\
    exists r, In r rs /\ came_from r o.
Proof.
  intros named rs os H. unfold parse_rds in H. destruct named; [|discriminate]. cbn [negb] in H.
  split; [reflexivity|]. intros o Hin.
  destruct (parse_routes_In _ _ H o Hin) as [r [Hr Hk]].
  destruct (parse_route_keep _ _ Hk) as [Hp [Ha [Hw [Hc _]]]].
  split; [exact Hp|]. split; [exact Ha|]. split; [exact Hw|]. exists r. split; assumption.
Qed.

Lemma frac_value_exact : forall n d, frac_exact n d <= max_u32 -> frac_value n d = frac_exact n d.
Proof.
  intros n d H. unfold frac_value. apply u32_small. split; [|exact H].
  unfold frac_exact. assert (Hn := u32_range n). unfold frac_scale.
  destruct (u32 d =? 0); [lia|]. destruct (u32 d =? 1); lia.
Qed.

Lemma rds_accept_bool : forall named rs os, parse_rds named rs = Some os ->
  forallb path_ok os = true /\ forallb action_enum_ok os = true /\ forallb wc_ok os = true /\
  forallb (fun o => implb (r_hasfrac o) (frac_is_exact rs o || frac_is_wrapped rs o)) os = true.
Proof.
  intros named rs os H. destruct (rds_accept_inv _ _ _ H) as [_ Hall].
  repeat split; apply forallb_forall; intros o Hin; destruct (Hall o Hin) as [Hp [Ha [Hw [r [Hr Hc]]]]];
    try assumption.
  destruct (r_hasfrac o) eqn:Hf; [|reflexivity]. cbn [implb].
  apply orb_true_iff. right. unfold frac_is_wrapped. apply existsb_exists. exists r.
  split; [exact Hr|]. destruct Hc as [Hi [Hh Hv]]. rewrite Hf in Hh. symmetry in Hh.
  rewrite Hh, (Hv Hh), Hi, !Z.eqb_refl. reflexivity.
Qed.

(* ------------------------------------------------------------------ LDS http filters *)
Lemma parse_lds_term : forall named server fs out, parse_lds named server fs = Some out ->
  term_ok out = true.
Proof.
  intros named server fs out H. unfold parse_lds in H. destruct (negb named); [discriminate|].
  destruct (flt_loop server fs []) as [ret|]; [|discriminate].
  destruct (term_ok ret) eqn:E; [|discriminate]. inversion H; subst. exact E.
Qed.

Lemma term_ok_spec : forall ret, term_ok ret = true ->
  exists init l, ret = init ++ [l] /\ fst l = 1 /\ forall f, In f init -> fst f <> 1.
Proof.
  intros ret H. unfold term_ok in H. destruct (rev ret) as [|l r] eqn:E; [discriminate|].
  apply andb_true_iff in H. destruct H as [Hl Hr]. apply Z.eqb_eq in Hl.
  exists (rev r), l. split; [|split; [exact Hl|]].
  - rewrite <- (rev_involutive ret), E. reflexivity.
  - intros f Hin. apply in_rev in Hin. rewrite forallb_forall in Hr. specialize (Hr f Hin).
    apply negb_true_iff in Hr. apply Z.eqb_neq in Hr. exact Hr.
Qed.

(* every retained filter is registered, supported on this side, and was in the input with a
   non-empty name; names of retained filters are distinct *)
Lemma flt_loop_spec : forall server fs seen out, flt_loop server fs seen = Some out ->
  (forall f, In f out -> flt_supported server (fst f) = true /\ snd f <> 0 /\ ~ In (snd f) seen /\
     exists o n0, In (fst f, o, n0) fs /\ snd f = u32 n0) /\
  NoDup (map snd out).
Proof.
  intros server. induction fs as [|[[k o] n0] r IH]; intros seen out H; cbn [flt_loop] in H.
  - inversion H; subst. split; [intros f [] | constructor].
  - destruct (u32 n0 =? 0) eqn:E0; [discriminate|]. apply Z.eqb_neq in E0.
    destruct (mem (u32 n0) seen) eqn:Em; [discriminate|]. apply mem_false in Em.
    assert (Hskip : forall out', flt_loop server r (u32 n0 :: seen) = Some out' ->
      (forall f, In f out' -> flt_supported server (fst f) = true /\ snd f <> 0 /\ ~ In (snd f) seen /\
         (snd f <> u32 n0) /\ exists o' n', In (fst f, o', n') ((k, o, n0) :: r) /\ snd f = u32 n') /\
      NoDup (map snd out')).
    { intros out' H'. destruct (IH _ _ H') as [Ha Hn]. split; [|exact Hn].
      intros f Hf. destruct (Ha f Hf) as [H1 [H2 [H3 [o' [n' [H4 H5]]]]]].
      split; [exact H1|]. split; [exact H2|]. split; [intro Hs; apply H3; right; exact Hs|].
      split; [intro Hs; apply H3; left; symmetry; exact Hs|].
      exists o', n'. split; [right; exact H4 | exact H5]. }
    assert (Hweak : forall out', flt_loop server r (u32 n0 :: seen) = Some out' ->
      (forall f, In f out' -> flt_supported server (fst f) = true /\ snd f <> 0 /\ ~ In (snd f) seen /\
         exists o' n', In (fst f, o', n') ((k, o, n0) :: r) /\ snd f = u32 n') /\
      NoDup (map snd out')).
    { intros out' H'. destruct (Hskip _ H') as [Ha Hn]. split; [|exact Hn].
      intros f Hf. destruct (Ha f Hf) as [H1 [H2 [H3 [_ H4]]]]. auto. }
    destruct (negb (flt_registered k)).
    { destruct (z2b o); [exact (Hweak _ H) | discriminate]. }
    destruct (k =? 6); [discriminate|].
    destruct (negb (flt_supported server k)) eqn:Es.
    { destruct (z2b o); [exact (Hweak _ H) | discriminate]. }
    apply negb_false_iff in Es.
    destruct (flt_loop server r (u32 n0 :: seen)) as [out1|] eqn:Hr; [|discriminate].
    inversion H; subst out; clear H. destruct (Hskip _ eq_refl) as [Ha Hn]. split.
    + intros f [Ef | Hf].
      * subst f. cbn [fst snd]. split; [exact Es|]. split; [exact E0|]. split; [exact Em|].
        exists o, n0. split; [left; reflexivity | reflexivity].
      * destruct (Ha f Hf) as [H1 [H2 [H3 [_ H4]]]]. auto.
    + cbn [map snd]. constructor; [|exact Hn]. intro Hin. apply in_map_iff in Hin.
      destruct Hin as [f [Hs Hf]]. destruct (Ha f Hf) as [_ [_ [_ [Hne _]]]]. exact (Hne Hs).
Qed.

Lemma lds_invariants_readable : forall named server fs out, parse_lds named server fs = Some out ->
  named = true /\
  (exists init l, out = init ++ [l] /\ fst l = 1 /\ forall f, In f init -> fst f <> 1) /\
  NoDup (map snd out) /\
  (forall f, In f out -> flt_supported server (fst f) = true /\ snd f <> 0 /\
     exists o n0, In (fst f, o, n0) fs /\ snd f = u32 n0).
Proof.
  intros named server fs out H. pose proof (parse_lds_term _ _ _ _ H) as Ht.
  unfold parse_lds in H. destruct named; [|discriminate]. cbn [negb] in H.
  destruct (flt_loop server fs []) as [ret|] eqn:Hl; [|discriminate].
  destruct (term_ok ret); [|discriminate]. inversion H; subst ret.
  destruct (flt_loop_spec _ _ _ _ Hl) as [Ha Hn].
  split; [reflexivity|]. split; [exact (term_ok_spec _ Ht)|]. split; [exact Hn|].
  intros f Hf. destruct (Ha f Hf) as [H1 [H2 [_ H4]]]. auto.
Qed.

(* the input of the seeded fault: every filter optional and unregistered -> rejected *)
Lemma all_skipped_rejected : forall server fs,
  Forall (fun f => flt_registered (fst (fst f)) = false /\ z2b (snd (fst f)) = true) fs ->
  forall named, parse_lds named server fs = None.
Proof.
  intros server fs H named. unfold parse_lds. destruct (negb named); [reflexivity|].
  assert (G : forall seen, flt_loop server fs seen = None \/ flt_loop server fs seen = Some []).
  { induction H as [|[[k o] n0] r [Hk Ho] Hr IH]; intro seen; cbn [flt_loop]; [right; reflexivity|].
    cbn [fst snd] in Hk, Ho. destruct (u32 n0 =? 0); [left; reflexivity|].
    destruct (mem (u32 n0) seen); [left; reflexivity|]. rewrite Hk, Ho. cbn [negb]. apply IH. }
  destruct (G []) as [E | E]; rewrite E; reflexivity.
Qed.

(* ------------------------------------------------------------------ the word stream *)
Definition fr (ws : list word) (s : dst) : dst := fold_right push s ws.

Lemma fr_app : forall a b s, fr (a ++ b) s = fr a (fr b s).
Proof. intros. unfold fr. apply fold_right_app. Qed.

Lemma fr_eps : forall es e l d h w r fl o dn,
  fr (map enc_ep es) (mk_pend e l d h w r fl, o, dn) = (mk_pend (es ++ e) l d h w r fl, o, dn).
Proof.
  induction es as [|x es IH]; intros; [reflexivity|].
  cbn [map fr fold_right]. fold (fr (map enc_ep es) (mk_pend e l d h w r fl, o, dn)). rewrite IH.
  destruct x as [hw wt ad ex]. unfold enc_ep. cbn. rewrite z2b_b2z. reflexivity.
Qed.

Lemma fr_loc : forall x l d h w r fl o dn,
  fr (enc_loc x) (mk_pend [] l d h w r fl, o, dn) = (mk_pend [] (x :: l) d h w r fl, o, dn).
Proof.
  intros. unfold enc_loc. cbn [fr fold_right]. fold (fr (map enc_ep (l_eps x)) (mk_pend [] l d h w r fl, o, dn)).
  rewrite fr_eps. destruct x as [hi id wt pr eps]. cbn. rewrite z2b_b2z, app_nil_r. reflexivity.
Qed.

Lemma fr_locs : forall ls l d h w r fl o dn,
  fr (flat_map enc_loc ls) (mk_pend [] l d h w r fl, o, dn) = (mk_pend [] (ls ++ l) d h w r fl, o, dn).
Proof.
  induction ls as [|x ls IH]; intros; [reflexivity|].
  cbn [flat_map]. rewrite fr_app, IH, fr_loc. reflexivity.
Qed.

Lemma fr_drops : forall ds e l d h w r fl o dn,
  fr (map (fun nd : Z * Z => [3; fst nd; snd nd]) ds) (mk_pend e l d h w r fl, o, dn)
  = (mk_pend e l (ds ++ d) h w r fl, o, dn).
Proof.
  induction ds as [|[n x] ds IH]; intros; [reflexivity|].
  cbn [map fr fold_right]. fold (fr (map (fun nd : Z * Z => [3; fst nd; snd nd]) ds) (mk_pend e l d h w r fl, o, dn)).
  rewrite IH. reflexivity.
Qed.

Lemma fr_hdrs : forall hs e l d h w r fl o dn,
  fr (map (fun k => [5; k]) hs) (mk_pend e l d h w r fl, o, dn) = (mk_pend e l d (hs ++ h) w r fl, o, dn).
Proof.
  induction hs as [|k hs IH]; intros; [reflexivity|].
  cbn [map fr fold_right]. fold (fr (map (fun k => [5; k]) hs) (mk_pend e l d h w r fl, o, dn)).
  rewrite IH. reflexivity.
Qed.

Lemma fr_wcs : forall ws e l d h w r fl o dn,
  fr (map (fun x => [6; x]) ws) (mk_pend e l d h w r fl, o, dn) = (mk_pend e l d h (ws ++ w) r fl, o, dn).
Proof.
  induction ws as [|k ws IH]; intros; [reflexivity|].
  cbn [map fr fold_right]. fold (fr (map (fun x => [6; x]) ws) (mk_pend e l d h w r fl, o, dn)).
  rewrite IH. reflexivity.
Qed.

Lemma fr_route : forall x e l d r fl o dn,
  fr (enc_route x) (mk_pend e l d [] [] r fl, o, dn) = (mk_pend e l d [] [] (x :: r) fl, o, dn).
Proof.
  intros. unfold enc_route. cbn [fr fold_right].
  fold (fr (map (fun k => [5; k]) (r_hdrs x) ++ map (fun y => [6; y]) (r_wcs x)) (mk_pend e l d [] [] r fl, o, dn)).
  rewrite fr_app, fr_wcs, fr_hdrs. destruct x. cbn. rewrite !z2b_b2z, !app_nil_r. reflexivity.
Qed.

Lemma fr_routes : forall rs e l d r fl o dn,
  fr (flat_map enc_route rs) (mk_pend e l d [] [] r fl, o, dn) = (mk_pend e l d [] [] (rs ++ r) fl, o, dn).
Proof.
  induction rs as [|x rs IH]; intros; [reflexivity|].
  cbn [flat_map]. rewrite fr_app, IH, fr_route. reflexivity.
Qed.

Lemma fr_flts : forall fs e l d h w r fl o dn,
  fr (map (fun x : Z * Z * Z => [7; fst (fst x); snd (fst x); snd x]) fs) (mk_pend e l d h w r fl, o, dn)
  = (mk_pend e l d h w r (fs ++ fl), o, dn).
Proof.
  induction fs as [|[[k op] n] fs IH]; intros; [reflexivity|].
  cbn [map fr fold_right].
  fold (fr (map (fun x : Z * Z * Z => [7; fst (fst x); snd (fst x); snd x]) fs) (mk_pend e l d h w r fl, o, dn)).
  rewrite IH. reflexivity.
Qed.

Lemma reqs_of_enc : forall qs, reqs_of (flat_map enc_req qs) = qs.
Proof.
  unfold reqs_of. induction qs as [|q qs IH]; [reflexivity|].
  cbn [flat_map]. fold (fr (enc_req q ++ flat_map enc_req qs) dst0). rewrite fr_app.
  unfold fr at 2. destruct (fold_right push dst0 (flat_map enc_req qs)) as [[p o] dn] eqn:Hs.
  destruct q as [c | f rs | f sv fs | w]; cbn [enc_req].
  - rewrite !fr_app. destruct c as [f ds ls]. cbn [c_named c_drops c_locs].
    change (fr [[9; b2z f]] (p, o, dn)) with (pend0, Some (9, z2b (b2z f), false), close (p, o, dn)).
    rewrite IH, z2b_b2z. unfold pend0. rewrite fr_locs, fr_drops. cbn. rewrite !app_nil_r. reflexivity.
  - rewrite fr_app.
    change (fr [[10; b2z f]] (p, o, dn)) with (pend0, Some (10, z2b (b2z f), false), close (p, o, dn)).
    rewrite IH, z2b_b2z. unfold pend0. rewrite fr_routes. cbn. rewrite app_nil_r. reflexivity.
  - rewrite fr_app.
    change (fr [[11; b2z f; b2z sv]] (p, o, dn))
      with (pend0, Some (11, z2b (b2z f), z2b (b2z sv)), close (p, o, dn)).
    rewrite IH, !z2b_b2z. unfold pend0. rewrite fr_flts. cbn. rewrite app_nil_r. reflexivity.
  - change (fr [20 :: w] (p, o, dn)) with (pend0, @None (Z * bool * bool), RRaw w :: close (p, o, dn)).
    rewrite IH. reflexivity.
Qed.

(* ------------------------------------------------------------------ bridge *)
Definition good (c : Z * Z * bool) : bool := is_finding (fst (fst c)) || snd c.

Lemma clause_req_model : forall dual i q, forallb good (clause_req i q (res_of_req dual q)) = true.
Proof.
  intros dual i q. destruct q as [c | f rs | f sv fs | w]; cbn [res_of_req].
  - destruct (parse_eds dual c) as [u|] eqn:Hp; cbn [clause_req].
    + destruct (eds_accept_bool _ _ _ Hp) as [Hn [H2 [H3 [H4 H5]]]]. rewrite Hn.
      cbn [forallb]. unfold good. cbn [fst snd]. rewrite H2, H3, H4, H5, !orb_true_r. reflexivity.
    + reflexivity.
  - destruct (parse_rds f rs) as [os|] eqn:Hp; cbn [clause_req].
    + destruct (rds_accept_bool _ _ _ Hp) as [H6 [H7 [H8 H9]]].
      cbn [forallb]. unfold good. cbn [fst snd]. rewrite H6, H7, H8, H9, !orb_true_r. reflexivity.
    + reflexivity.
  - destruct (parse_lds f sv fs) as [out|] eqn:Hp; cbn [clause_req]; [|reflexivity].
    cbn [forallb]. unfold good. cbn [fst snd]. rewrite map_map. cbn [fst snd].
    rewrite (map_ext _ (fun x => x)) by (intros [k n]; reflexivity). rewrite map_id.
    rewrite (parse_lds_term _ _ _ _ Hp), orb_true_r. reflexivity.
  - reflexivity.
Qed.

Lemma zip_clause_model : forall dual qs i,
  forallb good (zip_clauses clause_req true i qs (map (res_of_req dual) qs)) = true.
Proof.
  intros dual. induction qs as [|q qs IH]; intro i; cbn [map zip_clauses]; [reflexivity|].
  rewrite forallb_app, clause_req_model, IH. reflexivity.
Qed.

Lemma finding_req_good : forall i q o, forallb good (finding_req i q o) = true.
Proof.
  intros i q o. destruct q as [c | f rs | f sv fs | w]; destruct o as [c' | f' os | f' sv' fs' | w']; try reflexivity.
  cbn [finding_req]. destruct f'; reflexivity.
Qed.

Lemma zip_finding_good : forall qs os i, forallb good (zip_clauses finding_req false i qs os) = true.
Proof.
  induction qs as [|q qs IH]; intros os i; destruct os as [|o os]; cbn [zip_clauses]; try reflexivity.
  rewrite forallb_app, finding_req_good, IH. reflexivity.
Qed.

Lemma flat_map_map : forall (A B C : Type) (f : B -> list C) (g : A -> B) l,
  flat_map f (map g l) = flat_map (fun x => f (g x)) l.
Proof. induction l as [|x l IH]; cbn; [reflexivity | rewrite IH; reflexivity]. Qed.

Lemma model_trace_holds : forall cfg ops,
  exists obs, run cfg ops = Some obs /\ holds_b cfg ops obs = true.
Proof.
  intros cfg ops. eexists. split; [reflexivity|].
  unfold holds_b, clauses. rewrite <- flat_map_map, reqs_of_enc.
  change (fun c : Z * Z * bool => is_finding (fst (fst c)) || snd c) with good.
  rewrite forallb_app, zip_clause_model, zip_finding_good. reflexivity.
Qed.

(* the answers of the model line up with the requests *)
Lemma run_decodes : forall cfg ops obs, run cfg ops = Some obs ->
  reqs_of obs = map (res_of_req (dual_of cfg)) (reqs_of ops).
Proof.
  intros cfg ops obs H. unfold run in H. inversion H; subst.
  rewrite <- flat_map_map. apply reqs_of_enc.
Qed.

(* ------------------------------------------------------------------ readable forms *)
Lemma eds_invariants_readable : forall dual c u, parse_eds dual c = Some u ->
  (exists k, forall p, In p (map l_prio (c_locs u)) <-> 0 <= p < k) /\
  NoDup (all_addrs (c_locs u)) /\
  NoDup (map (fun l => (l_id l, l_prio l)) (c_locs u)) /\
  (forall p, sum_prio p (c_locs u) <= max_u32) /\
  (forall l, In l (c_locs u) ->
     1 <= l_w l <= max_u32 /\ zsum (map ep_w (l_eps l)) <= max_u32 /\
     forall e, In e (l_eps l) -> 1 <= ep_w e <= max_u32) /\
  (forall nd, In nd (c_drops u) -> snd nd = 100 \/ snd nd = 10000 \/ snd nd = 1000000).
Proof.
  intros dual c u H. destruct (eds_accept_inv _ _ _ H) as [_ [Hc [Ha [Hk [Hs [Hl Hd]]]]]].
  split; [eexists; exact Hc|]. split; [exact Ha|]. split; [exact Hk|]. split; [exact Hs|]. split.
  - intros l Hin. rewrite Forall_forall in Hl. destruct (Hl l Hin) as [Hw [He Hsum]].
    split; [exact Hw|]. split; [exact Hsum|]. intros e Hie. rewrite Forall_forall in He. exact (He e Hie).
  - intros nd Hin. rewrite Forall_forall in Hd. exact (Hd nd Hin).
Qed.

Lemma eds_zero_weight_dropped : forall dual c u, parse_eds dual c = Some u ->
  map l_id (c_locs u) =
  map (fun l => u32 (l_id l)) (filter (fun l => negb (u32 (l_w l) =? 0)) (c_locs c)).
Proof.
  intros dual c u H. unfold parse_eds in H.
  destruct (negb (c_named c)); [discriminate|].
  destruct (parse_drops (c_drops c)) as [ds|]; [|discriminate].
  destruct (eds_locs dual (c_locs c) [] []) as [acc|] eqn:Hl; [|discriminate].
  destruct (contiguous_b (prios acc)); [|discriminate]. inversion H; subst u. cbn [c_locs].
  exact (eds_locs_ids _ _ _ _ _ Hl).
Qed.

Lemma eds_unnamed_rejected : forall dual c, c_named c = false -> parse_eds dual c = None.
Proof. intros dual c H. unfold parse_eds. rewrite H. reflexivity. Qed.

Lemma rds_invariants_readable : forall named rs os, parse_rds named rs = Some os ->
  forall o, In o os ->
  (r_path o = 1 \/ r_path o = 2 \/ r_path o = 3) /\
  (r_action o = 1 \/ r_action o = 2 \/ r_action o = 0) /\
  (r_action o = 1 ->
     (r_cs o = 2 /\ 1 <= zsum (r_wcs o) <= max_u32 /\ forall w, In w (r_wcs o) -> 1 <= w) \/
     (r_cs o = 6 /\ r_wcs o = [])).
Proof.
  intros named rs os H o Hin. destruct (rds_accept_inv _ _ _ H) as [_ Hall].
  destruct (Hall o Hin) as [Hp [Ha [Hw _]]]. unfold path_ok in Hp. unfold action_enum_ok in Ha.
  apply mem_In in Hp. apply mem_In in Ha. cbn [In] in Hp, Ha.
  split; [intuition lia|]. split; [intuition lia|].
  intro H1. unfold wc_ok in Hw. rewrite H1 in Hw. change (1 =? 1) with true in Hw. cbn iota in Hw.
  destruct (r_cs o =? 2) eqn:Hc.
  - left. apply Z.eqb_eq in Hc. rewrite !andb_true_iff in Hw. destruct Hw as [[Hf Hlo] Hhi].
    apply Z.leb_le in Hlo. apply Z.leb_le in Hhi. split; [exact Hc|]. split; [lia|].
    intros w Hiw. rewrite forallb_forall in Hf. apply Z.leb_le. exact (Hf w Hiw).
  - right. rewrite andb_true_iff in Hw. destruct Hw as [H6 Hn]. apply Z.eqb_eq in H6.
    split; [exact H6|]. destruct (r_wcs o); [reflexivity | discriminate].
Qed.

Lemma rds_fraction : forall named rs os, parse_rds named rs = Some os ->
  forall o, In o os -> r_hasfrac o = true ->
  exists r, In r rs /\ r_idx o = u32 (r_idx r) /\ r_hasfrac r = true /\
    r_fnum o = u32 (frac_exact (r_fnum r) (r_fden r)) /\
    (frac_exact (r_fnum r) (r_fden r) <= max_u32 -> r_fnum o = frac_exact (r_fnum r) (r_fden r)).
Proof.
  intros named rs os H o Hin Hf. destruct (rds_accept_inv _ _ _ H) as [_ Hall].
  destruct (Hall o Hin) as [_ [_ [_ [r [Hr [Hi [Hh Hv]]]]]]]. rewrite Hf in Hh. symmetry in Hh.
  exists r. split; [exact Hr|]. split; [exact Hi|]. split; [exact Hh|]. split; [exact (Hv Hh)|].
  intro Hle. rewrite (Hv Hh). apply frac_value_exact. exact Hle.
Qed.

(* numerators for which the scaled value fits *)
Lemma frac_fits : forall n d,
  (u32 d = 0 -> u32 n <= 429496) -> (u32 d = 1 -> u32 n <= 42949672) ->
  frac_exact n d <= max_u32.
Proof.
  intros n d H0 H1. unfold frac_exact, frac_scale. assert (Hn := u32_range n).
  destruct (u32 d =? 0) eqn:E0; [apply Z.eqb_eq in E0; specialize (H0 E0); unfold max_u32; lia|].
  destruct (u32 d =? 1) eqn:E1; [apply Z.eqb_eq in E1; specialize (H1 E1); unfold max_u32; lia|].
  lia.
Qed.

Definition w_redirect : route := mk_route 0 true 0 1 0 false 0 0 3 0 [] [].
Definition w_frac : route := mk_route 0 true 0 1 0 true 429497 0 1 1 [] [].

Lemma unsupported_action_refuted :
  exists os o, parse_rds true [w_redirect] = Some os /\ In o os /\ r_path o = 1 /\ r_action o = 0.
Proof.
  exists [mk_route 0 true 0 1 1 false 0 2 0 0 [] []], (mk_route 0 true 0 1 1 false 0 2 0 0 [] []).
  vm_compute. repeat split. left. reflexivity.
Qed.

Lemma fraction_wrap_refuted :
  exists os o, parse_rds true [w_frac] = Some os /\ In o os /\
    frac_exact (r_fnum w_frac) (r_fden w_frac) = 4294970000 /\ r_fnum o = 2704.
Proof.
  exists [mk_route 0 true 0 1 1 true 2704 2 1 2 [] [1]], (mk_route 0 true 0 1 1 true 2704 2 1 2 [] [1]).
  vm_compute. repeat split. left. reflexivity.
Qed.

Lemma finding_clauses_fail_on_model :
  (forall obs, run [1] (enc_req (RRds true [w_redirect])) = Some obs ->
     In (61, 0, false) (clauses [1] (enc_req (RRds true [w_redirect])) obs)) /\
  (forall obs, run [1] (enc_req (RRds true [w_frac])) = Some obs ->
     In (91, 0, false) (clauses [1] (enc_req (RRds true [w_frac])) obs)).
Proof.
  split; intros obs H; vm_compute in H; inversion H; subst; vm_compute; tauto.
Qed.

Lemma parse_total : forall dual c named rs,
  (parse_eds dual c = None \/ exists u, parse_eds dual c = Some u) /\
  (parse_rds named rs = None \/ exists os, parse_rds named rs = Some os).
Proof.
  intros. split.
  - destruct (parse_eds dual c) as [u|]; [right; exists u; reflexivity | left; reflexivity].
  - destruct (parse_rds named rs) as [os|]; [right; exists os; reflexivity | left; reflexivity].
Qed.
