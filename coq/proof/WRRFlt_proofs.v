(* C36_max_scaled_is_M: the float64 scaling of newScheduler maps the largest weight to a value
   within 2^-30 of 65535 (hence math.Round gives exactly 65535) whenever 65535/max does not
   overflow.  Uses Flocq through the FR relation of Flt_proofs (imported read-only). *)
From Coq Require Import ZArith Reals Floats Lia Lra.
From Flocq Require Import Core.Core IEEE754.BinarySingleNaN.
From Flocq Require Import Relative.
From Flocq Require IEEE754.PrimFloat.
From VLib Require Import Codec Machine.
From VModel Require Import WRR.
From VProof Require Import Flt_proofs.
Module FP := Flocq.IEEE754.PrimFloat.
Open Scope R_scope.

Lemma FR_div : forall x y a b, FR x a -> FR y b -> b <> 0 -> Rabs (rnd (a / b)) < bpow radix2 1024 ->
  FR (x / y)%float (rnd (a / b)).
Proof.
  intros x y a b [Fx Hx] [Fy Hy] Hb0 Hb. unfold FR. rewrite FP.div_equiv.
  generalize (Bdiv_correct prec emax FP.Hprec FP.Hmax mode_NE (FP.Prim2B x) (FP.Prim2B y)).
  rewrite Hx, Hy. intro H. specialize (H Hb0).
  change (round radix2 _ _ (a / b)) with (rnd (a / b)) in H.
  rewrite Rlt_bool_true in H by exact Hb.
  destruct H as (H1 & H2 & _). rewrite H2, Fx. split; [reflexivity|exact H1].
Qed.

Lemma FR_maxWeight : FR (fz maxWeight) 65535.
Proof.
  generalize (FR_const (fz maxWeight) _ _ eq_refl). cbn -[IZR bpow]. intro H.
  replace 65535 with (9007061815787520 * bpow radix2 (-37)); [exact H|].
  change (bpow radix2 (-37)) with (/ IZR (2 ^ 37)). change (2 ^ 37)%Z with 137438953472%Z. field.
Qed.

Lemma rel_err x : bpow radix2 (-1022) <= Rabs x ->
  exists eps, Rabs eps <= / 9007199254740992 /\ rnd x = x * (1 + eps).
Proof.
  intros H.
  destruct (relative_error_N_FLT_ex radix2 (-1074) 53 ltac:(lia) (fun x => negb (Z.even x)) x H) as (eps & He & E).
  exists eps. split; [|exact E].
  replace (/ 9007199254740992) with (/ 2 * bpow radix2 (- (53) + 1)); [exact He|].
  change (bpow radix2 (- (53) + 1)) with (/ IZR (2 ^ 52)). change (2 ^ 52)%Z with 4503599627370496%Z. field.
Qed.

Lemma bpow_m1022_small : bpow radix2 (-1022) * bpow radix2 1024 = 4.
Proof. rewrite <- bpow_plus. reflexivity. Qed.

(* max scaled weight: value within 2^-30 of 65535 *)
Theorem max_scaled_is_M : forall (m : PrimFloat.float) (a : R),
  FR m a -> 0 < a ->
  Rabs (rnd (65535 / a)) < bpow radix2 1024 ->          (* 65535/max does not overflow *)
  exists p, FR (PrimFloat.mul (PrimFloat.div (fz maxWeight) m) m) p /\
            Rabs (p - 65535) <= / 1073741824.
Proof.
  intros m a Hm Ha Hov.
  pose proof (FR_div _ _ _ _ FR_maxWeight Hm ltac:(lra) Hov) as Hs.
  set (s := rnd (65535 / a)) in *.
  assert (Ha_lt: a < bpow radix2 1024).
  { destruct Hm as [_ E]. rewrite <- E. eapply Rle_lt_trans; [apply Rle_abs|apply abs_B2R_lt_emax]. }
  pose proof (bpow_gt_0 radix2 (-1022)) as Hb0. pose proof bpow_m1022_small as Hb4.
  assert (Hq: bpow radix2 (-1022) <= Rabs (65535 / a)).
  { rewrite Rabs_pos_eq by (apply Rlt_le, Rdiv_lt_0_compat; lra).
    apply (Rmult_le_reg_r a); [lra|]. unfold Rdiv. rewrite Rmult_assoc, Rinv_l, Rmult_1_r by lra. nra. }
  destruct (rel_err _ Hq) as (e1 & He1 & E1). fold s in E1.
  assert (Hsa: s * a = 65535 * (1 + e1)) by (rewrite E1; field; lra).
  apply Rabs_le_inv in He1.
  assert (Hq2: bpow radix2 (-1022) <= Rabs (s * a)).
  { rewrite Hsa, Rabs_pos_eq by nra.
    assert (bpow radix2 (-1022) <= 4) by (rewrite <- Hb4; pose proof (bpow_ge_0 radix2 1024);
      assert (1 <= bpow radix2 1024) by (change 1 with (bpow radix2 0); apply bpow_le; lia); nra). nra. }
  destruct (rel_err _ Hq2) as (e2 & He2 & E2). apply Rabs_le_inv in He2.
  assert (Hp: rnd (s * a) = 65535 * (1 + e1) * (1 + e2)) by (rewrite E2, Hsa; reflexivity).
  exists (rnd (s * a)). split.
  - apply FR_mul; [exact Hs|exact Hm|]. apply bpow_1024_big. rewrite Hp.
    apply Rabs_le. split; nra.
  - rewrite Hp. apply Rabs_le. split; nra.
Qed.
