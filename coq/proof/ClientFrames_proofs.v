(* Proofs for C11 (model/ClientFrames.v). *)
From Coq Require Import List ZArith Bool Lia.
From VLib Require Import Codec Machine.
From VModel Require MDWire.
From VModel Require Import ClientFrames.
Import ListNotations.
Open Scope Z_scope.

Definition ids (l : list stream) : list Z := map x_id l.
Definition idcount (sid : Z) (l : list stream) : Z := lenZ (filter (fun s => x_id s =? sid) l).
Definition dcount (sid : Z) (l : list stream) : Z := lenZ (filter (fun s => (x_id s =? sid) && x_done s) l).

Lemma lenZ_nil {A} : lenZ (@nil A) = 0. Proof. reflexivity. Qed.
Lemma lenZ_cons {A} (x : A) l : lenZ (x :: l) = 1 + lenZ l.
Proof. unfold lenZ. cbn [length]. lia. Qed.
Lemma lenZ_app {A} (a b : list A) : lenZ (a ++ b) = lenZ a + lenZ b.
Proof. unfold lenZ. rewrite app_length. lia. Qed.
Lemma lenZ_nonneg {A} (l : list A) : 0 <= lenZ l.
Proof. unfold lenZ. lia. Qed.

Lemma term_count_app sid a b : term_count sid (a ++ b) = term_count sid a + term_count sid b.
Proof. unfold term_count. rewrite filter_app, lenZ_app. reflexivity. Qed.
Lemma created_app a b : created (a ++ b) = created a ++ created b.
Proof. unfold created. rewrite filter_app, map_app. reflexivity. Qed.
Lemma term_count_nonneg sid a : 0 <= term_count sid a.
Proof. apply lenZ_nonneg. Qed.

(* ---------- closing streams ---------- *)
Lemma close_where_ids p code u l : ids (close_where p code u l) = ids l.
Proof.
  unfold ids, close_where. rewrite map_map. apply map_ext. intros s.
  destruct (active s && p s); reflexivity.
Qed.

Lemma close_where_count p code u l sid :
  term_count sid (close_events p code u l) + dcount sid l = dcount sid (close_where p code u l).
Proof.
  unfold term_count, dcount, close_events, close_where.
  induction l as [|s l IH]; cbn [flat_map map filter]; [reflexivity|].
  rewrite filter_app, lenZ_app.
  destruct (active s && p s) eqn:E.
  - apply andb_true_iff in E as [Ea _]. unfold active in Ea. apply negb_true_iff in Ea.
    cbn [ev_done filter tag esid fst snd finish x_id x_done]. rewrite Ea, andb_false_r.
    cbn [Z.eqb Pos.eqb andb]. rewrite andb_true_r.
    destruct (x_id s =? sid); rewrite ?lenZ_cons, ?lenZ_nil; lia.
  - cbn [filter]. rewrite lenZ_nil.
    destruct ((x_id s =? sid) && x_done s); rewrite ?lenZ_cons; lia.
Qed.

Lemma close_events_created p code u l : created (close_events p code u l) = [].
Proof.
  unfold created, close_events. induction l as [|s l IH]; cbn [flat_map]; [reflexivity|].
  rewrite filter_app, map_app, IH, app_nil_r. destruct (active s && p s); reflexivity.
Qed.

Lemma close_events_in p code u l e : In e (close_events p code u l) -> tag e = 1 /\ In (esid e) (ids l).
Proof.
  unfold close_events, ids. induction l as [|s l IH]; cbn [flat_map map]; [intros []|].
  intros H. apply in_app_or in H as [H|H].
  - destruct (active s && p s); [|destruct H]. destruct H as [<-|[]]. cbn. auto.
  - destruct (IH H) as [A B]. split; [exact A|right; exact B].
Qed.

Lemma close_where_all_done code u l : existsb active (close_where (fun _ => true) code u l) = false.
Proof.
  unfold close_where. induction l as [|s l IH]; cbn [map existsb]; [reflexivity|].
  rewrite IH, orb_false_r, andb_true_r. unfold active. destruct (x_done s) eqn:E; cbn; [exact (f_equal negb E)|reflexivity].
Qed.

Definition pres (f : stream -> stream) : Prop := forall s, x_id (f s) = x_id s /\ x_done (f s) = x_done s.
Lemma update_ids sid f l : pres f -> ids (update sid f l) = ids l.
Proof.
  intros P. unfold ids, update. rewrite map_map. apply map_ext. intros s.
  destruct (x_id s =? sid); [apply P|reflexivity].
Qed.
Lemma update_dcount sid f l k : pres f -> dcount k (update sid f l) = dcount k l.
Proof.
  intros P. unfold dcount, update. induction l as [|s l IH]; cbn [map filter]; [reflexivity|].
  assert (E : (x_id (if x_id s =? sid then f s else s) =? k) && x_done (if x_id s =? sid then f s else s)
              = (x_id s =? k) && x_done s).
  { destruct (x_id s =? sid); [|reflexivity]. destruct (P s) as [A B]. rewrite A, B. reflexivity. }
  rewrite E. destruct ((x_id s =? k) && x_done s); rewrite ?lenZ_cons, IH; reflexivity.
Qed.
Lemma update_active sid f l : pres f -> existsb active (update sid f l) = existsb active l.
Proof.
  intros P. unfold update. induction l as [|s l IH]; cbn [map existsb]; [reflexivity|].
  rewrite IH. f_equal. destruct (x_id s =? sid); [|reflexivity]. unfold active. destruct (P s) as [_ B]. rewrite B. reflexivity.
Qed.
Lemma pres_set_hdr : pres set_hdr. Proof. intros s; split; reflexivity. Qed.
Lemma pres_set_ng c : pres (set_ng c). Proof. intros s; split; reflexivity. Qed.
Lemma pres_set_fc a b c : pres (set_fc a b c). Proof. intros s; split; reflexivity. Qed.

(* ---------- what one step does to the ledger ---------- *)
(* r is the result of a step from c that creates no stream *)
Record good (c : conn) (r : conn * list ev4) : Prop := {
  g_count : forall sid, term_count sid (snd r) + dcount sid (k_streams c) = dcount sid (k_streams (fst r));
  g_ids : ids (k_streams (fst r)) = ids (k_streams c);
  g_created : created (snd r) = [];
  g_next : k_next (fst r) = k_next c;
  g_in : forall e, In e (snd r) -> tag e = 1 -> In (esid e) (ids (k_streams c));
  g_mode : k_mode (fst r) = 2 -> any_active (fst r) = false \/ (k_mode c = 2 /\ k_streams (fst r) = k_streams c) }.

Lemma good_id c : good c (c, []).
Proof.
  constructor; cbn [fst snd]; auto; try (intros e []); try (intros sid; unfold term_count; cbn; lia).
Qed.

Lemma good_streams_only c l ev :
  (forall sid, term_count sid ev + dcount sid (k_streams c) = dcount sid l) ->
  ids l = ids (k_streams c) -> created ev = [] ->
  (forall e, In e ev -> tag e = 1 -> In (esid e) (ids (k_streams c))) ->
  k_mode c <> 2 -> good c (with_streams c l, ev).
Proof.
  intros A B C D M. constructor; cbn [fst snd with_streams k_streams k_next k_mode]; auto.
  intros H. contradiction.
Qed.

Lemma tc_rst sid a b : term_count sid (ev_rst a b) = 0.
Proof. reflexivity. Qed.
Lemma tc_eof sid : term_count sid ev_eof = 0.
Proof. reflexivity. Qed.

Lemma good_close_one c sid code u rst : k_mode c <> 2 -> good c (close_one c sid code u rst).
Proof.
  intros M. unfold close_one. apply good_streams_only; auto.
  - intros k. rewrite term_count_app, <- close_where_count.
    assert (term_count k (match find_active sid (k_streams c), rst with
                          | Some _, Some rc => ev_rst sid rc | _, _ => [] end) = 0).
    { destruct (find_active sid (k_streams c)); [destruct rst|]; reflexivity. }
    lia.
  - apply close_where_ids.
  - rewrite created_app, close_events_created. destruct (find_active sid (k_streams c)); [destruct rst|]; reflexivity.
  - intros e H Ht. apply in_app_or in H as [H|H].
    + apply close_events_in in H. apply H.
    + destruct (find_active sid (k_streams c)); [destruct rst|]; try destruct H as [<-|[]]; try destruct H; discriminate.
Qed.

Lemma good_close_conn c c0 :
  k_streams c0 = k_streams c -> k_next c0 = k_next c -> good c (close_conn c0).
Proof.
  intros Hs Hn. unfold close_conn. rewrite Hs, Hn.
  constructor; cbn [fst snd k_streams k_next k_mode].
  - intros k. rewrite term_count_app, tc_eof, <- close_where_count. lia.
  - apply close_where_ids.
  - rewrite created_app, close_events_created. reflexivity.
  - reflexivity.
  - intros e H Ht. apply in_app_or in H as [H|H].
    + apply close_events_in in H. apply H.
    + destruct H as [<-|[]]. discriminate.
  - intros _. left. unfold any_active. cbn [k_streams]. apply close_where_all_done.
Qed.

Lemma good_update c sid f : pres f -> k_mode c <> 2 -> good c (with_streams c (update sid f (k_streams c)), []).
Proof.
  intros P M. apply good_streams_only; auto.
  - intros k. rewrite (update_dcount _ _ _ _ P). unfold term_count. cbn. lia.
  - apply update_ids, P.
  - intros e [].
Qed.

Lemma good_data c sid size dlen padded ended : k_mode c <> 2 -> good c (data_step c sid size dlen padded ended).
Proof.
  intros M. unfold data_step. destruct (find_active sid (k_streams c)) as [s|]; [|apply good_id].
  destruct ((0 <? size) && _); [apply good_close_one, M|].
  destruct (negb (x_ng s =? -1)).
  - destruct ((1024 <=? _) || ended); [apply good_close_one, M|].
    destruct (on_read _ _ _) as [pd' pu']. apply good_update; [apply pres_set_fc|exact M].
  - destruct (if padded then _ else _) as [pd' pu'].
    destruct ended; [apply good_close_one, M|]. apply good_update; [apply pres_set_fc|exact M].
Qed.

Lemma good_exec c o : k_mode c <> 2 -> (forall dl, o <> ONew dl) -> good c (exec_op c o).
Proof.
  intros M Hn. destruct o as [dl|sid ended fs|sid size ended|sid code| |id code|sid inc| |sid|ms|sid dlen plen ended|sid val]; cbn [exec_op].
  - exfalso. eapply Hn. reflexivity.
  - destruct (find_active sid (k_streams c)) as [s|]; [|apply good_id].
    destruct (negb (meta_ok fs)); [apply good_close_one, M|].
    destruct (headers_result s ended fs).
    + apply good_id.
    + apply good_update; [apply pres_set_hdr|exact M].
    + apply good_update; [apply pres_set_ng|exact M].
    + apply good_close_one, M.
  - apply good_data, M.
  - destruct (find_active sid (k_streams c)) as [s|]; [|apply good_id]. apply good_close_one, M.
  - apply good_id.
  - destruct ((0 <? id) && Z.even id); [apply good_close_conn; reflexivity|].
    destruct (k_goaway c && (k_prev c <? id)); [apply good_close_conn; reflexivity|].
    destruct (negb (any_active c)); [apply good_close_conn; reflexivity|].
    constructor; cbn [fst snd with_streams k_streams k_next k_mode].
    + intros k. apply close_where_count.
    + apply close_where_ids.
    + apply close_events_created.
    + reflexivity.
    + intros e H _. apply close_events_in in H. apply H.
    + intros H. destruct (k_goaway c); [contradiction|discriminate].
  - destruct (inc =? 0); [|apply good_id].
    destruct (find_active sid (k_streams c)); [apply good_close_one, M|apply good_id].
  - apply good_close_conn; reflexivity.
  - apply good_close_one, M.
  - constructor; cbn [fst snd k_streams k_next k_mode]; auto; try (intros e []);
      try (intros k; unfold term_count; cbn; lia); try (intros H; contradiction).
  - apply good_data, M.
  - destruct ((sid =? 4) && (2147483647 <? val)); [apply good_close_conn; reflexivity|apply good_id].
Qed.

Lemma good_settle c r : good c r -> good c (settle r).
Proof.
  intros [A B C D E F]. destruct r as [c' ev]. unfold settle.
  destruct ((k_mode c' =? 1) && negb (any_active c')) eqn:S; [|constructor; auto].
  apply andb_true_iff in S as [_ S]. apply negb_true_iff in S.
  cbn [fst snd] in *. constructor; cbn [fst snd k_streams k_next k_mode].
  - intros k. rewrite term_count_app, tc_eof, <- A. lia.
  - exact B.
  - rewrite created_app, C. reflexivity.
  - exact D.
  - intros e H Ht. apply in_app_or in H as [H|H]; [auto|]. destruct H as [<-|[]]. discriminate.
  - intros _. left. exact S.
Qed.

(* ---------- the invariant ---------- *)
Record inv (c : conn) : Prop := {
  i_next : 0 < k_next c;
  i_lt : Forall (fun id => id < k_next c) (ids (k_streams c));
  i_nodup : NoDup (ids (k_streams c));
  i_closed : k_mode c = 2 -> any_active c = false }.

(* result of a step: either no stream is created, or exactly the stream k_next c *)
Definition step_ok (c : conn) (r : conn * list ev4) : Prop :=
  good c r \/
  ((forall sid, term_count sid (snd r) + dcount sid (k_streams c) = dcount sid (k_streams (fst r))) /\
   ids (k_streams (fst r)) = ids (k_streams c) ++ [k_next c] /\ created (snd r) = [k_next c] /\
   k_next (fst r) = k_next c + 2 /\ (forall e, In e (snd r) -> tag e <> 1) /\ k_mode (fst r) = 0).

Lemma dcount_app sid a b : dcount sid (a ++ b) = dcount sid a + dcount sid b.
Proof. unfold dcount. rewrite filter_app, lenZ_app. reflexivity. Qed.

Lemma step_step_ok c o : inv c -> step_ok c (step c o).
Proof.
  intros I. unfold step.
  assert (NewCase : forall dl, k_mode c <> 2 \/ True -> step_ok c (exec_op c (ONew dl))).
  { intros dl _. cbn [exec_op]. destruct (Z.eqb_spec (k_mode c) 0) as [E|E].
    - right. cbn [fst snd k_streams k_next k_mode]. repeat split.
      + intros k. rewrite dcount_app. unfold term_count, dcount at 3. cbn. rewrite andb_false_r. cbn. lia.
      + unfold ids. rewrite map_app. reflexivity.
      + unfold created. cbn. destruct (Z.ltb_spec 0 (k_next c)); [reflexivity|]. pose proof (i_next _ I). lia.
      + intros e [<-|[]]. discriminate.
      + exact E.
    - left. constructor; cbn [fst snd]; auto;
        try (intros k; unfold term_count; cbn; lia); try (intros e [<-|[]]; discriminate). }
  destruct (Z.eqb_spec (k_mode c) 2) as [E|E].
  - destruct o; try (left; apply good_id).
    + apply NewCase. auto.
    + left. cbn [exec_op]. constructor; cbn [fst snd k_streams k_next k_mode]; auto;
        try (intros k; unfold term_count; cbn; lia); try (intros e []).
  - destruct o as [dl|sid ended fs|sid size ended|sid code| |id code|sid inc| |sid|ms|sid dlen plen ended|sid val];
      try (left; apply good_settle, good_exec; [exact E|congruence]).
    (* ONew: settle does nothing after a successful creation, and preserves good otherwise *)
    destruct (NewCase dl (or_introl E)) as [G|(A & B & C & D & F & Mo)].
    + left. apply good_settle, G.
    + right. destruct (exec_op c (ONew dl)) as [c' ev]. cbn [fst snd] in *. unfold settle.
      rewrite Mo. cbn [Z.eqb andb fst snd]. auto 10.
Qed.

Lemma idcount_le1 sid l : NoDup (ids l) -> idcount sid l <= 1.
Proof.
  unfold idcount, ids. induction l as [|s l IH]; cbn [map filter]; intros H; [rewrite lenZ_nil; lia|].
  inversion H as [|? ? Hn Hd]; subst. destruct (Z.eqb_spec (x_id s) sid) as [E|E].
  - rewrite lenZ_cons. assert (lenZ (filter (fun s0 => x_id s0 =? sid) l) = 0).
    { clear IH Hd H. induction l as [|t l IH]; [reflexivity|]. cbn [filter map] in *.
      destruct (Z.eqb_spec (x_id t) sid) as [E'|E'].
      - exfalso. apply Hn. left. congruence.
      - apply IH. intros X. apply Hn. right. exact X. }
    lia.
  - apply IH, Hd.
Qed.
Lemma idcount_in sid l : In sid (ids l) -> 1 <= idcount sid l.
Proof.
  unfold idcount, ids. induction l as [|s l IH]; cbn [map filter]; intros H; [destruct H|].
  destruct (Z.eqb_spec (x_id s) sid) as [E|E].
  - rewrite lenZ_cons. pose proof (lenZ_nonneg (filter (fun s0 => x_id s0 =? sid) l)). lia.
  - destruct H as [H|H]; [contradiction|]. apply IH, H.
Qed.
Lemma dcount_le_idcount sid l : dcount sid l <= idcount sid l.
Proof.
  unfold dcount, idcount. induction l as [|s l IH]; cbn [filter]; [lia|].
  destruct (x_id s =? sid); cbn [andb]; [destruct (x_done s)|]; rewrite ?lenZ_cons; lia.
Qed.
Lemma dcount_all_done sid l : existsb active l = false -> dcount sid l = idcount sid l.
Proof.
  unfold dcount, idcount. induction l as [|s l IH]; cbn [filter existsb]; intros H; [reflexivity|].
  apply orb_false_iff in H as [Ha H]. unfold active in Ha. apply negb_false_iff in Ha. rewrite Ha, andb_true_r.
  destruct (x_id s =? sid); rewrite ?lenZ_cons, IH; auto.
Qed.

Lemma nodup_snoc (l : list Z) x : NoDup l -> ~ In x l -> NoDup (l ++ [x]).
Proof.
  induction l as [|y l IH]; cbn; intros H Hn; [constructor; [intros []|constructor]|].
  inversion H; subst. constructor.
  - intros X. apply in_app_or in X as [X|[X|[]]]; [contradiction|]. apply Hn. left. auto.
  - apply IH; auto.
Qed.

Lemma inv_step c o : inv c -> inv (fst (step c o)).
Proof.
  intros I. destruct (step_step_ok c o I) as [[A B C D E F]|(A & B & C & D & E & F)].
  - constructor.
    + rewrite D. apply I.
    + rewrite B, D. apply I.
    + rewrite B. apply I.
    + intros H. destruct (F H) as [X|[X Y]]; [exact X|]. unfold any_active. rewrite Y. apply (i_closed _ I X).
  - constructor.
    + rewrite D. pose proof (i_next _ I). lia.
    + rewrite B, D. apply Forall_app. split.
      * eapply Forall_impl; [|apply (i_lt _ I)]. cbn. intros; lia.
      * constructor; [lia|constructor].
    + rewrite B. apply nodup_snoc; [apply I|]. intros X.
      pose proof (i_lt _ I) as L. rewrite Forall_forall in L. specialize (L _ X). lia.
    + intros H. rewrite F in H. discriminate.
Qed.

(* ---------- exactly one status ---------- *)
Definition one_status_prop (es : list ev4) : Prop :=
  (forall sid, term_count sid es <= 1) /\
  (forall sid, In sid (created es) -> term_count sid es = 1) /\
  (forall e, In e es -> tag e = 1 -> In (esid e) (created es)).

Lemma final_count c : inv c -> forall sid,
  term_count sid (final c) + dcount sid (k_streams c) = idcount sid (k_streams c).
Proof.
  intros I sid. unfold final. destruct (Z.eqb_spec (k_mode c) 2) as [E|E].
  - cbn [term_count]. rewrite (dcount_all_done sid _ (i_closed _ I E)). unfold term_count. cbn. lia.
  - destruct (good_close_conn c c eq_refl eq_refl) as [A B _ _ _ _]. rewrite A.
    unfold close_conn. cbn [fst k_streams]. rewrite dcount_all_done by apply close_where_all_done.
    unfold idcount. fold (idcount sid (close_where (fun _ => true) C_UNAVAILABLE false (k_streams c))).
    assert (X : forall l l', ids l = ids l' -> idcount sid l = idcount sid l').
    { clear. unfold ids, idcount. induction l as [|a l IH]; destruct l' as [|b l']; cbn [map filter]; try discriminate; auto.
      intros H. inversion H as [[H1 H2]]. rewrite H1. destruct (x_id b =? sid); rewrite ?lenZ_cons, (IH _ H2); reflexivity. }
    apply X, close_where_ids.
Qed.

Lemma final_in c e : In e (final c) -> tag e = 1 -> In (esid e) (ids (k_streams c)).
Proof.
  unfold final. destruct (k_mode c =? 2); [intros []|].
  intros H Ht. apply (g_in _ _ (good_close_conn c c eq_refl eq_refl)); auto.
Qed.
Lemma final_created c : created (final c) = [].
Proof.
  unfold final. destruct (k_mode c =? 2); [reflexivity|].
  apply (g_created _ _ (good_close_conn c c eq_refl eq_refl)).
Qed.

Lemma run_inv ops : forall c es0, inv c ->
  (forall sid, term_count sid es0 = dcount sid (k_streams c)) ->
  created es0 = ids (k_streams c) ->
  (forall e, In e es0 -> tag e = 1 -> In (esid e) (created es0)) ->
  one_status_prop (es0 ++ concat (run_ops c ops)).
Proof.
  induction ops as [|o ops IH]; intros c es0 I Hc Hcr Hin.
  - cbn [run_ops concat]. rewrite app_nil_r.
    assert (T : forall sid, term_count sid (es0 ++ final c) = idcount sid (k_streams c)).
    { intros sid. rewrite term_count_app, Hc. pose proof (final_count c I sid). lia. }
    assert (Cr : created (es0 ++ final c) = ids (k_streams c)).
    { rewrite created_app, final_created, app_nil_r. exact Hcr. }
    split; [|split].
    + intros sid. rewrite T. apply idcount_le1, I.
    + intros sid H. rewrite Cr in H. rewrite T.
      pose proof (idcount_le1 sid _ (i_nodup _ I)). pose proof (idcount_in sid _ H). lia.
    + intros e H Ht. rewrite Cr. apply in_app_or in H as [H|H].
      * rewrite <- Hcr. auto.
      * apply final_in; auto.
  - cbn [run_ops]. pose proof (step_step_ok c o I) as S. pose proof (inv_step c o I) as I'.
    destruct (step c o) as [c' ev]. cbn [fst snd] in *. cbn [concat]. rewrite app_assoc.
    destruct S as [[A B C D E F]|(A & B & C & D & E & F)]; cbn [fst snd] in *.
    + apply IH; auto.
      * intros sid. rewrite term_count_app, Hc. pose proof (A sid). lia.
      * rewrite created_app, C, app_nil_r, B. exact Hcr.
      * intros e H Ht. rewrite created_app, C, app_nil_r. apply in_app_or in H as [H|H]; [auto|].
        rewrite Hcr. auto.
    + apply IH; auto.
      * intros sid. rewrite term_count_app, Hc. pose proof (A sid). lia.
      * rewrite created_app, C, B, Hcr. reflexivity.
      * intros e H Ht. rewrite created_app. apply in_or_app. apply in_app_or in H as [H|H]; [left; auto|].
        exfalso. exact (E e H Ht).
Qed.

Lemma inv0 : inv conn0.
Proof.
  constructor; cbn; try lia; try constructor; try (intros H; discriminate).
Qed.

Theorem one_status ops : one_status_prop (concat (run_ops conn0 ops)).
Proof.
  apply (run_inv ops conn0 [] inv0).
  - intros sid. reflexivity.
  - reflexivity.
  - intros e [].
Qed.

(* ---------- a terminated stream is never touched again ---------- *)
Lemma find_in sid l s : find sid l = Some s -> In s l /\ x_id s = sid.
Proof.
  induction l as [|a l IH]; cbn [find]; [discriminate|].
  destruct (Z.eqb_spec (x_id a) sid) as [E|E].
  - intros H; inversion H; subst. split; [left; reflexivity|reflexivity].
  - intros H. destruct (IH H) as [X Y]. split; [right; exact X|exact Y].
Qed.
Lemma nodup_id_inj l a b : NoDup (ids l) -> In a l -> In b l -> x_id a = x_id b -> a = b.
Proof.
  unfold ids. induction l as [|x l IH]; cbn [map]; intros N Ha Hb E; [destruct Ha|].
  inversion N as [|? ? Hn Hd]; subst.
  destruct Ha as [->|Ha], Hb as [->|Hb]; auto.
  - exfalso. apply Hn. rewrite E. apply in_map, Hb.
  - exfalso. apply Hn. rewrite <- E. apply in_map, Ha.
Qed.

Definition frozen (l l' : list stream) : Prop := forall s, In s l -> x_done s = true -> In s l'.
Lemma frozen_refl l : frozen l l. Proof. intros s H _. exact H. Qed.
Lemma frozen_close p code u l : frozen l (close_where p code u l).
Proof.
  intros s H D. unfold close_where. apply in_map_iff. exists s. split; [|exact H].
  unfold active. rewrite D. reflexivity.
Qed.
Lemma frozen_update l sid f s0 : NoDup (ids l) -> find_active sid l = Some s0 -> frozen l (update sid f l).
Proof.
  intros N Hf s H D. unfold find_active in Hf. destruct (find sid l) as [s1|] eqn:F; [|discriminate].
  destruct (active s1) eqn:A; [|discriminate]. inversion Hf; subst s1.
  destruct (find_in _ _ _ F) as [I1 I2]. unfold update.
  apply in_map_iff. exists s. split; [|exact H].
  destruct (Z.eqb_spec (x_id s) sid) as [E|E]; [|reflexivity].
  exfalso. assert (s = s0) by (apply (nodup_id_inj l); auto; congruence). subst.
  unfold active in A. rewrite D in A. discriminate.
Qed.

Lemma data_frozen c sid size dlen padded ended : inv c ->
  frozen (k_streams c) (k_streams (fst (data_step c sid size dlen padded ended))).
Proof.
  intros I. pose proof (i_nodup _ I) as N. unfold data_step.
  destruct (find_active sid (k_streams c)) as [s|] eqn:F; [|apply frozen_refl].
  destruct ((0 <? size) && _); [apply frozen_close|].
  destruct (negb (x_ng s =? -1)).
  - destruct ((1024 <=? _) || ended); [apply frozen_close|].
    destruct (on_read _ _ _) as [pd' pu']. cbn [fst with_streams k_streams]. eapply frozen_update; eauto.
  - destruct (if padded then _ else _) as [pd' pu'].
    destruct ended; [apply frozen_close|]. cbn [fst with_streams k_streams]. eapply frozen_update; eauto.
Qed.

Lemma exec_frozen c o : inv c -> frozen (k_streams c) (k_streams (fst (exec_op c o))).
Proof.
  intros I. pose proof (i_nodup _ I) as N.
  destruct o as [dl|sid ended fs|sid size ended|sid code| |id code|sid inc| |sid|ms|sid dlen plen ended|sid val]; cbn [exec_op].
  - destruct (k_mode c =? 0); cbn [fst k_streams]; [|apply frozen_refl]. intros s H _. apply in_or_app. left. exact H.
  - destruct (find_active sid (k_streams c)) as [s|] eqn:F; [|apply frozen_refl].
    destruct (negb (meta_ok fs)); [apply frozen_close|].
    destruct (headers_result s ended fs); cbn [fst with_streams k_streams];
      try apply frozen_refl; try (eapply frozen_update; eauto); apply frozen_close.
  - apply data_frozen, I.
  - destruct (find_active sid (k_streams c)) as [s|]; [apply frozen_close|apply frozen_refl].
  - apply frozen_refl.
  - destruct ((0 <? id) && Z.even id); [apply frozen_close|].
    destruct (k_goaway c && (k_prev c <? id)); [apply frozen_close|].
    destruct (negb (any_active c)); apply frozen_close.
  - destruct (inc =? 0); [|apply frozen_refl].
    destruct (find_active sid (k_streams c)); [apply frozen_close|apply frozen_refl].
  - apply frozen_close.
  - apply frozen_close.
  - apply frozen_refl.
  - apply data_frozen, I.
  - destruct ((sid =? 4) && (2147483647 <? val)); [apply frozen_close|apply frozen_refl].
Qed.

Lemma settle_streams r : k_streams (fst (settle r)) = k_streams (fst r).
Proof. destruct r as [c ev]. unfold settle. destruct (_ && _); reflexivity. Qed.

Theorem done_is_final c o s : inv c -> In s (k_streams c) -> x_done s = true ->
  In s (k_streams (fst (step c o))).
Proof.
  intros I H D. unfold step. destruct (k_mode c =? 2).
  - destruct o; try exact H; apply (exec_frozen c _ I s H D).
  - rewrite settle_streams. apply (exec_frozen c _ I s H D).
Qed.

Fixpoint reach (c : conn) (ops : list op) : conn :=
  match ops with [] => c | o :: r => reach (fst (step c o)) r end.
Lemma inv_reach ops : forall c, inv c -> inv (reach c ops).
Proof. induction ops as [|o ops IH]; intros c I; cbn; [exact I|]. apply IH, inv_step, I. Qed.

(* whatever arrives later, in any order and number *)
Theorem done_is_final_forever ops1 ops2 s :
  In s (k_streams (reach conn0 ops1)) -> x_done s = true ->
  In s (k_streams (reach (reach conn0 ops1) ops2)).
Proof.
  generalize (inv_reach ops1 conn0 inv0). generalize (reach conn0 ops1). intros c I.
  revert c I. induction ops2 as [|o ops IH]; intros c I H D; cbn; [exact H|].
  apply IH; [apply inv_step, I| |exact D]. apply done_is_final; auto.
Qed.

(* ---------- the status is the documented function of the terminating event ---------- *)
Lemma close_events_code p code u l e : In e (close_events p code u l) ->
  tag e = 1 /\ ecode e = code /\ exists s, In s l /\ p s = true /\ esid e = x_id s /\ snd e = b2z (x_unproc s || u).
Proof.
  unfold close_events. induction l as [|s l IH]; cbn [flat_map]; [intros []|].
  intros H. apply in_app_or in H as [H|H].
  - destruct (active s && p s) eqn:E; [|destruct H]. destruct H as [<-|[]].
    apply andb_true_iff in E as [_ E]. split; [reflexivity|]. split; [reflexivity|].
    exists s. split; [left; reflexivity|]. split; [exact E|]. split; reflexivity.
  - destruct (IH H) as (A & B & s0 & C & D & F & G). split; [exact A|]. split; [exact B|].
    exists s0. split; [right; exact C|]. auto.
Qed.

Definition rst_status (code dl now : Z) : Z :=
  if (rst_code code =? C_CANCELED) && negb (dl =? 0) && (dl <=? now) then C_DEADLINE else rst_code code.

Theorem status_of_rst c sid code e :
  In e (snd (exec_op c (ORst sid code))) -> tag e = 1 ->
  esid e = sid /\ (snd e = 1 \/ code <> 7) /\
  exists s, find_active sid (k_streams c) = Some s /\ ecode e = rst_status code (x_dl s) (k_now c).
Proof.
  cbn [exec_op]. destruct (find_active sid (k_streams c)) as [s|] eqn:F; [|intros []].
  unfold close_one. cbn [snd]. rewrite F, app_nil_r. intros H _.
  apply close_events_code in H as (_ & B & s0 & C & D & G & U).
  unfold is_sid in D. apply Z.eqb_eq in D. split; [congruence|]. split.
  - rewrite U. destruct (Z.eqb_spec code 7); [left; rewrite orb_true_r; reflexivity|right; assumption].
  - exists s. split; [reflexivity|]. exact B.
Qed.

Theorem status_of_connection_error c e : In e (snd (close_conn c)) -> tag e = 1 -> ecode e = C_UNAVAILABLE.
Proof.
  unfold close_conn. cbn [snd]. intros H Ht. apply in_app_or in H as [H|H].
  - apply close_events_code in H. apply H.
  - destruct H as [<-|[]]. discriminate.
Qed.

(* a non-gRPC response that ends the stream: the HTTP status decides *)
Theorem status_of_http_response s fs hs h :
  x_hdr s = false -> x_ng s = -1 ->
  let a := fold_left hstep fs (mkacc false C_UNKNOWN None false false) in
  a_bad_gs a = false -> a_grpc a = false -> a_hs a = Some hs -> hs <> [] ->
  parse_int 64 hs = Some h -> (h < 100 \/ 200 <= h) ->
  headers_result s true fs = HClose (http_code h) E_PROTOCOL.
Proof.
  intros Hh Hn a Hb Hg Hs Hne Hp Hr. unfold headers_result. rewrite Hh, Hn. cbn [negb andb Z.eqb].
  fold a. rewrite Hb, Hg, Hs. cbn [negb]. destruct hs as [|x hs]; [contradiction|]. rewrite Hp.
  destruct (Z.leb_spec 100 h), (Z.ltb_spec h 200); cbn [andb]; try reflexivity. lia.
Qed.

Lemma fold_grpc_true fs : forall a0, a_grpc a0 = true -> a_grpc (fold_left hstep fs a0) = true.
Proof.
  induction fs as [|[k v] fs IH]; intros a0 H0; cbn [fold_left]; [exact H0|]. apply IH.
  unfold hstep. destruct (a_bad_gs a0); [exact H0|].
  destruct (k =? 2); [destruct (ct_valid v); [reflexivity|exact H0]|].
  destruct (k =? 3); [destruct (parse_int 32 v); exact H0|].
  destruct (k =? 1); [exact H0|]. destruct (k =? 6); [destruct (MDWire.decode_bin v); exact H0|exact H0].
Qed.

(* trailers after valid headers: the grpc-status header decides (Unknown when absent) *)
Theorem status_of_trailers s fs :
  x_hdr s = true -> x_ng s = -1 ->
  let a := fold_left hstep fs (mkacc true C_UNKNOWN None false false) in
  a_bad_gs a = false -> a_herr a = false ->
  headers_result s true fs = HClose (a_gs a) E_NO.
Proof.
  intros Hh Hn a Hb He. unfold headers_result. rewrite Hh, Hn. cbn [negb andb Z.eqb].
  fold a. rewrite Hb, He.
  assert (G : a_grpc a = true) by (apply fold_grpc_true; reflexivity).
  rewrite G. reflexivity.
Qed.

(* ---------- bridge ---------- *)
Lemma events_flatten l : forall n, (length l <= n)%nat -> events n (flatten l) = l.
Proof.
  induction l as [|[[[a b] c] d] l IH]; intros n Hn.
  - destruct n; reflexivity.
  - destruct n; [cbn in Hn; lia|]. cbn [flatten flat_map app events]. f_equal. apply IH. cbn in Hn. lia.
Qed.
Lemma evs_flatten l : evs (flatten l) = l.
Proof.
  unfold evs. apply events_flatten. unfold flatten.
  induction l as [|[[[a b] c] d] l IH]; cbn [flat_map length app]; lia.
Qed.

Definition tags_ok (ev : list ev4) : Prop := forall e, In e ev -> tag e <> 99 /\ tag e <> 77.
Lemma tags_close p code u l : tags_ok (close_events p code u l).
Proof. intros e H. apply close_events_in in H as [H _]. rewrite H. split; discriminate. Qed.
Lemma tags_app a b : tags_ok a -> tags_ok b -> tags_ok (a ++ b).
Proof. intros A B e H. apply in_app_or in H as [H|H]; auto. Qed.
Lemma tags_nil : tags_ok []. Proof. intros e []. Qed.
Lemma tags_one a b c d : a <> 99 -> a <> 77 -> tags_ok [(a, b, c, d)].
Proof. intros H H' e [<-|[]]. split; [exact H|exact H']. Qed.
Lemma tags_close_one c sid code u rst : tags_ok (snd (close_one c sid code u rst)).
Proof.
  unfold close_one. cbn [snd]. apply tags_app; [apply tags_close|].
  destruct (find_active sid (k_streams c)); [destruct rst|]; try apply tags_nil. apply tags_one; discriminate.
Qed.
Lemma tags_close_conn c : tags_ok (snd (close_conn c)).
Proof. unfold close_conn. cbn [snd]. apply tags_app; [apply tags_close|apply tags_one; discriminate]. Qed.

Lemma tags_data c sid size dlen padded ended : tags_ok (snd (data_step c sid size dlen padded ended)).
Proof.
  unfold data_step. destruct (find_active sid (k_streams c)) as [s|]; [|apply tags_nil].
  destruct ((0 <? size) && _); [apply tags_close_one|].
  destruct (negb (x_ng s =? -1)).
  - destruct ((1024 <=? _) || ended); [apply tags_close_one|].
    destruct (on_read _ _ _) as [pd' pu']. apply tags_nil.
  - destruct (if padded then _ else _) as [pd' pu']. destruct ended; [apply tags_close_one|apply tags_nil].
Qed.

Lemma tags_exec c o : tags_ok (snd (exec_op c o)).
Proof.
  destruct o as [dl|sid ended fs|sid size ended|sid code| |id code|sid inc| |sid|ms|sid dlen plen ended|sid val]; cbn [exec_op].
  - destruct (k_mode c =? 0); apply tags_one; discriminate.
  - destruct (find_active sid (k_streams c)) as [s|]; [|apply tags_nil].
    destruct (negb (meta_ok fs)); [apply tags_close_one|].
    destruct (headers_result s ended fs); try apply tags_nil. apply tags_close_one.
  - apply tags_data.
  - destruct (find_active sid (k_streams c)) as [s|]; [apply tags_close_one|apply tags_nil].
  - apply tags_nil.
  - destruct ((0 <? id) && Z.even id); [apply tags_close_conn|].
    destruct (k_goaway c && (k_prev c <? id)); [apply tags_close_conn|].
    destruct (negb (any_active c)); [apply tags_close_conn|]. cbn [snd]. apply tags_close.
  - destruct (inc =? 0); [|apply tags_nil].
    destruct (find_active sid (k_streams c)); [apply tags_close_one|apply tags_nil].
  - apply tags_close_conn.
  - apply tags_close_one.
  - apply tags_nil.
  - apply tags_data.
  - destruct ((sid =? 4) && (2147483647 <? val)); [apply tags_close_conn|apply tags_nil].
Qed.
Lemma tags_settle r : tags_ok (snd r) -> tags_ok (snd (settle r)).
Proof.
  destruct r as [c ev]. unfold settle. destruct (_ && _); cbn [snd]; auto.
  intros H. apply tags_app; [exact H|apply tags_one; discriminate].
Qed.
Lemma tags_step c o : tags_ok (snd (step c o)).
Proof.
  unfold step. destruct (k_mode c =? 2).
  - destruct o; try apply tags_nil; apply tags_exec.
  - apply tags_settle, tags_exec.
Qed.
Lemma tags_final c : tags_ok (final c).
Proof. unfold final. destruct (k_mode c =? 2); [apply tags_nil|apply tags_close_conn]. Qed.
Lemma tags_run ops : forall c, tags_ok (concat (run_ops c ops)).
Proof.
  induction ops as [|o ops IH]; intros c; cbn [run_ops concat].
  - rewrite app_nil_r. apply tags_final.
  - pose proof (tags_step c o). destruct (step c o) as [c' ev]. cbn [concat]. apply tags_app; auto.
Qed.

Lemma rst_ok_step c sid code : forallb (rst_event_ok sid code) (snd (step c (ORst sid code))) = true.
Proof.
  apply forallb_forall. intros e H. unfold rst_event_ok.
  destruct ((tag e =? 1) && (esid e =? sid)) eqn:T; [|reflexivity]. cbn [negb orb].
  apply andb_true_iff in T as [T1 T2]. apply Z.eqb_eq in T1.
  assert (H' : In e (snd (exec_op c (ORst sid code)))).
  { revert H. unfold step. destruct (k_mode c =? 2); [intros []|].
    destruct (exec_op c (ORst sid code)) as [c' ev]. unfold settle. destruct (_ && _); cbn [snd]; auto.
    intros H. apply in_app_or in H as [H|[<-|[]]]; [exact H|discriminate]. }
  destruct (status_of_rst c sid code e H' T1) as (_ & U & s & _ & C). rewrite C. unfold rst_status.
  apply andb_true_iff. split.
  - destruct (rst_code code =? C_CANCELED) eqn:R; cbn [andb].
    + destruct (negb (x_dl s =? 0) && (x_dl s <=? k_now c)); [|rewrite Z.eqb_refl; reflexivity].
      rewrite (Z.eqb_refl C_DEADLINE), orb_true_r. reflexivity.
    + rewrite Z.eqb_refl. reflexivity.
  - destruct U as [U|U]; [rewrite U; reflexivity|]. destruct (Z.eqb_spec code 7); [contradiction|]. apply orb_true_r.
Qed.

Lemma clauses_rst_run : forall ws os c, decode_ops ws = Some os ->
  forallb (fun x => snd x) (clauses_rst ws (run_ops c os)) = true.
Proof.
  induction ws as [|w ws IH]; intros os c Hd; cbn [decode_ops] in Hd.
  - reflexivity.
  - destruct (decode_op w) as [o|] eqn:Ho; [|discriminate].
    destruct (decode_ops ws) as [os'|] eqn:Hos; [|discriminate]. inversion Hd; subst.
    cbn [run_ops]. pose proof (rst_ok_step c) as R.
    destruct (step c o) as [c' ev] eqn:S. cbn [clauses_rst forallb]. rewrite (IH _ c' eq_refl), andb_true_r.
    unfold clause_rst. rewrite Ho. destruct o; try reflexivity. cbn [snd].
    specialize (R sid code). rewrite S in R. exact R.
Qed.

Lemma run_ops_length os : forall c, length (run_ops c os) = S (length os).
Proof. induction os as [|o os IH]; intros c; cbn [run_ops length]; [reflexivity|]. destruct (step c o). cbn. rewrite IH. reflexivity. Qed.
Lemma decode_ops_length : forall ws os, decode_ops ws = Some os -> length os = length ws.
Proof.
  induction ws as [|w ws IH]; intros os H; cbn [decode_ops] in H; [inversion H; reflexivity|].
  destruct (decode_op w); [|discriminate]. destruct (decode_ops ws) eqn:E; [|discriminate]. inversion H; subst. cbn. rewrite (IH _ eq_refl). reflexivity.
Qed.

Definition wf (cfg : word) (ops : list word) : bool :=
  match decode_ops ops with Some _ => true | None => false end.

Theorem model_trace_holds cfg ops : wf cfg ops = true ->
  exists obs, run cfg ops = Some obs /\ holds_b cfg ops obs = true.
Proof.
  unfold wf, run. destruct (decode_ops ops) as [os|] eqn:Hd; [|discriminate]. intros _.
  eexists. split; [reflexivity|]. unfold holds_b, clauses. rewrite map_map.
  rewrite (map_ext _ (fun x => x) evs_flatten), map_id.
  unfold clauses_ev. set (R := run_ops conn0 os). set (es := concat R).
  destruct (one_status os) as (P1 & P2 & P3). fold R es in P1, P2, P3.
  pose proof (tags_run os conn0) as T. fold R es in T.
  rewrite forallb_app. apply andb_true_iff. split; [|apply clauses_rst_run, Hd].
  cbn [forallb snd]. rewrite andb_true_r. repeat (apply andb_true_iff; split).
  - unfold R. rewrite run_ops_length, (decode_ops_length _ _ Hd). apply Nat.eqb_refl.
  - apply forallb_forall. intros e H. apply negb_true_iff. apply Z.eqb_neq. apply (T e H).
  - apply forallb_forall. intros e H. destruct (Z.eqb_spec (tag e) 1) as [E|E]; [|reflexivity]. cbn [negb orb].
    apply Z.eqb_eq. apply P2, P3; auto.
  - apply forallb_forall. intros sid H. apply Z.eqb_eq, P2, H.
  - apply forallb_forall. intros e H. destruct (Z.eqb_spec (tag e) 1) as [E|E]; [|reflexivity]. cbn [negb orb].
    apply existsb_exists. exists (esid e). split; [apply P3; auto|apply Z.eqb_refl].
  - apply forallb_forall. intros e H. apply negb_true_iff. apply Z.eqb_neq. apply (T e H).
Qed.

(* padding counts: a PADDED DATA frame whose total length (pad-length byte + data + padding) does
   not fit the stream's receive window terminates the stream with Internal and
   RST_STREAM(FLOW_CONTROL_ERROR), whatever part of it is padding *)
Theorem padded_data_flow_control c sid dlen plen ended s :
  find_active sid (k_streams c) = Some s -> 0 <= dlen -> 0 <= plen ->
  stream_limit < x_pd s + (1 + dlen + plen) + x_pu s ->
  exec_op c (OPadData sid dlen plen ended) = close_one c sid C_INTERNAL false (Some E_FLOW).
Proof.
  intros F D P H. cbn [exec_op]. unfold data_step. rewrite F.
  destruct (Z.ltb_spec 0 (1 + dlen + plen)); [|lia].
  destruct (Z.ltb_spec stream_limit (x_pd s + (1 + dlen + plen) + x_pu s)); [|lia]. reflexivity.
Qed.
(* ... and one that fits a gRPC stream gives the padding back at once (onRead of size - dlen) *)
Theorem padded_data_accepted c sid dlen plen s :
  find_active sid (k_streams c) = Some s -> x_ng s = -1 -> 0 <= dlen -> 0 <= plen -> 0 <= x_pd s ->
  x_pd s + (1 + dlen + plen) + x_pu s <= stream_limit ->
  exec_op c (OPadData sid dlen plen false) =
  (with_streams c (update sid (set_fc (x_nb s) (x_pd s + dlen)
                                 (if stream_limit / 4 <=? x_pu s + (1 + plen) then 0 else x_pu s + (1 + plen)))
                          (k_streams c)), []).
Proof.
  intros F G D P Q H. cbn [exec_op]. unfold data_step, on_read. rewrite F, G. cbn [Z.eqb negb].
  destruct (Z.ltb_spec stream_limit (x_pd s + (1 + dlen + plen) + x_pu s)); [lia|]. rewrite andb_false_r.
  destruct (Z.eqb_spec (x_pd s + (1 + dlen + plen)) 0) as [E|E].
  - lia.
  - replace (1 + dlen + plen - dlen) with (1 + plen) by lia.
    replace (x_pd s + (1 + dlen + plen) - (1 + plen)) with (x_pd s + dlen) by lia. reflexivity.
Qed.
