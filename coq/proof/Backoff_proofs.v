(* Proofs for engine Backoff (C20).  Float reasoning goes through the standard library's
   FloatAxioms (spec of the primitive operations) and Flocq's IEEE754 development. *)
From Coq Require Import List ZArith Bool Reals Floats Lia Lra.
From Flocq Require Import Core.Core IEEE754.BinarySingleNaN.
From Flocq Require IEEE754.PrimFloat.
From VLib Require Import Codec Machine.
From VModel Require Import Backoff.
From VProof Require Import Flt_proofs.
Import ListNotations.
Open Scope Z_scope.

Lemma backoff_base : forall c r, backoff c 0 r = base c.
Proof. reflexivity. Qed.

(* ---------- the conversion tail: conv ---------- *)

Lemma valid_mant_lt : forall s m e, valid_binary (S754_finite s m e) = true -> Zpos m < 2^53.
Proof.
  intros s m e H. unfold valid_binary, bounded, canonical_mantissa in H.
  apply andb_prop in H. destruct H as [H _]. apply Zeq_bool_eq in H.
  unfold SpecFloat.fexp in H.
  assert (Hd : Zpos (digits2_pos m) <= 53) by (unfold SpecFloat.emin, emax, prec in H; lia).
  rewrite Digits.Zpos_digits2_pos in Hd.
  generalize (Digits.Zdigits_correct radix2 (Zpos m)). intros [_ Hu].
  rewrite Z.abs_eq in Hu by lia.
  eapply Z.lt_le_trans. exact Hu. change (Zaux.radix_val radix2) with 2.
  apply Z.pow_le_mono_r; lia.
Qed.

Definition trunc_val (m : positive) (e : Z) : Z :=
  if 0 <=? e then Zpos m * 2^e else Zpos m / 2^(- e).

Lemma trunc_val_nonneg : forall m e, 0 <= trunc_val m e.
Proof.
  intros m e. unfold trunc_val. destruct (0 <=? e) eqn:He.
  - apply Z.mul_nonneg_nonneg. lia. apply Z.pow_nonneg. lia.
  - apply Z.div_pos. lia. apply Z.pow_pos_nonneg; lia.
Qed.

Lemma sf_two63 : Prim2SF two63 = S754_finite false 4503599627370496 11.
Proof. reflexivity. Qed.

Lemma below_two63 : forall m e, valid_binary (S754_finite false m e) = true ->
  SFleb (Prim2SF two63) (S754_finite false m e) = false -> trunc_val m e < 2^63.
Proof.
  intros m e Hv Hc. apply valid_mant_lt in Hv. rewrite sf_two63 in Hc.
  unfold SFleb, SFcompare in Hc. unfold trunc_val.
  destruct (Z.compare 11 e) eqn:Hce.
  - apply Z.compare_eq in Hce. subst e.
    change (Pos.compare_cont Eq 4503599627370496 m) with (Pos.compare 4503599627370496 m) in Hc.
    destruct (Pos.compare 4503599627370496 m) eqn:Hp; try discriminate Hc.
    apply Pos.compare_gt_iff in Hp. (* m < 2^52 *)
    cbn [Z.leb Z.compare]. change (2^11) with 2048. change (2^63) with 9223372036854775808. assert (Hz : Z.pos m < 4503599627370496) by exact Hp. clear Hv Hc Hp. lia.
  - discriminate Hc.
  - apply Z.compare_gt_iff in Hce.
    destruct (0 <=? e) eqn:He.
    + apply Z.leb_le in He.
      apply Z.lt_le_trans with (2^53 * 2^e).
      * apply Z.mul_lt_mono_pos_r. apply Z.pow_pos_nonneg; lia. exact Hv.
      * rewrite <- Z.pow_add_r by lia. apply Z.pow_le_mono_r; lia.
    + apply Z.leb_gt in He. apply Z.le_lt_trans with (Zpos m).
      * apply Z.div_le_upper_bound. apply Z.pow_pos_nonneg; lia.
        assert (0 < 2 ^ (- e)) by (apply Z.pow_pos_nonneg; lia). nia.
      * eapply Z.lt_trans. exact Hv. reflexivity.
Qed.

Lemma is_nan_b_sf : forall x, is_nan_b x = false -> Prim2SF x <> S754_nan.
Proof.
  intros x H E. unfold is_nan_b in H. rewrite eqb_spec, E in H. discriminate H.
Qed.

(* the result of the conversion tail is never negative and never above MaxInt64, for
   every non-NaN float (infinities included) *)
Lemma conv_range : forall x, is_nan_b x = false -> 0 <= conv x <= max_i64.
Proof.
  intros x Hn. apply is_nan_b_sf in Hn. unfold conv. rewrite ltb_spec, leb_spec.
  generalize (Prim2SF_valid x). unfold to_i64.
  change (Prim2SF 0%float) with (S754_zero false).
  destruct (Prim2SF x) as [s|s| |s m e] eqn:E; intro Hv.
  - cbn. unfold max_i64; lia.
  - destruct s; cbn; unfold max_i64; lia.
  - congruence.
  - destruct s.
    + cbn. unfold max_i64; lia.
    + change (SFltb (S754_finite false m e) (S754_zero false)) with false. cbv iota.
      destruct (SFleb (Prim2SF two63) (S754_finite false m e)) eqn:Hc.
      * unfold max_i64; lia.
      * generalize (below_two63 m e Hv Hc) (trunc_val_nonneg m e). unfold sf_trunc. fold (trunc_val m e).
        intros H1 H2. unfold in_i64, min_i64, max_i64.
        replace ((- 2 ^ 63 <=? trunc_val m e) && (trunc_val m e <=? 2 ^ 63 - 1)) with true.
        lia. symmetry. apply andb_true_intro. split; apply Z.leb_le; lia.
Qed.

(* for any float at all the result fits int64 (saturation, no wrap); NaN gives MinInt64 *)
Lemma conv_in_i64 : forall x, min_i64 <= conv x <= max_i64.
Proof.
  intro x. unfold conv. destruct (PrimFloat.ltb x 0). unfold min_i64, max_i64; lia.
  destruct (PrimFloat.leb two63 x). unfold min_i64, max_i64; lia.
  unfold to_i64. destruct (sf_trunc (Prim2SF x)) as [v|].
  - destruct (in_i64 v) eqn:H. unfold in_i64 in H. apply andb_prop in H. destruct H as [H1 H2].
    apply Z.leb_le in H1, H2. lia. unfold min_i64, max_i64; lia.
  - unfold min_i64, max_i64; lia.
Qed.

Lemma conv_nan : forall x, is_nan_b x = true -> conv x = min_i64.
Proof.
  intros x H. unfold is_nan_b in H. rewrite eqb_spec in H.
  assert (E : Prim2SF x = S754_nan).
  { destruct (Prim2SF x) as [s|s| |s m e] eqn:E; try reflexivity; exfalso.
    - discriminate H.
    - destruct s; discriminate H.
    - unfold SFeqb, SFcompare in H. destruct s.
      + rewrite Z.compare_refl, Pos.compare_cont_refl in H. discriminate H.
      + rewrite Z.compare_refl, Pos.compare_cont_refl in H. discriminate H. }
  unfold conv, to_i64. rewrite ltb_spec, leb_spec, E. reflexivity.
Qed.

(* ---------- conv on finite floats, in real arithmetic ---------- *)
Open Scope R_scope.
Module FP := Flocq.IEEE754.PrimFloat.

Definition R63 : R := IZR (2 ^ 63).
Definition R64 : R := IZR (2 ^ 64).

Lemma FR_two63 : FR two63 R63.
Proof.
  generalize (FR_const two63 _ _ sf_two63). intro H. replace R63 with (4503599627370496 * bpow radix2 11). exact H.
  unfold R63. change (bpow radix2 11) with (IZR 2048). rewrite <- mult_IZR. f_equal.
Qed.

Definition two64 : PrimFloat.float := 0x1p64%float.
Lemma FR_two64 : FR two64 R64.
Proof.
  assert (E : Prim2SF two64 = S754_finite false 4503599627370496 12) by reflexivity.
  generalize (FR_const two64 _ _ E). intro H. replace R64 with (4503599627370496 * bpow radix2 12). exact H.
  unfold R64. change (bpow radix2 12) with (IZR 4096). rewrite <- mult_IZR. f_equal.
Qed.

Definition convR (v : R) : Z :=
  if Rlt_bool v 0 then 0%Z else if Rle_bool R63 v then max_i64 else Zfloor v.

Lemma to_i64_floor : forall x v, FR x v -> 0 <= v < R63 -> to_i64 x = Zfloor v.
Proof.
  intros x v [F H] [H0 H1]. unfold to_i64. rewrite <- (FP.B2SF_Prim2B x).
  assert (Hfl : (0 <= Zfloor v < 2 ^ 63)%Z).
  { split.
    - rewrite <- (Zfloor_IZR 0). apply Zfloor_le. exact H0.
    - apply lt_IZR. eapply Rle_lt_trans. apply Zfloor_lb. exact H1. }
  assert (Hin : in_i64 (Zfloor v) = true).
  { unfold in_i64, min_i64, max_i64. apply andb_true_intro. split; apply Z.leb_le; lia. }
  destruct (FP.Prim2B x) as [s|s| |s m e Hbd]; try discriminate F.
  - cbn in H. subst v. cbn [B2SF sf_trunc]. rewrite (Zfloor_IZR 0). reflexivity.
  - cbn in H. destruct s.
    + exfalso. assert (F2R (Float radix2 (cond_Zopp true (Z.pos m)) e) < 0) by (apply F2R_lt_0; cbn; lia). lra.
    + cbn [B2SF sf_trunc]. fold (trunc_val m e).
      assert (Ht : trunc_val m e = Zfloor v).
      { subst v. unfold trunc_val, F2R. cbn [Fnum Fexp cond_Zopp].
        destruct (0 <=? e)%Z eqn:He.
        - apply Z.leb_le in He. rewrite <- IZR_Zpower by exact He. rewrite <- mult_IZR, Zfloor_IZR. reflexivity.
        - apply Z.leb_gt in He. replace e with (- - e)%Z at 2 by lia. rewrite bpow_opp.
          rewrite <- IZR_Zpower by lia. change (Zaux.radix_val radix2) with 2%Z.
          fold (Rdiv (IZR (Z.pos m)) (IZR (2 ^ (- e)))). rewrite Zfloor_div. reflexivity.
          apply Z.pow_nonzero; lia. }
      rewrite Ht, Hin. reflexivity.
Qed.

Lemma conv_R : forall x v, FR x v -> conv x = convR v.
Proof.
  intros x v Hx. unfold conv, convR.
  rewrite (FR_ltb _ _ _ _ Hx FR_zero), (FR_leb _ _ _ _ FR_two63 Hx).
  destruct (Rlt_bool_spec v 0). reflexivity.
  destruct (Rle_bool_spec R63 v). reflexivity.
  apply to_i64_floor. exact Hx. lra.
Qed.

Lemma convR_mono : forall a b, a <= b -> (convR a <= convR b)%Z.
Proof.
  intros a b Hab. unfold convR.
  assert (Hmax : forall v, 0 <= v < R63 -> (0 <= Zfloor v <= max_i64)%Z).
  { intros v [H0 H1]. split. rewrite <- (Zfloor_IZR 0). apply Zfloor_le. exact H0.
    assert (Zfloor v < 2 ^ 63)%Z. apply lt_IZR. eapply Rle_lt_trans. apply Zfloor_lb. exact H1.
    unfold max_i64. lia. }
  destruct (Rlt_bool_spec a 0); destruct (Rlt_bool_spec b 0); try lra.
  - lia.
  - destruct (Rle_bool_spec R63 b). unfold max_i64; lia. apply Hmax. lra.
  - destruct (Rle_bool_spec R63 a); destruct (Rle_bool_spec R63 b); try lra.
    + lia.
    + apply Hmax. lra.
    + apply Zfloor_le. exact Hab.
Qed.

Lemma convR_nonneg : forall v, (0 <= convR v <= max_i64)%Z.
Proof.
  intro v. unfold convR. destruct (Rlt_bool_spec v 0). unfold max_i64; lia.
  destruct (Rle_bool_spec R63 v). unfold max_i64; lia.
  split. rewrite <- (Zfloor_IZR 0). apply Zfloor_le. exact H.
  assert (Zfloor v < 2 ^ 63)%Z. apply lt_IZR. eapply Rle_lt_trans. apply Zfloor_lb. exact H0.
  unfold max_i64. lia.
Qed.

(* ---------- float64(int64) ---------- *)
Lemma R63_small : forall v, 0 <= v <= R63 -> Rabs v < bpow radix2 1024.
Proof.
  intros v [H0 H1]. apply small_lt. rewrite Rabs_pos_eq by exact H0. eapply Rle_trans. exact H1.
  apply IZR_le. vm_compute. discriminate.
Qed.
Lemma R64_small : forall v, 0 <= v <= R64 -> Rabs v < bpow radix2 1024.
Proof.
  intros v [H0 H1]. apply small_lt. rewrite Rabs_pos_eq by exact H0. exact H1.
Qed.

Lemma FR_of_i64 : forall z, (0 <= z <= max_i64)%Z ->
  FR (of_i64 z) (rnd (IZR z)) /\ 0 <= rnd (IZR z) <= R63 /\ Bsign (FP.Prim2B (of_i64 z)) = false.
Proof.
  intros z Hz. unfold of_i64. replace (z <? 0)%Z with false by (symmetry; apply Z.ltb_ge; lia).
  assert (Hr : 0 <= rnd (IZR z) <= R63).
  { apply (rnd_between _ _ _ _ _ FR_zero FR_two63). split. apply IZR_le; lia.
    apply IZR_le. unfold max_i64 in Hz. lia. }
  unfold FR. rewrite FP.of_int63_equiv.
  assert (Ez : Uint63.to_Z (Uint63.of_Z z) = z).
  { rewrite Uint63.of_Z_spec. apply Z.mod_small. unfold max_i64 in Hz. change Uint63.wB with (2^63)%Z. lia. }
  rewrite Ez.
  generalize (binary_normalize_correct prec emax FP.Hprec FP.Hmax mode_NE z 0 false).
  cbv zeta. replace (F2R (Float radix2 z 0)) with (IZR z) by (unfold F2R; cbn; lra).
  change (round radix2 _ _ (IZR z)) with (rnd (IZR z)).
  rewrite Rlt_bool_true by (apply R63_small; exact Hr).
  intros (H1 & H2 & H3). repeat split; try assumption; try apply Hr.
  rewrite H3. destruct (Rcompare_spec (IZR z) 0); try reflexivity.
  exfalso. apply lt_IZR in H. lia.
Qed.

(* ---------- the loop: values stay in [+0, +Inf] ---------- *)
Definition NNF (b : PrimFloat.float) : Prop :=
  exists v, FR b v /\ 0 <= v /\ Bsign (FP.Prim2B b) = false.
Definition PINF (b : PrimFloat.float) : Prop := FP.Prim2B b = B754_infinity false.

Lemma mul_step : forall b m vm, NNF b -> FR m vm -> 1 <= vm -> NNF (b * m)%float \/ PINF (b * m)%float.
Proof.
  intros b m vm (v & Hb & Hv & Sb) Hm Hvm.
  assert (Sm : Bsign (FP.Prim2B m) = false) by (eapply FR_pos_sign; [exact Hm | lra]).
  unfold NNF, PINF, FR. rewrite FP.mul_equiv.
  generalize (Bmult_correct prec emax FP.Hprec FP.Hmax mode_NE (FP.Prim2B b) (FP.Prim2B m)).
  destruct Hb as [Fb Eb]. destruct Hm as [Fm Em]. rewrite Eb, Em, Sb, Sm.
  change (round radix2 _ _ (v * vm)) with (rnd (v * vm)).
  destruct (Rlt_bool (Rabs (rnd (v * vm))) (bpow radix2 emax)).
  - intros (H1 & H2 & H3). left. exists (rnd (v * vm)). repeat split.
    + rewrite H2, Fb, Fm. reflexivity.
    + exact H1.
    + apply rnd_nonneg. apply Rmult_le_pos; lra.
    + apply H3. destruct (Bmult mode_NE (FP.Prim2B b) (FP.Prim2B m)); try reflexivity.
      rewrite Fb, Fm in H2. discriminate H2.
  - intro H. right. cbn in H.
    destruct (Bmult mode_NE (FP.Prim2B b) (FP.Prim2B m)); cbn in H; try discriminate H.
    injection H as ->. reflexivity.
Qed.

Lemma PINF_not_lt : forall b mx, PINF b -> PrimFloat.ltb b mx = false.
Proof.
  intros b mx H. rewrite FP.ltb_equiv, H. destruct (FP.Prim2B mx) as [s|s| |s m e Hbd]; try reflexivity.
  destruct s; reflexivity.
Qed.

Lemma loop_inv : forall n b mx m vm, FR m vm -> 1 <= vm -> NNF b \/ PINF b ->
  NNF (loop n b mx m) \/ PINF (loop n b mx m).
Proof.
  induction n as [|n IH]; intros b mx m vm Hm Hvm Hb; cbn [loop]. exact Hb.
  destruct Hb as [Hb | Hb].
  - destruct (PrimFloat.ltb b mx). apply (IH _ _ _ vm Hm Hvm). apply (mul_step _ _ vm); assumption.
    left; exact Hb.
  - rewrite (PINF_not_lt _ _ Hb). right; exact Hb.
Qed.

(* configurations for which the documented interval is claimed (interval_dom plus a
   finite multiplier) *)
Definition dom (c : config) (n : Z) : bool :=
  interval_dom c n && PrimFloat.ltb (mult c) infinity.

Lemma dom_inv : forall c n, dom c n = true ->
  (1 <= n)%Z /\ (0 <= base c)%Z /\ (0 <= maxd c)%Z /\
  (exists vm, FR (mult c) vm /\ 1 <= vm) /\ (exists vj, FR (jit c) vj /\ 0 <= vj <= 1).
Proof.
  intros c n H. unfold dom, interval_dom in H.
  apply andb_prop in H; destruct H as [H HG]. apply andb_prop in H; destruct H as [H HF].
  apply andb_prop in H; destruct H as [H HE]. apply andb_prop in H; destruct H as [H HD].
  apply andb_prop in H; destruct H as [H HC]. apply andb_prop in H; destruct H as [HA HB].
  apply Z.leb_le in HA, HE, HF.
  repeat split; try assumption.
  - apply (above_FR _ _ _ FR_one); assumption.
  - apply (between_FR _ _ _ _ _ FR_zero FR_one); assumption.
Qed.

Lemma capped_FR : forall c n, (0 <= base c <= max_i64)%Z -> (0 <= maxd c <= max_i64)%Z ->
  (exists vm, FR (mult c) vm /\ 1 <= vm) ->
  exists vc, FR (capped c n) vc /\ 0 <= vc <= R63.
Proof.
  intros c n Hb Hx (vm & Hm & Hvm). unfold capped.
  destruct (FR_of_i64 _ Hb) as (Fb & Rb & Sb). destruct (FR_of_i64 _ Hx) as (Fx & Rx & Sx).
  assert (L : NNF (loop n (of_i64 (base c)) (of_i64 (maxd c)) (mult c)) \/
              PINF (loop n (of_i64 (base c)) (of_i64 (maxd c)) (mult c))).
  { apply (loop_inv _ _ _ _ vm Hm Hvm). left. exists (rnd (IZR (base c))). repeat split; try apply Fb; try apply Rb; assumption. }
  destruct L as [(v & Fv & Hv & _) | Hinf].
  - rewrite (FR_ltb _ _ _ _ Fx Fv). destruct (Rlt_bool_spec (rnd (IZR (maxd c))) v).
    + eexists. split. exact Fx. exact Rx.
    + exists v. split. exact Fv. lra.
  - rewrite FP.ltb_equiv, Hinf. destruct Fx as [Ffx Efx].
    destruct (FP.Prim2B (of_i64 (maxd c))) as [s|s| |s m e Hbd] eqn:E; try discriminate Ffx.
    + cbn. eexists. split. split. rewrite E. reflexivity. rewrite E. exact Efx. exact Rx.
    + replace (Bltb (B754_finite s m e Hbd) (B754_infinity false)) with true by (destruct s; reflexivity).
      eexists. split. split. rewrite E. reflexivity. rewrite E. exact Efx. exact Rx.
Qed.

(* ---------- the jitter factor 1 + j*(r*2-1) ---------- *)
Definition FV (vj a : R) : R := rnd (1 + rnd (vj * rnd (rnd (a * 2) - 1))).

Lemma FR_mone : FR (-1)%float (-1).
Proof. apply (FR_opp _ _ FR_one). Qed.
Lemma FR_mtwo : FR (-2)%float (-2).
Proof. apply (FR_opp _ _ FR_two). Qed.

Lemma small2 : forall v, -2 <= v <= 2 -> Rabs v < bpow radix2 1024.
Proof.
  intros v H. apply small_lt. apply Rabs_le. split.
  - apply Rle_trans with (-2). 2: lra. rewrite <- opp_IZR. apply IZR_le. vm_compute. discriminate.
  - apply Rle_trans with 2. lra. apply IZR_le. vm_compute. discriminate.
Qed.

Lemma inner_range : forall a, 0 <= a <= 1 ->
  0 <= rnd (a * 2) <= 2 /\ -1 <= rnd (rnd (a * 2) - 1) <= 1.
Proof.
  intros a Ha.
  assert (H1 : 0 <= rnd (a * 2) <= 2) by (apply (rnd_between _ _ _ _ _ FR_zero FR_two); lra).
  split. exact H1. apply (rnd_between _ _ _ _ _ FR_mone FR_one). lra.
Qed.

Lemma FR_factor : forall j r vj a, FR j vj -> 0 <= vj <= 1 -> FR r a -> 0 <= a <= 1 ->
  FR (factor j r) (FV vj a) /\ 0 <= FV vj a <= 2.
Proof.
  intros j r vj a Hj Hvj Hr Ha. unfold factor, FV.
  destruct (inner_range a Ha) as [I1 I2].
  assert (J : - vj <= rnd (vj * rnd (rnd (a * 2) - 1)) <= vj).
  { apply (rnd_between _ _ _ _ _ (FR_opp _ _ Hj) Hj).
    assert (-1 <= rnd (rnd (a * 2) - 1) <= 1) by exact I2. nra. }
  assert (K : 0 <= rnd (1 + rnd (vj * rnd (rnd (a * 2) - 1))) <= 2).
  { apply (rnd_between _ _ _ _ _ FR_zero FR_two). lra. }
  split; [|exact K].
  apply FR_add. exact FR_one. 2: apply small2; lra.
  apply FR_mul. exact Hj. 2: apply small2; lra.
  apply FR_sub. 2: exact FR_one. 2: apply small2; lra.
  apply FR_mul. exact Hr. exact FR_two. apply small2; lra.
Qed.

Lemma FV_mono : forall vj a b, 0 <= vj -> a <= b -> FV vj a <= FV vj b.
Proof.
  intros vj a b Hj Hab. unfold FV. apply rnd_le. apply Rplus_le_compat_l. apply rnd_le.
  apply Rmult_le_compat_l. exact Hj. apply rnd_le. apply Rplus_le_compat_r. apply rnd_le. lra.
Qed.

(* 1 - j and 1 + j bracket the factor *)
Lemma FV_zero : forall j vj, FR j vj -> FV vj 0 = rnd (1 - vj).
Proof.
  intros j vj Hj. unfold FV. replace (0 * 2) with 0 by lra. rewrite rnd_0.
  replace (0 - 1) with (-1) by lra. rewrite (rnd_id _ _ FR_mone).
  replace (vj * -1) with (- vj) by lra. rewrite (rnd_id _ _ (FR_opp _ _ Hj)). f_equal.
Qed.
Lemma FV_upper : forall j vj a, FR j vj -> 0 <= vj -> 0 <= a <= 1 -> FV vj a <= rnd (1 + vj).
Proof.
  intros j vj a Hj Hvj Ha. unfold FV. destruct (inner_range a Ha) as [I1 I2].
  apply rnd_le. apply Rplus_le_compat_l. rewrite <- (rnd_id _ _ Hj) at 2. apply rnd_le.
  assert (rnd (rnd (a * 2) - 1) <= 1) by apply I2. nra.
Qed.

(* ---------- the product and the result ---------- *)
Lemma prod_FR : forall x f vc vf, FR x vc -> 0 <= vc <= R63 -> FR f vf -> 0 <= vf <= 2 ->
  FR (x * f)%float (rnd (vc * vf)).
Proof.
  intros x f vc vf Hx Hc Hf Hvf. apply FR_mul; try assumption. apply R64_small.
  apply (rnd_between _ _ _ _ _ FR_zero FR_two64). split. apply Rmult_le_pos; lra.
  replace R64 with (R63 * 2). apply Rmult_le_compat; lra.
  unfold R63, R64. rewrite <- mult_IZR. f_equal.
Qed.

Lemma one_minus_FR : forall j vj, FR j vj -> 0 <= vj <= 1 ->
  FR (1 - j)%float (rnd (1 - vj)) /\ 0 <= rnd (1 - vj) <= 2.
Proof.
  intros j vj Hj Hvj. assert (0 <= rnd (1 - vj) <= 2) by (apply (rnd_between _ _ _ _ _ FR_zero FR_two); lra).
  split; [|assumption]. apply FR_sub. exact FR_one. exact Hj. apply small2. lra.
Qed.
Lemma one_plus_FR : forall j vj, FR j vj -> 0 <= vj <= 1 ->
  FR (1 + j)%float (rnd (1 + vj)) /\ 0 <= rnd (1 + vj) <= 2.
Proof.
  intros j vj Hj Hvj. assert (0 <= rnd (1 + vj) <= 2) by (apply (rnd_between _ _ _ _ _ FR_zero FR_two); lra).
  split; [|assumption]. apply FR_add. exact FR_one. exact Hj. apply small2. lra.
Qed.

Definition draw_ok (r : PrimFloat.float) : bool := PrimFloat.leb 0%float r && PrimFloat.leb r rmax.

Lemma FR_rmax : exists v, FR rmax v /\ 0 <= v <= 1.
Proof.
  apply (between_FR _ _ _ _ _ FR_zero FR_one); reflexivity.
Qed.

Lemma draw_ok_inv : forall r, draw_ok r = true ->
  exists a vmax, FR r a /\ FR rmax vmax /\ 0 <= a <= vmax /\ vmax <= 1.
Proof.
  intros r H. unfold draw_ok in H. apply andb_prop in H. destruct H as [H1 H2].
  destruct FR_rmax as (vmax & Hm & Hv).
  destruct (between_FR _ _ _ _ _ FR_zero Hm H1 H2) as (a & Ha & Hr).
  exists a, vmax. split. exact Ha. split. exact Hm. split. exact Hr. lra.
Qed.

(* value of Backoff(n) for n >= 1 under dom, as a function of the draw *)
Lemma backoff_value : forall c n, dom c n = true -> (base c <= max_i64)%Z -> (maxd c <= max_i64)%Z ->
  exists vc vj, 0 <= vc <= R63 /\ 0 <= vj <= 1 /\ FR (jit c) vj /\
    (forall r a, FR r a -> 0 <= a <= 1 -> backoff c n r = convR (rnd (vc * FV vj a))) /\
    int_lo c n = convR (rnd (vc * rnd (1 - vj))) /\
    int_hi c n = convR (rnd (vc * rnd (1 + vj))).
Proof.
  intros c n Hd Hb Hx. destruct (dom_inv _ _ Hd) as (Hn & Hb0 & Hx0 & Hm & (vj & Hj & Hvj)).
  destruct (capped_FR c (Z.to_nat n) (conj Hb0 Hb) (conj Hx0 Hx) Hm) as (vc & Hc & Hvc).
  exists vc, vj. split. exact Hvc. split. exact Hvj. split. exact Hj. split; [|split].
  - intros r a Hr Ha. unfold backoff. replace (n =? 0)%Z with false by (symmetry; apply Z.eqb_neq; lia).
    destruct (FR_factor _ _ _ _ Hj Hvj Hr Ha) as [Hf Hvf].
    apply conv_R. apply prod_FR; assumption.
  - unfold int_lo. destruct (one_minus_FR _ _ Hj Hvj). apply conv_R. apply prod_FR; assumption.
  - unfold int_hi. destruct (one_plus_FR _ _ Hj Hvj). apply conv_R. apply prod_FR; assumption.
Qed.

Close Scope R_scope.

(* The documented interval: for n >= 1, 1 <= Multiplier < +Inf, 0 <= Jitter <= 1,
   0 <= BaseDelay, MaxDelay and any draw r in [0, 1-2^-53], the returned duration lies
   between conv(c x (1-j)) and conv(c x (1+j)), c = capped (float64 arithmetic), it also
   lies between the results for the extreme draws, and it is not negative. *)
Lemma interval : forall c n r, dom c n = true -> base c <= max_i64 -> maxd c <= max_i64 ->
  draw_ok r = true ->
  int_lo c n <= backoff c n r <= int_hi c n /\
  env_lo c n <= backoff c n r <= env_hi c n /\
  0 <= int_lo c n.
Proof.
  intros c n r Hd Hb Hx Hr.
  destruct (backoff_value c n Hd Hb Hx) as (vc & vj & Hvc & Hvj & Hj & Hbk & Hlo & Hhi).
  destruct (draw_ok_inv r Hr) as (a & vmax & Ha & Hmax & Hra & Hv1).
  assert (Hz : FR 0%float 0%R) by exact FR_zero.
  rewrite (Hbk r a Ha) by lra.
  unfold env_lo, env_hi. rewrite (Hbk 0%float 0%R Hz) by lra. rewrite (Hbk rmax vmax Hmax) by lra.
  rewrite Hlo, Hhi. rewrite <- (FV_zero _ _ Hj).
  assert (M1 : convR (rnd (vc * FV vj 0)) <= convR (rnd (vc * FV vj a))).
  { apply convR_mono, rnd_le, Rmult_le_compat_l. lra. apply FV_mono; lra. }
  assert (M2 : convR (rnd (vc * FV vj a)) <= convR (rnd (vc * FV vj vmax))).
  { apply convR_mono, rnd_le, Rmult_le_compat_l. lra. apply FV_mono; lra. }
  assert (M3 : convR (rnd (vc * FV vj a)) <= convR (rnd (vc * rnd (1 + vj)))).
  { apply convR_mono, rnd_le, Rmult_le_compat_l. lra. apply (FV_upper _ _ _ Hj); lra. }
  generalize (convR_nonneg (rnd (vc * FV vj 0))). lia.
Qed.

(* ---------- general facts (every configuration) ---------- *)
Lemma backoff_nonneg : forall c n r, n <> 0 ->
  is_nan_b (capped c (Z.to_nat n) * factor (jit c) r)%float = false ->
  0 <= backoff c n r <= max_i64.
Proof.
  intros c n r Hn Hnan. unfold backoff. replace (n =? 0) with false by (symmetry; apply Z.eqb_neq; exact Hn).
  apply conv_range. exact Hnan.
Qed.

Lemma backoff_in_i64 : forall c n r, in_i64 (base c) = true -> min_i64 <= backoff c n r <= max_i64.
Proof.
  intros c n r Hb. unfold backoff. destruct (n =? 0). 2: apply conv_in_i64.
  unfold in_i64 in Hb. apply andb_prop in Hb. destruct Hb as [H1 H2]. apply Z.leb_le in H1, H2. lia.
Qed.

Lemma conv_saturates : forall x v, FR x v -> (R63 <= v)%R -> conv x = max_i64.
Proof.
  intros x v Hx Hv. rewrite (conv_R _ _ Hx). unfold convR.
  destruct (Rlt_bool_spec v 0). unfold R63 in Hv. assert (0 < IZR (2^63))%R by (apply IZR_lt; reflexivity). lra.
  destruct (Rle_bool_spec R63 v). reflexivity. lra.
Qed.
Lemma conv_pinf : conv infinity = max_i64.
Proof. reflexivity. Qed.

Lemma FR_not_nan : forall x v, FR x v -> is_nan_b x = false.
Proof.
  intros x v [F _]. unfold is_nan_b. rewrite FP.eqb_equiv, Beqb_correct by exact F.
  rewrite Req_bool_true; reflexivity.
Qed.

Lemma SFltb_irrefl : forall x, SFltb x x = false.
Proof.
  intros [s|s| |s m e]; try reflexivity. destruct s; reflexivity.
  unfold SFltb, SFcompare. destruct s; rewrite Z.compare_refl, Pos.compare_cont_refl; reflexivity.
Qed.

(* the value before jitter never exceeds float64(MaxDelay) *)
Lemma capped_le_max : forall c n, PrimFloat.ltb (of_i64 (maxd c)) (capped c n) = false.
Proof.
  intros c n. unfold capped.
  destruct (PrimFloat.ltb (of_i64 (maxd c)) (loop n (of_i64 (base c)) (of_i64 (maxd c)) (mult c))) eqn:E.
  - rewrite ltb_spec. apply SFltb_irrefl.
  - exact E.
Qed.

(* the loop computes base x mult x ... x mult (k float64 multiplications), k <= n, and
   stops early only when the running value is no longer below max *)
Fixpoint pw (k : nat) (b m : PrimFloat.float) : PrimFloat.float :=
  match k with O => b | S k' => pw k' (b * m)%float m end.

Lemma loop_pw : forall n b mx m, exists k, (k <= n)%nat /\ loop n b mx m = pw k b m /\
  (k = n \/ PrimFloat.ltb (pw k b m) mx = false).
Proof.
  induction n as [|n IH]; intros b mx m; cbn [loop].
  - exists O. repeat split; auto.
  - destruct (PrimFloat.ltb b mx) eqn:E.
    + destruct (IH (b * m)%float mx m) as (k & Hk & Hl & Hs). exists (S k). cbn [pw].
      repeat split; [lia | exact Hl | destruct Hs; [left; lia | right; assumption]].
    + exists O. cbn [pw]. repeat split; [lia | right; exact E].
Qed.

(* the two residual deviations from "never negative for any configuration" *)
Lemma nan_refuted : exists c n r, n <> 0 /\ draw_ok r = true /\ backoff c n r = min_i64.
Proof.
  exists (mkcfg 0 infinity 0x1.999999999999ap-3%float 120000000000), 1, 0%float.
  repeat split. discriminate.
Qed.
Lemma negative_base_refuted : exists c r, backoff c 0 r < 0.
Proof. exists (mkcfg (-5) 0x1.999999999999ap+0%float 0x1.999999999999ap-3%float 120000000000), 0%float. reflexivity. Qed.

(* ---------- pacing ---------- *)

(* an attempt that fails at once at time [now s] arms the timer Backoff(backoffIdx) later *)
Lemma dial_fail : forall c s, okmode s = false -> fdelay s <= 0 ->
  dial c s = mkp (now s) false (idx s) (PBackoff (now s + bo c (idx s))) (fdelay s) true.
Proof.
  intros c s H Hd. unfold dial. rewrite H.
  replace (fdelay s <=? 0) with true by (symmetry; apply Z.leb_le; exact Hd). reflexivity.
Qed.

(* an attempt that takes a while to fail: backoffFor is fixed at its start ... *)
Lemma dial_fail_slow : forall c s, okmode s = false -> 0 < fdelay s ->
  ph (dial c s) = PConnecting (now s + fail_after c (idx s) (fdelay s)) (bo c (idx s)).
Proof.
  intros c s H Hd. unfold dial. rewrite H.
  replace (fdelay s <=? 0) with false by (symmetry; apply Z.leb_gt; exact Hd). reflexivity.
Qed.

(* ... and the wait of the full backoffFor starts when the attempt fails (time t), not
   when it started: passing time over t continues from PBackoff (t + b) at time t *)
Lemma advance_slow_failure : forall fuel c target s t b, ph s = PConnecting t b -> t <= target ->
  advance (S fuel) c target s =
  advance fuel c target (mkp t (okmode s) (idx s) (PBackoff (t + b)) (fdelay s) true).
Proof.
  intros fuel c target s t b H Ht. cbn [advance]. rewrite H.
  replace (t <=? target) with true by (symmetry; apply Z.leb_le; exact Ht). reflexivity.
Qed.

(* a successful attempt resets the index *)
Lemma dial_success : forall c s, okmode s = true -> idx (dial c s) = 0 /\ ph (dial c s) = PReady.
Proof. intros c s H. unfold dial. rewrite H. split; reflexivity. Qed.

(* while the timer has not expired nothing is dialled and the wait stays armed *)
Lemma advance_waits : forall fuel c target s t, ph s = PBackoff t -> target < t ->
  advance fuel c target s = Some (mkp target (okmode s) (idx s) (PBackoff t) (fdelay s) (sticky s), []).
Proof.
  intros fuel c target s t H Ht. destruct fuel; cbn [advance]; rewrite H;
  replace (t <=? target) with false by (symmetry; apply Z.leb_gt; exact Ht); reflexivity.
Qed.

(* ---------- the pacing monitor accepts every model trace ---------- *)

Definition Inv (c : config) (s : pstate) (m : mon) : Prop :=
  (m_ok m = okmode s) /\ (m_idx m = idx s) /\
  (m_fresh m = true -> m_idx m = 0 /\ (m_last m <> None -> m_wait m = bo c 0)) /\
  (m_delay m = fdelay s) /\
  match ph s with
  | PBackoff T => exists t0, m_last m = Some t0 /\ T = t0 + m_wait m /\ t0 <= now s
  | PConnecting T B => m_last m = Some T /\ B = m_wait m
  | _ => m_last m = None
  end.

(* the monitor after a dial at time t made with index i (the model's [dial]) *)
Definition mon_after (c : config) (m : mon) (i : Z) (fresh : bool) (t : Z) : mon :=
  if m_ok m then mkm (m_ok m) 0 None true (m_dials m + 1) (m_delay m) (bo c i)
  else mkm (m_ok m) i
           (Some (if m_delay m <=? 0 then t else t + fail_after c i (m_delay m)))
           fresh (m_dials m + 1) (m_delay m) (bo c i).

Lemma dial_Inv : forall c m i fresh t ok fd st,
  m_ok m = ok -> m_delay m = fd -> (fresh = true -> i = 0) ->
  Inv c (dial c (mkp t ok i PIdle fd st)) (mon_after c m i fresh t).
Proof.
  intros c m i fresh t ok fd st Hok Hfd Hfr. unfold dial, mon_after. cbn [okmode now idx fdelay sticky].
  rewrite Hok, Hfd. destruct ok.
  - unfold Inv. cbn. split; [reflexivity|]. split; [reflexivity|]. split; [|split; reflexivity].
    intros _. split. reflexivity. intro H. exfalso. apply H. reflexivity.
  - assert (Hf3 : fresh = true -> i = 0 /\ (Some (if fd <=? 0 then t else t + fail_after c i fd) <> None -> bo c i = bo c 0)).
    { intro Hf. split. exact (Hfr Hf). intros _. rewrite (Hfr Hf). reflexivity. }
    destruct (fd <=? 0) eqn:E; unfold Inv; cbn.
    + split; [reflexivity|]. split; [reflexivity|]. split; [exact Hf3|]. split; [reflexivity|].
      exists t. split. reflexivity. split. reflexivity. lia.
    + split; [reflexivity|]. split; [reflexivity|]. split; [exact Hf3|]. split; [reflexivity|]. split; reflexivity.
Qed.

Lemma dial_now : forall c s, now (dial c s) = now s.
Proof. intros c s. unfold dial. destruct (okmode s); [reflexivity|]. destruct (fdelay s <=? 0); reflexivity. Qed.

Lemma Inv_ext : forall c s s' m, Inv c s m -> okmode s' = okmode s -> idx s' = idx s ->
  fdelay s' = fdelay s -> ph s' = ph s -> now s <= now s' -> Inv c s' m.
Proof.
  intros c s s' m (I1 & I2 & I3 & I5 & I4) H1 H2 H3 H4 H5. unfold Inv. rewrite H1, H2, H3, H4.
  split; [exact I1|]. split; [exact I2|]. split; [exact I3|]. split; [exact I5|].
  destruct (ph s); try exact I4. destruct I4 as (t0 & L & T & N). exists t0. split. exact L. split. exact T. lia.
Qed.

Lemma advance_sim : forall fuel c target s m s' ds,
  Inv c s m -> now s <= target -> advance fuel c target s = Some (s', ds) ->
  exists m', mon_dials c m false ds = (m', true, true) /\ Inv c s' m'.
Proof.
  induction fuel as [|f IH]; intros c target s m s' ds Hinv Hn Ha; cbn [advance] in Ha.
  - assert (Hstay : forall s0, s0 = mkp target (okmode s) (idx s) (ph s) (fdelay s) (sticky s) -> Inv c s0 m).
    { intros s0 ->. apply (Inv_ext c s); auto. }
    destruct (ph s) as [|t b|t|] eqn:P.
    + injection Ha as <- <-. exists m. split. reflexivity. apply Hstay. reflexivity.
    + destruct (t <=? target); [discriminate Ha|]. injection Ha as <- <-. exists m. split. reflexivity. apply Hstay. reflexivity.
    + destruct (t <=? target); [discriminate Ha|]. injection Ha as <- <-. exists m. split. reflexivity. apply Hstay. reflexivity.
    + injection Ha as <- <-. exists m. split. reflexivity. apply Hstay. reflexivity.
  - assert (Hstay : forall s0, s0 = mkp target (okmode s) (idx s) (ph s) (fdelay s) (sticky s) -> Inv c s0 m).
    { intros s0 ->. apply (Inv_ext c s); auto. }
    destruct Hinv as (I1 & I2 & I3 & I5 & I4).
    destruct (ph s) as [|t b|t|] eqn:P.
    + injection Ha as <- <-. exists m. split. reflexivity. apply Hstay. reflexivity.
    + (* a slow dial fails at t: the timer is armed from t with the attempt's own backoff *)
      destruct I4 as [L B].
      destruct (t <=? target) eqn:E.
      * apply Z.leb_le in E.
        refine (IH c target _ m s' ds _ _ Ha); [|cbn; exact E].
        unfold Inv. cbn. split; [exact I1|]. split; [exact I2|]. split; [exact I3|]. split; [exact I5|].
        exists t. split. exact L. split. rewrite B. reflexivity. lia.
      * injection Ha as <- <-. exists m. split. reflexivity. apply Hstay. reflexivity.
    + destruct I4 as (t0 & L & T & N).
      destruct (t <=? target) eqn:E.
      * apply Z.leb_le in E.
        destruct (advance f c target (dial c (mkp t (okmode s) (idx s + 1) PIdle (fdelay s) (sticky s)))) as [[s2 ds2]|] eqn:E2; [|discriminate Ha].
        injection Ha as <- <-.
        assert (Hi : Inv c (dial c (mkp t (okmode s) (idx s + 1) PIdle (fdelay s) (sticky s))) (mon_after c m (m_idx m + 1) false t)).
        { rewrite <- I2. apply dial_Inv; auto. discriminate. }
        assert (Hn1 : now (dial c (mkp t (okmode s) (idx s + 1) PIdle (fdelay s) (sticky s))) <= target).
        { rewrite dial_now. cbn. exact E. }
        destruct (IH c target _ _ s2 ds2 Hi Hn1 E2) as (m' & Hm & Hinv).
        exists m'. split; [|exact Hinv].
        cbn [mon_dials]. rewrite L. cbn [negb andb].
        replace (t0 + m_wait m <=? t) with true by (symmetry; apply Z.leb_le; lia).
        replace (if m_fresh m then t <=? t0 + bo c 0 else true) with true.
        2: { destruct (m_fresh m) eqn:Fr; [|reflexivity]. destruct (I3 eq_refl) as [_ Hw].
             rewrite Hw in T by (rewrite L; discriminate). symmetry. apply Z.leb_le. lia. }
        unfold mon_after in Hm. rewrite Hm. reflexivity.
      * injection Ha as <- <-. exists m. split. reflexivity. apply Hstay. reflexivity.
    + injection Ha as <- <-. exists m. split. reflexivity. apply Hstay. reflexivity.
Qed.

Lemma take_n_app : forall ds r, take_n (length ds) (ds ++ r) = Some (ds, r).
Proof. induction ds as [|d ds IH]; intro r; cbn. reflexivity. rewrite IH. reflexivity. Qed.

Lemma split_pobs_pobs : forall ds s, split_pobs (pobs ds s) = Some (ds, state_code s).
Proof.
  intros ds s. unfold split_pobs, pobs, get_bytes.
  replace (Z.of_nat (length ds) <? 0) with false by (symmetry; apply Z.ltb_ge; lia).
  rewrite Nat2Z.id, take_n_app. reflexivity.
Qed.

Ltac inv5 := unfold Inv; cbn; split; [|split; [|split; [|split]]].
Ltac nofresh := let H := fresh in intro H; discriminate H.
Ltac none_last I3 := let Hf := fresh in let H := fresh in
  intro Hf; split; [apply I3; exact Hf | intro H; exfalso; apply H; reflexivity].

(* one pacing op: the monitor accepts the model's observation and stays in step *)
Lemma pstep_sim : forall c s m op s' o, Inv c s m -> pstep c s op = Some (s', o) ->
  exists m', mon_step c m op o = Some (m', true, true) /\ Inv c s' m'.
Proof.
  intros c s m op s' o Hinv Hp.
  unfold pstep in Hp. unfold mon_step.
  destruct (pop_of op) as [[md|dt| | | |h]|]; [..|discriminate Hp].
  - (* [2; m] *)
    injection Hp as <- <-. rewrite split_pobs_pobs. cbn [mon_dials].
    destruct Hinv as (I1 & I2 & I3 & I5 & I4).
    eexists. split. reflexivity. inv5; [reflexivity | exact I2 | exact I3 | exact I5 | exact I4].
  - (* [3; dt] *)
    destruct ((dt <? 0) || (60 * base c <? dt)) eqn:G; [discriminate Hp|].
    apply orb_false_elim in G. destruct G as [G _]. apply Z.ltb_ge in G.
    destruct (advance adv_fuel c (now s + dt) s) as [[s2 ds]|] eqn:A; [|discriminate Hp].
    injection Hp as <- <-.
    assert (Hle : now s <= now s + dt) by lia.
    destruct (advance_sim _ _ _ _ _ _ _ Hinv Hle A) as (m' & Hm & Hinv').
    exists m'. split; [|exact Hinv']. rewrite split_pobs_pobs, Hm. reflexivity.
  - (* [4] *)
    destruct Hinv as (I1 & I2 & I3 & I5 & I4).
    destruct (ph s) as [|t b|t|] eqn:P.
    + injection Hp as <- <-. rewrite split_pobs_pobs. cbn [mon_dials]. eexists. split. reflexivity.
      inv5; [exact I1 | reflexivity | nofresh | exact I5 | rewrite ?P; exact I4].
    + (* in flight: only the index is zeroed; the armed wait is kept *)
      injection Hp as <- <-. rewrite split_pobs_pobs. cbn [mon_dials]. eexists. split. reflexivity.
      inv5; [exact I1 | reflexivity | nofresh | exact I5 | rewrite ?P; exact I4].
    + injection Hp as <- <-. rewrite split_pobs_pobs.
      destruct I4 as (t0 & L & T & N). cbn [mon_dials m_last m_ok m_idx m_fresh m_dials m_delay m_wait].
      rewrite L. cbn [negb andb].
      replace (t0 <=? now s) with true by (symmetry; apply Z.leb_le; exact N).
      set (m0 := mkm (m_ok m) 0 (Some t0) false (m_dials m) (m_delay m) (m_wait m)).
      exists (mon_after c m0 0 false (now s)). split. reflexivity.
      apply dial_Inv; auto; discriminate.
    + injection Hp as <- <-. rewrite split_pobs_pobs. cbn [mon_dials]. eexists. split. reflexivity.
      inv5; [exact I1 | reflexivity | nofresh | exact I5 | rewrite ?P; exact I4].
  - (* [5] *)
    destruct (ph s) as [|t b|t|] eqn:P; injection Hp as <- <-; rewrite split_pobs_pobs; cbn [mon_dials];
      unfold state_code; cbn [ph]; rewrite ?P.
    + cbn [Z.eqb]. destruct Hinv as (I1 & I2 & I3 & I5 & I4). rewrite P in I4.
      eexists. split. reflexivity.
      inv5; [exact I1 | exact I2 | none_last I3 | exact I5 | rewrite ?P; reflexivity].
    + destruct (sticky s); cbn [Z.eqb Pos.eqb]; exists m; (split; [reflexivity|]); exact Hinv.
    + cbn [Z.eqb Pos.eqb]. exists m. split. reflexivity. exact Hinv.
    + cbn [Z.eqb]. destruct Hinv as (I1 & I2 & I3 & I5 & I4). rewrite P in I4.
      eexists. split. reflexivity.
      inv5; [exact I1 | exact I2 | none_last I3 | exact I5 | reflexivity].
  - (* [6] *)
    destruct (ph s) as [|t b|t|] eqn:P; injection Hp as <- <-; rewrite split_pobs_pobs.
    + destruct Hinv as (I1 & I2 & I3 & I5 & I4). rewrite P in I4.
      cbn [mon_dials]. rewrite I4. cbn [negb andb].
      exists (mon_after c m (m_idx m) (m_fresh m) (now s)). split. reflexivity.
      replace s with (mkp (now s) (okmode s) (idx s) PIdle (fdelay s) (sticky s)) at 1
        by (destruct s; cbn in P; rewrite P; reflexivity).
      rewrite <- I2. apply dial_Inv; auto. intro Hf. apply I3. exact Hf.
    + cbn [mon_dials]. exists m. split. reflexivity. exact Hinv.
    + cbn [mon_dials]. exists m. split. reflexivity. exact Hinv.
    + cbn [mon_dials]. exists m. split. reflexivity. exact Hinv.
  - (* [7; h] *)
    destruct (h <? 0); [discriminate Hp|]. injection Hp as <- <-.
    rewrite split_pobs_pobs. cbn [mon_dials].
    destruct Hinv as (I1 & I2 & I3 & I5 & I4).
    eexists. split. reflexivity. inv5; [exact I1 | exact I2 | exact I3 | reflexivity | exact I4].
Qed.

(* ---------- every model trace satisfies the clauses ---------- *)

(* draws are in [0, 1-2^-53] (rand.Float64 returns k/2^53), retry counts are not negative *)
Definition op_wf (op : word) : bool :=
  match pure_op op with
  | Some (n, rb) => (0 <=? n) && draw_ok (of_bits rb)
  | None => true
  end.

(* the configurations of the documented interval: 0 <= BaseDelay, MaxDelay,
   1 <= Multiplier < +Inf, 0 <= Jitter <= 1 *)
Definition cfg_wf (c : config) : bool :=
  dom c 1 && (base c <=? max_i64) && (maxd c <=? max_i64).

Lemma dom_any : forall c n, dom c 1 = true -> 1 <= n -> dom c n = true.
Proof.
  intros c n H Hn. unfold dom, interval_dom in *.
  replace (1 <=? n) with true by (symmetry; apply Z.leb_le; exact Hn). exact H.
Qed.

Lemma clause_backoff_ok : forall c n r, cfg_wf c = true -> 0 <= n -> draw_ok r = true ->
  forallb (fun x => snd x) (clause_backoff c n (backoff c n r)) = true.
Proof.
  intros c n r Hc Hn Hr. unfold cfg_wf in Hc.
  apply andb_prop in Hc. destruct Hc as [Hc Hx]. apply andb_prop in Hc. destruct Hc as [Hd Hb].
  apply Z.leb_le in Hx, Hb. unfold clause_backoff.
  destruct (n =? 0) eqn:E.
  - apply Z.eqb_eq in E. subst n. cbn [forallb snd backoff Z.eqb]. rewrite Z.eqb_refl.
    destruct (dom_inv _ _ Hd) as (_ & H0 & _). replace (0 <=? base c) with true by (symmetry; apply Z.leb_le; exact H0).
    reflexivity.
  - apply Z.eqb_neq in E. assert (Hn1 : 1 <= n) by lia.
    assert (Hdn := dom_any c n Hd Hn1).
    destruct (interval c n r Hdn Hb Hx Hr) as ((L1 & L2) & (E1 & E2) & P).
    assert (Hi : interval_dom c n = true).
    { unfold dom in Hdn. apply andb_prop in Hdn. apply Hdn. }
    cbn [forallb snd]. rewrite Hi.
    replace (0 <=? backoff c n r) with true by (symmetry; apply Z.leb_le; lia).
    replace (int_lo c n <=? backoff c n r) with true by (symmetry; apply Z.leb_le; lia).
    replace (backoff c n r <=? int_hi c n) with true by (symmetry; apply Z.leb_le; lia).
    replace (env_lo c n <=? backoff c n r) with true by (symmetry; apply Z.leb_le; lia).
    replace (backoff c n r <=? env_hi c n) with true by (symmetry; apply Z.leb_le; lia).
    destruct (is_nan_b (capped c (Z.to_nat n) * factor (jit c) 0)%float); reflexivity.
Qed.

Lemma forallb_app_true : forall (A : Type) (f : A -> bool) l1 l2,
  forallb f l1 = true -> forallb f l2 = true -> forallb f (l1 ++ l2) = true.
Proof. intros. rewrite forallb_app, H, H0. reflexivity. Qed.

Lemma run_from_holds : forall c, cfg_wf c = true -> forall ops s m obs,
  Inv c s m -> forallb op_wf ops = true -> run_from c s ops = Some obs ->
  forallb (fun x => snd x) (clauses_from c m ops obs) = true.
Proof.
  intros c Hc. induction ops as [|op ops IH]; intros s m obs Hi Hw Hr; cbn [run_from] in Hr.
  - injection Hr as <-. reflexivity.
  - cbn [forallb] in Hw. apply andb_prop in Hw. destruct Hw as [Hw1 Hw2]. unfold op_wf in Hw1.
    cbn [clauses_from]. destruct (pure_op op) as [[n rb]|] eqn:Po.
    + destruct (run_from c s ops) as [os|] eqn:R; [|discriminate Hr]. injection Hr as <-.
      apply andb_prop in Hw1. destruct Hw1 as [Hn Hd]. apply Z.leb_le in Hn.
      apply forallb_app_true. apply clause_backoff_ok; assumption. apply (IH s m os Hi Hw2 R).
    + destruct (pacing_ok c).
      * destruct (pstep c s op) as [[s' o]|] eqn:Ps; [|discriminate Hr].
        destruct (run_from c s' ops) as [os|] eqn:R; [|discriminate Hr]. injection Hr as <-.
        destruct (pstep_sim _ _ _ _ _ _ Hi Ps) as (m' & Hm & Hi').
        rewrite Hm. cbn [forallb snd andb]. apply (IH s' m' os Hi' Hw2 R).
      * destruct (run_from c s ops) as [os|] eqn:R; [|discriminate Hr]. injection Hr as <-.
        apply (IH s m os Hi Hw2 R).
Qed.

Lemma Inv_init : forall c, Inv c pinit minit.
Proof. intro c. unfold Inv, pinit, minit. cbn. repeat split; auto; discriminate. Qed.

Lemma model_trace_holds : forall cfg c ops obs, decode_cfg cfg = Some c -> cfg_wf c = true ->
  forallb op_wf ops = true -> run cfg ops = Some obs -> holds_b cfg ops obs = true.
Proof.
  intros cfg c ops obs Hd Hc Hw Hr. unfold holds_b, clauses. unfold run in Hr. rewrite Hd in *.
  apply (run_from_holds c Hc ops pinit minit obs (Inv_init c) Hw Hr).
Qed.

(* the resolution of the unobservable draw only ever accepts observations inside the
   model's envelope: if run_nd reproduces an observed trace then every observed
   Backoff(n), n <> 0, is within [env_lo, env_hi] *)
Lemma resolve_sound : forall c ops model impl, resolve c ops model impl = impl ->
  forall i op n rb d, nth_error ops i = Some op -> pure_op op = Some (n, rb) -> n <> 0 ->
  nth_error impl i = Some [d] ->
  (env_lo c n <= d <= env_hi c n) \/ nth_error model i = Some [d].
Proof.
  intros c. induction ops as [|op0 ops IH]; intros model impl Hres i op n rb d Ho Hp Hn Hi.
  - destruct i; discriminate Ho.
  - destruct model as [|m model]; [destruct impl; [destruct i; discriminate Hi | discriminate Hres]|].
    destruct impl as [|i0 impl]; [destruct i; discriminate Hi|].
    cbn [resolve] in Hres. injection Hres as H0 Hrest.
    destruct i as [|i].
    + cbn in Ho, Hi. injection Ho as ->. injection Hi as ->. rewrite Hp in H0.
      replace (n =? 0) with false in H0 by (symmetry; apply Z.eqb_neq; exact Hn).
      destruct ((env_lo c n <=? d) && (d <=? env_hi c n)) eqn:E.
      * left. apply andb_prop in E. destruct E as [E1 E2]. apply Z.leb_le in E1, E2. lia.
      * right. cbn. rewrite H0. reflexivity.
    + cbn in Ho, Hi. cbn [nth_error]. apply (IH model impl Hrest i op n rb d Ho Hp Hn Hi).
Qed.

(* ResetConnectBackoff: the index is 0 afterwards, and a pending wait is cut short (the
   sub-channel dials at once) *)
Lemma reset_idx : forall c s s' o, pstep c s [4] = Some (s', o) -> idx s' = 0.
Proof.
  intros c s s' o H. cbn in H. destruct (ph s) as [|t b|t|] eqn:P; injection H as <- _; try reflexivity.
  unfold dial. cbn. destruct (okmode s); [reflexivity|]. destruct (fdelay s <=? 0); reflexivity.
Qed.
(* ... but a reset made while the attempt is still in flight does not touch the wait that
   this attempt arms when it fails: the phase (failure time and backoffFor) is unchanged,
   nothing is dialled *)
Lemma reset_in_flight : forall c s t b, ph s = PConnecting t b ->
  pstep c s [4] = Some (mkp (now s) (okmode s) 0 (PConnecting t b) (fdelay s) (sticky s),
                        [0; if sticky s then 3 else 1]).
Proof. intros c s t b H. cbn. rewrite H. unfold pobs, state_code. cbn. reflexivity. Qed.
Lemma reset_dials_now : forall c s t, ph s = PBackoff t -> okmode s = false -> fdelay s <= 0 ->
  pstep c s [4] = Some (mkp (now s) false 0 (PBackoff (now s + bo c 0)) (fdelay s) true, [1; now s; 3]).
Proof.
  intros c s t H Hm Hd. cbn. rewrite H. unfold dial. cbn. rewrite Hm.
  replace (fdelay s <=? 0) with true by (symmetry; apply Z.leb_le; exact Hd). reflexivity.
Qed.

(* ---------- totality of the pacing machine (fuel suffices) ---------- *)
Open Scope R_scope.

(* loop values stay >= a lower bound when the multiplier is >= 1 *)
Definition NNFL (lb : R) (b : PrimFloat.float) : Prop :=
  exists v, FR b v /\ lb <= v /\ 0 <= v /\ Bsign (FP.Prim2B b) = false.

Lemma mul_step_lb : forall lb b m vm, NNFL lb b -> FR m vm -> 1 <= vm ->
  NNFL lb (b * m)%float \/ PINF (b * m)%float.
Proof.
  intros lb b m vm (v & Hb & Hlb & Hv & Sb) Hm Hvm.
  assert (Sm : Bsign (FP.Prim2B m) = false) by (eapply FR_pos_sign; [exact Hm | lra]).
  unfold NNFL, PINF, FR. rewrite FP.mul_equiv.
  generalize (Bmult_correct prec emax FP.Hprec FP.Hmax mode_NE (FP.Prim2B b) (FP.Prim2B m)).
  assert (Hid := rnd_id _ _ Hb).
  destruct Hb as [Fb Eb]. destruct Hm as [Fm Em]. rewrite Eb, Em, Sb, Sm.
  change (round radix2 _ _ (v * vm)) with (rnd (v * vm)).
  destruct (Rlt_bool (Rabs (rnd (v * vm))) (bpow radix2 emax)).
  - intros (H1 & H2 & H3). left. exists (rnd (v * vm)).
    assert (Hge : v <= rnd (v * vm)) by (rewrite <- Hid at 1; apply rnd_le; nra).
    split. split. rewrite H2, Fb, Fm. reflexivity. exact H1.
    split. lra. split. lra.
    apply H3. destruct (Bmult mode_NE (FP.Prim2B b) (FP.Prim2B m)); try reflexivity.
    rewrite Fb, Fm in H2. discriminate H2.
  - intro H. right. cbn in H.
    destruct (Bmult mode_NE (FP.Prim2B b) (FP.Prim2B m)); cbn in H; try discriminate H.
    injection H as ->. reflexivity.
Qed.

Lemma loop_inv_lb : forall lb n b mx m vm, FR m vm -> 1 <= vm -> NNFL lb b \/ PINF b ->
  NNFL lb (loop n b mx m) \/ PINF (loop n b mx m).
Proof.
  induction n as [|n IH]; intros b mx m vm Hm Hvm Hb; cbn [loop]. exact Hb.
  destruct Hb as [Hb | Hb].
  - destruct (PrimFloat.ltb b mx). apply (IH _ _ _ vm Hm Hvm). apply (mul_step_lb _ _ _ vm); assumption.
    left; exact Hb.
  - rewrite (PINF_not_lt _ _ Hb). right; exact Hb.
Qed.

Lemma SF2Prim_zero : forall x, Prim2SF x = S754_zero false -> x = 0%float.
Proof. intros x H. rewrite <- (SF2Prim_Prim2SF x), H. reflexivity. Qed.

Lemma pacing_ok_inv : forall c, pacing_ok c = true ->
  (1000000 <= base c)%Z /\ (base c <= maxd c)%Z /\ (maxd c < 2 ^ 53)%Z /\
  (exists vm, FR (mult c) vm /\ 1 <= vm) /\ jit c = 0%float.
Proof.
  intros c H. unfold pacing_ok in H.
  apply andb_prop in H; destruct H as [H H6]. apply andb_prop in H; destruct H as [H H5].
  apply andb_prop in H; destruct H as [H H4]. apply andb_prop in H; destruct H as [H H3].
  apply andb_prop in H; destruct H as [H1 H2].
  apply Z.leb_le in H1, H2. apply Z.ltb_lt in H3.
  repeat split; try assumption.
  - apply (above_FR _ _ _ FR_one); assumption.
  - apply SF2Prim_zero. destruct (Prim2SF (jit c)) as [[|]| | |]; try discriminate H6. reflexivity.
Qed.

Lemma of_i64_exact : forall z, (0 <= z < 2 ^ 53)%Z -> FR (of_i64 z) (IZR z).
Proof.
  intros z Hz. destruct (FR_of_i64 z) as (H & _ & _).
  { unfold max_i64. assert (2 ^ 53 < 2 ^ 63)%Z by reflexivity. lia. }
  rewrite rnd_int_exact in H. exact H. rewrite Z.abs_eq; lia.
Qed.

Lemma capped_lb : forall c n, pacing_ok c = true ->
  exists vc, FR (capped c n) vc /\ IZR (base c) <= vc <= R63.
Proof.
  intros c n Hp. destruct (pacing_ok_inv c Hp) as (Hb & Hbx & Hx & (vm & Hm & Hvm) & _).
  assert (Fb := of_i64_exact (base c) ltac:(lia)). assert (Fx := of_i64_exact (maxd c) ltac:(lia)).
  assert (Hx63 : IZR (maxd c) <= R63).
  { unfold R63. apply IZR_le. assert (2 ^ 53 < 2 ^ 63)%Z by reflexivity. lia. }
  assert (Hbpos : 0 <= IZR (base c)) by (apply IZR_le; lia).
  assert (Hbx' : IZR (base c) <= IZR (maxd c)) by (apply IZR_le; exact Hbx).
  unfold capped.
  assert (L : NNFL (IZR (base c)) (loop n (of_i64 (base c)) (of_i64 (maxd c)) (mult c)) \/
              PINF (loop n (of_i64 (base c)) (of_i64 (maxd c)) (mult c))).
  { apply (loop_inv_lb _ _ _ _ _ vm Hm Hvm). left. exists (IZR (base c)).
    split. exact Fb. split. lra. split. exact Hbpos.
    destruct (FR_of_i64 (base c)) as (_ & _ & S). unfold max_i64. assert (2 ^ 53 < 2 ^ 63)%Z by reflexivity. lia. exact S. }
  destruct L as [(v & Fv & Hlb & Hv & _) | Hinf].
  - rewrite (FR_ltb _ _ _ _ Fx Fv). destruct (Rlt_bool_spec (IZR (maxd c)) v).
    + eexists. split. exact Fx. lra.
    + exists v. split. exact Fv. lra.
  - rewrite FP.ltb_equiv, Hinf. destruct Fx as [Ffx Efx].
    destruct (FP.Prim2B (of_i64 (maxd c))) as [s|s| |s m e Hbd] eqn:E; try discriminate Ffx.
    + cbn. eexists. split. split. rewrite E. reflexivity. rewrite E. exact Efx. lra.
    + replace (Bltb (B754_finite s m e Hbd) (B754_infinity false)) with true by (destruct s; reflexivity).
      eexists. split. split. rewrite E. reflexivity. rewrite E. exact Efx. lra.
Qed.

Lemma factor_zero : factor 0%float 0%float = 1%float.
Proof. reflexivity. Qed.

Close Scope R_scope.

(* with the pacing strategy every backoff is at least the base delay *)
Lemma bo_ge_base : forall c i, pacing_ok c = true -> base c <= bo c i.
Proof.
  intros c i Hp. unfold bo, backoff. destruct (i =? 0). lia.
  destruct (pacing_ok_inv c Hp) as (Hb & _ & _ & _ & Hj). rewrite Hj, factor_zero.
  destruct (capped_lb c (Z.to_nat i) Hp) as (vc & Fc & Hlo & Hhi).
  assert (Fp : FR (capped c (Z.to_nat i) * 1)%float vc).
  { assert (Hpos0 : (0 <= vc <= R63)%R).
    { split; [|exact Hhi]. apply Rle_trans with (IZR (base c)); [apply IZR_le; lia | exact Hlo]. }
    assert (Hq : FR (capped c (Z.to_nat i) * 1)%float (rnd (vc * 1))).
    { apply FR_mul. exact Fc. exact FR_one. rewrite Rmult_1_r, (rnd_id _ _ Fc). apply R63_small. exact Hpos0. }
    rewrite Rmult_1_r, (rnd_id _ _ Fc) in Hq. exact Hq. }
  rewrite (conv_R _ _ Fp). unfold convR.
  assert (Hpos : (0 <= vc)%R) by (apply Rle_trans with (IZR (base c)); [apply IZR_le; lia | exact Hlo]).
  destruct (Rlt_bool_spec vc 0). lra.
  destruct (Rle_bool_spec R63 vc).
  - unfold max_i64. destruct (pacing_ok_inv c Hp) as (_ & Hbx & Hx & _). assert (2 ^ 53 < 2 ^ 63) by reflexivity. lia.
  - rewrite <- (Zfloor_IZR (base c)). apply Zfloor_le. exact Hlo.
Qed.

(* fuel needed to let time pass until [target] *)
Definition need (c : config) (target : Z) (s : pstate) : Z :=
  match ph s with
  | PBackoff T => if T <=? target then 2 * ((target - T) / base c) + 2 else 0
  | PConnecting T b =>
    if T <=? target then (if T + b <=? target then 2 * ((target - (T + b)) / base c) + 3 else 1) else 0
  | _ => 0
  end.

(* timers are not in the past and an in-flight attempt carries a backoff >= base *)
Definition good (c : config) (s : pstate) : Prop :=
  match ph s with
  | PBackoff T => now s <= T
  | PConnecting T b => now s <= T /\ base c <= b
  | _ => True
  end.
Definition phase_ok (c : config) (s : pstate) : Prop :=
  match ph s with PConnecting _ b => base c <= b | _ => True end.

Lemma div_step : forall x y B, 0 < B -> B <= y -> (x - y) / B + 1 <= x / B.
Proof.
  intros x y B HB Hy. assert ((x - y) / B <= (x - B) / B) by (apply Z.div_le_mono; lia).
  replace (x - B) with (x + (-1) * B) in H by lia. rewrite Z.div_add in H by lia. lia.
Qed.

Lemma fail_after_nonneg : forall c i h, 0 < h -> 0 <= fail_after c i h.
Proof. intros c i h H. unfold fail_after, mct. lia. Qed.

Lemma advance_total : forall c, pacing_ok c = true -> forall fuel target s,
  phase_ok c s -> need c target s <= Z.of_nat fuel ->
  exists s' ds, advance fuel c target s = Some (s', ds) /\ good c s' /\ now s' = target.
Proof.
  intros c Hp. assert (HB : 0 < base c) by (destruct (pacing_ok_inv c Hp); lia).
  induction fuel as [|f IH]; intros target s Hok Hn; unfold need in Hn; cbn [advance].
  - destruct (ph s) as [|t b|t|] eqn:P.
    + eexists _, _. split. reflexivity. unfold good. cbn. rewrite ?P. auto.
    + destruct (t <=? target) eqn:E.
      * exfalso. destruct (t + b <=? target) eqn:E2; [|lia].
        assert (0 <= (target - (t + b)) / base c) by (apply Z.div_pos; [apply Z.leb_le in E2; lia | lia]). lia.
      * apply Z.leb_gt in E. eexists _, _. split. reflexivity. unfold good, phase_ok in *. cbn. rewrite ?P in *. split; [split; [lia|exact Hok]|reflexivity].
    + destruct (t <=? target) eqn:E.
      * exfalso. apply Z.leb_le in E. assert (0 <= (target - t) / base c) by (apply Z.div_pos; lia). lia.
      * apply Z.leb_gt in E. eexists _, _. split. reflexivity. unfold good. cbn. rewrite ?P. split; [lia|reflexivity].
    + eexists _, _. split. reflexivity. unfold good. cbn. rewrite ?P. auto.
  - destruct (ph s) as [|t b|t|] eqn:P.
    + eexists _, _. split. reflexivity. unfold good. cbn. rewrite ?P. auto.
    + unfold phase_ok in Hok. rewrite ?P in Hok.
      destruct (t <=? target) eqn:E.
      * (* the slow dial fails at t *)
        destruct (IH target (mkp t (okmode s) (idx s) (PBackoff (t + b)) (fdelay s) true)) as (s' & ds & Ha & Hg & Ht).
        { exact I. }
        { unfold need. cbn [ph]. destruct (t + b <=? target); lia. }
        exists s', ds. auto.
      * apply Z.leb_gt in E. eexists _, _. split. reflexivity. unfold good. cbn. rewrite ?P. split; [split; [lia|exact Hok]|reflexivity].
    + destruct (t <=? target) eqn:E.
      * apply Z.leb_le in E.
        assert (Hq : 0 <= (target - t) / base c) by (apply Z.div_pos; lia).
        rewrite Nat2Z.inj_succ in Hn.
        set (s1 := dial c (mkp t (okmode s) (idx s + 1) PIdle (fdelay s) (sticky s))).
        assert (H1 : phase_ok c s1 /\ need c target s1 <= Z.of_nat f).
        { unfold s1, dial. cbn [okmode now idx fdelay sticky]. destruct (okmode s).
          - split. exact I. unfold need. cbn. lia.
          - assert (Hbo := bo_ge_base c (idx s + 1) Hp).
            destruct (fdelay s <=? 0) eqn:Ed.
            + split. exact I. unfold need. cbn [ph].
              destruct (t + bo c (idx s + 1) <=? target) eqn:E3; [|lia].
              replace (target - (t + bo c (idx s + 1))) with ((target - t) - bo c (idx s + 1)) by lia.
              generalize (div_step (target - t) (bo c (idx s + 1)) (base c) HB Hbo). lia.
            + apply Z.leb_gt in Ed. assert (Hfa := fail_after_nonneg c (idx s + 1) (fdelay s) Ed).
              split. unfold phase_ok. cbn. exact Hbo. unfold need. cbn [ph].
              destruct (t + fail_after c (idx s + 1) (fdelay s) <=? target); [|lia].
              destruct (t + fail_after c (idx s + 1) (fdelay s) + bo c (idx s + 1) <=? target) eqn:E4; [|lia].
              replace (target - (t + fail_after c (idx s + 1) (fdelay s) + bo c (idx s + 1)))
                with ((target - t) - (fail_after c (idx s + 1) (fdelay s) + bo c (idx s + 1))) by lia.
              generalize (div_step (target - t) (fail_after c (idx s + 1) (fdelay s) + bo c (idx s + 1)) (base c) HB ltac:(lia)). lia. }
        destruct H1 as [Hok1 Hn1].
        destruct (IH target s1 Hok1 Hn1) as (s' & ds & Ha & Hg & Ht). fold s1. rewrite Ha.
        eexists _, _. split. reflexivity. auto.
      * apply Z.leb_gt in E. eexists _, _. split. reflexivity. unfold good. cbn. rewrite ?P. split; [lia|reflexivity].
    + eexists _, _. split. reflexivity. unfold good. cbn. rewrite ?P. auto.
Qed.

Lemma good_phase_ok : forall c s, good c s -> phase_ok c s.
Proof. intros c s. unfold good, phase_ok. destruct (ph s); auto. intros [_ H]. exact H. Qed.

Lemma dial_good : forall c s, pacing_ok c = true -> good c (dial c s).
Proof.
  intros c s Hp. assert (Hbo := bo_ge_base c (idx s) Hp). assert (0 < base c) by (destruct (pacing_ok_inv c Hp); lia).
  unfold dial, good. destruct (okmode s). exact I. destruct (fdelay s <=? 0) eqn:E; cbn. lia.
  apply Z.leb_gt in E. generalize (fail_after_nonneg c (idx s) (fdelay s) E). lia.
Qed.

(* pacing ops that the driver generates: time steps within 60 base delays, delays >= 0 *)
Definition pacing_wf (c : config) (op : word) : bool :=
  match pop_of op with
  | Some (Padv dt) => (0 <=? dt) && (dt <=? 60 * base c)
  | Some (Pdelay h) => 0 <=? h
  | Some _ => true
  | None => false
  end.

Lemma pstep_total : forall c s op, pacing_ok c = true -> good c s -> pacing_wf c op = true ->
  exists s' o, pstep c s op = Some (s', o) /\ good c s'.
Proof.
  intros c s op Hp Hg Hw. assert (HB : 0 < base c) by (destruct (pacing_ok_inv c Hp); lia).
  unfold pacing_wf in Hw. unfold pstep.
  destruct (pop_of op) as [[md|dt| | | |h]|]; [..|discriminate Hw].
  - eexists _, _. split. reflexivity. unfold good in *. cbn. exact Hg.
  - apply andb_prop in Hw. destruct Hw as [H0 H1]. apply Z.leb_le in H0, H1.
    replace ((dt <? 0) || (60 * base c <? dt)) with false
      by (symmetry; apply orb_false_intro; [apply Z.ltb_ge | apply Z.ltb_ge]; lia).
    destruct (advance_total c Hp adv_fuel (now s + dt) s (good_phase_ok _ _ Hg)) as (s' & ds & Ha & Hg' & _).
    { unfold need, good in *. destruct (ph s) as [|t b|t|]; try (cbn; lia).
      - destruct Hg as [Hn Hb]. destruct (t <=? now s + dt) eqn:E; [|cbn; lia].
        destruct (t + b <=? now s + dt) eqn:E2; [|cbn; lia]. apply Z.leb_le in E, E2.
        assert ((now s + dt - (t + b)) / base c <= 60) by (apply Z.div_le_upper_bound; lia).
        replace (Z.of_nat adv_fuel) with 200 by reflexivity. lia.
      - destruct (t <=? now s + dt) eqn:E; [|cbn; lia]. apply Z.leb_le in E.
        assert ((now s + dt - t) / base c <= 60) by (apply Z.div_le_upper_bound; lia).
        replace (Z.of_nat adv_fuel) with 200 by reflexivity. lia. }
    rewrite Ha. eexists _, _. split. reflexivity. exact Hg'.
  - destruct (ph s) as [|t b|t|] eqn:P.
    + eexists _, _. split. reflexivity. unfold good. cbn. rewrite ?P. exact I.
    + eexists _, _. split. reflexivity. unfold good in *. cbn. rewrite P in Hg. exact Hg.
    + eexists _, _. split. reflexivity. apply dial_good. exact Hp.
    + eexists _, _. split. reflexivity. unfold good. cbn. rewrite ?P. exact I.
  - destruct (ph s) as [|t b|t|] eqn:P; eexists _, _; (split; [reflexivity|]); try exact Hg.
    unfold good. cbn. exact I.
  - destruct (ph s) as [|t b|t|] eqn:P; eexists _, _; (split; [reflexivity|]); try exact Hg.
    apply dial_good. exact Hp.
  - apply Z.leb_le in Hw. replace (h <? 0) with false by (symmetry; apply Z.ltb_ge; exact Hw).
    eexists _, _. split. reflexivity. unfold good in *. cbn. exact Hg.
Qed.

(* well-formed ops: Backoff calls with n >= 0 and a draw in [0, 1-2^-53]; pacing ops of the
   shapes above (when the configuration is a pacing configuration) *)
Definition op_wf_total (c : config) (op : word) : bool :=
  match pure_op op with
  | Some (n, rb) => (0 <=? n) && draw_ok (of_bits rb)
  | None => if pacing_ok c then pacing_wf c op else true
  end.

Lemma op_wf_total_wf : forall c ops, forallb (op_wf_total c) ops = true -> forallb op_wf ops = true.
Proof.
  intros c ops H. induction ops as [|op ops IH]. reflexivity.
  cbn [forallb] in *. apply andb_prop in H. destruct H as [H1 H2]. rewrite (IH H2), andb_true_r.
  unfold op_wf_total in H1. unfold op_wf. destruct (pure_op op) as [[n rb]|]; [exact H1|reflexivity].
Qed.

Lemma run_from_total : forall c ops s, (pacing_ok c = true -> good c s) ->
  forallb (op_wf_total c) ops = true -> exists obs, run_from c s ops = Some obs.
Proof.
  intros c. induction ops as [|op ops IH]; intros s Hg Hw. exists []. reflexivity.
  cbn [forallb] in Hw. apply andb_prop in Hw. destruct Hw as [H1 H2]. unfold op_wf_total in H1.
  cbn [run_from]. destruct (pure_op op) as [[n rb]|].
  - destruct (IH s Hg H2) as (os & Hr). rewrite Hr. eexists. reflexivity.
  - destruct (pacing_ok c) eqn:Hp.
    + destruct (pstep_total c s op Hp (Hg eq_refl) H1) as (s' & o & Hs & Hg').
      rewrite Hs. destruct (IH s' (fun _ => Hg') H2) as (os & Hr). rewrite Hr. eexists. reflexivity.
    + destruct (IH s Hg H2) as (os & Hr). rewrite Hr. eexists. reflexivity.
Qed.

(* the bridge, total form *)
Lemma model_trace_exists_holds : forall cfg c ops, decode_cfg cfg = Some c -> cfg_wf c = true ->
  forallb (op_wf_total c) ops = true ->
  exists obs, run cfg ops = Some obs /\ holds_b cfg ops obs = true.
Proof.
  intros cfg c ops Hd Hc Hw.
  destruct (run_from_total c ops pinit (fun _ => I) Hw) as (obs & Hr).
  assert (Hrun : run cfg ops = Some obs) by (unfold run; rewrite Hd; exact Hr).
  exists obs. split. exact Hrun.
  eapply model_trace_holds; try eassumption. eapply op_wf_total_wf. eassumption.
Qed.
