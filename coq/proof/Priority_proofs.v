From Coq Require Import List ZArith Bool Arith Lia.
From VLib Require Import Codec Machine.
From VModel Require Import Priority.
Import ListNotations.
Open Scope Z_scope.

(* ---------- per-child invariant; lo = lower bound for running timer deadlines ---------- *)

Definition child_ok (lo : Z) (c : child) : Prop :=
  (started c = false -> cstate c = CONNECTING /\ picker c = 0 /\ tf c = false /\ timer c = None) /\
  (0 <= cstate c <= 3) /\
  (cstate c <> CONNECTING -> timer c = None) /\
  (forall d, timer c = Some d -> lo <= d).

(* the selection invariant: priorities = pre ++ inuse :: post *)
Definition selected (st : state) : Prop :=
  exists pre post c,
    prios st = pre ++ inuse st :: post /\
    children st (inuse st) = Some c /\ started c = true /\
    (good c = true \/ post = []) /\
    parent st = (cstate c, picker c) /\
    (forall n, In n pre -> exists c', children st n = Some c' /\ failed c' = true) /\
    (forall n, In n post -> exists c', children st n = Some c' /\ started c' = false).

Record Inv (lo : Z) (st : state) : Prop := mkInv {
  inv_nodup : NoDup (prios st);
  inv_dom : forall n, In n (prios st) <-> children st n <> None;
  inv_child : forall n c, children st n = Some c -> child_ok lo c;
  inv_closed : closed st = true -> forall n c, children st n = Some c -> started c = false;
  inv_sel : closed st = false -> prios st <> [] -> selected st
}.

Lemma mem_In n l : mem n l = true <-> In n l.
Proof.
  unfold mem. rewrite existsb_exists. split.
  - intros [x [Hx He]]. apply Z.eqb_eq in He. subst. exact Hx.
  - intros H. exists n. split; [exact H | apply Z.eqb_refl].
Qed.
Lemma mem_false n l : mem n l = false <-> ~ In n l.
Proof. rewrite <- mem_In. destruct (mem n l); split; congruence. Qed.

Lemma child_ok_stop lo c : child_ok lo (stop_child c) \/ stop_child c = c.
Proof.
  unfold stop_child. destruct (started c); [left | right; reflexivity].
  unfold child_ok; cbn. repeat split; try discriminate; auto; unfold CONNECTING; lia.
Qed.
Lemma child_ok_stop' lo c : child_ok lo c -> child_ok lo (stop_child c).
Proof. intros H. destruct (child_ok_stop lo c) as [H1 | H1]; [exact H1 | rewrite H1; exact H]. Qed.
Lemma stop_started c : started (stop_child c) = false.
Proof. unfold stop_child. destruct (started c) eqn:E; [reflexivity | exact E]. Qed.

Lemma child_ok_fresh lo ty : child_ok lo (fresh ty).
Proof. unfold child_ok, fresh; cbn. repeat split; try discriminate; auto; unfold CONNECTING; lia. Qed.

Lemma start_child_spec lo t c : child_ok lo c -> started c = false -> lo <= t + initTimeout ->
  let c' := start_child_nf t c in
  child_ok lo c' /\ started c' = true /\ good c' = true /\
  cstate c' = cstate c /\ picker c' = picker c.
Proof.
  intros [H1 [H2 [H3 H4]]] Hs Hlo. destruct (H1 Hs) as [Hc [Hp [Ht Htm]]].
  unfold start_child_nf. rewrite Hs. unfold start_timer; cbn. rewrite Htm. cbn.
  unfold child_ok, good; cbn. rewrite Hc. cbn.
  repeat split; try discriminate; auto; try (unfold CONNECTING; lia).
  intros d [= <-]. exact Hlo.
Qed.

(* ---------- what sync_nf may do to a child ---------- *)

Inductive cstep (t : Z) : option child -> option child -> Prop :=
| cs_same o : cstep t o o
| cs_stop c : cstep t (Some c) (Some (stop_child c))
| cs_start c : started c = false -> cstep t (Some c) (Some (start_child_nf t c)).

Lemma cstep_ok lo t o c' : lo <= t + initTimeout -> cstep t o (Some c') ->
  (forall c, o = Some c -> child_ok lo c) -> child_ok lo c'.
Proof.
  intros Hlo H Ho. inversion H; subst.
  - apply Ho; reflexivity.
  - apply child_ok_stop'. apply Ho; reflexivity.
  - apply start_child_spec; auto.
Qed.
Lemma cstep_dom t o o' : cstep t o o' -> (o <> None <-> o' <> None).
Proof. intros H; inversion H; subst; split; intros; congruence. Qed.

Lemma emit_children st s p : children (emit st s p) = children st.
Proof. reflexivity. Qed.

Definition pre_ok (st : state) (pre : list Z) : Prop :=
  forall n, In n pre -> exists c', children st n = Some c' /\ failed c' = true.

(* parent already shows the child in use unless that child is the one updating *)
Definition parent_pre (st : state) (u : Z) : Prop :=
  forall c, children st (inuse st) = Some c -> inuse st <> u -> parent st = (cstate c, picker c).

Lemma nodup_split (pre : list Z) name r : NoDup (pre ++ name :: r) ->
  ~ In name r /\ (forall n, In n pre -> ~ In n r) /\ ~ In name pre.
Proof.
  induction pre as [|a pre IH]; cbn; intros H.
  - inversion H; subst. split; [assumption | split; [intros; contradiction | tauto]].
  - inversion H; subst. destruct (IH H3) as [I1 [I2 I3]]. split; [assumption|]. split.
    + intros n [-> | Hn]; [|apply I2; assumption].
      intro. apply H2. apply in_or_app; right; right; assumption.
    + intros [-> | Hn]; [|contradiction]. apply H2. apply in_or_app; right; left; reflexivity.
Qed.

Lemma switch_spec lo st u name pre r c :
  prios st = pre ++ name :: r -> NoDup (prios st) ->
  (forall n, In n (prios st) <-> children st n <> None) ->
  (forall n c, children st n = Some c -> child_ok lo c) ->
  lo <= now st + initTimeout ->
  closed st = false ->
  pre_ok st pre ->
  parent_pre st u ->
  children st name = Some c ->
  eligible c (match r with [] => true | _ => false end) = true ->
  let st1 := if negb (inuse st =? name) || (name =? u) then emit st (cstate c) (picker c) else st in
  let st' := switch_to_nf st1 name r in
  Inv lo st' /\ now st' = now st /\ prios st' = prios st /\
  (forall m, cstep (now st) (children st m) (children st' m)).
Proof.
  intros Hp Hnd Hdom Hok Hlo Hcl Hpre Hpp Hc Hel st1 st'.
  assert (Hst1 : children st1 = children st /\ prios st1 = prios st /\ now st1 = now st /\
                 closed st1 = closed st /\ inuse st1 = inuse st).
  { unfold st1. destruct (negb (inuse st =? name) || (name =? u)); cbn; auto. }
  destruct Hst1 as [Hch1 [Hpr1 [Hnow1 [Hcl1 Hin1]]]].
  assert (Hnr : ~ In name r /\ (forall n, In n pre -> ~ In n r) /\ ~ In name pre).
  { rewrite Hp in Hnd. apply nodup_split in Hnd. tauto. }
  destruct Hnr as [Hnr [Hprer Hnpre]].
  assert (Hpar1 : (negb (inuse st =? name) || (name =? u)) = false -> parent st1 = (cstate c, picker c)).
  { intros E. unfold st1. rewrite E. apply orb_false_iff in E. destruct E as [E1 E2].
    apply negb_false_iff in E1. apply Z.eqb_eq in E1. apply Z.eqb_neq in E2.
    apply Hpp; [rewrite E1; exact Hc | rewrite E1; exact E2]. }
  assert (Hpar1' : (negb (inuse st =? name) || (name =? u)) = true -> parent st1 = (cstate c, picker c)).
  { intros E. unfold st1. rewrite E. reflexivity. }
  assert (Hpar : parent st1 = (cstate c, picker c)).
  { destruct (negb (inuse st =? name) || (name =? u)) eqn:E; auto. }
  clear Hpar1 Hpar1'.
  (* the state after stop_names *)
  set (ch2 := stop_names (children st1) r).
  assert (Hch2name : ch2 name = Some c).
  { unfold ch2, stop_names. apply mem_false in Hnr. rewrite Hnr. rewrite Hch1. exact Hc. }
  assert (Hch2 : forall m, cstep (now st) (children st m) (ch2 m)).
  { intros m. unfold ch2, stop_names. rewrite Hch1. destruct (mem m r).
    - destruct (children st m); cbn; constructor.
    - constructor. }
  assert (Hch2pre : forall n, In n pre -> ch2 n = children st n).
  { intros n Hn. unfold ch2, stop_names. specialize (Hprer n Hn). apply mem_false in Hprer.
    rewrite Hprer, Hch1. reflexivity. }
  assert (Hch2post : forall n, In n r -> exists c', ch2 n = Some c' /\ started c' = false).
  { intros n Hn. unfold ch2, stop_names. apply mem_In in Hn as Hm. rewrite Hm, Hch1.
    assert (Hin : In n (prios st)) by (rewrite Hp; apply in_or_app; right; right; exact Hn).
    apply Hdom in Hin. destruct (children st n) as [cn|]; [|congruence].
    exists (stop_child cn). split; [reflexivity | apply stop_started]. }
  (* final_nf children *)
  unfold st', switch_to_nf. fold ch2. cbn [children set_children]. rewrite Hch2name.
  assert (Hgood_or : started c = true -> good c = true \/ r = []).
  { intros Hs. unfold eligible in Hel. rewrite Hs in Hel. cbn in Hel. unfold good.
    destruct r; [right; reflexivity | left]. rewrite orb_false_r in Hel. exact Hel. }
  destruct ((inuse (set_children st1 ch2) =? name) && started c) eqn:Ecase.
  - (* already in use and started *)
    apply andb_true_iff in Ecase. destruct Ecase as [Ein Hs]. cbn in Ein. apply Z.eqb_eq in Ein.
    split; [|cbn; repeat split; auto].
    constructor; cbn.
    + rewrite Hpr1. exact Hnd.
    + intros n. rewrite Hpr1, Hdom. apply cstep_dom with (t := now st). apply Hch2.
    + intros n cn Hn. apply cstep_ok with (t := now st) (o := children st n); auto.
      * rewrite <- Hn. apply Hch2.
      * intros; eapply Hok; eauto.
    + rewrite Hcl1, Hcl. discriminate.
    + intros _ _. exists pre, r, c. cbn. rewrite Ein, Hpr1. repeat split; auto.
      * intros n Hn. rewrite (Hch2pre n Hn). apply Hpre. exact Hn.
  - destruct (started c) eqn:Hs.
    + (* started, becomes in use *)
      split; [|cbn; repeat split; auto].
      constructor; cbn.
      * rewrite Hpr1. exact Hnd.
      * intros n. rewrite Hpr1, Hdom. apply cstep_dom with (t := now st). apply Hch2.
      * intros n cn Hn. apply cstep_ok with (t := now st) (o := children st n); auto.
        -- rewrite <- Hn. apply Hch2.
        -- intros; eapply Hok; eauto.
      * rewrite Hcl1, Hcl. discriminate.
      * intros _ _. exists pre, r, c. cbn. rewrite Hpr1. repeat split; auto.
        intros n Hn. rewrite (Hch2pre n Hn). apply Hpre. exact Hn.
    + (* not started: start it *)
      destruct (start_child_spec lo (now st) c (Hok _ _ Hc) Hs Hlo) as [Ok' [Hs' [Hg' [Hcs' Hpk']]]].
      cbn [children set_children set_inuse now].
      assert (Hupd : forall m, m <> name -> upd ch2 name (start_child_nf (now st1) c) m = ch2 m).
      { intros m Hm. unfold upd. apply Z.eqb_neq in Hm. rewrite Hm. reflexivity. }
      assert (Hupdn : upd ch2 name (start_child_nf (now st1) c) name = Some (start_child_nf (now st) c)).
      { unfold upd. rewrite Z.eqb_refl, Hnow1. reflexivity. }
      split; [|cbn; repeat split; auto].
      constructor; cbn.
      * rewrite Hpr1. exact Hnd.
      * intros n. rewrite Hpr1, Hdom. destruct (Z.eq_dec n name) as [-> | Hne].
        -- rewrite Hupdn, Hc. split; congruence.
        -- rewrite (Hupd n Hne). apply cstep_dom with (t := now st). apply Hch2.
      * intros n cn Hn. destruct (Z.eq_dec n name) as [-> | Hne].
        -- rewrite Hupdn in Hn. injection Hn as <-. exact Ok'.
        -- rewrite (Hupd n Hne) in Hn. apply cstep_ok with (t := now st) (o := children st n); auto.
           ++ rewrite <- Hn. apply Hch2.
           ++ intros; eapply Hok; eauto.
      * rewrite Hcl1, Hcl. discriminate.
      * intros _ _. exists pre, r, (start_child_nf (now st) c). cbn. rewrite Hpr1, Hupdn.
        repeat split; auto.
        -- rewrite Hcs', Hpk'. exact Hpar.
        -- intros n Hn. assert (n <> name) by (intro; subst; contradiction).
           rewrite (Hupd n H), (Hch2pre n Hn). apply Hpre. exact Hn.
        -- intros n Hn. assert (n <> name) by (intro; subst; contradiction).
           rewrite (Hupd n H). apply Hch2post. exact Hn.
      * intros m. destruct (Z.eq_dec m name) as [-> | Hne].
        -- rewrite Hupdn, Hc. constructor. exact Hs.
        -- rewrite (Hupd m Hne). apply Hch2.
Qed.

(* ---------- syncPriority establishes the selection invariant ---------- *)

Lemma eligible_false c : eligible c false = false -> failed c = true.
Proof.
  unfold eligible, failed, good. intros H. rewrite orb_false_r in H.
  destruct (started c); cbn in *; [|discriminate]. rewrite H. reflexivity.
Qed.

Lemma scan_spec lo u : forall l pre st,
  prios st = pre ++ l -> l <> [] -> NoDup (prios st) ->
  (forall n, In n (prios st) <-> children st n <> None) ->
  (forall n c, children st n = Some c -> child_ok lo c) ->
  lo <= now st + initTimeout ->
  closed st = false ->
  pre_ok st pre ->
  parent_pre st u ->
  let st' := sync_scan_nf st u l in
  Inv lo st' /\ now st' = now st /\ prios st' = prios st /\
  (forall m, cstep (now st) (children st m) (children st' m)).
Proof.
  induction l as [|name r IH]; intros pre st Hp Hne Hnd Hdom Hok Hlo Hcl Hpre Hpp; [congruence|].
  cbn [sync_scan_nf].
  assert (Hin : In name (prios st)) by (rewrite Hp; apply in_or_app; right; left; reflexivity).
  apply Hdom in Hin. destruct (children st name) as [c|] eqn:Hc; [|congruence].
  destruct (eligible c match r with [] => true | _ :: _ => false end) eqn:Hel.
  - eapply switch_spec; eauto.
  - destruct r as [|n2 r2].
    { unfold eligible in Hel. rewrite orb_true_r in Hel. discriminate. }
    apply (IH (pre ++ [name])); auto.
    + rewrite Hp, <- app_assoc. reflexivity.
    + discriminate.
    + intros n Hn. apply in_app_or in Hn. destruct Hn as [Hn | [<- | []]].
      * apply Hpre; exact Hn.
      * exists c. split; [exact Hc | apply eligible_false; exact Hel].
Qed.

Lemma sync_spec lo u st :
  prios st <> [] -> NoDup (prios st) ->
  (forall n, In n (prios st) <-> children st n <> None) ->
  (forall n c, children st n = Some c -> child_ok lo c) ->
  lo <= now st + initTimeout ->
  closed st = false ->
  parent_pre st u ->
  let st' := sync_nf st u in
  Inv lo st' /\ now st' = now st /\ prios st' = prios st /\
  (forall m, cstep (now st) (children st m) (children st' m)).
Proof.
  intros Hne Hnd Hdom Hok Hlo Hcl Hpp st'. unfold st', sync_nf.
  apply (scan_spec lo u (prios st) [] st); auto.
  intros n Hn; destruct Hn.
Qed.

Lemma Inv_init lo : Inv lo init.
Proof.
  constructor; cbn; try discriminate.
  - constructor.
  - intros n. split; [intros [] | congruence].
  - congruence.
Qed.

(* the part of Inv that does not depend on the timer bound *)
Lemma Inv_weaken lo lo' st : lo' <= lo -> Inv lo st -> Inv lo' st.
Proof.
  intros Hle [H1 H2 H3 H4 H5]. constructor; auto.
  intros n c Hc. destruct (H3 n c Hc) as [A [B [C D]]].
  split; [exact A | split; [exact B | split; [exact C |]]].
  intros d Hd. specialize (D d Hd). lia.
Qed.

Lemma selected_parent_pre st u : (closed st = false -> prios st <> [] -> selected st) ->
  closed st = false -> prios st <> [] -> parent_pre st u.
Proof.
  intros Hs Hcl Hne c Hc _. destruct (Hs Hcl Hne) as [pre [post [c0 [_ [Hc0 [_ [_ [Hp _]]]]]]]].
  rewrite Hc in Hc0. injection Hc0 as <-. exact Hp.
Qed.

Lemma sync_scan_closed : forall l st u, closed (sync_scan_nf st u l) = closed st.
Proof.
  induction l as [|a r IH]; intros st u; cbn; [reflexivity|].
  destruct (children st a) as [c|]; [|apply IH].
  destruct (eligible c _); [|apply IH].
  unfold switch_to_nf. cbn.
  destruct (negb (inuse st =? a) || (a =? u)); cbn;
  destruct (stop_names (children st) r a) as [c0|]; cbn; try reflexivity;
  destruct (_ && started c0); cbn; try reflexivity; destruct (started c0); reflexivity.
Qed.

(* ---------- handleChildStateUpdate ---------- *)

Lemma child_update_spec lo st name s pk :
  Inv lo st -> closed st = false -> lo <= now st + initTimeout -> 0 <= s <= 3 ->
  let st' := child_update_nf st name s pk in
  Inv lo st' /\ now st' = now st /\ prios st' = prios st /\ closed st' = false.
Proof.
  intros HI Hcl Hlo Hs st'. unfold st', child_update_nf.
  destruct (children st name) as [c|] eqn:Hc; [|auto].
  destruct (started c) eqn:Hst; cbn [negb]; [|auto].
  set (c1 := if (s =? READY) || (s =? IDLE) then mkchild true s pk false None (btype c)
             else if s =? TF then mkchild true s pk true None (btype c)
             else if negb (tf c) && negb (cstate c =? CONNECTING)
                  then start_timer (now st) (mkchild true s pk (tf c) (timer c) (btype c))
                  else mkchild true s pk (tf c) (timer c) (btype c)).
  destruct HI as [Hnd Hdom Hok Hclosed Hsel].
  assert (Hin : In name (prios st)) by (apply Hdom; congruence).
  assert (Hne : prios st <> []) by (intro E; rewrite E in Hin; contradiction).
  assert (Hok1 : child_ok lo c1).
  { destruct (Hok _ _ Hc) as [A [B [C D]]].
    unfold c1, READY, IDLE, TF, CONNECTING in *.
    destruct (s =? 2) eqn:E2; [apply Z.eqb_eq in E2; subst; cbn;
      unfold child_ok; cbn; repeat split; try discriminate; auto; lia|].
    destruct (s =? 0) eqn:E0; [apply Z.eqb_eq in E0; subst; cbn;
      unfold child_ok; cbn; repeat split; try discriminate; auto; lia|].
    cbn [orb]. destruct (s =? 3) eqn:E3; [apply Z.eqb_eq in E3; subst; cbn;
      unfold child_ok; cbn; repeat split; try discriminate; auto; lia|].
    apply Z.eqb_neq in E2, E0, E3. assert (s = 1) by lia. subst s.
    destruct (negb (tf c) && negb (cstate c =? 1)) eqn:E.
    - unfold start_timer; cbn. destruct (timer c) as [d|] eqn:Ht;
        unfold child_ok; cbn; (split; [discriminate|]); (split; [lia|]); (split; [intros X; exfalso; apply X; reflexivity|]).
      + exact D.
      + intros d [= <-]. exact Hlo.
    - unfold child_ok; cbn. (split; [discriminate|]); (split; [lia|]); (split; [intros X; exfalso; apply X; reflexivity|]). exact D. }
  set (st1 := set_children st (upd (children st) name c1)).
  assert (Hupd : forall m, m <> name -> children st1 m = children st m).
  { intros m Hm. cbn. unfold upd. apply Z.eqb_neq in Hm. rewrite Hm. reflexivity. }
  assert (Hupdn : children st1 name = Some c1).
  { cbn. unfold upd. rewrite Z.eqb_refl. reflexivity. }
  destruct (sync_spec lo name st1) as [HI' [Hn' [Hp' _]]]; auto.
  - intros n. cbn [prios st1 set_children]. rewrite Hdom. destruct (Z.eq_dec n name) as [-> | Hm].
    + rewrite Hupdn, Hc. split; congruence.
    + rewrite (Hupd n Hm). tauto.
  - intros n cn Hn. destruct (Z.eq_dec n name) as [-> | Hm].
    + rewrite Hupdn in Hn. injection Hn as <-. exact Hok1.
    + rewrite (Hupd n Hm) in Hn. eapply Hok; eauto.
  - intros c0 Hc0 Hneq. cbn [inuse st1 set_children] in *. rewrite (Hupd _ Hneq) in Hc0.
    exact (selected_parent_pre st name Hsel Hcl Hne c0 Hc0 Hneq).
  - split; [exact HI'|]. split; [exact Hn'|]. split; [exact Hp'|].
    unfold sync_nf. rewrite sync_scan_closed. exact Hcl.
Qed.

(* ---------- UpdateClientConnState ---------- *)

Lemma assoc_In m l : assoc m l <> None <-> In m (map fst l).
Proof.
  induction l as [|[k v] r IH]; cbn.
  - split; [congruence | intros []].
  - destruct (Z.eqb_spec k m).
    + subst. split; [intros; left; reflexivity | congruence].
    + rewrite IH. split; [intros; right; assumption | intros [H|H]; [contradiction | assumption]].
Qed.

Lemma nodup_b_NoDup l : nodup_b l = true -> NoDup l.
Proof.
  induction l as [|a r IH]; cbn; intros H; constructor.
  - apply andb_true_iff in H. destruct H as [H _]. apply negb_true_iff in H.
    apply mem_false in H. exact H.
  - apply IH. apply andb_true_iff in H. tauto.
Qed.

Lemma config_spec lo K st l :
  Inv lo st -> closed st = false -> lo <= now st + initTimeout -> valid_config_nf K l = true ->
  let st' := config_nf st l in
  Inv lo st' /\ now st' = now st /\ closed st' = false.
Proof.
  intros HI Hcl Hlo Hv st'. unfold st', config_nf.
  set (ch := fun m => match assoc m l with
    | None => None
    | Some ty => match children st m with
      | None => Some (fresh ty)
      | Some c => if btype c =? ty then Some c
                  else Some (mkchild (started (stop_child c)) (cstate (stop_child c))
                       (picker (stop_child c)) (tf (stop_child c)) (timer (stop_child c)) ty)
      end end).
  set (st1 := mkst (now st) (closed st) (inuse st) (map fst l) ch (parent st) (out st)).
  destruct HI as [Hnd Hdom Hok Hclosed Hsel].
  apply andb_true_iff in Hv. destruct Hv as [_ Hv]. apply nodup_b_NoDup in Hv.
  assert (Hdom1 : forall n, In n (map fst l) <-> ch n <> None).
  { intros n. rewrite <- assoc_In. unfold ch. destruct (assoc n l) as [ty|].
    - destruct (children st n) as [c|]; [destruct (btype c =? ty)|]; split; congruence.
    - tauto. }
  assert (Hok1 : forall n c, ch n = Some c -> child_ok lo c).
  { intros n c. unfold ch. destruct (assoc n l) as [ty|]; [|discriminate].
    destruct (children st n) as [c0|] eqn:Hc0.
    - destruct (btype c0 =? ty).
      + intros [= <-]. eapply Hok; eauto.
      + intros [= <-]. pose proof (child_ok_stop' lo c0 (Hok _ _ Hc0)) as H. exact H.
    - intros [= <-]. apply child_ok_fresh. }
  destruct l as [|p l'].
  - (* everything removed *)
    split; [|cbn; auto]. constructor; cbn; try discriminate; try congruence.
    + constructor.
    + intros n. split; [intros [] | congruence].
  - destruct (sync_spec lo (inuse st1) st1) as [HI' [Hn' [Hp' _]]]; auto.
    + cbn. discriminate.
    + intros c _ Hneq. congruence.
    + split; [exact HI'|]. split; [exact Hn'|]. unfold sync_nf. rewrite sync_scan_closed. exact Hcl.
Qed.

(* ---------- Close ---------- *)

Lemma close_spec lo st : Inv lo st -> Inv lo (close st).
Proof.
  intros [Hnd Hdom Hok Hclosed Hsel]. constructor; cbn; try discriminate.
  - exact Hnd.
  - intros n. rewrite Hdom. unfold stop_names. destruct (mem n (prios st)); [|tauto].
    destruct (children st n); cbn; split; congruence.
  - intros n c. unfold stop_names. destruct (mem n (prios st)).
    + destruct (children st n) as [c0|] eqn:E; cbn; [|discriminate].
      intros [= <-]. apply child_ok_stop'. eapply Hok; eauto.
    + apply Hok.
  - intros _ n c. unfold stop_names. destruct (mem n (prios st)) eqn:E.
    + destruct (children st n) as [c0|]; cbn; [|discriminate]. intros [= <-]. apply stop_started.
    + intros Hc. apply mem_false in E. exfalso. apply E. apply Hdom. congruence.
Qed.

(* ---------- timers ---------- *)

(* all deadlines equal to the current instant belong to names still to be visited *)
Definition due_in (st : state) (l : list Z) : Prop :=
  forall m c, children st m = Some c -> timer c = Some (now st) -> In m l.

Lemma cstep_timer t o c' d : cstep t o (Some c') -> timer c' = Some d ->
  (exists c, o = Some c /\ timer c = Some d) \/ d = t + initTimeout.
Proof.
  intros H Hd. inversion H; subst.
  - left. eauto.
  - unfold stop_child in Hd. destruct (started c) eqn:E; [discriminate|]. left; eauto.
  - unfold start_child_nf in Hd. rewrite H2 in Hd. unfold start_timer in Hd. cbn in Hd.
    destruct (timer c) eqn:E; cbn in Hd.
    + left. exists c. split; [reflexivity | congruence].
    + right. congruence.
Qed.

Lemma fire_all_spec : forall l st,
  Inv (now st) st -> closed st = false -> due_in st l ->
  let st' := fire_all_nf st l in
  Inv (now st + 1) st' /\ now st' = now st /\ closed st' = false.
Proof.
  induction l as [|n r IH]; intros st HI Hcl Hdue; cbn [fire_all_nf].
  - split; [|auto]. destruct HI as [Hnd Hdom Hok Hclosed Hsel]. constructor; auto.
    intros m c Hc. destruct (Hok m c Hc) as [A [B [C D]]].
    split; [exact A | split; [exact B | split; [exact C |]]].
    intros d Hd. specialize (D d Hd). assert (d <> now st).
    { intro; subst. exact (Hdue m c Hc Hd). }
    lia.
  - set (st1 := match children st n with
      | Some c => match timer c with
        | Some d => if d =? now st then
            sync_nf (set_children st (upd (children st) n
              (mkchild (started c) (cstate c) (picker c) (tf c) None (btype c)))) (-1) else st
        | None => st end
      | None => st end).
    assert (H1 : Inv (now st1) st1 /\ closed st1 = false /\ due_in st1 r /\ now st1 = now st).
    { unfold st1. destruct (children st n) as [c|] eqn:Hc.
      2:{ split; [exact HI | split; [exact Hcl | split; [ | reflexivity]]].
          intros m c Hm Ht. destruct (Hdue m c Hm Ht) as [<- | H]; [congruence | exact H]. }
      destruct (timer c) as [d|] eqn:Ht.
      2:{ split; [exact HI | split; [exact Hcl | split; [ | reflexivity]]].
          intros m c0 Hm Ht0. destruct (Hdue m c0 Hm Ht0) as [<- | H]; [congruence | exact H]. }
      destruct (Z.eqb_spec d (now st)) as [-> | Hd].
      2:{ split; [exact HI | split; [exact Hcl | split; [ | reflexivity]]].
          intros m c0 Hm Ht0. destruct (Hdue m c0 Hm Ht0) as [<- | H]; [congruence | exact H]. }
      set (c1 := mkchild (started c) (cstate c) (picker c) (tf c) None (btype c)).
      set (st0 := set_children st (upd (children st) n c1)).
      destruct HI as [Hnd Hdom Hok Hclosed Hsel].
      assert (Hin : In n (prios st)) by (apply Hdom; congruence).
      assert (Hne : prios st <> []) by (intro E; rewrite E in Hin; contradiction).
      assert (Hupd : forall m, m <> n -> children st0 m = children st m).
      { intros m Hm. cbn. unfold upd. apply Z.eqb_neq in Hm. rewrite Hm. reflexivity. }
      assert (Hupdn : children st0 n = Some c1).
      { cbn. unfold upd. rewrite Z.eqb_refl. reflexivity. }
      destruct (sync_spec (now st) (-1) st0) as [HI' [Hn' [Hp' Hfr]]]; auto.
      - intros m. cbn [prios st0 set_children]. rewrite Hdom. destruct (Z.eq_dec m n) as [-> | Hm].
        + rewrite Hupdn, Hc. split; congruence.
        + rewrite (Hupd m Hm). tauto.
      - intros m cm Hm. destruct (Z.eq_dec m n) as [-> | Hmn].
        + rewrite Hupdn in Hm. injection Hm as <-. destruct (Hok _ _ Hc) as [A [B [C D]]].
          unfold c1, child_ok; cbn. split; [|split; [exact B | split; [reflexivity | discriminate]]].
          intros Hs. destruct (A Hs) as [A1 [A2 [A3 A4]]]. auto.
        + rewrite (Hupd m Hmn) in Hm. eapply Hok; eauto.
      - cbn. unfold initTimeout. lia.
      - intros c0 Hc0 Hneq. cbn [inuse st0 set_children] in *.
        destruct (Z.eq_dec (inuse st) n) as [E | E].
        + rewrite E, Hupdn in Hc0. injection Hc0 as <-. cbn.
          assert (Hpp := selected_parent_pre st (-1) Hsel Hcl Hne c). rewrite E in Hpp.
          apply Hpp; [exact Hc | rewrite <- E; exact Hneq].
        + rewrite (Hupd _ E) in Hc0. exact (selected_parent_pre st (-1) Hsel Hcl Hne c0 Hc0 Hneq).
      - cbn [now st0 set_children] in *. rewrite Hn'. split; [exact HI'|].
        split; [unfold sync_nf; rewrite sync_scan_closed; exact Hcl|]. split; [|reflexivity].
        intros m cm Hm Htm. rewrite Hn' in Htm.
        pose proof (Hfr m) as Hfm. rewrite Hm in Hfm.
        destruct (cstep_timer _ _ _ _ Hfm Htm) as [[c0 [Hc0 Ht0]] | Hbad].
        2:{ unfold initTimeout in Hbad. lia. }
        destruct (Z.eq_dec m n) as [-> | Hmn].
        + rewrite Hupdn in Hc0. injection Hc0 as <-. discriminate.
        + rewrite (Hupd m Hmn) in Hc0. destruct (Hdue m c0 Hc0 Ht0) as [<- | H]; [congruence | exact H]. }
    destruct H1 as [HI1 [Hcl1 [Hdue1 Hnow1]]].
    destruct (IH st1 HI1 Hcl1 Hdue1) as [A [B C]]. rewrite Hnow1 in *. auto.
Qed.

Lemma tick_spec st : Inv (now st + 1) st -> closed st = false ->
  let st' := tick_nf st in Inv (now st' + 1) st' /\ closed st' = false.
Proof.
  intros HI Hcl. unfold tick_nf.
  set (st1 := mkst (now st + 1) (closed st) (inuse st) (prios st) (children st) (parent st) (out st)).
  assert (HI1 : Inv (now st1) st1).
  { destruct HI as [Hnd Hdom Hok Hclosed Hsel]. constructor; auto. }
  destruct (fire_all_spec (prios st1) st1 HI1 Hcl) as [A [B C]].
  - intros m c Hm _. destruct HI1 as [_ Hdom _ _ _]. apply Hdom. congruence.
  - rewrite B. auto.
Qed.

Lemma sleep_spec : forall d st, Inv (now st + 1) st -> closed st = false ->
  let st' := sleep_nf d st in Inv (now st' + 1) st' /\ closed st' = false.
Proof.
  induction d as [|d IH]; intros st HI Hcl; cbn; [auto|].
  destruct (tick_spec st HI Hcl) as [A B]. apply IH; assumption.
Qed.

(* ---------- every op preserves the invariant ---------- *)

Lemma Inv_out lo st o :
  Inv lo st -> Inv lo (mkst (now st) (closed st) (inuse st) (prios st) (children st) (parent st) o).
Proof. intros [H1 H2 H3 H4 H5]. constructor; auto. Qed.

Lemma step_inv K st op : Inv (now st + 1) st ->
  let st' := step_nf K st op in Inv (now st' + 1) st'.
Proof.
  intros HI. unfold step_nf.
  set (st0 := mkst (now st) (closed st) (inuse st) (prios st) (children st) (parent st) []).
  assert (HI0 : Inv (now st0 + 1) st0) by (apply Inv_out; exact HI).
  destruct (closed st) eqn:Hcl; [exact HI0|].
  assert (Hcl0 : closed st0 = false) by reflexivity.
  assert (Hlo : now st0 + 1 <= now st0 + initTimeout) by (unfold initTimeout; lia).
  destruct op as [|k r]; [exact HI0|].
  destruct (Z.eq_dec k 1) as [-> | N1].
  { destruct (pairs r) as [l|]; [|exact HI0].
    destruct (valid_config_nf K l) eqn:Hv; [|exact HI0].
    destruct (config_spec (now st0 + 1) K st0 l HI0 Hcl0 Hlo Hv) as [A [B C]].
    cbn zeta. rewrite B. exact A. }
  destruct (Z.eq_dec k 2) as [-> | N2].
  { destruct r as [|n [|s [|pk [|x r]]]]; try exact HI0.
    destruct ((0 <=? s) && (s <=? 3)) eqn:Hs; [|exact HI0].
    apply andb_true_iff in Hs. destruct Hs as [Hs1 Hs2]. apply Z.leb_le in Hs1, Hs2.
    destruct (child_update_spec (now st0 + 1) st0 n s pk HI0 Hcl0 Hlo (conj Hs1 Hs2)) as [A [B C]].
    cbn zeta. rewrite B. exact A. }
  destruct (Z.eq_dec k 3) as [-> | N3].
  { destruct r as [|d [|x r]]; try exact HI0.
    destruct ((0 <=? d) && (d <=? 30)); [|exact HI0].
    apply sleep_spec; assumption. }
  destruct (Z.eq_dec k 4) as [-> | N4].
  { destruct r as [|x r]; [|exact HI0]. apply close_spec. exact HI0. }
  destruct k as [|k|k]; try exact HI0.
  do 3 (destruct k as [k|k|]; try exact HI0; try congruence).
Qed.

Lemma final_inv K : forall ops st, Inv (now st + 1) st -> Inv (now (final_nf K st ops) + 1) (final_nf K st ops).
Proof.
  induction ops as [|op r IH]; intros st HI; cbn; [exact HI|].
  apply IH. apply step_inv. exact HI.
Qed.

Lemma reach_inv K ops : Inv (now (final_nf K init ops) + 1) (final_nf K init ops).
Proof. apply final_inv. apply Inv_init. Qed.

(* ---------- list facts about before / after ---------- *)

Lemma before_app n : forall pre post, ~ In n pre -> before n (pre ++ n :: post) = pre.
Proof.
  induction pre as [|a pre IH]; cbn; intros post H.
  - rewrite Z.eqb_refl. reflexivity.
  - destruct (Z.eqb_spec a n); [exfalso; apply H; left; assumption|].
    rewrite IH; [reflexivity | tauto].
Qed.
Lemma before_prefix n : forall pre l h, In n pre -> In h (before n (pre ++ l)) -> In h pre.
Proof.
  induction pre as [|a pre IH]; cbn; intros l h Hn Hh; [contradiction|].
  destruct (Z.eqb_spec a n); [contradiction|].
  destruct Hn as [-> | Hn]; [congruence|].
  destruct Hh as [-> | Hh]; [left; reflexivity | right; eapply IH; eauto].
Qed.
Lemma after_sub n : forall l m, In m (after n l) -> In m l.
Proof.
  induction l as [|a l IH]; cbn; intros m H; [contradiction|].
  destruct (a =? n); [right; assumption | right; apply IH; assumption].
Qed.
Lemma after_app n : forall pre l, ~ In n pre -> after n (pre ++ l) = after n l.
Proof.
  induction pre as [|a pre IH]; cbn; intros l H; [reflexivity|].
  destruct (Z.eqb_spec a n); [exfalso; apply H; left; assumption|]. apply IH. tauto.
Qed.
Lemma after_cons_neq n u l : u <> n -> after n (u :: l) = after n l.
Proof. intros H. cbn. apply Z.eqb_neq in H. rewrite H. reflexivity. Qed.
Lemma after_cons_eq n l : after n (n :: l) = l.
Proof. cbn. rewrite Z.eqb_refl. reflexivity. Qed.
Lemma mem_before n b : forall l, In b l -> NoDup l ->
  (mem n (before b l) || (n =? b) = true <-> In n (before b l ++ [b])).
Proof.
  intros l _ _. rewrite orb_true_iff, mem_In, Z.eqb_eq, in_app_iff. cbn. intuition.
Qed.

(* ---------- reading the invariant ---------- *)

Lemma failed_spec lo c : child_ok lo c -> failed c = true ->
  started c = true /\ timer c = None /\ (cstate c = TF \/ cstate c = CONNECTING).
Proof.
  intros [A [B [C D]]] H. unfold failed, good in H. apply andb_true_iff in H. destruct H as [Hs H].
  apply negb_true_iff in H. apply orb_false_iff in H. destruct H as [H H3].
  apply orb_false_iff in H. destruct H as [H1 H2].
  apply Z.eqb_neq in H1, H2. unfold READY, IDLE, TF, CONNECTING in *.
  split; [exact Hs|].
  destruct (Z.eqb_spec (cstate c) 1) as [E|E].
  - cbn in H3. destruct (timer c); [discriminate|]. split; [reflexivity | right; exact E].
  - split; [apply C; exact E | left; lia].
Qed.

Lemma good_spec lo c : child_ok lo c -> good c = true ->
  cstate c = READY \/ cstate c = IDLE \/ (cstate c = CONNECTING /\ exists d, timer c = Some d /\ lo <= d).
Proof.
  intros [A [B [C D]]] H. unfold good in H. apply orb_true_iff in H. destruct H as [H | H].
  - apply orb_true_iff in H. destruct H as [H | H]; apply Z.eqb_eq in H; auto.
  - apply andb_true_iff in H. destruct H as [H1 H2]. apply Z.eqb_eq in H1.
    destruct (timer c) as [d|] eqn:E; [|discriminate]. right; right. split; [exact H1|].
    exists d. split; [reflexivity | apply D; reflexivity].
Qed.

Lemma best_selected : forall pre ch u post c,
  ch u = Some c -> (good c = true \/ post = []) ->
  (forall n, In n pre -> exists c', ch n = Some c' /\ failed c' = true) ->
  best ch (pre ++ u :: post) = Some u.
Proof.
  induction pre as [|a pre IH]; intros ch u post c Hu Hg Hpre; cbn [app best].
  - destruct post as [|b post]; [reflexivity|]. rewrite Hu.
    destruct Hg as [-> | ?]; [reflexivity | discriminate].
  - destruct (pre ++ u :: post) eqn:E; [destruct pre; discriminate|]. rewrite <- E.
    destruct (Hpre a (or_introl eq_refl)) as [c' [Hc' Hf]]. rewrite Hc'.
    unfold failed in Hf. apply andb_true_iff in Hf. destruct Hf as [_ Hf].
    apply negb_true_iff in Hf. rewrite Hf. eapply IH; eauto. intros n Hn. apply Hpre. right; exact Hn.
Qed.

(* the full reading of the state after any op list *)
Lemma selection_reading K ops : let st := final_nf K init ops in
  closed st = false -> prios st <> [] ->
  exists pre post c,
    prios st = pre ++ inuse st :: post /\ NoDup (prios st) /\
    children st (inuse st) = Some c /\ started c = true /\
    (cstate c = READY \/ cstate c = IDLE \/
     (cstate c = CONNECTING /\ exists d, timer c = Some d /\ now st < d) \/ post = []) /\
    (forall n, In n pre -> exists c', children st n = Some c' /\ started c' = true /\
                 timer c' = None /\ (cstate c' = TF \/ cstate c' = CONNECTING)) /\
    (forall n, In n post -> exists c', children st n = Some c' /\ started c' = false) /\
    parent st = (cstate c, picker c) /\
    best (children st) (prios st) = Some (inuse st).
Proof.
  intros st Hcl Hne. destruct (reach_inv K ops) as [Hnd Hdom Hok Hclosed Hsel]. fold st in Hnd, Hdom, Hok, Hclosed, Hsel.
  destruct (Hsel Hcl Hne) as [pre [post [c [Hp [Hc [Hs [Hg [Hpar [Hpre Hpost]]]]]]]]].
  exists pre, post, c. repeat (split; [assumption|]). split; [|split; [|split; [assumption|split; [assumption|]]]].
  - destruct Hg as [Hg | Hg]; [|auto].
    destruct (good_spec _ _ (Hok _ _ Hc) Hg) as [H | [H | [H1 [d [H2 H3]]]]]; auto.
    right; right; left. split; [exact H1|]. exists d. split; [exact H2 | lia].
  - intros n Hn. destruct (Hpre n Hn) as [c' [Hc' Hf]]. exists c'. split; [exact Hc'|].
    eapply failed_spec; eauto.
  - rewrite Hp. eapply best_selected; eauto.
Qed.

(* ---------- a child that reports READY closes every lower priority ---------- *)

Lemma upd_sync_spec lo st name c c1 :
  Inv lo st -> closed st = false -> lo <= now st + initTimeout ->
  children st name = Some c -> child_ok lo c1 ->
  let st' := sync_nf (set_children st (upd (children st) name c1)) name in
  Inv lo st' /\ prios st' = prios st /\
  cstep (now st) (Some c1) (children st' name).
Proof.
  intros [Hnd Hdom Hok Hclosed Hsel] Hcl Hlo Hc Hok1 st'.
  assert (Hin : In name (prios st)) by (apply Hdom; congruence).
  assert (Hne : prios st <> []) by (intro E; rewrite E in Hin; contradiction).
  set (st1 := set_children st (upd (children st) name c1)).
  assert (Hupd : forall m, m <> name -> children st1 m = children st m).
  { intros m Hm. cbn. unfold upd. apply Z.eqb_neq in Hm. rewrite Hm. reflexivity. }
  assert (Hupdn : children st1 name = Some c1).
  { cbn. unfold upd. rewrite Z.eqb_refl. reflexivity. }
  destruct (sync_spec lo name st1) as [HI' [Hn' [Hp' Hfr]]]; auto.
  - intros n. cbn [prios st1 set_children]. rewrite Hdom. destruct (Z.eq_dec n name) as [-> | Hm].
    + rewrite Hupdn, Hc. split; congruence.
    + rewrite (Hupd n Hm). tauto.
  - intros n cn Hn. destruct (Z.eq_dec n name) as [-> | Hm].
    + rewrite Hupdn in Hn. injection Hn as <-. exact Hok1.
    + rewrite (Hupd n Hm) in Hn. eapply Hok; eauto.
  - intros c0 Hc0 Hneq. cbn [inuse st1 set_children] in *. rewrite (Hupd _ Hneq) in Hc0.
    exact (selected_parent_pre st name Hsel Hcl Hne c0 Hc0 Hneq).
  - split; [exact HI'|]. split; [exact Hp'|]. specialize (Hfr name). rewrite Hupdn in Hfr. exact Hfr.
Qed.

Lemma is_started_false st m : is_started st m = false <->
  (forall c, children st m = Some c -> started c = false).
Proof.
  unfold is_started. destruct (children st m) as [c|]; split; intros H.
  - intros c0 [= <-]. exact H.
  - apply H. reflexivity.
  - intros c0 Hc0. discriminate.
  - reflexivity.
Qed.

Lemma child_update_ready lo st name pk c :
  Inv lo st -> closed st = false -> lo <= now st + initTimeout ->
  children st name = Some c -> started c = true ->
  let st' := child_update_nf st name READY pk in
  forall m, In m (after name (prios st')) -> is_started st' m = false.
Proof.
  intros HI Hcl Hlo Hc Hs st' m Hm. unfold st', child_update_nf in *. rewrite Hc, Hs in *. cbn [negb] in *.
  change ((READY =? READY) || (READY =? IDLE)) with true in *. cbv iota in *.
  set (c1 := mkchild true READY pk false None (btype c)) in *.
  assert (Hok1 : child_ok lo c1).
  { unfold c1, child_ok, READY, CONNECTING; cbn. repeat split; try discriminate; auto; lia. }
  destruct (upd_sync_spec lo st name c c1 HI Hcl Hlo Hc Hok1) as [HI' [Hp' Hfr]].
  set (st2 := sync_nf (set_children st (upd (children st) name c1)) name) in *.
  destruct HI' as [Hnd' Hdom' Hok' Hclosed' Hsel'].
  assert (Hcl' : closed st2 = false) by (unfold st2, sync_nf; rewrite sync_scan_closed; exact Hcl).
  assert (Hin : In name (prios st2)).
  { rewrite Hp'. destruct HI as [_ Hdom _ _ _]. apply Hdom. congruence. }
  assert (Hne : prios st2 <> []) by (intro E; rewrite E in Hin; contradiction).
  destruct (Hsel' Hcl' Hne) as [pre [post [cu [Hp [Hcu [Hsu [Hg [Hpar [Hpre Hpost]]]]]]]]].
  rewrite Hp in Hnd'. destruct (nodup_split _ _ _ Hnd') as [Hur [Hprepost Hupre]].
  apply is_started_false. intros cm Hcm.
  rewrite Hp in Hin, Hm. apply in_app_or in Hin. destruct Hin as [Hin | [Hin | Hin]].
  - (* name above the child in use: impossible, it is READY *)
    exfalso. destruct (Hpre name Hin) as [c' [Hc' Hf]]. rewrite Hc' in Hfr.
    unfold failed in Hf. apply andb_true_iff in Hf. destruct Hf as [Hf1 Hf2].
    inversion Hfr; subst.
    + cbn in Hf2. discriminate.
    + rewrite stop_started in Hf1. discriminate.
    + cbn in *. discriminate.
  - rewrite after_app in Hm by (rewrite <- Hin; exact Hupre).
    rewrite Hin, after_cons_eq in Hm.
    destruct (Hpost m Hm) as [c' [Hc' Hs']]. congruence.
  - assert (Hnpre : ~ In name pre) by (intro H; exact (Hprepost name H Hin)).
    rewrite after_app in Hm by exact Hnpre.
    assert (E : inuse st2 <> name) by (intro E; rewrite <- E in Hin; contradiction).
    rewrite after_cons_neq in Hm by exact E.
    apply after_sub in Hm. destruct (Hpost m Hm) as [c' [Hc' Hs']]. congruence.
Qed.

(* ---------- the clauses_nf hold on every model trace ---------- *)

Lemma names_In K n : In n (names K) <-> 0 <= n < K.
Proof.
  unfold names. rewrite in_map_iff. split.
  - intros [i [<- Hi]]. apply in_seq in Hi. lia.
  - intros H. exists (Z.to_nat n). split; [lia | apply in_seq; lia].
Qed.
Lemma names_nth K n : 0 <= n < K -> nth (Z.to_nat n) (names K) 0 = n.
Proof.
  intros H. unfold names.
  rewrite nth_indep with (d' := Z.of_nat 0%nat) by (rewrite map_length, seq_length; lia).
  rewrite map_nth. rewrite seq_nth by lia. lia.
Qed.
Lemma names_length K : 0 <= K -> Z.of_nat (length (names K)) = K.
Proof. intros H. unfold names. rewrite map_length, seq_length. lia. Qed.

Lemma live_bit_obs K st n : 0 <= K ->
  live_bit K (obs_of K st) n = if (0 <=? n) && (n <? K) then b2z (is_started st n) else 0.
Proof.
  intros HK. unfold live_bit, obs_of. destruct ((0 <=? n) && (n <? K)) eqn:E; [|reflexivity].
  apply andb_true_iff in E. destruct E as [E1 E2]. apply Z.leb_le in E1. apply Z.ltb_lt in E2.
  cbn [skipn]. rewrite app_nth1.
  - set (f := fun n0 => b2z (is_started st n0)).
    rewrite nth_indep with (d' := f 0) by (rewrite map_length; pose proof (names_length K HK); lia).
    rewrite map_nth. rewrite names_nth by lia. reflexivity.
  - rewrite map_length. pose proof (names_length K HK). lia.
Qed.

Lemma step_closed_false K st op : closed (step_nf K st op) = false -> closed st = false.
Proof. unfold step_nf. destruct (closed st) eqn:E; [cbn; auto | auto]. Qed.

Lemma clause_op_true K st op i : 0 <= K -> Inv (now st + 1) st ->
  let st' := step_nf K st op in
  forallb (fun c => snd c) (clause_op K st st' (obs_of K st) op (obs_of K st') i) = true.
Proof.
  intros HK HI st'. pose proof (step_inv K st op HI) as HI'. fold st' in HI'.
  unfold clause_op.
  assert (Hlen : (Z.of_nat (length (obs_of K st')) <? 2 + K) = false).
  { apply Z.ltb_ge. unfold obs_of. cbn [length]. rewrite app_length, map_length.
    pose proof (names_length K HK). lia. }
  rewrite Hlen.
  destruct HI' as [Hnd Hdom Hok Hclosed Hsel].
  assert (Hzero : (forall n c, children st' n = Some c -> started c = false) ->
     forallb (fun n => live_bit K (obs_of K st') n =? 0) (names K) = true).
  { intros H. apply forallb_forall. intros n Hn. rewrite live_bit_obs by exact HK.
    destruct ((0 <=? n) && (n <? K)); [|reflexivity].
    assert (E : is_started st' n = false) by (apply is_started_false; apply H).
    rewrite E. reflexivity. }
  destruct (closed st') eqn:Hcl.
  { cbn. rewrite Hzero; [reflexivity | apply Hclosed; reflexivity]. }
  assert (Hcase : prios st' = [] \/ prios st' <> []) by (destruct (prios st'); [left; reflexivity | right; discriminate]).
  destruct Hcase as [Hpr | Hne].
  { rewrite Hpr. cbn. rewrite Hzero; [reflexivity|]. intros n c Hc. exfalso.
    assert (Hin : In n (prios st')) by (apply Hdom; congruence). rewrite Hpr in Hin. contradiction. }
  destruct (Hsel eq_refl Hne) as [pre [post [c [Hp [Hc [Hs [Hg [Hpar [Hpre Hpost]]]]]]]]].
  rewrite Hp in Hnd. destruct (nodup_split _ _ _ Hnd) as [Hur [Hprepost Hupre]].
  rewrite Hp. rewrite (best_selected pre (children st') (inuse st') post c Hc Hg Hpre).
  rewrite Hc.
  assert (Hbit : forall n, In n (names K) ->
            live_bit K (obs_of K st') n = b2z (is_started st' n)).
  { intros n Hn. rewrite live_bit_obs by exact HK. apply names_In in Hn.
    replace ((0 <=? n) && (n <? K)) with true; [reflexivity|].
    symmetry. apply andb_true_iff. split; [apply Z.leb_le | apply Z.ltb_lt]; lia. }
  assert (Hst_pre : forall n, In n pre -> is_started st' n = true).
  { intros n Hn. destruct (Hpre n Hn) as [c' [Hc' Hf]]. unfold is_started. rewrite Hc'.
    unfold failed in Hf. apply andb_true_iff in Hf. tauto. }
  assert (Hst_u : is_started st' (inuse st') = true).
  { unfold is_started. rewrite Hc. exact Hs. }
  assert (Hst_other : forall n, ~ In n pre -> n <> inuse st' -> is_started st' n = false).
  { intros n H1 H2. apply is_started_false. intros cn Hcn.
    assert (Hin : In n (prios st')) by (apply Hdom; congruence).
    rewrite Hp in Hin. apply in_app_or in Hin. destruct Hin as [Hin | [Hin | Hin]]; [contradiction | congruence |].
    destruct (Hpost n Hin) as [c' [Hc' Hs']]. congruence. }
  cbn [forallb snd]. rewrite !andb_true_iff. repeat split.
  - (* 1 *)
    unfold obs_of. cbn [nth]. rewrite Hpar. cbn. apply Z.eqb_refl.
  - unfold obs_of. cbn [nth]. rewrite Hpar. cbn. apply Z.eqb_refl.
  - (* 2 *)
    apply forallb_forall. intros n Hn. rewrite (Hbit n Hn). rewrite before_app by exact Hupre.
    apply Z.eqb_eq. f_equal.
    destruct (mem n pre) eqn:E1.
    + apply mem_In in E1. cbn. apply Hst_pre; exact E1.
    + apply mem_false in E1. cbn. destruct (Z.eqb_spec n (inuse st')) as [-> | E2].
      * exact Hst_u.
      * apply Hst_other; assumption.
  - (* 3 *)
    destruct op as [|k r0]; [reflexivity|].
    destruct k as [|k|k]; try (destruct r0 as [|? [|? [|? [|? ?]]]]; reflexivity).
    destruct k as [k|k|]; try (destruct r0 as [|? [|? [|? [|? ?]]]]; reflexivity).
    destruct k as [k|k|]; try (destruct r0 as [|? [|? [|? [|? ?]]]]; reflexivity).
    destruct r0 as [|n [|s [|pk [|x r]]]]; try reflexivity.
    destruct (s =? READY) eqn:Es; [|reflexivity]. apply Z.eqb_eq in Es. subst s.
    destruct (live_bit K (obs_of K st) n =? 1) eqn:El; [|reflexivity].
    cbn [andb]. destruct (mem n (pre ++ inuse st' :: post)) eqn:Em; [|reflexivity].
    apply Z.eqb_eq in El. rewrite live_bit_obs in El by exact HK.
    destruct ((0 <=? n) && (n <? K)); [|discriminate].
    destruct (is_started st n) eqn:Est; [|discriminate].
    assert (Hcl0 : closed st = false) by (apply (step_closed_false K st [2; n; READY; pk]); exact Hcl).
    apply forallb_forall. intros m Hm. rewrite <- Hp in Hm.
    rewrite live_bit_obs by exact HK. destruct ((0 <=? m) && (m <? K)); [|reflexivity].
    replace (is_started st' m) with false; [reflexivity|]. symmetry.
    unfold is_started in Est. destruct (children st n) as [cn|] eqn:Hcn; [|discriminate].
    set (st0 := mkst (now st) (closed st) (inuse st) (prios st) (children st) (parent st) []).
    assert (E : st' = child_update_nf st0 n READY pk).
    { unfold st', step_nf, st0. rewrite Hcl0. reflexivity. }
    rewrite E in Hm |- *.
    apply (child_update_ready (now st0 + 1) st0 n pk cn); auto.
    + apply Inv_out. exact HI.
    + unfold initTimeout. lia.
  - (* 4 *)
    apply forallb_forall. intros n Hn. rewrite (Hbit n Hn).
    destruct (is_started st' n) eqn:Est; [|reflexivity]. cbn [b2z Z.eqb andb].
    destruct (live_bit K (obs_of K st) n =? 0); [|reflexivity].
    change (1 =? 1) with true. cbn [andb].
    apply forallb_forall. intros h Hh.
    assert (Hhpre : In h pre).
    { destruct (in_dec Z.eq_dec n pre) as [Hin | Hnin].
      - eapply before_prefix; eauto.
      - destruct (Z.eq_dec n (inuse st')) as [-> | Hneq].
        + rewrite before_app in Hh by exact Hupre. exact Hh.
        + rewrite (Hst_other n Hnin Hneq) in Est. discriminate. }
    destruct (Hpre h Hhpre) as [c' [Hc' Hf]]. rewrite Hc'. exact Hf.
Qed.

Lemma clauses_from_true K : 0 <= K -> forall ops st i, Inv (now st + 1) st ->
  forallb (fun c => snd c) (clauses_from_nf K st (obs_of K st) i ops (run_from_nf K st ops)) = true.
Proof.
  intros HK. induction ops as [|op r IH]; intros st i HI; cbn; [reflexivity|].
  rewrite forallb_app. rewrite clause_op_true by assumption. cbn.
  apply IH. apply step_inv. exact HI.
Qed.

Definition cfg_wf (cfg : word) : bool := match cfg_K cfg with Some _ => true | None => false end.

Lemma model_trace_holds cfg ops : cfg_wf cfg = true ->
  exists obs, run_nf cfg ops = Some obs /\ holds_b_nf cfg ops obs = true.
Proof.
  unfold cfg_wf, run_nf, holds_b_nf, clauses_nf. destruct (cfg_K cfg) as [K|] eqn:E; [|discriminate].
  intros _. exists (run_from_nf K init ops). split; [reflexivity|].
  apply clauses_from_true.
  - unfold cfg_K in E. destruct cfg as [|k [|]]; try discriminate.
    destruct ((1 <=? k) && (k <=? 16)) eqn:E2; [|discriminate]. injection E as <-.
    apply andb_true_iff in E2. destruct E2 as [E2 _]. apply Z.leb_le in E2. lia.
  - apply Inv_init.
Qed.

(* ---------- statements used by props/C39.v ---------- *)

Lemma ready_closes_lower K ops n pk : let st := final_nf K init ops in
  closed st = false -> is_started st n = true ->
  let st' := step_nf K st [2; n; READY; pk] in
  forall m, In m (after n (prios st')) -> is_started st' m = false.
Proof.
  intros st Hcl Hst st' m Hm. pose proof (reach_inv K ops) as HI. fold st in HI.
  unfold is_started in Hst. destruct (children st n) as [cn|] eqn:Hcn; [|discriminate].
  set (st0 := mkst (now st) (closed st) (inuse st) (prios st) (children st) (parent st) []).
  assert (E : st' = child_update_nf st0 n READY pk).
  { unfold st', step_nf, st0. rewrite Hcl. reflexivity. }
  rewrite E in Hm |- *.
  apply (child_update_ready (now st0 + 1) st0 n pk cn); auto.
  - apply Inv_out. exact HI.
  - unfold initTimeout. lia.
Qed.

Lemma started_implies_higher_failed K ops m : let st := final_nf K init ops in
  closed st = false -> is_started st m = true ->
  forall h, In h (before m (prios st)) ->
  exists c, children st h = Some c /\ started c = true /\ timer c = None /\
            (cstate c = TF \/ cstate c = CONNECTING).
Proof.
  intros st Hcl Hst h Hh.
  assert (Hne : prios st <> []) by (intro E; rewrite E in Hh; contradiction).
  destruct (selection_reading K ops Hcl Hne) as [pre [post [c [Hp [Hnd [Hc [Hs [_ [Hpre [Hpost _]]]]]]]]]].
  fold st in Hp, Hnd, Hc, Hpre, Hpost.
  rewrite Hp in Hnd. destruct (nodup_split _ _ _ Hnd) as [Hur [Hprepost Hupre]].
  apply Hpre. rewrite Hp in Hh.
  destruct (in_dec Z.eq_dec m pre) as [Hin | Hnin]; [eapply before_prefix; eauto|].
  destruct (Z.eq_dec m (inuse st)) as [-> | Hneq].
  - rewrite before_app in Hh by exact Hupre. exact Hh.
  - exfalso. unfold is_started in Hst. destruct (children st m) as [cm|] eqn:Hcm; [|discriminate].
    destruct (reach_inv K ops) as [_ Hdom _ _ _]. fold st in Hdom.
    assert (Hin : In m (prios st)) by (apply Hdom; congruence).
    rewrite Hp in Hin. apply in_app_or in Hin. destruct Hin as [Hin | [Hin | Hin]]; [contradiction | congruence |].
    destruct (Hpost m Hin) as [c' [Hc' Hs']]. congruence.
Qed.

Lemma closed_nothing_built K ops n : let st := final_nf K init ops in
  closed st = true -> is_started st n = false.
Proof.
  intros st Hcl. destruct (reach_inv K ops) as [_ _ _ Hclosed _]. fold st in Hclosed.
  apply is_started_false. apply Hclosed. exact Hcl.
Qed.

(* ====================================================================================
   The machine with rejecting child policies (step, final, run, ...) coincides with the
   machine above (step_nf, ...) on histories that never configure policy types 2 or 3.
   ==================================================================================== *)

Definition NF (st : state) : Prop := forall n c, children st n = Some c -> fails c = false.

Lemma start_eq t c : fails c = false -> start_child t c = start_child_nf t c.
Proof. intros H. unfold start_child, start_child_nf. rewrite H. reflexivity. Qed.
Lemma fails_stop c : fails (stop_child c) = fails c.
Proof. unfold stop_child. destruct (started c); reflexivity. Qed.
Lemma fails_start_nf t c : fails (start_child_nf t c) = fails c.
Proof. unfold start_child_nf, start_timer. destruct (started c); [reflexivity|]. cbn. destruct (timer c); reflexivity. Qed.

Lemma NF_stop_names st l : NF st -> forall n c, stop_names (children st) l n = Some c -> fails c = false.
Proof.
  intros H n c. unfold stop_names. destruct (mem n l); [|apply H].
  destruct (children st n) as [c0|] eqn:E; cbn; [|discriminate]. intros [= <-].
  rewrite fails_stop. eapply H; eauto.
Qed.

Lemma NF_upd st n c1 : NF st -> fails c1 = false -> NF (set_children st (upd (children st) n c1)).
Proof.
  intros H Hc m c. cbn. unfold upd. destruct (m =? n); [intros [= <-]; exact Hc | apply H].
Qed.

Lemma switch_eq st name l : NF st ->
  switch_to st name l = switch_to_nf st name l /\ NF (switch_to_nf st name l).
Proof.
  intros H. pose proof (NF_stop_names st l H) as Hs.
  unfold switch_to, switch_to_nf. cbn [children set_children].
  destruct (stop_names (children st) l name) as [c|] eqn:E.
  - pose proof (Hs _ _ E) as Hc.
    destruct ((inuse (set_children st (stop_names (children st) l)) =? name) && started c).
    + split; [reflexivity | exact Hs].
    + destruct (started c).
      * split; [reflexivity | exact Hs].
      * rewrite (start_eq _ _ Hc). split; [reflexivity|].
        intros m c'. cbn. unfold upd. destruct (m =? name).
        -- intros [= <-]. rewrite fails_start_nf. exact Hc.
        -- apply Hs.
  - split; [reflexivity | exact Hs].
Qed.

Lemma scan_eq : forall l st u, NF st ->
  sync_scan st u l = sync_scan_nf st u l /\ NF (sync_scan_nf st u l).
Proof.
  induction l as [|name r IH]; intros st u H; cbn [sync_scan sync_scan_nf]; [split; [reflexivity | exact H]|].
  destruct (children st name) as [c|] eqn:E; [|apply IH; exact H].
  pose proof (H _ _ E) as Hc.
  destruct (eligible c _); [|apply IH; exact H].
  rewrite Hc, andb_false_r.
  set (st1 := if negb (inuse st =? name) || (name =? u) then emit st (cstate c) (picker c) else st).
  assert (H1 : NF st1) by (unfold st1; destruct (_ || _); exact H).
  apply switch_eq. exact H1.
Qed.

Lemma sync_eq st u : NF st -> sync st u = sync_nf st u /\ NF (sync_nf st u).
Proof. intros H. unfold sync, sync_nf. apply scan_eq. exact H. Qed.

Lemma child_update_eq st n s pk : NF st ->
  child_update st n s pk = child_update_nf st n s pk /\ NF (child_update_nf st n s pk).
Proof.
  intros H. unfold child_update, child_update_nf.
  destruct (children st n) as [c|] eqn:E; [|split; [reflexivity | exact H]].
  destruct (negb (started c)); [split; [reflexivity | exact H]|].
  apply sync_eq. apply NF_upd; [exact H|].
  pose proof (H _ _ E) as Hc. unfold fails in *.
  destruct ((s =? READY) || (s =? IDLE)); [exact Hc|].
  destruct (s =? TF); [exact Hc|].
  destruct (negb (tf c) && negb (cstate c =? CONNECTING)); [|exact Hc].
  unfold start_timer. cbn. destruct (timer c); exact Hc.
Qed.

Lemma valid_eq K l : forallb (fun p : Z * Z => snd p <? 2) l = true ->
  valid_config K l = valid_config_nf K l.
Proof.
  intros H. unfold valid_config, valid_config_nf. f_equal.
  induction l as [|p r IH]; [reflexivity|]. cbn in H |- *. apply andb_true_iff in H. destruct H as [Hp Hr].
  rewrite (IH Hr). f_equal. apply Z.ltb_lt in Hp.
  destruct ((0 <=? fst p) && (fst p <? K)); [|reflexivity]. cbn.
  destruct (Z.eqb_spec (snd p) 0), (Z.eqb_spec (snd p) 1), (Z.leb_spec 0 (snd p)), (Z.leb_spec (snd p) 3);
    cbn; try reflexivity; lia.
Qed.

Lemma assoc_In2 m : forall l ty, assoc m l = Some ty -> In (m, ty) l.
Proof.
  induction l as [|[k v] r IH]; cbn; intros ty H; [discriminate|].
  destruct (Z.eqb_spec k m); [injection H as <-; subst; left; reflexivity | right; auto].
Qed.

Lemma config_eq st l : NF st -> forallb (fun p : Z * Z => snd p <? 2) l = true ->
  config st l = config_nf st l /\ NF (config_nf st l).
Proof.
  intros H Hl. unfold config, config_nf.
  set (ch := fun m => match assoc m l with
    | None => None
    | Some ty => match children st m with
      | None => Some (fresh ty)
      | Some c => if btype c =? ty then Some c
                  else Some (mkchild (started (stop_child c)) (cstate (stop_child c))
                       (picker (stop_child c)) (tf (stop_child c)) (timer (stop_child c)) ty)
      end end).
  set (st1 := mkst (now st) (closed st) (inuse st) (map fst l) ch (parent st) (out st)).
  assert (H1 : NF st1).
  { intros m c. cbn. unfold ch. destruct (assoc m l) as [ty|] eqn:Ea; [|discriminate].
    apply assoc_In2 in Ea. rewrite forallb_forall in Hl. specialize (Hl _ Ea). cbn in Hl. apply Z.ltb_lt in Hl.
    assert (Hty : (2 <=? ty) = false) by (apply Z.leb_gt; lia).
    destruct (children st m) as [c0|] eqn:E0.
    - destruct (btype c0 =? ty); intros [= <-]; [eapply H; eauto | exact Hty].
    - intros [= <-]. exact Hty. }
  destruct l as [|p l'].
  - split; [reflexivity|]. exact H1.
  - apply sync_eq. exact H1.
Qed.

Lemma fire_all_eq : forall ns st, NF st ->
  fire_all st ns = fire_all_nf st ns /\ NF (fire_all_nf st ns).
Proof.
  induction ns as [|n r IH]; intros st H; cbn [fire_all fire_all_nf]; [split; [reflexivity | exact H]|].
  destruct (children st n) as [c|] eqn:E; [|apply IH; exact H].
  destruct (timer c) as [d|]; [|apply IH; exact H].
  destruct (d =? now st); [|apply IH; exact H].
  destruct (sync_eq (set_children st (upd (children st) n
      (mkchild (started c) (cstate c) (picker c) (tf c) None (btype c)))) (-1)) as [A B].
  { apply NF_upd; [exact H | exact (H _ _ E)]. }
  rewrite A. apply IH. exact B.
Qed.

Lemma tick_eq st : NF st -> tick st = tick_nf st /\ NF (tick_nf st).
Proof. intros H. unfold tick, tick_nf. apply fire_all_eq. exact H. Qed.

Lemma sleep_eq : forall d st, NF st -> sleep d st = sleep_nf d st /\ NF (sleep_nf d st).
Proof.
  induction d as [|d IH]; intros st H; cbn [sleep sleep_nf]; [split; [reflexivity | exact H]|].
  destruct (tick_eq st H) as [A B]. rewrite A. apply IH. exact B.
Qed.

Lemma step_eq K st op : NF st -> op_nf op = true ->
  step K st op = step_nf K st op /\ NF (step_nf K st op).
Proof.
  intros H Hop. unfold step, step_nf.
  set (st0 := mkst (now st) (closed st) (inuse st) (prios st) (children st) (parent st) []).
  assert (H0 : NF st0) by exact H.
  destruct (closed st); [split; [reflexivity | exact H0]|].
  destruct op as [|k r]; [split; [reflexivity | exact H0]|].
  destruct (Z.eq_dec k 1) as [-> | N1].
  { cbn in Hop. destruct (pairs r) as [l|]; [|split; [reflexivity | exact H0]].
    rewrite (valid_eq K l Hop). destruct (valid_config_nf K l); [|split; [reflexivity | exact H0]].
    apply config_eq; assumption. }
  destruct (Z.eq_dec k 2) as [-> | N2].
  { destruct r as [|n [|s [|pk [|x r]]]]; try (split; [reflexivity | exact H0]).
    destruct ((0 <=? s) && (s <=? 3)); [|split; [reflexivity | exact H0]].
    apply child_update_eq. exact H0. }
  destruct (Z.eq_dec k 3) as [-> | N3].
  { destruct r as [|d [|x r]]; try (split; [reflexivity | exact H0]).
    destruct ((0 <=? d) && (d <=? 30)); [|split; [reflexivity | exact H0]].
    apply sleep_eq. exact H0. }
  destruct (Z.eq_dec k 4) as [-> | N4].
  { destruct r as [|x r]; [|split; [reflexivity | exact H0]]. split; [reflexivity|].
    intros m c. cbn. apply (NF_stop_names st0 (prios st0) H0). }
  destruct k as [|k|k]; try (split; [reflexivity | exact H0]).
  do 3 (destruct k as [k|k|]; try (split; [reflexivity | exact H0]); try congruence).
Qed.

Lemma NF_init : NF init.
Proof. intros n c. cbn. discriminate. Qed.

Lemma final_eq K : forall ops st, NF st -> no_failing_types ops = true ->
  final K st ops = final_nf K st ops /\ NF (final_nf K st ops).
Proof.
  induction ops as [|op r IH]; intros st H Hn; cbn; [split; [reflexivity | exact H]|].
  cbn in Hn. apply andb_true_iff in Hn. destruct Hn as [Ho Hr].
  destruct (step_eq K st op H Ho) as [A B]. rewrite A. apply IH; assumption.
Qed.

Lemma run_from_eq K : forall ops st, NF st -> no_failing_types ops = true ->
  run_from K st ops = run_from_nf K st ops.
Proof.
  induction ops as [|op r IH]; intros st H Hn; cbn; [reflexivity|].
  cbn in Hn. apply andb_true_iff in Hn. destruct Hn as [Ho Hr].
  destruct (step_eq K st op H Ho) as [A B]. rewrite A. f_equal. apply IH; assumption.
Qed.

Lemma clauses_from_eq K : forall ops obs st prev i, NF st -> no_failing_types ops = true ->
  clauses_from K st prev i ops obs = clauses_from_nf K st prev i ops obs.
Proof.
  induction ops as [|op r IH]; intros obs st prev i H Hn; destruct obs as [|o r']; cbn; try reflexivity.
  cbn in Hn. apply andb_true_iff in Hn. destruct Hn as [Ho Hr].
  destruct (step_eq K st op H Ho) as [A B]. rewrite A. f_equal. apply IH; assumption.
Qed.

(* ---------- the theorems, transported to the machine with rejecting policies, for
   histories without rejecting child policies ---------- *)

Lemma final_nf_eq K ops : no_failing_types ops = true -> final K init ops = final_nf K init ops.
Proof. intros H. apply (final_eq K ops init NF_init H). Qed.

Lemma selection_reading_h K ops : no_failing_types ops = true ->
  let st := final K init ops in
  closed st = false -> prios st <> [] ->
  exists pre post c,
    prios st = pre ++ inuse st :: post /\ NoDup (prios st) /\
    children st (inuse st) = Some c /\ started c = true /\
    (cstate c = READY \/ cstate c = IDLE \/
     (cstate c = CONNECTING /\ exists d, timer c = Some d /\ now st < d) \/ post = []) /\
    (forall n, In n pre -> exists c', children st n = Some c' /\ started c' = true /\
                 timer c' = None /\ (cstate c' = TF \/ cstate c' = CONNECTING)) /\
    (forall n, In n post -> exists c', children st n = Some c' /\ started c' = false) /\
    parent st = (cstate c, picker c) /\
    best (children st) (prios st) = Some (inuse st).
Proof. intros H. rewrite (final_nf_eq K ops H). exact (selection_reading K ops). Qed.

Lemma started_implies_higher_failed_h K ops m : no_failing_types ops = true ->
  let st := final K init ops in
  closed st = false -> is_started st m = true ->
  forall h, In h (before m (prios st)) ->
  exists c, children st h = Some c /\ started c = true /\ timer c = None /\
            (cstate c = TF \/ cstate c = CONNECTING).
Proof. intros H. rewrite (final_nf_eq K ops H). exact (started_implies_higher_failed K ops m). Qed.

Lemma ready_closes_lower_h K ops n pk : no_failing_types ops = true ->
  let st := final K init ops in
  closed st = false -> is_started st n = true ->
  let st' := step K st [2; n; READY; pk] in
  forall m, In m (after n (prios st')) -> is_started st' m = false.
Proof.
  intros H. destruct (final_eq K ops init NF_init H) as [E HNF]. rewrite E.
  destruct (step_eq K (final_nf K init ops) [2; n; READY; pk] HNF eq_refl) as [Es _].
  cbv zeta. rewrite Es. exact (ready_closes_lower K ops n pk).
Qed.

Lemma closed_nothing_built_h K ops n : no_failing_types ops = true ->
  let st := final K init ops in
  closed st = true -> is_started st n = false.
Proof. intros H. rewrite (final_nf_eq K ops H). exact (closed_nothing_built K ops n). Qed.

Lemma model_trace_holds_h cfg ops : cfg_wf cfg = true -> no_failing_types ops = true ->
  exists obs, run cfg ops = Some obs /\ holds_b cfg ops obs = true.
Proof.
  intros Hw Hn. destruct (model_trace_holds cfg ops Hw) as [obs [Hr Hh]].
  exists obs. unfold run, holds_b, clauses, run_nf, holds_b_nf, clauses_nf in *.
  destruct (cfg_K cfg) as [K|]; [|discriminate].
  rewrite (run_from_eq K ops init NF_init Hn), (clauses_from_eq K ops obs init _ 0 NF_init Hn).
  split; assumption.
Qed.
