(* Proofs for engine RetryThrottle (C19).  Float facts via FloatAxioms + Flocq, reusing the
   lemmas of Flt_proofs and Backoff_proofs (int64 conversion). *)
From Coq Require Import List ZArith Bool Reals Floats Lia Lra.
From Flocq Require Import Core.Core IEEE754.BinarySingleNaN.
From Flocq Require IEEE754.PrimFloat.
From VLib Require Import Codec Machine.
From VModel Require Import Backoff RetryThrottle.
From VProof Require Import Flt_proofs Backoff_proofs.
Import ListNotations.
Open Scope Z_scope.

(* ---------- the token bucket ---------- *)

(* "a retry is refused exactly when the bucket is at or below half of maxTokens" *)
Lemma throttle_rule : forall t tok, throttled t tok = PrimFloat.leb tok (tmax t / 2)%float.
Proof. reflexivity. Qed.

Open Scope R_scope.

(* valid throttling configuration: 0 < MaxTokens <= 1000, 0 < TokenRatio finite *)
Definition tcfg_ok (t : tcfg) (vmax vr : R) : Prop :=
  FR (tmax t) vmax /\ 0 < vmax <= 1000 /\ FR (tratio t) vr /\ 0 < vr.

Definition in_bucket (t : tcfg) (tok : PrimFloat.float) : Prop :=
  exists v vmax, FR tok v /\ FR (tmax t) vmax /\ 0 <= v <= vmax.

Lemma R1000_64 : 1000 <= R64.
Proof. unfold R64. apply IZR_le. vm_compute. discriminate. Qed.

(* a failure removes one token, never going below 0: value max(0, fl(v - 1)) *)
Lemma tok_fail_spec : forall tok v, FR tok v -> 0 <= v <= 1000 ->
  FR (tok_fail tok) (Rmax 0 (rnd (v - 1))) /\ 0 <= Rmax 0 (rnd (v - 1)) <= v.
Proof.
  intros tok v Hv Hr. generalize R1000_64; intro H64.
  assert (Hb : -1 <= rnd (v - 1) <= R64) by (apply (rnd_between _ _ _ _ _ FR_mone FR_two64); lra).
  assert (Hs : FR (tok - 1)%float (rnd (v - 1))).
  { apply FR_sub. exact Hv. exact FR_one. apply small_lt. apply Rabs_le. fold R64. lra. }
  assert (Hle : rnd (v - 1) <= v).
  { rewrite <- (rnd_id _ _ Hv) at 2. apply rnd_le. lra. }
  unfold tok_fail. rewrite (FR_ltb _ _ _ _ Hs FR_zero).
  destruct (Rlt_bool_spec (rnd (v - 1)) 0).
  - rewrite Rmax_left by lra. split. exact FR_zero. lra.
  - rewrite Rmax_right by lra. split. exact Hs. lra.
Qed.

Lemma Bltb_fin_pinf : forall x : binary_float prec emax, is_finite x = true -> Bltb x (B754_infinity false) = true.
Proof. intros [s|s| |s m e Hb] H; try discriminate H; try reflexivity. all: try (destruct s; reflexivity). Qed.

(* a success adds tokenRatio, capped at maxTokens: the result is in [0, max] *)
Lemma tok_success_range : forall t tok vmax vr, tcfg_ok t vmax vr -> in_bucket t tok -> in_bucket t (tok_success t tok).
Proof.
  intros t tok vmax vr (Hm & Hmr & Hr & Hrp) (v & vmax' & Hv & Hm' & Hvr).
  assert (vmax' = vmax) by (eapply FR_unique; eassumption). subst vmax'.
  unfold tok_success, in_bucket.
  generalize (Bplus_correct prec emax FP.Hprec FP.Hmax mode_NE (FP.Prim2B tok) (FP.Prim2B (tratio t)) (proj1 Hv) (proj1 Hr)).
  rewrite (proj2 Hv), (proj2 Hr). change (round radix2 _ _ (v + vr)) with (rnd (v + vr)).
  destruct (Rlt_bool (Rabs (rnd (v + vr))) (bpow radix2 emax)).
  - intros (H1 & H2 & _).
    assert (Hs : FR (tok + tratio t)%float (rnd (v + vr))).
    { unfold FR. rewrite FP.add_equiv. split; assumption. }
    rewrite (FR_ltb _ _ _ _ Hm Hs). destruct (Rlt_bool_spec vmax (rnd (v + vr))).
    + exists vmax, vmax. split. exact Hm. split. exact Hm. lra.
    + exists (rnd (v + vr)), vmax. split. exact Hs. split. exact Hm. split; [|lra].
      apply rnd_nonneg. lra.
  - intros [H1 Hsg]. rewrite FP.ltb_equiv, FP.add_equiv.
    (* the sum overflowed: both operands have the sign of the ratio, which is positive *)
    rewrite Hsg, (FR_pos_sign _ _ Hr Hrp) in H1.
    match goal with |- context [Bltb _ ?b] => destruct b as [s|s| |s m e Hbd]; cbn in H1; try discriminate H1 end.
    injection H1 as ->.
    rewrite Bltb_fin_pinf by apply Hm.
    exists vmax, vmax. split. exact Hm. split. exact Hm. lra.
Qed.

Lemma tok_fail_range : forall t tok vmax vr, tcfg_ok t vmax vr -> in_bucket t tok -> in_bucket t (tok_fail tok).
Proof.
  intros t tok vmax vr (Hm & Hmr & _) (v & vmax' & Hv & Hm' & Hvr).
  assert (vmax' = vmax) by (eapply FR_unique; eassumption). subst vmax'.
  destruct (tok_fail_spec tok v Hv) as [H1 H2]. lra.
  exists (Rmax 0 (rnd (v - 1))), vmax. split. exact H1. split. exact Hm. lra.
Qed.

Lemma max_in_bucket : forall t vmax vr, tcfg_ok t vmax vr -> in_bucket t (tmax t).
Proof. intros t vmax vr (Hm & Hmr & _). exists vmax, vmax. split. exact Hm. split. exact Hm. lra. Qed.

Close Scope R_scope.

(* ---------- shouldRetry ---------- *)

(* every branch leaves the bucket either unchanged or with one token removed *)
Lemma should_retry_tokens : forall t p st a r,
  tokens (fst (should_retry t p st a r)) = tokens st \/
  tokens (fst (should_retry t p st a r)) = tok_fail (tokens st).
Proof.
  intros t p st a r. unfold should_retry.
  destruct (a_pb a) as [|s|]; [| destruct (atoi s) as [pb|]; [destruct (pb <? 0)|] |];
  repeat match goal with |- context [if ?b then _ else _] => destruct b end; cbn; auto.
Qed.

(* "an attempt that fails with a retryable code ... removes one token" *)
Lemma retryable_failure_removes_token : forall t p st a r, a_pb a = PBnone -> retryable (a_code a) = true ->
  tokens (fst (should_retry t p st a r)) = tok_fail (tokens st).
Proof.
  intros t p st a r Hp Hc. unfold should_retry. rewrite Hp, Hc. cbv zeta. cbn [negb tokens numRetries sincePB].
  destruct (throttled t (tok_fail (tokens st))); [reflexivity|].
  destruct (maxAttempts p <=? numRetries st + 1); reflexivity.
Qed.

(* "(or with malformed pushback)": unparsable, negative or multiple pushback values remove
   one token and forbid the retry whatever the status code is *)
Definition bad_pushback (pb : pushback) : Prop :=
  pb = PBmany \/ exists s, pb = PBone s /\ (atoi s = None \/ exists v, atoi s = Some v /\ v < 0).
Lemma bad_pushback_no_retry : forall t p st a r, bad_pushback (a_pb a) ->
  should_retry t p st a r = (mkrs (tok_fail (tokens st)) (numRetries st) (sincePB st), None).
Proof.
  intros t p st a r [H | (s & H & [Hn | (v & Hv & Hneg)])]; unfold should_retry; rewrite H.
  - reflexivity.
  - rewrite Hn. reflexivity.
  - rewrite Hv. replace (v <? 0) with true by (symmetry; apply Z.ltb_lt; exact Hneg). reflexivity.
Qed.

(* a status that is not retryable (and no bad pushback) leaves the bucket alone *)
Lemma not_retryable_no_token : forall t p st a r, a_pb a = PBnone -> retryable (a_code a) = false ->
  should_retry t p st a r = (st, None).
Proof. intros t p st a r Hp Hc. unfold should_retry. rewrite Hp, Hc. reflexivity. Qed.

(* the retry is refused exactly when the bucket is <= max/2 after the removal (or the
   attempts are used up) *)
Lemma retry_iff : forall t p st a r, a_pb a = PBnone -> retryable (a_code a) = true ->
  (snd (should_retry t p st a r) = None <->
   throttled t (tok_fail (tokens st)) = true \/ maxAttempts p <= numRetries st + 1).
Proof.
  intros t p st a r Hp Hc. unfold should_retry. rewrite Hp, Hc. cbv zeta. cbn [negb tokens numRetries sincePB].
  destruct (throttled t (tok_fail (tokens st))); cbn [snd]. split; auto.
  destruct (maxAttempts p <=? numRetries st + 1) eqn:E; cbn [snd].
  - apply Z.leb_le in E. split; auto.
  - apply Z.leb_gt in E. split. discriminate. intros [H|H]. discriminate H. lia.
Qed.

(* "the delay before retry n is the server pushback when one was given" (and k restarts) *)
Lemma pushback_wins : forall t p st a r s pb d ex st', a_pb a = PBone s -> atoi s = Some pb ->
  should_retry t p st a r = (st', Some (d, ex)) ->
  d = i64 (1000000 * pb) /\ ex = true /\ sincePB st' = 0 /\ 0 <= pb /\
  (1000000 * pb <= max_i64 -> d = 1000000 * pb).
Proof.
  intros t p st a r s pb d ex st' Hp Ha H. unfold should_retry in H. rewrite Hp, Ha in H.
  destruct (pb <? 0) eqn:E; [discriminate H|]. apply Z.ltb_ge in E.
  destruct (negb (retryable (a_code a))); [discriminate H|].
  destruct (throttled t _); [discriminate H|].
  destruct (maxAttempts p <=? numRetries st + 1); [discriminate H|].
  injection H as <- <- <-. unfold pushback_delay. repeat split; auto.
  intro Hle. unfold i64. unfold max_i64 in Hle.
  rewrite Z.mod_small by lia. lia.
Qed.

(* without pushback the delay is the backoff expression at k = retries since the last
   pushback, and k advances *)
Lemma no_pushback_delay : forall t p st a r d ex st', a_pb a = PBnone ->
  should_retry t p st a r = (st', Some (d, ex)) ->
  d = delay_of p (sincePB st) r /\ ex = false /\ sincePB st' = sincePB st + 1.
Proof.
  intros t p st a r d ex st' Hp H. unfold should_retry in H. rewrite Hp in H.
  destruct (negb (retryable (a_code a))); [discriminate H|].
  destruct (throttled t _); [discriminate H|].
  destruct (maxAttempts p <=? numRetries st + 1); [discriminate H|].
  injection H as <- <- <-. auto.
Qed.


(* ---------- math.Pow (integer exponent path): never NaN, never negative ---------- *)
Open Scope R_scope.

Lemma small1 : forall v, 0 <= v <= 2 -> Rabs v < bpow radix2 1024.
Proof. intros v H. apply small2. lra. Qed.

Lemma frexp_FR : forall x v, FR x v -> 0 < v ->
  exists v1, FR (fst (Z.frexp x)) v1 /\ / 2 <= v1 < 1.
Proof.
  intros x v [F H] Hv.
  generalize (FP.frexp_equiv x). destruct (Z.frexp x) as [m e]. cbn [fst]. intro E.
  assert (Hs : is_finite_strict (FP.Prim2B x) = true).
  { destruct (FP.Prim2B x) as [s|s| |s mm ee Hb]; try discriminate F; try reflexivity. cbn in H. lra. }
  generalize (Bfrexp_correct prec emax FP.Hprec (FP.Prim2B x) Hs). rewrite <- E.
  intros [H1 H2]. destruct (H2 ltac:(unfold emax; lia)) as [H3 _]. clear H2.
  rewrite H in H1.
  assert (Hp : 0 < B2R (FP.Prim2B m)).
  { assert (0 < bpow radix2 e) by apply bpow_gt_0.
    destruct (Rle_or_lt (B2R (FP.Prim2B m)) 0) as [Hn|]; [|assumption]. exfalso. nra. }
  rewrite Rabs_pos_eq in H3 by lra.
  exists (B2R (FP.Prim2B m)). split; [|exact H3]. split; [|reflexivity].
  destruct (FP.Prim2B m) as [s|s| |s mm ee Hb]; cbn in Hp; try lra. reflexivity.
Qed.

(* loop state: a1 in [+0, 1], x1 in [1/2, 1] *)
Definition unitf (a : PrimFloat.float) : Prop :=
  exists v, FR a v /\ 0 <= v <= 1 /\ Bsign (FP.Prim2B a) = false.

Lemma pow_loop_unit : forall fuel i x1 xe a1 ae v1, FR x1 v1 -> / 2 <= v1 <= 1 -> unitf a1 ->
  unitf (fst (pow_loop fuel i x1 xe a1 ae)).
Proof.
  induction fuel as [|f IH]; intros i x1 xe a1 ae v1 Hx Hv Ha; cbn [pow_loop]. exact Ha.
  destruct (i =? 0)%Z. exact Ha.
  destruct ((xe <? -4096)%Z || (4096 <? xe)%Z). exact Ha.
  assert (Sx : Bsign (FP.Prim2B x1) = false) by (eapply FR_pos_sign; [exact Hx | lra]).
  (* a1' *)
  assert (Ha' : unitf (fst (if Z.odd i then ((a1 * x1)%float, (ae + xe)%Z) else (a1, ae)))).
  { destruct (Z.odd i); cbn [fst]; [|exact Ha]. destruct Ha as (va & Fa & Ra & Sa).
    assert (Hr : 0 <= rnd (va * v1) <= 1) by (apply (rnd_between _ _ _ _ _ FR_zero FR_one); nra).
    exists (rnd (va * v1)). split. apply FR_mul; try assumption. apply small1; lra. split. exact Hr.
    rewrite (FR_mul_sign _ _ _ _ Fa Hx) by (apply small1; lra). rewrite Sa, Sx. reflexivity. }
  destruct (if Z.odd i then ((a1 * x1)%float, (ae + xe)%Z) else (a1, ae)) as [a1' ae']. cbn [fst] in Ha'.
  (* x1' = x1*x1, renormalised into [1/2, 1] *)
  assert (Hq : FR (x1 * x1)%float (rnd (v1 * v1)) /\ / 4 <= rnd (v1 * v1) <= 1).
  { assert (/ 4 <= rnd (v1 * v1) <= 1) by (apply (rnd_between _ _ _ _ _ FR_quarter FR_one); nra).
    split; [|assumption]. apply FR_mul; try assumption. apply small1; lra. }
  destruct Hq as [Fq Rq].
  rewrite (FR_ltb _ _ _ _ Fq FR_half).
  destruct (Rlt_bool_spec (rnd (v1 * v1)) (/ 2)).
  - assert (Hd : / 2 <= rnd (rnd (v1 * v1) + rnd (v1 * v1)) <= 1)
      by (apply (rnd_between _ _ _ _ _ FR_half FR_one); lra).
    apply (IH _ _ _ _ _ (rnd (rnd (v1 * v1) + rnd (v1 * v1)))); try assumption.
    apply FR_add; try assumption. apply small1; lra.
  - apply (IH _ _ _ _ _ (rnd (v1 * v1))); try assumption. lra.
Qed.

(* Ldexp of a non-negative finite value is non-negative finite or +Inf *)
Lemma ldexp_nn : forall a e, unitf a -> NNF (Z.ldexp a e) \/ PINF (Z.ldexp a e).
Proof.
  intros a e (v & [Fa Ea] & Rv & Sa). unfold NNF, PINF, FR. rewrite FP.ldexp_equiv.
  generalize (Bldexp_correct prec emax FP.Hprec FP.Hmax mode_NE (FP.Prim2B a) e).
  rewrite Ea, Sa. change (round radix2 _ _ (v * bpow radix2 e)) with (rnd (v * bpow radix2 e)).
  destruct (Rlt_bool _ _).
  - intros (H1 & H2 & H3). left. exists (rnd (v * bpow radix2 e)). repeat split.
    + rewrite H2. exact Fa.
    + exact H1.
    + apply rnd_nonneg. apply Rmult_le_pos. lra. apply bpow_ge_0.
    + exact H3.
  - intro H. right. cbn in H.
    destruct (Bldexp mode_NE (FP.Prim2B a) e); cbn in H; try discriminate H. injection H as ->. reflexivity.
Qed.

Lemma unitf_one : unitf 1%float.
Proof. exists 1. split. exact FR_one. split. lra. reflexivity. Qed.

(* math.Pow(x, k) for finite x > 0 and an integer k >= 0 *)
Lemma pow_int_nn : forall x v k, FR x v -> 0 < v -> NNF (pow_int x k) \/ PINF (pow_int x k).
Proof.
  intros x v k Hx Hv. unfold pow_int.
  destruct ((k =? 0)%Z || PrimFloat.eqb x 1).
  { left. exists 1. split. exact FR_one. split. lra. reflexivity. }
  destruct (k =? 1)%Z.
  { left. exists v. split. exact Hx. split. lra. eapply FR_pos_sign; eassumption. }
  destruct (frexp_FR x v Hx Hv) as (v1 & F1 & R1).
  destruct (Z.frexp x) as [x1 xe]. cbn [fst] in F1.
  generalize (pow_loop_unit 64 k x1 xe 1%float 0%Z v1 F1 ltac:(lra) unitf_one).
  destruct (pow_loop 64 k x1 xe 1 0) as [a1 ae]. cbn [fst]. intro Hu.
  apply ldexp_nn. exact Hu.
Qed.

(* product of a positive finite value with a value in [+0, +Inf] *)
Lemma mul_nn : forall a b va, FR a va -> 0 < va -> NNF b \/ PINF b -> NNF (a * b)%float \/ PINF (a * b)%float.
Proof.
  intros a b va Ha Hva Hb.
  assert (Sa : Bsign (FP.Prim2B a) = false) by (eapply FR_pos_sign; eassumption).
  destruct Hb as [(vb & Hb & Rb & Sb) | Hb].
  - unfold NNF, PINF, FR. rewrite FP.mul_equiv.
    generalize (Bmult_correct prec emax FP.Hprec FP.Hmax mode_NE (FP.Prim2B a) (FP.Prim2B b)).
    destruct Ha as [Fa Ea]. destruct Hb as [Fb Eb]. rewrite Ea, Eb, Sa, Sb.
    change (round radix2 _ _ (va * vb)) with (rnd (va * vb)).
    destruct (Rlt_bool _ _).
    + intros (H1 & H2 & H3). left. exists (rnd (va * vb)). repeat split.
      * rewrite H2, Fa, Fb. reflexivity.
      * exact H1.
      * apply rnd_nonneg. apply Rmult_le_pos; lra.
      * apply H3. destruct (Bmult mode_NE (FP.Prim2B a) (FP.Prim2B b)); try reflexivity.
        rewrite Fa, Fb in H2. discriminate H2.
    + intro H. right. cbn in H.
      destruct (Bmult mode_NE (FP.Prim2B a) (FP.Prim2B b)); cbn in H; try discriminate H. injection H as ->. reflexivity.
  - right. unfold PINF in *. rewrite FP.mul_equiv, Hb. destruct Ha as [Fa Ea].
    destruct (FP.Prim2B a) as [s|s| |s m e Hbd]; try discriminate Fa.
    + cbn in Ea. lra.
    + cbn in Sa. subst s. reflexivity.
Qed.

Close Scope R_scope.

(* ---------- the backoff interval ---------- *)
Open Scope R_scope.

Lemma FR_c08 : exists v, FR c08 v /\ 0 <= v <= 1.
Proof. apply (between_FR _ _ _ _ _ FR_zero FR_one); reflexivity. Qed.
Lemma FR_c04 : exists v, FR c04 v /\ 0 <= v <= 1.
Proof. apply (between_FR _ _ _ _ _ FR_zero FR_one); reflexivity. Qed.

(* min(.., float64(MaxBackoff)) never exceeds float64(MaxBackoff) *)
Lemma cur_le_max : forall p k, PrimFloat.ltb (of_i64 (maxB p)) (cur_of p k) = false.
Proof.
  intros p k. unfold cur_of, fmin.
  destruct (is_nan_b _ || is_nan_b _).
  { rewrite ltb_spec. change (Prim2SF nan) with S754_nan. destruct (Prim2SF (of_i64 (maxB p))) as [s|s| |s m e]; reflexivity. }
  destruct (PrimFloat.ltb (of_i64 (maxB p)) (of_i64 (initB p) * pow_int (rmult p) k)) eqn:E.
  rewrite ltb_spec. apply SFltb_irrefl. exact E.
Qed.

(* For a finite non-negative cur (the capped float64 value) whose upper end cur x (0.8+0.4)
   stays below 2^63, and every draw r in [0, 1-2^-53]:
     int64(cur x 0.8) <= int64(cur x (0.8 + 0.4 r)) <= int64(cur x (0.8 + 0.4)),
   all in float64 arithmetic as the code computes it, and the delay is not negative. *)
Lemma delay_interval : forall cur v r, FR cur v -> 0 <= v <= R63 ->
  PrimFloat.leb two63 (cur * (c08 + c04))%float = false -> draw_ok r = true ->
  (to_i64 (cur * c08)%float <= to_i64 (jit_of cur r) <= to_i64 (cur * (c08 + c04))%float)%Z /\
  (0 <= to_i64 (cur * c08)%float)%Z.
Proof.
  intros cur v r Hc Hv Hov Hr.
  destruct FR_c08 as (v8 & H8 & R8). destruct FR_c04 as (v4 & H4 & R4).
  destruct (draw_ok_inv r Hr) as (a & vm & Ha & _ & Hra & Hvm).
  (* 0.8 + 0.4 *)
  assert (S12 : FR (c08 + c04)%float (rnd (v8 + v4)) /\ 0 <= rnd (v8 + v4) <= 2).
  { assert (0 <= rnd (v8 + v4) <= 2) by (apply (rnd_between _ _ _ _ _ FR_zero FR_two); lra).
    split; [|assumption]. apply FR_add; try assumption. apply small2. lra. }
  destruct S12 as [H12 R12].
  (* 0.4 * r *)
  assert (P4 : FR (c04 * r)%float (rnd (v4 * a)) /\ 0 <= rnd (v4 * a) <= v4).
  { assert (0 <= rnd (v4 * a) <= v4) by (apply (rnd_between _ _ _ _ _ FR_zero H4); nra).
    split; [|assumption]. apply FR_mul; try assumption. apply small2. lra. }
  destruct P4 as [Hp4 Rp4].
  (* 0.8 + 0.4 r *)
  assert (Sf : FR (c08 + c04 * r)%float (rnd (v8 + rnd (v4 * a))) /\
               v8 <= rnd (v8 + rnd (v4 * a)) <= rnd (v8 + v4)).
  { assert (v8 <= rnd (v8 + rnd (v4 * a)) <= rnd (v8 + v4)).
    { split. rewrite <- (rnd_id _ _ H8) at 1. apply rnd_le. lra. apply rnd_le. lra. }
    split; [|assumption]. apply FR_add; try assumption. apply small2. lra. }
  destruct Sf as [Hf Rf].
  (* the three products *)
  assert (Plo : FR (cur * c08)%float (rnd (v * v8))) by (apply prod_FR; try assumption; lra).
  assert (Pmid : FR (jit_of cur r) (rnd (v * rnd (v8 + rnd (v4 * a))))) by (unfold jit_of; apply prod_FR; try assumption; lra).
  assert (Phi : FR (cur * (c08 + c04))%float (rnd (v * rnd (v8 + v4)))) by (apply prod_FR; try assumption; lra).
  rewrite (FR_leb _ _ _ _ FR_two63 Phi) in Hov. apply Rle_bool_false_inv in Hov.
  assert (M1 : rnd (v * v8) <= rnd (v * rnd (v8 + rnd (v4 * a)))) by (apply rnd_le, Rmult_le_compat_l; lra).
  assert (M2 : rnd (v * rnd (v8 + rnd (v4 * a))) <= rnd (v * rnd (v8 + v4))) by (apply rnd_le, Rmult_le_compat_l; lra).
  assert (N0 : 0 <= rnd (v * v8)) by (apply rnd_nonneg; nra).
  rewrite (to_i64_floor _ _ Plo) by lra. rewrite (to_i64_floor _ _ Pmid) by lra. rewrite (to_i64_floor _ _ Phi) by lra.
  repeat split; try (apply Zfloor_le; assumption).
  rewrite <- (Zfloor_IZR 0). apply Zfloor_le. exact N0.
Qed.

Close Scope R_scope.

(* ---------- validated policies: cur is finite and non-negative ---------- *)
Open Scope R_scope.

(* what convertRetryPolicy / isValidRetryPolicy accept: InitialBackoff > 0, MaxBackoff > 0
   (int64 ns), BackoffMultiplier > 0 (JSON numbers are finite) *)
Definition policy_ok_b (p : rcfg) : bool :=
  (0 <? initB p)%Z && (initB p <=? max_i64)%Z && (0 <? maxB p)%Z && (maxB p <=? max_i64)%Z &&
  PrimFloat.ltb 0%float (rmult p) && PrimFloat.ltb (rmult p) infinity.

Lemma policy_ok_inv : forall p, policy_ok_b p = true ->
  (0 < initB p <= max_i64)%Z /\ (0 < maxB p <= max_i64)%Z /\ exists vm, FR (rmult p) vm /\ 0 < vm.
Proof.
  intros p H. unfold policy_ok_b in H.
  apply andb_prop in H; destruct H as [H H6]. apply andb_prop in H; destruct H as [H H5].
  apply andb_prop in H; destruct H as [H H4]. apply andb_prop in H; destruct H as [H H3].
  apply andb_prop in H; destruct H as [H1 H2].
  apply Z.ltb_lt in H1, H3. apply Z.leb_le in H2, H4.
  split. lia. split. lia.
  assert (L : PrimFloat.leb 0%float (rmult p) = true).
  { rewrite ltb_spec in H5. rewrite leb_spec. unfold SFltb in H5. unfold SFleb. destruct (SFcompare _ _) as [[| |]|]; try discriminate H5; reflexivity. }
  destruct (above_FR _ _ _ FR_zero L H6) as (vm & Hm & Hr).
  exists vm. split. exact Hm. rewrite (FR_ltb _ _ _ _ FR_zero Hm) in H5. apply Rlt_bool_true_inv in H5. exact H5.
Qed.

Lemma PINF_not_nan : forall x, PINF x -> is_nan_b x = false.
Proof. intros x H. unfold is_nan_b. rewrite FP.eqb_equiv, H. reflexivity. Qed.

(* cur = min(float64(InitialBackoff) x Pow(mult, k), float64(MaxBackoff)) is a finite float
   in [0, float64(MaxBackoff)] for every validated policy and every k *)
Lemma cur_FR : forall p k, policy_ok_b p = true -> exists v, FR (cur_of p k) v /\ 0 <= v <= R63.
Proof.
  intros p k Hp. destruct (policy_ok_inv p Hp) as (Hi & Hx & vm & Hm & Hvm).
  destruct (FR_of_i64 (initB p)) as (Fi & Ri & _). lia.
  destruct (FR_of_i64 (maxB p)) as (Fx & Rx & _). lia.
  assert (Pi : 0 < rnd (IZR (initB p))).
  { apply Rlt_le_trans with 1. lra. rewrite <- (rnd_id _ _ FR_one). apply rnd_le. apply IZR_le. lia. }
  assert (Hprod := mul_nn _ _ _ Fi Pi (pow_int_nn _ _ k Hm Hvm)).
  unfold cur_of, fmin. rewrite (FR_not_nan _ _ Fx), orb_false_r.
  destruct Hprod as [(v & Fv & Rv & _) | Hinf].
  - rewrite (FR_not_nan _ _ Fv). rewrite (FR_ltb _ _ _ _ Fx Fv).
    destruct (Rlt_bool_spec (rnd (IZR (maxB p))) v).
    + eexists. split. exact Fx. exact Rx.
    + exists v. split. exact Fv. lra.
  - rewrite (PINF_not_nan _ Hinf). rewrite FP.ltb_equiv, Hinf, Bltb_fin_pinf by apply Fx.
    eexists. split. exact Fx. exact Rx.
Qed.

Close Scope R_scope.

(* "otherwise lies in [0.8, 1.2] x min(initialBackoff x multiplier^k, maxBackoff)" for every
   validated policy whose upper end cur x (0.8+0.4) stays below 2^63 (the complement is the
   registered overflow finding), every k and every draw: in float64 arithmetic
   int64(cur x 0.8) <= delay <= int64(cur x (0.8+0.4)), and the delay is not negative *)
Lemma backoff_interval : forall p k r, policy_ok_b p = true -> ovf_delay p k = false -> draw_ok r = true ->
  int_lo p k <= delay_of p k r <= int_hi p k /\ 0 <= int_lo p k.
Proof.
  intros p k r Hp Ho Hr. destruct (cur_FR p k Hp) as (v & Fv & Rv).
  unfold ovf_delay in Ho. apply orb_false_elim in Ho. destruct Ho as [Ho _].
  exact (delay_interval _ _ _ Fv Rv Ho Hr).
Qed.

(* the two overflow findings *)
Lemma delay_overflow_refuted : exists p k r, draw_ok r = true /\ 0 < initB p <= max_i64 /\ 0 < maxB p <= max_i64 /\
  delay_of p k r = min_i64.
Proof.
  exists (mkr 2 max_i64 max_i64 2%float), 0, rmax. vm_compute. repeat split; discriminate.
Qed.
Lemma pushback_overflow_refuted : exists s pb, atoi s = Some pb /\ 0 <= pb /\ pushback_delay pb < 0.
Proof.
  exists [57;50;50;51;51;55;50;48;51;54;56;53;53], 9223372036855. vm_compute. repeat split; discriminate.
Qed.

(* ---------- the bucket stays in [0, maxTokens] along every trace ---------- *)

Lemma rpc_go_bucket : forall t p vmax vr, tcfg_ok t vmax vr -> forall script st budget r,
  in_bucket t (tokens st) -> in_bucket t (fst (fst (rpc_go t p st budget script r))).
Proof.
  intros t p vmax vr Ht. induction script as [|a rest IH]; intros st budget r Hb; cbn [rpc_go].
  - cbn. eapply tok_success_range; eassumption.
  - assert (Hs : in_bucket t (tokens (fst (should_retry t p st a r)))).
    { destruct (should_retry_tokens t p st a r) as [E|E]; rewrite E. exact Hb. eapply tok_fail_range; eassumption. }
    destruct (should_retry t p st a r) as [st' [[d ex]|]]; cbn [fst] in Hs.
    + destruct (budget <=? observed d). exact Hs.
      specialize (IH st' (budget - observed d) r Hs).
      destruct (rpc_go t p st' (budget - observed d) rest r) as [[tk code] ds]. exact IH.
    + exact Hs.
Qed.

Lemma in_bucket_range : forall t tok, in_bucket t tok -> tok_in_range t tok = true.
Proof.
  intros t tok (v & vmax & Hv & Hm & Hr). unfold tok_in_range.
  rewrite (FR_leb _ _ _ _ FR_zero Hv), (FR_leb _ _ _ _ Hv Hm).
  rewrite !Rle_bool_true by apply Hr. reflexivity.
Qed.

(* clauses 3 (bucket range) and 4 (outcome per gRFC A6) *)
Definition core (l : list (Z * Z * bool)) : list (Z * Z * bool) :=
  filter (fun c => (fst (fst c) =? 3) || (fst (fst c) =? 4)) l.

Lemma core_delay_clauses : forall p script ds obs, core (delay_clauses p script ds obs) = [].
Proof.
  intros p. induction script as [|a script IH]; intros ds obs.
  - destruct ds as [|[[d ex] k] ds]; [reflexivity|]. destruct obs; reflexivity.
  - destruct ds as [|[[d ex] k] ds]; [reflexivity|]. destruct obs as [|o obs]; [reflexivity|].
    cbn [delay_clauses]. unfold core. cbn [filter]. fold (core (delay_clauses p script ds obs)). rewrite IH.
    destruct ex.
    + destruct (a_pb a) as [|s|]; try reflexivity. destruct (atoi s) as [pb|]; [|reflexivity].
      destruct (1000000 * pb <=? max_i64); reflexivity.
    + destruct (ovf_delay p k); reflexivity.
Qed.

Lemma core_app : forall l1 l2, core (l1 ++ l2) = core l1 ++ core l2.
Proof. intros. unfold core. apply filter_app. Qed.

Lemma split_obs_of : forall tk code ds,
  split_obs (obs_of (tk, code, ds)) =
  Some (code, map (fun x : Z * bool * Z => observed (fst (fst x))) ds, to_bits tk).
Proof.
  intros tk code ds. unfold obs_of, split_obs, get_bytes.
  replace (Z.of_nat (length ds) <? 0) with false by (symmetry; apply Z.ltb_ge; lia).
  rewrite Nat2Z.id. rewrite <- (map_length (fun x : Z * bool * Z => observed (fst (fst x))) ds).
  rewrite take_n_app. reflexivity.
Qed.

(* a boolean form of tcfg_ok, to show the hypothesis satisfiable by computation *)
Definition tcfg_ok_b (t : tcfg) : bool :=
  PrimFloat.ltb 0%float (tmax t) && PrimFloat.leb (tmax t) 1000%float &&
  PrimFloat.ltb 0%float (tratio t) && PrimFloat.ltb (tratio t) infinity.

Lemma FR_1000 : FR 1000%float 1000%R.
Proof.
  assert (E : Prim2SF 1000%float = S754_finite false 8796093022208000 (-43)) by reflexivity.
  generalize (FR_const _ _ _ E). intro H.
  replace 1000%R with (IZR 8796093022208000 * bpow radix2 (-43))%R. exact H.
  change (bpow radix2 (-43)) with (/ IZR (2^43))%R. change (2^43) with 8796093022208. field.
Qed.

Lemma tcfg_ok_b_sound : forall t, tcfg_ok_b t = true -> exists vmax vr, tcfg_ok t vmax vr.
Proof.
  intros t H. unfold tcfg_ok_b in H.
  apply andb_prop in H. destruct H as [H H4]. apply andb_prop in H. destruct H as [H H3].
  apply andb_prop in H. destruct H as [H1 H2].
  assert (L1 : PrimFloat.leb 0%float (tmax t) = true).
  { rewrite ltb_spec in H1. rewrite leb_spec. unfold SFltb in H1. unfold SFleb. destruct (SFcompare _ _) as [[| |]|]; try discriminate H1; reflexivity. }
  assert (L3 : PrimFloat.leb 0%float (tratio t) = true).
  { rewrite ltb_spec in H3. rewrite leb_spec. unfold SFltb in H3. unfold SFleb. destruct (SFcompare _ _) as [[| |]|]; try discriminate H3; reflexivity. }
  destruct (between_FR _ _ _ _ _ FR_zero FR_1000 L1 H2) as (vmax & Hm & Hmr).
  destruct (above_FR _ _ _ FR_zero L3 H4) as (vr & Hr & Hrr).
  exists vmax, vr. unfold tcfg_ok. split. exact Hm.
  rewrite (FR_ltb _ _ _ _ FR_zero Hm) in H1. apply Rlt_bool_true_inv in H1.
  rewrite (FR_ltb _ _ _ _ FR_zero Hr) in H3. apply Rlt_bool_true_inv in H3.
  split. lra. split. exact Hr. exact H3.
Qed.

Lemma success_step : forall t p st budget r,
  rpc_go t p st budget [] r = (tok_success t (tokens st), 0, []).
Proof. reflexivity. Qed.

(* ---------- the full bridge: every clause on every model trace ---------- *)

(* pushback values that fit (the overflow is the registered finding, clause 6) *)
Definition attempt_wf (a : attempt) : bool :=
  match a_pb a with
  | PBone s => match atoi s with Some pb => 1000000 * pb <=? max_i64 | None => true end
  | _ => true
  end.
Definition op_wf (op : word) : bool :=
  match parse_op op with
  | Some script => forallb attempt_wf script
  | None => match parse_upd op with Some t' => tcfg_ok_b t' | None => false end   (* a valid new throttling policy *)
  end.
(* the policy never reaches the int64 overflow of the computed delay (clause 5) *)
Definition no_ovf (p : rcfg) : Prop := forall k, 0 <= k < maxAttempts p -> ovf_delay p k = false.

Lemma should_retry_some : forall t p st a r st' d ex, should_retry t p st a r = (st', Some (d, ex)) ->
  numRetries st + 1 < maxAttempts p /\ numRetries st' = numRetries st + 1 /\
  ((ex = true /\ exists s pb, a_pb a = PBone s /\ atoi s = Some pb /\ 0 <= pb /\
                 d = pushback_delay pb /\ sincePB st' = 0) \/
   (ex = false /\ a_pb a = PBnone /\ d = delay_of p (sincePB st) r /\ sincePB st' = sincePB st + 1)).
Proof.
  intros t p st a r st' d ex H. unfold should_retry in H.
  destruct (a_pb a) as [|s|] eqn:Pb; [| |discriminate H].
  - destruct (negb (retryable (a_code a))); [discriminate H|].
    destruct (throttled t _); [discriminate H|].
    destruct (maxAttempts p <=? numRetries st + 1) eqn:E; [discriminate H|]. apply Z.leb_gt in E.
    injection H as <- <- <-. cbn. split. lia. split. reflexivity. right. auto.
  - destruct (atoi s) as [pb|] eqn:At; [|discriminate H].
    destruct (pb <? 0) eqn:Neg; [discriminate H|]. apply Z.ltb_ge in Neg.
    destruct (negb (retryable (a_code a))); [discriminate H|].
    destruct (throttled t _); [discriminate H|].
    destruct (maxAttempts p <=? numRetries st + 1) eqn:E; [discriminate H|]. apply Z.leb_gt in E.
    injection H as <- <- <-. cbn. split. lia. split. reflexivity. left. split. reflexivity.
    exists s, pb. auto.
Qed.

Lemma draw_ok_zero : draw_ok 0%float = true.
Proof. reflexivity. Qed.

Lemma delay_clauses_ok : forall t p, policy_ok_b p = true -> no_ovf p -> forall script st budget,
  0 <= sincePB st <= numRetries st -> forallb attempt_wf script = true ->
  forallb (fun c => snd c)
    (delay_clauses p script (snd (rpc_go t p st budget script 0%float))
       (map (fun x : Z * bool * Z => observed (fst (fst x))) (snd (rpc_go t p st budget script 0%float)))) = true.
Proof.
  intros t p Hp Hno. induction script as [|a rest IH]; intros st budget Hst Hw; cbn [rpc_go].
  - reflexivity.
  - cbn [forallb] in Hw. apply andb_prop in Hw. destruct Hw as [Hwa Hwr].
    destruct (should_retry t p st a 0%float) as [st' [[d ex]|]] eqn:E; [|reflexivity].
    destruct (budget <=? observed d); [reflexivity|].
    destruct (should_retry_some _ _ _ _ _ _ _ _ E) as (Hlt & Hnr & Hcase).
    assert (Hst' : 0 <= sincePB st' <= numRetries st') by (destruct Hcase as [(_ & s & pb & _ & _ & _ & _ & Hz) | (_ & _ & _ & Hz)]; lia).
    specialize (IH st' (budget - observed d) Hst' Hwr).
    destruct (rpc_go t p st' (budget - observed d) rest 0%float) as [[tk code] ds]. cbn [snd] in IH |- *.
    cbn [map delay_clauses fst snd forallb]. rewrite IH, andb_true_r.
    destruct Hcase as [(-> & s & pb & Pb & At & Hpb & -> & _) | (-> & Pb & -> & _)].
    + rewrite Pb, At. unfold attempt_wf in Hwa. rewrite Pb, At in Hwa. rewrite Hwa. cbn [snd].
      apply Z.leb_le in Hwa. unfold observed, pushback_delay, i64. unfold max_i64 in Hwa.
      rewrite Z.mod_small by lia. apply Z.eqb_eq. lia.
    + assert (Hk : 0 <= sincePB st < maxAttempts p) by lia.
      rewrite (Hno _ Hk). cbn [snd].
      destruct (backoff_interval p (sincePB st) 0%float Hp (Hno _ Hk) draw_ok_zero) as [[L1 L2] L3].
      unfold observed. rewrite Z.max_r by lia.
      apply andb_true_intro. split; apply Z.leb_le; assumption.
Qed.

Lemma run_from_all : forall p, policy_ok_b p = true -> no_ovf p ->
  forall ops t tok i, (exists vmax vr, tcfg_ok t vmax vr) -> in_bucket t tok -> forallb op_wf ops = true ->
  exists obs, run_from t p tok ops = Some obs /\
              forallb (fun c => snd c) (clauses_from t p tok i ops obs) = true.
Proof.
  intros p Hp Hno. induction ops as [|op ops IH]; intros t tok i Ht Hb Hw.
  - exists []. split; reflexivity.
  - cbn [forallb] in Hw. apply andb_prop in Hw. destruct Hw as [Hw1 Hw2]. unfold op_wf in Hw1.
    cbn [run_from]. destruct (parse_op op) as [script|] eqn:Po.
    + destruct Ht as (vmax & vr & Ht0).
      assert (Hb' : in_bucket t (fst (fst (rpc t p tok script 0%float)))).
      { unfold rpc. eapply rpc_go_bucket. eassumption. exact Hb. }
      assert (Hd := delay_clauses_ok t p Hp Hno script (mkrs tok 0 0) rpc_budget ltac:(cbn; lia) Hw1).
      fold (rpc t p tok script 0%float) in Hd.
      destruct (rpc t p tok script 0%float) as [[tk code] ds] eqn:E0. cbn [fst snd] in Hb', Hd.
      destruct (IH t tk (i + 1) (ex_intro _ vmax (ex_intro _ vr Ht0)) Hb' Hw2) as (os & Hr & Hc). cbn [fst snd]. rewrite Hr.
      exists (obs_of (tk, code, ds) :: os). split. reflexivity.
      cbn [clauses_from]. rewrite Po, split_obs_of, E0.
      assert (Hso : same_outcome (tk, code, ds) code (map (fun x : Z * bool * Z => observed (fst (fst x))) ds) (to_bits tk) = true).
      { unfold same_outcome. rewrite map_length, !Z.eqb_refl. reflexivity. }
      rewrite Hso. cbn [fst snd].
      rewrite !forallb_app, Hd. cbn [forallb snd andb]. rewrite Hso, (in_bucket_range _ _ Hb'), Hc. reflexivity.
    + (* service-config update: a fresh bucket, full, for the new policy *)
      destruct (parse_upd op) as [t'|] eqn:Pu; [|discriminate Hw1].
      destruct (tcfg_ok_b_sound t' Hw1) as (vmax' & vr' & Ht').
      assert (Hb' : in_bucket t' (tmax t')) by (eapply max_in_bucket; eassumption).
      destruct (IH t' (tmax t') (i + 1) (ex_intro _ vmax' (ex_intro _ vr' Ht')) Hb' Hw2) as (os & Hr & Hc).
      rewrite Hr. exists ([to_bits (tmax t')] :: os). split. reflexivity.
      cbn [clauses_from]. rewrite Po, Pu, Z.eqb_refl. cbn [forallb snd].
      rewrite (in_bucket_range _ _ Hb'), Hc. reflexivity.
Qed.

Lemma model_trace_holds : forall cfg t p vmax vr ops, decode_cfg cfg = Some (t, p) -> tcfg_ok t vmax vr ->
  policy_ok_b p = true -> no_ovf p -> forallb op_wf ops = true ->
  exists obs, run cfg ops = Some obs /\ holds_b cfg ops obs = true.
Proof.
  intros cfg t p vmax vr ops Hd Ht Hp Hno Hw. unfold run, holds_b, clauses. rewrite Hd.
  eapply run_from_all; try eassumption. exists vmax, vr. exact Ht. eapply max_in_bucket; eassumption.
Qed.

(* a service-config update gives a fresh, full bucket for the new policy: inside the new
   [0, maxTokens] whatever the old bucket held *)
Lemma update_fresh_bucket : forall p t tok t' op rest, parse_op op = None -> parse_upd op = Some t' ->
  run_from t p tok (op :: rest) =
  match run_from t' p (tmax t') rest with Some os => Some ([to_bits (tmax t')] :: os) | None => None end.
Proof. intros p t tok t' op rest Po Pu. cbn [run_from]. rewrite Po, Pu. reflexivity. Qed.
