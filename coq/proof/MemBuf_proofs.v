(* Proofs for the C53 engine (model/MemBuf.v). *)
From Coq Require Import List ZArith Bool Lia.
From VLib Require Import Codec Machine.
From VModel Require Import MemBuf.
Import ListNotations.
Open Scope Z_scope.

(* ================================================================== *)
(* list updates                                                        *)
Lemma upd_length {A} : forall (l : list A) i x, length (upd i x l) = length l.
Proof. induction l as [|y l IH]; intros [|i] x; cbn; auto. Qed.
Lemma nth_upd_eq {A} : forall (l : list A) i x d, (i < length l)%nat -> nth i (upd i x l) d = x.
Proof. induction l as [|y l IH]; intros [|i] x d H; cbn in *; try lia; auto. apply IH. lia. Qed.
Lemma nth_upd_neq {A} : forall (l : list A) i j x d, i <> j -> nth j (upd i x l) d = nth j l d.
Proof. induction l as [|y l IH]; intros [|i] [|j] x d H; cbn; auto; try congruence. Qed.
Lemma upd_oob {A} : forall (l : list A) i x, (length l <= i)%nat -> upd i x l = l.
Proof. induction l as [|y l IH]; intros [|i] x H; cbn in *; try lia; auto. f_equal. apply IH. lia. Qed.

(* ================================================================== *)
(* one pooled allocation                                               *)
Fixpoint nlive (ds : list der) : Z :=
  match ds with [] => 0 | d :: r => b2z (d_live d) + nlive r end.
Lemma nlive_nonneg ds : 0 <= nlive ds.
Proof. induction ds as [|d r IH]; cbn [nlive]; [lia|]. destruct (d_live d); unfold b2z; lia. Qed.
Lemma nlive_app a b : nlive (a ++ b) = nlive a + nlive b.
Proof. induction a as [|d r IH]; cbn [app nlive]; [reflexivity|]. rewrite IH. lia. Qed.
Lemma nlive_upd : forall ds j d, (j < length ds)%nat ->
  nlive (upd j d ds) = nlive ds - b2z (d_live (nth j ds dead_der)) + b2z (d_live d).
Proof.
  induction ds as [|x r IH]; intros [|j] d H; cbn in *; try lia.
  rewrite IH by lia. lia.
Qed.
Lemma nlive_zero ds : nlive ds = 0 <-> forall d, In d ds -> d_live d = false.
Proof.
  induction ds as [|x r IH]; cbn [nlive In].
  - split; [intros _ d [] | reflexivity].
  - pose proof (nlive_nonneg r). split.
    + intros H0 d Hd. destruct (d_live x) eqn:Ex; unfold b2z in H0; [lia|].
      destruct Hd as [<-|Hin]; [exact Ex|]. apply IH; [lia | exact Hin].
    + intros Hall. rewrite (Hall x (or_introl eq_refl)). unfold b2z.
      assert (nlive r = 0) by (apply IH; intros d Hd; apply Hall; right; exact Hd). lia.
Qed.

Lemma nlive_ge1 : forall ds j, (j < length ds)%nat -> d_live (nth j ds dead_der) = true -> 1 <= nlive ds.
Proof.
  induction ds as [|x r IH]; intros [|j] Hj Hl; cbn [length nth nlive] in *; try lia.
  - rewrite Hl. pose proof (nlive_nonneg r). unfold b2z. lia.
  - pose proof (IH j ltac:(lia) Hl). destruct (d_live x); unfold b2z; lia.
Qed.

(* references held from outside on member m: for the root, its counter minus the references
   held by its live derived objects *)
Definition urefs (f : fam) (m : nat) : Z :=
  match m with
  | O => f_refs f - nlive (f_der f)
  | S j => d_refs (get_der f j)
  end.

Definition der_ok (d : der) : Prop := 0 <= d_refs d /\ d_live d = (0 <? d_refs d).
Definition WF (f : fam) : Prop :=
  (forall d, In d (f_der f) -> der_ok d) /\
  nlive (f_der f) <= f_refs f /\
  f_live f = (0 <? f_refs f) /\
  f_puts f = (if f_live f then 0 else 1).

Lemma WF_new bytes : WF (fam_new bytes).
Proof. unfold WF, fam_new; cbn. split; [intros d []|]. repeat split; lia. Qed.

Lemma get_der_ok f j : WF f -> der_ok (get_der f j).
Proof.
  intros (Hd & _). unfold get_der. destruct (Nat.lt_ge_cases j (length (f_der f))) as [H|H].
  - apply Hd. apply nth_In. exact H.
  - rewrite nth_overflow by exact H. split; cbn; [lia | reflexivity].
Qed.
Lemma urefs_nonneg f m : WF f -> 0 <= urefs f m.
Proof.
  intros Hw. destruct m as [|j]; cbn [urefs].
  - destruct Hw as (_ & H & _). lia.
  - apply (get_der_ok f j Hw).
Qed.
Lemma der_in_range f j : 1 <= d_refs (get_der f j) -> (j < length (f_der f))%nat.
Proof.
  intros H. destruct (Nat.lt_ge_cases j (length (f_der f))) as [Hl|Hl]; [exact Hl|].
  unfold get_der in H. rewrite nth_overflow in H by exact Hl. cbn in H. lia.
Qed.
Lemma ders_upd_ok f j d : WF f -> der_ok d -> forall x, In x (upd j d (f_der f)) -> der_ok x.
Proof.
  intros (Hd & _) Hok x Hin. apply In_nth with (d := dead_der) in Hin. destruct Hin as (i & Hi & <-).
  rewrite upd_length in Hi. destruct (Nat.eq_dec j i) as [->|Hne].
  - rewrite nth_upd_eq by exact Hi. exact Hok.
  - rewrite nth_upd_neq by exact Hne. apply Hd. apply nth_In. exact Hi.
Qed.

(* a live member keeps the allocation out of the pool; the allocation is in the pool (exactly
   one Put) exactly when no reference is left *)
Theorem live_not_returned f m : WF f -> 1 <= urefs f m ->
  m_live f m = true /\ f_live f = true /\ f_puts f = 0.
Proof.
  intros Hw Hu. pose proof Hw as (Hd & Hn & Hl & Hp).
  assert (Hroot: 0 < f_refs f -> f_live f = true /\ f_puts f = 0).
  { intros H. assert (f_live f = true) by (rewrite Hl; apply Z.ltb_lt; exact H). rewrite Hp, H0. auto. }
  destruct m as [|j]; cbn [urefs m_live] in *.
  - pose proof (nlive_nonneg (f_der f)). destruct (Hroot ltac:(lia)) as [H1 H2]. auto.
  - destruct (get_der_ok f j Hw) as [H0 H1]. rewrite H1.
    assert (Hlive: d_live (get_der f j) = true) by (rewrite H1; apply Z.ltb_lt; lia).
    pose proof (der_in_range f j Hu) as Hr.
    assert (1 <= nlive (f_der f)) by (apply (nlive_ge1 _ j Hr); exact Hlive).
    destruct (Hroot ltac:(lia)) as [H2 H3]. repeat split; auto. apply Z.ltb_lt. lia.
Qed.

Theorem put_once f : WF f ->
  (f_puts f = 0 \/ f_puts f = 1) /\ (f_puts f = 1 <-> forall m, urefs f m = 0).
Proof.
  intros Hw. pose proof Hw as (Hd & Hn & Hl & Hp). pose proof (nlive_nonneg (f_der f)) as Hnn.
  split; [rewrite Hp; destruct (f_live f); auto|].
  rewrite Hp, Hl. split.
  - intros H. assert (Hz: f_refs f = 0) by (destruct (Z.ltb_spec 0 (f_refs f)); [discriminate | lia]).
    intros [|j]; cbn [urefs]; [lia|].
    assert (Hn0: nlive (f_der f) = 0) by lia. rewrite nlive_zero in Hn0.
    destruct (get_der_ok f j Hw) as [H0 H1].
    destruct (Nat.lt_ge_cases j (length (f_der f))) as [Hj|Hj].
    + pose proof (Hn0 _ (nth_In _ dead_der Hj)) as Hf. fold (get_der f j) in Hf. rewrite H1 in Hf.
      apply Z.ltb_ge in Hf. lia.
    + unfold get_der. rewrite nth_overflow by exact Hj. reflexivity.
  - intros Hall. pose proof (Hall O) as H0. cbn [urefs] in H0.
    assert (Hn0: nlive (f_der f) = 0).
    { apply nlive_zero. intros d Hin. apply In_nth with (d := dead_der) in Hin. destruct Hin as (j & Hj & <-).
      pose proof (Hall (S j)) as Hj0. cbn [urefs] in Hj0. unfold get_der in Hj0.
      destruct (Hd _ (nth_In _ dead_der Hj)) as [_ Hlive]. rewrite Hlive, Hj0. reflexivity. }
    destruct (Z.ltb_spec 0 (f_refs f)); [lia | reflexivity].
Qed.

(* ---- the operations, specified on the outside reference counts ---- *)
Definition bump (m : nat) (k : Z) (u : nat -> Z) : nat -> Z := fun m' => if Nat.eqb m' m then u m' + k else u m'.

Ltac wf_split := unfold WF; split; [|split; [|split]].

Lemma root_ref_spec f : WF f -> 1 <= f_refs f ->
  exists f', root_ref f = Some f' /\ WF f' /\ f_refs f' = f_refs f + 1 /\ f_der f' = f_der f /\
             f_puts f' = f_puts f /\ f_bytes f' = f_bytes f /\ f_off f' = f_off f /\ f_len f' = f_len f /\
             f_live f' = f_live f.
Proof.
  intros (Hd & Hn & Hl & Hp) H. unfold root_ref.
  destruct (f_refs f + 1 <=? 1) eqn:E; [apply Z.leb_le in E; lia|].
  eexists. split; [reflexivity|]. unfold set_root. cbn [f_refs f_der f_puts f_bytes f_off f_len f_live].
  split; [|repeat split].
  wf_split; cbn [f_refs f_der f_puts f_live]; auto; try lia.
  rewrite Hl. destruct (Z.ltb_spec 0 (f_refs f)), (Z.ltb_spec 0 (f_refs f + 1)); auto; lia.
Qed.
Lemma root_free_spec f : WF f -> 1 <= f_refs f ->
  exists f', root_free f = Some f' /\ f_refs f' = f_refs f - 1 /\ f_der f' = f_der f /\
             f_live f' = (0 <? f_refs f - 1) /\ f_puts f' = (if 0 <? f_refs f - 1 then 0 else 1) /\
             f_bytes f' = f_bytes f /\ f_off f' = f_off f /\ f_len f' = f_len f.
Proof.
  intros (Hd & Hn & Hl & Hp) H. unfold root_free.
  destruct (f_refs f - 1 <? 0) eqn:E; [apply Z.ltb_lt in E; lia|].
  assert (Hlive: f_live f = true) by (rewrite Hl; apply Z.ltb_lt; lia).
  rewrite Hlive in Hp.
  destruct (f_refs f - 1 >? 0) eqn:E2.
  - apply Z.gtb_lt in E2. eexists. split; [reflexivity|]. unfold set_root.
    cbn [f_refs f_der f_puts f_bytes f_off f_len f_live].
    assert (Hpos: (0 <? f_refs f - 1) = true) by (apply Z.ltb_lt; lia). rewrite Hpos. repeat split; auto.
  - assert (Hz: f_refs f - 1 = 0) by (destruct (Z.gtb_spec (f_refs f - 1) 0); [discriminate | lia]).
    eexists. split; [reflexivity|]. unfold set_root.
    cbn [f_refs f_der f_puts f_bytes f_off f_len f_live]. rewrite Hz. cbn [Z.ltb Z.compare]. repeat split; lia.
Qed.

(* set one derived object *)
Lemma set_der_spec f j d' : WF f -> (j < length (f_der f))%nat -> der_ok d' ->
  nlive (f_der f) - b2z (d_live (get_der f j)) + b2z (d_live d') <= f_refs f ->
  WF (set_der f j d') /\
  (forall j', urefs (set_der f j d') (S j') = if Nat.eqb j' j then d_refs d' else urefs f (S j')) /\
  urefs (set_der f j d') O = urefs f O + b2z (d_live (get_der f j)) - b2z (d_live d').
Proof.
  intros Hw Hj Hok Hle. pose proof Hw as (Hd & Hn & Hl & Hp).
  assert (Hnl: nlive (upd j d' (f_der f)) = nlive (f_der f) - b2z (d_live (get_der f j)) + b2z (d_live d')).
  { rewrite nlive_upd by exact Hj. reflexivity. }
  split; [|split].
  - wf_split; unfold set_der; cbn [f_der f_refs f_live f_puts]; auto.
    + apply ders_upd_ok; assumption.
    + rewrite Hnl. exact Hle.
  - intros j'. unfold set_der. cbn [urefs]. unfold get_der. cbn [f_der].
    destruct (Nat.eqb_spec j' j) as [->|Hne].
    + rewrite nth_upd_eq by exact Hj. reflexivity.
    + rewrite nth_upd_neq by congruence. reflexivity.
  - unfold set_der. cbn [urefs f_refs f_der]. rewrite Hnl. lia.
Qed.

Theorem ref_spec f m : WF f -> 1 <= urefs f m ->
  exists f', fam_ref f m = Some f' /\ WF f' /\ f_puts f' = f_puts f /\ f_bytes f' = f_bytes f /\
             forall m', urefs f' m' = bump m 1 (urefs f) m'.
Proof.
  intros Hw Hu. pose proof (nlive_nonneg (f_der f)) as Hnn. destruct m as [|j]; cbn [urefs fam_ref] in *.
  - destruct (root_ref_spec f Hw ltac:(lia)) as (f' & E & Hw' & Hr & Hd & Hp & Hb & _).
    exists f'. split; [exact E|]. split; [exact Hw'|]. split; [exact Hp|]. split; [exact Hb|].
    intros [|j']; unfold bump; cbn [urefs Nat.eqb]; unfold get_der; rewrite ?Hd; lia.
  - pose proof (der_in_range f j Hu) as Hj. destruct (get_der_ok f j Hw) as [H0 H1].
    destruct (d_refs (get_der f j) + 1 <=? 1) eqn:E; [apply Z.leb_le in E; lia|].
    eexists. split; [reflexivity|]. pose proof Hw as (Hd & Hn & Hl & Hp).
    set (d' := mkD (d_refs (get_der f j) + 1) (d_live (get_der f j)) (d_off (get_der f j)) (d_len (get_der f j))).
    assert (Hok: der_ok d').
    { split; cbn [d_refs d_live d']; [lia|]. rewrite H1.
      destruct (Z.ltb_spec 0 (d_refs (get_der f j))), (Z.ltb_spec 0 (d_refs (get_der f j) + 1)); auto; lia. }
    destruct (set_der_spec f j d' Hw Hj Hok) as (Hw' & HS & HO); [cbn [d_live d']; lia|].
    split; [exact Hw'|]. split; [reflexivity|]. split; [reflexivity|].
    intros [|j']; unfold bump; cbn [Nat.eqb].
    + rewrite HO. cbn [d_live d']. lia.
    + rewrite HS. destruct (Nat.eqb_spec j' j) as [->|]; reflexivity.
Qed.

Theorem free_spec f m : WF f -> 1 <= urefs f m ->
  exists f', fam_free f m = Some f' /\ WF f' /\ f_bytes f' = f_bytes f /\
             forall m', urefs f' m' = bump m (-1) (urefs f) m'.
Proof.
  intros Hw Hu. pose proof (nlive_nonneg (f_der f)) as Hnn. pose proof Hw as (Hd & Hn & Hl & Hp).
  destruct m as [|j]; cbn [urefs fam_free] in *.
  - destruct (root_free_spec f Hw ltac:(lia)) as (f' & E & Hr & Hd' & Hl' & Hp' & Hb & _).
    exists f'. split; [exact E|]. split.
    + wf_split; rewrite ?Hd', ?Hr, ?Hl', ?Hp'; auto; lia.
    + split; [exact Hb|]. intros [|j']; unfold bump; cbn [urefs Nat.eqb]; unfold get_der; rewrite ?Hd', ?Hr; lia.
  - pose proof (der_in_range f j Hu) as Hj. destruct (get_der_ok f j Hw) as [H0 H1].
    destruct (d_refs (get_der f j) - 1 <? 0) eqn:E; [apply Z.ltb_lt in E; lia|].
    assert (Hlive: d_live (get_der f j) = true) by (rewrite H1; apply Z.ltb_lt; lia).
    destruct (d_refs (get_der f j) - 1 >? 0) eqn:E2.
    + apply Z.gtb_lt in E2. eexists. split; [reflexivity|].
      set (d' := mkD (d_refs (get_der f j) - 1) (d_live (get_der f j)) (d_off (get_der f j)) (d_len (get_der f j))).
      assert (Hok: der_ok d') by (split; cbn [d_refs d_live d']; [lia | rewrite Hlive; symmetry; apply Z.ltb_lt; lia]).
      destruct (set_der_spec f j d' Hw Hj Hok) as (Hw' & HS & HO); [cbn [d_live d']; lia|].
      split; [exact Hw'|]. split; [reflexivity|].
      intros [|j']; unfold bump; cbn [Nat.eqb].
      * rewrite HO. cbn [d_live d']. lia.
      * rewrite HS. destruct (Nat.eqb_spec j' j) as [->|]; cbn [d_refs d' urefs]; lia.
    + assert (Hone: d_refs (get_der f j) = 1) by (destruct (Z.gtb_spec (d_refs (get_der f j) - 1) 0); [discriminate | lia]).
      assert (Hn1: 1 <= nlive (f_der f)) by (apply (nlive_ge1 _ j Hj); exact Hlive).
      destruct (root_free_spec f Hw ltac:(lia)) as (f1 & E1 & Hr & Hd1 & Hl1 & Hp1 & Hb & _).
      rewrite E1. eexists. split; [reflexivity|].
      set (d' := mkD 0 false (d_off (get_der f j)) (d_len (get_der f j))).
      assert (Hok: der_ok d') by (split; cbn; [lia | reflexivity]).
      assert (Hnl: nlive (upd j d' (f_der f)) = nlive (f_der f) - 1).
      { rewrite nlive_upd by exact Hj. fold (get_der f j). rewrite Hlive. cbn [d_live d']. unfold b2z. lia. }
      split; [|split].
      * wf_split; unfold set_der; cbn [f_der f_refs f_live f_puts]; rewrite ?Hd1, ?Hr, ?Hl1, ?Hp1; auto.
        -- apply ders_upd_ok; assumption.
        -- rewrite Hnl. lia.
      * unfold set_der. cbn [f_bytes]. exact Hb.
      * intros [|j']; unfold bump, set_der; cbn [urefs Nat.eqb f_refs f_der]; rewrite ?Hd1, ?Hr.
        -- rewrite Hnl. lia.
        -- unfold get_der. cbn [f_der]. rewrite ?Hd1. destruct (Nat.eqb_spec j' j) as [->|Hne].
           ++ rewrite nth_upd_eq by exact Hj. cbn [d_refs d']. fold (get_der f j). lia.
           ++ rewrite nth_upd_neq by congruence. reflexivity.
Qed.

Lemma add_der_spec f d : WF f -> der_ok d -> nlive (f_der f) + b2z (d_live d) <= f_refs f ->
  WF (add_der f d) /\ urefs (add_der f d) O = urefs f O - b2z (d_live d) /\
  forall j', urefs (add_der f d) (S j') =
             if Nat.eqb j' (length (f_der f)) then d_refs d else urefs f (S j').
Proof.
  intros Hw Hok Hle. pose proof Hw as (Hd & Hn & Hl & Hp). split; [|split].
  - wf_split; unfold add_der; cbn [f_der f_refs f_live f_puts]; auto.
    + intros x Hin. apply in_app_or in Hin. destruct Hin as [Hin|[<-|[]]]; [apply Hd; exact Hin | exact Hok].
    + rewrite nlive_app. cbn [nlive]. lia.
  - unfold add_der. cbn [urefs f_refs f_der]. rewrite nlive_app. cbn [nlive]. lia.
  - intros j'. unfold add_der. cbn [urefs]. unfold get_der. cbn [f_der].
    destruct (Nat.eqb_spec j' (length (f_der f))) as [->|Hne].
    + rewrite app_nth2 by lia. rewrite Nat.sub_diag. reflexivity.
    + destruct (Nat.lt_ge_cases j' (length (f_der f))) as [Hlt|Hge].
      * rewrite app_nth1 by exact Hlt. reflexivity.
      * rewrite !nth_overflow; [reflexivity | lia | rewrite app_length; cbn; lia].
Qed.

Lemma live_root_refs f m : WF f -> 1 <= urefs f m -> 1 <= f_refs f.
Proof.
  intros Hw Hu. destruct (live_not_returned f m Hw Hu) as (_ & Hl & _).
  destruct Hw as (_ & _ & Hl' & _). rewrite Hl' in Hl. apply Z.ltb_lt in Hl. lia.
Qed.

(* Slice: nothing for an empty range, one more reference on the same object for the full
   range, otherwise a new object holding one reference *)
Theorem slice_spec f m s e : WF f -> 1 <= urefs f m ->
  exists f' r, fam_slice f m s e = Some (f', r) /\ WF f' /\ f_puts f' = f_puts f /\ f_bytes f' = f_bytes f /\
    match r with
    | SEmpty => forall m', urefs f' m' = urefs f m'
    | SSame => forall m', urefs f' m' = bump m 1 (urefs f) m'
    | SNew j => j = length (f_der f) /\ (forall m', urefs f' m' = bump (S j) 1 (urefs f) m') /\
                m_off f' (S j) = m_off f m + s /\ m_len f' (S j) = e - s
    end.
Proof.
  intros Hw Hu. unfold fam_slice. destruct (live_not_returned f m Hw Hu) as (Hml & _ & _). rewrite Hml. cbn [negb].
  destruct (e - s =? 0); [exists f, SEmpty; split; [reflexivity|]; split; [exact Hw|]; repeat split; auto|].
  destruct (e - s =? m_len f m).
  - destruct (ref_spec f m Hw Hu) as (f' & E & Hw' & Hp & Hb & Hur). rewrite E.
    exists f', SSame. split; [reflexivity|]. split; [exact Hw'|]. repeat split; auto.
  - destruct (root_ref_spec f Hw (live_root_refs f m Hw Hu)) as (f1 & E & Hw1 & Hr & Hd & Hp & Hb & Ho & Hle & Hlv).
    rewrite E. set (d := mkD 1 true (m_off f m + s) (e - s)).
    assert (Hok: der_ok d) by (split; cbn; [lia | reflexivity]).
    destruct (add_der_spec f1 d Hw1 Hok) as (Hw2 & HO & HS).
    { rewrite Hd, Hr. cbn [d_live d]. unfold b2z. destruct Hw as (_ & Hn & _). lia. }
    exists (add_der f1 d), (SNew (length (f_der f))).
    split; [reflexivity|]. split; [exact Hw2|]. split; [exact Hp|]. split; [exact Hb|].
    split; [reflexivity|]. split; [|split].
    + intros [|j']; unfold bump; cbn [Nat.eqb].
      * rewrite HO. cbn [urefs d_live d]. rewrite Hr, Hd. unfold b2z. lia.
      * rewrite HS, Hd. destruct (Nat.eqb_spec j' (length (f_der f))) as [->|Hne].
        -- cbn [d_refs d urefs]. unfold get_der. rewrite nth_overflow by lia. reflexivity.
        -- cbn [urefs]. unfold get_der. rewrite Hd. reflexivity.
    + cbn [m_off]. unfold get_der, add_der. cbn [f_der]. rewrite Hd, app_nth2, Nat.sub_diag by lia. reflexivity.
    + cbn [m_len]. unfold get_der, add_der. cbn [f_der]. rewrite Hd, app_nth2, Nat.sub_diag by lia. reflexivity.
Qed.

(* split: the receiver keeps its references and its first n bytes, a new object with one
   reference gets the rest *)
Theorem split_spec f m n : WF f -> 1 <= urefs f m ->
  exists f', fam_split f m n = Some (f', length (f_der f)) /\ WF f' /\ f_puts f' = f_puts f /\
    f_bytes f' = f_bytes f /\ (forall m', urefs f' m' = bump (S (length (f_der f))) 1 (urefs f) m').
Proof.
  intros Hw Hu. unfold fam_split. destruct (live_not_returned f m Hw Hu) as (Hml & _ & _). rewrite Hml. cbn [negb].
  destruct (root_ref_spec f Hw (live_root_refs f m Hw Hu)) as (f1 & E & Hw1 & Hr & Hd & Hp & Hb & Ho & Hle & Hlv).
  rewrite E. set (d := mkD 1 true (m_off f m + n) (m_len f m - n)).
  assert (Hok: der_ok d) by (split; cbn; [lia | reflexivity]).
  destruct (add_der_spec f1 d Hw1 Hok) as (Hw2 & HO & HS).
  { rewrite Hd, Hr. cbn [d_live d]. unfold b2z. destruct Hw as (_ & Hn & _). lia. }
  assert (Hur2: forall m', urefs (add_der f1 d) m' = bump (S (length (f_der f))) 1 (urefs f) m').
  { intros [|j']; unfold bump; cbn [Nat.eqb].
    - rewrite HO. cbn [urefs d_live d]. rewrite Hr, Hd. unfold b2z. lia.
    - rewrite HS, Hd. destruct (Nat.eqb_spec j' (length (f_der f))) as [->|Hne].
      + cbn [d_refs d urefs]. unfold get_der. rewrite nth_overflow by lia. reflexivity.
      + cbn [urefs]. unfold get_der. rewrite Hd. reflexivity. }
  eexists. split; [reflexivity|].
  destruct m as [|j].
  - (* root: only the window changes *)
    split; [|split; [|split]].
    + destruct Hw2 as (A & B & C & D). wf_split; unfold set_root; cbn [f_der f_refs f_live f_puts]; auto.
    + unfold set_root. cbn [f_puts]. exact Hp.
    + unfold set_root. cbn [f_bytes]. exact Hb.
    + intros m'. rewrite <- Hur2. destruct m'; reflexivity.
  - cbn [urefs] in Hu. pose proof (der_in_range f j Hu) as Hj.
    set (f2 := add_der f1 d) in *.
    assert (Hj2: (j < length (f_der f2))%nat) by (unfold f2, add_der; cbn [f_der]; rewrite app_length, Hd; lia).
    set (d2 := mkD (d_refs (get_der f2 j)) (d_live (get_der f2 j)) (d_off (get_der f2 j)) n).
    assert (Hok2: der_ok d2) by (apply (get_der_ok f2 j Hw2)).
    destruct (set_der_spec f2 j d2 Hw2 Hj2 Hok2) as (Hw3 & HS3 & HO3).
    { cbn [d_live d2]. destruct Hw2 as (_ & Hn2 & _). lia. }
    split; [exact Hw3|]. split; [exact Hp|]. split; [exact Hb|].
    intros [|j'].
    + rewrite HO3, Hur2. cbn [d_live d2]. lia.
    + rewrite HS3, <- Hur2. destruct (Nat.eqb_spec j' j) as [->|]; reflexivity.
Qed.

(* read: consuming the whole buffer releases one reference, otherwise only the window moves *)
Theorem read_spec f m n : WF f -> 1 <= urefs f m ->
  exists out f' c, fam_read f m n = Some (out, f', c) /\ WF f' /\ f_bytes f' = f_bytes f /\
    out = firstn (Z.to_nat (Z.min n (m_len f m))) (m_data f m) /\
    (forall m', urefs f' m' = if c then bump m (-1) (urefs f) m' else urefs f m').
Proof.
  intros Hw Hu. unfold fam_read. destruct (live_not_returned f m Hw Hu) as (Hml & _ & _). rewrite Hml. cbn [negb].
  destruct (Z.min n (m_len f m) =? m_len f m).
  - destruct (free_spec f m Hw Hu) as (f' & E & Hw' & Hb & Hur). rewrite E.
    exists (firstn (Z.to_nat (Z.min n (m_len f m))) (m_data f m)), f', true.
    split; [reflexivity|]. split; [exact Hw'|]. repeat split; auto.
  - eexists _, _, false. split; [reflexivity|]. destruct m as [|j].
    + split; [|split; [|split]]; try reflexivity; try (intros [|j']; reflexivity).
      destruct Hw as (A & B & C & D). wf_split; unfold set_root; cbn [f_der f_refs f_live f_puts]; auto.
    + cbn [urefs] in Hu. pose proof (der_in_range f j Hu) as Hj.
      set (d2 := mkD (d_refs (get_der f j)) (d_live (get_der f j)) (d_off (get_der f j) + Z.min n (m_len f (S j)))
                     (d_len (get_der f j) - Z.min n (m_len f (S j)))).
      assert (Hok2: der_ok d2) by (apply (get_der_ok f j Hw)).
      destruct (set_der_spec f j d2 Hw Hj Hok2) as (Hw3 & HS3 & HO3).
      { cbn [d_live d2]. destruct Hw as (_ & Hn2 & _). lia. }
      split; [exact Hw3|]. split; [reflexivity|]. split; [reflexivity|].
      intros [|j'].
      * rewrite HO3. cbn [d_live d2]. lia.
      * rewrite HS3. destruct (Nat.eqb_spec j' j) as [->|]; reflexivity.
Qed.

(* ---- any sequence of operations on one allocation ---- *)
Inductive ev := ERef (m : nat) | EFree (m : nat) | ESlice (m : nat) (s e : Z)
              | ESplit (m : nat) (n : Z) | ERead (m : nat) (n : Z).
Definition ev_mem (e : ev) : nat :=
  match e with ERef m | EFree m | ESlice m _ _ | ESplit m _ | ERead m _ => m end.
Definition fam_step (f : fam) (e : ev) : option fam :=
  match e with
  | ERef m => fam_ref f m
  | EFree m => fam_free f m
  | ESlice m s e' => option_map fst (fam_slice f m s e')
  | ESplit m n => option_map fst (fam_split f m n)
  | ERead m n => option_map (fun r => snd (fst r)) (fam_read f m n)
  end.
(* every operation is applied to an object on which the caller holds a reference *)
Fixpoint fam_run (f : fam) (evs : list ev) : option fam :=
  match evs with
  | [] => Some f
  | e :: r => if 1 <=? urefs f (ev_mem e)
              then match fam_step f e with Some f' => fam_run f' r | None => None end
              else None
  end.
Fixpoint owned (f : fam) (evs : list ev) : bool :=
  match evs with
  | [] => true
  | e :: r => (1 <=? urefs f (ev_mem e)) &&
              match fam_step f e with Some f' => owned f' r | None => true end
  end.

Lemma step_ok f e : WF f -> 1 <= urefs f (ev_mem e) ->
  exists f', fam_step f e = Some f' /\ WF f' /\ f_bytes f' = f_bytes f.
Proof.
  intros Hw Hu. destruct e as [m|m|m s e'|m n|m n]; cbn [ev_mem fam_step] in *.
  - destruct (ref_spec f m Hw Hu) as (f' & E & Hw' & _ & Hb & _). eauto.
  - destruct (free_spec f m Hw Hu) as (f' & E & Hw' & Hb & _). eauto.
  - destruct (slice_spec f m s e' Hw Hu) as (f' & r & E & Hw' & _ & Hb & _). rewrite E. cbn. eauto.
  - destruct (split_spec f m n Hw Hu) as (f' & E & Hw' & _ & Hb & _). rewrite E. cbn. eauto.
  - destruct (read_spec f m n Hw Hu) as (out & f' & c & E & Hw' & Hb & _). rewrite E. cbn. eauto.
Qed.

(* no operation panics, the invariant holds after every sequence, the pooled bytes never change *)
Theorem run_ok : forall evs f, WF f -> owned f evs = true ->
  exists f', fam_run f evs = Some f' /\ WF f' /\ f_bytes f' = f_bytes f.
Proof.
  induction evs as [|e r IH]; intros f Hw Ho; cbn [fam_run owned] in *.
  - eauto.
  - apply andb_true_iff in Ho. destruct Ho as [Hu Ho]. rewrite Hu. apply Z.leb_le in Hu.
    destruct (step_ok f e Hw Hu) as (f1 & E & Hw1 & Hb1). rewrite E in *.
    destruct (IH f1 Hw1 Ho) as (f' & E' & Hw' & Hb'). exists f'. split; [exact E'|]. split; [exact Hw'|]. congruence.
Qed.

(* ================================================================== *)
(* the whole heap: an allocation is put at most once on every model trace *)
Definition Jf (f : fam) : Prop :=
  f_live f = (0 <? f_refs f) /\ f_puts f = (if f_live f then 0 else 1).
Definition Jstep (f f' : fam) : Prop := (Jf f -> Jf f') /\ f_puts f <= f_puts f' /\ f_bytes f' = f_bytes f.

Lemma Jstep_refl f : Jstep f f.
Proof. split; [auto | split; [lia | reflexivity]]. Qed.
Lemma Jstep_trans a b c : Jstep a b -> Jstep b c -> Jstep a c.
Proof. intros (H1 & H2 & B1) (H3 & H4 & B2). split; [auto | split; [lia | congruence]]. Qed.
Lemma Jstep_core f f' : f_refs f' = f_refs f -> f_live f' = f_live f -> f_puts f' = f_puts f ->
  f_bytes f' = f_bytes f -> Jstep f f'.
Proof. intros H1 H2 H3 H4. unfold Jstep, Jf. rewrite H1, H2, H3. split; [auto | split; [lia | exact H4]]. Qed.
Lemma Jstep_root_ref f f' : root_ref f = Some f' -> Jstep f f'.
Proof.
  unfold root_ref. destruct (f_refs f + 1 <=? 1) eqn:E; [discriminate|]. apply Z.leb_gt in E.
  intros H. inversion H; subst. unfold Jstep, Jf, set_root. cbn. split; [|split; [lia | reflexivity]].
  intros [Hl Hp]. split; [|exact Hp]. rewrite Hl.
  destruct (Z.ltb_spec 0 (f_refs f)), (Z.ltb_spec 0 (f_refs f + 1)); auto; lia.
Qed.
Lemma Jstep_root_free f f' : root_free f = Some f' -> Jstep f f'.
Proof.
  unfold root_free. destruct (f_refs f - 1 <? 0) eqn:E; [discriminate|]. apply Z.ltb_ge in E.
  destruct (f_refs f - 1 >? 0) eqn:E2; intros H; inversion H; subst; unfold Jstep, Jf, set_root; cbn.
  - apply Z.gtb_lt in E2. split; [|split; [lia | reflexivity]]. intros [Hl Hp]. split; [|exact Hp]. rewrite Hl.
    destruct (Z.ltb_spec 0 (f_refs f)), (Z.ltb_spec 0 (f_refs f - 1)); auto; lia.
  - split; [|split; [lia | reflexivity]]. intros [Hl Hp]. split; [reflexivity|].
    assert (f_live f = true) by (rewrite Hl; apply Z.ltb_lt; lia). rewrite H0 in Hp. lia.
Qed.
Lemma Jstep_set_der f j d : Jstep f (set_der f j d).
Proof. apply Jstep_core; reflexivity. Qed.
Lemma Jstep_add_der f d : Jstep f (add_der f d).
Proof. apply Jstep_core; reflexivity. Qed.

Lemma Jstep_ref f m f' : fam_ref f m = Some f' -> Jstep f f'.
Proof.
  destruct m as [|j]; cbn [fam_ref]; [apply Jstep_root_ref|].
  destruct (_ <=? 1); [discriminate|]. intros H. inversion H. apply Jstep_set_der.
Qed.
Lemma Jstep_free f m f' : fam_free f m = Some f' -> Jstep f f'.
Proof.
  destruct m as [|j]; cbn [fam_free]; [apply Jstep_root_free|].
  destruct (_ <? 0); [discriminate|]. destruct (_ >? 0).
  - intros H. inversion H. apply Jstep_set_der.
  - destruct (root_free f) as [f1|] eqn:E; [|discriminate]. intros H. inversion H.
    eapply Jstep_trans; [apply Jstep_root_free; exact E | apply Jstep_set_der].
Qed.
Lemma Jstep_slice f m s e f' r : fam_slice f m s e = Some (f', r) -> Jstep f f'.
Proof.
  unfold fam_slice. destruct (negb (m_live f m)); [discriminate|].
  destruct (e - s =? 0); [intros H; inversion H; apply Jstep_refl|].
  destruct (e - s =? m_len f m).
  - destruct (fam_ref f m) eqn:E; [|discriminate]. intros H. inversion H; subst. eapply Jstep_ref; eauto.
  - destruct (root_ref f) eqn:E; [|discriminate]. intros H. inversion H; subst.
    eapply Jstep_trans; [apply Jstep_root_ref; exact E | apply Jstep_add_der].
Qed.
Lemma Jstep_split f m n f' j : fam_split f m n = Some (f', j) -> Jstep f f'.
Proof.
  unfold fam_split. destruct (negb (m_live f m)); [discriminate|].
  destruct (root_ref f) as [f1|] eqn:E; [|discriminate]. intros H. inversion H; subst.
  eapply Jstep_trans; [apply Jstep_root_ref; exact E|].
  eapply Jstep_trans; [apply Jstep_add_der|].
  destruct m; [apply Jstep_core; reflexivity | apply Jstep_set_der].
Qed.
Lemma Jstep_read f m n out f' c : fam_read f m n = Some (out, f', c) -> Jstep f f'.
Proof.
  unfold fam_read. destruct (negb (m_live f m)); [discriminate|].
  destruct (_ =? m_len f m).
  - destruct (fam_free f m) eqn:E; [|discriminate]. intros H. inversion H; subst. eapply Jstep_free; eauto.
  - intros H. inversion H; subst. destruct m; [apply Jstep_core; reflexivity | apply Jstep_set_der].
Qed.

Definition PJ (st : state) : Prop := forall i, (i < length (s_fams st))%nat -> Jf (get_fam st i).
Definition good (st st' : state) : Prop :=
  (PJ st -> PJ st') /\ (forall i, f_puts (get_fam st i) <= f_puts (get_fam st' i)) /\
  (length (s_fams st) <= length (s_fams st'))%nat /\
  (forall i, (i < length (s_fams st))%nat -> f_bytes (get_fam st' i) = f_bytes (get_fam st i)).
Lemma good_refl st : good st st.
Proof. unfold good. split; [auto|]. split; [intros; lia | split; [lia | reflexivity]]. Qed.
Lemma good_trans a b c : good a b -> good b c -> good a c.
Proof.
  intros (H1 & H2 & H3 & B1) (H4 & H5 & H6 & B2). unfold good. split; [auto|]. split; [|split; [lia|]].
  - intros i. specialize (H2 i). specialize (H5 i). lia.
  - intros i Hi. rewrite B2 by lia. apply B1, Hi.
Qed.
Lemma good_same st st' : s_fams st' = s_fams st -> good st st'.
Proof.
  intros E. unfold good, PJ, get_fam. rewrite E. split; [auto|]. split; [intros; lia | split; [lia | reflexivity]].
Qed.
Lemma good_set_fam st i f' : Jstep (get_fam st i) f' -> good st (set_fam st i f').
Proof.
  intros (HJ & Hp & Hb). destruct (Nat.lt_ge_cases i (length (s_fams st))) as [Hi|Hi].
  - unfold good, PJ, get_fam, set_fam in *. cbn [s_fams]. rewrite upd_length. split; [|split; [|split; [lia|]]].
    + intros HP k Hk. destruct (Nat.eq_dec i k) as [->|Hne].
      * rewrite nth_upd_eq by exact Hk. apply HJ, HP, Hk.
      * rewrite nth_upd_neq by exact Hne. apply HP, Hk.
    + intros k. destruct (Nat.eq_dec i k) as [->|Hne].
      * rewrite nth_upd_eq by exact Hi. exact Hp.
      * rewrite nth_upd_neq by exact Hne. lia.
    + intros k Hk. destruct (Nat.eq_dec i k) as [->|Hne].
      * rewrite nth_upd_eq by exact Hi. exact Hb.
      * rewrite nth_upd_neq by exact Hne. reflexivity.
  - apply good_same. unfold set_fam. cbn [s_fams]. apply upd_oob. exact Hi.
Qed.
Lemma good_new_buffer st bytes : good st (fst (new_buffer st bytes)).
Proof.
  unfold new_buffer. destruct (zlen bytes <=? s_thr st); cbn [fst]; [apply good_refl|].
  unfold good, PJ, get_fam. cbn [s_fams]. rewrite app_length. cbn [length]. split; [|split; [|split; [lia|]]].
  - intros HP i Hi. destruct (Nat.lt_ge_cases i (length (s_fams st))) as [Hl|Hl].
    + rewrite app_nth1 by exact Hl. apply HP, Hl.
    + assert (i = length (s_fams st)) by lia. subst i. rewrite app_nth2, Nat.sub_diag by lia.
      unfold Jf, fam_new. cbn. auto.
  - intros i. destruct (Nat.lt_ge_cases i (length (s_fams st))) as [Hl|Hl].
    + rewrite app_nth1 by exact Hl. lia.
    + rewrite (nth_overflow (s_fams st)) by exact Hl. cbn [dead_fam f_puts].
      destruct (Nat.eq_dec i (length (s_fams st))) as [->|Hne].
      * rewrite app_nth2, Nat.sub_diag by lia. cbn. lia.
      * rewrite nth_overflow; [cbn; lia | rewrite app_length; cbn; lia].
  - intros i Hi. rewrite app_nth1 by exact Hi. reflexivity.
Qed.

Lemma good_h_ref st h st' : h_ref st h = Some st' -> good st st'.
Proof.
  destruct h as [|f m|b|]; cbn [h_ref]; try discriminate; try (intros H; inversion H; apply good_refl).
  destruct (fam_ref (get_fam st f) m) eqn:E; [|discriminate]. intros H. inversion H.
  apply good_set_fam. eapply Jstep_ref; eauto.
Qed.
Lemma good_h_free st h st' : h_free st h = Some st' -> good st st'.
Proof.
  destruct h as [|f m|b|]; cbn [h_free]; try discriminate; try (intros H; inversion H; apply good_refl).
  destruct (fam_free (get_fam st f) m) eqn:E; [|discriminate]. intros H. inversion H.
  apply good_set_fam. eapply Jstep_free; eauto.
Qed.
Lemma good_refs_all : forall l st st', refs_all st l = Some st' -> good st st'.
Proof.
  induction l as [|h r IH]; intros st st'; cbn [refs_all]; [intros H; inversion H; apply good_refl|].
  destruct (h_ref st h) eqn:E; [|discriminate]. intros H.
  eapply good_trans; [eapply good_h_ref; eauto | eapply IH; eauto].
Qed.
Lemma good_frees_all : forall l st st', frees_all st l = Some st' -> good st st'.
Proof.
  induction l as [|h r IH]; intros st st'; cbn [frees_all]; [intros H; inversion H; apply good_refl|].
  destruct (h_free st h) eqn:E; [|discriminate]. intros H.
  eapply good_trans; [eapply good_h_free; eauto | eapply IH; eauto].
Qed.
Lemma good_rd_read : forall data st idx n rlen acc st' d' i' l' out,
  rd_read st data idx n rlen acc = Some (st', d', i', l', out) -> good st st'.
Proof.
  induction data as [|h r IH]; intros st idx n rlen acc st' d' i' l' out; cbn [rd_read].
  - intros H. inversion H. apply good_refl.
  - destruct ((n =? 0) || (rlen =? 0)); [intros H; inversion H; apply good_refl|].
    destruct (_ =? zlen (h_data st h)).
    + destruct (h_free st h) eqn:E; [|discriminate]. intros H.
      eapply good_trans; [eapply good_h_free; eauto | eapply IH; eauto].
    + intros H. inversion H. apply good_refl.
Qed.
Lemma good_rd_discard : forall data st idx n rlen st' d' i' l' nl,
  rd_discard st data idx n rlen = Some (st', d', i', l', nl) -> good st st'.
Proof.
  induction data as [|h r IH]; intros st idx n rlen st' d' i' l' nl; cbn [rd_discard].
  - intros H. inversion H. apply good_refl.
  - destruct (negb _); [intros H; inversion H; apply good_refl|].
    destruct (_ >=? zlen (h_data st h)).
    + destruct (h_free st h) eqn:E; [|discriminate]. intros H.
      eapply good_trans; [eapply good_h_free; eauto | eapply IH; eauto].
    + intros H. inversion H. apply good_refl.
Qed.

Lemma good_then_same a b c : good a b -> s_fams c = s_fams b -> good a c.
Proof. intros H E. eapply good_trans; [exact H | apply good_same; exact E]. Qed.

Definition shaped (st st' : state) (o : word) : Prop :=
  o = skip \/ exists meta bytes, o = mk_obs st st' meta bytes.
Ltac done_skip := split; [apply good_refl | left; reflexivity].
Ltac done_obs H := split; [eapply good_then_same; [exact H | reflexivity] | right; eexists _, _; reflexivity].

Lemma apply_op_ok st o :
  good st (fst (apply_op st o)) /\ shaped st (fst (apply_op st o)) (snd (apply_op st o)).
Proof.
  destruct o; cbn [apply_op].
  - (* NewBuffer *)
    destruct ((len <? 0) || (len >? 64)); [done_skip|].
    pose proof (good_new_buffer st (gen_bytes len seed)) as G.
    destruct (new_buffer st (gen_bytes len seed)) as [st1 h]. cbn [fst snd] in *. done_obs G.
  - (* Copy *)
    destruct ((len <? 0) || (len >? 64)); [done_skip|].
    pose proof (good_new_buffer st (gen_bytes len seed)) as G.
    destruct (new_buffer st (gen_bytes len seed)) as [st1 h0]. cbn [fst snd] in *. done_obs G.
  - (* Ref *)
    destruct (is_dead (get_h st h)); [done_skip|].
    destruct (h_ref st (get_h st h)) as [st1|] eqn:E; [|done_skip].
    pose proof (good_h_ref _ _ _ E) as G. cbn [fst snd]. done_obs G.
  - (* Free *)
    destruct (is_dead (get_h st h)); [done_skip|].
    destruct (h_free st (get_h st h)) as [st1|] eqn:E; [|done_skip].
    pose proof (good_h_free _ _ _ E) as G. cbn [fst snd]. done_obs G.
  - (* Slice *)
    destruct (negb _); [done_skip|].
    destruct (get_h st h) as [|f m|b|] eqn:Eh; [done_skip| | |].
    + destruct (fam_slice (get_fam st f) m s e) as [[f' r]|] eqn:E; [|done_skip].
      pose proof (good_set_fam st f f' (Jstep_slice _ _ _ _ _ _ E)) as G. cbn [fst snd]. done_obs G.
    + cbn [fst snd]. done_obs (good_refl st).
    + cbn [fst snd]. done_obs (good_refl st).
  - (* split *)
    destruct (negb _); [done_skip|].
    destruct (get_h st h) as [|f m|b|] eqn:Eh; [done_skip| | |].
    + destruct (fam_split (get_fam st f) m n) as [[f' j]|] eqn:E; [|done_skip].
      pose proof (good_set_fam st f f' (Jstep_split _ _ _ _ _ E)) as G. cbn [fst snd]. done_obs G.
    + cbn [fst snd]. done_obs (good_refl st).
    + cbn [fst snd]. done_obs (good_refl st).
  - (* read *)
    destruct ((n <? 0) || (n >? 64) || negb (exclusive st (get_h st h))); [done_skip|].
    destruct (get_h st h) as [|f m|b|] eqn:Eh; [done_skip| | |].
    + destruct (fam_read (get_fam st f) m n) as [[[out f'] c]|] eqn:E; [|done_skip].
      pose proof (good_set_fam st f f' (Jstep_read _ _ _ _ _ _ E)) as G. cbn [fst snd].
      split; [eapply good_then_same; [exact G | destruct c; reflexivity] | right; eexists _, _; reflexivity].
    + cbn [fst snd]. done_obs (good_refl st).
    + cbn [fst snd]. done_obs (good_refl st).
  - (* data *)
    destruct (is_dead (get_h st h)); [done_skip|]. cbn [fst snd]. done_obs (good_refl st).
  - (* Reader *)
    destruct (existsb is_dead (handles_of st hs)); [done_skip|].
    destruct (refs_all st (handles_of st hs)) as [st1|] eqn:E; [|done_skip].
    pose proof (good_refs_all _ _ _ E) as G. cbn [fst snd]. done_obs G.
  - (* Reader.Read *)
    destruct ((n <? 0) || (n >? 64)); [done_skip|].
    destruct (get_rd st r) as [rd|]; [|done_skip].
    destruct (r_len rd =? 0); [cbn [fst snd]; done_obs (good_refl st)|].
    destruct (rd_read st (r_data rd) (r_idx rd) n (r_len rd) []) as [[[[[st1 d'] i'] l'] out]|] eqn:E; [|done_skip].
    pose proof (good_rd_read _ _ _ _ _ _ _ _ _ _ _ E) as G. cbn [fst snd]. done_obs G.
  - (* Discard *)
    destruct (get_rd st r) as [rd|]; [|done_skip].
    destruct (rd_discard st (r_data rd) (r_idx rd) n (r_len rd)) as [[[[[st1 d'] i'] l'] nl]|] eqn:E; [|done_skip].
    pose proof (good_rd_discard _ _ _ _ _ _ _ _ _ _ E) as G. cbn [fst snd]. done_obs G.
  - (* Close *)
    destruct (get_rd st r) as [rd|]; [|done_skip].
    destruct (frees_all st (r_data rd)) as [st1|] eqn:E; [|done_skip].
    pose proof (good_frees_all _ _ _ E) as G. cbn [fst snd]. done_obs G.
  - (* MaterializeToBuffer *)
    destruct (existsb is_dead (handles_of st hs)); [done_skip|].
    destruct (handles_of st hs) as [|h0 [|h1 rest]] eqn:Eh.
    + cbn [flat_map]. destruct (zlen [] =? 0) eqn:Ez; [cbn [fst snd]; done_obs (good_refl st)|].
      pose proof (good_new_buffer st []) as G.
      destruct (new_buffer st []) as [st1 h]. cbn [fst snd] in *. done_obs G.
    + destruct (h_ref st h0) as [st1|] eqn:E; [|done_skip].
      pose proof (good_h_ref _ _ _ E) as G. cbn [fst snd]. done_obs G.
    + destruct (zlen (flat_map (h_data st) (h0 :: h1 :: rest)) =? 0); [cbn [fst snd]; done_obs (good_refl st)|].
      pose proof (good_new_buffer st (flat_map (h_data st) (h0 :: h1 :: rest))) as G.
      destruct (new_buffer st (flat_map (h_data st) (h0 :: h1 :: rest))) as [st1 h]. cbn [fst snd] in *. done_obs G.
  - (* Peek *)
    destruct (get_rd st r) as [rd|]; [|done_skip].
    destruct (rd_peek st (r_data rd) (r_idx rd) n []); cbn [fst snd]; done_obs (good_refl st).
Qed.

(* ---- observations ---- *)
Lemma take_n_app (s r : list Z) : take_n (length s) (s ++ r) = Some (s, r).
Proof. induction s as [|x s IH]; cbn; [reflexivity|]. rewrite IH. reflexivity. Qed.
Lemma get_bytes_put s r : get_bytes (put_bytes s ++ r) = Some (s, r).
Proof.
  unfold get_bytes, put_bytes. cbn [app].
  destruct (Z.of_nat (length s) <? 0) eqn:E; [apply Z.ltb_lt in E; lia|].
  rewrite Nat2Z.id. apply take_n_app.
Qed.
Lemma get_obs3_mk st st' meta bytes :
  get_obs3 (mk_obs st st' meta bytes) = Some (puts_between st st', meta, bytes).
Proof.
  unfold get_obs3, mk_obs. rewrite get_bytes_put, get_bytes_put.
  replace (put_bytes bytes) with (put_bytes bytes ++ []) by apply app_nil_r.
  rewrite get_bytes_put. reflexivity.
Qed.

Lemma in_puts_between st st' p : In p (puts_between st st') <->
  exists i, p = Z.of_nat i /\ (i < length (s_fams st'))%nat /\ f_puts (get_fam st i) < f_puts (get_fam st' i).
Proof.
  unfold puts_between. rewrite in_flat_map. split.
  - intros (i & Hi & Hp). apply in_seq in Hi. destruct (Z.ltb_spec (f_puts (get_fam st i)) (f_puts (get_fam st' i))).
    + destruct Hp as [<-|[]]. exists i. repeat split; auto; lia.
    + destruct Hp.
  - intros (i & -> & Hi & Hlt). exists i. split; [apply in_seq; lia|].
    destruct (Z.ltb_spec (f_puts (get_fam st i)) (f_puts (get_fam st' i))); [left; reflexivity | lia].
Qed.
Lemma nodup_flat (c : nat -> bool) : forall n a,
  nodup_z (flat_map (fun i => if c i then [Z.of_nat i] else []) (seq a n)) = true.
Proof.
  induction n as [|n IH]; intros a; cbn [seq flat_map]; [reflexivity|].
  destruct (c a); cbn [app]; [|apply IH]. cbn [nodup_z]. rewrite IH, andb_true_r.
  apply negb_true_iff. destruct (existsb _ _) eqn:E; [|reflexivity].
  apply existsb_exists in E. destruct E as (x & Hx & Ex). apply Z.eqb_eq in Ex. subst x.
  apply in_flat_map in Hx. destruct Hx as (i & Hi & Hx). apply in_seq in Hi.
  destruct (c i); [destruct Hx as [Hx|[]]; lia | destruct Hx].
Qed.

Lemma puts_range st i : PJ st -> 0 <= f_puts (get_fam st i) <= 1 /\
  (f_puts (get_fam st i) = 1 -> (i < length (s_fams st))%nat).
Proof.
  intros HP. destruct (Nat.lt_ge_cases i (length (s_fams st))) as [Hi|Hi].
  - destruct (HP i Hi) as [_ Hp]. rewrite Hp. destruct (f_live (get_fam st i)); split; auto; lia.
  - unfold get_fam. rewrite nth_overflow by exact Hi. cbn. split; [lia | discriminate].
Qed.

Definition seen_ok (seen : list Z) (st : state) : Prop :=
  forall p, In p seen -> exists i, p = Z.of_nat i /\ f_puts (get_fam st i) = 1.

Lemma clause1_step st st' seen : PJ st -> good st st' -> seen_ok seen st ->
  (forallb (fun p => negb (existsb (Z.eqb p) seen)) (puts_between st st') && nodup_z (puts_between st st')) = true /\
  seen_ok (puts_between st st' ++ seen) st'.
Proof.
  intros HP (HG & Hmono & Hlen & _) Hs. pose proof (HG HP) as HP'. split.
  - apply andb_true_iff. split; [|apply nodup_flat].
    apply forallb_forall. intros p Hp. apply negb_true_iff.
    destruct (existsb (Z.eqb p) seen) eqn:E; [|reflexivity].
    apply existsb_exists in E. destruct E as (x & Hx & Ex). apply Z.eqb_eq in Ex. subst x.
    apply in_puts_between in Hp. destruct Hp as (i & -> & Hi & Hlt).
    destruct (Hs _ Hx) as (k & Ek & Hk). apply Nat2Z.inj in Ek. subst k.
    pose proof (proj1 (puts_range st' i HP')). lia.
  - intros p Hp. apply in_app_or in Hp. destruct Hp as [Hp|Hp].
    + apply in_puts_between in Hp. destruct Hp as (i & -> & Hi & Hlt). exists i. split; [reflexivity|].
      pose proof (proj1 (puts_range st i HP)). pose proof (proj1 (puts_range st' i HP')). lia.
    + destruct (Hs _ Hp) as (i & -> & Hi). exists i. split; [reflexivity|].
      pose proof (Hmono i). pose proof (proj1 (puts_range st' i HP')). lia.
Qed.

Definition mop_wf (op : word) : bool := match get_mop op with Some _ => true | None => false end.

Lemma word_eqb_refl a : word_eqb a a = true.
Proof. induction a as [|x a IH]; cbn; [reflexivity|]. rewrite Z.eqb_refl, IH. reflexivity. Qed.
Lemma subset_z_refl l : subset_z l l = true.
Proof.
  unfold subset_z. apply forallb_forall. intros x Hx. apply existsb_exists. exists x.
  split; [exact Hx | apply Z.eqb_refl].
Qed.

Lemma buf_bridge : forall ops st seen k, PJ st -> seen_ok seen st -> forallb mop_wf ops = true ->
  exists obs, run_ops st ops = Some obs /\
              forallb (fun c => snd c) (buf_clauses st seen k ops obs) = true.
Proof.
  induction ops as [|op r IH]; intros st seen k HP Hs Hwf.
  - exists []. repeat split.
  - cbn [forallb] in Hwf. apply andb_true_iff in Hwf. destruct Hwf as [Hop Hr].
    unfold mop_wf in Hop. destruct (get_mop op) as [o|] eqn:Eo; [|discriminate].
    destruct (apply_op_ok st o) as (G & Hsh). cbn [run_ops]. rewrite Eo.
    destruct Hsh as [Hsk|(meta & bytes & Hob)].
    + destruct (IH (fst (apply_op st o)) seen (k + 1)) as (obs & Hrun & Hcl); [apply G, HP | | exact Hr |].
      { intros p Hp. destruct (Hs p Hp) as (i & -> & Hi). exists i. split; [reflexivity|].
        destruct G as (HG & Hmono & _ & _). pose proof (Hmono i). pose proof (proj1 (puts_range _ i (HG HP))). lia. }
      rewrite Hrun. eexists. split; [reflexivity|].
      cbn [buf_clauses]. rewrite Eo, Hsk. unfold is_skip. cbn [word_eqb skip Z.eqb andb orb]. exact Hcl.
    + destruct (clause1_step st (fst (apply_op st o)) seen HP G Hs) as (Hc1 & Hs').
      destruct (IH (fst (apply_op st o)) (puts_between st (fst (apply_op st o)) ++ seen) (k + 1)) as (obs & Hrun & Hcl);
        [apply G, HP | exact Hs' | exact Hr |].
      rewrite Hrun. eexists. split; [reflexivity|].
      cbn [buf_clauses]. rewrite Eo, Hob. unfold is_skip, mk_obs at 1 2. cbn [word_eqb skip Z.eqb andb orb].
      rewrite get_obs3_mk. cbn [forallb snd]. rewrite Hc1, !subset_z_refl, word_eqb_refl, Hcl. reflexivity.
Qed.

(* ================================================================== *)
(* pools                                                               *)
Lemma zeros_all n : forallb (Z.eqb 0) (zeros n) = true.
Proof. induction n; cbn; auto. Qed.
Lemma zeros_len n : zlen (zeros n) = Z.of_nat n.
Proof. unfold zlen, zeros. rewrite repeat_length. reflexivity. Qed.
Lemma tier_for_spec : forall tiers n t, tier_for tiers n = Some t -> n <= t /\ In t tiers.
Proof.
  induction tiers as [|x r IH]; intros n t; cbn [tier_for]; [discriminate|].
  destruct (x >=? n) eqn:E.
  - intros H. inversion H; subst. apply Z.geb_le in E. split; [lia | left; reflexivity].
  - intros H. destruct (IH _ _ H). split; [assumption | right; assumption].
Qed.

(* sizedBufferPool.Get / SimpleBufferPool.Get: whatever sync.Pool hands back (any contents,
   capacity at least the tier size), the result has length size, capacity >= size, and, for
   a zeroing pool, only zero bytes in its whole capacity *)
Theorem sized_get_spec rec size dsize zero :
  0 <= size <= dsize -> (forall c, rec = Some c -> dsize <= zlen c) ->
  fst (sized_get rec size dsize zero) = size /\ size <= zlen (snd (sized_get rec size dsize zero)) /\
  (zero = true -> forallb (Z.eqb 0) (snd (sized_get rec size dsize zero)) = true).
Proof.
  intros Hs Hc. unfold sized_get. destruct rec as [c|]; cbn [fst snd].
  - pose proof (Hc c eq_refl). split; [reflexivity|]. split.
    + destruct zero; [rewrite zeros_len; unfold zlen in *; lia | lia].
    + intros ->. apply zeros_all.
  - split; [reflexivity|]. split; [rewrite zeros_len; lia | intros _; apply zeros_all].
Qed.
Lemma page_round_ge size : 0 <= size -> size <= page_round size.
Proof.
  intros H. unfold page_round. pose proof (Z.div_mod (size + 4095) 4096 ltac:(lia)).
  pose proof (Z.mod_pos_bound (size + 4095) 4096 ltac:(lia)). lia.
Qed.
Theorem simple_get_spec rec size zero : 0 <= size ->
  fst (simple_get rec size zero) = size /\ size <= zlen (snd (simple_get rec size zero)) /\
  (zero = true -> forallb (Z.eqb 0) (snd (simple_get rec size zero)) = true).
Proof.
  intros Hs. pose proof (page_round_ge size Hs) as Hp. unfold simple_get.
  destruct rec as [c|]; [destruct (zlen c >=? size) eqn:E|]; cbn [fst snd].
  - apply Z.geb_le in E. split; [reflexivity|]. split.
    + destruct zero; [rewrite zeros_len; unfold zlen in *; lia | lia].
    + intros ->. apply zeros_all.
  - split; [reflexivity|]. split; [rewrite zeros_len; lia | intros _; apply zeros_all].
  - split; [reflexivity|]. split; [rewrite zeros_len; lia | intros _; apply zeros_all].
Qed.

Definition pop_wf (op : word) : bool :=
  match get_pop op with
  | Some (PGet n) => (0 <=? n) && (n <=? 20000)
  | Some (PPut _) => true
  | None => false
  end.
Lemma pool_bridge kind tiers : forall ops, forallb pop_wf ops = true ->
  exists obs, pool_run kind tiers ops = Some obs /\ forallb (fun c => snd c) (pool_clauses ops obs) = true.
Proof.
  induction ops as [|op r IH]; intros Hwf.
  - exists []. split; reflexivity.
  - cbn [forallb] in Hwf. apply andb_true_iff in Hwf. destruct Hwf as [Hop Hr].
    destruct (IH Hr) as (obs & Hrun & Hcl). cbn [pool_run pool_clauses]. rewrite Hrun.
    unfold pop_wf in Hop. unfold pool_step. destruct (get_pop op) as [[n|i]|]; [| |discriminate].
    + rewrite Hop. eexists. split; [reflexivity|]. apply andb_true_iff in Hop.
      destruct Hop as [H0 H1]. apply Z.leb_le in H0.
      unfold pool_get_obs. destruct (pool_tier kind tiers n) as [t|] eqn:Et.
      * assert (n <= t).
        { unfold pool_tier in Et. destruct (kind =? 0); [apply (tier_for_spec _ _ _ Et)|].
          destruct (n =? 0); [discriminate | apply (tier_for_spec _ _ _ Et)]. }
        cbn [forallb snd fst sized_get]. rewrite zeros_all, zeros_len, Z.eqb_refl, Hcl.
        cbn [b2z andb]. rewrite Z2Nat.id by lia.
        assert (Hle: (n <=? t) = true) by (apply Z.leb_le; lia). rewrite Hle, orb_true_r. reflexivity.
      * cbn [forallb snd fst simple_get]. rewrite zeros_all, Z.eqb_refl, Hcl. reflexivity.
    + eexists. split; [reflexivity|]. exact Hcl.
Qed.

(* ================================================================== *)
Definition wf (cfg : word) (ops : list word) : bool :=
  match cfg with
  | [1; thr] => forallb mop_wf ops
  | 2 :: kind :: tiers => forallb pop_wf ops
  | _ => false
  end.
Theorem model_trace_holds cfg ops : wf cfg ops = true ->
  exists obs, run cfg ops = Some obs /\ holds_b cfg ops obs = true.
Proof.
  unfold wf, run, holds_b, clauses. intros H.
  destruct cfg as [|c cfg']; [discriminate|].
  destruct (Z.eq_dec c 1) as [->|N1].
  { destruct cfg' as [|x [|? ?]]; try discriminate.
    destruct (buf_bridge ops (init x) [] 0) as (obs & Hrun & Hcl); [| |exact H|].
    - intros i Hi. cbn in Hi. lia.
    - intros p [].
    - exists obs. split; [exact Hrun | exact Hcl]. }
  destruct (Z.eq_dec c 2) as [->|N2].
  { destruct cfg' as [|x rest]; [discriminate|]. exact (pool_bridge x rest ops H). }
  exfalso. destruct c as [|p|p]; try discriminate.
  repeat (destruct p as [p|p|]; try discriminate); congruence.
Qed.
