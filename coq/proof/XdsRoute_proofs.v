(* Proofs for C46 (engine XdsRoute). *)
From Coq Require Import List ZArith Bool Lia.
From VLib Require Import Codec Machine.
From VModel Require Matchers.
From VModel Require Import XdsRoute.
From VProof Require Matchers_proofs.
Import ListNotations.
Open Scope Z_scope.

(* ---------------------------------------------------------------- strings *)

Lemma str_eqb_spec : forall a b, str_eqb a b = true <-> a = b.
Proof.
  unfold str_eqb. induction a as [|x a IH]; destruct b as [|y b]; simpl; split; intro Hx;
    try reflexivity; try discriminate.
  - apply andb_true_iff in Hx. destruct Hx as [H1 H2]. apply Z.eqb_eq in H1.
    apply IH in H2. subst. reflexivity.
  - inversion Hx; subst. rewrite Z.eqb_refl. simpl. apply IH. reflexivity.
Qed.

Lemma str_eqb_refl : forall a, str_eqb a a = true.
Proof. intro a. apply str_eqb_spec. reflexivity. Qed.

Lemma prefixb_spec : forall p s, prefixb p s = true <-> exists r, s = p ++ r.
Proof.
  induction p as [|x p IH]; intros s; simpl.
  - split; [intros _; exists s; reflexivity | reflexivity].
  - destruct s as [|y s].
    + split; [discriminate | intros [r Hr]; discriminate].
    + rewrite andb_true_iff, Z.eqb_eq, IH. split.
      * intros [-> [r ->]]. exists r. reflexivity.
      * intros [r Hr]. inversion Hr; subst. split; [reflexivity | exists r; reflexivity].
Qed.

Lemma suffixb_spec : forall p s, suffixb p s = true <-> exists r, s = r ++ p.
Proof.
  intros p s. unfold suffixb. rewrite prefixb_spec. split.
  - intros [r Hr]. exists (rev r). rewrite <- (rev_involutive s), Hr, rev_app_distr, rev_involutive.
    reflexivity.
  - intros [r ->]. exists (rev r). apply rev_app_distr.
Qed.

Lemma containsb_spec : forall p s, containsb p s = true <-> exists a b, s = a ++ p ++ b.
Proof.
  intros p s. induction s as [|y s IH]; simpl.
  - rewrite orb_false_r, prefixb_spec. split.
    + intros [r Hr]. exists [], r. exact Hr.
    + intros [a [b Hab]]. destruct a; [exists b; exact Hab | discriminate].
  - rewrite orb_true_iff, prefixb_spec, IH. split.
    + intros [[r Hr] | [a [b Hab]]].
      * exists [], r. exact Hr.
      * exists (y :: a), b. simpl. rewrite Hab. reflexivity.
    + intros [a [b Hab]]. destruct a as [|z a].
      * left. exists b. exact Hab.
      * right. inversion Hab; subst. exists a, b. reflexivity.
Qed.

(* ---------------------------------------------------------------- virtual hosts *)

Definition klt (a b : str) : Prop := mtype a < mtype b \/ (mtype a = mtype b /\ slen a < slen b).
Definition kle (a b : str) : Prop := mtype a < mtype b \/ (mtype a = mtype b /\ slen a <= slen b).

Lemma key_le_spec : forall a b, key_le a b = true <-> kle a b.
Proof.
  intros a b. unfold key_le, kle.
  rewrite orb_true_iff, andb_true_iff, Z.ltb_lt, Z.eqb_eq, Z.leb_le. reflexivity.
Qed.

Lemma klt_not_le : forall a b, klt a b -> key_le b a = false.
Proof.
  intros a b Hlt. destruct (key_le b a) eqn:E; [|reflexivity].
  apply key_le_spec in E. unfold klt, kle in *. lia.
Qed.

Lemma mtype_range : forall d, 0 <= mtype d <= 4.
Proof.
  intro d. unfold mtype. destruct d as [|c r]; [lia|].
  repeat match goal with |- context [if ?b then _ else _] => destruct b end; lia.
Qed.

Lemma mtype_cases : forall d, mtype d = 0 \/ mtype d = 1 \/ mtype d = 2 \/ mtype d = 3 \/ mtype d = 4.
Proof.
  intro d. unfold mtype. destruct d as [|c r]; [lia|].
  repeat match goal with |- context [if ?b then _ else _] => destruct b end; lia.
Qed.

(* first-best of the processed prefix *)
Inductive FB (host : str) (pre : list (Z * str)) : option Z -> Z -> Z -> Prop :=
| FB_none : (forall e, In e pre -> dmatch (snd e) host = false) -> FB host pre None 0 0
| FB_some : forall i d p1 p2, pre = p1 ++ (i, d) :: p2 -> dmatch d host = true ->
    (forall e, In e p1 -> dmatch (snd e) host = true -> klt (snd e) d) ->
    (forall e, In e p2 -> dmatch (snd e) host = true -> kle (snd e) d) ->
    FB host pre (Some i) (mtype d) (slen d).

Lemma vh_loop_invalid : forall host l mv mt ml,
  (exists e, In e l /\ mtype (snd e) = 0) -> vh_loop host l mv mt ml = None.
Proof.
  intros host l. induction l as [|[i d] r IH]; intros mv mt ml [e [Hin He]].
  - destruct Hin.
  - simpl. destruct (mtype d =? 0) eqn:E0; [reflexivity|].
    destruct Hin as [<- | Hin]; [simpl in He; rewrite He in E0; discriminate|].
    destruct (_ || _); apply IH; exists e; auto.
Qed.

Lemma vh_loop_inv : forall host l pre mv mt ml,
  (forall e, In e l -> mtype (snd e) <> 0) ->
  FB host pre mv mt ml ->
  exists mt' ml', FB host (pre ++ l) (vh_loop host l mv mt ml) mt' ml'.
Proof.
  intros host l. induction l as [|[i d] r IH]; intros pre mv mt ml Hval Hfb.
  - rewrite app_nil_r. simpl. eauto.
  - simpl. assert (Hd : mtype d <> 0) by (apply (Hval (i, d)); left; reflexivity).
    destruct (mtype d =? 0) eqn:E0; [apply Z.eqb_eq in E0; contradiction|].
    assert (Hr : forall e, In e r -> mtype (snd e) <> 0) by (intros e He; apply Hval; right; exact He).
    replace (pre ++ (i, d) :: r) with ((pre ++ [(i, d)]) ++ r) by (rewrite <- app_assoc; reflexivity).
    pose proof (mtype_range d) as Hrg.
    destruct ((mt >? mtype d) || ((mt =? mtype d) && (ml >=? slen d)) || negb (dmatch d host)) eqn:Esk.
    + (* skipped: the state is kept *)
      apply IH; [exact Hr|].
      inversion Hfb as [Hnone | i0 d0 p1 p2 Hpre Hm0 Hp1 Hp2]; subst.
      * apply FB_none. intros e He. apply in_app_or in He. destruct He as [He | [<- | []]]; [auto|].
        simpl. destruct (dmatch d host); [|reflexivity].
        rewrite orb_false_r in Esk. apply orb_true_iff in Esk. destruct Esk as [E | E].
        -- apply Z.gtb_lt in E. lia.
        -- apply andb_true_iff in E. destruct E as [E _]. apply Z.eqb_eq in E. lia.
      * apply (FB_some host _ i0 d0 p1 (p2 ++ [(i, d)])); [rewrite <- app_assoc; reflexivity | exact Hm0 | exact Hp1 |].
        intros e He Hme. apply in_app_or in He. destruct He as [He | [<- | []]]; [auto|].
        simpl in *. rewrite Hme in Esk. rewrite orb_false_r in Esk.
        apply orb_true_iff in Esk. destruct Esk as [E | E].
        -- apply Z.gtb_lt in E. left. lia.
        -- apply andb_true_iff in E. destruct E as [E1 E2]. apply Z.eqb_eq in E1.
           apply Z.geb_le in E2. right. lia.
    + (* taken *)
      apply orb_false_iff in Esk. destruct Esk as [Esk Em]. apply negb_false_iff in Em.
      apply orb_false_iff in Esk. destruct Esk as [E1 E2].
      assert (H1 : mt <= mtype d) by (destruct (mt >? mtype d) eqn:E; [discriminate | rewrite Z.gtb_ltb in E; apply Z.ltb_ge in E; lia]).
      assert (H2 : mt = mtype d -> ml < slen d).
      { intro Heq. rewrite Heq, Z.eqb_refl in E2. simpl in E2.
        rewrite Z.geb_leb in E2. apply Z.leb_gt in E2. exact E2. }
      apply IH; [exact Hr|].
      apply (FB_some host _ i d pre []); [reflexivity | exact Em | | intros e []].
      intros e He Hme.
      inversion Hfb as [Hnone | i0 d0 p1 p2 Hpre Hm0 Hp1 Hp2]; subst.
      * rewrite (Hnone e He) in Hme. discriminate.
      * assert (Hd0 : klt d0 d) by (unfold klt; lia).
        apply in_app_or in He. destruct He as [He | [<- | He]].
        -- specialize (Hp1 e He Hme). unfold klt in *. lia.
        -- exact Hd0.
        -- specialize (Hp2 e He Hme). unfold klt, kle in *. lia.
Qed.

(* FindBestMatchingVirtualHost, in the words of the property *)
Lemma find_best_spec : forall host vhs,
  let fl := flat_from 0 vhs in
  ((exists e, In e fl /\ mtype (snd e) = 0) -> find_best host vhs = None) /\
  ((forall e, In e fl -> mtype (snd e) <> 0) ->
   match find_best host vhs with
   | None => forall e, In e fl -> dmatch (snd e) host = false
   | Some i => exists d p1 p2, fl = p1 ++ (i, d) :: p2 /\ dmatch d host = true /\
       (forall e, In e p1 -> dmatch (snd e) host = true -> klt (snd e) d) /\
       (forall e, In e p2 -> dmatch (snd e) host = true -> kle (snd e) d)
   end).
Proof.
  intros host vhs fl. split.
  - intro Hinv. apply vh_loop_invalid. exact Hinv.
  - intro Hval. unfold find_best. fold fl.
    destruct (vh_loop_inv host fl [] None 0 0 Hval) as [mt' [ml' Hfb]].
    { apply FB_none. intros e []. }
    simpl in Hfb. inversion Hfb as [Hnone | i0 d0 p1 p2 Hpre Hm0 Hp1 Hp2].
    + exact Hnone.
    + exists d0, p1, p2. auto.
Qed.

Lemma find_none : forall (A : Type) (f : A -> bool) l, (forall x, In x l -> f x = false) -> find f l = None.
Proof.
  intros A f l. induction l as [|x l IH]; intro Hall; [reflexivity|].
  simpl. rewrite (Hall x (or_introl eq_refl)). apply IH. intros y Hy. apply Hall. right. exact Hy.
Qed.

Lemma find_first : forall (A : Type) (f : A -> bool) p1 x p2,
  (forall y, In y p1 -> f y = false) -> f x = true -> find f (p1 ++ x :: p2) = Some x.
Proof.
  intros A f p1 x p2. induction p1 as [|y p1 IH]; intros Hall Hx; simpl.
  - rewrite Hx. reflexivity.
  - rewrite (Hall y (or_introl eq_refl)). apply IH; [|exact Hx]. intros z Hz. apply Hall. right. exact Hz.
Qed.

(* the loop computes the property's order, stated as an independent checker *)
Lemma find_best_ref : forall host vhs, find_best host vhs = vhost_ref host vhs.
Proof.
  intros host vhs. unfold vhost_ref.
  destruct (find_best_spec host vhs) as [Hinv Hval]. cbv zeta in *.
  set (fl := flat_from 0 vhs) in *.
  destruct (existsb (fun e => mtype (snd e) =? 0) fl) eqn:Eex.
  - apply Hinv. apply existsb_exists in Eex. destruct Eex as [e [He E0]].
    exists e. split; [exact He | apply Z.eqb_eq; exact E0].
  - assert (Hv : forall e, In e fl -> mtype (snd e) <> 0).
    { intros e He E0. assert (existsb (fun e => mtype (snd e) =? 0) fl = true).
      { apply existsb_exists. exists e. split; [exact He | apply Z.eqb_eq; exact E0]. }
      congruence. }
    specialize (Hval Hv). destruct (find_best host vhs) as [i|].
    + destruct Hval as [d [p1 [p2 [Hfl [Hm [Hp1 Hp2]]]]]].
      assert (Hfind : forall P, (forall y, In y p1 -> P y = false) -> P (i, d) = true ->
                                find P fl = Some (i, d)).
      { intros P H1 H2. rewrite Hfl. apply find_first; assumption. }
      rewrite Hfind; [reflexivity | |].
      * intros y Hy. destruct (dmatch (snd y) host) eqn:Emy; [|reflexivity]. simpl.
        unfold is_best. apply not_true_iff_false. intro Hb. rewrite forallb_forall in Hb.
        assert (Hin : In (i, d) fl) by (rewrite Hfl; apply in_or_app; right; left; reflexivity).
        specialize (Hb (i, d) Hin). simpl in Hb. rewrite Hm in Hb. simpl in Hb.
        rewrite (klt_not_le _ _ (Hp1 y Hy Emy)) in Hb. discriminate.
      * simpl. rewrite Hm. simpl. unfold is_best. apply forallb_forall. intros e He.
        destruct (dmatch (snd e) host) eqn:Eme; [|reflexivity]. simpl.
        apply key_le_spec. rewrite Hfl in He. apply in_app_or in He.
        destruct He as [He | [<- | He]].
        -- specialize (Hp1 e He Eme). unfold klt, kle in *. lia.
        -- simpl. unfold kle. lia.
        -- exact (Hp2 e He Eme).
    + rewrite find_none; [reflexivity|]. intros e He. rewrite (Hval e He). reflexivity.
Qed.

(* which (virtual host, domain) pairs the loop visits *)
Lemma in_flat_from : forall vhs k i d,
  In (i, d) (flat_from k vhs) <->
  exists ds, k <= i /\ nth_error vhs (Z.to_nat (i - k)) = Some ds /\ In d ds.
Proof.
  induction vhs as [|ds0 r IH]; intros k i d; simpl.
  - split; [intros [] | intros [ds [_ [Hn _]]]; destruct (Z.to_nat (i - k)); discriminate].
  - rewrite in_app_iff, in_map_iff, IH. split.
    + intros [[x [Hx Hin]] | [ds [Hk [Hn Hin]]]].
      * inversion Hx; subst. exists ds0. replace (i - i) with 0 by lia. simpl. split; [lia | auto].
      * exists ds. split; [lia|]. replace (i - k) with (Z.succ (i - (k + 1))) by lia.
        rewrite Z2Nat.inj_succ by lia. simpl. auto.
    + intros [ds [Hk [Hn Hin]]]. destruct (Z.eq_dec i k) as [-> | Hne].
      * replace (k - k) with 0 in Hn by lia. simpl in Hn. inversion Hn; subst. left. exists d. auto.
      * right. exists ds. split; [lia|]. replace (i - k) with (Z.succ (i - (k + 1))) in Hn by lia.
        rewrite Z2Nat.inj_succ in Hn by lia. simpl in Hn. auto.
Qed.

(* what the four pattern kinds mean *)
Lemma dmatch_meaning : forall d host,
  (mtype d = 4 -> (dmatch d host = true <-> host = d)) /\
  (mtype d = 3 -> exists s, d = star :: s /\ (dmatch d host = true <-> exists r, host = r ++ s)) /\
  (mtype d = 2 -> exists p, d = p ++ [star] /\ (dmatch d host = true <-> exists r, host = p ++ r)) /\
  (mtype d = 1 -> d = [star] /\ dmatch d host = true) /\
  (mtype d = 0 -> dmatch d host = false).
Proof.
  intros d host. unfold dmatch. split; [|split; [|split; [|split]]].
  - intro H. rewrite H. simpl. rewrite str_eqb_spec. split; congruence.
  - intro H. rewrite H. simpl. unfold mtype in H. destruct d as [|c r]; [discriminate|].
    destruct ((c =? star) && match r with [] => true | _ => false end); [discriminate|].
    destruct (c =? star) eqn:Ec.
    + apply Z.eqb_eq in Ec. subst c. exists r. split; [reflexivity|]. simpl. apply suffixb_spec.
    + destruct (last (c :: r) 0 =? star); [discriminate|].
      destruct (existsb (Z.eqb star) (c :: r)); discriminate.
  - intro H. rewrite H. simpl. unfold mtype in H. destruct d as [|c r]; [discriminate|].
    destruct ((c =? star) && match r with [] => true | _ => false end); [discriminate|].
    destruct (c =? star) eqn:Ec; [discriminate|].
    destruct (last (c :: r) 0 =? star) eqn:El.
    + apply Z.eqb_eq in El. exists (removelast (c :: r)). split.
      * rewrite <- El. apply app_removelast_last. discriminate.
      * apply prefixb_spec.
    + destruct (existsb (Z.eqb star) (c :: r)); discriminate.
  - intro H. split; [|rewrite H; reflexivity].
    unfold mtype in H. destruct d as [|c r]; [discriminate|].
    destruct ((c =? star) && match r with [] => true | _ => false end) eqn:E1.
    + apply andb_true_iff in E1. destruct E1 as [Ec Er]. apply Z.eqb_eq in Ec.
      destruct r; [subst; reflexivity | discriminate].
    + destruct (c =? star); [discriminate|]. destruct (last (c :: r) 0 =? star); [discriminate|].
      destruct (existsb (Z.eqb star) (c :: r)); discriminate.
  - intro H. rewrite H. reflexivity.
Qed.

(* ---------------------------------------------------------------- routes *)

Lemma first_match_spec : forall fm rs i method m t,
  match first_match_from fm i rs method m t with
  | None => forall r, In r rs -> route_match_with fm r method m t = false
  | Some (j, r) => exists pre post, rs = pre ++ r :: post /\ j = i + Z.of_nat (length pre) /\
      route_match_with fm r method m t = true /\
      forall r', In r' pre -> route_match_with fm r' method m t = false
  end.
Proof.
  intros fm rs. induction rs as [|r rest IH]; intros i method m t; simpl.
  - intros r [].
  - destruct (route_match_with fm r method m t) eqn:E.
    + exists [], rest. simpl. repeat split; [lia | exact E | intros r' []].
    + specialize (IH (i + 1) method m t).
      destruct (first_match_from fm (i + 1) rest method m t) as [[j r0]|].
      * destruct IH as [pre [post [Hrs [Hj [Hm Hpre]]]]]. exists (r :: pre), post.
        simpl length. rewrite Nat2Z.inj_succ. repeat split; [rewrite Hrs; reflexivity | lia | exact Hm |].
        intros r' [<- | Hr']; [exact E | auto].
      * intros r' [<- | Hr']; [exact E | auto].
Qed.

Lemma route_match_spec : forall r method m t,
  route_match r method m t = true <->
  path_match r method = true /\ (forall h, In h (r_hdrs r) -> hdr_match h m = true) /\
  match r_frac r with None => True | Some f => t <= f end.
Proof.
  intros r method m t. unfold route_match, route_match_with.
  rewrite !andb_true_iff, forallb_forall. unfold frac_match.
  destruct (r_frac r); [rewrite Z.leb_le|]; intuition.
Qed.

Lemma path_match_spec : forall r method,
  (r_pkind r = 2 -> (path_match r method = true <-> Matchers_proofs.lang (r_re r) method)) /\
  (r_ci r = false -> r_pkind r = 1 -> (path_match r method = true <-> method = r_path r)) /\
  (r_ci r = false -> r_pkind r <> 1 -> r_pkind r <> 2 ->
     (path_match r method = true <-> exists rest, method = r_path r ++ rest)).
Proof.
  intros r method. unfold path_match. split; [|split].
  - intro Hk. rewrite Hk. simpl. apply Matchers_proofs.rmatch_spec.
  - intros Hci Hk. rewrite Hk, Hci. simpl. rewrite str_eqb_spec. split; congruence.
  - intros Hci H1 H2. rewrite Hci.
    destruct (r_pkind r =? 2) eqn:E2; [apply Z.eqb_eq in E2; contradiction|].
    destruct (r_pkind r =? 1) eqn:E1; [apply Z.eqb_eq in E1; contradiction|]. apply prefixb_spec.
Qed.

(* the grouped map the C47 header matchers are evaluated on: key -> its values in order *)
Lemma md_get_add : forall m k v k',
  Matchers.md_get (Matchers.md_add m k v) k' =
  if word_eqb k k' then Some (match Matchers.md_get m k with Some vs => vs ++ [v] | None => [v] end)
  else Matchers.md_get m k'.
Proof.
  induction m as [|[k0 vs0] r IH]; intros k v k'; simpl; unfold Matchers.str_eqb.
  - destruct (word_eqb k k'); reflexivity.
  - destruct (word_eqb k0 k) eqn:E0; simpl; unfold Matchers.str_eqb.
    + apply (str_eqb_spec k0 k) in E0. subst k0. destruct (word_eqb k k'); reflexivity.
    + destruct (word_eqb k0 k') eqn:E1.
      * apply (str_eqb_spec k0 k') in E1. subst k0. destruct (word_eqb k k') eqn:E2; [|reflexivity].
        apply (str_eqb_spec k k') in E2. subst. pose proof (str_eqb_refl k') as Hr. unfold str_eqb in Hr. congruence.
      * apply IH.
Qed.

Lemma vals_snoc : forall m k v k',
  vals (m ++ [(k, v)]) k' = vals m k' ++ (if word_eqb k k' then [v] else []).
Proof.
  intros m k v k'. unfold vals, str_eqb. rewrite filter_app, map_app. simpl.
  destruct (word_eqb k k'); reflexivity.
Qed.

Lemma to_mdt_get : forall m k,
  Matchers.md_get (to_mdt m) k = match vals m k with [] => None | vs => Some vs end.
Proof.
  intro m. induction m as [|[k0 v0] m IH] using rev_ind; intro k; [reflexivity|].
  unfold to_mdt. rewrite fold_left_app. simpl. fold (to_mdt m).
  rewrite md_get_add, vals_snoc. destruct (word_eqb k0 k) eqn:E.
  - apply (str_eqb_spec k0 k) in E. subst k0. rewrite IH. destruct (vals m k); reflexivity.
  - rewrite IH, app_nil_r. reflexivity.
Qed.

(* composition with C47: e.g. the exact/prefix/suffix/contains header matchers of a route *)
Lemma hdr_match_simple : forall h m, 1 <= h_kind h <= 4 ->
  (hdr_match h m = true <->
   vals m (h_name h) <> [] /\
   (Matchers_proofs.cmpP (h_kind h) (h_arg h) (Matchers.join (vals m (h_name h))) <-> h_inv h = false)).
Proof.
  intros h m Hk. unfold hdr_match. destruct (h_kind h =? 11) eqn:E; [apply Z.eqb_eq in E; lia|].
  rewrite Matchers_proofs.hdr_simple_spec by exact Hk. rewrite to_mdt_get. split.
  - intros [vs [Hv Hx]]. destruct (vals m (h_name h)) as [|v0 r]; [discriminate|].
    inversion Hv; subst. split; [discriminate | exact Hx].
  - intros [Hne Hx]. destruct (vals m (h_name h)) as [|v0 r]; [contradiction|]. eauto.
Qed.

(* ---------------------------------------------------------------- fraction *)

Lemma frac_match_spec : forall f t, frac_match f t = true <-> t <= f.
Proof. intros. unfold frac_match. apply Z.leb_le. Qed.

(* number of draws 0..n-1 for which p holds *)
Fixpoint count_upto (n : nat) (p : Z -> bool) : Z :=
  match n with
  | O => 0
  | S k => count_upto k p + b2z (p (Z.of_nat k))
  end.

Lemma frac_count : forall f n, 0 <= f ->
  count_upto n (frac_match f) = Z.min (f + 1) (Z.of_nat n).
Proof.
  intros f n Hf. induction n as [|k IH].
  - simpl. lia.
  - cbn [count_upto]. rewrite IH. unfold frac_match.
    rewrite Nat2Z.inj_succ. destruct (Z.of_nat k <=? f) eqn:E; simpl.
    + apply Z.leb_le in E. lia.
    + apply Z.leb_gt in E. lia.
Qed.

Lemma frac_million : forall f, 0 <= f ->
  count_upto (Z.to_nat million) (frac_match f) = Z.min (f + 1) million.
Proof. intros f Hf. rewrite frac_count by exact Hf. rewrite Z2Nat.id; [reflexivity | unfold million; lia]. Qed.

Lemma frac_spec_count : forall f n, 0 <= f ->
  count_upto n (frac_spec f) = Z.min f (Z.of_nat n).
Proof.
  intros f n Hf. induction n as [|k IH].
  - simpl. lia.
  - cbn [count_upto]. rewrite IH. unfold frac_spec.
    rewrite Nat2Z.inj_succ. destruct (Z.of_nat k <? f) eqn:E; simpl.
    + apply Z.ltb_lt in E. lia.
    + apply Z.ltb_ge in E. lia.
Qed.

(* "a runtime fraction of f per million matches exactly f of the million possible
   random draws (so 0 never matches)" is false of the code *)
Lemma frac_exact_refuted :
  (exists f, 0 <= f < million /\ count_upto (Z.to_nat million) (frac_match f) <> f) /\
  (exists t, 0 <= t < million /\ frac_match 0 t = true).
Proof.
  split.
  - exists 0. split; [unfold million; lia|]. rewrite frac_million by lia. unfold million. lia.
  - exists 0. split; [unfold million; lia | reflexivity].
Qed.

(* ---------------------------------------------------------------- weighted pick *)

Lemma sumw_app : forall a b, sumw (a ++ b) = sumw a + sumw b.
Proof. induction a as [|x a IH]; intro b; simpl; [reflexivity | rewrite IH; lia]. Qed.

Lemma sumw_nonneg : forall ws, Forall (fun w => 0 <= w) ws -> 0 <= sumw ws.
Proof. induction 1; simpl; lia. Qed.

Lemma first_gt_spec : forall ws r acc i,
  Forall (fun w => 0 <= w) ws -> acc <= r < acc + sumw ws ->
  exists pre w post, ws = pre ++ w :: post /\ first_gt r acc ws i = i + Z.of_nat (length pre) /\
    acc + sumw pre <= r < acc + sumw pre + w.
Proof.
  induction ws as [|w0 rest IH]; intros r acc i Hnn Hr.
  - simpl in Hr. lia.
  - inversion Hnn as [|x l Hw0 Hrest]; subst. simpl in Hr. simpl.
    destruct (acc + w0 >? r) eqn:E.
    + apply Z.gtb_lt in E. exists [], w0, rest. simpl. repeat split; lia.
    + rewrite Z.gtb_ltb in E. apply Z.ltb_ge in E.
      destruct (IH r (acc + w0) (i + 1) Hrest) as [pre [w [post [Hws [Hi Hint]]]]]; [lia|].
      exists (w0 :: pre), w, post. simpl length. rewrite Nat2Z.inj_succ. simpl sumw.
      repeat split; [rewrite Hws; reflexivity | lia | lia | lia].
Qed.

Lemma eqw_false_sum_pos : forall ws, Forall (fun w => 0 <= w) ws -> eqw ws = false -> 0 < sumw ws.
Proof.
  induction ws as [|a r IH]; intros Hnn He; [discriminate|].
  destruct r as [|b r']; [discriminate|].
  inversion Hnn as [|x l Ha Hr]; subst. inversion Hr as [|x l Hb Hr']; subst.
  cbn [eqw] in He. pose proof (sumw_nonneg _ Hr') as Hs. cbn [sumw fold_right] in *.
  destruct (a =? b) eqn:Eab.
  - simpl in He. specialize (IH Hr He). cbn [sumw fold_right] in IH. lia.
  - apply Z.eqb_neq in Eab. fold (sumw r') in *. lia.
Qed.

Lemma eqw_all_equal : forall ws a, eqw (a :: ws) = true -> forall w, In w ws -> w = a.
Proof.
  induction ws as [|b r IH]; intros a He w Hin; [destruct Hin|].
  cbn [eqw] in He. apply andb_true_iff in He. destruct He as [Eab He]. apply Z.eqb_eq in Eab. subst b.
  destruct Hin as [<- | Hin]; [reflexivity | exact (IH a He w Hin)].
Qed.

(* randomWRR.Next for a draw w >= 0 of the random source *)
Lemma wrr_pick_spec : forall ws w, Forall (fun x => 0 <= x) ws -> ws <> [] ->
  exists j, wrr_pick ws w = Some j /\
   ((eqw ws = true /\ j = w mod slen ws /\ forall x y, In x ws -> In y ws -> x = y) \/
    (eqw ws = false /\ 0 < sumw ws /\
     exists pre x post, ws = pre ++ x :: post /\ j = Z.of_nat (length pre) /\
       sumw pre <= w mod sumw ws < sumw pre + x)).
Proof.
  intros ws w Hnn Hne. unfold wrr_pick. destruct ws as [|a r]; [contradiction|].
  destruct (eqw (a :: r)) eqn:He.
  - eexists. split; [reflexivity|]. left. repeat split.
    intros x y Hx Hy. pose proof (eqw_all_equal r a He) as Hall.
    assert (Hxa : x = a) by (destruct Hx as [<- | Hx]; [reflexivity | auto]).
    assert (Hya : y = a) by (destruct Hy as [<- | Hy]; [reflexivity | auto]). congruence.
  - eexists. split; [reflexivity|]. right. pose proof (eqw_false_sum_pos _ Hnn He) as Hpos.
    split; [reflexivity|]. split; [exact Hpos|].
    pose proof (Z.mod_pos_bound w (sumw (a :: r)) Hpos) as Hm.
    destruct (first_gt_spec (a :: r) (w mod sumw (a :: r)) 0 0 Hnn) as [pre [x [post [Hws [Hi Hint]]]]]; [lia|].
    exists pre, x, post. repeat split; [exact Hws | lia | lia | lia].
Qed.

(* ---------------------------------------------------------------- request hash *)

Definition is_nil {A} (l : list A) : bool := match l with [] => true | _ => false end.
Definition mix (h ph : Z) : Z := Z.lxor (rotl1 h) ph.

Section HashP.
  Variable H : str -> Z.
  Variable RW : str -> str -> str -> str.

  (* the hash contributed by one policy: None = the policy is a no-op for this RPC *)
  Definition pol_hash (chan : Z) (m em : md) (p : hpol) : option Z :=
    if p_chan p then Some chan else
    if suffixb dashbin (p_name p) then None else
    match hash_values m em (p_name p) with [] => None | vs => Some (H (rewrite RW p (join vs))) end.

  (* the policy hashes that are folded: up to and including the first terminal policy
     that produced a hash *)
  Fixpoint eff (chan : Z) (m em : md) (ps : list hpol) : list Z :=
    match ps with
    | [] => []
    | p :: r => match pol_hash chan m em p with
                | None => eff chan m em r
                | Some ph => if p_term p then [ph] else ph :: eff chan m em r
                end
    end.

  Lemma gh_fold : forall ps chan m em hash gen,
    gh H RW chan m em ps hash gen =
    (fold_left mix (eff chan m em ps) hash, gen || negb (is_nil (eff chan m em ps))).
  Proof.
    induction ps as [|p r IH]; intros chan m em hash gen.
    - simpl. rewrite orb_false_r. reflexivity.
    - cbn [gh eff]. unfold pol_hash. destruct (p_chan p).
      + destruct (p_term p).
        * simpl. rewrite orb_true_r. reflexivity.
        * rewrite IH. simpl. rewrite orb_true_r. reflexivity.
      + destruct (suffixb dashbin (p_name p)); [apply IH|].
        destruct (hash_values m em (p_name p)) as [|v vs]; [apply IH|].
        destruct (p_term p).
        * simpl. rewrite orb_true_r. reflexivity.
        * rewrite IH. simpl. rewrite orb_true_r. reflexivity.
  Qed.

  Lemma gen_hash_fold : forall chan m em ps,
    gen_hash H RW chan m em ps = (fold_left mix (eff chan m em ps) 0, negb (is_nil (eff chan m em ps))).
  Proof. intros. unfold gen_hash. rewrite gh_fold. reflexivity. Qed.

  (* the hash depends on the RPC only through the values of the configured headers *)
  Lemma eff_ext : forall ps chan m em m' em',
    (forall p, In p ps -> p_chan p = false -> suffixb dashbin (p_name p) = false ->
       hash_values m em (p_name p) = hash_values m' em' (p_name p)) ->
    eff chan m em ps = eff chan m' em' ps.
  Proof.
    induction ps as [|p r IH]; intros chan m em m' em' Hsame; [reflexivity|].
    cbn [eff]. assert (Hp : pol_hash chan m em p = pol_hash chan m' em' p).
    { unfold pol_hash. destruct (p_chan p) eqn:Ec; [reflexivity|].
      destruct (suffixb dashbin (p_name p)) eqn:Eb; [reflexivity|].
      rewrite (Hsame p (or_introl eq_refl) Ec Eb). reflexivity. }
    rewrite Hp. rewrite (IH chan m em m' em'); [reflexivity|].
    intros q Hq. apply Hsame. right. exact Hq.
  Qed.

  Lemma gen_hash_inputs_only : forall ps chan m em m' em',
    (forall p, In p ps -> p_chan p = false -> suffixb dashbin (p_name p) = false ->
       hash_values m em (p_name p) = hash_values m' em' (p_name p)) ->
    gen_hash H RW chan m em ps = gen_hash H RW chan m' em' ps.
  Proof. intros. rewrite !gen_hash_fold. rewrite (eff_ext ps chan m em m' em'); auto. Qed.

  (* policies after a terminal policy that produced a hash are ignored *)
  Lemma gen_hash_terminal : forall pre p post chan m em,
    p_term p = true -> pol_hash chan m em p <> None ->
    gen_hash H RW chan m em (pre ++ p :: post) = gen_hash H RW chan m em (pre ++ [p]).
  Proof.
    intros pre p post chan m em Ht Hp. rewrite !gen_hash_fold.
    assert (He : eff chan m em (pre ++ p :: post) = eff chan m em (pre ++ [p])).
    { induction pre as [|q pre IH]; simpl.
      - destruct (pol_hash chan m em p); [|contradiction]. rewrite Ht. reflexivity.
      - destruct (pol_hash chan m em q); [|exact IH]. destruct (p_term q); [reflexivity|].
        rewrite IH. reflexivity. }
    rewrite He. reflexivity.
  Qed.

  (* note (not part of the statement): a policy that produces no hash for this RPC - a
     "-bin" header, or a header absent from the RPC - is skipped entirely, even when it is
     terminal and a hash has already been generated: it does not stop the fold *)
  Lemma gen_hash_noop_policy : forall pre p post chan m em,
    pol_hash chan m em p = None ->
    gen_hash H RW chan m em (pre ++ p :: post) = gen_hash H RW chan m em (pre ++ post).
  Proof.
    intros pre p post chan m em Hp. rewrite !gen_hash_fold.
    assert (He : eff chan m em (pre ++ p :: post) = eff chan m em (pre ++ post)).
    { induction pre as [|q pre IH]; simpl.
      - rewrite Hp. reflexivity.
      - destruct (pol_hash chan m em q); [|exact IH]. destruct (p_term q); [reflexivity|].
        rewrite IH. reflexivity. }
    rewrite He. reflexivity.
  Qed.
End HashP.

(* ---------------------------------------------------------------- bridge *)

Lemma select_shape : forall fm H RW chan rs m em ex method t w,
  exists c i j g h tl, select_with fm H RW chan rs m em ex method t w = c :: i :: j :: g :: h :: tl.
Proof.
  intros. unfold select_with.
  destruct (first_match_from fm 0 rs method (match_md m em ex) t) as [[i r]|]; [|eauto 8].
  destruct (negb (r_action r =? 1)); [eauto 8|].
  destruct (gen_hash H RW chan m (if ex then em else []) (r_pols r)) as [h g].
  destruct (r_plugin r); [destruct (wrr_pick (r_ws r) w); [|eauto 8]|]; destruct g; simpl; eauto 8.
Qed.

Definition okc (c : Z * Z * bool) : bool := is9 c || snd c.

Lemma clause_model_ok : forall chan s d,
  forallb okc (clause_op chan s d (snd (apply chan s d))) = true.
Proof.
  intros chan s d. destruct s as [rs vhs m em ex tb rw].
  destruct d; try reflexivity.
  - (* QVhost *) cbn [apply snd clause_op]. rewrite <- find_best_ref.
    destruct (find_best host vhs); unfold okc; cbn [forallb is9 fst snd]; rewrite Z.eqb_refl; reflexivity.
  - (* QFrac *) cbn [apply snd clause_op]. destruct (t =? f) eqn:E; [reflexivity|].
    apply Z.eqb_neq in E. unfold okc. cbn [forallb is9 fst snd]. unfold frac_match, frac_spec.
    destruct (t <=? f) eqn:E1; destruct (t <? f) eqn:E2; try reflexivity.
    + apply Z.leb_le in E1. apply Z.ltb_ge in E2. lia.
    + apply Z.leb_gt in E1. apply Z.ltb_lt in E2. lia.
  - (* QSelect *) cbn [apply snd clause_op]. unfold select.
    destruct (select_shape frac_spec (tbl_get tb) (rw_get rw) (u64 chan) rs m em ex method t w)
      as [c1 [i1 [j1 [g1 [h1 [tl1 E1]]]]]].
    destruct (select_shape frac_match (tbl_get tb) (rw_get rw) (u64 chan) rs m em ex method t w)
      as [c2 [i2 [j2 [g2 [h2 [tl2 E2]]]]]].
    rewrite E1, E2. unfold okc. cbn [forallb is9 fst snd]. rewrite !Z.eqb_refl.
    pose proof (str_eqb_refl tl2) as Hr. unfold str_eqb in Hr. rewrite Hr. cbn [andb].
    rewrite !orb_true_r. reflexivity.
  - (* QMatch *) cbn [apply snd clause_op]. unfold okc, route_match. cbn [forallb is9 fst snd].
    pose proof (str_eqb_refl (map (fun r => b2z (route_match_with frac_match r method m t)) rs)) as Hr.
    unfold str_eqb in Hr. rewrite Hr. rewrite orb_true_r. reflexivity.
Qed.

Lemma forallb_filter : forall (A : Type) (p q : A -> bool) l,
  forallb p l = true -> forallb p (filter q l) = true.
Proof.
  intros A p q l. induction l as [|x l IH]; intro Hx; [reflexivity|].
  simpl in Hx. apply andb_true_iff in Hx. destruct Hx as [H1 H2]. simpl.
  destruct (q x); simpl; [rewrite H1|]; auto.
Qed.

Lemma run_from_holds : forall ops chan s, forallb op_wf ops = true ->
  exists obs, run_from chan s ops = Some obs /\ forallb okc (clauses_from chan s ops obs) = true.
Proof.
  induction ops as [|op r IH]; intros chan s Hwf.
  - exists []. split; reflexivity.
  - simpl in Hwf. apply andb_true_iff in Hwf. destruct Hwf as [Hop Hr].
    unfold op_wf in Hop. destruct (decode op) as [d|] eqn:Ed; [|discriminate].
    destruct (IH chan (fst (apply chan s d)) Hr) as [obs [Hrun Hcl]].
    exists (snd (apply chan s d) :: obs). split.
    + cbn [run_from]. unfold step. rewrite Ed. destruct (apply chan s d) as [s' o]. simpl in *.
      rewrite Hrun. reflexivity.
    + cbn [clauses_from]. rewrite Ed. rewrite forallb_app, clause_model_ok, Hcl. reflexivity.
Qed.

Lemma model_trace_holds : forall chan ops, forallb op_wf ops = true ->
  exists obs, run [chan] ops = Some obs /\ holds_b [chan] ops obs = true.
Proof.
  intros chan ops Hwf. destruct (run_from_holds ops chan st0 Hwf) as [obs [Hrun Hcl]].
  exists obs. split; [exact Hrun|]. unfold holds_b, clauses. fold okc.
  rewrite forallb_app. rewrite !forallb_filter by exact Hcl. reflexivity.
Qed.

(* the known-finding clause is false on the model's own trace: the property's sentence
   about fractions does not hold of the code *)
Lemma clause9_refuted :
  run [0] [[2; 0; 0]] = Some [[1]] /\ clauses [0] [[2; 0; 0]] [[1]] = [(9, 0, false)].
Proof. vm_compute. split; reflexivity. Qed.

(* ---------------------------------------------------------------- SelectConfig *)

Lemma select_ok_spec : forall H RW chan rs m em ex method t w i j g h tail,
  select H RW chan rs m em ex method t w = 0 :: i :: j :: g :: h :: tail ->
  exists pre r post, rs = pre ++ r :: post /\ i = Z.of_nat (length pre) /\
    route_match r method (match_md m em ex) t = true /\
    (forall r', In r' pre -> route_match r' method (match_md m em ex) t = false) /\
    r_action r = 1 /\
    ((r_plugin r = [] /\ wrr_pick (r_ws r) w = Some j /\ tail = []) \/
     (r_plugin r <> [] /\ j = -1 /\ tail = put_bytes (r_plugin r))) /\
    g = b2z (snd (gen_hash H RW chan m (if ex then em else []) (r_pols r))) /\
    (g = 1 -> h = i64 (fst (gen_hash H RW chan m (if ex then em else []) (r_pols r)))).
Proof.
  intros H RW chan rs m em ex method t w i j g h tail. unfold select, select_with.
  pose proof (first_match_spec frac_match rs 0 method (match_md m em ex) t) as Hfm.
  destruct (first_match_from frac_match 0 rs method (match_md m em ex) t) as [[i0 r]|]; [|discriminate].
  destruct Hfm as [pre [post [Hrs [Hi [Hm Hpre]]]]].
  destruct (r_action r =? 1) eqn:Ea; [|discriminate]. cbn [negb]. apply Z.eqb_eq in Ea.
  destruct (gen_hash H RW chan m (if ex then em else []) (r_pols r)) as [hh gg] eqn:Eg.
  assert (Hfin : forall jj tt, 
     ((r_plugin r = [] /\ wrr_pick (r_ws r) w = Some jj /\ tt = []) \/
      (r_plugin r <> [] /\ jj = -1 /\ tt = put_bytes (r_plugin r))) ->
     (if gg then [0; i0; jj; 1; i64 hh] else [0; i0; jj; 0; 0]) ++ tt = 0 :: i :: j :: g :: h :: tail ->
     exists pre0 r0 post0, rs = pre0 ++ r0 :: post0 /\ i = Z.of_nat (length pre0) /\
       route_match r0 method (match_md m em ex) t = true /\
       (forall r', In r' pre0 -> route_match r' method (match_md m em ex) t = false) /\
       r_action r0 = 1 /\
       ((r_plugin r0 = [] /\ wrr_pick (r_ws r0) w = Some j /\ tail = []) \/
        (r_plugin r0 <> [] /\ j = -1 /\ tail = put_bytes (r_plugin r0))) /\
       g = b2z (snd (gen_hash H RW chan m (if ex then em else []) (r_pols r0))) /\
       (g = 1 -> h = i64 (fst (gen_hash H RW chan m (if ex then em else []) (r_pols r0))))).
  { intros jj tt Hpick Heq. exists pre, r, post. rewrite Eg. cbn [fst snd].
    destruct gg; cbn [app] in Heq; inversion Heq; subst; cbn [b2z].
    - split; [reflexivity|]. split; [lia|]. split; [exact Hm|]. split; [exact Hpre|]. split; [exact Ea|].
      split; [exact Hpick|]. split; [reflexivity | intros _; reflexivity].
    - split; [reflexivity|]. split; [lia|]. split; [exact Hm|]. split; [exact Hpre|]. split; [exact Ea|].
      split; [exact Hpick|]. split; [reflexivity | intro Hx; discriminate]. }
  destruct (r_plugin r) as [|c0 nm] eqn:Ep.
  - destruct (wrr_pick (r_ws r) w) as [j0|] eqn:Ew; [|discriminate].
    intro Heq. apply (Hfin j0 []); [left; auto | exact Heq].
  - intro Heq. apply (Hfin (-1) (put_bytes (c0 :: nm))); [right; repeat split; auto; discriminate | exact Heq].
Qed.

Lemma select_none_spec : forall H RW chan rs m em ex method t w,
  (forall r, In r rs -> route_match r method (match_md m em ex) t = false) <->
  select H RW chan rs m em ex method t w = [1; 0; 0; 0; 0].
Proof.
  intros H RW chan rs m em ex method t w. unfold select, select_with.
  pose proof (first_match_spec frac_match rs 0 method (match_md m em ex) t) as Hfm.
  destruct (first_match_from frac_match 0 rs method (match_md m em ex) t) as [[i0 r]|].
  - destruct Hfm as [pre [post [Hrs [Hi [Hm Hpre]]]]]. split.
    + intro Hall. unfold route_match in Hall. rewrite (Hall r) in Hm; [discriminate|].
      rewrite Hrs. apply in_or_app. right. left. reflexivity.
    + destruct (negb (r_action r =? 1)); [discriminate|].
      destruct (gen_hash H RW chan m (if ex then em else []) (r_pols r)) as [hh gg].
      destruct (r_plugin r); [destruct (wrr_pick (r_ws r) w); [|discriminate]|]; destruct gg; discriminate.
  - split; [reflexivity | intros _; exact Hfm].
Qed.
