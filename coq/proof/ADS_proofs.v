From Coq Require Import List ZArith Bool Lia.
From VLib Require Import Codec Machine.
From VModel Require Import ADS.
Import ListNotations.
Open Scope Z_scope.

(* ---------- small facts ---------- *)

Lemma list_eqb_refl l : list_eqb l l = true.
Proof. induction l as [|x l IH]; cbn; [reflexivity|]. rewrite Z.eqb_refl, IH. reflexivity. Qed.

Lemma take_words_app a b : take_words (length a) (a ++ b) = Some (a, b).
Proof. induction a as [|x a IH]; cbn; [reflexivity|]. rewrite IH. reflexivity. Qed.

Lemma upd_same f t v : upd f t v t = v.
Proof. unfold upd. rewrite Z.eqb_refl. reflexivity. Qed.
Lemma upd_other f t v x : x <> t -> upd f t v x = f x.
Proof. unfold upd. intro H. destruct (x =? t) eqn:E; [apply Z.eqb_eq in E; contradiction|reflexivity]. Qed.

(* ---------- requests emitted by the sending primitives ---------- *)

(* a request word of type t built from the type state x *)
Definition req_of (sidv t : Z) (x : tst) (e : Z) (names : list Z) : word :=
  [sidv; t; tver x; tnonce x; e] ++ names.

(* what sending never changes *)
Definition same_but_first (s s' : st) : Prop :=
  ts s' = ts s /\ pend s' = pend s /\ live s' = live s /\ sid s' = sid s /\
  sender s' = sender s /\ blocked s' = blocked s.

Lemma send_all_spec : forall q s s' o, send_all s q = (s', o) ->
  same_but_first s s' /\
  fst o = map (fun e => req_of (sid s) (fst e) (ts s (fst e)) 0 (snd e)) q /\
  length (snd o) = length q /\
  first_only (first s) (snd o) = true /\
  first s' = (match q with [] => first s | _ => false end).
Proof.
  induction q as [|[t ns] q IH]; intros s s' o H; cbn [send_all] in H.
  - inversion H; subst. cbn. unfold same_but_first. repeat split; reflexivity.
  - unfold send_on in H.
    destruct (send_all _ q) as [s2 o2] eqn:E. inversion H; subst s' o; clear H.
    apply IH in E. cbn [ts pend live sid sender blocked first] in E.
    destruct E as ((E1 & E2 & E3 & E4 & E5 & E6) & Ereq & Elen & Efirst & Ef').
    split; [unfold same_but_first; repeat split; assumption|].
    cbn [oapp fst snd app map length first_only]. rewrite Ereq, Elen, Z.eqb_refl, Efirst.
    repeat split; try reflexivity.
    destruct q; [assumption|assumption].
Qed.

(* ---------- the invariant linking model state and monitor ---------- *)

Record R (s : st) (m : mon) : Prop := mkR {
  r_subs : forall t, m_subs m t = tnames (ts s t);
  r_has : forall t, m_has m t = thas (ts s t);
  r_av : forall t, m_av m t = tver (ts s t);
  r_ln : forall t, m_ln m t = tnonce (ts s t);
  r_fresh : m_fresh m = first s;
  r_owed : m_owed m = (blocked s =? 1);
  r_live : m_live m = live s;
  r_sid : m_sid m = sid s;
  r_dead : m_dead m = false;
  r_blk : blocked s = 0 \/ blocked s = 1;
  r_pend : sender s = 1 -> pend s = [];
  r_send : live s = true -> sender s = 1;
  r_nohas : forall t, thas (ts s t) = false -> tnonce (ts s t) = 0;
  r_nonames : forall t, thas (ts s t) = false -> tnames (ts s t) = [];
  r_types : forall t, thas (ts s t) = true -> In t all_types
}.

Lemma R_init : R init mon_init.
Proof.
  constructor; cbn; try reflexivity; try (left; reflexivity); try discriminate.
  - intro t. unfold updf, upd. destruct (t =? 3); reflexivity.
  - intro t. unfold updf, upd. destruct (t =? 3); reflexivity.
  - intro t. unfold upd. destruct (t =? 3); reflexivity.
  - intro t. unfold upd. destruct (t =? 3); reflexivity.
  - intro t. unfold upd. destruct (t =? 3); reflexivity.
  - intro t. unfold upd. destruct (t =? 3); [discriminate|reflexivity].
  - intro t. unfold upd. destruct (t =? 3) eqn:E; cbn; [|discriminate].
    apply Z.eqb_eq in E. subst. intros _. right; right; right; left; reflexivity.
Qed.

Definition all_true (l : list (Z * Z * bool)) : bool := forallb (fun c => snd c) l.

Lemma all_true_app a b : all_true (a ++ b) = all_true a && all_true b.
Proof. apply forallb_app. Qed.

(* well-formed ops for the bridge theorem: what the driver can realise deterministically,
   minus the unknown-type response (after it the client never reads again: see unknown_type_* below) *)
Definition aop_wf (a : aop) : bool :=
  match a with
  | AQSub _ _ | AQUnsub _ _ | AFlush => false
  | AResp t _ _ _ => (0 <=? t) && (t <? 4)
  | _ => true
  end.
Definition op_wf (w : word) : bool := aop_wf (decode w).

(* result of one step in the shape the monitor consumes *)
Definition step_ok (slow : bool) (s : st) (m : mon) (i : Z) (a : aop) : Prop :=
  exists s' ap rw outst flags reqs m' cl,
    step slow s a = (s', ([ap; rw; outst] ++ flags) :: reqs) /\
    length flags = length reqs /\
    mon_step slow m i a (z2b ap) rw outst flags reqs = (m', cl) /\
    all_true cl = true /\ R s' m'.

Lemma eqb_b2z (b : bool) : (b2z b =? 1) = b.
Proof. destruct b; reflexivity. Qed.
Lemma z2b_b2z (b : bool) : z2b (b2z b) = b.
Proof. destruct b; reflexivity. Qed.

Lemma recvw_R s m : R s m -> (recvw s =? 1) = (live s && negb (m_owed m)).
Proof.
  intro H. unfold recvw. rewrite eqb_b2z, (r_owed _ _ H).
  destruct (r_blk _ _ H) as [E|E]; rewrite E; reflexivity.
Qed.

Lemma c7_ok s m : R s m -> Bool.eqb (m_live m && negb (m_owed m)) (recvw s =? 1) = true.
Proof. intro H. rewrite (recvw_R _ _ H), (r_live _ _ H). apply eqb_reflx. Qed.

(* an op that is not applied *)
Lemma step_ok_noop slow s m i a : R s m ->
  step slow s a = (s, hdr false s 0 ([], [])) -> step_ok slow s m i a.
Proof.
  intros HR Hs. unfold step_ok, hdr in *. cbn [fst snd app] in Hs.
  eexists s, 0, (recvw s), 0, [], [], _, _. split; [exact Hs|]. split; [reflexivity|].
  unfold mon_step, mon_op. cbn [z2b Z.eqb negb andb flat_map app].
  split; [reflexivity|]. split; [|exact HR].
  cbn [all_true forallb snd andb negb]. rewrite (r_dead _ _ HR).
  cbn [forallb snd]. rewrite (c7_ok _ _ HR). cbn [first_only].
  rewrite !andb_true_r. change (0 <? 0) with false. rewrite andb_false_r. reflexivity.
Qed.

(* subscribe / unsubscribe followed by the sender *)
Lemma step_ok_names slow s m i a t ns hf :
  R s m -> (0 <= t <= 2) -> (forall x, hf x = updf (m_has m) t true x) ->
  step slow s a = (let '(s', o) := flush (set_names s t ns) in (s', hdr true s' 0 o)) ->
  mon_op slow m a true 0 =
    (mkM (updf (m_subs m) t ns) hf (m_av m) (m_ln m)
         (m_fresh m) (m_owed m) (m_live m) (m_sid m) (m_dead m), -1) ->
  reads a = false -> is_unknown a = false ->
  step_ok slow s m i a.
Proof.
  intros HR Ht Hhf Hs Hm Hrd Hun. unfold step_ok.
  set (s1 := set_names s t ns) in *.
  assert (Hts1: forall x, ts s1 x = if x =? t then mkT (tver (ts s t)) (tnonce (ts s t)) ns true else ts s x).
  { intro x. unfold s1, set_names. cbn [ts]. unfold upd. reflexivity. }
  set (m1 := mkM (updf (m_subs m) t ns) hf (m_av m) (m_ln m)
         (m_fresh m) (m_owed m) (m_live m) (m_sid m) (m_dead m)) in *.
  (* R for s1-with-any-pend-and-first, proved per flush branch below *)
  assert (Hsubs: forall x, m_subs m1 x = tnames (ts s1 x)).
  { intro x. rewrite Hts1. unfold m1, updf. cbn [m_subs]. destruct (x =? t); [reflexivity|apply (r_subs _ _ HR)]. }
  assert (Hhas: forall x, m_has m1 x = thas (ts s1 x)).
  { intro x. rewrite Hts1. unfold m1. cbn [m_has]. rewrite Hhf. unfold updf. destruct (x =? t); [reflexivity|apply (r_has _ _ HR)]. }
  assert (Hav: forall x, m_av m1 x = tver (ts s1 x)).
  { intro x. rewrite Hts1. unfold m1. cbn [m_av]. rewrite (r_av _ _ HR).
    destruct (x =? t) eqn:E; [apply Z.eqb_eq in E; subst; reflexivity|reflexivity]. }
  assert (Hln: forall x, m_ln m1 x = tnonce (ts s1 x)).
  { intro x. rewrite Hts1. unfold m1. cbn [m_ln]. rewrite (r_ln _ _ HR).
    destruct (x =? t) eqn:E; [apply Z.eqb_eq in E; subst; reflexivity|reflexivity]. }
  assert (Hnohas: forall x, thas (ts s1 x) = false -> tnonce (ts s1 x) = 0).
  { intro x. rewrite Hts1. destruct (x =? t); [discriminate|apply (r_nohas _ _ HR)]. }
  assert (Hnonames: forall x, thas (ts s1 x) = false -> tnames (ts s1 x) = []).
  { intro x. rewrite Hts1. destruct (x =? t); [discriminate|apply (r_nonames _ _ HR)]. }
  assert (Htypes: forall x, thas (ts s1 x) = true -> In x all_types).
  { intro x. rewrite Hts1. destruct (x =? t) eqn:E; [|apply (r_types _ _ HR)].
    apply Z.eqb_eq in E. subst. intros _. unfold all_types.
    assert (Hc: t = 0 \/ t = 1 \/ t = 2) by lia. destruct Hc as [Hc|[Hc|Hc]]; subst t; cbn; tauto. }
  unfold flush in Hs.
  assert (Hsend1: sender s1 = sender s) by reflexivity.
  assert (Hpend1: pend s1 = pend s ++ [(t, ns)]) by reflexivity.
  rewrite Hsend1 in Hs.
  destruct (sender s =? 1) eqn:E1.
  - (* the sender has a working stream: exactly this request goes out *)
    apply Z.eqb_eq in E1. rewrite Hpend1, (r_pend _ _ HR E1) in Hs. cbn [app] in Hs.
    destruct (send_all s1 [(t, ns)]) as [s2 o] eqn:Es.
    apply send_all_spec in Es.
    destruct Es as ((F1 & F2 & F3 & F4 & F5 & F6) & Ereq & Elen & Efirst & Ef').
    cbn [map fst snd] in Ereq.
    destruct o as [rq fl]. cbn [fst snd] in *.
    destruct fl as [|f [|f2 fl]]; cbn [length] in Elen; try discriminate.
    subst rq. unfold hdr in Hs. cbn [fst snd] in Hs.
    eexists _, 1, _, 0, [f], _, _, _. split; [exact Hs|]. split; [reflexivity|].
    unfold mon_step. cbn [z2b Z.eqb negb]. rewrite Hm. fold m1.
    split; [reflexivity|].
    assert (HR2: R (set_pend s2 [])
       (mkM (m_subs m1) (m_has m1) (m_av m1) (m_ln m1) false (m_owed m1) (m_live m1) (m_sid m1) (m_dead m1))).
    { constructor; cbn [m_subs m_has m_av m_ln m_fresh m_owed m_live m_sid m_dead set_pend ts pend first live sid sender blocked];
        rewrite ?F1, ?F3, ?F4, ?F5, ?F6; try assumption.
      - symmetry; exact Ef'.
      - apply (r_owed _ _ HR).
      - apply (r_live _ _ HR).
      - apply (r_sid _ _ HR).
      - apply (r_dead _ _ HR).
      - apply (r_blk _ _ HR).
      - reflexivity.
      - apply (r_send _ _ HR). }
    split; [|exact HR2].
    rewrite Hrd, Hun. cbn [andb negb all_true forallb snd flat_map app req_clauses req_of].
    subst m1. cbn [m_sid m_av m_ln m_subs m_owed m_fresh m_dead m_live m_has] in *.
    change (0 <? 0) with false. rewrite andb_false_r. cbn [negb andb].
    change (sid s1) with (sid s). rewrite (r_sid _ _ HR), Z.eqb_refl.
    rewrite <- Hav, <- Hln. rewrite !Z.eqb_refl.
    unfold updf at 1. rewrite Z.eqb_refl, list_eqb_refl.
    assert (Hne: (t =? -1) = false) by (apply Z.eqb_neq; lia). rewrite Hne. cbn [Z.eqb andb].
    cbn [first_only] in Efirst |- *. change (first s1) with (first s) in Efirst.
    rewrite (r_fresh _ _ HR), Efirst. cbn [andb].
    rewrite (r_dead _ _ HR). cbn [forallb snd].
    pose proof (c7_ok _ _ HR2) as H7. cbn [m_live m_owed] in H7.
    rewrite H7. reflexivity.
  - (* no working stream: nothing is sent *)
    assert (Hfin: forall s2, ts s2 = ts s1 -> first s2 = first s -> live s2 = live s -> sid s2 = sid s ->
              blocked s2 = blocked s -> sender s2 <> 1 ->
              step slow s a = (s2, hdr true s2 0 ([], [])) ->
              exists s' ap rw outst flags reqs m' cl,
                step slow s a = (s', ([ap; rw; outst] ++ flags) :: reqs) /\
                length flags = length reqs /\
                mon_step slow m i a (z2b ap) rw outst flags reqs = (m', cl) /\
                all_true cl = true /\ R s' m').
    { intros s2 G1 G2 G3 G4 G5 G6 Hs2. unfold hdr in Hs2. cbn [fst snd app] in Hs2.
      eexists _, 1, _, 0, [], [], _, _. split; [exact Hs2|]. split; [reflexivity|].
      unfold mon_step. cbn [z2b Z.eqb negb]. rewrite Hm. fold m1.
      split; [reflexivity|].
      assert (HR2: R s2 m1).
      { constructor; rewrite ?G1, ?G2, ?G3, ?G4, ?G5; try assumption.
        - apply (r_fresh _ _ HR).
        - apply (r_owed _ _ HR).
        - apply (r_live _ _ HR).
        - apply (r_sid _ _ HR).
        - apply (r_dead _ _ HR).
        - apply (r_blk _ _ HR).
        - intro; contradiction.
        - intro Hl. apply (r_send _ _ HR) in Hl. apply Z.eqb_neq in E1. contradiction. }
      split; [|exact HR2].
      rewrite Hrd, Hun. cbn [andb negb all_true forallb snd flat_map app first_only].
      change (0 <? 0) with false. rewrite andb_false_r. cbn [negb andb].
      pose proof (c7_ok _ _ HR2) as H7.
      subst m1. cbn [m_dead m_live m_owed] in *. rewrite (r_dead _ _ HR). cbn [forallb snd].
      rewrite H7. reflexivity. }
    destruct (sender s =? 2) eqn:E2.
    + rewrite Hpend1 in Hs. destruct (pend s ++ [(t, ns)]) eqn:Ep.
      { destruct (pend s); discriminate. }
      eapply Hfin; [| | | | | |exact Hs]; try reflexivity. cbn. lia.
    + eapply Hfin; [| | | | | |exact Hs]; try reflexivity.
      rewrite Hsend1. apply Z.eqb_neq in E1. exact E1.
Qed.

(* sendExisting *)
Lemma send_existing_spec : forall types s s' o, send_existing s types = (s', o) ->
  (forall t, tver (ts s' t) = tver (ts s t) /\ tnames (ts s' t) = tnames (ts s t) /\
             thas (ts s' t) = thas (ts s t) /\
             tnonce (ts s' t) = if existsb (Z.eqb t) types && thas (ts s t) then 0 else tnonce (ts s t)) /\
  pend s' = pend s /\ live s' = live s /\ sid s' = sid s /\ sender s' = sender s /\ blocked s' = blocked s /\
  length (snd o) = length (fst o) /\
  first_only (first s) (snd o) = true /\
  first s' = (match snd o with [] => first s | _ => false end) /\
  (forall r, In r (fst o) -> exists t, In t types /\ thas (ts s t) = true /\ r = [sid s; t; tver (ts s t); 0; 0] ++ tnames (ts s t)).
Proof.
  induction types as [|t types IH]; intros s s' o H; cbn [send_existing] in H.
  - inversion H; subst. cbn. repeat split; try reflexivity. intros r [].
  - destruct (thas (ts s t)) eqn:Eh.
    + set (s0 := mkS (upd (ts s) t (mkT (tver (ts s t)) 0 (tnames (ts s t)) true)) (pend s) (first s)
                    (live s) (sid s) (sender s) (blocked s)) in *.
      assert (Hts0: forall x, tver (ts s0 x) = tver (ts s x) /\ tnames (ts s0 x) = tnames (ts s x) /\
                thas (ts s0 x) = thas (ts s x) /\
                tnonce (ts s0 x) = if x =? t then 0 else tnonce (ts s x)).
      { intro x. unfold s0. cbn [ts]. unfold upd. destruct (x =? t) eqn:E; cbn; [|tauto].
        apply Z.eqb_eq in E. subst. rewrite Eh. tauto. }
      assert (Hfin: forall s1 s2 o2, send_existing s1 types = (s2, o2) ->
                (forall x, ts s1 x = ts s0 x) -> pend s1 = pend s -> live s1 = live s -> sid s1 = sid s ->
                sender s1 = sender s -> blocked s1 = blocked s ->
                (forall t0, tver (ts s2 t0) = tver (ts s t0) /\ tnames (ts s2 t0) = tnames (ts s t0) /\
                   thas (ts s2 t0) = thas (ts s t0) /\
                   tnonce (ts s2 t0) = if existsb (Z.eqb t0) (t :: types) && thas (ts s t0) then 0 else tnonce (ts s t0)) /\
                pend s2 = pend s /\ live s2 = live s /\ sid s2 = sid s /\ sender s2 = sender s /\ blocked s2 = blocked s /\
                length (snd o2) = length (fst o2) /\ first_only (first s1) (snd o2) = true /\
                first s2 = (match snd o2 with [] => first s1 | _ => false end) /\
                (forall r, In r (fst o2) -> exists t0, In t0 (t :: types) /\ thas (ts s t0) = true /\ r = [sid s; t0; tver (ts s t0); 0; 0] ++ tnames (ts s t0))).
      { intros s1 s2 o2 E Hx P1 P2 P3 P4 P5. apply IH in E.
        destruct E as (A & B1 & B2 & B3 & B4 & B5 & C1 & C2 & C3 & C4).
        split.
        - intro t0. destruct (A t0) as (A1 & A2 & A3 & A4). destruct (Hts0 t0) as (D1 & D2 & D3 & D4).
          rewrite Hx in A1, A2, A3, A4. rewrite A1, A2, A3, A4, D1, D2, D3, D4.
          repeat split; try reflexivity. cbn [existsb].
          destruct (t0 =? t) eqn:E0.
          + apply Z.eqb_eq in E0. subst. rewrite Eh. cbn. destruct (existsb _ types); reflexivity.
          + cbn. reflexivity.
        - rewrite B1, B2, B3, B4, B5, P1, P2, P3, P4, P5. repeat split; try assumption.
          intros r Hr. destruct (C4 r Hr) as (t0 & Hin & Hh0 & Er). exists t0. split; [right; exact Hin|].
          destruct (Hts0 t0) as (D1 & D2 & D3 & _). split; [rewrite <- D3, <- Hx; exact Hh0|]. rewrite Er.
          rewrite !Hx, D1, D2, P3. reflexivity. }
      destruct (tnames (ts s t)) as [|n0 nr] eqn:En.
      * apply (Hfin s0 s' o H); reflexivity.
      * unfold send_on in H. rewrite <- En in H.
        match type of H with context [send_existing ?S types] => set (s1 := S) in * end.
        destruct (send_existing s1 types) as [s2 o2] eqn:E2. inversion H; subst s' o; clear H.
        destruct (Hfin s1 s2 o2 E2) as (A & B1 & B2 & B3 & B4 & B5 & C1 & C2 & C3 & C4); try reflexivity.
        split; [exact A|]. rewrite B1, B2, B3, B4, B5. repeat split; try reflexivity.
        -- cbn [oapp fst snd app length]. rewrite C1. reflexivity.
        -- cbn [oapp fst snd app first_only]. rewrite Z.eqb_refl. exact C2.
        -- cbn [oapp fst snd app]. destruct (snd o2); assumption.
        -- cbn [oapp fst snd app]. intros r [Hr|Hr]; [|apply C4; exact Hr].
           exists t. split; [left; reflexivity|]. split; [exact Eh|]. subst r. cbn [sid]. reflexivity.
    + apply IH in H. destruct H as (A & B1 & B2 & B3 & B4 & B5 & C1 & C2 & C3 & C4).
      split; [|repeat split; try assumption;
               intros r Hr; destruct (C4 r Hr) as (t0 & Hin & Hh0 & Er); exists t0; split; [right; exact Hin|split; [exact Hh0|exact Er]]].
      intro t0. destruct (A t0) as (A1 & A2 & A3 & A4). repeat split; try assumption.
      rewrite A4. cbn [existsb]. destruct (t0 =? t) eqn:E0; [|reflexivity].
      apply Z.eqb_eq in E0. subst. rewrite Eh. cbn. rewrite andb_false_r. reflexivity.
Qed.

Lemma all_true_flat_map {A} (f : A -> list (Z * Z * bool)) l :
  (forall x, In x l -> all_true (f x) = true) -> all_true (flat_map f l) = true.
Proof.
  induction l as [|x l IH]; intro H; cbn [flat_map]; [reflexivity|].
  rewrite all_true_app, (H x (or_introl eq_refl)), IH; [reflexivity|].
  intros y Hy. apply H. right; exact Hy.
Qed.

Lemma in_all_types t : In t all_types -> existsb (Z.eqb t) all_types = true /\ 0 <= t <= 3.
Proof.
  unfold all_types. cbn [In]. intros [H|[H|[H|[H|[]]]]]; subst t; cbn; split; try reflexivity; lia.
Qed.

(* NewStream succeeds: sendExisting on the new stream *)
Lemma step_ok_allow slow s m i : R s m -> step_ok slow s m i AAllow.
Proof.
  intro HR. destruct (live s) eqn:El.
  { apply step_ok_noop; [exact HR|]. cbn [step]. rewrite El. reflexivity. }
  unfold step_ok. cbn [step]. rewrite El.
  set (s0 := mkS (ts s) [] true true (sid s + 1) 1 (blocked s)).
  destruct (send_existing s0 all_types) as [s' o] eqn:Es.
  pose proof (send_existing_spec _ _ _ _ Es) as (A & B1 & B2 & B3 & B4 & B5 & C1 & C2 & C3 & C4).
  cbn [ts pend live sid sender blocked first s0] in A, B1, B2, B3, B4, B5, C2, C3, C4.
  destruct o as [rq fl]. cbn [fst snd] in *. unfold hdr. cbn [fst snd].
  eexists s', 1, _, 0, fl, rq, _, _. split; [reflexivity|]. split; [exact C1|].
  unfold mon_step, mon_op. cbn [z2b Z.eqb negb reads is_unknown andb].
  split; [reflexivity|].
  set (m2 := match fl with [] => _ | _ => _ end).
  assert (HR2: R s' m2).
  { assert (Hln: forall t, tnonce (ts s' t) = 0).
    { intro t. destruct (A t) as (_ & _ & A3 & A4). rewrite A4.
      destruct (thas (ts s t)) eqn:Eh.
      - destruct (in_all_types t (r_types _ _ HR t Eh)) as [E _]. rewrite E. reflexivity.
      - rewrite andb_false_r. apply (r_nohas _ _ HR). exact Eh. }
    assert (Hcommon: forall fr, fr = first s' -> R s'
             (mkM (m_subs m) (m_has m) (m_av m) (fun _ => 0) fr (m_owed m) true (m_sid m + 1) (m_dead m))).
    { intros fr Hfr. constructor; cbn [m_subs m_has m_av m_ln m_fresh m_owed m_live m_sid m_dead].
      - intro t. destruct (A t) as (_ & A2 & _). rewrite A2. apply (r_subs _ _ HR).
      - intro t. destruct (A t) as (_ & _ & A3 & _). rewrite A3. apply (r_has _ _ HR).
      - intro t. destruct (A t) as (A1 & _). rewrite A1. apply (r_av _ _ HR).
      - intro t. symmetry. apply Hln.
      - exact Hfr.
      - rewrite B5. apply (r_owed _ _ HR).
      - symmetry; exact B2.
      - rewrite B3, (r_sid _ _ HR). reflexivity.
      - apply (r_dead _ _ HR).
      - rewrite B5. apply (r_blk _ _ HR).
      - intros _. exact B1.
      - intros _. exact B4.
      - intros t _. apply Hln.
      - intros t Hh. destruct (A t) as (_ & A2 & A3 & _). rewrite A2. apply (r_nonames _ _ HR). rewrite <- A3. exact Hh.
      - intro t. destruct (A t) as (_ & _ & A3 & _). rewrite A3. apply (r_types _ _ HR). }
    subst m2. destruct fl; apply Hcommon; rewrite C3; reflexivity. }
  split; [|exact HR2].
  cbn [all_true forallb snd andb negb].
  change (0 <? 0) with false. rewrite andb_false_r. cbn [negb andb].
  cbn [m_fresh]. rewrite forallb_app. apply andb_true_intro. split.
  - apply (all_true_flat_map _ rq). intros r Hr. destruct (C4 r Hr) as (t & Hin & _ & Er). subst r.
    destruct (in_all_types t Hin) as [_ Ht].
    cbn [app req_clauses all_true forallb snd m_sid m_av m_ln m_subs].
    rewrite (r_sid _ _ HR), (r_av _ _ HR), (r_subs _ _ HR), !Z.eqb_refl, list_eqb_refl.
    assert (Hne: (t =? -1) = false) by (apply Z.eqb_neq; lia). rewrite Hne. reflexivity.
  - cbn [all_true forallb snd]. rewrite C2. cbn [andb].
    rewrite (r_dead _ _ HR2). cbn [forallb snd]. rewrite (c7_ok _ _ HR2). reflexivity.
Qed.

Lemma step_ok_fail slow s m i : R s m -> step_ok slow s m i AFail.
Proof.
  intro HR. destruct (live s) eqn:El.
  { apply step_ok_noop; [exact HR|]. cbn [step]. rewrite El. reflexivity. }
  unfold step_ok. cbn [step]. rewrite El. unfold hdr. cbn [fst snd app].
  eexists s, 1, _, 0, [], [], _, _. split; [reflexivity|]. split; [reflexivity|].
  unfold mon_step, mon_op. cbn [z2b Z.eqb negb reads is_unknown andb flat_map app].
  split; [reflexivity|]. split; [|exact HR].
  cbn [all_true forallb snd andb negb first_only]. change (0 <? 0) with false.
  rewrite andb_false_r. cbn [negb andb]. rewrite (r_dead _ _ HR). cbn [forallb snd].
  rewrite (c7_ok _ _ HR). reflexivity.
Qed.

Lemma recvw_1 s : recvw s =? 1 = true -> live s = true /\ blocked s = 0.
Proof.
  unfold recvw. rewrite eqb_b2z. intro H. apply andb_true_iff in H. destruct H as [H1 H2].
  apply Z.eqb_eq in H2. tauto.
Qed.

Lemma step_ok_break slow s m i : R s m -> step_ok slow s m i ABreak.
Proof.
  intro HR. destruct (recvw s =? 1) eqn:Er.
  2:{ apply step_ok_noop; [exact HR|]. cbn [step]. rewrite Er. reflexivity. }
  destruct (recvw_1 _ Er) as [Hl Hb].
  unfold step_ok. cbn [step]. rewrite Er. unfold hdr. cbn [fst snd app].
  set (s' := mkS (ts s) (pend s) (first s) false (sid s) 2 (blocked s)).
  eexists s', 1, _, 0, [], [], _, _. split; [reflexivity|]. split; [reflexivity|].
  unfold mon_step, mon_op. cbn [z2b Z.eqb negb reads is_unknown andb flat_map app].
  split; [reflexivity|].
  assert (HR2: R s' (mkM (m_subs m) (m_has m) (m_av m) (m_ln m) (m_fresh m) (m_owed m) false (m_sid m) (m_dead m))).
  { constructor; cbn; try apply HR; try reflexivity; try discriminate. }
  split; [|exact HR2].
  cbn [all_true forallb snd andb negb first_only m_dead m_live m_owed].
  rewrite (r_owed _ _ HR), Hb. cbn [Z.eqb negb andb]. change (0 <? 0) with false.
  rewrite andb_false_r. cbn [negb andb]. rewrite (r_dead _ _ HR). cbn [forallb snd].
  unfold recvw. cbn [live s' andb b2z Z.eqb Bool.eqb]. reflexivity.
Qed.

Lemma step_ok_done slow s m i : R s m -> step_ok slow s m i ADone.
Proof.
  intro HR. unfold step_ok. cbn [step]. unfold hdr. cbn [fst snd app].
  set (s' := mkS (ts s) (pend s) (first s) (live s) (sid s) (sender s) (if blocked s =? 1 then 0 else blocked s)).
  eexists s', 1, _, 0, [], [], _, _. split; [reflexivity|]. split; [reflexivity|].
  unfold mon_step, mon_op. cbn [z2b Z.eqb negb reads is_unknown andb flat_map app].
  split; [reflexivity|].
  assert (Hb: blocked s' = 0).
  { cbn. destruct (r_blk _ _ HR) as [E|E]; rewrite E; reflexivity. }
  assert (HR2: R s' (mkM (m_subs m) (m_has m) (m_av m) (m_ln m) (m_fresh m) false (m_live m) (m_sid m) (m_dead m))).
  { constructor; cbn [m_subs m_has m_av m_ln m_fresh m_owed m_live m_sid m_dead]; try apply HR.
    - rewrite Hb. reflexivity.
    - left. exact Hb. }
  split; [|exact HR2].
  cbn [all_true forallb snd andb negb first_only m_dead]. change (0 <? 0) with false.
  rewrite andb_false_r. cbn [negb andb]. rewrite (r_dead _ _ HR). cbn [forallb snd].
  pose proof (c7_ok _ _ HR2) as H7. cbn [m_live m_owed] in H7 |- *. rewrite H7. reflexivity.
Qed.

Lemma step_ok_resp slow s m i t v n rs : R s m -> 0 <= t < 4 -> step_ok slow s m i (AResp t v n rs).
Proof.
  intros HR Ht. destruct (recvw s =? 1) eqn:Er.
  2:{ apply step_ok_noop; [exact HR|]. cbn [step]. rewrite Er. reflexivity. }
  destruct (recvw_1 _ Er) as [Hl Hb].
  assert (Hs1: sender s = 1) by (apply (r_send _ _ HR); exact Hl).
  assert (Hp: pend s = []) by (apply (r_pend _ _ HR); exact Hs1).
  assert (Ho: m_owed m = false) by (rewrite (r_owed _ _ HR), Hb; reflexivity).
  assert (H4: (4 <=? t) = false) by (apply Z.leb_gt; lia).
  unfold step_ok. cbn [step]. rewrite Er, H4.
  set (x := ts s t).
  set (outst := if slow then count_in (named rs) (tnames x) else 0).
  set (b := if 0 <? outst then 1 else 0).
  assert (Hob: (slow && (0 <? outst)) = (b =? 1)).
  { unfold b, outst. destruct slow; cbn [andb]; [|reflexivity].
    destruct (0 <? count_in (named rs) (tnames x)); reflexivity. }
  assert (Hbb: b = 0 \/ b = 1) by (unfold b; destruct (0 <? outst); tauto).
  assert (Hrw: forall s2, live s2 = true -> blocked s2 = b -> negb ((recvw s2 =? 1) && (0 <? outst)) = true).
  { intros s2 L B. unfold recvw. rewrite L, B, eqb_b2z. unfold b. destruct (0 <? outst); reflexivity. }
  assert (Hne: (t =? -1) = false) by (apply Z.eqb_neq; lia).
  destruct (thas x) eqn:Eh.
  - set (nack := negb (all_valid rs)).
    set (v' := if nack then tver x else v).
    unfold send_on. cbn [ts pend live sid sender blocked first]. unfold hdr. cbn [fst snd app].
    match goal with |- context [(?S, _ :: _) = _] => set (s' := S) end.
    eexists s', 1, _, outst, [b2z (first s)], _, _, _. split; [reflexivity|]. split; [reflexivity|].
    unfold mon_step, mon_op. cbn [z2b Z.eqb negb reads is_unknown andb]. rewrite H4.
    rewrite (r_has _ _ HR). fold x. rewrite Eh.
    split; [reflexivity|].
    set (m1 := mkM (m_subs m) (m_has m) (if all_valid rs then updf (m_av m) t v else m_av m)
                   (updf (m_ln m) t n) (m_fresh m) (slow && (0 <? outst)) (m_live m) (m_sid m) (m_dead m)).
    assert (HR2: R s' (mkM (m_subs m1) (m_has m1) (m_av m1) (m_ln m1) false (m_owed m1) (m_live m1) (m_sid m1) (m_dead m1))).
    { constructor; cbn [m_subs m_has m_av m_ln m_fresh m_owed m_live m_sid m_dead m1 s' ts pend first live sid sender blocked].
      - intro y. unfold upd. destruct (y =? t) eqn:E; [apply Z.eqb_eq in E; subst y; apply (r_subs _ _ HR)|apply (r_subs _ _ HR)].
      - intro y. unfold upd. destruct (y =? t) eqn:E; [apply Z.eqb_eq in E; subst y; cbn; rewrite (r_has _ _ HR); exact Eh|apply (r_has _ _ HR)].
      - intro y. unfold upd, v', nack. destruct (all_valid rs); cbn [negb]; unfold updf;
          (destruct (y =? t) eqn:E; [apply Z.eqb_eq in E; subst y; cbn [tver]; try reflexivity; apply (r_av _ _ HR)|apply (r_av _ _ HR)]).
      - intro y. unfold upd, updf. destruct (y =? t); [reflexivity|apply (r_ln _ _ HR)].
      - reflexivity.
      - exact Hob.
      - apply (r_live _ _ HR).
      - apply (r_sid _ _ HR).
      - apply (r_dead _ _ HR).
      - exact Hbb.
      - intros _. exact Hp.
      - intros _. exact Hs1.
      - intro y. unfold upd. destruct (y =? t); [discriminate|apply (r_nohas _ _ HR)].
      - intro y. unfold upd. destruct (y =? t); [discriminate|apply (r_nonames _ _ HR)].
      - intro y. unfold upd. destruct (y =? t) eqn:E; [|apply (r_types _ _ HR)].
        apply Z.eqb_eq in E. subst y. intros _. apply (r_types _ _ HR). exact Eh. }
    split; [|exact HR2].
    rewrite Ho. cbn [andb negb all_true forallb snd flat_map app req_clauses].
    rewrite (Hrw s'); [|exact Hl|reflexivity]. cbn [andb].
    fold m1. cbn [m_sid m_av m_ln m_subs m_fresh m_dead m1].
    rewrite (r_sid _ _ HR), Z.eqb_refl. cbn [andb].
    assert (Hv: (v' =? (if all_valid rs then updf (m_av m) t v else m_av m) t) = true).
    { unfold v', nack. destruct (all_valid rs); cbn [negb]; [unfold updf; rewrite Z.eqb_refl; apply Z.eqb_refl|].
      rewrite (r_av _ _ HR). apply Z.eqb_refl. }
    rewrite Hv. unfold updf at 1. rewrite !Z.eqb_refl. cbn [andb].
    rewrite (r_subs _ _ HR). fold x. rewrite list_eqb_refl. cbn [andb].
    assert (He: (b2z nack =? (if t =? (if all_valid rs then -1 else t) then 1 else 0)) = true).
    { unfold nack. destruct (all_valid rs); cbn [negb b2z]; [rewrite Hne; reflexivity|rewrite Z.eqb_refl; reflexivity]. }
    rewrite He. cbn [andb first_only]. rewrite (r_fresh _ _ HR), Z.eqb_refl. cbn [andb].
    rewrite (r_dead _ _ HR). cbn [forallb snd].
    pose proof (c7_ok _ _ HR2) as H7. cbn [m_live m_owed m1] in H7 |- *. rewrite H7. reflexivity.
  - unfold hdr. cbn [fst snd app].
    match goal with |- context [(?S, _ :: _) = _] => set (s' := S) end.
    eexists s', 1, _, outst, [], [], _, _. split; [reflexivity|]. split; [reflexivity|].
    unfold mon_step, mon_op. cbn [z2b Z.eqb negb reads is_unknown andb]. rewrite H4.
    rewrite (r_has _ _ HR). fold x. rewrite Eh.
    split; [reflexivity|].
    set (m1 := mkM (m_subs m) (m_has m) (m_av m) (m_ln m) (m_fresh m) (slow && (0 <? outst)) (m_live m) (m_sid m) (m_dead m)).
    assert (HR2: R s' m1).
    { constructor; cbn [m_subs m_has m_av m_ln m_fresh m_owed m_live m_sid m_dead m1 s' ts pend first live sid sender blocked]; try apply HR.
      - exact Hob.
      - exact Hbb. }
    split; [|exact HR2].
    rewrite Ho. cbn [andb negb all_true forallb snd flat_map app first_only].
    rewrite (Hrw s'); [|exact Hl|reflexivity]. cbn [andb].
    cbn [m_dead m1]. rewrite (r_dead _ _ HR). cbn [forallb snd].
    pose proof (c7_ok _ _ HR2) as H7. cbn [m_live m_owed m1] in H7 |- *. rewrite H7. reflexivity.
Qed.

Lemma sub_rng_spec t n : sub_rng t n = true -> 0 <= t <= 2.
Proof. unfold sub_rng. rewrite !andb_true_iff, !Z.leb_le. lia. Qed.

Lemma step_ok_all slow s m i a : R s m -> aop_wf a = true ->
  (forall t n, a = ASub t n \/ a = AUnsub t n -> 0 <= t <= 2) -> step_ok slow s m i a.
Proof.
  intros HR Hwf Hrng. destruct a; try discriminate.
  - (* ASub *)
    destruct (mem n (tnames (ts s t))) eqn:Em.
    + apply step_ok_noop; [exact HR|]. cbn [step]. rewrite Em. reflexivity.
    + apply (step_ok_names slow s m i (ASub t n) t (ins n (tnames (ts s t))) (updf (m_has m) t true));
        try reflexivity; try exact HR.
      * apply (Hrng t n). left; reflexivity.
      * cbn [step]. rewrite Em. reflexivity.
      * cbn [mon_op negb]. rewrite (r_subs _ _ HR). reflexivity.
  - (* AUnsub *)
    destruct (mem n (tnames (ts s t))) eqn:Em.
    + assert (Hh: thas (ts s t) = true).
      { destruct (thas (ts s t)) eqn:Eh; [reflexivity|].
        rewrite (r_nonames _ _ HR t Eh) in Em. discriminate. }
      apply (step_ok_names slow s m i (AUnsub t n) t (rem n (tnames (ts s t))) (m_has m));
        try reflexivity; try exact HR.
      * apply (Hrng t n). right; reflexivity.
      * intro x. unfold updf. destruct (x =? t) eqn:E; [|reflexivity].
        apply Z.eqb_eq in E. subst x. rewrite (r_has _ _ HR). exact Hh.
      * cbn [step]. rewrite Em. reflexivity.
      * cbn [mon_op negb]. rewrite (r_subs _ _ HR). reflexivity.
    + apply step_ok_noop; [exact HR|]. cbn [step]. rewrite Em. reflexivity.
  - apply step_ok_allow; exact HR.
  - apply step_ok_fail; exact HR.
  - cbn [aop_wf] in Hwf. apply andb_true_iff in Hwf. destruct Hwf as [H0 H4].
    apply Z.leb_le in H0. apply Z.ltb_lt in H4. apply step_ok_resp; [exact HR|lia].
  - apply step_ok_break; exact HR.
  - apply step_ok_done; exact HR.
  - apply step_ok_noop; [exact HR|reflexivity].
Qed.

Lemma decode_sub_rng w t n : decode w = ASub t n \/ decode w = AUnsub t n -> 0 <= t <= 2.
Proof.
  unfold decode. destruct w as [|c a]; [intros [H|H]; discriminate|].
  repeat match goal with
  | |- context [if ?b then _ else _] => destruct b eqn:?
  | |- context [match ?l with [] => _ | _ :: _ => _ end] => destruct l
  | |- context [match triples ?l with _ => _ end] => destruct (triples l)
  end; intros [H|H]; try discriminate; inversion H; subst; eapply sub_rng_spec; eassumption.
Qed.

Lemma bridge slow : forall ops s m i, R s m -> forallb op_wf ops = true ->
  all_true (clauses_from slow m i ops (run_from slow s ops)) = true.
Proof.
  induction ops as [|op ops IH]; intros s m i HR Hwf; [reflexivity|].
  cbn [forallb] in Hwf. apply andb_true_iff in Hwf. destruct Hwf as [Hw1 Hw2].
  destruct (step_ok_all slow s m i (decode op) HR Hw1) as (s' & ap & rw & outst & flags & reqs & m' & cl & Hs & Hlen & Hm & Hcl & HR').
  { intros t n H. eapply decode_sub_rng. exact H. }
  cbn [run_from clauses_from]. rewrite Hs. cbn [app].
  rewrite Hlen, take_words_app, Hm.
  unfold all_true in *. rewrite forallb_app, Hcl. cbn [andb].
  apply IH; assumption.
Qed.

Lemma model_trace_holds : forall cfg ops, forallb op_wf ops = true ->
  exists obs, run cfg ops = Some obs /\ holds_b cfg ops obs = true.
Proof.
  intros cfg ops Hwf. eexists. split; [reflexivity|].
  unfold holds_b, clauses. apply (bridge (is_slow cfg) ops init mon_init 0 R_init Hwf).
Qed.

(* ---------- the sentences of the property, on single steps from ANY state ---------- *)

(* request words of a step output *)
Definition reqs_of (o : list word) : list word := tl o.

Lemma flush_spec s s' o : flush s = (s', o) ->
  ts s' = ts s /\ sid s' = sid s /\ live s' = live s /\ blocked s' = blocked s /\
  (forall r, In r (fst o) -> exists t ns, In (t, ns) (pend s) /\
       r = [sid s; t; tver (ts s t); tnonce (ts s t); 0] ++ ns).
Proof.
  unfold flush. destruct (sender s =? 1).
  - destruct (send_all s (pend s)) as [s2 o2] eqn:E. intro H; inversion H; subst; clear H.
    apply send_all_spec in E. destruct E as ((E1 & E2 & E3 & E4 & E5 & E6) & Ereq & _).
    cbn [set_pend ts sid live blocked]. repeat split; try assumption.
    intros r Hr. rewrite Ereq in Hr. apply in_map_iff in Hr. destruct Hr as ([t ns] & Er & Hin).
    exists t, ns. split; [exact Hin|]. subst r. reflexivity.
  - destruct (sender s =? 2).
    + destruct (pend s); intro H; inversion H; subst; cbn; repeat split; intros r [].
    + intro H; inversion H; subst; cbn; repeat split; intros r [].
Qed.

(* Sentence 1+2: every request of type t carries the version and nonce that the type state
   holds after the step ... *)
Lemma request_version_nonce slow s a s' o : step slow s a = (s', o) ->
  forall r, In r (reqs_of o) -> exists t e names,
    r = [sid s'; t; tver (ts s' t); tnonce (ts s' t); e] ++ names.
Proof.
  intros Hs r Hr. destruct a; cbn [step] in Hs.
  - (* ASub *) destruct (mem n (tnames (ts s t))).
    + inversion Hs; subst. destruct Hr.
    + destruct (flush (subscribe s t n)) as [s2 o2] eqn:E. inversion Hs; subst; clear Hs.
      apply flush_spec in E. destruct E as (E1 & E2 & _ & _ & E5). cbn [hdr reqs_of tl] in Hr.
      destruct (E5 r Hr) as (t0 & ns & _ & Er). exists t0, 0, ns. rewrite E1, E2. exact Er.
  - destruct (mem n (tnames (ts s t))).
    + destruct (flush (unsubscribe s t n)) as [s2 o2] eqn:E. inversion Hs; subst; clear Hs.
      apply flush_spec in E. destruct E as (E1 & E2 & _ & _ & E5). cbn [hdr reqs_of tl] in Hr.
      destruct (E5 r Hr) as (t0 & ns & _ & Er). exists t0, 0, ns. rewrite E1, E2. exact Er.
    + inversion Hs; subst. destruct Hr.
  - (* AAllow *) destruct (live s).
    + inversion Hs; subst. destruct Hr.
    + match type of Hs with context [send_existing ?S _] => set (s0 := S) in * end.
      destruct (send_existing s0 all_types) as [s2 o2] eqn:E. inversion Hs; subst; clear Hs.
      pose proof (send_existing_spec _ _ _ _ E) as (A & _ & _ & B3 & _ & _ & _ & _ & _ & C4).
      cbn [hdr reqs_of tl] in Hr. destruct (C4 r Hr) as (t & Hin & Hh & Er).
      exists t, 0, (tnames (ts s0 t)). destruct (A t) as (A1 & A2 & A3 & A4).
      rewrite B3, A1, A4. subst r.
      destruct (in_all_types t Hin) as [Ex _]. rewrite Ex, Hh. reflexivity.
  - destruct (live s); inversion Hs; subst; destruct Hr.
  - (* AResp *) destruct (recvw s =? 1); [|inversion Hs; subst; destruct Hr].
    destruct (4 <=? t); [inversion Hs; subst; destruct Hr|].
    destruct (thas (ts s t)); [|inversion Hs; subst; destruct Hr].
    unfold send_on in Hs. inversion Hs; subst; clear Hs. cbn [hdr reqs_of tl fst snd] in Hr.
    destruct Hr as [Hr|[]]. subst r. exists t, (b2z (negb (all_valid rs))), (tnames (ts s t)).
    cbn [sid ts]. rewrite upd_same. reflexivity.
  - destruct (recvw s =? 1); inversion Hs; subst; destruct Hr.
  - inversion Hs; subst; destruct Hr.
  - destruct (mem n (tnames (ts s t))); inversion Hs; subst; destruct Hr.
  - destruct (mem n (tnames (ts s t))); inversion Hs; subst; destruct Hr.
  - destruct (flush s) as [s2 o2] eqn:E. inversion Hs; subst; clear Hs.
    apply flush_spec in E. destruct E as (E1 & E2 & _ & _ & E5). cbn [hdr reqs_of tl] in Hr.
    destruct (E5 r Hr) as (t0 & ns & _ & Er). exists t0, 0, ns. rewrite E1, E2. exact Er.
  - inversion Hs; subst; destruct Hr.
Qed.

(* what a step does to the type states *)
Lemma flush_ts s s' o : flush s = (s', o) -> ts s' = ts s /\ blocked s' = blocked s.
Proof. intro H. apply flush_spec in H. tauto. Qed.

Lemma set_names_ts s t ns x :
  tver (ts (set_names s t ns) x) = tver (ts s x) /\ tnonce (ts (set_names s t ns) x) = tnonce (ts s x).
Proof.
  unfold set_names. cbn [ts]. unfold upd. destruct (x =? t) eqn:E; [|tauto].
  apply Z.eqb_eq in E. subst. cbn. tauto.
Qed.

(* ... the version changes only when a response of that type is accepted, to its version
   (never on a stream break or a new stream) ... *)
Lemma version_changes_only_on_accept slow s a s' o t : step slow s a = (s', o) ->
  tver (ts s' t) <> tver (ts s t) ->
  exists v n rs, a = AResp t v n rs /\ all_valid rs = true /\ tver (ts s' t) = v /\ recvw s = 1.
Proof.
  intros Hs Hne. destruct a; cbn [step] in Hs.
  - destruct (mem n (tnames (ts s t0))); [inversion Hs; subst; contradiction|].
    destruct (flush (subscribe s t0 n)) as [s2 o2] eqn:E. inversion Hs; subst; clear Hs.
    apply flush_ts in E. destruct E as [E _]. rewrite E in Hne.
    destruct (set_names_ts s t0 (ins n (tnames (ts s t0))) t) as [A _]. unfold subscribe in Hne. contradiction.
  - destruct (mem n (tnames (ts s t0))); [|inversion Hs; subst; contradiction].
    destruct (flush (unsubscribe s t0 n)) as [s2 o2] eqn:E. inversion Hs; subst; clear Hs.
    apply flush_ts in E. destruct E as [E _]. rewrite E in Hne.
    destruct (set_names_ts s t0 (rem n (tnames (ts s t0))) t) as [A _]. unfold unsubscribe in Hne. contradiction.
  - destruct (live s); [inversion Hs; subst; contradiction|].
    match type of Hs with context [send_existing ?S _] => set (s0 := S) in * end.
    destruct (send_existing s0 all_types) as [s2 o2] eqn:E. inversion Hs; subst; clear Hs.
    pose proof (send_existing_spec _ _ _ _ E) as (A & _). destruct (A t) as (A1 & _).
    cbn [ts s0] in A1. contradiction.
  - destruct (live s); inversion Hs; subst; contradiction.
  - destruct (recvw s =? 1) eqn:Er; [|inversion Hs; subst; contradiction].
    destruct (4 <=? t0); [inversion Hs; subst; contradiction|].
    destruct (thas (ts s t0)); [|inversion Hs; subst; contradiction].
    unfold send_on in Hs. inversion Hs; subst; clear Hs. cbn [ts] in Hne |- *.
    unfold upd in *. destruct (t =? t0) eqn:E; [|contradiction]. apply Z.eqb_eq in E. subst t0.
    cbn [tver] in *. destruct (all_valid rs) eqn:Ev; cbn [negb] in *; [|contradiction].
    exists v, n, rs. apply Z.eqb_eq in Er. tauto.
  - destruct (recvw s =? 1); inversion Hs; subst; contradiction.
  - inversion Hs; subst; contradiction.
  - destruct (mem n (tnames (ts s t0))); inversion Hs; subst; [contradiction|].
    destruct (set_names_ts s t0 (ins n (tnames (ts s t0))) t) as [A _]. unfold subscribe in Hne. contradiction.
  - destruct (mem n (tnames (ts s t0))); inversion Hs; subst; [|contradiction].
    destruct (set_names_ts s t0 (rem n (tnames (ts s t0))) t) as [A _]. unfold unsubscribe in Hne. contradiction.
  - destruct (flush s) as [s2 o2] eqn:E. inversion Hs; subst. apply flush_ts in E. destruct E as [E _].
    rewrite E in Hne. contradiction.
  - inversion Hs; subst; contradiction.
Qed.

(* ... and the nonce changes only on a response of that type (to its nonce, accepted or not)
   or on a new stream (to empty). *)
Lemma nonce_changes_only_on_response_or_new_stream slow s a s' o t : step slow s a = (s', o) ->
  tnonce (ts s' t) <> tnonce (ts s t) ->
  (a = AAllow /\ tnonce (ts s' t) = 0 /\ live s = false) \/
  (exists v n rs, a = AResp t v n rs /\ tnonce (ts s' t) = n /\ recvw s = 1).
Proof.
  intros Hs Hne. destruct a; cbn [step] in Hs.
  - destruct (mem n (tnames (ts s t0))); [inversion Hs; subst; contradiction|].
    destruct (flush (subscribe s t0 n)) as [s2 o2] eqn:E. inversion Hs; subst; clear Hs.
    apply flush_ts in E. destruct E as [E _]. rewrite E in Hne.
    destruct (set_names_ts s t0 (ins n (tnames (ts s t0))) t) as [_ A]. unfold subscribe in Hne. contradiction.
  - destruct (mem n (tnames (ts s t0))); [|inversion Hs; subst; contradiction].
    destruct (flush (unsubscribe s t0 n)) as [s2 o2] eqn:E. inversion Hs; subst; clear Hs.
    apply flush_ts in E. destruct E as [E _]. rewrite E in Hne.
    destruct (set_names_ts s t0 (rem n (tnames (ts s t0))) t) as [_ A]. unfold unsubscribe in Hne. contradiction.
  - destruct (live s) eqn:El; [inversion Hs; subst; contradiction|]. left.
    match type of Hs with context [send_existing ?S _] => set (s0 := S) in * end.
    destruct (send_existing s0 all_types) as [s2 o2] eqn:E. inversion Hs; subst; clear Hs.
    pose proof (send_existing_spec _ _ _ _ E) as (A & _). destruct (A t) as (_ & _ & _ & A4).
    cbn [ts s0] in A4. rewrite A4 in Hne |- *.
    destruct (existsb (Z.eqb t) all_types && thas (ts s t)); [tauto|contradiction].
  - destruct (live s); inversion Hs; subst; contradiction.
  - destruct (recvw s =? 1) eqn:Er; [|inversion Hs; subst; contradiction].
    destruct (4 <=? t0); [inversion Hs; subst; contradiction|].
    destruct (thas (ts s t0)); [|inversion Hs; subst; contradiction].
    unfold send_on in Hs. inversion Hs; subst; clear Hs. cbn [ts] in Hne |- *.
    unfold upd in *. destruct (t =? t0) eqn:E; [|contradiction]. apply Z.eqb_eq in E. subst t0.
    right. exists v, n, rs. apply Z.eqb_eq in Er. cbn [tnonce]. tauto.
  - destruct (recvw s =? 1); inversion Hs; subst; contradiction.
  - inversion Hs; subst; contradiction.
  - destruct (mem n (tnames (ts s t0))); inversion Hs; subst; [contradiction|].
    destruct (set_names_ts s t0 (ins n (tnames (ts s t0))) t) as [_ A]. unfold subscribe in Hne. contradiction.
  - destruct (mem n (tnames (ts s t0))); inversion Hs; subst; [|contradiction].
    destruct (set_names_ts s t0 (rem n (tnames (ts s t0))) t) as [_ A]. unfold unsubscribe in Hne. contradiction.
  - destruct (flush s) as [s2 o2] eqn:E. inversion Hs; subst. apply flush_ts in E. destruct E as [E _].
    rewrite E in Hne. contradiction.
  - inversion Hs; subst; contradiction.
Qed.

(* a new stream empties the nonce of every type that has state and keeps every version *)
Lemma new_stream_resets_nonces_keeps_versions slow s s' o : live s = false ->
  step slow s AAllow = (s', o) ->
  forall t, tver (ts s' t) = tver (ts s t) /\ (thas (ts s t) = true -> In t all_types -> tnonce (ts s' t) = 0).
Proof.
  intros El Hs t. cbn [step] in Hs. rewrite El in Hs.
  match type of Hs with context [send_existing ?S _] => set (s0 := S) in * end.
  destruct (send_existing s0 all_types) as [s2 o2] eqn:E. inversion Hs; subst; clear Hs.
  pose proof (send_existing_spec _ _ _ _ E) as (A & _). destruct (A t) as (A1 & _ & _ & A4).
  cbn [ts s0] in A1, A4. split; [exact A1|]. intros Hh Hin. rewrite A4, Hh.
  destruct (in_all_types t Hin) as [Ex _]. rewrite Ex. reflexivity.
Qed.

(* Sentence: ACK and NACK.  A response of a type with state is answered at once on the same
   stream; a NACK carries the previously accepted version, the rejected response's nonce and
   an error detail, an ACK the response's own version and nonce and no error detail. *)
Lemma ack_nack_request slow s t v n rs s' o :
  recvw s = 1 -> t < 4 -> thas (ts s t) = true -> step slow s (AResp t v n rs) = (s', o) ->
  if all_valid rs
  then reqs_of o = [[sid s; t; v; n; 0] ++ tnames (ts s t)] /\ tver (ts s' t) = v
  else reqs_of o = [[sid s; t; tver (ts s t); n; 1] ++ tnames (ts s t)] /\ tver (ts s' t) = tver (ts s t).
Proof.
  intros Hr Ht Hh Hs. cbn [step] in Hs. rewrite Hr in Hs. cbn [Z.eqb Pos.eqb] in Hs.
  assert (H4: (4 <=? t) = false) by (apply Z.leb_gt; lia). rewrite H4, Hh in Hs.
  unfold send_on in Hs. inversion Hs; subst; clear Hs. cbn [hdr reqs_of tl fst snd sid ts].
  rewrite upd_same. destruct (all_valid rs); cbn [negb b2z tver]; split; reflexivity.
Qed.

(* Sentence: flow control. *)
Lemma blocked_reads_nothing slow s a : blocked s <> 0 -> reads a = true ->
  step slow s a = (s, hdr false s 0 ([], [])).
Proof.
  intros Hb Hr. assert (Hrw: (recvw s =? 1) = false).
  { unfold recvw. rewrite eqb_b2z. destruct (blocked s =? 0) eqn:E; [apply Z.eqb_eq in E; contradiction|].
    apply andb_false_r. }
  destruct a; try discriminate; cbn [step]; rewrite Hrw; reflexivity.
Qed.

Lemma response_blocks_while_callbacks_outstanding s t v n rs s' o :
  recvw s = 1 -> t < 4 -> 0 < count_in (named rs) (tnames (ts s t)) ->
  step true s (AResp t v n rs) = (s', o) -> blocked s' = 1 /\ recvw s' = 0.
Proof.
  intros Hr Ht Hc Hs. cbn [step] in Hs. rewrite Hr in Hs. cbn [Z.eqb Pos.eqb] in Hs.
  assert (H4: (4 <=? t) = false) by (apply Z.leb_gt; lia). rewrite H4 in Hs.
  apply Z.ltb_lt in Hc. rewrite Hc in Hs.
  destruct (thas (ts s t)); unfold send_on in Hs; inversion Hs; subst; clear Hs;
    unfold recvw; cbn [blocked live]; split; try reflexivity; rewrite andb_false_r; reflexivity.
Qed.

Lemma only_done_unblocks slow s a s' o : blocked s = 1 -> step slow s a = (s', o) ->
  a <> ADone -> blocked s' = 1.
Proof.
  intros Hb Hs Hne.
  assert (Hrw: (recvw s =? 1) = false).
  { unfold recvw. rewrite Hb. cbn. rewrite andb_false_r. reflexivity. }
  destruct a; cbn [step] in Hs; try rewrite Hrw in Hs.
  - destruct (mem n (tnames (ts s t))); [inversion Hs; subst; exact Hb|].
    destruct (flush (subscribe s t n)) as [s2 o2] eqn:E. inversion Hs; subst. apply flush_ts in E. destruct E as [_ E]. rewrite E. exact Hb.
  - destruct (mem n (tnames (ts s t))); [|inversion Hs; subst; exact Hb].
    destruct (flush (unsubscribe s t n)) as [s2 o2] eqn:E. inversion Hs; subst. apply flush_ts in E. destruct E as [_ E]. rewrite E. exact Hb.
  - destruct (live s); [inversion Hs; subst; exact Hb|].
    match type of Hs with context [send_existing ?S _] => set (s0 := S) in * end.
    destruct (send_existing s0 all_types) as [s2 o2] eqn:E. inversion Hs; subst; clear Hs.
    pose proof (send_existing_spec _ _ _ _ E) as (_ & _ & _ & _ & _ & B5 & _). rewrite B5. exact Hb.
  - destruct (live s); inversion Hs; subst; exact Hb.
  - inversion Hs; subst; exact Hb.
  - inversion Hs; subst; exact Hb.
  - contradiction.
  - destruct (mem n (tnames (ts s t))); inversion Hs; subst; exact Hb.
  - destruct (mem n (tnames (ts s t))); inversion Hs; subst; exact Hb.
  - destruct (flush s) as [s2 o2] eqn:E. inversion Hs; subst. apply flush_ts in E. destruct E as [_ E]. rewrite E. exact Hb.
  - inversion Hs; subst; exact Hb.
Qed.

(* Incidental defect, outside the property's sentences: a response with an unknown type url leaves the flow control
   pending for ever: from then on nothing is read, whatever happens. *)
Lemma unknown_type_stalls slow s t v n rs s' o : recvw s = 1 -> 4 <= t ->
  step slow s (AResp t v n rs) = (s', o) -> blocked s' = 2 /\ live s' = true.
Proof.
  intros Hr Ht Hs. cbn [step] in Hs. rewrite Hr in Hs. cbn [Z.eqb Pos.eqb] in Hs.
  assert (H4: (4 <=? t) = true) by (apply Z.leb_le; lia). rewrite H4 in Hs.
  inversion Hs; subst. cbn. apply Z.eqb_eq in Hr. unfold recvw in Hr. rewrite eqb_b2z in Hr.
  apply andb_true_iff in Hr. tauto.
Qed.

Lemma stalled_forever slow s a s' o : blocked s = 2 -> step slow s a = (s', o) ->
  blocked s' = 2 /\ recvw s' = 0.
Proof.
  intros Hb Hs.
  assert (Hrw: (recvw s =? 1) = false).
  { unfold recvw. rewrite Hb. cbn. rewrite andb_false_r. reflexivity. }
  assert (Hgoal: forall s2, blocked s2 = 2 -> blocked s2 = 2 /\ recvw s2 = 0).
  { intros s2 H2. split; [exact H2|]. unfold recvw. rewrite H2. cbn. rewrite andb_false_r. reflexivity. }
  apply Hgoal.
  destruct a; cbn [step] in Hs; try rewrite Hrw in Hs.
  - destruct (mem n (tnames (ts s t))); [inversion Hs; subst; exact Hb|].
    destruct (flush (subscribe s t n)) as [s2 o2] eqn:E. inversion Hs; subst. apply flush_ts in E. destruct E as [_ E]. rewrite E. exact Hb.
  - destruct (mem n (tnames (ts s t))); [|inversion Hs; subst; exact Hb].
    destruct (flush (unsubscribe s t n)) as [s2 o2] eqn:E. inversion Hs; subst. apply flush_ts in E. destruct E as [_ E]. rewrite E. exact Hb.
  - destruct (live s); [inversion Hs; subst; exact Hb|].
    match type of Hs with context [send_existing ?S _] => set (s0 := S) in * end.
    destruct (send_existing s0 all_types) as [s2 o2] eqn:E. inversion Hs; subst; clear Hs.
    pose proof (send_existing_spec _ _ _ _ E) as (_ & _ & _ & _ & _ & B5 & _). rewrite B5. exact Hb.
  - destruct (live s); inversion Hs; subst; exact Hb.
  - inversion Hs; subst; exact Hb.
  - inversion Hs; subst; exact Hb.
  - inversion Hs; subst. cbn. rewrite Hb. reflexivity.
  - destruct (mem n (tnames (ts s t))); inversion Hs; subst; exact Hb.
  - destruct (mem n (tnames (ts s t))); inversion Hs; subst; exact Hb.
  - destruct (flush s) as [s2 o2] eqn:E. inversion Hs; subst. apply flush_ts in E. destruct E as [_ E]. rewrite E. exact Hb.
  - inversion Hs; subst; exact Hb.
Qed.

(* outside the property's sentences (nothing promises progress after an unknown type): on the
   history "new stream; response of unknown type 5" the client is no longer reading *)
Lemma unknown_type_stalls_note :
  exists ops obs, run [0] ops = Some obs /\ nth_error obs 2 = Some [1; 0; 0] /\ holds_b [0] ops obs = true.
Proof. exists [[3]; [5; 5; 1; 1]]. eexists. split; [reflexivity|]. vm_compute. split; reflexivity. Qed.

(* Sentence: names.  A queued request carries the names as of the moment it was queued ... *)
Lemma queued_request_is_current s t n :
  pend (subscribe s t n) = pend s ++ [(t, tnames (ts (subscribe s t n) t))] /\
  pend (unsubscribe s t n) = pend s ++ [(t, tnames (ts (unsubscribe s t n) t))].
Proof. unfold subscribe, unsubscribe, set_names. cbn [pend ts]. rewrite !upd_same. cbn. tauto. Qed.

(* ... the sender sends the queued snapshots unchanged ... *)
Lemma sender_sends_snapshots s s' o : flush s = (s', o) ->
  forall r, In r (fst o) -> exists t ns, In (t, ns) (pend s) /\
    r = [sid s; t; tver (ts s t); tnonce (ts s t); 0] ++ ns.
Proof. intro H. apply flush_spec in H. tauto. Qed.

(* ... so the literal sentence "lists exactly the currently subscribed names" fails for an
   intermediate request when two subscriptions are queued before the sender runs: *)
Lemma names_literal_refuted :
  exists ops r, In r (run_from false init ops) /\ r = [1; 0; 0; 0; 0; 1] /\
    tnames (ts (fst (step false (fst (step false (fst (step false init AAllow)) (AQSub 0 1))) (AQSub 0 2))) 0) = [1; 2].
Proof. exists [[3]; [11; 0; 1]; [11; 0; 2]; [13]]. eexists. split; [|split; reflexivity]. vm_compute. tauto. Qed.
