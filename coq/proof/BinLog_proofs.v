From Coq Require Import String Ascii List ZArith Bool Lia.
From VLib Require Import Codec Machine.
From VModel Require Import BinLog.
Import ListNotations.
Open Scope Z_scope.

(* ---------- equality tests ---------- *)

Lemma list_eqb_spec a : forall b, list_eqb a b = true <-> a = b.
Proof.
  induction a as [|x a IH]; intros [|y b]; cbn [list_eqb]; split; intros H;
    try reflexivity; try discriminate.
  - apply andb_true_iff in H as [H1 H2]. apply Z.eqb_eq in H1. apply IH in H2. congruence.
  - inversion H; subst. rewrite Z.eqb_refl. cbn. apply IH. reflexivity.
Qed.

Lemma list_eqb_refl a : list_eqb a a = true.
Proof. apply list_eqb_spec. reflexivity. Qed.

Lemma entry_eqb_refl e : entry_eqb e e = true.
Proof. unfold entry_eqb. rewrite list_eqb_refl, !Z.eqb_refl. reflexivity. Qed.

Lemma entries_eqb_refl es : entries_eqb es es = true.
Proof. induction es as [|e es IH]; [reflexivity|]. cbn. rewrite entry_eqb_refl. exact IH. Qed.

(* ---------- truncateMetadata ---------- *)

Lemma cut_index_le es : forall limit, (cut_index limit es <= length es)%nat.
Proof.
  induction es as [|e r IH]; intros limit; cbn [cut_index length]; [lia|].
  destruct (is_trace e); [specialize (IH limit); lia|].
  destruct (e_size e >? limit); [lia|]. specialize (IH (limit - e_size e)). lia.
Qed.

Lemma cut_index_fits es : forall limit, 0 <= limit ->
  counted_size (firstn (cut_index limit es) es) <= limit.
Proof.
  induction es as [|e r IH]; intros limit Hl; cbn [cut_index]; [cbn; lia|].
  destruct (is_trace e) eqn:Et.
  - cbn [firstn counted_size]. rewrite Et. specialize (IH limit Hl). lia.
  - destruct (Z.gtb_spec (e_size e) limit); [cbn; lia|].
    cbn [firstn counted_size]. rewrite Et. specialize (IH (limit - e_size e) ltac:(lia)). lia.
Qed.

Lemma cut_index_next es : forall limit e,
  nth_error es (cut_index limit es) = Some e ->
  is_trace e = false /\ limit < counted_size (firstn (cut_index limit es) es) + e_size e.
Proof.
  induction es as [|x r IH]; intros limit e; cbn [cut_index].
  - cbn. discriminate.
  - destruct (is_trace x) eqn:Et.
    + cbn [nth_error firstn counted_size]. rewrite Et. intros H. apply IH in H. destruct H as [H1 H2]. split; [exact H1|lia].
    + destruct (Z.gtb_spec (e_size x) limit) as [Hg|Hg].
      * cbn. intros E; inversion E; subst. split; [exact Et|lia].
      * cbn [nth_error firstn counted_size]. rewrite Et. intros H. apply IH in H. destruct H as [H1 H2]. split; [exact H1|lia].
Qed.

Lemma firstn_length_le {A} n (l : list A) : (n <= length l)%nat -> length (firstn n l) = n.
Proof. intros H. rewrite firstn_length. lia. Qed.

(* the independent predicate holds of the model's result *)
Lemma truncate_md_prefix_ok h es : 0 <= h ->
  prefix_ok h es (fst (truncate_md h es)) (snd (truncate_md h es)) = true.
Proof.
  intros Hh. unfold truncate_md, prefix_ok. destruct (h =? max_uint) eqn:Em; cbn [fst snd].
  - rewrite firstn_all, entries_eqb_refl, Z.ltb_irrefl. reflexivity.
  - pose proof (cut_index_le es h) as Hle.
    rewrite (firstn_length_le _ _ Hle), entries_eqb_refl, eqb_reflx. cbn [andb].
    apply andb_true_iff. split; [apply Z.leb_le, cut_index_fits, Hh|].
    destruct (nth_error es (cut_index h es)) as [e|] eqn:En; [|reflexivity].
    destruct (cut_index_next es h e En) as [Ht Hlt]. rewrite Ht. cbn [negb andb].
    apply Z.ltb_lt, Hlt.
Qed.

(* Prop-level reading *)
Theorem truncate_md_spec h es out t : 0 <= h -> h <> max_uint -> truncate_md h es = (out, t) ->
  exists rest, es = out ++ rest /\
    counted_size out <= h /\
    (t = true <-> rest <> []) /\
    match rest with
    | [] => True
    | e :: _ => is_trace e = false /\ h < counted_size out + e_size e
    end.
Proof.
  intros Hh Hm H. unfold truncate_md in H. apply Z.eqb_neq in Hm. rewrite Hm in H.
  apply pair_equal_spec in H. destruct H as [<- <-].
  exists (skipn (cut_index h es) es). split; [symmetry; apply firstn_skipn|].
  split; [apply cut_index_fits, Hh|].
  pose proof (cut_index_le es h) as Hle.
  assert (Hlen: length (skipn (cut_index h es) es) = (length es - cut_index h es)%nat)
    by apply skipn_length.
  split.
  - rewrite Z.ltb_lt. split.
    + intros Hlt E. rewrite E in Hlen. cbn in Hlen. lia.
    + intros Hne. destruct (skipn (cut_index h es) es); [congruence|]. cbn in Hlen. lia.
  - destruct (skipn (cut_index h es) es) as [|e r] eqn:Es; [exact I|].
    apply cut_index_next.
    rewrite <- (firstn_skipn (cut_index h es) es) at 1.
    rewrite nth_error_app2 by (rewrite firstn_length; lia).
    rewrite firstn_length_le, Nat.sub_diag, Es by exact Hle. reflexivity.
Qed.

Theorem truncate_md_unlimited es : truncate_md max_uint es = (es, false).
Proof. reflexivity. Qed.

Lemma counted_size_app a b : counted_size (a ++ b) = counted_size a + counted_size b.
Proof. induction a as [|e a IH]; cbn [app counted_size]; [lia|]. rewrite IH. lia. Qed.

Lemma counted_size_nonneg es : Forall (fun e => 0 <= e_vlen e) es -> 0 <= counted_size es.
Proof.
  induction 1 as [|e r He Hr IH]; cbn [counted_size]; [lia|].
  destruct (is_trace e); [lia|]. unfold e_size. lia.
Qed.

Lemma firstn_In_local {A} n : forall (l : list A) x, In x (firstn n l) -> In x l.
Proof.
  induction n as [|n IH]; intros [|y l] x H; cbn in *; try contradiction.
  destruct H as [H|H]; [left; exact H|right; apply IH, H].
Qed.

(* "longest": every longer prefix of the input has counted size above the limit *)
Theorem truncate_md_longest h es out t : 0 <= h -> h <> max_uint ->
  Forall (fun e => 0 <= e_vlen e) es -> truncate_md h es = (out, t) ->
  forall p more, es = p ++ more -> (length out < length p)%nat -> h < counted_size p.
Proof.
  intros Hh Hm Hnn H p more Hp Hlen.
  destruct (truncate_md_spec h es out t Hh Hm H) as (rest & Hes & _ & _ & Hnext).
  assert (Hpre: p = out ++ firstn (length p - length out) rest).
  { assert (E: firstn (length p) es = p) by (rewrite Hp, firstn_app, Nat.sub_diag, firstn_all; cbn; apply app_nil_r).
    rewrite <- E at 1. rewrite Hes, firstn_app, firstn_all2 by lia. reflexivity. }
  destruct rest as [|e r].
  { apply (f_equal (@length _)) in Hp. rewrite Hes, !app_length in Hp. cbn in Hp. lia. }
  destruct Hnext as [Ht Hlt].
  destruct (length p - length out)%nat as [|k] eqn:Ek; [lia|].
  rewrite Hpre. cbn [firstn]. rewrite counted_size_app. cbn [counted_size]. rewrite Ht.
  assert (0 <= counted_size (firstn k r)).
  { apply counted_size_nonneg. rewrite Hes in Hnn. apply Forall_app in Hnn as [_ Hr].
    apply Forall_inv_tail in Hr. apply Forall_forall. intros x Hx.
    rewrite Forall_forall in Hr. apply Hr. eapply firstn_In_local; exact Hx. }
  lia.
Qed.

(* ---------- grpc-trace-bin: not counted; kept only in front of the cut ---------- *)

Definition no_trace (es : list entry) : bool := forallb (fun e => negb (is_trace e)) es.

Lemma spec_keep_cut_no_trace es : forall limit, no_trace es = true -> spec_keep limit true es = [].
Proof.
  induction es as [|e r IH]; intros limit H; [reflexivity|].
  cbn [no_trace forallb] in H. apply andb_true_iff in H as [He Hr]. apply negb_true_iff in He.
  cbn [spec_keep]. rewrite He. apply IH, Hr.
Qed.

(* when no grpc-trace-bin entry lies behind the cut, the code does what the statement says *)
Lemma cut_matches_spec es : forall limit,
  no_trace (skipn (cut_index limit es) es) = true ->
  firstn (cut_index limit es) es = spec_keep limit false es.
Proof.
  induction es as [|e r IH]; intros limit H; [reflexivity|].
  cbn [cut_index spec_keep] in *. destruct (is_trace e) eqn:Et.
  - cbn [firstn skipn] in *. f_equal. apply IH, H.
  - destruct (e_size e >? limit).
    + cbn [firstn skipn] in *. symmetry. apply spec_keep_cut_no_trace.
      cbn [no_trace forallb] in H. apply andb_true_iff in H as [_ Hr]. exact Hr.
    + cbn [firstn skipn] in *. f_equal. apply IH, H.
Qed.

Theorem truncate_md_matches_statement h es : h <> max_uint ->
  no_trace (skipn (cut_index h es) es) = true -> truncate_md h es = spec_md h es.
Proof.
  intros Hm H. unfold truncate_md, spec_md. apply Z.eqb_neq in Hm. rewrite Hm.
  rewrite <- (cut_matches_spec es h H). rewrite firstn_length_le by apply cut_index_le.
  reflexivity.
Qed.

(* trace entries never consume budget *)
Theorem trace_not_counted e r limit : is_trace e = true ->
  cut_index limit (e :: r) = S (cut_index limit r) /\ counted_size (e :: r) = counted_size r.
Proof. intros H. cbn [cut_index counted_size]. rewrite H. split; [reflexivity|lia]. Qed.

(* REFUTED sentence "grpc-trace-bin always kept": limit 4, [abcdef:10 bytes; grpc-trace-bin:1] *)
Definition w_abcdef : entry := (bytes_of "abcdef", 10, 48).
Definition w_trace : entry := (k_trace, 1, 84).

Theorem trace_after_cut_refuted :
  exists h es, h <> max_uint /\ In w_trace es /\ is_trace w_trace = true /\
    truncate_md h es = ([], true) /\ spec_md h es = ([w_trace], true).
Proof.
  exists 4, [w_abcdef; w_trace]. split; [discriminate|]. split; [right; left; reflexivity|].
  vm_compute. repeat split.
Qed.

(* REFUTED for trailer entries: Build leaves their metadata alone *)
Theorem trailer_not_truncated_refuted :
  exists h es, h <> max_uint /\ h < counted_size es /\
    build_md 2 h es = (es, false) /\ spec_md h es = ([], true).
Proof.
  exists 4, [w_abcdef]. split; [discriminate|]. vm_compute. repeat split.
Qed.

Theorem build_md_header kind h es : kind <> 2 -> build_md kind h es = truncate_md h es.
Proof. intros H. unfold build_md. apply Z.eqb_neq in H. rewrite H. reflexivity. Qed.

Theorem build_md_trailer h es : build_md 2 h es = (es, false).
Proof. reflexivity. Qed.

(* ---------- truncateMessage ---------- *)

Theorem truncate_msg_spec m n : 0 <= m <= max_uint -> 0 <= n < 2 ^ 63 ->
  truncate_msg m n = (Z.min n m, m <? n).
Proof.
  intros Hm Hn. unfold truncate_msg, max_uint in *.
  destruct (Z.eqb_spec m (2 ^ 64 - 1)).
  - subst. rewrite Z.min_l by lia. destruct (Z.ltb_spec (2 ^ 64 - 1) n); [lia|reflexivity].
  - destruct (Z.geb_spec m n); destruct (Z.ltb_spec m n); try lia.
    + rewrite Z.min_l by lia. reflexivity.
    + rewrite Z.min_r by lia. reflexivity.
Qed.

(* ---------- omitted headers ---------- *)

Lemma prop_omit_implies_key_omit k : prop_omit k = true -> key_omit k = true.
Proof.
  unfold prop_omit, key_omit, prop_omit_names, omit_names. cbn [map existsb].
  destruct (list_eqb k (bytes_of "lb-token")); destruct (list_eqb k (bytes_of ":path"));
  destruct (list_eqb k (bytes_of ":authority")); destruct (list_eqb k (bytes_of "content-encoding"));
  destruct (list_eqb k (bytes_of "content-type")); destruct (list_eqb k (bytes_of "user-agent"));
  destruct (list_eqb k (bytes_of "te")); destruct (list_eqb k k_trace);
  destruct (has_prefix k_grpc_dash k); cbn; intros H; try reflexivity; try discriminate H.
Qed.

Lemma no_omitted_app a b : no_omitted (a ++ b) = no_omitted a && no_omitted b.
Proof. apply forallb_app. Qed.

Theorem md_to_proto_no_omitted md : no_omitted (md_to_proto md) = true.
Proof.
  induction md as [|[k vs] md IH]; [reflexivity|].
  cbn [md_to_proto flat_map fst snd]. rewrite no_omitted_app.
  fold (md_to_proto md). rewrite IH, andb_true_r.
  destruct (key_omit k) eqn:Ek; [reflexivity|].
  assert (Hp: prop_omit k = false).
  { destruct (prop_omit k) eqn:Ep; [|reflexivity]. apply prop_omit_implies_key_omit in Ep. congruence. }
  induction vs as [|v vs IHv]; [reflexivity|]. cbn [map no_omitted forallb e_key fst].
  rewrite Hp. cbn [negb andb]. exact IHv.
Qed.

Lemma no_omitted_firstn n es : no_omitted es = true -> no_omitted (firstn n es) = true.
Proof.
  revert es; induction n as [|n IH]; intros [|e es] H; cbn in *; try reflexivity.
  apply andb_true_iff in H as [He Hes]. unfold no_omitted in IH. rewrite He, IH by exact Hes.
  reflexivity.
Qed.

Lemma build_md_firstn kind h es : exists n, fst (build_md kind h es) = firstn n es.
Proof.
  unfold build_md, truncate_md. destruct (kind =? 2); [exists (length es); symmetry; apply firstn_all|].
  destruct (h =? max_uint); [exists (length es); symmetry; apply firstn_all|].
  eexists; reflexivity.
Qed.

(* what a real ClientHeader / ServerHeader / ServerTrailer config logs never contains an
   omitted header, for every map (in any iteration order), limit and kind *)
Theorem logged_no_omitted kind h md :
  no_omitted (fst (build_md kind h (md_to_proto md))) = true.
Proof.
  destruct (build_md_firstn kind h (md_to_proto md)) as [n ->].
  apply no_omitted_firstn, md_to_proto_no_omitted.
Qed.

(* readable form of prop_omit *)
Theorem prop_omit_spec k : prop_omit k = true <->
  ((exists s, k = k_grpc_dash ++ s) /\ k <> k_trace) \/
  In k (map bytes_of [":path"; ":authority"; "content-type"; "user-agent"; "te"; "lb-token"]%string).
Proof.
  assert (Hpre: forall p k, has_prefix p k = true <-> exists s, k = p ++ s).
  { induction p as [|x p IH]; intros k0.
    - cbn. split; [intros _; exists k0; reflexivity|reflexivity].
    - destruct k0 as [|y k0]; cbn [has_prefix].
      + split; [discriminate|intros [s Hs]; discriminate].
      + rewrite andb_true_iff, Z.eqb_eq, IH. split.
        * intros [-> [s ->]]. exists s. reflexivity.
        * intros [s Hs]. inversion Hs; subst. split; [reflexivity|exists s; reflexivity]. }
  unfold prop_omit. rewrite orb_true_iff, andb_true_iff, negb_true_iff, Hpre.
  assert (Hex: forall l, existsb (list_eqb k) l = true <-> In k l).
  { intros l. rewrite existsb_exists. split.
    - intros (x & Hin & He). apply list_eqb_spec in He. subst. exact Hin.
    - intros Hin. exists k. split; [exact Hin|apply list_eqb_refl]. }
  rewrite Hex. unfold prop_omit_names.
  assert (Hne: list_eqb k k_trace = false <-> k <> k_trace).
  { split.
    - intros H E. subst. rewrite list_eqb_refl in H. discriminate.
    - intros H. destruct (list_eqb k k_trace) eqn:E; [|reflexivity]. apply list_eqb_spec in E. contradiction. }
  rewrite Hne. reflexivity.
Qed.

(* ---------- bridge: the executable predicate holds on every model trace ---------- *)

Definition entry_ok (e : entry) : bool :=
  (0 <=? e_vlen e) && existsb (list_eqb (e_key e)) key_table.

Definition dop_wf (d : dop) : bool :=
  match d with
  | DMd kind h es => (0 <=? h) && forallb entry_ok es && small_count (Z.of_nat (length es))
  | DMsg m n => (0 <=? m) && (m <=? max_uint) && (0 <=? n) && (n <? 2 ^ 63)
  | DConv md => forallb entry_ok (md_to_proto md) && small_count (Z.of_nat (length (md_to_proto md)))
  | DHdr kind h md => (0 <=? h) && forallb entry_ok (md_to_proto md) &&
                      small_count (Z.of_nat (length (md_to_proto md)))
  end.

Definition op_wf (op : word) : bool :=
  match decode_op op with Some d => dop_wf d | None => false end.

Lemma key_table_roundtrip :
  forallb (fun k => match key_of (kid_of k) with Some k' => list_eqb k' k | None => false end)
          key_table = true.
Proof. vm_compute. reflexivity. Qed.

Lemma key_roundtrip k : existsb (list_eqb k) key_table = true -> key_of (kid_of k) = Some k.
Proof.
  intros H. apply existsb_exists in H as (x & Hin & He). apply list_eqb_spec in He. subst x.
  pose proof key_table_roundtrip as T. rewrite forallb_forall in T. specialize (T k Hin).
  destruct (key_of (kid_of k)) as [k'|]; [|discriminate]. apply list_eqb_spec in T. congruence.
Qed.

Lemma get_put_entries es : forall r, forallb entry_ok es = true ->
  get_entries (length es) (put_entries es ++ r) = Some (es, r).
Proof.
  induction es as [|e es IH]; intros r H; [reflexivity|].
  cbn [forallb] in H. apply andb_true_iff in H as [He Hes].
  unfold entry_ok in He. apply andb_true_iff in He as [Hv Hk]. apply Z.leb_le in Hv.
  cbn [put_entries flat_map length get_entries app]. fold (put_entries es).
  rewrite (key_roundtrip _ Hk), (IH r Hes).
  destruct (Z.ltb_spec (e_vlen e) 0); [lia|]. destruct e as [[k l] t]. reflexivity.
Qed.

Lemma small_count_spec n : small_count n = true <-> 0 <= n <= 1000.
Proof. unfold small_count. rewrite andb_true_iff, !Z.leb_le. tauto. Qed.

Lemma parse_obs_md out t : forallb entry_ok out = true ->
  small_count (Z.of_nat (length out)) = true ->
  parse_md_obs (obs_md (out, t)) = Some (t, out).
Proof.
  intros Hok Hs. unfold obs_md, parse_md_obs. cbn [fst snd]. rewrite Hs.
  assert ((b2z t =? 0) || (b2z t =? 1) = true) as -> by (destruct t; reflexivity).
  cbn [andb]. rewrite Nat2Z.id, <- (app_nil_r (put_entries out)), get_put_entries by exact Hok.
  destruct t; reflexivity.
Qed.

Lemma forallb_firstn {A} (f : A -> bool) n l : forallb f l = true -> forallb f (firstn n l) = true.
Proof.
  revert l; induction n as [|n IH]; intros [|x l] H; cbn in *; try reflexivity.
  apply andb_true_iff in H as [Hx Hl]. rewrite Hx. apply IH, Hl.
Qed.

Definition pass (c : Z * Z * bool) : bool := is_finding_clause c || snd c.

Lemma md_clauses_model kind h es : 0 <= h -> forallb entry_ok es = true ->
  small_count (Z.of_nat (length es)) = true ->
  forallb pass (md_clauses kind h es (obs_md (build_md kind h es))) = true.
Proof.
  intros Hh Hok Hs. unfold md_clauses.
  destruct (build_md_firstn kind h es) as [n Hn].
  destruct (build_md kind h es) as [out t] eqn:Eb. cbn [fst] in Hn.
  rewrite parse_obs_md.
  - unfold build_md in Eb. destruct (kind =? 2) eqn:Ek.
    + apply pair_equal_spec in Eb. destruct Eb as [<- <-].
      cbn [forallb pass snd is_finding_clause fst]. rewrite entries_eqb_refl.
      cbn [negb andb]. rewrite orb_true_r. reflexivity.
    + cbn [forallb pass snd is_finding_clause fst].
      pose proof (truncate_md_prefix_ok h es Hh) as P. rewrite Eb in P. cbn [fst snd] in P.
      rewrite P. reflexivity.
  - subst out. apply forallb_firstn, Hok.
  - subst out. apply small_count_spec in Hs. apply small_count_spec.
    rewrite firstn_length. lia.
Qed.

Lemma clause_dop_model op d : decode_op op = Some d -> dop_wf d = true ->
  forallb pass (clause_op op (run_dop d)) = true.
Proof.
  intros Hd Hw. unfold clause_op. rewrite Hd. destruct d as [kind h es|m n|md|kind h md]; cbn [dop_wf run_dop] in *.
  - apply andb_true_iff in Hw as [Hw Hs]. apply andb_true_iff in Hw as [Hh Hok].
    apply Z.leb_le in Hh. apply md_clauses_model; assumption.
  - apply andb_true_iff in Hw as [Hw H4]. apply andb_true_iff in Hw as [Hw H3].
    apply andb_true_iff in Hw as [H1 H2]. apply Z.leb_le in H1, H2, H3. apply Z.ltb_lt in H4.
    rewrite truncate_msg_spec by lia. cbn [forallb pass snd is_finding_clause fst].
    rewrite !Z.eqb_refl. reflexivity.
  - apply andb_true_iff in Hw as [Hok Hs]. rewrite Hs, Nat2Z.id.
    rewrite <- (app_nil_r (put_entries (md_to_proto md))), get_put_entries by exact Hok.
    cbn [forallb pass snd is_finding_clause fst].
    rewrite md_to_proto_no_omitted, entries_eqb_refl. reflexivity.
  - apply andb_true_iff in Hw as [Hw Hs]. apply andb_true_iff in Hw as [Hh Hok].
    apply Z.leb_le in Hh.
    destruct (build_md_firstn kind h (md_to_proto md)) as [n Hn].
    pose proof (logged_no_omitted kind h md) as Hno.
    destruct (build_md kind h (md_to_proto md)) as [out t] eqn:Eb. cbn [fst] in Hn, Hno.
    rewrite parse_obs_md.
    + cbn [forallb]. unfold pass at 1. cbn [snd]. rewrite Hno, orb_true_r. cbn [andb].
      rewrite <- Eb. apply md_clauses_model; assumption.
    + subst out. apply forallb_firstn, Hok.
    + subst out. apply small_count_spec in Hs. apply small_count_spec. rewrite firstn_length. lia.
Qed.

Theorem model_trace_holds ops : forallb op_wf ops = true ->
  exists obs, run ops = Some obs /\ holds_b ops obs = true.
Proof.
  induction ops as [|op ops IH]; cbn [forallb run]; intros H.
  - exists []. split; reflexivity.
  - apply andb_true_iff in H as [Hop Hr].
    destruct (IH Hr) as (obs & Hrun & Hh).
    unfold op_wf in Hop. destruct (decode_op op) as [d|] eqn:Hd; [|discriminate].
    unfold run_op. rewrite Hd, Hrun. exists (run_dop d :: obs). split; [reflexivity|].
    unfold holds_b in *. cbn [clauses]. rewrite forallb_app.
    fold pass. rewrite (clause_dop_model op d Hd Hop). exact Hh.
Qed.

(* the finding clauses do fail on model traces: the model has the reported behaviour *)
Theorem finding_clauses_fail_on_model :
  clause_op [1; 0; 4; 2; 17; 10; 48; 0; 1; 84] (run_dop (DMd 0 4 [w_abcdef; w_trace]))
    = [(1, 0, true); (4, 0, false)] /\
  clause_op [1; 2; 4; 1; 17; 10; 48] (run_dop (DMd 2 4 [w_abcdef]))
    = [(6, 0, true); (5, 0, false)].
Proof. vm_compute. split; reflexivity. Qed.

Lemma count_trace_no_trace es : no_trace es = true -> count_trace es = 0.
Proof.
  unfold count_trace. induction es as [|e r IH]; intros H; [reflexivity|].
  cbn [no_trace forallb] in H. apply andb_true_iff in H as [He Hr]. apply negb_true_iff in He.
  cbn [filter]. rewrite He. apply IH, Hr.
Qed.

(* clause 4 holds whenever no grpc-trace-bin entry lies behind the cut *)
Theorem trace_kept_before_cut h es : no_trace (skipn (cut_index h es) es) = true ->
  count_trace (firstn (cut_index h es) es) = count_trace es.
Proof.
  intros H.
  assert (E: count_trace es = count_trace (firstn (cut_index h es) es ++ skipn (cut_index h es) es))
    by (rewrite firstn_skipn; reflexivity).
  rewrite E. pose proof (count_trace_no_trace _ H) as Z0.
  unfold count_trace in *. rewrite filter_app, app_length, Nat2Z.inj_add. lia.
Qed.
