From Coq Require Import List ZArith Bool Lia Floats Permutation Sorting.Sorted.
From VLib Require Import Codec Machine.
From VModel Require Import RingHash.
Import ListNotations.
Open Scope Z_scope.

(* ================= ring.pick: binary search ================= *)

Lemma bsearch_spec : forall fuel (f : Z -> bool) n i j,
  (forall a b, 0 <= a <= b -> b < n -> f a = true -> f b = true) ->
  0 <= i <= j -> j <= n -> j - i < Z.of_nat fuel ->
  (forall k, 0 <= k < i -> f k = false) ->
  (forall k, j <= k < n -> f k = true) ->
  let r := bsearch fuel f i j in
  i <= r <= j /\ (forall k, 0 <= k < r -> f k = false) /\ (forall k, r <= k < n -> f k = true).
Proof.
  induction fuel as [|fu IH]; intros f n i j Hmono Hij Hjn Hfuel Hlo Hhi; cbn [bsearch].
  - cbn in Hfuel. lia.
  - destruct (Z.ltb_spec i j) as [Hlt|Hge].
    + assert (Hh: i <= (i + j) / 2 < j).
      { split; [apply Z.div_le_lower_bound; lia | apply Z.div_lt_upper_bound; lia]. }
      destruct (f ((i + j) / 2)) eqn:Ef.
      * destruct (IH f n i ((i + j) / 2) Hmono ltac:(lia) ltac:(lia) ltac:(lia) Hlo) as (A & B & C).
        { intros k Hk. apply (Hmono ((i + j) / 2) k); [lia|lia|exact Ef]. }
        cbv zeta in *. repeat split; try lia; assumption.
      * destruct (IH f n ((i + j) / 2 + 1) j Hmono ltac:(lia) ltac:(lia) ltac:(lia)) as (A & B & C).
        { intros k Hk. destruct (f k) eqn:Ek; [|reflexivity].
          rewrite (Hmono k ((i + j) / 2) ltac:(lia) ltac:(lia) Ek) in Ef. discriminate. }
        { exact Hhi. }
        cbv zeta in *. repeat split; try lia; assumption.
    + cbv zeta. repeat split; try lia; try assumption.
      intros k Hk. apply Hhi. lia.
Qed.

Definition hz (ring : list entry) (k : Z) : Z := ehash (znth ring k).

(* the ring is sorted by hash (index form) *)
Definition sorted_ix (ring : list entry) : Prop :=
  forall a b, 0 <= a <= b -> b < zlen ring -> hz ring a <= hz ring b.

(* "pick returns the first ring entry whose hash is at least the request hash",
   else (h above every hash) the first entry *)
Lemma pick_idx_spec : forall ring h, sorted_ix ring -> ring <> [] ->
  let i := pick_idx ring h in
  0 <= i < zlen ring /\
  ((h <= hz ring i /\ forall k, 0 <= k < i -> hz ring k < h) \/
   (i = 0 /\ forall k, 0 <= k < zlen ring -> hz ring k < h)).
Proof.
  intros ring h Hs Hne. unfold pick_idx.
  set (n := zlen ring). set (f := fun k => h <=? ehash (znth ring k)).
  assert (Hn: 0 < n).
  { unfold n, zlen. destruct ring; [congruence|]. cbn [length]. lia. }
  destruct (bsearch_spec (S (length ring)) f n 0 n) as (A & B & C).
  - intros a b Hab Hb Hfa. unfold f in *. apply Z.leb_le in Hfa. apply Z.leb_le.
    pose proof (Hs a b Hab Hb) as H1. unfold hz in H1. lia.
  - lia.
  - lia.
  - unfold n, zlen. lia.
  - intros; lia.
  - intros; lia.
  - cbv zeta in *. set (r := bsearch (S (length ring)) f 0 n) in *.
    destruct (Z.eqb_spec r n) as [E|E].
    + split; [lia|]. right. split; [reflexivity|].
      intros k Hk. specialize (B k ltac:(lia)). unfold f in B. apply Z.leb_gt in B. exact B.
    + split; [lia|]. left. split.
      * specialize (C r ltac:(lia)). unfold f in C. apply Z.leb_le in C. exact C.
      * intros k Hk. specialize (B k ltac:(lia)). unfold f in B. apply Z.leb_gt in B. exact B.
Qed.

Lemma znth_cons : forall e r k, 0 < k -> znth (e :: r) k = znth r (k - 1).
Proof.
  intros e r k Hk. unfold znth.
  replace (Z.to_nat k) with (S (Z.to_nat (k - 1))) by lia. reflexivity.
Qed.

Lemma zlen_cons : forall (A : Type) (e : A) r, zlen (e :: r) = zlen r + 1.
Proof. intros. unfold zlen. cbn [length]. lia. Qed.

Lemma zlen_nonneg : forall (A : Type) (l : list A), 0 <= zlen l.
Proof. intros. unfold zlen. lia. Qed.

Lemma first_ge_spec : forall l h i0,
  match first_ge l h i0 with
  | Some i => i0 <= i < i0 + zlen l /\ h <= hz l (i - i0) /\
              (forall k, 0 <= k < i - i0 -> hz l k < h)
  | None => forall k, 0 <= k < zlen l -> hz l k < h
  end.
Proof.
  induction l as [|e r IH]; intros h i0; cbn [first_ge].
  - intros k Hk. unfold zlen in Hk. cbn in Hk. lia.
  - pose proof (zlen_nonneg _ r) as Hr. rewrite zlen_cons.
    destruct (Z.leb_spec h (ehash e)) as [Hle|Hgt].
    + split; [lia|]. split.
      * replace (i0 - i0) with 0 by lia. exact Hle.
      * intros k Hk. lia.
    + specialize (IH h (i0 + 1)). destruct (first_ge r h (i0 + 1)) as [i|].
      * destruct IH as (A & B & C). split; [lia|]. split.
        -- unfold hz in *. rewrite znth_cons by lia.
           replace (i - i0 - 1) with (i - (i0 + 1)) by lia. exact B.
        -- intros k Hk. destruct (Z.eq_dec k 0) as [->|Hk0]; [exact Hgt|].
           unfold hz in *. rewrite znth_cons by lia. apply C. lia.
      * intros k Hk. destruct (Z.eq_dec k 0) as [->|Hk0]; [exact Hgt|].
        unfold hz in *. rewrite znth_cons by lia. apply IH. lia.
Qed.

(* the binary search agrees with the linear specification used on observed rings *)
Lemma pick_idx_is_spec : forall ring h, sorted_ix ring -> ring <> [] ->
  pick_idx ring h = spec_pick ring h.
Proof.
  intros ring h Hs Hne.
  destruct (pick_idx_spec ring h Hs Hne) as (Hr & Hcase). cbv zeta in *.
  set (i := pick_idx ring h) in *. unfold spec_pick.
  pose proof (first_ge_spec ring h 0) as Hf.
  destruct (first_ge ring h 0) as [j|].
  - destruct Hf as (A & B & C). rewrite Z.sub_0_r in *.
    destruct Hcase as [[D E]|[D E]].
    + destruct (Z.lt_trichotomy i j) as [L|[L|L]]; [|exact L|].
      * specialize (C i ltac:(lia)). lia.
      * specialize (E j ltac:(lia)). lia.
    + specialize (E j ltac:(lia)). lia.
  - destruct Hcase as [[D E]|[D E]]; [|exact D].
    specialize (Hf i ltac:(lia)). lia.
Qed.

(* ================= picker.Pick: the walks ================= *)

Lemma mod_wrap : forall x n, 0 < n -> n <= x < 2 * n -> x mod n = x - n.
Proof.
  intros x n Hn Hx. replace x with ((x - n) + 1 * n) at 1 by lia.
  rewrite Z_mod_plus_full. apply Z.mod_small. lia.
Qed.

(* reading the ring clockwise from [start]: position k of [rotate] is the ring entry
   (start + k) mod ringSize *)
Lemma rotate_nth : forall ring start k, 0 <= start < zlen ring -> (k < length ring)%nat ->
  nth k (rotate ring start) (0, 0) = znth ring ((start + Z.of_nat k) mod zlen ring).
Proof.
  intros ring start k Hs Hk. unfold rotate, znth, zlen in *.
  set (s := Z.to_nat start).
  assert (Hsn: (s < length ring)%nat) by (unfold s; lia).
  pose proof (firstn_skipn s ring) as Hsplit.
  assert (Hla: length (firstn s ring) = s) by (rewrite firstn_length; lia).
  assert (Hlb: length (skipn s ring) = (length ring - s)%nat) by (rewrite skipn_length; lia).
  assert (H1: forall j, (j < s)%nat -> nth j ring (0, 0) = nth j (firstn s ring) (0, 0)).
  { intros j Hj. pose proof (app_nth1 (firstn s ring) (skipn s ring) (0, 0) (n:=j) ltac:(lia)) as H.
    rewrite Hsplit in H. exact H. }
  assert (H2: forall j, (s <= j)%nat -> nth j ring (0, 0) = nth (j - s) (skipn s ring) (0, 0)).
  { intros j Hj. pose proof (app_nth2 (firstn s ring) (skipn s ring) (0, 0) (n:=j) ltac:(lia)) as H.
    rewrite Hsplit, Hla in H. exact H. }
  destruct (Nat.lt_ge_cases k (length ring - s)) as [Hlt|Hge].
  - rewrite app_nth1 by lia.
    rewrite Z.mod_small by lia.
    rewrite H2 by lia. f_equal. unfold s. lia.
  - rewrite app_nth2 by lia. rewrite Hlb.
    rewrite mod_wrap by lia.
    rewrite H1 by lia. f_equal. unfold s. lia.
Qed.

Lemma rotate_length : forall ring start, length (rotate ring start) = length ring.
Proof.
  intros. unfold rotate. rewrite app_length, skipn_length, firstn_length. lia.
Qed.

Definition req_ok (sts : list (Z * Z)) (e : entry) : bool :=
  let s := st_of sts (ekey e) in (s =? 0) || (s =? 1) || (s =? 2).

(* the request-hash loop, as a scan of the list of entries it visits *)
Lemma walk_req_list : forall ring sts start l fuel i,
  length l = fuel ->
  (forall k, (k < fuel)%nat ->
     znth ring ((start + (i + Z.of_nat k)) mod zlen ring) = nth k l (0, 0)) ->
  walk_req fuel ring sts start i =
  match find (fun e => negb (st_of sts (ekey e) =? 3)) l with
  | Some e => if req_ok sts e then (0, ekey e, []) else (3, -1, [])
  | None => (0, ekey (znth ring start), [])
  end.
Proof.
  intros ring sts start l. induction l as [|e r IH]; intros fuel i Hlen Hvis.
  - cbn in Hlen. subst fuel. reflexivity.
  - cbn [length] in Hlen. subst fuel. cbn [walk_req find].
    pose proof (Hvis 0%nat ltac:(lia)) as H0. cbn [nth] in H0.
    rewrite Z.add_0_r in H0. rewrite H0.
    unfold req_ok.
    destruct ((st_of sts (ekey e) =? 0) || (st_of sts (ekey e) =? 1) || (st_of sts (ekey e) =? 2)) eqn:Eok.
    + assert (st_of sts (ekey e) =? 3 = false) as ->.
      { apply Z.eqb_neq. apply orb_true_iff in Eok as [Eok|Eok];
          [apply orb_true_iff in Eok as [Eok|Eok]|]; apply Z.eqb_eq in Eok; lia. }
      cbn [negb]. rewrite Eok. reflexivity.
    + destruct (st_of sts (ekey e) =? 3) eqn:E3; cbn [negb].
      * apply IH; [reflexivity|].
        intros k Hk. specialize (Hvis (S k) ltac:(lia)). cbn [nth] in Hvis.
        rewrite <- Hvis. do 3 f_equal. lia.
      * rewrite Eok. reflexivity.
Qed.

Lemma pick_req_is_spec : forall ring sts start, 0 <= start < zlen ring ->
  walk_req (length ring) ring sts start 0 = spec_req ring sts start.
Proof.
  intros ring sts start Hs. unfold spec_req.
  rewrite (walk_req_list ring sts start (rotate ring start) (length ring) 0).
  - reflexivity.
  - apply rotate_length.
  - intros k Hk. rewrite rotate_nth by assumption. reflexivity.
Qed.

(* exits of the random-hash loop over a list of visited entries *)
Definition rnd_exits_l (sts : list (Z * Z)) (req : bool) (l : list entry) : list Z :=
  if req then [] else
  match find (fun e => st_of sts (ekey e) =? 0) (before_ready sts l) with
  | Some e => [ekey e]
  | None => []
  end.

Definition is_nil {A} (l : list A) : bool := match l with [] => true | _ => false end.

Lemma walk_rnd_list : forall ring sts start l fuel i req exits,
  length l = fuel ->
  (forall k, (k < fuel)%nat ->
     znth ring ((start + (i + Z.of_nat k)) mod zlen ring) = nth k l (0, 0)) ->
  walk_rnd fuel ring sts start i req exits =
  let X := rnd_exits_l sts req l in
  match find (fun e => st_of sts (ekey e) =? 2) l with
  | Some e => (0, ekey e, exits ++ X)
  | None => if req || negb (is_nil X) then (1, -1, exits ++ X)
            else (0, ekey (znth ring start), exits ++ X)
  end.
Proof.
  intros ring sts start l. induction l as [|e r IH]; intros fuel i req exits Hlen Hvis.
  - cbn in Hlen. subst fuel. cbn [walk_rnd find]. unfold rnd_exits_l. cbn [before_ready find].
    destruct req; cbn; rewrite app_nil_r; reflexivity.
  - cbn [length] in Hlen. subst fuel. cbn [walk_rnd find].
    pose proof (Hvis 0%nat ltac:(lia)) as H0. cbn [nth] in H0.
    rewrite Z.add_0_r in H0. rewrite H0.
    assert (Hvis': forall k, (k < length r)%nat ->
              znth ring ((start + (i + 1 + Z.of_nat k)) mod zlen ring) = nth k r (0, 0)).
    { intros k Hk. specialize (Hvis (S k) ltac:(lia)). cbn [nth] in Hvis.
      rewrite <- Hvis. do 3 f_equal. lia. }
    destruct (st_of sts (ekey e) =? 2) eqn:E2.
    + unfold rnd_exits_l. cbn [before_ready]. rewrite E2. cbn [find].
      destruct req; cbv zeta; rewrite app_nil_r; reflexivity.
    + destruct req; cbn [negb andb].
      * rewrite (IH (length r) (i + 1) true exits eq_refl Hvis'). reflexivity.
      * destruct (st_of sts (ekey e) =? 0) eqn:E0.
        -- rewrite (IH (length r) (i + 1) true (exits ++ [ekey e]) eq_refl Hvis').
           unfold rnd_exits_l. cbn [before_ready]. rewrite E2. cbn [find]. rewrite E0.
           cbv zeta. cbn [is_nil negb orb]. rewrite app_nil_r.
           destruct (find (fun e0 => st_of sts (ekey e0) =? 2) r); reflexivity.
        -- rewrite (IH (length r) (i + 1) false exits eq_refl Hvis').
           unfold rnd_exits_l. cbn [before_ready]. rewrite E2. cbn [find]. rewrite E0.
           reflexivity.
Qed.

Lemma pick_rnd_list : forall ring sts start, 0 <= start < zlen ring ->
  walk_rnd (length ring) ring sts start 0 (has_connecting sts) [] =
  let X := rnd_exits_l sts (has_connecting sts) (rotate ring start) in
  match find (fun e => st_of sts (ekey e) =? 2) (rotate ring start) with
  | Some e => (0, ekey e, X)
  | None => if has_connecting sts || negb (is_nil X) then (1, -1, X)
            else (0, ekey (znth ring start), X)
  end.
Proof.
  intros ring sts start Hs.
  rewrite (walk_rnd_list ring sts start (rotate ring start) (length ring) 0).
  - reflexivity.
  - apply rotate_length.
  - intros k Hk. rewrite rotate_nth by assumption. reflexivity.
Qed.

Lemma rnd_exits_is_spec : forall ring sts start,
  rnd_exits_l sts (has_connecting sts) (rotate ring start) = spec_rnd_exits ring sts start.
Proof. reflexivity. Qed.

(* the walk's (code, key) agree with the specification used on observed traces *)
Lemma pick_rnd_is_spec : forall ring sts start, 0 <= start < zlen ring ->
  let '(code, k, ex) := walk_rnd (length ring) ring sts start 0 (has_connecting sts) [] in
  (code, k) = spec_rnd ring sts start /\ ex = spec_rnd_exits ring sts start.
Proof.
  intros ring sts start Hs. rewrite pick_rnd_list by assumption. cbv zeta.
  rewrite rnd_exits_is_spec. unfold spec_rnd.
  destruct (find (fun e => st_of sts (ekey e) =? 2) (rotate ring start)).
  - split; reflexivity.
  - destruct (has_connecting sts); cbn [orb].
    + split; reflexivity.
    + destruct (spec_rnd_exits ring sts start); cbn [is_nil negb]; split; reflexivity.
Qed.

(* generic: what [find] returns is the first element satisfying the predicate *)
Lemma find_first : forall (A : Type) (p : A -> bool) l e, find p l = Some e ->
  exists l1 l2, l = l1 ++ e :: l2 /\ p e = true /\ forall x, In x l1 -> p x = false.
Proof.
  intros A p l. induction l as [|a r IH]; intros e H; cbn [find] in H; [discriminate|].
  destruct (p a) eqn:Ea.
  - inversion H; subst. exists [], r. repeat split; [exact Ea|intros x []].
  - destruct (IH e H) as (l1 & l2 & -> & Hp & Hall).
    exists (a :: l1), l2. repeat split; [exact Hp|].
    intros x [->|Hin]; [exact Ea|apply Hall, Hin].
Qed.

Lemma find_app_first : forall (A : Type) (p : A -> bool) l1 e l2,
  (forall x, In x l1 -> p x = false) -> p e = true -> find p (l1 ++ e :: l2) = Some e.
Proof.
  intros A p l1 e l2 Hall He. induction l1 as [|a r IH]; cbn [app find].
  - rewrite He. reflexivity.
  - rewrite (Hall a (or_introl eq_refl)). apply IH. intros x Hx. apply Hall. right. exact Hx.
Qed.

(* ---- readable statements ---- *)

(* request hash: the pick goes to the first entry clockwise that is not in
   TRANSIENT_FAILURE (READY, CONNECTING or IDLE) ... *)
Lemma walk_req_first_non_tf : forall ring sts start l1 e l2,
  0 <= start < zlen ring ->
  rotate ring start = l1 ++ e :: l2 ->
  (forall x, In x l1 -> st_of sts (ekey x) = 3) ->
  In (st_of sts (ekey e)) [0; 1; 2] ->
  walk_req (length ring) ring sts start 0 = (0, ekey e, []).
Proof.
  intros ring sts start l1 e l2 Hs Hrot Htf He.
  rewrite pick_req_is_spec by assumption. unfold spec_req. rewrite Hrot.
  rewrite (find_app_first _ (fun e0 => negb (st_of sts (ekey e0) =? 3)) l1 e l2).
  - cbn in He. destruct He as [E|[E|[E|[]]]]; rewrite <- E; reflexivity.
  - intros x Hx. rewrite (Htf x Hx). reflexivity.
  - cbn in He. destruct He as [E|[E|[E|[]]]]; rewrite <- E; reflexivity.
Qed.

(* ... and when every endpoint is in TRANSIENT_FAILURE, to the entry pick(h) itself *)
Lemma walk_req_all_tf : forall ring sts start,
  0 <= start < zlen ring ->
  (forall x, In x ring -> st_of sts (ekey x) = 3) ->
  walk_req (length ring) ring sts start 0 = (0, ekey (znth ring start), []).
Proof.
  intros ring sts start Hs Htf.
  rewrite pick_req_is_spec by assumption. unfold spec_req.
  destruct (find (fun e => negb (st_of sts (ekey e) =? 3)) (rotate ring start)) as [e|] eqn:Ef;
    [|reflexivity].
  apply find_some in Ef as [Hin Hp].
  assert (In e ring).
  { unfold rotate in Hin. apply in_app_or in Hin as [H|H].
    - rewrite <- (firstn_skipn (Z.to_nat start) ring). apply in_or_app. right. exact H.
    - rewrite <- (firstn_skipn (Z.to_nat start) ring). apply in_or_app. left. exact H. }
  rewrite (Htf e H) in Hp. discriminate.
Qed.

(* random hash: the pick goes to the first READY entry clockwise *)
Lemma walk_rnd_first_ready : forall ring sts start l1 e l2,
  0 <= start < zlen ring ->
  rotate ring start = l1 ++ e :: l2 ->
  (forall x, In x l1 -> st_of sts (ekey x) <> 2) ->
  st_of sts (ekey e) = 2 ->
  exists ex, walk_rnd (length ring) ring sts start 0 (has_connecting sts) [] = (0, ekey e, ex).
Proof.
  intros ring sts start l1 e l2 Hs Hrot Hnr He.
  rewrite pick_rnd_list by assumption. cbv zeta. rewrite Hrot.
  rewrite (find_app_first _ (fun e0 => st_of sts (ekey e0) =? 2) l1 e l2).
  - eexists. reflexivity.
  - intros x Hx. apply Z.eqb_neq. apply Hnr, Hx.
  - rewrite He. reflexivity.
Qed.

(* random hash: at most one connection attempt is triggered, none when an endpoint is
   already CONNECTING, and only on an IDLE endpoint of the ring *)
Lemma walk_rnd_exits : forall ring sts start code k ex,
  0 <= start < zlen ring ->
  walk_rnd (length ring) ring sts start 0 (has_connecting sts) [] = (code, k, ex) ->
  (length ex <= 1)%nat /\
  (has_connecting sts = true -> ex = []) /\
  (forall x, In x ex -> exists e, In e ring /\ ekey e = x /\ st_of sts x = 0).
Proof.
  intros ring sts start code k ex Hs Hw.
  pose proof (pick_rnd_is_spec ring sts start Hs) as H. rewrite Hw in H.
  destruct H as [_ ->]. unfold spec_rnd_exits.
  destruct (has_connecting sts).
  - repeat split; [cbn; lia|intros x []].
  - destruct (find (fun e => st_of sts (ekey e) =? 0) (before_ready sts (rotate ring start)))
      as [e|] eqn:Ef.
    + repeat split; [cbn; lia|discriminate|].
      intros x [<-|[]]. apply find_some in Ef as [Hin Hp]. exists e.
      split; [|split; [reflexivity|apply Z.eqb_eq, Hp]].
      assert (Hsub: forall l x0, In x0 (before_ready sts l) -> In x0 l).
      { induction l as [|a r IH]; cbn [before_ready]; [intros ? []|].
        intros x0 Hx. destruct (st_of sts (ekey a) =? 2); [destruct Hx|].
        destruct Hx as [->|Hx]; [left; reflexivity|right; apply IH, Hx]. }
      apply Hsub in Hin. unfold rotate in Hin. apply in_app_or in Hin as [H|H].
      * rewrite <- (firstn_skipn (Z.to_nat start) ring). apply in_or_app. right. exact H.
      * rewrite <- (firstn_skipn (Z.to_nat start) ring). apply in_or_app. left. exact H.
    + repeat split; [cbn; lia|intros x []].
Qed.

(* ================= determinism: the ring depends only on the endpoint set ================= *)

(* ---- weightSum ---- *)
Definition sumw (eps : list ep) : Z := fold_right (fun e s => wt e + s) 0 eps.

Lemma wsum_acc : forall eps a,
  fold_left (fun a e => u32 (a + wt e)) eps (u32 a) = u32 (a + sumw eps).
Proof.
  induction eps as [|e r IH]; intros a; cbn [fold_left sumw fold_right].
  - rewrite Z.add_0_r. reflexivity.
  - replace (u32 (u32 a + wt e)) with (u32 (a + wt e)).
    + rewrite IH. f_equal. fold (sumw r). lia.
    + unfold u32. rewrite Zplus_mod_idemp_l. reflexivity.
Qed.

Lemma wsum_sumw : forall eps, wsum eps = u32 (sumw eps).
Proof. intros. unfold wsum. change 0 with (u32 0) at 1. rewrite wsum_acc. reflexivity. Qed.

Lemma sumw_perm : forall l l', Permutation l l' -> sumw l = sumw l'.
Proof.
  intros l l' H. induction H; cbn [sumw fold_right] in *; try fold (sumw l) in *;
    try fold (sumw l') in *; lia.
Qed.

Lemma wsum_perm : forall l l', Permutation l l' -> wsum l = wsum l'.
Proof. intros. rewrite !wsum_sumw. f_equal. apply sumw_perm. assumption. Qed.

(* ---- the sort by hash key ---- *)
Lemma ins_ep_comm : forall x y l, key x <> key y ->
  ins_ep x (ins_ep y l) = ins_ep y (ins_ep x l).
Proof.
  intros x y l Hxy. induction l as [|a r IH]; cbn [ins_ep].
  - destruct (Z.leb_spec (key x) (key y)), (Z.leb_spec (key y) (key x)); try lia; reflexivity.
  - destruct (Z.leb_spec (key y) (key a)) as [Hya|Hya], (Z.leb_spec (key x) (key a)) as [Hxa|Hxa];
      cbn [ins_ep];
      destruct (Z.leb_spec (key x) (key y)), (Z.leb_spec (key y) (key x)); try lia;
      repeat match goal with
             | |- context [key ?u <=? key ?v] => destruct (Z.leb_spec (key u) (key v)); try lia
             end; cbn [ins_ep]; try reflexivity;
      repeat match goal with
             | |- context [key ?u <=? key ?v] => destruct (Z.leb_spec (key u) (key v)); try lia
             end; try reflexivity; try (rewrite IH; reflexivity).
Qed.

Lemma sort_eps_perm : forall l l', Permutation l l' -> NoDup (map key l) ->
  sort_eps l = sort_eps l'.
Proof.
  intros l l' H. induction H; intros Hnd.
  - reflexivity.
  - cbn [sort_eps]. rewrite IHPermutation; [reflexivity|]. cbn in Hnd. inversion Hnd; assumption.
  - cbn [sort_eps]. apply ins_ep_comm. cbn in Hnd. inversion Hnd as [|? ? Hn _]; subst.
    intros E. apply Hn. left. symmetry. exact E.
  - rewrite IHPermutation1 by assumption. apply IHPermutation2.
    eapply Permutation_NoDup; [|exact Hnd]. apply Permutation_map. assumption.
Qed.

(* ---- the minimum of the normalized weights ---- *)

(* positive finite float64 *)
Definition pos_fin (x : float) : bool :=
  match Prim2SF x with S754_finite false _ _ => true | _ => false end.

Definition fkey (x : float) : Z * Z :=
  match Prim2SF x with S754_finite _ m e => (e, Zpos m) | _ => (0, 0) end.

Definition lexb (a b : Z * Z) : bool :=
  (fst a <? fst b) || ((fst a =? fst b) && (snd a <? snd b)).

Lemma ltb_lexb : forall x y, pos_fin x = true -> pos_fin y = true ->
  PrimFloat.ltb x y = lexb (fkey x) (fkey y).
Proof.
  intros x y Hx Hy. rewrite ltb_spec. unfold pos_fin, fkey in *.
  destruct (Prim2SF x) as [| | |[|] m1 e1]; try discriminate.
  destruct (Prim2SF y) as [| | |[|] m2 e2]; try discriminate.
  unfold SFltb, SFcompare, lexb. cbn [fst snd].
  destruct (Z.compare_spec e1 e2) as [E|E|E].
  - subst. rewrite Z.ltb_irrefl, Z.eqb_refl. cbn [orb andb].
    change (Pos.compare_cont Eq m1 m2) with (Pos.compare m1 m2).
    destruct (Pos.compare_spec m1 m2) as [F|F|F].
    + subst. rewrite Z.ltb_irrefl. reflexivity.
    + symmetry. apply Z.ltb_lt. lia.
    + symmetry. apply Z.ltb_ge. lia.
  - destruct (Z.ltb_spec e1 e2); [reflexivity|lia].
  - destruct (Z.ltb_spec e1 e2); [lia|]. destruct (Z.eqb_spec e1 e2); [lia|]. reflexivity.
Qed.

Lemma fkey_inj : forall x y, pos_fin x = true -> pos_fin y = true -> fkey x = fkey y -> x = y.
Proof.
  intros x y Hx Hy H. rewrite <- (SF2Prim_Prim2SF x), <- (SF2Prim_Prim2SF y).
  unfold pos_fin, fkey in *.
  destruct (Prim2SF x) as [| | |[|] m1 e1]; try discriminate.
  destruct (Prim2SF y) as [| | |[|] m2 e2]; try discriminate.
  inversion H; subst. reflexivity.
Qed.

Lemma fmin_good : forall x y, pos_fin x = true -> pos_fin y = true ->
  fmin x y = if PrimFloat.ltb x y then x else y.
Proof.
  intros x y Hx Hy. unfold fmin, pos_fin in *.
  destruct (Prim2SF x) as [| | |[|] m1 e1]; try discriminate.
  destruct (Prim2SF y) as [| | |[|] m2 e2]; try discriminate.
  reflexivity.
Qed.

Lemma fmin_pos_fin : forall x y, pos_fin x = true -> pos_fin y = true -> pos_fin (fmin x y) = true.
Proof. intros x y Hx Hy. rewrite fmin_good by assumption. destruct (PrimFloat.ltb x y); assumption. Qed.

Lemma lexb_le_lt : forall m a b, lexb m b = false -> lexb m a = true -> lexb b a = true.
Proof.
  intros [e1 m1] [e2 m2] [e3 m3]. unfold lexb. cbn [fst snd]. intros H1 H2.
  apply orb_false_iff in H1 as [A B]. apply Z.ltb_ge in A.
  apply orb_true_iff. apply orb_true_iff in H2 as [C|C].
  - apply Z.ltb_lt in C. destruct (Z.eqb_spec e1 e3) as [E|E]; cbn [andb] in B.
    + apply Z.ltb_ge in B. left. apply Z.ltb_lt. lia.
    + left. apply Z.ltb_lt. lia.
  - apply andb_true_iff in C as [C D]. apply Z.eqb_eq in C. apply Z.ltb_lt in D.
    destruct (Z.eqb_spec e1 e3) as [E|E]; cbn [andb] in B.
    + apply Z.ltb_ge in B. right. apply andb_true_iff. split; [apply Z.eqb_eq|apply Z.ltb_lt]; lia.
    + left. apply Z.ltb_lt. lia.
Qed.

Lemma lexb_asym : forall a b, lexb a b = true -> lexb b a = false.
Proof.
  intros [e1 m1] [e2 m2]. unfold lexb. cbn [fst snd]. intros H.
  apply orb_false_iff. apply orb_true_iff in H as [C|C].
  - apply Z.ltb_lt in C. split; [apply Z.ltb_ge; lia|].
    destruct (Z.eqb_spec e2 e1); [lia|reflexivity].
  - apply andb_true_iff in C as [C D]. apply Z.eqb_eq in C. apply Z.ltb_lt in D.
    split; [apply Z.ltb_ge; lia|]. apply andb_false_iff. right. apply Z.ltb_ge. lia.
Qed.

Lemma lexb_antisym : forall a b, lexb a b = false -> lexb b a = false -> a = b.
Proof.
  intros [e1 m1] [e2 m2]. unfold lexb. cbn [fst snd]. intros H1 H2.
  apply orb_false_iff in H1 as [A B]. apply orb_false_iff in H2 as [C D].
  apply Z.ltb_ge in A, C. assert (e1 = e2) by lia. subst.
  rewrite Z.eqb_refl in B, D. cbn [andb] in B, D. apply Z.ltb_ge in B, D.
  f_equal. lia.
Qed.

Lemma fmin_rcomm : forall m a b, pos_fin m = true -> pos_fin a = true -> pos_fin b = true ->
  fmin (fmin m a) b = fmin (fmin m b) a.
Proof.
  intros m a b Hm Ha Hb.
  rewrite (fmin_good m a), (fmin_good m b) by assumption.
  destruct (PrimFloat.ltb m a) eqn:Ema, (PrimFloat.ltb m b) eqn:Emb.
  - rewrite !fmin_good by assumption. rewrite Ema, Emb. reflexivity.
  - rewrite !fmin_good by assumption. rewrite Emb.
    rewrite ltb_lexb in Ema, Emb by assumption.
    rewrite (ltb_lexb b a) by assumption. rewrite (lexb_le_lt _ _ _ Emb Ema). reflexivity.
  - rewrite !fmin_good by assumption. rewrite Ema.
    rewrite ltb_lexb in Ema, Emb by assumption.
    rewrite (ltb_lexb a b) by assumption. rewrite (lexb_le_lt _ _ _ Ema Emb). reflexivity.
  - rewrite !fmin_good by assumption.
    rewrite (ltb_lexb a b), (ltb_lexb b a) by assumption.
    destruct (lexb (fkey a) (fkey b)) eqn:Eab.
    + rewrite (lexb_asym _ _ Eab). reflexivity.
    + destruct (lexb (fkey b) (fkey a)) eqn:Eba; [reflexivity|].
      symmetry. apply fkey_inj; try assumption. apply lexb_antisym; assumption.
Qed.

Lemma fold_fmin_perm : forall (g : ep -> float) l l', Permutation l l' ->
  (forall e, In e l -> pos_fin (g e) = true) ->
  forall m, pos_fin m = true ->
  fold_left (fun m e => fmin m (g e)) l m = fold_left (fun m e => fmin m (g e)) l' m.
Proof.
  intros g l l' H. induction H; intros Hg m Hm; cbn [fold_left].
  - reflexivity.
  - apply IHPermutation.
    + intros e He. apply Hg. right. exact He.
    + apply fmin_pos_fin; [exact Hm|]. apply Hg. left. reflexivity.
  - rewrite fmin_rcomm; [reflexivity|exact Hm| |]; apply Hg; cbn; auto.
  - rewrite IHPermutation1 by assumption. apply IHPermutation2; [|exact Hm].
    intros e He. apply Hg. eapply Permutation_in; [apply Permutation_sym; eassumption|exact He].
Qed.

(* every normalized weight is a positive finite float64 (true whenever 1 <= w <= sum < 2^32;
   here a computable hypothesis) *)
Definition nw_good (eps : list ep) : bool :=
  forallb (fun e => pos_fin (nwt (wsum eps) e)) eps.

Lemma minw_perm : forall l l', Permutation l l' -> nw_good l = true ->
  minw (wsum l') l' = minw (wsum l) l.
Proof.
  intros l l' H Hg. rewrite <- (wsum_perm l l' H). unfold minw. symmetry.
  apply fold_fmin_perm; [exact H| |reflexivity].
  intros e He. unfold nw_good in Hg. rewrite forallb_forall in Hg. apply Hg, He.
Qed.

(* "The ring built for a set of endpoints and weights depends only on that set (not on
   update order)": any two iteration orders of the endpoint map give the same ring *)
Lemma new_ring_perm : forall mn mx l l', Permutation l l' -> NoDup (map key l) ->
  nw_good l = true -> new_ring mn mx l' = new_ring mn mx l.
Proof.
  intros mn mx l l' H Hnd Hg. unfold new_ring, build_raw.
  rewrite (minw_perm l l' H Hg), <- (wsum_perm l l' H), <- (sort_eps_perm l l' H Hnd).
  reflexivity.
Qed.

(* ================= structure of the ring ================= *)

Definition hle (a b : entry) : Prop := ehash a <= ehash b.

Lemma ins_it_perm : forall e l, Permutation (ins_it e l) (e :: l).
Proof.
  intros e l. induction l as [|x r IH]; cbn [ins_it]; [apply Permutation_refl|].
  destruct (ehash e <=? ehash x); [apply Permutation_refl|].
  eapply perm_trans; [apply perm_skip, IH|apply perm_swap].
Qed.

Lemma sort_items_perm : forall l, Permutation (sort_items l) l.
Proof.
  induction l as [|e r IH]; cbn [sort_items]; [apply perm_nil|].
  eapply perm_trans; [apply ins_it_perm|apply perm_skip, IH].
Qed.

Lemma ins_it_sorted : forall e l, StronglySorted hle l -> StronglySorted hle (ins_it e l).
Proof.
  intros e l H. induction H as [|x r Hs IH Hall]; cbn [ins_it].
  - apply SSorted_cons; [apply SSorted_nil|apply Forall_nil].
  - destruct (Z.leb_spec (ehash e) (ehash x)) as [Hle|Hgt].
    + apply SSorted_cons; [apply SSorted_cons; assumption|].
      apply Forall_cons; [exact Hle|].
      eapply Forall_impl; [|exact Hall]. unfold hle. intros a Ha. lia.
    + apply SSorted_cons; [exact IH|].
      rewrite Forall_forall. intros a Ha.
      apply (Permutation_in _ (ins_it_perm e r)) in Ha. destruct Ha as [<-|Ha].
      * unfold hle. lia.
      * rewrite Forall_forall in Hall. apply Hall, Ha.
Qed.

Lemma sort_items_sorted : forall l, StronglySorted hle (sort_items l).
Proof.
  induction l as [|e r IH]; cbn [sort_items]; [apply SSorted_nil|apply ins_it_sorted, IH].
Qed.

Lemma znth_in : forall l k, 0 <= k < zlen l -> In (znth l k) l.
Proof. intros l k Hk. unfold znth, zlen in *. apply nth_In. lia. Qed.

Lemma ssorted_ix : forall l, StronglySorted hle l -> sorted_ix l.
Proof.
  intros l H. induction H as [|x r Hs IH Hall]; intros a b Hab Hb.
  - unfold zlen in Hb. cbn in Hb. lia.
  - rewrite zlen_cons in Hb. unfold hz.
    destruct (Z.eq_dec a b) as [->|Hne]; [lia|].
    destruct (Z.eq_dec a 0) as [->|Ha0].
    + rewrite (znth_cons x r b) by lia. change (znth (x :: r) 0) with x.
      rewrite Forall_forall in Hall. apply Hall. apply znth_in. lia.
    + rewrite !znth_cons by lia. apply IH; lia.
Qed.

(* the inner loop emits the hashes of idx 0, 1, ..., n-1 of one endpoint *)
Lemma inner_spec : forall k tbl cur tgt c es, inner k tbl cur tgt = Some (c, es) ->
  exists n, (n <= length tbl)%nat /\ es = map (pair k) (firstn n tbl).
Proof.
  intros k tbl. induction tbl as [|h r IH]; intros cur tgt c es H; cbn [inner] in H.
  - destruct (PrimFloat.ltb cur tgt); [discriminate|]. inversion H; subst.
    exists 0%nat. split; [cbn; lia|reflexivity].
  - destruct (PrimFloat.ltb cur tgt).
    + destruct (inner k r (cur + 1)%float tgt) as [[c' es']|] eqn:E; [|discriminate].
      inversion H; subst. destruct (IH _ _ _ _ E) as (n & Hn & ->).
      exists (S n). split; [cbn; lia|reflexivity].
    + inversion H; subst. exists 0%nat. split; [cbn; lia|reflexivity].
Qed.

(* ... and their number is the number of float64 steps cur, cur+1, ... below the target *)
Fixpoint fiter (n : nat) (x : float) : float :=
  match n with O => x | S n' => fiter n' (x + 1)%float end.

Lemma inner_count : forall k tbl cur tgt c es, inner k tbl cur tgt = Some (c, es) ->
  c = fiter (length es) cur /\ PrimFloat.ltb c tgt = false /\
  forall j, (j < length es)%nat -> PrimFloat.ltb (fiter j cur) tgt = true.
Proof.
  intros k tbl. induction tbl as [|h r IH]; intros cur tgt c es H; cbn [inner] in H.
  - destruct (PrimFloat.ltb cur tgt) eqn:El; [discriminate|]. inversion H; subst.
    cbn. repeat split; [exact El|intros; lia].
  - destruct (PrimFloat.ltb cur tgt) eqn:El.
    + destruct (inner k r (cur + 1)%float tgt) as [[c' es']|] eqn:E; [|discriminate].
      inversion H; subst. destruct (IH _ _ _ _ E) as (A & B & C).
      cbn [length fiter]. repeat split; [exact A|exact B|].
      intros j Hj. destruct j as [|j]; [exact El|]. cbn [fiter]. apply C. lia.
    + inversion H; subst. cbn. repeat split; [exact El|intros; lia].
Qed.

(* the items before the sort: for every endpoint in hash-key order, a prefix of its table *)
Inductive segs_of : list ep -> list entry -> Prop :=
| so_nil : segs_of [] []
| so_cons : forall e r n es, (n <= length (hs e))%nat -> segs_of r es ->
    segs_of (e :: r) (map (pair (key e)) (firstn n (hs e)) ++ es).

Lemma outer_spec : forall sc s eps cur tgt c t es,
  outer sc s eps cur tgt = Some (c, t, es) -> segs_of eps es.
Proof.
  intros sc s eps. induction eps as [|e r IH]; intros cur tgt c t es H; cbn [outer] in H.
  - inversion H; subst. apply so_nil.
  - destruct (inner (key e) (hs e) cur (tgt + sc * nwt s e)%float) as [[c1 es1]|] eqn:E1; [|discriminate].
    destruct (outer sc s r c1 (tgt + sc * nwt s e)%float) as [[[c2 t2] es2]|] eqn:E2; [|discriminate].
    inversion H; subst. destruct (inner_spec _ _ _ _ _ _ E1) as (n & Hn & ->).
    apply so_cons; [exact Hn|]. eapply IH, E2.
Qed.

(* the ring: sorted by hash, and a rearrangement of those per-endpoint prefixes *)
Lemma ring_structure : forall mn mx eps ring, new_ring mn mx eps = Some ring ->
  exists es, segs_of (sort_eps eps) es /\ Permutation ring es /\ sorted_ix ring.
Proof.
  intros mn mx eps ring H. unfold new_ring, build_raw in H.
  destruct (outer _ _ (sort_eps eps) 0%float 0%float) as [[[c t] es]|] eqn:E; [|discriminate].
  inversion H; subst. exists es. split; [eapply outer_spec, E|].
  split; [apply sort_items_perm|apply ssorted_ix, sort_items_sorted].
Qed.

(* ================= the clauses of pick / Pick hold on every model trace ================= *)

Definition hash_ok (h : Z) : Prop := 0 <= h < 2^64.
Definition ep_ok (e : ep) : Prop := Forall hash_ok (hs e).
Definition cfg_ok (c : config) : Prop := Forall ep_ok (eps_all c).

Lemma take_eps_ok : forall n w l, take_eps n w = Some l -> Forall ep_ok l.
Proof.
  induction n as [|n IH]; intros w l H; cbn [take_eps] in H.
  - destruct w; [|discriminate]. inversion H. apply Forall_nil.
  - destruct w as [|k [|wgt r]]; try discriminate.
    destruct (get_bytes r) as [[tbl r']|]; [|discriminate].
    destruct (take_eps n r') as [l'|] eqn:E; [|discriminate].
    inversion H; subst. apply Forall_cons; [|eapply IH, E].
    unfold ep_ok. cbn [hs]. rewrite Forall_forall. intros h Hin.
    apply in_map_iff in Hin as (x & <- & _). unfold hash_ok, u64. apply Z.mod_pos_bound. lia.
Qed.

Lemma decode_cfg_ok : forall w c, decode_cfg w = Some c -> cfg_ok c.
Proof.
  intros w c H. unfold decode_cfg in H. destruct w as [|mn [|mx [|n r]]]; try discriminate.
  destruct (_ && _); [|discriminate].
  destruct (take_eps (Z.to_nat n) r) as [l|] eqn:E; [|discriminate].
  inversion H; subst. unfold cfg_ok. cbn [eps_all]. eapply take_eps_ok, E.
Qed.

Lemma nth_ep_ok : forall c i, cfg_ok c -> ep_ok (nth_ep c i).
Proof.
  intros c i H. unfold nth_ep.
  destruct (nth_in_or_default (Z.to_nat i) (eps_all c) (mkep 0 1 [])) as [Hin| ->].
  - unfold cfg_ok in H. rewrite Forall_forall in H. apply H, Hin.
  - unfold ep_ok. cbn. apply Forall_nil.
Qed.

Lemma segs_hash_ok : forall eps es, segs_of eps es -> Forall ep_ok eps ->
  Forall (fun e => hash_ok (ehash e)) es.
Proof.
  intros eps es H. induction H as [|e r n es Hn Hs IH]; intros Hok; [apply Forall_nil|].
  inversion Hok; subst. apply Forall_app. split; [|apply IH; assumption].
  rewrite Forall_forall. intros x Hx. apply in_map_iff in Hx as (h & <- & Hin).
  cbn. unfold ep_ok in H1. rewrite Forall_forall in H1. apply H1.
  rewrite <- (firstn_skipn n (hs e)). apply in_or_app. left. exact Hin.
Qed.

Lemma u64_i64 : forall h, hash_ok h -> u64 (i64 h) = h.
Proof.
  intros h Hh. unfold u64, i64, hash_ok in *.
  rewrite Zminus_mod_idemp_l. replace (h + 2 ^ 63 - 2 ^ 63) with h by lia.
  apply Z.mod_small. exact Hh.
Qed.

Lemma decode_ring_obs : forall r, Forall (fun e => hash_ok (ehash e)) r ->
  decode_ring (flat_map (fun e => [ekey e; i64 (ehash e)]) r) = Some r.
Proof.
  induction r as [|[k h] r IH]; intros H; [reflexivity|].
  inversion H; subst. cbn [flat_map app decode_ring]. rewrite (IH H3).
  cbn [ekey ehash fst snd] in *. rewrite u64_i64 by assumption. reflexivity.
Qed.

Lemma ring_of_obs_ring_obs : forall r, Forall (fun e => hash_ok (ehash e)) r ->
  ring_of_obs (ring_obs r) = Some r.
Proof.
  intros r H. unfold ring_of_obs, ring_obs. rewrite (decode_ring_obs r H).
  rewrite Z.eqb_refl. reflexivity.
Qed.

Lemma word_eqb_refl : forall w, word_eqb w w = true.
Proof. induction w as [|x w IH]; [reflexivity|]. cbn. rewrite Z.eqb_refl, IH. reflexivity. Qed.

(* link between the model state and the state of the clause evaluator *)
Definition Inv (s : mstate) (cs : cstate) : Prop :=
  cs_ring cs = cur_ring s /\ cs_idx cs = cur_idx s /\ sorted_ix (cur_ring s) /\
  Forall (fun e => hash_ok (ehash e)) (cur_ring s).

Definition walk_ok (cl : list (Z * Z * bool)) : bool :=
  forallb (fun c => negb (walk_clause (fst (fst c))) || snd c) cl.

Lemma select_ok : forall c idxs eps, cfg_ok c -> select c idxs = Some eps -> Forall ep_ok eps.
Proof.
  intros c idxs eps Hc H. unfold select in H.
  assert (eps = map (nth_ep c) idxs) as ->.
  { destruct idxs as [|i r]; [discriminate|]. destruct (_ && _); [|discriminate].
    inversion H. reflexivity. }
  rewrite Forall_forall. intros e He. apply in_map_iff in He as (j & <- & _).
  apply nth_ep_ok, Hc.
Qed.

Lemma sort_eps_perm_self : forall l, Permutation (sort_eps l) l.
Proof.
  induction l as [|e r IH]; cbn [sort_eps]; [apply perm_nil|].
  assert (Hins: forall x l0, Permutation (ins_ep x l0) (x :: l0)).
  { intros x l0. induction l0 as [|y r0 IH0]; cbn [ins_ep]; [apply Permutation_refl|].
    destruct (key x <=? key y); [apply Permutation_refl|].
    eapply perm_trans; [apply perm_skip, IH0|apply perm_swap]. }
  eapply perm_trans; [apply Hins|apply perm_skip, IH].
Qed.

Lemma new_ring_inv : forall c idxs eps ring, cfg_ok c -> select c idxs = Some eps ->
  new_ring (minR c) (maxR c) eps = Some ring ->
  sorted_ix ring /\ Forall (fun e => hash_ok (ehash e)) ring.
Proof.
  intros c idxs eps ring Hc Hsel Hr.
  destruct (ring_structure _ _ _ _ Hr) as (es & Hseg & Hperm & Hsorted).
  split; [exact Hsorted|].
  assert (Hes: Forall (fun e => hash_ok (ehash e)) es).
  { apply (segs_hash_ok _ _ Hseg). pose proof (select_ok _ _ _ Hc Hsel) as Hok.
    rewrite Forall_forall in *. intros e He. apply Hok.
    eapply Permutation_in; [apply sort_eps_perm_self|exact He]. }
  rewrite Forall_forall in *. intros e He. apply Hes.
  eapply Permutation_in; [exact Hperm|exact He].
Qed.

Lemma pick_idx_range : forall r h, sorted_ix r -> r <> [] -> 0 <= pick_idx r h < zlen r.
Proof. intros r h Hs Hne. destruct (pick_idx_spec r h Hs Hne) as [H _]. exact H. Qed.

Lemma cl_req_model : forall r sts h, sorted_ix r -> r <> [] ->
  cl_req r sts h (presult_obs (pick_req r sts h)) = true.
Proof.
  intros r sts h Hs Hne. unfold cl_req, pick_req.
  rewrite pick_req_is_spec by (apply pick_idx_range; assumption).
  rewrite (pick_idx_is_spec _ h Hs Hne). apply word_eqb_refl.
Qed.

Lemma cl_rnd_model : forall r sts h, sorted_ix r -> r <> [] ->
  cl_rnd_a r sts h (presult_obs (pick_rnd r sts h)) = true /\
  cl_rnd_b r sts h (presult_obs (pick_rnd r sts h)) = true.
Proof.
  intros r sts h Hs Hne. unfold pick_rnd.
  pose proof (pick_idx_range _ h Hs Hne) as Hi.
  pose proof (pick_rnd_is_spec r sts _ Hi) as Hspec.
  destruct (walk_rnd (length r) r sts (pick_idx r h) 0 (has_connecting sts) []) as [[code k] ex] eqn:Ew.
  destruct Hspec as [Hck Hex].
  pose proof (walk_rnd_exits _ _ _ _ _ _ Hi Ew) as (Hlen & Hconn & _).
  cbn [presult_obs]. unfold cl_rnd_a, cl_rnd_b.
  rewrite <- (pick_idx_is_spec _ h Hs Hne). rewrite <- Hck, <- Hex.
  rewrite !Z.eqb_refl, word_eqb_refl. split; [reflexivity|].
  assert (zlen ex <=? 1 = true) as -> by (apply Z.leb_le; unfold zlen; lia).
  destruct (has_connecting sts) eqn:Ehc.
  - rewrite (Hconn eq_refl). reflexivity.
  - reflexivity.
Qed.

(* ================= concrete witnesses ================= *)

(* five endpoints of weight 1 (keys 1..5; any hash table will do) *)
Definition wit5 : list ep :=
  map (fun i => mkep i 1 [100 * i + 1; 100 * i + 2; 100 * i + 3]) [1; 2; 3; 4; 5].

(* "has between min_ring_size and max_ring_size entries" is false of newRing: with
   min = max = 6 (and 5 <= 6 endpoints) the ring has 7 entries, because the float64 sum
   of the five targets 6 * 0.2 ends at 6.000000000000001 *)
Definition wit5_ring : list entry :=
  [(1, 101); (1, 102); (2, 201); (3, 301); (4, 401); (5, 501); (5, 502)].

Lemma size_max_refuted : exists eps ring,
  weights_ok eps = true /\ distinct (map key eps) = true /\ nw_good eps = true /\
  zlen eps <= 6 /\ new_ring 6 6 eps = Some ring /\ zlen ring = 7 /\ overshoot 6 6 eps = true.
Proof.
  exists wit5, wit5_ring.
  split; [vm_compute; reflexivity|].
  split; [vm_compute; reflexivity|].
  split; [vm_compute; reflexivity|].
  split; [vm_compute; discriminate|].
  split; [vm_compute; reflexivity|].
  split; vm_compute; reflexivity.
Qed.

(* ring_test.go's example {3,3,4}: sizes 10 for min 10 / max 20 *)
Definition wit3 : list ep :=
  [mkep 1 3 [50; 20; 90; 11; 12]; mkep 2 3 [30; 80; 10; 13; 14]; mkep 3 4 [40; 70; 60; 5; 15; 16]].
