(* C37: the size sentence on the real-arithmetic idealisation of newRing.
   Exact reals instead of float64: normalized weight w/S, scale =
   min(ceil(minWeight*minSize)/minWeight, maxSize), cumulative targets exact, and the loop
   "for currentHashes < targetHashes { currentHashes++ }" with an integer counter. *)
From Coq Require Import List ZArith Reals Lia Lra.
From Flocq Require Import Core.Core.
Import ListNotations.
Open Scope R_scope.

(* the loop "for cur < tgt { cur++ }" from an integer cur exits at max(cur, ceil(tgt)):
   any c' reached by steps that were all below the target, and itself not below it *)
Lemma loop_exit : forall (cur c' : Z) (t : R), (cur <= c')%Z -> ~ (IZR c' < t) ->
  (forall j, (cur <= j < c')%Z -> IZR j < t) -> c' = Z.max cur (Zceil t).
Proof.
  intros cur c' t Hle Hex Hbelow.
  assert (Hc: (Zceil t <= c')%Z) by (apply Zceil_glb; lra).
  destruct (Z.eq_dec cur c') as [->|Hne]; [lia|].
  assert (Hlt: IZR (c' - 1) < t) by (apply Hbelow; lia).
  assert (c' - 1 < Zceil t)%Z.
  { apply lt_IZR. eapply Rlt_le_trans; [exact Hlt|apply Zceil_ub]. }
  lia.
Qed.

(* entries per endpoint for per-endpoint target increments xs (= scale * w_k / S) *)
Fixpoint countsR (xs : list R) (cur : Z) (tgt : R) : list Z :=
  match xs with
  | [] => []
  | x :: r => let tgt' := tgt + x in let cur' := Z.max cur (Zceil tgt') in
              (cur' - cur)%Z :: countsR r cur' tgt'
  end.

Definition sumR (xs : list R) : R := fold_right Rplus 0 xs.
Definition sumZ (cs : list Z) : Z := fold_right Z.add 0%Z cs.

Lemma Zceil_step : forall a x, 0 <= x ->
  (Zceil a <= Zceil (a + x))%Z /\ x - 1 < IZR (Zceil (a + x) - Zceil a) < x + 1.
Proof.
  intros a x Hx. split; [apply Zceil_le; lra|]. rewrite minus_IZR.
  pose proof (Zceil_ub a). pose proof (Zceil_ub (a + x)).
  assert (IZR (Zceil a) < a + 1).
  { destruct (Req_dec (IZR (Zfloor a)) a) as [E|E].
    - rewrite <- E at 1. rewrite Zceil_IZR. rewrite E. lra.
    - rewrite (Zceil_floor_neq _ E). rewrite plus_IZR. pose proof (Zfloor_lb a). lra. }
  assert (IZR (Zceil (a + x)) < a + x + 1).
  { destruct (Req_dec (IZR (Zfloor (a + x))) (a + x)) as [E|E].
    - rewrite <- E at 1. rewrite Zceil_IZR. rewrite E. lra.
    - rewrite (Zceil_floor_neq _ E). rewrite plus_IZR. pose proof (Zfloor_lb (a + x)). lra. }
  lra.
Qed.

(* every endpoint's count is within 1 of its increment, and the counts add up to
   ceil(final target) *)
Lemma countsR_spec : forall xs cur tgt, Forall (fun x => 0 <= x) xs -> cur = Zceil tgt ->
  Forall2 (fun x c => (0 <= c)%Z /\ x - 1 < IZR c < x + 1) xs (countsR xs cur tgt) /\
  (cur + sumZ (countsR xs cur tgt))%Z = Zceil (tgt + sumR xs).
Proof.
  induction xs as [|x r IH]; intros cur tgt Hpos Hcur; cbn [countsR sumR sumZ fold_right].
  - split; [constructor|]. rewrite Rplus_0_r. lia.
  - inversion Hpos as [|? ? Hx Hr]; subst.
    destruct (Zceil_step tgt x Hx) as [Hmono Hprop].
    assert (Emax: Z.max (Zceil tgt) (Zceil (tgt + x)) = Zceil (tgt + x)) by lia.
    rewrite Emax. destruct (IH (Zceil (tgt + x)) (tgt + x) Hr eq_refl) as [IH1 IH2].
    split.
    + constructor; [|exact IH1]. split; [lia|exact Hprop].
    + fold (sumZ (countsR r (Zceil (tgt + x)) (tgt + x))). fold (sumR r).
      replace (tgt + (x + sumR r)) with (tgt + x + sumR r) by lra. lia.
Qed.

Lemma Forall2_map_impl : forall (A B C : Type) (f : A -> B) (P : B -> C -> Prop) (Q : A -> C -> Prop),
  (forall a c, P (f a) c -> Q a c) -> forall l cs, Forall2 P (map f l) cs -> Forall2 Q l cs.
Proof.
  intros A B C f P Q HPQ. induction l as [|a r IH]; intros cs H; cbn [map] in H;
    inversion H; subst; constructor; [apply HPQ; assumption|apply IH; assumption].
Qed.

(* ---- the ideal ring ---- *)
Section Ideal.
Variables (ws : list Z) (wmin minR maxR : Z).
Let S : Z := fold_right Z.add 0%Z ws.
Hypothesis ws_pos : Forall (fun w => (1 <= w)%Z) ws.
Hypothesis ws_ne : ws <> [].
Hypothesis wmin_pos : (1 <= wmin)%Z.           (* the least weight; only positivity is used *)
Hypothesis bounds : (1 <= minR <= maxR)%Z.

Definition nwI (w : Z) : R := IZR w / IZR S.
Definition minWI : R := IZR wmin / IZR S.
Definition scaleI : R := Rmin (IZR (Zceil (minWI * IZR minR)) / minWI) (IZR maxR).
Definition xsI : list R := map (fun w => scaleI * nwI w) ws.
Definition countsI : list Z := countsR xsI 0 0.
Definition sizeI : Z := sumZ countsI.

Lemma S_pos : (1 <= S)%Z.
Proof.
  unfold S. destruct ws as [|w r]; [congruence|]. inversion ws_pos; subst. cbn [fold_right].
  assert (0 <= fold_right Z.add 0 r)%Z.
  { clear - H2. induction r as [|y r IH]; cbn; [lia|]. inversion H2; subst. specialize (IH H3). lia. }
  lia.
Qed.

Lemma scaleI_bounds : IZR minR <= scaleI <= IZR maxR.
Proof.
  pose proof S_pos as HS. apply IZR_le in HS.
  assert (Hm: 0 < minWI).
  { unfold minWI. apply Rdiv_lt_0_compat; [apply IZR_lt; lia|lra]. }
  unfold scaleI. split; [|apply Rmin_r].
  apply Rmin_glb; [|apply IZR_le; lia].
  apply (Rmult_le_reg_r minWI); [exact Hm|].
  unfold Rdiv. rewrite Rmult_assoc, Rinv_l, Rmult_1_r by lra.
  rewrite Rmult_comm. apply Zceil_ub.
Qed.

Lemma sum_xsI : sumR xsI = scaleI.
Proof.
  pose proof S_pos as HS. apply IZR_le in HS.
  assert (H: forall l, sumR (map (fun w => scaleI * nwI w) l) = scaleI * IZR (fold_right Z.add 0%Z l) / IZR S).
  { induction l as [|w r IH]; cbn [map sumR fold_right].
    - unfold Rdiv. rewrite Rmult_0_r, Rmult_0_l. reflexivity.
    - fold (sumR (map (fun w0 => scaleI * nwI w0) r)). rewrite IH, plus_IZR. unfold nwI. field. lra. }
  unfold xsI. rewrite H. fold S. field. lra.
Qed.

(* "has between min_ring_size and max_ring_size entries", and "gives every endpoint a
   number of entries proportional to its normalized weight up to rounding": the count of
   endpoint k differs from scale * w_k / S by less than 1 *)
Theorem ideal_size_and_proportion :
  (minR <= sizeI <= maxR)%Z /\ sizeI = Zceil scaleI /\
  Forall2 (fun w c => (0 <= c)%Z /\ Rabs (IZR c - scaleI * nwI w) < 1) ws countsI.
Proof.
  pose proof scaleI_bounds as [Hlo Hhi]. pose proof S_pos as HS. apply IZR_le in HS.
  assert (Hsc: 0 <= scaleI) by (eapply Rle_trans; [|exact Hlo]; apply IZR_le; lia).
  assert (Hpos: Forall (fun x => 0 <= x) xsI).
  { unfold xsI. rewrite Forall_forall. intros x Hx. apply in_map_iff in Hx as (w & <- & Hw).
    rewrite Forall_forall in ws_pos. specialize (ws_pos w Hw). unfold nwI.
    apply Rmult_le_pos; [exact Hsc|]. apply Rlt_le, Rdiv_lt_0_compat; [apply IZR_lt; lia|lra]. }
  destruct (countsR_spec xsI 0 0 Hpos) as [H1 H2]; [rewrite Zceil_IZR; reflexivity|].
  rewrite Rplus_0_l, sum_xsI in H2. fold countsI in H1, H2. fold sizeI in H2.
  assert (Hsz: sizeI = Zceil scaleI) by lia.
  split; [|split; [exact Hsz|]].
  - rewrite Hsz. split.
    + rewrite <- (Zceil_IZR minR). apply Zceil_le. exact Hlo.
    + rewrite <- (Zceil_IZR maxR). apply Zceil_le. exact Hhi.
  - unfold xsI in H1. revert H1. apply Forall2_map_impl.
    intros w c [A B]. split; [exact A|]. apply Rabs_def1; lra.
Qed.
End Ideal.
