(* Proofs for C06 (model/Framing.v). *)
From Coq Require Import List ZArith Bool Lia.
From VLib Require Import Codec Machine.
From VModel Require Import Framing.
Import ListNotations.
Open Scope Z_scope.

(* ---------- lists ---------- *)

Lemma blen_nonneg : forall b, 0 <= blen b.
Proof. intro b. unfold blen. lia. Qed.

Lemma blen_app : forall a b, blen (a ++ b) = blen a + blen b.
Proof. intros a b. unfold blen. rewrite app_length. lia. Qed.

Lemma blen_nil : blen [] = 0.
Proof. reflexivity. Qed.

Lemma blen_firstn : forall n b, 0 <= n <= blen b -> blen (firstn (Z.to_nat n) b) = n.
Proof. intros n b H. unfold blen in *. rewrite firstn_length. lia. Qed.

Lemma blen_skipn : forall n b, 0 <= n <= blen b -> blen (skipn (Z.to_nat n) b) = blen b - n.
Proof. intros n b H. unfold blen in *. rewrite skipn_length. lia. Qed.

Lemma firstn_app_le : forall (n : nat) (a b : bytes), (n <= length a)%nat -> firstn n (a ++ b) = firstn n a.
Proof.
  intros n a b H. rewrite firstn_app. replace (n - length a)%nat with 0%nat by lia.
  cbn. apply app_nil_r.
Qed.

Lemma skipn_app_le : forall (n : nat) (a b : bytes), (n <= length a)%nat -> skipn n (a ++ b) = skipn n a ++ b.
Proof.
  intros n a b H. rewrite skipn_app. replace (n - length a)%nat with 0%nat by lia. reflexivity.
Qed.

Lemma firstn_app_ge : forall (n : nat) (a b : bytes), (length a <= n)%nat ->
  firstn n (a ++ b) = a ++ firstn (n - length a) b.
Proof. intros n a b H. rewrite firstn_app. rewrite firstn_all2 by lia. reflexivity. Qed.

Lemma skipn_app_ge : forall (n : nat) (a b : bytes), (length a <= n)%nat ->
  skipn n (a ++ b) = skipn (n - length a) b.
Proof. intros n a b H. rewrite skipn_app. rewrite skipn_all2 by lia. reflexivity. Qed.

(* ---------- the read loop only sees the concatenation of the chunks ---------- *)

Lemma take_chunks_spec : forall cs n, 0 <= n ->
  let flat := concat cs in
  if n <=? blen flat
  then exists cs', take_chunks n cs = (firstn (Z.to_nat n) flat, cs', true) /\
                   concat cs' = skipn (Z.to_nat n) flat
  else take_chunks n cs = (flat, [], false).
Proof.
  induction cs as [|c r IH]; intros n Hn; cbn [concat take_chunks].
  - rewrite blen_nil. destruct (n <=? 0) eqn:E.
    + assert (n = 0) by lia. subst. exists []. cbn. auto.
    + replace (n =? 0) with false by lia. reflexivity.
  - destruct (n =? 0) eqn:E0.
    + assert (n = 0) by lia. subst n. replace (0 <=? blen (c ++ concat r)) with true
        by (pose proof (blen_nonneg (c ++ concat r)); lia).
      exists (c :: r). cbn. auto.
    + destruct (n <=? blen c) eqn:Ec.
      * replace (n <=? blen (c ++ concat r)) with true
          by (rewrite blen_app; pose proof (blen_nonneg (concat r)); lia).
        exists (skipn (Z.to_nat n) c :: r). unfold blen in Ec. split.
        -- rewrite firstn_app_le by lia. reflexivity.
        -- cbn [concat]. rewrite skipn_app_le by lia. reflexivity.
      * specialize (IH (n - blen c)). cbv zeta in IH.
        assert (Hc: 0 <= n - blen c) by lia. specialize (IH Hc).
        rewrite blen_app. destruct (n - blen c <=? blen (concat r)) eqn:Er.
        -- replace (n <=? blen c + blen (concat r)) with true by lia.
           destruct IH as [cs' [H1 H2]]. rewrite H1. exists cs'. unfold blen in *. split.
           ++ rewrite firstn_app_ge by lia. repeat f_equal. lia.
           ++ rewrite H2. rewrite skipn_app_ge by lia. f_equal. lia.
        -- replace (n <=? blen c + blen (concat r)) with false by lia.
           rewrite IH. reflexivity.
Qed.

(* the refinement relation between the chunked reader and the flat specification state *)
Definition rel (r : reader) (s : fstate) : Prop :=
  concat (r_chunks r) = f_buf s /\ r_er r = f_er s /\ r_pos r = f_pos s.

Lemma rd_read_spec : forall n r s, 0 <= n -> rel r s -> f_er s = false ->
  if n <=? blen (f_buf s)
  then exists r', rd_read n r = (Some (firstn (Z.to_nat n) (f_buf s)), r') /\
         rel r' (mkF (skipn (Z.to_nat n) (f_buf s)) false (f_pos s + n))
  else exists r', rd_read n r = (None, r') /\ rel r' (mkF [] true (f_pos s + blen (f_buf s))).
Proof.
  intros n r s Hn [Hb [He Hp]] Hf. unfold rd_read. rewrite He, Hf.
  pose proof (take_chunks_spec (r_chunks r) n Hn) as T. cbv zeta in T. rewrite Hb in T.
  destruct (n <=? blen (f_buf s)) eqn:E.
  - destruct T as [cs' [T1 T2]]. rewrite T1. eexists. split; [reflexivity|].
    unfold rel; cbn. rewrite blen_firstn by lia. repeat split; auto; lia.
  - rewrite T. eexists. split; [reflexivity|]. unfold rel; cbn. repeat split; auto; lia.
Qed.

Lemma be32_range : forall h, 0 <= be32 h < 4294967296.
Proof.
  intro h. unfold be32. destruct h as [|a [|b [|c [|d [|e t]]]]]; try lia.
  pose proof (Z.mod_pos_bound a 256). pose proof (Z.mod_pos_bound b 256).
  pose proof (Z.mod_pos_bound c 256). pose proof (Z.mod_pos_bound d 256). lia.
Qed.

Lemma firstn5_shape : forall (b : bytes), 5 <= blen b ->
  firstn 5 b = nth 0 b 0 :: firstn 4 (skipn 1 b).
Proof.
  intros b H. destruct b as [|x b]; [cbn in H; lia|]. reflexivity.
Qed.

Lemma skipn_skipn_Z : forall (a b : nat) (l : bytes), skipn a (skipn b l) = skipn (b + a) l.
Proof.
  intros a b. revert a. induction b as [|b IH]; intros a l; [reflexivity|].
  destruct l; cbn; [destruct a; reflexivity|]. apply IH.
Qed.

Theorem recvMsg_refines : forall lim r s, rel r s ->
  exists r', recvMsg lim r = (fst (spec_parse lim s), r') /\ rel r' (snd (spec_parse lim s)).
Proof.
  intros lim r s R. unfold recvMsg, spec_parse.
  destruct (f_er s) eqn:Ef.
  - destruct R as [Hb [He Hp]]. unfold rd_read. rewrite He, Ef. cbn. exists r. split; auto.
    unfold rel; auto.
  - pose proof (rd_read_spec 5 r s ltac:(lia) R Ef) as H5.
    destruct (blen (f_buf s) <? 5) eqn:E5.
    + replace (5 <=? blen (f_buf s)) with false in H5 by lia.
      destruct H5 as [r' [H1 H2]]. rewrite H1. exists r'. cbn. auto.
    + replace (5 <=? blen (f_buf s)) with true in H5 by lia.
      destruct H5 as [r' [H1 H2]]. rewrite H1.
      change (Z.to_nat 5) with 5%nat in *. rewrite firstn5_shape by lia.
      cbn [parse_header].
      destruct (be32 (firstn 4 (skipn 1 (f_buf s))) >? lim) eqn:El.
      * exists r'. cbn. split; auto.
      * set (len := be32 (firstn 4 (skipn 1 (f_buf s)))) in *.
        pose proof (be32_range (firstn 4 (skipn 1 (f_buf s)))) as Hr. fold len in Hr.
        pose proof (rd_read_spec len r' _ ltac:(lia) H2 eq_refl) as HL. cbn [f_buf f_pos] in HL.
        destruct (blen (skipn 5 (f_buf s)) <? len) eqn:Ep.
        -- replace (len <=? blen (skipn 5 (f_buf s))) with false in HL by lia.
           destruct HL as [r'' [G1 G2]]. rewrite G1. exists r''. cbn. split; auto.
        -- replace (len <=? blen (skipn 5 (f_buf s))) with true in HL by lia.
           destruct HL as [r'' [G1 G2]]. rewrite G1. exists r''. cbn. split; auto.
Qed.

Theorem recv_refines : forall dec c r s, rel r s ->
  exists r', recvAndDecompress dec c r = (fst (spec_recv dec c s), r') /\
             rel r' (snd (spec_recv dec c s)).
Proof.
  intros dec c r s R. unfold recvAndDecompress, spec_recv.
  destruct (recvMsg_refines (limit c) r s R) as [r' [H1 H2]]. rewrite H1.
  destruct (spec_parse (limit c) s) as [p s']. cbn in *. exists r'. auto.
Qed.

Theorem recv_all_refines : forall dec c fuel r s, rel r s ->
  recv_all dec c fuel r = spec_all dec c fuel s.
Proof.
  intros dec c. induction fuel as [|f IH]; intros r s R; [reflexivity|].
  cbn [recv_all spec_all]. destruct (recv_refines dec c r s R) as [r' [H1 H2]]. rewrite H1.
  destruct (spec_recv dec c s) as [[x n] s']. cbn [fst snd] in *.
  destruct x; try reflexivity. f_equal. apply IH. exact H2.
Qed.

Lemma rel_init : forall cs, rel (mkR cs false 0) (mkF (concat cs) false 0).
Proof. intro cs. unfold rel; cbn. auto. Qed.

(* "any split of the byte stream into frames": only the concatenation matters *)
Theorem segmentation_independent : forall dec c fuel cs1 cs2, concat cs1 = concat cs2 ->
  recv_all dec c fuel (mkR cs1 false 0) = recv_all dec c fuel (mkR cs2 false 0).
Proof.
  intros dec c fuel cs1 cs2 H.
  rewrite (recv_all_refines dec c fuel _ _ (rel_init cs1)).
  rewrite (recv_all_refines dec c fuel _ _ (rel_init cs2)). rewrite H. reflexivity.
Qed.

(* ---------- the header codec ---------- *)

Lemma be32_enc_dec : forall n, 0 <= n < 4294967296 -> be32 (be32_enc n) = n.
Proof.
  intros n H. unfold be32, be32_enc. rewrite !Zmod_mod.
  pose proof (Z.div_mod n 256 ltac:(lia)) as D1.
  pose proof (Z.div_mod (n / 256) 256 ltac:(lia)) as D2.
  pose proof (Z.div_mod (n / 256 / 256) 256 ltac:(lia)) as D3.
  rewrite Z.div_div in D2, D3 by lia. rewrite Z.div_div in D3 by lia.
  change (256 * 256) with 65536 in *. change (65536 * 256) with 16777216 in *.
  assert (n / 16777216 < 256) by (apply Z.div_lt_upper_bound; lia).
  assert (0 <= n / 16777216) by (apply Z.div_pos; lia).
  rewrite (Z.mod_small (n / 16777216) 256) by lia. lia.
Qed.

Definition active (c : config) : Z := if dcKind c =? 0 then compKind c else dcKind c.

(* parsing one well-formed frame in front of any rest *)
Lemma spec_parse_frame : forall lim pf payload rest pos,
  blen payload <= lim -> blen payload < 4294967296 ->
  spec_parse lim (mkF (frame pf payload ++ rest) false pos) =
  (PMsg pf payload, mkF rest false (pos + 5 + blen payload)).
Proof.
  intros lim pf payload rest pos Hl Hm. unfold spec_parse. cbn [f_er f_buf f_pos].
  unfold frame. cbn [app be32_enc].
  set (n := blen payload) in *. pose proof (blen_nonneg payload) as Hn. fold n in Hn.
  match goal with |- context [blen (?x :: ?a :: ?b :: ?cc :: ?d :: ?t)] =>
    assert (Hb: blen (x :: a :: b :: cc :: d :: t) = 5 + blen t) by (unfold blen; cbn [length]; lia)
  end.
  rewrite Hb. rewrite blen_app. fold n.
  pose proof (blen_nonneg rest).
  replace (5 + (n + blen rest) <? 5) with false by lia.
  cbn [nth skipn firstn].
  change [n / 16777216 mod 256; n / 65536 mod 256; n / 256 mod 256; n mod 256] with (be32_enc n).
  rewrite be32_enc_dec by lia.
  replace (n >? lim) with false by lia.
  rewrite blen_app. fold n. replace (n + blen rest <? n) with false by lia.
  unfold n, blen. rewrite Nat2Z.id.
  rewrite firstn_app_le by lia. rewrite firstn_all.
  rewrite skipn_app_le by lia. rewrite skipn_all. cbn [app]. reflexivity.
Qed.

Lemma lim_take_small : forall lim x, blen x <= lim + 1 -> lim_take lim x = x.
Proof. intros lim x H. unfold lim_take. replace (blen x <=? lim + 1) with true by lia. reflexivity. Qed.

Lemma dec_run_ok : forall bounded lim x, blen x <= lim ->
  dec_run bounded lim (DStream x true) = (RMsg x, blen x).
Proof.
  intros bounded lim x H. unfold dec_run. cbn [negb andb].
  destruct bounded; [rewrite lim_take_small by lia|]; replace (blen x >? lim) with false by lia; reflexivity.
Qed.

Lemma decompress_active : forall dec c p, active c <> 0 ->
  exists bounded, decompress dec c p = dec_run bounded (limit c) (dec (active c) p).
Proof.
  intros dec c p H. unfold decompress, active in *.
  destruct (dcKind c =? 0) eqn:E; cbn [negb].
  - destruct (compKind c =? 0) eqn:E2; [lia|]. cbn [negb]. eexists. reflexivity.
  - eexists. reflexivity.
Qed.

Lemma have_active : forall c, have_dec c = negb (active c =? 0).
Proof.
  intro c. unfold have_dec, active. destruct (dcKind c =? 0) eqn:E; cbn [negb].
  - rewrite orb_false_r. reflexivity.
  - rewrite orb_true_r. rewrite E. reflexivity.
Qed.

(* a sent message: (compressed?, content); what the sender puts on the wire for it *)
Definition wire (comp : bytes -> bytes) (m : bool * bytes) : bytes :=
  if fst m then frame 1 (comp (snd m)) else frame 0 (snd m).

Definition msg_ok (comp : bytes -> bytes) (c : config) (m : bool * bytes) : Prop :=
  blen (snd m) <= limit c /\
  if fst m then 2 <= enc c /\ active c <> 0 /\
                blen (comp (snd m)) <= limit c /\ blen (comp (snd m)) < 4294967296
  else blen (snd m) < 4294967296.

Lemma spec_recv_msg : forall dec comp c m rest pos,
  (forall x, dec (active c) (comp x) = DStream x true) -> msg_ok comp c m ->
  exists n pos', spec_recv dec c (mkF (wire comp m ++ rest) false pos) =
                 (RMsg (snd m), n, mkF rest false pos').
Proof.
  intros dec comp c [z x] rest pos Hd [Hx Hm]. cbn [fst snd] in *. unfold spec_recv, wire. cbn [fst snd].
  destruct z.
  - destruct Hm as [He [Ha [Hc1 Hc2]]].
    rewrite spec_parse_frame by assumption. unfold after_parse, checkRecvPayload.
    cbn [Z.eqb]. rewrite have_active.
    replace (enc c =? 0) with false by lia. replace (enc c =? 1) with false by lia.
    replace (active c =? 0) with false by lia. cbn [orb negb].
    destruct (decompress_active dec c (comp x) Ha) as [b Hb]. rewrite Hb, Hd, dec_run_ok by assumption.
    cbn. eauto.
  - rewrite spec_parse_frame by (try assumption; lia). unfold after_parse, checkRecvPayload.
    cbn. eauto.
Qed.

Lemma spec_recv_end : forall dec c pos,
  exists s', spec_recv dec c (mkF [] false pos) = (REOF, 0, s').
Proof. intros. unfold spec_recv, spec_parse. cbn. eauto. Qed.

Theorem spec_roundtrip : forall dec comp c,
  (forall x, dec (active c) (comp x) = DStream x true) ->
  forall ms pos, Forall (msg_ok comp c) ms ->
  spec_all dec c (S (length ms)) (mkF (concat (map (wire comp) ms)) false pos) =
  map (fun m => RMsg (snd m)) ms ++ [REOF].
Proof.
  intros dec comp c Hd. induction ms as [|m ms IH]; intros pos Hok.
  - cbn [length map concat app spec_all]. destruct (spec_recv_end dec c pos) as [s' H]. rewrite H. reflexivity.
  - inversion Hok as [|m' ms' Hm Hms]; subst.
    cbn [length map concat]. change (spec_all dec c (S (S (length ms)))) with
      (fun s => match spec_recv dec c s with
                | (RMsg m0, _, s') => RMsg m0 :: spec_all dec c (S (length ms)) s'
                | (e, _, _) => [e] end).
    cbv beta.
    destruct (spec_recv_msg dec comp c m (concat (map (wire comp) ms)) pos Hd Hm) as [n [pos' H]].
    rewrite H. cbn [app]. f_equal. apply IH. exact Hms.
Qed.

(* "For any sequence of messages (any sizes, compressed or not) and any split of the byte
   stream into frames, the receiver yields exactly the sent messages in order" *)
Theorem roundtrip : forall dec comp c,
  (forall x, dec (active c) (comp x) = DStream x true) ->
  forall ms cs, Forall (msg_ok comp c) ms -> concat cs = concat (map (wire comp) ms) ->
  recv_all dec c (S (length ms)) (mkR cs false 0) = map (fun m => RMsg (snd m)) ms ++ [REOF].
Proof.
  intros dec comp c Hd ms cs Hok Hcs.
  rewrite (recv_all_refines dec c _ _ _ (rel_init cs)). rewrite Hcs.
  apply spec_roundtrip; assumption.
Qed.

(* ---------- size limits ---------- *)

(* declared length above the limit: RESOURCE_EXHAUSTED, and only the 5 header bytes have
   been taken from the stream (flat state and, by refinement, the chunked reader) *)
Theorem declared_too_big_spec : forall dec c s, f_er s = false -> 5 <= blen (f_buf s) ->
  limit c < be32 (firstn 4 (skipn 1 (f_buf s))) ->
  spec_recv dec c s = (RStatus cResourceExhausted 2, 0, mkF (skipn 5 (f_buf s)) false (f_pos s + 5)).
Proof.
  intros dec c s He H5 Hl. unfold spec_recv, spec_parse. rewrite He.
  replace (blen (f_buf s) <? 5) with false by lia.
  replace (be32 (firstn 4 (skipn 1 (f_buf s))) >? limit c) with true by lia. reflexivity.
Qed.

Theorem declared_too_big : forall dec c r, r_er r = false ->
  5 <= blen (concat (r_chunks r)) ->
  limit c < be32 (firstn 4 (skipn 1 (concat (r_chunks r)))) ->
  exists r', recvAndDecompress dec c r = (RStatus cResourceExhausted 2, 0, r') /\
             r_pos r' = r_pos r + 5 /\ r_er r' = false /\
             concat (r_chunks r') = skipn 5 (concat (r_chunks r)).
Proof.
  intros dec c r He H5 Hl.
  assert (R: rel r (mkF (concat (r_chunks r)) false (r_pos r))) by (unfold rel; cbn; auto).
  destruct (recv_refines dec c r _ R) as [r' [H1 [H2 [H3 H4]]]].
  rewrite declared_too_big_spec in * by (cbn; auto). cbn in *. exists r'. auto.
Qed.

Lemma blen_lim_take : forall lim x, 0 <= lim -> blen (lim_take lim x) = Z.min (blen x) (lim + 1).
Proof.
  intros lim x H. unfold lim_take. destruct (blen x <=? lim + 1) eqn:E; [lia|].
  rewrite blen_firstn by lia. lia.
Qed.

(* bytes obtained from a size-aware decompressor never exceed limit+1 *)
Lemma dec_run_bound : forall lim d, 0 <= lim -> snd (dec_run true lim d) <= lim + 1.
Proof.
  intros lim d H. unfold dec_run. destruct d as [|content ok]; cbn [snd]; [lia|].
  pose proof (blen_lim_take lim content H).
  destruct (negb ok && _); [cbn [snd]; lia|]. destruct (_ >? lim); cbn [snd]; lia.
Qed.

Theorem materialise_bound : forall dec c p, 0 <= limit c < max_i64 -> bounded_path c = true ->
  snd (decompress dec c p) <= limit c + 1.
Proof.
  intros dec c p Hl Hb. unfold decompress, bounded_path in *.
  replace (limit c <? max_i64) with true by lia. rewrite andb_true_r.
  destruct (dcKind c =? 0) eqn:E0; cbn [negb andb orb] in *.
  - replace (dcKind c =? 1) with false in Hb by lia. cbn [orb] in Hb.
    rewrite Hb. apply dec_run_bound. lia.
  - rewrite orb_false_r in Hb. rewrite Hb. apply dec_run_bound. lia.
Qed.

(* ... the same for the whole recvAndDecompress step *)
Theorem materialise_bound_step : forall dec c p, 0 <= limit c < max_i64 -> bounded_path c = true ->
  0 <= snd (after_parse dec c p) <= limit c + 1.
Proof.
  intros dec c p Hl Hb. unfold after_parse. destruct p as [pf d|e]; [|cbn; lia].
  destruct (checkRecvPayload _ _ _ _); [cbn; lia|]. destruct (pf =? 1); [|cbn; lia].
  split; [|apply materialise_bound; assumption].
  unfold decompress. assert (G: forall b d0, 0 <= snd (dec_run b (limit c) d0)).
  { intros b d0. unfold dec_run. destruct d0 as [|ct ok]; cbn [snd]; [lia|].
    destruct (negb ok && _); [cbn [snd]; apply blen_nonneg|]. destruct (_ >? limit c); cbn [snd]; apply blen_nonneg. }
  destruct (negb (dcKind c =? 0)); [apply G|]. destruct (negb (compKind c =? 0)); [apply G|cbn; lia].
Qed.

(* decompressed size above the limit: never a message; RESOURCE_EXHAUSTED whenever the
   decompressor's stream is sound or the path is size-aware *)
Theorem decompressed_too_big : forall dec c p content ok, 0 <= limit c -> active c <> 0 ->
  dec (active c) p = DStream content ok -> limit c < blen content ->
  (forall out, fst (decompress dec c p) <> RMsg out) /\
  (ok = true \/ (bounded_path c = true /\ limit c < max_i64) ->
   fst (decompress dec c p) = RStatus cResourceExhausted 2).
Proof.
  intros dec c p content ok Hl Ha Hd Hbig.
  assert (G: forall b, (forall out, fst (dec_run b (limit c) (DStream content ok)) <> RMsg out) /\
             (ok = true \/ b = true -> fst (dec_run b (limit c) (DStream content ok)) = RStatus cResourceExhausted 2)).
  { intro b. unfold dec_run. pose proof (blen_lim_take (limit c) content Hl) as BL.
    assert (Hgot: limit c < blen (if b then lim_take (limit c) content else content))
      by (destruct b; lia).
    replace (blen content <=? limit c) with false by lia. rewrite orb_false_r.
    split.
    - intro out. destruct (negb ok && negb b); cbn [fst]; [discriminate|].
      replace (_ >? limit c) with true by lia. cbn. discriminate.
    - intros [Ho|Hb']; subst; cbn [negb andb]; [|rewrite andb_false_r];
        (replace (_ >? limit c) with true by lia); reflexivity. }
  unfold decompress, active, bounded_path in *.
  destruct (dcKind c =? 0) eqn:E0; cbn [negb].
  - destruct (compKind c =? 0) eqn:E1; [lia|]. cbn [negb]. rewrite Hd.
    destruct (G (limit c <? max_i64)) as [G1 G2]. split; [exact G1|].
    intros [Ho|[_ Hm]]; apply G2; [auto|right; lia].
  - rewrite Hd. destruct (G ((dcKind c =? 1) && (limit c <? max_i64))) as [G1 G2]. split; [exact G1|].
    intros [Ho|[Hb Hm]]; apply G2; [auto|]. right.
    rewrite andb_false_l, orb_false_r in Hb. rewrite Hb. cbn [andb]. lia.
Qed.

(* the literal sentence "decompression never materializes more than limit+1 bytes" is
   false for a third-party legacy Decompressor (Do(r) reads everything):
   limit 40, toy run-length payload [200;9;41;9] -> 241 bytes *)
Theorem materialise_unbounded_legacy_refuted :
  exists c p, 0 <= limit c < max_i64 /\ dcKind c = 2 /\
    decompress (dec_of [] DHdrErr) c p = (RStatus cResourceExhausted 2, 241) /\ limit c + 1 < 241.
Proof. exists (mkCfg 40 false 2 0 2), [200; 9; 41; 9]. vm_compute. repeat split; congruence. Qed.

(* whatever is delivered fits the limit *)
Lemma dec_run_msg : forall b lim content ok out n, 0 <= lim ->
  dec_run b lim (DStream content ok) = (RMsg out, n) ->
  out = content /\ ok = true /\ blen content <= lim /\ n = blen content.
Proof.
  intros b lim content ok out n Hl H. unfold dec_run in H.
  pose proof (blen_lim_take lim content Hl) as BL.
  destruct (negb ok && (negb b || (blen content <=? lim))) eqn:E; [discriminate|].
  destruct (blen (if b then lim_take lim content else content) >? lim) eqn:E2; [discriminate|].
  inversion H; subst; clear H.
  assert (Hc: blen content <= lim) by (destruct b; lia).
  replace (blen content <=? lim) with true in E by lia. rewrite orb_true_r, andb_true_r in E.
  destruct ok; [|discriminate]. destruct b; [rewrite lim_take_small by lia|]; auto.
Qed.

(* ---------- flags ---------- *)

Theorem flag_identity_encoding : forall dec c d, enc c = 0 \/ enc c = 1 ->
  after_parse dec c (PMsg 1 d) = (RStatus cInternal 4, 0).
Proof.
  intros dec c d H. unfold after_parse, checkRecvPayload. cbn [Z.eqb Pos.eqb].
  destruct H as [H|H]; rewrite H; reflexivity.
Qed.

Theorem flag_no_decompressor : forall dec c d, 2 <= enc c -> dcKind c = 0 -> compKind c = 0 ->
  after_parse dec c (PMsg 1 d) =
  (RStatus (if isServer c then cUnimplemented else cInternal) 4, 0).
Proof.
  intros dec c d He H1 H2. unfold after_parse, checkRecvPayload, have_dec. cbn [Z.eqb Pos.eqb].
  rewrite H1, H2. replace (enc c =? 0) with false by lia. replace (enc c =? 1) with false by lia.
  reflexivity.
Qed.

Theorem flag_unknown : forall dec c pf d, pf <> 0 -> pf <> 1 ->
  after_parse dec c (PMsg pf d) = (RStatus cInternal 4, 0).
Proof.
  intros dec c pf d H0 H1. unfold after_parse, checkRecvPayload.
  replace (pf =? 0) with false by lia. replace (pf =? 1) with false by lia. reflexivity.
Qed.

(* ---------- "never a silently misdecoded message" ---------- *)

(* A delivered message is always backed by a complete frame at the read position whose
   declared length is its payload length and fits the limit; it is the payload itself
   (flag 0) or exactly the complete, error-free output of the installed decompressor on
   the payload (flag 1, non-identity encoding), and it fits the limit. *)
Theorem delivered_sound : forall dec c s out n s', 0 <= limit c ->
  spec_recv dec c s = (RMsg out, n, s') ->
  f_er s = false /\
  exists hdr payload, f_buf s = hdr ++ payload ++ f_buf s' /\ length hdr = 5%nat /\
    be32 (skipn 1 hdr) = blen payload /\ blen payload <= limit c /\ blen out <= limit c /\
    f_pos s' = f_pos s + 5 + blen payload /\
    ((nth 0 hdr 0 = 0 /\ out = payload /\ n = 0) \/
     (nth 0 hdr 0 = 1 /\ enc c <> 0 /\ enc c <> 1 /\ active c <> 0 /\
      dec (active c) payload = DStream out true /\ n = blen out)).
Proof.
  intros dec c s out n s' Hl H. unfold spec_recv in H.
  destruct (spec_parse (limit c) s) as [p s1] eqn:P. inversion H; subst s1; clear H.
  rename H1 into A. unfold spec_parse in P.
  destruct (f_er s) eqn:Ee.
  { inversion P; subst. cbn in A. discriminate. }
  destruct (blen (f_buf s) <? 5) eqn:E5.
  { inversion P; subst. cbn in A. discriminate. }
  set (b := f_buf s) in *. set (len := be32 (firstn 4 (skipn 1 b))) in *.
  destruct (len >? limit c) eqn:El.
  { inversion P; subst. cbn in A. discriminate. }
  destruct (blen (skipn 5 b) <? len) eqn:Ep.
  { inversion P; subst. cbn in A. discriminate. }
  inversion P; subst p s'; clear P. split; [reflexivity|].
  pose proof (be32_range (firstn 4 (skipn 1 b))) as Hr. fold len in Hr.
  set (payload := firstn (Z.to_nat len) (skipn 5 b)) in *.
  change (after_parse dec c (PMsg (nth 0 b 0) payload) = (RMsg out, n)) in A.
  assert (Hpl: blen payload = len) by (apply blen_firstn; lia).
  exists (firstn 5 b), payload. cbn [f_buf f_pos].
  assert (Hh: length (firstn 5 b) = 5%nat) by (rewrite firstn_length; unfold blen in E5; lia).
  assert (Hdecomp: b = firstn 5 b ++ payload ++ skipn (Z.to_nat len) (skipn 5 b)).
  { unfold payload. rewrite firstn_skipn. rewrite firstn_skipn. reflexivity. }
  assert (Hbe: be32 (skipn 1 (firstn 5 b)) = blen payload).
  { rewrite Hpl. unfold len. f_equal. rewrite firstn5_shape by lia. reflexivity. }
  assert (Hnth: nth 0 (firstn 5 b) 0 = nth 0 b 0) by (rewrite firstn5_shape by lia; reflexivity).
  rewrite Hnth. rewrite Hpl. clearbody payload.
  unfold after_parse in A.
  destruct (checkRecvPayload (nth 0 b 0) (enc c) (have_dec c) (isServer c)) eqn:C; [discriminate|].
  unfold checkRecvPayload in C.
  destruct (nth 0 b 0 =? 0) eqn:F0.
  - replace (nth 0 b 0 =? 1) with false in A by lia. injection A as A1 A2. subst out n.
    split; [exact Hdecomp|]. split; [exact Hh|]. split; [rewrite <- Hpl; exact Hbe|].
    split; [lia|]. split; [lia|]. split; [reflexivity|]. left. repeat split; lia.
  - destruct (nth 0 b 0 =? 1) eqn:F1; [|discriminate].
    destruct ((enc c =? 0) || (enc c =? 1)) eqn:Ei; [discriminate|].
    rewrite have_active in C. destruct (active c =? 0) eqn:Ea; [cbn in C; discriminate|].
    assert (Ha: active c <> 0) by lia.
    destruct (decompress_active dec c payload Ha) as [bd Hbd]. rewrite Hbd in A.
    destruct (dec (active c) payload) as [|content ok] eqn:D; [cbn in A; discriminate|].
    apply dec_run_msg in A; [|assumption]. destruct A as [A1 [A2 [A3 A4]]]. subst out ok n.
    split; [exact Hdecomp|]. split; [exact Hh|]. split; [rewrite <- Hpl; exact Hbe|].
    split; [lia|]. split; [lia|]. split; [reflexivity|]. right.
    apply orb_false_iff in Ei. destruct Ei as [Ei0 Ei1].
    split; [lia|]. split; [lia|]. split; [lia|]. split; [exact Ha|]. split; reflexivity.
Qed.

(* ---------- truncated streams ---------- *)

(* the stream ends inside a message header: the receiver sees io.EOF (as transport.Stream
   reports it), never a message, and every later call returns io.EOF *)
Theorem truncated_header : forall dec c s, f_er s = false -> blen (f_buf s) < 5 ->
  spec_recv dec c s = (REOF, 0, mkF [] true (f_pos s + blen (f_buf s))).
Proof.
  intros dec c s He H. unfold spec_recv, spec_parse. rewrite He.
  replace (blen (f_buf s) <? 5) with true by lia. reflexivity.
Qed.

(* the stream ends inside a payload: io.ErrUnexpectedEOF (INTERNAL after toRPCErr), never a
   short message *)
Theorem truncated_payload : forall dec c s, f_er s = false -> 5 <= blen (f_buf s) ->
  be32 (firstn 4 (skipn 1 (f_buf s))) <= limit c ->
  blen (f_buf s) - 5 < be32 (firstn 4 (skipn 1 (f_buf s))) ->
  spec_recv dec c s = (RUnexp, 0, mkF [] true (f_pos s + blen (f_buf s))).
Proof.
  intros dec c s He H5 Hl Hs. unfold spec_recv, spec_parse. rewrite He.
  set (len := be32 (firstn 4 (skipn 1 (f_buf s)))) in *.
  replace (blen (f_buf s) <? 5) with false by lia.
  replace (len >? limit c) with false by lia.
  change 5%nat with (Z.to_nat 5). rewrite blen_skipn by lia.
  replace (blen (f_buf s) - 5 <? len) with true by lia.
  replace (f_pos s + 5 + (blen (f_buf s) - 5)) with (f_pos s + blen (f_buf s)) by lia. reflexivity.
Qed.

Theorem after_error_eof : forall dec c s, f_er s = true -> spec_recv dec c s = (REOF, 0, s).
Proof. intros dec c s H. unfold spec_recv, spec_parse. rewrite H. reflexivity. Qed.

(* ---------- the toy codec satisfies the compressor law ---------- *)

Lemma rle_toy_comp : forall x, rle_content (toy_comp x) = (x, true).
Proof.
  induction x as [|b x IH]; [reflexivity|].
  cbn [toy_comp flat_map app]. change (flat_map (fun b0 => [1; b0]) x) with (toy_comp x).
  cbn [rle_content]. rewrite IH. reflexivity.
Qed.

Theorem toy_law : forall x, toy_dec (toy_comp x) = DStream x true.
Proof.
  intro x. unfold toy_dec. rewrite rle_toy_comp.
  destruct x as [|b x]; reflexivity.
Qed.

(* ---------- the predicate evaluated on implementation traces holds on model traces ---- *)

Lemma word_eqb_refl : forall w, word_eqb w w = true.
Proof. induction w as [|x w IH]; cbn; [reflexivity|]. rewrite Z.eqb_refl. exact IH. Qed.

Lemma parse_cfg_limit : forall w c, parse_cfg w = Some c -> 0 <= limit c <= max_i64.
Proof.
  intros w c H. unfold parse_cfg in H.
  destruct w as [|l [|s0 [|d [|k [|e [|x [|y t]]]]]]]; try discriminate.
  - destruct ((0 <=? l) && (l <=? max_i64) && (0 <=? d) && (0 <=? k) && (0 <=? e)) eqn:E; [|discriminate].
    inversion H; subst; cbn [limit]. rewrite !andb_true_iff in E. lia.
  - destruct ((0 <=? l) && (l <=? max_i64) && (0 <=? d) && (0 <=? k) && (0 <=? e) &&
              ((x =? 0) || ((x =? 1) && (s0 =? 0)))) eqn:E; [|discriminate].
    inversion H; subst; cbn [limit]. rewrite !andb_true_iff in E. lia.
Qed.

Lemma pulled_obs_bound : forall c r n B, 0 <= n <= B -> 0 <= pulled_obs c r n <= B.
Proof.
  intros c r n B H. unfold pulled_obs. destruct r; try lia.
  destruct ((dcKind c =? 1) && (code =? cInternal)); lia.
Qed.

Lemma res_obs_e_shape : forall e x, exists k code len ck, res_obs_e e x = [k; code; len; ck].
Proof. intros e x. destruct x; destruct e; cbn; eauto 8. Qed.

Lemma ops_hold : forall e dec c, 0 <= limit c <= max_i64 -> forall os stopped r s i, rel r s ->
  forallb (fun x => is_finding_clause x || snd x)
    (clauses_from e c i (spec_ops e stopped dec c s os) (run_ops e stopped dec c r os)) = true.
Proof.
  intros e dec c Hl. induction os as [|o os IH]; intros stopped r s i R; [reflexivity|].
  destruct o as [b| |p d].
  - cbn [spec_ops run_ops clauses_from forallb]. cbn [word_eqb snd orb]. rewrite orb_true_r. cbn [andb].
    apply IH. destruct e; [exact R|].
    destruct R as [R1 [R2 R3]]. unfold rel; cbn. rewrite concat_app. cbn. rewrite app_nil_r.
    rewrite R1. auto.
  - cbn [spec_ops run_ops]. destruct (e && stopped) eqn:ES.
    { cbn [clauses_from forallb]. cbn [word_eqb snd orb]. rewrite orb_true_r. cbn [andb]. apply IH. exact R. }
    destruct (recv_refines dec c r s R) as [r' [H1 [H2 [H3 H4]]]]. rewrite H1.
    unfold spec_recv in *. destruct (spec_parse (limit c) s) as [pp s'] eqn:P. cbn [fst snd] in *.
    destruct (after_parse dec c pp) as [x n] eqn:A.
    cbn [clauses_from fst snd].
    assert (Hobs: exists k code len ck pulled pos,
              recv_obs_e e c (x, n) (r_pos r') = [k; code; len; ck; pulled; pos] /\
              res_obs_e e x = [k; code; len; ck] /\ 0 <= pulled /\
              (limit c < max_i64 -> bounded_path c = true -> pulled <= limit c + 1)).
    { unfold recv_obs_e, recv_obs. cbn [fst snd]. destruct e.
      - destruct (res_obs_e_shape true x) as [k [code [len [ck Hs]]]]. rewrite Hs. cbn [app].
        exists k, code, len, ck, 0, 0. repeat split; auto; lia.
      - assert (Hs': res_obs_e false x = res_obs x) by (destruct x; reflexivity).
        destruct (res_obs_e_shape false x) as [k [code [len [ck Hs]]]]. rewrite Hs' in *. rewrite Hs. cbn [app].
        exists k, code, len, ck, (pulled_obs c x n), (r_pos r'). split; [reflexivity|]. split; [reflexivity|].
        assert (G: forall B, (0 <= n <= B) -> 0 <= pulled_obs c x n <= B) by (intros; apply pulled_obs_bound; auto).
        split.
        + destruct (bounded_path c) eqn:Eb.
          * destruct (Z_lt_dec (limit c) max_i64) as [L|L].
            -- pose proof (materialise_bound_step dec c pp ltac:(lia) Eb) as MB. rewrite A in MB. cbn [snd] in MB.
               apply (G _ MB).
            -- assert (0 <= n).
               { pose proof (f_equal snd A) as A'. cbn [snd] in A'. subst n.
                 unfold after_parse. destruct pp as [pf d0|e0]; [|cbn; lia].
                 destruct (checkRecvPayload _ _ _ _); [cbn; lia|]. destruct (pf =? 1); [|cbn; lia].
                 unfold decompress. assert (G0: forall b d1, 0 <= snd (dec_run b (limit c) d1)).
                 { intros b d1. unfold dec_run. destruct d1 as [|ct ok]; cbn [snd]; [lia|].
                   destruct (negb ok && _); [cbn [snd]; apply blen_nonneg|]. destruct (_ >? limit c); cbn [snd]; apply blen_nonneg. }
                 destruct (negb (dcKind c =? 0)); [apply G0|]. destruct (negb (compKind c =? 0)); [apply G0|cbn; lia]. }
               apply (G n). lia.
          * assert (0 <= n).
            { pose proof (f_equal snd A) as A'. cbn [snd] in A'. subst n.
              unfold after_parse. destruct pp as [pf d0|e0]; [|cbn; lia].
              destruct (checkRecvPayload _ _ _ _); [cbn; lia|]. destruct (pf =? 1); [|cbn; lia].
              unfold decompress. assert (G0: forall b d1, 0 <= snd (dec_run b (limit c) d1)).
              { intros b d1. unfold dec_run. destruct d1 as [|ct ok]; cbn [snd]; [lia|].
                destruct (negb ok && _); [cbn [snd]; apply blen_nonneg|]. destruct (_ >? limit c); cbn [snd]; apply blen_nonneg. }
              destruct (negb (dcKind c =? 0)); [apply G0|]. destruct (negb (compKind c =? 0)); [apply G0|cbn; lia]. }
            apply (G n). lia.
        + intros L Eb. pose proof (materialise_bound_step dec c pp ltac:(lia) Eb) as MB. rewrite A in MB. cbn [snd] in MB.
          apply (G _ MB). }
    destruct Hobs as [k [code [len [ck [pulled [pos [O1 [O2 [O3 O4]]]]]]]]]. rewrite O1, O2.
    cbn [forallb app]. rewrite word_eqb_refl. cbn [snd]. rewrite orb_true_r. cbn [andb].
    rewrite forallb_app. apply andb_true_iff. split; [|apply IH; unfold rel; auto].
    unfold mat_clause. destruct (limit c <? max_i64) eqn:Em; [|reflexivity].
    destruct (bounded_path c) eqn:Eb.
    + cbn [forallb snd fst is_finding_clause].
      replace (pulled <=? limit c + 1) with true by (assert (pulled <= limit c + 1) by (apply O4; [lia|reflexivity]); lia).
      rewrite orb_true_r. reflexivity.
    + destruct (2 <=? dcKind c); reflexivity.
  - cbn [spec_ops run_ops clauses_from forallb]. cbn [word_eqb snd orb]. rewrite orb_true_r. cbn [andb].
    apply IH. exact R.
Qed.

Theorem model_trace_holds : forall cfg ops, wf cfg ops = true ->
  exists obs, run cfg ops = Some obs /\ holds_b cfg ops obs = true.
Proof.
  intros cfg ops H. unfold wf in H. unfold run, holds_b, clauses.
  destruct (parse_cfg cfg) as [c|] eqn:Pc; [|discriminate].
  destruct (parse_ops ops) as [os|] eqn:Po; [|discriminate].
  pose proof H as H'. unfold oracle_ok in H'. cbv zeta in *. rewrite H'.
  eexists. split; [reflexivity|]. rewrite H.
  apply ops_hold; [exact (parse_cfg_limit _ _ Pc)|].
  unfold rel, r_init, s_init, r0, s0. destruct (parse_path cfg); cbn; auto.
Qed.

(* end-to-end path: the client's results are the specification's results on the whole
   concatenated DATA stream, whatever the split into DATA frames *)
Theorem e2e_segmentation : forall dec c os1 os2 stopped,
  concat (chunks_of os1) = concat (chunks_of os2) ->
  forall k, run_ops true stopped dec c (r_init true os1) (repeat ORecv k) =
            run_ops true stopped dec c (r_init true os2) (repeat ORecv k).
Proof.
  intros dec c os1 os2 stopped H k. unfold r_init.
  assert (G: forall k stopped r1 r2 s, rel r1 s -> rel r2 s ->
             run_ops true stopped dec c r1 (repeat ORecv k) = run_ops true stopped dec c r2 (repeat ORecv k)).
  { induction k0 as [|k0 IH]; intros st r1 r2 s R1 R2; [reflexivity|].
    cbn [repeat run_ops]. destruct (true && st) eqn:E; [f_equal; eapply IH; eauto|].
    destruct (recv_refines dec c r1 s R1) as [r1' [A1 A2]].
    destruct (recv_refines dec c r2 s R2) as [r2' [B1 B2]]. rewrite A1, B1.
    destruct (spec_recv dec c s) as [[x n] s']. cbn [fst snd] in *.
    unfold recv_obs_e. f_equal. eapply IH; eauto. }
  apply G with (s := mkF (concat (chunks_of os1)) false 0).
  - apply rel_init.
  - rewrite H. apply rel_init.
Qed.

(* the refuted clause is false on the model's own trace of the witness *)
Theorem finding_clause_fails_on_model :
  let cfg := [40; 0; 2; 0; 2] in
  let ops := [[1; 9; 1; 0; 0; 0; 4; 200; 9; 41; 9]; [2]] in
  wf cfg ops = true /\
  exists obs, run cfg ops = Some obs /\
    clauses cfg ops obs = [(0, 0, true); (2, 1, true); (5, 1, false)].
Proof. cbv zeta. split; [vm_compute; reflexivity|]. eexists. split; vm_compute; reflexivity. Qed.
