From Coq Require Import List ZArith Bool Lia.
From VLib Require Import Codec.
From VModel Require Import MDApi MDWire.
From VProof Require Import MDApi_proofs.
Import ListNotations.
Open Scope Z_scope.

(* ---------- base64 ---------- *)

Definition bytes (v : list Z) : Prop := Forall (fun x => 0 <= x < 256) v.

Lemma b64val_char s : 0 <= s < 64 -> b64val (b64char s) = Some s /\ b64char s <> 61.
Proof.
  intros H. unfold b64char, b64val.
  destruct (Z.ltb_spec s 26); [|destruct (Z.ltb_spec s 52); [|destruct (Z.ltb_spec s 62); [|destruct (Z.eqb_spec s 62)]]].
  all: repeat match goal with |- context [if ?c then _ else _] => let E := fresh in destruct c eqn:E end;
    rewrite ?andb_true_iff, ?andb_false_iff, ?Z.leb_le, ?Z.leb_gt, ?Z.eqb_eq, ?Z.eqb_neq in *;
    split; try (f_equal; lia); try lia.
Qed.

Lemma arith3 a b c : 0 <= a < 256 -> 0 <= b < 256 -> 0 <= c < 256 ->
  (0 <= a / 4 < 64) /\ (0 <= (a mod 4) * 16 + b / 16 < 64) /\ (0 <= (b mod 16) * 4 + c / 64 < 64) /\
  (0 <= c mod 64 < 64) /\
  (a / 4) * 4 + ((a mod 4) * 16 + b / 16) / 16 = a /\
  (((a mod 4) * 16 + b / 16) mod 16) * 16 + ((b mod 16) * 4 + c / 64) / 4 = b /\
  (((b mod 16) * 4 + c / 64) mod 4) * 64 + c mod 64 = c.
Proof. intros. repeat split; Z.div_mod_to_equations; lia. Qed.

Lemma list_ind3 (P : list Z -> Prop) :
  P [] -> (forall a, P [a]) -> (forall a b, P [a; b]) ->
  (forall a b c r, P r -> P (a :: b :: c :: r)) -> forall l, P l.
Proof.
  intros H0 H1 H2 H3 l.
  assert (G: P l /\ (forall a, P (a :: l)) /\ (forall a b, P (a :: b :: l))).
  { induction l as [|x l (I0 & I1 & I2)]; [auto|]. repeat split; auto. }
  apply G.
Qed.

Lemma list_ind4 (P : list Z -> Prop) :
  P [] -> (forall a, P [a]) -> (forall a b, P [a; b]) -> (forall a b c, P [a; b; c]) ->
  (forall a b c d r, P r -> P (a :: b :: c :: d :: r)) -> forall l, P l.
Proof.
  intros H0 H1 H2 H3 H4 l.
  assert (G: P l /\ (forall a, P (a :: l)) /\ (forall a b, P (a :: b :: l)) /\ (forall a b c, P (a :: b :: c :: l))).
  { induction l as [|x l (I0 & I1 & I2 & I3)]; [auto|]. repeat split; auto. }
  apply G.
Qed.

Definition sextet (c : Z) : Prop := exists s, 0 <= s < 64 /\ c = b64char s.

Lemma dec3_enc a b c : 0 <= a < 256 -> 0 <= b < 256 -> 0 <= c < 256 ->
  dec3 (b64char (a / 4)) (b64char ((a mod 4) * 16 + b / 16)) (b64char ((b mod 16) * 4 + c / 64))
       (b64char (c mod 64)) = Some [a; b; c].
Proof.
  intros Ha Hb Hc. destruct (arith3 a b c Ha Hb Hc) as (R1 & R2 & R3 & R4 & E1 & E2 & E3).
  unfold dec3. rewrite (proj1 (b64val_char _ R1)), (proj1 (b64val_char _ R2)),
    (proj1 (b64val_char _ R3)), (proj1 (b64val_char _ R4)), E1, E2, E3. reflexivity.
Qed.

Lemma dec2_enc a b : 0 <= a < 256 -> 0 <= b < 256 ->
  dec2 (b64char (a / 4)) (b64char ((a mod 4) * 16 + b / 16)) (b64char ((b mod 16) * 4)) = Some [a; b].
Proof.
  intros Ha Hb. destruct (arith3 a b 0 Ha Hb ltac:(lia)) as (R1 & R2 & R3 & R4 & E1 & E2 & E3).
  change (0 / 64) with 0 in *. rewrite Z.add_0_r in *.
  unfold dec2. rewrite (proj1 (b64val_char _ R1)), (proj1 (b64val_char _ R2)),
    (proj1 (b64val_char _ R3)), E1, E2. reflexivity.
Qed.

Lemma dec1_enc a : 0 <= a < 256 ->
  dec1 (b64char (a / 4)) (b64char ((a mod 4) * 16)) = Some [a].
Proof.
  intros Ha. destruct (arith3 a 0 0 Ha ltac:(lia) ltac:(lia)) as (R1 & R2 & R3 & R4 & E1 & E2 & E3).
  change (0 / 16) with 0 in *. rewrite Z.add_0_r in *.
  unfold dec1. rewrite (proj1 (b64val_char _ R1)), (proj1 (b64val_char _ R2)), E1. reflexivity.
Qed.

Lemma dec_raw_enc v : bytes v -> dec_raw (enc64 v) = Some v.
Proof.
  unfold bytes. induction v as [| a | a b | a b c r IH] using list_ind3; intro H.
  - reflexivity.
  - inversion H; subst. cbn [enc64 dec_raw]. apply dec1_enc. assumption.
  - inversion H as [|? ? Ha H']; subst. inversion H'; subst. cbn [enc64 dec_raw]. apply dec2_enc; assumption.
  - inversion H as [|? ? Ha H1]; subst. inversion H1 as [|? ? Hb H2]; subst. inversion H2 as [|? ? Hc H3]; subst.
    cbn [enc64 dec_raw]. rewrite (dec3_enc a b c Ha Hb Hc), (IH H3). reflexivity.
Qed.

Ltac no61 E := match type of E with
  | b64char ?s = 61 => exact (proj2 (b64val_char s ltac:(assumption)) E)
  | 61 = b64char ?s => exact (proj2 (b64val_char s ltac:(assumption)) (eq_sym E))
  end.

Lemma enc64_no_pad v : bytes v -> ~ In 61 (enc64 v).
Proof.
  unfold bytes. induction v as [| a | a b | a b c r IH] using list_ind3; intro H.
  - intros [].
  - inversion H; subst. destruct (arith3 a 0 0 ltac:(assumption) ltac:(lia) ltac:(lia)) as (R1 & R2 & _).
    change (0 / 16) with 0 in *. rewrite Z.add_0_r in *.
    cbn [enc64 In]. intros [E|[E|[]]]; no61 E.
  - inversion H as [|? ? Ha H']; subst. inversion H'; subst.
    destruct (arith3 a b 0 Ha ltac:(assumption) ltac:(lia)) as (R1 & R2 & R3 & _).
    change (0 / 64) with 0 in *. rewrite Z.add_0_r in *.
    cbn [enc64 In]. intros [E|[E|[E|[]]]]; no61 E.
  - inversion H as [|? ? Ha H1]; subst. inversion H1 as [|? ? Hb H2]; subst. inversion H2 as [|? ? Hc H3]; subst.
    destruct (arith3 a b c Ha Hb Hc) as (R1 & R2 & R3 & R4 & _).
    cbn [enc64 In]. intros [E|[E|[E|[E|Hi]]]]; try (no61 E).
    apply (IH H3 Hi).
Qed.

(* without '=' the padded decoder is the raw decoder (on lengths that are multiples of 4) *)
Lemma dec_std_raw s : ~ In 61 s -> Z.of_nat (length s) mod 4 = 0 -> dec_std s = dec_raw s.
Proof.
  induction s as [| a | a b | a b c | a b c d r IH] using list_ind4; intros Hn Hl;
    try reflexivity; try (cbn in Hl; discriminate).
  cbn [dec_std dec_raw]. destruct (Z.eqb_spec d 61) as [->|N].
  - exfalso. apply Hn. cbn. tauto.
  - cbn [andb]. rewrite IH; [reflexivity| |].
    + intro Hi. apply Hn. cbn. tauto.
    + cbn [length] in Hl. rewrite !Nat2Z.inj_succ in Hl. 
      replace (Z.succ (Z.succ (Z.succ (Z.succ (Z.of_nat (length r)))))) with (Z.of_nat (length r) + 1 * 4) in Hl by lia.
      rewrite Z.mod_add in Hl by lia. exact Hl.
Qed.

Theorem b64_roundtrip v : bytes v -> decode_bin (enc64 v) = Some v.
Proof.
  intro H. unfold decode_bin. destruct (Z.eqb_spec (Z.of_nat (length (enc64 v)) mod 4) 0) as [E|N].
  - rewrite dec_std_raw; [apply dec_raw_enc, H | apply enc64_no_pad, H | exact E].
  - apply dec_raw_enc, H.
Qed.

(* a peer that pads: enc64 v followed by "=" up to a multiple of 4 *)
Lemma pad64_spec v : bytes v ->
  Z.of_nat (length (pad64 (enc64 v))) mod 4 = 0 /\ dec_std (pad64 (enc64 v)) = Some v.
Proof.
  unfold bytes. induction v as [| a | a b | a b c r IH] using list_ind3; intro H.
  - split; reflexivity.
  - inversion H; subst. split; [reflexivity|].
    cbn [enc64]. unfold pad64. cbn [length app]. change (Z.of_nat 2 mod 4 =? 2) with true. cbn [app dec_std].
    rewrite Z.eqb_refl. cbn [andb]. apply dec1_enc. assumption.
  - inversion H as [|? ? Ha H']; subst. inversion H'; subst. split; [reflexivity|].
    cbn [enc64]. unfold pad64. cbn [length app]. change (Z.of_nat 3 mod 4 =? 2) with false.
    change (Z.of_nat 3 mod 4 =? 3) with true. cbn [app dec_std]. rewrite Z.eqb_refl. cbn [andb].
    destruct (arith3 a b 0 Ha ltac:(assumption) ltac:(lia)) as (_ & _ & R3 & _).
    change (0 / 64) with 0 in *. rewrite Z.add_0_r in *.
    destruct (Z.eqb_spec (b64char (b mod 16 * 4)) 61) as [E|N]; [exfalso; no61 E|].
    apply dec2_enc; assumption.
  - inversion H as [|? ? Ha H1]; subst. inversion H1 as [|? ? Hb H2]; subst. inversion H2 as [|? ? Hc H3]; subst.
    destruct (IH H3) as [IL ID].
    assert (EP: pad64 (enc64 (a :: b :: c :: r)) =
                b64char (a / 4) :: b64char ((a mod 4) * 16 + b / 16) :: b64char ((b mod 16) * 4 + c / 64) ::
                b64char (c mod 64) :: pad64 (enc64 r)).
    { cbn [enc64]. unfold pad64. cbn [length]. rewrite !Nat2Z.inj_succ.
      replace (Z.succ (Z.succ (Z.succ (Z.succ (Z.of_nat (length (enc64 r))))))) with (Z.of_nat (length (enc64 r)) + 1 * 4) by lia.
      rewrite Z.mod_add by lia.
      destruct (Z.of_nat (length (enc64 r)) mod 4 =? 2); [reflexivity|].
      destruct (Z.of_nat (length (enc64 r)) mod 4 =? 3); reflexivity. }
    rewrite EP. split.
    + cbn [length]. rewrite !Nat2Z.inj_succ.
      replace (Z.succ (Z.succ (Z.succ (Z.succ (Z.of_nat (length (pad64 (enc64 r)))))))) with (Z.of_nat (length (pad64 (enc64 r))) + 1 * 4) by lia.
      rewrite Z.mod_add by lia. exact IL.
    + cbn [dec_std]. destruct (arith3 a b c Ha Hb Hc) as (_ & _ & _ & R4 & _).
      destruct (Z.eqb_spec (b64char (c mod 64)) 61) as [E|N]; [exfalso; no61 E|].
      cbn [andb]. rewrite (dec3_enc a b c Ha Hb Hc), ID. reflexivity.
Qed.

Theorem b64_padded_roundtrip v : bytes v -> decode_bin (pad64 (enc64 v)) = Some v.
Proof.
  intro H. destruct (pad64_spec v H) as [L D]. unfold decode_bin. rewrite L. exact D.
Qed.

(* ---------- reserved names are never sent from user metadata ---------- *)

Lemma md_fields_not_reserved md f : In f (md_fields md) -> is_reserved (fst f) = false.
Proof.
  unfold md_fields. rewrite in_flat_map. intros (e & _ & Hi).
  destruct (is_reserved (fst e)) eqn:E; [destruct Hi|].
  apply in_map_iff in Hi as (v & <- & _). exact E.
Qed.

Lemma added_fields_not_reserved added f : In f (added_fields added) -> is_reserved (fst f) = false.
Proof.
  unfold added_fields. rewrite in_flat_map. intros (p & _ & Hi). cbv zeta in Hi.
  destruct (is_reserved (lower (fst p))) eqn:E; [destruct Hi|].
  destruct Hi as [<-|[]]. exact E.
Qed.

Theorem reserved_not_sent md added f :
  In f (md_fields md ++ added_fields added) -> is_reserved (fst f) = false.
Proof.
  rewrite in_app_iff. intros [H|H]; [eapply md_fields_not_reserved | eapply added_fields_not_reserved]; eauto.
Qed.

(* ---------- reserved names are not surfaced by the server ---------- *)

Definition surfaced_ok (k : str) : Prop :=
  is_reserved k = false \/ is_whitelisted k = true \/ k = n_content_type.

Lemma keys_store m k v : keys (store m k v) = add_key (keys m) k.
Proof. unfold store. apply keys_put. Qed.

Lemma surfaced_store m k v : (forall x, In x (keys m) -> surfaced_ok x) -> surfaced_ok k ->
  forall x, In x (keys (store m k v)) -> surfaced_ok x.
Proof.
  intros Hm Hk x. rewrite keys_store, In_add_key. intros [H| ->]; auto.
Qed.

Lemma srv_step_surfaced a f : (forall x, In x (keys (a_md a)) -> surfaced_ok x) ->
  forall x, In x (keys (a_md (srv_step a f))) -> surfaced_ok x.
Proof.
  intros Hm. unfold srv_step.
  destruct (str_eqb_spec (fst f) n_content_type) as [E|_].
  { destruct (str_eqb (snd f) ct_grpc); [|exact Hm]. cbn [a_md]. apply surfaced_store; [exact Hm|].
    right. right. exact E. }
  destruct (str_eqb_spec (fst f) n_grpc_accept_encoding) as [E|_].
  { cbn [a_md]. apply surfaced_store; [exact Hm|]. left. rewrite E. reflexivity. }
  destruct (str_eqb (fst f) n_method); [exact Hm|].
  destruct (existsb (str_eqb (fst f)) consumed_names); [exact Hm|].
  destruct (str_eqb (fst f) n_connection); [exact Hm|].
  destruct (is_reserved (fst f) && negb (is_whitelisted (fst f))) eqn:E; [exact Hm|].
  destruct (decode_hdr (fst f) (snd f)); [|exact Hm].
  cbn [a_md]. apply surfaced_store; [exact Hm|].
  apply andb_false_iff in E as [E|E]; [left; exact E|]. right. left. apply negb_false_iff, E.
Qed.

Lemma srv_fold_surfaced fs : forall a, (forall x, In x (keys (a_md a)) -> surfaced_ok x) ->
  forall x, In x (keys (a_md (fold_left srv_step fs a))) -> surfaced_ok x.
Proof.
  induction fs as [|f fs IH]; intros a Ha; cbn [fold_left]; [exact Ha|].
  apply IH, srv_step_surfaced, Ha.
Qed.

Theorem reserved_not_surfaced fs m k : srv_collect fs = SOk m -> In k (keys m) ->
  is_reserved k = true -> k = n_authority \/ k = n_user_agent \/ k = n_content_type.
Proof.
  unfold srv_collect.
  set (a := fold_left srv_step fs (mksacc [] false false false false)).
  assert (Ha: forall x, In x (keys (a_md a)) -> surfaced_ok x).
  { apply srv_fold_surfaced. intros x []. }
  destruct (_ || _); [discriminate|]. destruct (a_perr a); [discriminate|].
  destruct (negb (a_grpc a)); [discriminate|]. destruct (a_herr a); [discriminate|].
  destruct (negb (a_post a)); [discriminate|]. intro E. inversion E; subst m. clear E.
  intros Hk Hr.
  assert (S: surfaced_ok k).
  { destruct (getd n_authority (a_md a)).
    - destruct (get n_host (a_md a)); [|apply Ha, Hk].
      apply keys_del_incl in Hk. rewrite keys_put, In_add_key in Hk.
      destruct Hk as [Hk| ->]; [apply Ha, Hk | right; left; reflexivity].
    - apply keys_del_incl in Hk. apply Ha, Hk. }
  destruct S as [S|[S|S]]; [congruence| |auto].
  unfold is_whitelisted in S. apply orb_true_iff in S as [S|S]; apply str_eqb_eq in S; auto.
Qed.

(* ---------- valid user metadata arrives unchanged ---------- *)

Definition encf (p : str * str) : str * str := (fst p, encode_hdr (fst p) (snd p)).
Definition lowp (p : str * str) : str * str := (lower (fst p), snd p).

Lemma visible_pairs_entry k vs :
  visible (map (fun v => (k, v)) vs) = if is_reserved k then [] else map (fun v => (k, v)) vs.
Proof.
  unfold visible. induction vs as [|v vs IH]; cbn [map filter fst]; [destruct (is_reserved k); reflexivity|].
  rewrite IH. destruct (is_reserved k); reflexivity.
Qed.

Lemma md_fields_spec md : md_fields md = map encf (visible (pairs_of md)).
Proof.
  unfold md_fields, pairs_of, visible. induction md as [|[k vs] md IH]; cbn [flat_map fst snd]; [reflexivity|].
  rewrite filter_app, map_app, <- IH. f_equal. fold (visible (map (fun v => (k, v)) vs)).
  rewrite visible_pairs_entry. destruct (is_reserved k); [reflexivity|]. rewrite map_map. reflexivity.
Qed.

Lemma added_fields_spec added : added_fields added = map encf (visible (map lowp (concat added))).
Proof.
  unfold added_fields, visible. induction (concat added) as [|p l IH]; cbn [flat_map map filter]; [reflexivity|].
  rewrite IH. unfold lowp at 2. cbn [fst]. destruct (is_reserved (lower (fst p))); reflexivity.
Qed.

Lemma lowp_lowkv calls : map lowp (concat (map lowkv calls)) = concat (map lowkv calls).
Proof.
  induction calls as [|kv calls IH]; cbn [map concat]; [reflexivity|].
  rewrite map_app, IH. f_equal. unfold lowkv. rewrite map_map. apply map_ext.
  intro p. unfold lowp. cbn [fst snd]. rewrite lower_idem. reflexivity.
Qed.

Lemma user_fields_spec md calls :
  md_fields md ++ added_fields (map lowkv calls) = map encf (visible (user_pairs md calls)).
Proof.
  unfold user_pairs, visible. rewrite filter_app, map_app, md_fields_spec, added_fields_spec, lowp_lowkv.
  reflexivity.
Qed.

(* validation: the code's check is the per-pair check of the statement *)
Lemma validate_pair_vals k vs :
  validate_pair k vs = validate_key k && forallb (fun v => validate_pair k [v]) vs.
Proof.
  unfold validate_pair. destruct (validate_key k); cbn [andb]; [|reflexivity].
  destruct (ends_bin k); cbn [orb].
  - induction vs; cbn [forallb]; [reflexivity|]. exact IHvs.
  - induction vs as [|v vs IH]; cbn [forallb]; [reflexivity|]. rewrite IH, andb_true_r. reflexivity.
Qed.

Lemma forallb_map' {A B} (f : B -> bool) (g : A -> B) l : forallb f (map g l) = forallb (fun x => f (g x)) l.
Proof. induction l as [|x l IH]; cbn [map forallb]; [reflexivity|]. rewrite IH. reflexivity. Qed.

Lemma valid_user_validate_out md calls : validate_out md (map lowkv calls) = valid_user md calls.
Proof.
  unfold validate_out, valid_user, user_pairs. rewrite forallb_app.
  rewrite <- andb_assoc, (andb_comm (forallb _ (concat _))), andb_assoc. f_equal.
  unfold validate_md, pairs_of. induction md as [|[k vs] md IH]; cbn [forallb flat_map fst snd]; [reflexivity|].
  rewrite forallb_app, IH, validate_pair_vals, forallb_map'. cbn [fst snd].
  destruct (validate_key k), (forallb (fun v => validate_pair k [v]) vs); cbn [andb]; try reflexivity;
    rewrite ?andb_false_r; reflexivity.
Qed.

(* bytes *)
Definition all_bytes (ps : kvs) : Prop := forall p, In p ps -> bytes (snd p).

Lemma decode_encode_hdr k v : bytes v -> decode_hdr k (encode_hdr k v) = Some v.
Proof.
  intro H. unfold decode_hdr, encode_hdr. destruct (ends_bin k); [apply b64_roundtrip, H | reflexivity].
Qed.

Lemma consumed_reserved k : existsb (str_eqb k) consumed_names = true -> is_reserved k = true.
Proof.
  intro H. apply existsb_exists in H as (x & Hx & E). apply str_eqb_eq in E. subst x.
  cbn in Hx. repeat destruct Hx as [<-|Hx]; try reflexivity. destruct Hx.
Qed.

Lemma cli_consumed_reserved k : existsb (str_eqb k) cli_consumed = true -> is_reserved k = true.
Proof.
  intro H. apply existsb_exists in H as (x & Hx & E). apply str_eqb_eq in E. subst x.
  cbn in Hx. repeat destruct Hx as [<-|Hx]; try reflexivity. destruct Hx.
Qed.

Lemma srv_step_ordinary a k v : is_reserved k = false -> k <> n_connection -> bytes v ->
  srv_step a (k, encode_hdr k v) =
  mksacc (store (a_md a) k v) (a_grpc a) (a_perr a) (a_herr a) (a_post a).
Proof.
  intros Hr Hc Hb. unfold srv_step. cbn [fst snd].
  destruct (str_eqb_spec k n_content_type) as [->|_]; [discriminate Hr|].
  destruct (str_eqb_spec k n_grpc_accept_encoding) as [->|_]; [reflexivity|].
  destruct (str_eqb_spec k n_method) as [->|_]; [discriminate Hr|].
  destruct (existsb (str_eqb k) consumed_names) eqn:E; [apply consumed_reserved in E; congruence|].
  destruct (str_eqb_spec k n_connection); [contradiction|].
  rewrite Hr. cbn [andb]. rewrite (decode_encode_hdr k v Hb). reflexivity.
Qed.

Lemma srv_fold_ordinary ps : forall a,
  (forall p, In p ps -> is_reserved (fst p) = false /\ fst p <> n_connection /\ bytes (snd p)) ->
  fold_left srv_step (map encf ps) a =
  mksacc (fold_left add_kv ps (a_md a)) (a_grpc a) (a_perr a) (a_herr a) (a_post a).
Proof.
  induction ps as [|p ps IH]; intros a H; cbn [map fold_left]; [destruct a; reflexivity|].
  destruct (H p (or_introl eq_refl)) as (H1 & H2 & H3).
  change (encf p) with (fst p, encode_hdr (fst p) (snd p)). rewrite (srv_step_ordinary a _ _ H1 H2 H3), IH by (intros q Hq; apply H; right; exact Hq).
  reflexivity.
Qed.

Lemma cli_step_ordinary m k v : is_reserved k = false -> bytes v ->
  cli_step (Some m) (k, encode_hdr k v) = Some (store m k v).
Proof.
  intros Hr Hb. unfold cli_step. cbn [fst snd].
  destruct (str_eqb_spec k n_content_type) as [->|_]; [discriminate Hr|].
  destruct (existsb (str_eqb k) cli_consumed) eqn:E; [apply cli_consumed_reserved in E; congruence|].
  rewrite Hr. cbn [andb]. rewrite (decode_encode_hdr k v Hb). reflexivity.
Qed.

Lemma cli_fold_ordinary ps : forall m,
  (forall p, In p ps -> is_reserved (fst p) = false /\ bytes (snd p)) ->
  fold_left cli_step (map encf ps) (Some m) = Some (fold_left add_kv ps m).
Proof.
  induction ps as [|p ps IH]; intros m H; cbn [map fold_left]; [reflexivity|].
  destruct (H p (or_introl eq_refl)) as (H1 & H2).
  change (encf p) with (fst p, encode_hdr (fst p) (snd p)). rewrite (cli_step_ordinary m _ _ H1 H2). apply IH. intros q Hq. apply H. right. exact Hq.
Qed.

(* a map prefix whose keys are never touched stays in front *)
Lemma get_app_notin k (a b : mdt) : ~ In k (keys a) -> get k (a ++ b) = get k b.
Proof.
  unfold keys. induction a as [|[k0 v0] a IH]; cbn [map fst In app get]; intro H; [reflexivity|].
  destruct (str_eqb_spec k k0) as [->|N]; [tauto|]. apply IH. tauto.
Qed.

Lemma put_app_notin k v (a b : mdt) : ~ In k (keys a) -> put k v (a ++ b) = a ++ put k v b.
Proof.
  unfold keys. induction a as [|[k0 v0] a IH]; cbn [map fst In app put]; intro H; [reflexivity|].
  destruct (str_eqb_spec k k0) as [->|N]; [tauto|]. rewrite IH by tauto. reflexivity.
Qed.

Lemma fold_add_kv_prefix ps (a : mdt) : forall b, (forall p, In p ps -> ~ In (fst p) (keys a)) ->
  fold_left add_kv ps (a ++ b) = a ++ fold_left add_kv ps b.
Proof.
  induction ps as [|p ps IH]; intros b H; cbn [fold_left]; [reflexivity|].
  assert (Hp: ~ In (fst p) (keys a)) by (apply H; left; reflexivity).
  unfold add_kv at 2 4, store. unfold getd. rewrite (get_app_notin _ _ _ Hp), (put_app_notin _ _ _ _ Hp).
  apply IH. intros q Hq. apply H. right. exact Hq.
Qed.

Lemma keys_group_from ps : forall m, keys (fold_left add_kv ps m) = fold_left add_key (map fst ps) (keys m).
Proof.
  induction ps as [|p ps IH]; intro m; cbn [fold_left map]; [reflexivity|].
  rewrite IH. unfold add_kv. rewrite keys_store. reflexivity.
Qed.

Lemma keys_group ps k : In k (keys (group ps)) -> In k (map fst ps).
Proof.
  unfold group. rewrite keys_group_from, In_fold_add_key. cbn. tauto.
Qed.

Lemma NoDup_keys_group ps : NoDup (keys (group ps)).
Proof. unfold group. rewrite keys_group_from. apply NoDup_fold_add_key. constructor. Qed.

Lemma del_notin k m : ~ In k (keys m) -> del k m = m.
Proof.
  unfold keys. induction m as [|[k0 v0] m IH]; cbn [map fst In del]; intro H; [reflexivity|].
  destruct (str_eqb_spec k k0) as [->|N]; [tauto|]. rewrite IH by tauto. reflexivity.
Qed.

(* FromIncomingContext on a map with lowercase keys is a copy *)
Lemma from_in_id m : NoDup (keys m) -> (forall k, In k (keys m) -> lower k = k) -> from_in m = m.
Proof.
  intros Hn Hl. unfold from_in, from_base.
  assert (G: forall l acc, (forall e, In e l -> lower (fst e) = fst e) ->
             fold_left (fun o e => put (lower (fst e)) (snd e) o) l acc =
             fold_left (fun out e => put (fst e) (snd e) out) l acc).
  { induction l as [|e l IH]; intros acc H; cbn [fold_left]; [reflexivity|].
    rewrite (H e (or_introl eq_refl)). apply IH. intros e' He'. apply H. right. exact He'. }
  rewrite G.
  - apply (copy_fold m []). exact Hn.
  - intros e He. apply Hl. unfold keys. apply in_map. exact He.
Qed.

Lemma key_char_lower c : key_char c = true -> lower_b c = c.
Proof.
  unfold key_char, lower_b. intro H. destruct ((65 <=? c) && (c <=? 90)) eqn:E; [|reflexivity].
  apply andb_true_iff in E as [E1 E2]. apply Z.leb_le in E1, E2.
  repeat (apply orb_true_iff in H as [H|H]);
    rewrite ?andb_true_iff, ?Z.leb_le, ?Z.eqb_eq in H; lia.
Qed.

Lemma valid_key_lower k : validate_key k = true -> is_pseudo k = false -> lower k = k.
Proof.
  unfold validate_key, is_pseudo. destruct k as [|c r]; [discriminate|]. intros H Hp. rewrite Hp in H.
  unfold lower. induction (c :: r) as [|x l IH]; cbn [map forallb] in *; [reflexivity|].
  apply andb_true_iff in H as [H1 H2]. rewrite (key_char_lower _ H1), IH by exact H2. reflexivity.
Qed.

Lemma transport_fold auth :
  fold_left srv_step (transport_fields auth) (mksacc [] false false false false) =
  mksacc (transport_md auth) true false false true.
Proof. reflexivity. Qed.

Lemma header_prefix_fold :
  fold_left cli_step [(n_status, v_200); (n_content_type, ct_grpc)] (Some []) =
  Some [(n_content_type, [ct_grpc])].
Proof. reflexivity. Qed.

Lemma trailer_prefix_fold :
  fold_left cli_step [(n_grpc_status, [48]); (n_grpc_message, [])] (Some []) = Some [].
Proof. reflexivity. Qed.

Lemma visible_In ps p : In p (visible ps) <-> In p ps /\ is_reserved (fst p) = false.
Proof. unfold visible. rewrite filter_In, negb_true_iff. tauto. Qed.

Lemma cli_header h : all_bytes (pairs_of h) ->
  cli_collect (response_header_fields h) = Some ((n_content_type, [ct_grpc]) :: group (visible (pairs_of h))).
Proof.
  intro Hb. unfold cli_collect, response_header_fields. rewrite fold_left_app, header_prefix_fold, md_fields_spec.
  rewrite cli_fold_ordinary.
  - f_equal. change [(n_content_type, [ct_grpc])] with ([(n_content_type, [ct_grpc])] ++ (@nil (str * list str))).
    rewrite fold_add_kv_prefix; [reflexivity|].
    intros p Hp. apply visible_In in Hp as [_ Hr]. cbn. intros [E|[]]. rewrite <- E in Hr. discriminate.
  - intros p Hp. apply visible_In in Hp as [Hp Hr]. split; [exact Hr | apply Hb, Hp].
Qed.

Lemma trailer_fold t :
  fold_left cli_step (response_trailer_fields t) (Some []) = fold_left cli_step (md_fields t) (Some []).
Proof. reflexivity. Qed.

Lemma cli_trailer t : all_bytes (pairs_of t) ->
  cli_collect (response_trailer_fields t) = Some (group (visible (pairs_of t))).
Proof.
  intro Hb. unfold cli_collect. rewrite trailer_fold, md_fields_spec.
  rewrite cli_fold_ordinary; [reflexivity|].
  intros p Hp. apply visible_In in Hp as [Hp Hr]. split; [exact Hr | apply Hb, Hp].
Qed.

Lemma srv_request auth md calls :
  valid_user md calls = true -> has_hop md calls = false -> all_bytes (user_pairs md calls) ->
  srv_collect (request_fields auth md (map lowkv calls)) =
    SOk (transport_md auth ++ group (visible (user_pairs md calls))) /\
  from_in (transport_md auth ++ group (visible (user_pairs md calls))) =
    transport_md auth ++ group (visible (user_pairs md calls)).
Proof.
  intros Hv Hh Hb. set (ps := visible (user_pairs md calls)).
  assert (Hps: forall p, In p ps ->
            is_reserved (fst p) = false /\ fst p <> n_connection /\ fst p <> n_host /\ bytes (snd p) /\
            validate_key (fst p) = true).
  { intros p Hp. apply visible_In in Hp as [Hp Hr]. unfold has_hop in Hh.
    assert (Hn: hop_name (fst p) = false).
    { destruct (hop_name (fst p)) eqn:E; [|reflexivity].
      assert (existsb (fun p => hop_name (fst p)) (user_pairs md calls) = true) by (apply existsb_exists; eauto).
      congruence. }
    unfold hop_name in Hn. apply orb_false_iff in Hn as [Hn1 Hn2].
    unfold valid_user in Hv. apply andb_true_iff in Hv as [Hv _]. rewrite forallb_forall in Hv.
    specialize (Hv p Hp). unfold validate_pair in Hv. apply andb_true_iff in Hv as [Hv _].
    repeat split; auto.
    - intro E. rewrite E in Hn2. discriminate.
    - intro E. rewrite E in Hn1. discriminate. }
  assert (Hdisj: forall p, In p ps -> ~ In (fst p) (keys (transport_md auth))).
  { intros p Hp. destruct (Hps p Hp) as (Hr & _). cbn. intros [E|[E|[E|[]]]]; rewrite <- E in Hr; discriminate. }
  assert (Em: fold_left add_kv ps (transport_md auth) = transport_md auth ++ group ps).
  { rewrite <- (app_nil_r (transport_md auth)) at 1. apply fold_add_kv_prefix, Hdisj. }
  assert (Hkeys: forall k, In k (keys (transport_md auth ++ group ps)) ->
            In k (keys (transport_md auth)) \/ In k (map fst ps)).
  { intros k Hk. rewrite <- Em, keys_group_from, In_fold_add_key in Hk. exact Hk. }
  assert (Hhost: ~ In n_host (keys (transport_md auth ++ group ps))).
  { intro Hk. apply Hkeys in Hk as [Hk|Hk].
    - cbn in Hk. repeat destruct Hk as [Hk|Hk]; try discriminate. destruct Hk.
    - apply in_map_iff in Hk as (p & E & Hp). destruct (Hps p Hp) as (_ & _ & N & _). congruence. }
  split.
  - unfold request_fields. rewrite user_fields_spec. fold ps.
    unfold srv_collect. rewrite fold_left_app, transport_fold, srv_fold_ordinary
      by (intros p Hp; destruct (Hps p Hp) as (? & ? & ? & ? & ?); auto).
    cbn [a_md a_grpc a_perr a_herr a_post]. rewrite Em.
    assert (Ea: getd n_authority (transport_md auth ++ group ps) = [auth]) by reflexivity.
    assert (Eh: getd n_host (transport_md auth ++ group ps) = []).
    { unfold getd. apply get_none_notin in Hhost. rewrite Hhost. reflexivity. }
    rewrite Ea, Eh. cbn [negb]. change (lenZ [auth] >? 1) with false. change (lenZ (@nil str) >? 1) with false.
    cbn [orb]. rewrite (del_notin _ _ Hhost). reflexivity.
  - apply from_in_id.
    + rewrite <- Em, keys_group_from. apply NoDup_fold_add_key.
      cbn. repeat constructor; cbn; intuition discriminate.
    + intros k Hk. apply Hkeys in Hk as [Hk|Hk].
      * cbn in Hk. repeat destruct Hk as [<-|Hk]; try reflexivity. destruct Hk.
      * apply in_map_iff in Hk as (p & <- & Hp). destruct (Hps p Hp) as (Hr & _ & _ & _ & Hvk).
        apply valid_key_lower; [exact Hvk|]. unfold is_reserved in Hr. apply orb_false_iff in Hr. tauto.
Qed.

(* ---------- valid metadata passes the peer's framer ---------- *)

Lemma key_char_wire c : key_char c = true -> wire_name_char c = true.
Proof.
  unfold key_char, wire_name_char. intro H.
  repeat (apply orb_true_iff in H as [H|H]).
  - rewrite H. reflexivity.
  - rewrite H. apply orb_true_iff. left. apply orb_true_r.
  - apply Z.eqb_eq in H. subst. reflexivity.
  - apply Z.eqb_eq in H. subst. reflexivity.
  - apply Z.eqb_eq in H. subst. reflexivity.
Qed.

Lemma valid_key_wire k : validate_key k = true -> is_pseudo k = false -> wire_name_ok k = true.
Proof.
  unfold validate_key, is_pseudo, wire_name_ok. destruct k as [|c r]; [discriminate|]. intros H Hp.
  rewrite Hp in H. unfold is_pseudo. rewrite Hp. cbn [orb andb].
  induction (c :: r) as [|x l IH]; cbn [forallb] in *; [reflexivity|].
  apply andb_true_iff in H as [H1 H2]. rewrite (key_char_wire _ H1), IH by exact H2. reflexivity.
Qed.

Lemma printable_wire v : printable v = true -> wire_value_ok v = true.
Proof.
  unfold printable, wire_value_ok. induction v as [|c v IH]; cbn [forallb]; [reflexivity|].
  intro H. apply andb_true_iff in H as [H1 H2]. rewrite IH by exact H2.
  apply andb_true_iff in H1 as [Ha Hb]. apply Z.leb_le in Ha, Hb.
  destruct (Z.ltb_spec c 32); [lia|]. destruct (Z.eqb_spec c 127); [lia|]. reflexivity.
Qed.

Lemma b64char_wire s : 0 <= s < 64 -> 43 <= b64char s <= 122.
Proof.
  intro H. unfold b64char.
  destruct (Z.ltb_spec s 26); [lia|]. destruct (Z.ltb_spec s 52); [lia|].
  destruct (Z.ltb_spec s 62); [lia|]. destruct (Z.eqb_spec s 62); lia.
Qed.

Definition b64_range (c : Z) : bool := (43 <=? c) && (c <=? 122).

Lemma enc64_range v : bytes v -> forallb b64_range (enc64 v) = true.
Proof.
  assert (R: forall s, 0 <= s < 64 -> b64_range (b64char s) = true).
  { intros s Hs. pose proof (b64char_wire s Hs). unfold b64_range.
    apply andb_true_iff. split; apply Z.leb_le; lia. }
  unfold bytes. induction v as [| a | a b | a b c r IH] using list_ind3; intro H.
  - reflexivity.
  - inversion H; subst. destruct (arith3 a 0 0 ltac:(assumption) ltac:(lia) ltac:(lia)) as (R1 & R2 & _).
    change (0 / 16) with 0 in *. rewrite Z.add_0_r in *.
    cbn [enc64 forallb]. rewrite !R by assumption. reflexivity.
  - inversion H as [|? ? Ha H']; subst. inversion H'; subst.
    destruct (arith3 a b 0 Ha ltac:(assumption) ltac:(lia)) as (R1 & R2 & R3 & _).
    change (0 / 64) with 0 in *. rewrite Z.add_0_r in *.
    cbn [enc64 forallb]. rewrite !R by assumption. reflexivity.
  - inversion H as [|? ? Ha H1]; subst. inversion H1 as [|? ? Hb H2]; subst. inversion H2 as [|? ? Hc H3]; subst.
    destruct (arith3 a b c Ha Hb Hc) as (R1 & R2 & R3 & R4 & _).
    cbn [enc64 forallb]. rewrite !R by assumption. rewrite (IH H3). reflexivity.
Qed.

Lemma b64_range_wire l : forallb b64_range l = true -> wire_value_ok l = true.
Proof.
  unfold wire_value_ok, b64_range. induction l as [|c l IH]; cbn [forallb]; [reflexivity|].
  intro H. apply andb_true_iff in H as [H1 H2]. rewrite IH by exact H2.
  apply andb_true_iff in H1 as [Ha Hb]. apply Z.leb_le in Ha, Hb.
  destruct (Z.ltb_spec c 32); [lia|]. destruct (Z.eqb_spec c 127); [lia|]. reflexivity.
Qed.

Lemma md_fields_frame_ok m : validate_md m = true -> all_bytes (pairs_of m) -> frame_ok (md_fields m) = true.
Proof.
  intros Hv Hb. unfold frame_ok. apply forallb_forall. intros f Hf.
  unfold md_fields in Hf. apply in_flat_map in Hf as (e & He & Hf).
  destruct (is_reserved (fst e)) eqn:Er; [destruct Hf|].
  apply in_map_iff in Hf as (v & <- & Hv'). cbn [fst snd].
  unfold validate_md in Hv. rewrite forallb_forall in Hv. specialize (Hv e He).
  unfold validate_pair in Hv. apply andb_true_iff in Hv as [Hk Hvals].
  assert (Hp: is_pseudo (fst e) = false) by (unfold is_reserved in Er; apply orb_false_iff in Er; tauto).
  rewrite (valid_key_wire _ Hk Hp). cbn [andb].
  unfold encode_hdr. destruct (ends_bin (fst e)) eqn:Eb.
  - apply b64_range_wire, enc64_range.
    apply (Hb (fst e, v)). unfold pairs_of. apply in_flat_map. exists e. split; [exact He|].
    apply in_map. exact Hv'.
  - cbn [orb] in Hvals. rewrite forallb_forall in Hvals. apply printable_wire, Hvals, Hv'.
Qed.

Lemma header_frame_ok h : validate_md h = true -> all_bytes (pairs_of h) ->
  frame_ok (response_header_fields h) = true.
Proof.
  intros Hv Hb. unfold response_header_fields, frame_ok. rewrite forallb_app.
  fold (frame_ok (md_fields h)). rewrite (md_fields_frame_ok h Hv Hb). reflexivity.
Qed.

Lemma trailer_frame_ok t : validate_md t = true -> all_bytes (pairs_of t) ->
  frame_ok (response_trailer_fields t) = true.
Proof.
  intros Hv Hb.
  assert (E: frame_ok (response_trailer_fields t) = frame_ok (md_fields t)) by reflexivity.
  rewrite E. apply md_fields_frame_ok; assumption.
Qed.

Theorem rpc_faithful auth mode md calls h t :
  valid_user md calls = true -> has_hop md calls = false ->
  validate_md h = true -> validate_md t = true ->
  all_bytes (user_pairs md calls) -> all_bytes (pairs_of h) -> all_bytes (pairs_of t) ->
  rpc auth mode md calls h t = expect_ok auth md calls h t.
Proof.
  intros Hv Hh Hvh Hvt Hb Hbh Hbt. unfold rpc, rpc_sent, expect_ok.
  rewrite valid_user_validate_out, Hv. cbn [negb].
  destruct (srv_request auth md calls Hv Hh Hb) as [-> ->].
  rewrite Hvh. cbn [negb]. rewrite andb_false_r.
  rewrite (header_frame_ok h Hvh Hbh), (trailer_frame_ok t Hvt Hbt). cbn [negb].
  rewrite (cli_header h Hbh), (cli_trailer t Hbt). reflexivity.
Qed.

Theorem rpc_invalid_rejected auth mode md calls h t : valid_user md calls = false ->
  rpc auth mode md calls h t = fail_obs 13 0 [].
Proof. intro Hv. unfold rpc. rewrite valid_user_validate_out, Hv. reflexivity. Qed.

(* invalid header metadata on the ServerStream path is refused *)
Theorem stream_header_refused auth mode md calls h t :
  valid_user md calls = true -> has_hop md calls = false -> all_bytes (user_pairs md calls) ->
  mode <> 0 -> validate_md h = false ->
  rpc auth mode md calls h t =
    [13; 1; 1; 13] ++ dump (transport_md auth ++ group (visible (user_pairs md calls)))
                   ++ dump [] ++ dump [(n_content_type, [ct_grpc])].
Proof.
  intros Hv Hh Hb Hm Hvh. unfold rpc, rpc_sent.
  rewrite valid_user_validate_out, Hv. cbn [negb].
  destruct (srv_request auth md calls Hv Hh Hb) as [-> ->].
  rewrite Hvh. destruct (Z.eqb_spec mode 0); [contradiction|]. reflexivity.
Qed.

(* ---------- a raw peer with plain extra fields ---------- *)

Lemma wire_name_char_lower c : wire_name_char c = true -> lower_b c = c.
Proof.
  unfold wire_name_char, lower_b. intro H. destruct ((65 <=? c) && (c <=? 90)) eqn:E; [|reflexivity].
  apply andb_true_iff in E as [E1 E2]. apply Z.leb_le in E1, E2. exfalso.
  repeat (apply orb_true_iff in H as [H|H]);
    try (apply andb_true_iff in H as [H1 H2]; apply Z.leb_le in H1, H2; lia);
    try (apply Z.eqb_eq in H; lia); try discriminate.
Qed.

Lemma wire_chars_lower k : forallb wire_name_char k = true -> lower k = k.
Proof.
  unfold lower. induction k as [|c k IH]; cbn [map forallb]; [reflexivity|].
  intro H. apply andb_true_iff in H as [H1 H2]. rewrite (wire_name_char_lower _ H1), IH by exact H2. reflexivity.
Qed.

Lemma wire_name_lower k : is_pseudo k = false -> wire_name_ok k = true -> lower k = k.
Proof.
  unfold wire_name_ok. intros Hp H. rewrite Hp in H. cbn [orb] in H. apply andb_true_iff in H as [_ H].
  apply wire_chars_lower, H.
Qed.

(* the server's post-processing when the collected user pairs are not reserved, not host,
   lower case *)
Lemma srv_tail auth ps :
  (forall p, In p ps -> is_reserved (fst p) = false /\ fst p <> n_host /\ lower (fst p) = fst p) ->
  let m := transport_md auth ++ group ps in
  fold_left add_kv ps (transport_md auth) = m /\
  getd n_authority m = [auth] /\ getd n_host m = [] /\ del n_host m = m /\ from_in m = m.
Proof.
  intros Hps m.
  assert (Hdisj: forall p, In p ps -> ~ In (fst p) (keys (transport_md auth))).
  { intros p Hp. destruct (Hps p Hp) as (Hr & _). cbn. intros [E|[E|[E|[]]]]; rewrite <- E in Hr; discriminate. }
  assert (Em: fold_left add_kv ps (transport_md auth) = m).
  { unfold m. rewrite <- (app_nil_r (transport_md auth)) at 1. apply fold_add_kv_prefix, Hdisj. }
  assert (Hkeys: forall k, In k (keys m) -> In k (keys (transport_md auth)) \/ In k (map fst ps)).
  { intros k Hk. rewrite <- Em, keys_group_from, In_fold_add_key in Hk. exact Hk. }
  assert (Hhost: ~ In n_host (keys m)).
  { intro Hk. apply Hkeys in Hk as [Hk|Hk].
    - cbn in Hk. repeat destruct Hk as [Hk|Hk]; try discriminate. destruct Hk.
    - apply in_map_iff in Hk as (p & E & Hp). destruct (Hps p Hp) as (_ & N & _). congruence. }
  split; [exact Em|]. split; [reflexivity|]. split.
  { unfold getd. apply get_none_notin in Hhost. rewrite Hhost. reflexivity. }
  split; [apply del_notin, Hhost|].
  apply from_in_id.
  - rewrite <- Em, keys_group_from. apply NoDup_fold_add_key.
    cbn. repeat constructor; cbn; intuition discriminate.
  - intros k Hk. apply Hkeys in Hk as [Hk|Hk].
    + cbn in Hk. repeat destruct Hk as [<-|Hk]; try reflexivity. destruct Hk.
    + apply in_map_iff in Hk as (p & <- & Hp). destruct (Hps p Hp) as (_ & _ & Hl). exact Hl.
Qed.

Lemma srv_step_plain a f : is_pseudo (fst f) = false -> raw_plain_field f = true ->
  srv_step a f =
  mksacc (fold_left add_kv (raw_decoded [f]) (a_md a)) (a_grpc a) (a_perr a) (a_herr a) (a_post a).
Proof.
  intros Hp H. unfold raw_plain_field in H. apply andb_true_iff in H as [Hex Hd].
  apply negb_true_iff in Hex. cbn [existsb] in Hex. rewrite orb_false_r in Hex.
  apply orb_false_iff in Hex as [E1 Hex]. apply orb_false_iff in Hex as [E2 Hex]. apply orb_false_iff in Hex as [E3 E4].
  unfold srv_step, raw_decoded. cbn [flat_map]. rewrite app_nil_r. rewrite E1.
  destruct (str_eqb_spec (fst f) n_grpc_accept_encoding) as [E|_].
  { rewrite E. cbn. rewrite <- E. destruct a; reflexivity. }
  destruct (str_eqb_spec (fst f) n_method) as [E|_]; [rewrite E in Hp; discriminate|].
  destruct (existsb (str_eqb (fst f)) consumed_names) eqn:Ec.
  { rewrite (consumed_reserved _ Ec). destruct a; reflexivity. }
  rewrite E3.
  assert (Hw: is_whitelisted (fst f) = false).
  { unfold is_whitelisted. rewrite E2. destruct (str_eqb_spec (fst f) n_authority) as [E|_]; [rewrite E in Hp; discriminate|reflexivity]. }
  rewrite Hw. destruct (is_reserved (fst f)) eqn:Er; cbn [andb negb orb] in *.
  - destruct a; reflexivity.
  - destruct (decode_hdr (fst f) (snd f)); [reflexivity|discriminate].
Qed.

Lemma raw_decoded_cons f fs : raw_decoded (f :: fs) = raw_decoded [f] ++ raw_decoded fs.
Proof. unfold raw_decoded. cbn [flat_map]. rewrite app_nil_r. reflexivity. Qed.

Lemma srv_fold_plain extra : forall a,
  (forall f, In f extra -> is_pseudo (fst f) = false /\ raw_plain_field f = true) ->
  fold_left srv_step extra a =
  mksacc (fold_left add_kv (raw_decoded extra) (a_md a)) (a_grpc a) (a_perr a) (a_herr a) (a_post a).
Proof.
  induction extra as [|f extra IH]; intros a H; cbn [fold_left]; [destruct a; reflexivity|].
  destruct (H f (or_introl eq_refl)) as [Hp Hpl].
  rewrite (srv_step_plain a f Hp Hpl), IH by (intros g Hg; apply H; right; exact Hg).
  cbn [a_md a_grpc a_perr a_herr a_post]. rewrite (raw_decoded_cons f extra), fold_left_app. reflexivity.
Qed.

Theorem raw_faithful auth extra : raw_plain extra = true -> raw_rpc auth extra = raw_expect auth extra.
Proof.
  intro H. unfold raw_plain in H. apply andb_true_iff in H as [Hf Hpl].
  unfold raw_rpc, raw_expect. rewrite Hf. cbn [negb].
  unfold raw_frame_ok in Hf. rewrite forallb_forall in Hf, Hpl.
  assert (Hall: forall f, In f extra -> is_pseudo (fst f) = false /\ raw_plain_field f = true).
  { intros f Hi. specialize (Hf f Hi). apply andb_true_iff in Hf as [Hf _]. apply andb_true_iff in Hf as [Hf _].
    apply negb_true_iff in Hf. split; [exact Hf | apply Hpl, Hi]. }
  assert (Hps: forall p, In p (raw_decoded extra) ->
            is_reserved (fst p) = false /\ fst p <> n_host /\ lower (fst p) = fst p).
  { intros p Hp. unfold raw_decoded in Hp. apply in_flat_map in Hp as (f & Hi & Hp).
    destruct (is_reserved (fst f)) eqn:Er; [destruct Hp|].
    destruct (decode_hdr (fst f) (snd f)); [|destruct Hp]. destruct Hp as [<-|[]]. cbn [fst].
    split; [exact Er|]. split.
    - specialize (Hpl f Hi). unfold raw_plain_field in Hpl. apply andb_true_iff in Hpl as [Hex _].
      apply negb_true_iff in Hex. cbn [existsb] in Hex. intro E. rewrite E in Hex.
      rewrite (str_eqb_refl n_host) in Hex. rewrite !orb_true_r in Hex. discriminate.
    - specialize (Hf f Hi). apply andb_true_iff in Hf as [Hf _]. apply andb_true_iff in Hf as [Hp Hn].
      apply wire_name_lower; [apply negb_true_iff, Hp | exact Hn]. }
  destruct (srv_tail auth (raw_decoded extra) Hps) as (Em & Ea & Eh & Ed & Ei).
  unfold srv_collect. rewrite fold_left_app, transport_fold, (srv_fold_plain extra _ Hall).
  cbn [a_md a_grpc a_perr a_herr a_post]. rewrite Em, Ea, Eh. cbn [negb].
  change (lenZ [auth] >? 1) with false. change (lenZ (@nil str) >? 1) with false. cbn [orb].
  rewrite Ed, Ei. reflexivity.
Qed.

(* a peer that pads its base64: the handler sees the bytes *)
Lemma raw_padded_example :
  raw_rpc [97] [([107;45;98;105;110], pad64 (enc64 [0; 255; 97; 98]))] =
    [1; 0] ++ dump (transport_md [97] ++ [([107;45;98;105;110], [[0; 255; 97; 98]])]) /\
  raw_rpc [97] [([107;45;98;105;110], enc64 [0; 255; 97; 98])] =
    [1; 0] ++ dump (transport_md [97] ++ [([107;45;98;105;110], [[0; 255; 97; 98]])]).
Proof. vm_compute. split; reflexivity. Qed.

(* ---------- the executable predicate holds on every model trace ---------- *)

Definition bytes_b (v : list Z) : bool := forallb (fun x => (0 <=? x) && (x <? 256)) v.
Definition all_bytes_b (ps : kvs) : bool := forallb (fun p => bytes_b (snd p)) ps.

Lemma all_bytes_b_spec ps : all_bytes_b ps = true -> all_bytes ps.
Proof.
  unfold all_bytes_b, all_bytes, bytes, bytes_b. rewrite forallb_forall. intros H p Hp.
  specialize (H p Hp). rewrite forallb_forall in H. apply Forall_forall. intros x Hx.
  specialize (H x Hx). apply andb_true_iff in H as [H1 H2]. apply Z.leb_le in H1. apply Z.ltb_lt in H2. lia.
Qed.

(* well-formed operation: byte strings; metadata that is valid user metadata does not use
   the hop-by-hop names host/connection; the handler sets valid metadata *)
Definition rpcop_ok (o : rpcop) : bool :=
  all_bytes_b (user_pairs (o_md o) (o_calls o)) && all_bytes_b (pairs_of (o_h o)) &&
  all_bytes_b (pairs_of (o_t o)) && negb (has_hop (o_md o) (o_calls o)) &&
  validate_md (o_h o) && validate_md (o_t o).
(* pick metadata: the application's and the picker's metadata have no case-colliding base
   keys, and when both are valid the merged metadata is a well-formed op-1 input (valid, no
   hop-by-hop names, byte strings) *)
Definition pick_ok (o : rpcop) (p : mdt) : bool :=
  nodupb (map lower (keys (o_md o))) &&
  (if valid_user (o_md o) (o_calls o) && validate_md p
   then let m := pick_merged (o_md o) (o_calls o) p in
        valid_user m [] && rpcop_ok (mkop (o_mode o) m [] (o_h o) (o_t o))
   else true).
Definition op_wf (w : word) : bool :=
  match decode_op w with
  | Some o => rpcop_ok o
  | None => match decode_raw w with
            | Some extra => raw_plain extra
            | None => match decode_pick w with Some (o, p) => pick_ok o p | None => false end
            end
  end.

Lemma clause_rpc_model auth i o : rpcop_ok o = true ->
  snd (clause_rpc auth i o (rpc auth (o_mode o) (o_md o) (o_calls o) (o_h o) (o_t o))) = true.
Proof.
  intro H. unfold rpcop_ok in H. repeat (apply andb_true_iff in H as [H ?]). unfold clause_rpc.
  destruct (valid_user (o_md o) (o_calls o)) eqn:Hv; cbn [negb].
  - assert (Hh: has_hop (o_md o) (o_calls o) = false) by (apply negb_true_iff; assumption).
    rewrite Hh. match goal with Ha : validate_md (o_h o) = true, Hb : validate_md (o_t o) = true |- _ => rewrite Ha, Hb end.
    cbn [andb snd].
    rewrite rpc_faithful by (try assumption; apply all_bytes_b_spec; assumption).
    apply word_eqb_refl.
  - rewrite rpc_invalid_rejected by exact Hv. reflexivity.
Qed.

(* with valid application and pick metadata, the RPC is the op-1 RPC of the merged metadata *)
Lemma rpc_pick_merged auth mode md calls h t p :
  NoDup (map lower (keys md)) -> valid_user md calls = true -> validate_md p = true ->
  valid_user (pick_merged md calls p) [] = true ->
  rpc_pick auth mode md calls h t p = rpc (pick_auth auth p) mode (pick_merged md calls p) [] h t.
Proof.
  intros Hn Hv Hp Hm. unfold rpc_pick, rpc, pick_auth.
  rewrite (valid_user_validate_out (pick_merged md calls p) []), Hm.
  rewrite valid_user_validate_out, Hv, Hp. cbn [negb map].
  unfold pick_merged. rewrite lowered_keys in Hn.
  rewrite (from_out_spec md (map lowkv calls) Hn), spec_md_lowkv. reflexivity.
Qed.

Lemma rpc_pick_invalid auth mode md calls h t p :
  valid_user md calls && validate_md p = false -> rpc_pick auth mode md calls h t p = fail_obs 13 0 [].
Proof.
  intro H. unfold rpc_pick. rewrite valid_user_validate_out.
  destruct (valid_user md calls); [|reflexivity]. cbn [andb negb] in *. rewrite H. reflexivity.
Qed.

Lemma clause_op_model auth i w : op_wf w = true ->
  exists ob, run_op auth w = Some ob /\ snd (clause_op auth i w ob) = true.
Proof.
  unfold op_wf, run_op, clause_op. destruct (decode_op w) as [o|].
  { intro H. eexists; split; [reflexivity|]. apply clause_rpc_model, H. }
  destruct (decode_raw w) as [extra|].
  { intro H. eexists; split; [reflexivity|]. cbn [snd]. rewrite H, (raw_faithful auth extra H). apply word_eqb_refl. }
  destruct (decode_pick w) as [[o p]|]; [|discriminate]. intro H.
  eexists; split; [reflexivity|].
  unfold pick_ok in H. apply andb_true_iff in H as [Hn H]. apply nodupb_NoDup in Hn.
  destruct (valid_user (o_md o) (o_calls o) && validate_md p) eqn:Hv; cbn [negb].
  - apply andb_true_iff in H as [Hm Hok]. apply andb_true_iff in Hv as [Hv Hp].
    rewrite (rpc_pick_merged auth _ _ _ _ _ _ Hn Hv Hp Hm).
    apply (clause_rpc_model (pick_auth auth p) i _ Hok).
  - rewrite (rpc_pick_invalid _ _ _ _ _ _ _ Hv). reflexivity.
Qed.

Lemma model_trace_from auth ops : forall i, forallb op_wf ops = true ->
  exists obs, run_ops auth ops = Some obs /\
              forallb (fun c => snd c) (clauses_from auth i ops obs) = true.
Proof.
  induction ops as [|w ops IH]; intros i H; cbn [forallb run_ops] in *.
  - exists []. split; reflexivity.
  - apply andb_true_iff in H as [Hw Hr].
    destruct (clause_op_model auth i w Hw) as (ob & Ho & Hc).
    destruct (IH (i + 1) Hr) as (obs & Hrun & Hcs).
    rewrite Ho, Hrun. exists (ob :: obs). split; [reflexivity|].
    cbn [clauses_from forallb]. rewrite Hc, Hcs. reflexivity.
Qed.

Theorem model_trace_holds cfg ops : (exists a, get_auth cfg = Some a) -> forallb op_wf ops = true ->
  exists obs, run cfg ops = Some obs /\ holds_b cfg ops obs = true.
Proof.
  intros [a Ha] H. unfold run, holds_b, clauses. rewrite Ha. apply model_trace_from, H.
Qed.

(* ---------- hop-by-hop names: valid per the statement, yet they do not cross ---------- *)

Definition md_host1 : mdt := [(n_host, [[104]])].                 (* {"host": ["h"]} *)
Definition md_host2 : mdt := [(n_host, [[104]; [105]])].          (* {"host": ["h", "i"]} *)
Definition md_conn : mdt := [(n_connection, [[120]])].            (* {"connection": ["x"]} *)

Lemma hop_names_refuted :
  valid_user md_host1 [] = true /\ valid_user md_host2 [] = true /\ valid_user md_conn [] = true /\
  rpc [97] 0 md_host1 [] [] [] = expect_ok [97] [] [] [] [] /\      (* host silently dropped *)
  rpc [97] 0 md_host1 [] [] [] <> expect_ok [97] md_host1 [] [] [] /\
  rpc [97] 0 md_host2 [] [] [] = fail_obs 13 1 [(n_content_type, [ct_grpc])] /\
  rpc [97] 0 md_conn [] [] [] = fail_obs 13 1 [].
Proof. vm_compute. repeat split; try reflexivity. discriminate. Qed.

(* ---------- server-side metadata that the API does not validate ---------- *)

Definition h_hi : mdt := [([104], [[97; 128]])].      (* {"h": ["a\x80"]}: not printable ASCII *)
Definition h_del : mdt := [([104], [[97; 127]])].     (* {"h": ["a\x7f"]} *)

Lemma server_md_unvalidated_refuted :
  validate_md h_hi = false /\ validate_md h_del = false /\
  (* unary helper grpc.SetHeader: accepted, sent, delivered; the RPC succeeds *)
  rpc [97] 0 [] [] h_hi [] = [0; 1; 1; 0] ++ dump (transport_md [97]) ++
                             dump [(n_content_type, [ct_grpc]); ([104], [[97; 128]])] ++ dump [] /\
  (* unary helper, DEL: accepted and sent; it is the client's framer that kills the RPC *)
  rpc [97] 0 [] [] h_del [] = [13; 1; 1; 0] ++ dump (transport_md [97]) ++ dump [] ++ dump [] /\
  (* ServerStream.SetTrailer: logged, sent, delivered *)
  rpc [97] 1 [] [] [] h_hi = [0; 1; 1; 0] ++ dump (transport_md [97]) ++
                             dump [(n_content_type, [ct_grpc])] ++ dump [([104], [[97; 128]])] /\
  (* whereas ServerStream.SetHeader refuses it *)
  rpc [97] 1 [] [] h_hi [] = [13; 1; 1; 13] ++ dump (transport_md [97]) ++ dump [] ++
                             dump [(n_content_type, [ct_grpc])].
Proof. vm_compute. repeat split; reflexivity. Qed.

(* ---------- what [group] means: per key, the values in order ---------- *)

Definition single (p : str * str) : str * list str := (fst p, [snd p]).

Lemma group_foldA ps : forall m, fold_left add_kv ps m = fold_left stepA (map single ps) m.
Proof. induction ps as [|p ps IH]; intro m; cbn [fold_left map]; [reflexivity|]. apply IH. Qed.

Lemma sel_single k ps : sel k (map single ps) = map snd (filter (fun p => str_eqb (fst p) k) ps).
Proof.
  unfold sel. induction ps as [|p ps IH]; cbn [map filter]; [reflexivity|].
  unfold single at 1. cbn [fst]. destruct (str_eqb (fst p) k); cbn [map concat snd app]; rewrite IH; reflexivity.
Qed.

Theorem group_lookup k ps : getd k (group ps) = map snd (filter (fun p => str_eqb (fst p) k) ps).
Proof.
  unfold group, getd. rewrite group_foldA, get_foldA. rewrite <- sel_single.
  destruct (existsb (str_eqb k) (map fst (map single ps))) eqn:E; [reflexivity|].
  rewrite (sel_nomatch _ _ E). reflexivity.
Qed.
